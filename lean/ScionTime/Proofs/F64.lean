/-
  Proofs/F64.lean — lemmas about the software binary64 model (Model/F64.lean).
  Core Lean only (`grind` does the ordered-field reasoning over `Rat`).
-/
import ScionTime.Model.F64
namespace ScionTime.F64

/-! ### 0. small `Rat` helpers -/

theorem toRat_fin (q : Rat) : toRat (.fin q) = q := rfl
theorem toRat_zero (s : Bool) : toRat (.zero s) = 0 := rfl

theorem abs_le_iff {x b : Rat} : x.abs ≤ b ↔ -b ≤ x ∧ x ≤ b := by
  simp only [Rat.abs]; split <;> grind

theorem abs_lt_iff {x b : Rat} : x.abs < b ↔ -b < x ∧ x < b := by
  simp only [Rat.abs]; split <;> grind

theorem abs_mul (x y : Rat) : (x * y).abs = x.abs * y.abs := by
  by_cases hx : 0 ≤ x <;> by_cases hy : 0 ≤ y
  · rw [Rat.abs_of_nonneg (Rat.mul_nonneg hx hy), Rat.abs_of_nonneg hx, Rat.abs_of_nonneg hy]
  · have hy' : y ≤ 0 := by grind
    have h := Rat.mul_nonneg hx (show 0 ≤ -y by grind)
    rw [Rat.mul_neg] at h
    rw [Rat.abs_of_nonpos (show x * y ≤ 0 by grind), Rat.abs_of_nonneg hx, Rat.abs_of_nonpos hy',
      Rat.mul_neg]
  · have hx' : x ≤ 0 := by grind
    have h := Rat.mul_nonneg (show 0 ≤ -x by grind) hy
    rw [Rat.neg_mul] at h
    rw [Rat.abs_of_nonpos (show x * y ≤ 0 by grind), Rat.abs_of_nonpos hx', Rat.abs_of_nonneg hy,
      Rat.neg_mul]
  · have hx' : x ≤ 0 := by grind
    have hy' : y ≤ 0 := by grind
    have h := Rat.mul_nonneg (show 0 ≤ -x by grind) (show 0 ≤ -y by grind)
    rw [Rat.neg_mul, Rat.mul_neg, Rat.neg_neg] at h
    rw [Rat.abs_of_nonneg h, Rat.abs_of_nonpos hx', Rat.abs_of_nonpos hy', Rat.neg_mul, Rat.mul_neg,
      Rat.neg_neg]

/-! ### 1. powers of two -/

theorem pow2_eq_zpow (e : Int) : pow2 e = (2 : Rat) ^ e := by
  unfold pow2
  split
  · rename_i h
    obtain ⟨n, rfl⟩ := Int.eq_ofNat_of_zero_le h
    simp [Rat.zpow_natCast]
  · rename_i h
    obtain ⟨n, hn⟩ := Int.eq_ofNat_of_zero_le (show 0 ≤ -e by omega)
    have : e = -(n : Int) := by omega
    subst this
    simp [Rat.zpow_neg, Rat.zpow_natCast, Rat.div_def]

theorem pow2_pos (e : Int) : 0 < pow2 e := by
  rw [pow2_eq_zpow]; exact Rat.zpow_pos (by decide)

theorem pow2_ne_zero (e : Int) : pow2 e ≠ 0 := Rat.ne_of_gt (pow2_pos e)

theorem pow2_add (a b : Int) : pow2 (a + b) = pow2 a * pow2 b := by
  simp only [pow2_eq_zpow]; exact Rat.zpow_add (by decide) a b

theorem pow2_zero : pow2 0 = 1 := by decide
theorem pow2_one : pow2 1 = 2 := by decide

theorem pow2_neg (a : Int) : pow2 (-a) = 1 / pow2 a := by
  have h := pow2_add a (-a)
  have h0 := pow2_ne_zero a
  rw [show a + -a = 0 by omega, pow2_zero] at h
  grind

theorem pow2_sub (a b : Int) : pow2 (a - b) = pow2 a / pow2 b := by
  rw [Int.sub_eq_add_neg, pow2_add, pow2_neg]; grind

theorem pow2_succ (a : Int) : pow2 (a + 1) = 2 * pow2 a := by
  rw [pow2_add, pow2_one]; grind

theorem pow2_natCast (n : Nat) : pow2 (n : Int) = ((2 ^ n : Nat) : Rat) := by
  unfold pow2; simp

theorem one_le_pow2 {k : Int} (h : 0 ≤ k) : 1 ≤ pow2 k := by
  obtain ⟨n, rfl⟩ := Int.eq_ofNat_of_zero_le h
  rw [pow2_natCast]
  have : 1 ≤ 2 ^ n := Nat.one_le_two_pow
  exact_mod_cast this

theorem one_lt_pow2 {k : Int} (h : 0 < k) : 1 < pow2 k := by
  have := one_le_pow2 (show 0 ≤ k - 1 by omega)
  have h2 := pow2_succ (k - 1)
  rw [show k - 1 + 1 = k by omega] at h2
  grind

theorem pow2_mono {a b : Int} (h : a ≤ b) : pow2 a ≤ pow2 b := by
  have h1 := pow2_add a (b - a)
  rw [show a + (b - a) = b by omega] at h1
  have h2 := one_le_pow2 (show 0 ≤ b - a by omega)
  have h3 := pow2_pos a
  rw [h1]
  have := Rat.mul_le_mul_of_nonneg_left h2 (Rat.le_of_lt h3)
  grind

theorem pow2_strictMono {a b : Int} (h : a < b) : pow2 a < pow2 b := by
  have h1 := pow2_add a (b - a)
  rw [show a + (b - a) = b by omega] at h1
  have h2 := one_lt_pow2 (show 0 < b - a by omega)
  have h3 := pow2_pos a
  rw [h1]
  have := Rat.mul_lt_mul_of_pos_left h2 h3
  grind

theorem pow2_le_iff {a b : Int} : pow2 a ≤ pow2 b ↔ a ≤ b := by
  constructor
  · intro h
    by_cases hab : a ≤ b
    · exact hab
    · have := pow2_strictMono (show b < a by omega); grind
  · exact pow2_mono

theorem pow2_lt_iff {a b : Int} : pow2 a < pow2 b ↔ a < b := by
  constructor
  · intro h
    by_cases hab : a < b
    · exact hab
    · have := pow2_mono (show b ≤ a by omega); grind
  · exact pow2_strictMono

/-! ### 2. `floorLog2` -/

theorem le_div_iff {a b c : Rat} (hc : 0 < c) : a ≤ b / c ↔ a * c ≤ b := by
  have := @Rat.div_lt_iff b c a hc
  grind

theorem div_le_iff {a b c : Rat} (hb : 0 < b) : a / b ≤ c ↔ a ≤ c * b := by
  have := @Rat.lt_div_iff c a b hb
  grind

private theorem fl_core (N D A B P : Rat) (hA : A ≤ N) (hA2 : N < 2 * A) (hB : B ≤ D)
    (hB2 : D < 2 * B) (hP : P * B = A) (hPpos : 0 < P) (hDpos : 0 < D) :
    (P * D ≤ N → P ≤ N / D ∧ N / D < 2 * P) ∧ (N < P * D → P / 2 ≤ N / D ∧ N / D < P) := by
  have h1 := Rat.mul_le_mul_of_nonneg_left hB (Rat.le_of_lt hPpos)
  have h2 := Rat.mul_lt_mul_of_pos_left hB2 hPpos
  constructor
  · intro h
    rw [le_div_iff hDpos, Rat.div_lt_iff hDpos]
    grind
  · intro h
    rw [le_div_iff hDpos, Rat.div_lt_iff hDpos]
    grind

theorem natCast_log2_bounds {n : Nat} (hn : 0 < n) :
    pow2 (n.log2 : Int) ≤ (n : Rat) ∧ (n : Rat) < 2 * pow2 (n.log2 : Int) := by
  have h1 := Nat.log2_self_le (n := n) (by omega)
  have h2 := Nat.lt_log2_self (n := n)
  rw [pow2_natCast]
  constructor
  · exact_mod_cast h1
  · have : ((n : Nat) : Rat) < ((2 ^ (n.log2 + 1) : Nat) : Rat) := by exact_mod_cast h2
    rw [Nat.pow_succ] at this
    simp only [Rat.natCast_mul] at this
    grind

theorem floorLog2_spec {n d : Nat} (hn : 0 < n) (hd : 0 < d) :
    pow2 (floorLog2 n d) ≤ (n : Rat) / (d : Rat) ∧
    (n : Rat) / (d : Rat) < pow2 (floorLog2 n d + 1) := by
  obtain ⟨hA, hA2⟩ := natCast_log2_bounds hn
  obtain ⟨hB, hB2⟩ := natCast_log2_bounds hd
  have hD : (0 : Rat) < (d : Rat) := by exact_mod_cast hd
  have hP := pow2_add ((n.log2 : Int) - (d.log2 : Int)) (d.log2 : Int)
  rw [show (n.log2 : Int) - (d.log2 : Int) + (d.log2 : Int) = (n.log2 : Int) by omega] at hP
  have core := fl_core n d _ _ (pow2 ((n.log2 : Int) - (d.log2 : Int))) hA hA2 hB hB2 hP.symm
    (pow2_pos _) hD
  unfold floorLog2
  simp only []
  generalize (n.log2 : Int) - (d.log2 : Int) = l at *
  -- translate the Boolean test
  have hge : (if l ≥ 0 then decide (n ≥ d * 2 ^ l.toNat) else decide (n * 2 ^ (-l).toNat ≥ d)) = true
      ↔ pow2 l * (d : Rat) ≤ (n : Rat) := by
    by_cases hl : l ≥ 0
    · rw [if_pos hl, decide_eq_true_iff]
      unfold pow2; rw [if_pos hl]
      rw [← Rat.natCast_mul, Rat.natCast_le_natCast, Nat.mul_comm]
    · rw [if_neg hl, decide_eq_true_iff]
      unfold pow2; rw [if_neg hl]
      have hq : (0 : Rat) < ((2 ^ (-l).toNat : Nat) : Rat) := by
        exact_mod_cast Nat.two_pow_pos _
      rw [show (1 / ((2 ^ (-l).toNat : Nat) : Rat)) * (d : Rat) = (d : Rat) / ((2 ^ (-l).toNat : Nat) : Rat) by grind]
      rw [div_le_iff hq, ← Rat.natCast_mul, Rat.natCast_le_natCast]
  generalize (if l ≥ 0 then decide (n ≥ d * 2 ^ l.toNat) else decide (n * 2 ^ (-l).toNat ≥ d)) = b
    at hge
  cases b
  · have h' : (n : Rat) < pow2 l * (d : Rat) := by
      have := mt hge.2 (by decide); grind
    have := core.2 h'
    simp only [Bool.false_eq_true, if_false]
    rw [show l - 1 + 1 = l by omega]
    have h2 := pow2_succ (l - 1)
    rw [show l - 1 + 1 = l by omega] at h2
    grind
  · have := core.1 (hge.1 rfl)
    simp only [if_true]
    rw [pow2_succ]; exact this

theorem floorLog2_unique {n d : Nat} (hn : 0 < n) (hd : 0 < d) {k : Int}
    (h1 : pow2 k ≤ (n : Rat) / (d : Rat)) (h2 : (n : Rat) / (d : Rat) < pow2 (k + 1)) :
    floorLog2 n d = k := by
  obtain ⟨s1, s2⟩ := floorLog2_spec hn hd
  have a : k < floorLog2 n d + 1 := pow2_lt_iff.1 (by grind)
  have b : floorLog2 n d < k + 1 := pow2_lt_iff.1 (by grind)
  omega

/-- lower bounds transfer: `2^k ≤ n/d → k ≤ floorLog2 n d` -/
theorem le_floorLog2 {n d : Nat} (hn : 0 < n) (hd : 0 < d) {k : Int}
    (h : pow2 k ≤ (n : Rat) / (d : Rat)) : k ≤ floorLog2 n d := by
  obtain ⟨_, s2⟩ := floorLog2_spec hn hd
  have a : k < floorLog2 n d + 1 := pow2_lt_iff.1 (by grind)
  omega

/-- upper bounds transfer: `n/d < 2^k → floorLog2 n d < k` -/
theorem floorLog2_lt {n d : Nat} (hn : 0 < n) (hd : 0 < d) {k : Int}
    (h : (n : Rat) / (d : Rat) < pow2 k) : floorLog2 n d < k := by
  obtain ⟨s1, _⟩ := floorLog2_spec hn hd
  exact pow2_lt_iff.1 (by grind)

/-! ### 3. `roundHalfEven` -/

/-- the integer chosen by `roundHalfEven` before `toNat` -/
def rheInt (x : Rat) : Int :=
  let f := x.floor
  let r := x - (f : Rat)
  if r > 1/2 then f + 1 else if r < 1/2 then f else if f % 2 = 0 then f else f + 1

theorem roundHalfEven_eq (x : Rat) : roundHalfEven x = (rheInt x).toNat := rfl

theorem rheInt_err (x : Rat) :
    -(1/2) ≤ (rheInt x : Rat) - x ∧ (rheInt x : Rat) - x ≤ 1/2 := by
  have h1 := Rat.floor_le x
  have h2 := Rat.lt_floor_add_one x
  unfold rheInt
  simp only []
  split
  · simp only [Rat.intCast_add] at *; grind
  · split
    · grind
    · split
      · grind
      · simp only [Rat.intCast_add] at *; grind

theorem rheInt_nonneg {x : Rat} (hx : 0 ≤ x) : 0 ≤ rheInt x := by
  have h0 : (0 : Int) ≤ x.floor := Rat.le_floor_iff.2 (by simpa using hx)
  unfold rheInt
  simp only []
  split
  · omega
  · split
    · omega
    · split <;> omega

theorem roundHalfEven_cast {x : Rat} (hx : 0 ≤ x) : ((roundHalfEven x : Nat) : Rat) = (rheInt x : Rat) := by
  rw [roundHalfEven_eq, ← Rat.intCast_natCast, Int.toNat_of_nonneg (rheInt_nonneg hx)]

/-- item 3: the rounding error is at most one half -/
theorem roundHalfEven_err {x : Rat} (hx : 0 ≤ x) :
    -(1/2) ≤ ((roundHalfEven x : Nat) : Rat) - x ∧ ((roundHalfEven x : Nat) : Rat) - x ≤ 1/2 := by
  rw [roundHalfEven_cast hx]; exact rheInt_err x

theorem roundHalfEven_abs_err {x : Rat} (hx : 0 ≤ x) :
    (((roundHalfEven x : Nat) : Rat) - x).abs ≤ 1/2 := by
  rw [abs_le_iff]; exact roundHalfEven_err hx

theorem rheInt_mono {x y : Rat} (h : x ≤ y) : rheInt x ≤ rheInt y := by
  have ex := rheInt_err x
  have ey := rheInt_err y
  by_cases hc : rheInt x ≤ rheInt y
  · exact hc
  · exfalso
    have h1 : rheInt y + 1 ≤ rheInt x := by omega
    have h2 : ((rheInt y + 1 : Int) : Rat) ≤ (rheInt x : Rat) := Rat.intCast_le_intCast.2 h1
    simp only [Rat.intCast_add] at h2
    have hxy : x = y := by grind
    subst hxy
    omega

/-- item 3: monotone -/
theorem roundHalfEven_mono {x y : Rat} (h : x ≤ y) : roundHalfEven x ≤ roundHalfEven y := by
  rw [roundHalfEven_eq, roundHalfEven_eq]
  exact Int.toNat_le_toNat (rheInt_mono h)

theorem rheInt_intCast (k : Int) : rheInt (k : Rat) = k := by
  have e := rheInt_err (k : Rat)
  have h1 : ((rheInt (k : Rat) - k : Int) : Rat) < ((1 : Int) : Rat) := by
    simp only [Rat.intCast_sub]; grind
  have h2 : ((-1 : Int) : Rat) < ((rheInt (k : Rat) - k : Int) : Rat) := by
    simp only [Rat.intCast_sub, Rat.intCast_neg]; grind
  have h1' := Rat.intCast_lt_intCast.1 h1
  have h2' := Rat.intCast_lt_intCast.1 h2
  omega

theorem roundHalfEven_natCast (k : Nat) : roundHalfEven (k : Rat) = k := by
  rw [roundHalfEven_eq, ← Rat.intCast_natCast, rheInt_intCast]; simp

/-- integers below `x` stay below the rounded value -/
theorem le_roundHalfEven {x : Rat} {k : Nat} (h : (k : Rat) ≤ x) : k ≤ roundHalfEven x := by
  have := roundHalfEven_mono h; rwa [roundHalfEven_natCast] at this

/-- integers above `x` stay above the rounded value -/
theorem roundHalfEven_le {x : Rat} {k : Nat} (h : x ≤ (k : Rat)) : roundHalfEven x ≤ k := by
  have := roundHalfEven_mono h; rwa [roundHalfEven_natCast] at this

/-! ### 4. `roundNE`: structure

`rnd q` is the rounded value before the overflow test; `roundNE` is `rnd` plus the
classification zero / finite / infinite (`roundNE_eq`). -/

/-- exponent of the unit in the last place near `a > 0` -/
def ulpE (a : Rat) : Int := ulpExp a.num.natAbs a.den

/-- rounding of a non-negative rational to the grid `2^(ulpE a) · ℕ` -/
def rndPos (a : Rat) : Rat := ((roundHalfEven (a / pow2 (ulpE a)) : Nat) : Rat) * pow2 (ulpE a)

/-- the rounded value (sign-symmetric), without the overflow test -/
def rnd (q : Rat) : Rat := if q < 0 then -(rndPos (-q)) else rndPos q

theorem natCast_eq_zero {n : Nat} : ((n : Nat) : Rat) = 0 ↔ n = 0 := Rat.natCast_eq_zero_iff

theorem rndPos_eq_zero_iff (a : Rat) : rndPos a = 0 ↔ roundHalfEven (a / pow2 (ulpE a)) = 0 := by
  unfold rndPos
  rw [Rat.mul_eq_zero, natCast_eq_zero]
  have := pow2_ne_zero (ulpE a)
  grind

theorem rndPos_nonneg (a : Rat) : 0 ≤ rndPos a :=
  Rat.mul_nonneg Rat.natCast_nonneg (Rat.le_of_lt (pow2_pos _))

theorem roundNE_pos {q : Rat} (hq : 0 < q) :
    roundNE q = if rndPos q = 0 then .zero false
      else if rndPos q ≥ pow2 1024 then .inf false else .fin (rndPos q) := by
  have h0 : q ≠ 0 := by grind
  have hn : ¬ q < 0 := by grind
  unfold roundNE
  rw [if_neg h0]
  simp only [hn, decide_false, Bool.false_eq_true, if_false, overflowThreshold]
  simp only [rndPos_eq_zero_iff]
  rfl

theorem roundNE_neg {q : Rat} (hq : q < 0) :
    roundNE q = if rndPos (-q) = 0 then .zero true
      else if rndPos (-q) ≥ pow2 1024 then .inf true else .fin (-(rndPos (-q))) := by
  have h0 : q ≠ 0 := by grind
  unfold roundNE
  rw [if_neg h0]
  simp only [hq, decide_true, if_true, overflowThreshold]
  simp only [rndPos_eq_zero_iff]
  rfl

theorem roundNE_zero : roundNE 0 = .zero false := by
  unfold roundNE; simp

theorem rndPos_zero : rndPos 0 = 0 := by
  rw [rndPos_eq_zero_iff, Rat.div_def, Rat.zero_mul]
  exact roundHalfEven_natCast 0

theorem rnd_zero : rnd 0 = 0 := by
  unfold rnd; rw [if_neg (by decide)]; exact rndPos_zero

theorem rnd_neg (q : Rat) : rnd (-q) = -(rnd q) := by
  unfold rnd
  by_cases h : q < 0
  · rw [if_pos h, if_neg (by grind), Rat.neg_neg]
  · by_cases h0 : q = 0
    · subst h0; simp [rndPos_zero]
    · rw [if_neg h, if_pos (by grind), Rat.neg_neg]

theorem rnd_of_nonneg {q : Rat} (h : 0 ≤ q) : rnd q = rndPos q := by
  unfold rnd; rw [if_neg (by grind)]

theorem rnd_abs (q : Rat) : (rnd q).abs = rndPos q.abs := by
  by_cases h : 0 ≤ q
  · rw [rnd_of_nonneg h, Rat.abs_of_nonneg h, Rat.abs_of_nonneg (rndPos_nonneg q)]
  · have h' : q < 0 := by grind
    rw [Rat.abs_of_nonpos (Rat.le_of_lt h')]
    unfold rnd; rw [if_pos h', Rat.abs_neg, Rat.abs_of_nonneg (rndPos_nonneg _)]

/-- `roundNE` is `rnd` followed by classification -/
theorem roundNE_eq (q : Rat) :
    roundNE q = if q = 0 then .zero false
      else if rnd q = 0 then .zero (decide (q < 0))
      else if (rnd q).abs ≥ pow2 1024 then .inf (decide (q < 0)) else .fin (rnd q) := by
  by_cases h0 : q = 0
  · subst h0; rw [if_pos rfl]; exact roundNE_zero
  · rw [if_neg h0, rnd_abs]
    by_cases hn : q < 0
    · rw [roundNE_neg hn, Rat.abs_of_nonpos (Rat.le_of_lt hn)]
      unfold rnd
      simp only [hn, decide_true, if_true]
      have : (-(rndPos (-q)) = 0) ↔ rndPos (-q) = 0 := by grind
      simp only [this]
    · have hp : 0 < q := by grind
      rw [roundNE_pos hp, Rat.abs_of_nonneg (Rat.le_of_lt hp), rnd_of_nonneg (Rat.le_of_lt hp)]
      simp only [hn, decide_false]

/-- the value of a rounded rational, when it does not overflow -/
theorem toRat_roundNE {q : Rat} (h : (rnd q).abs < pow2 1024) : toRat (roundNE q) = rnd q := by
  rw [roundNE_eq]
  by_cases h0 : q = 0
  · subst h0; rw [if_pos rfl, rnd_zero]; rfl
  · rw [if_neg h0]
    by_cases h1 : rnd q = 0
    · rw [if_pos h1, h1]; rfl
    · rw [if_neg h1, if_neg (by grind)]; rfl

theorem isFinite_roundNE {q : Rat} (h : (rnd q).abs < pow2 1024) : isFinite (roundNE q) = true := by
  rw [roundNE_eq]
  by_cases h0 : q = 0
  · rw [if_pos h0]; rfl
  · rw [if_neg h0]
    by_cases h1 : rnd q = 0
    · rw [if_pos h1]; rfl
    · rw [if_neg h1, if_neg (by grind)]; rfl

/-- shape of a non-overflowing result: a signed zero or `.fin (rnd q)` -/
theorem roundNE_cases {q : Rat} (h : (rnd q).abs < pow2 1024) :
    (rnd q = 0 ∧ ∃ s, roundNE q = .zero s) ∨ (rnd q ≠ 0 ∧ roundNE q = .fin (rnd q)) := by
  rw [roundNE_eq]
  by_cases h0 : q = 0
  · subst h0; left; exact ⟨rnd_zero, false, by simp⟩
  · rw [if_neg h0]
    by_cases h1 : rnd q = 0
    · left; rw [if_pos h1]; exact ⟨h1, _, rfl⟩
    · right; rw [if_neg h1, if_neg (by grind)]; exact ⟨h1, rfl⟩

/-! ### 4b. the exponent `ulpE` -/

theorem pos_num_den {a : Rat} (h : 0 < a) :
    0 < a.num.natAbs ∧ ((a.num.natAbs : Nat) : Rat) / ((a.den : Nat) : Rat) = a := by
  have hn : 0 ≤ a.num := Rat.num_nonneg.2 (Rat.le_of_lt h)
  have hz : a.num ≠ 0 := fun hz => by have := Rat.num_eq_zero.1 hz; grind
  refine ⟨by omega, ?_⟩
  have e := Rat.num_divInt_den a
  rw [Rat.divInt_eq_div] at e
  rw [← Rat.intCast_natCast, ← Rat.intCast_natCast (a.den), Int.natAbs_of_nonneg hn]
  exact e

/-- binade of `a > 0` and the exponent of its unit in the last place -/
theorem ulpE_spec {a : Rat} (h : 0 < a) :
    ∃ L : Int, pow2 L ≤ a ∧ a < pow2 (L + 1) ∧
      ulpE a = if L - 52 < -1074 then -1074 else L - 52 := by
  obtain ⟨hn, e⟩ := pos_num_den h
  have s := floorLog2_spec hn a.den_pos
  rw [e] at s
  exact ⟨_, s.1, s.2, by unfold ulpE ulpExp precBits minExp; simp only []; rfl⟩

theorem ulpE_of_bounds {a : Rat} {L : Int} (h1 : pow2 L ≤ a) (h2 : a < pow2 (L + 1)) :
    ulpE a = if L - 52 < -1074 then -1074 else L - 52 := by
  have hp : 0 < a := by have := pow2_pos L; grind
  obtain ⟨hn, e⟩ := pos_num_den hp
  have u := floorLog2_unique hn a.den_pos (k := L) (by rw [e]; exact h1) (by rw [e]; exact h2)
  unfold ulpE ulpExp precBits minExp; simp only []; rw [u]; rfl

theorem ulpE_ge (a : Rat) : -1074 ≤ ulpE a := by
  unfold ulpE ulpExp precBits minExp; simp only []; split <;> omega

theorem ulpE_mono {a b : Rat} (ha : 0 < a) (hab : a ≤ b) : ulpE a ≤ ulpE b := by
  obtain ⟨La, a1, a2, ea⟩ := ulpE_spec ha
  obtain ⟨Lb, b1, b2, eb⟩ := ulpE_spec (show 0 < b by grind)
  have : La < Lb + 1 := pow2_lt_iff.1 (by grind)
  rw [ea, eb]; split <;> split <;> omega

/-- normal range: the unit in the last place is at most `a / 2^52` -/
theorem pow2_ulpE_le {a : Rat} (h : pow2 (-1022) ≤ a) : pow2 (ulpE a) ≤ a / pow2 52 := by
  have hp : 0 < a := by have := pow2_pos (-1022); grind
  obtain ⟨L, a1, a2, e⟩ := ulpE_spec hp
  have : -1022 < L + 1 := pow2_lt_iff.1 (by grind)
  rw [e, if_neg (by omega), pow2_sub, le_div_iff (pow2_pos 52)]
  have := pow2_pos 52
  rw [Rat.div_mul_cancel (pow2_ne_zero 52)]; exact a1

/-- subnormal range: the unit in the last place is `2^-1074` -/
theorem ulpE_subnormal {a : Rat} (h0 : 0 < a) (h : a < pow2 (-1022)) : ulpE a = -1074 := by
  obtain ⟨L, a1, a2, e⟩ := ulpE_spec h0
  have : L < -1022 := pow2_lt_iff.1 (by grind)
  rw [e, if_pos (by omega)]

/-! ### 4c. error of `rndPos` / `rnd` (item 4) -/

theorem rndPos_err {a : Rat} (h : 0 ≤ a) :
    -(pow2 (ulpE a) / 2) ≤ rndPos a - a ∧ rndPos a - a ≤ pow2 (ulpE a) / 2 := by
  have hP := pow2_pos (ulpE a)
  have hx : 0 ≤ a / pow2 (ulpE a) := by
    rw [le_div_iff hP]; grind
  obtain ⟨e1, e2⟩ := roundHalfEven_err hx
  have hxa : a / pow2 (ulpE a) * pow2 (ulpE a) = a := Rat.div_mul_cancel (pow2_ne_zero _)
  unfold rndPos
  generalize a / pow2 (ulpE a) = x at *
  generalize ((roundHalfEven x : Nat) : Rat) = m at *
  generalize pow2 (ulpE a) = P at *
  have m1 := Rat.mul_le_mul_of_nonneg_right e1 (Rat.le_of_lt hP)
  have m2 := Rat.mul_le_mul_of_nonneg_right e2 (Rat.le_of_lt hP)
  grind

/-- absolute error: half a unit in the last place of `|q|` -/
theorem rnd_err (q : Rat) : (rnd q - q).abs ≤ pow2 (ulpE q.abs) / 2 := by
  rw [abs_le_iff]
  by_cases h : 0 ≤ q
  · rw [rnd_of_nonneg h, Rat.abs_of_nonneg h]; exact rndPos_err h
  · have h' : q < 0 := by grind
    have := rndPos_err (show 0 ≤ -q by grind)
    rw [Rat.abs_of_nonpos (Rat.le_of_lt h')]
    unfold rnd; rw [if_pos h']; grind

/-- relative error in the normal range: `|rnd q − q| ≤ |q| / 2^53` -/
theorem rnd_err_rel {q : Rat} (h : pow2 (-1022) ≤ q.abs) : (rnd q - q).abs ≤ q.abs / pow2 53 := by
  have e := rnd_err q
  have u := pow2_ulpE_le h
  have h53 : pow2 53 = 2 * pow2 52 := pow2_succ 52
  have hp := pow2_pos 52
  rw [le_div_iff hp] at u
  rw [le_div_iff (pow2_pos 53), h53]
  have := Rat.mul_le_mul_of_nonneg_right e (show 0 ≤ 2 * pow2 52 by grind)
  grind

/-- absolute error in the subnormal range: `|rnd q − q| ≤ 2^-1075` -/
theorem rnd_err_sub {q : Rat} (h : q.abs < pow2 (-1022)) : (rnd q - q).abs ≤ pow2 (-1075) := by
  by_cases h0 : q = 0
  · subst h0; rw [rnd_zero, Rat.sub_self, Rat.abs_zero]; exact Rat.le_of_lt (pow2_pos _)
  · have e := rnd_err q
    rw [ulpE_subnormal (Rat.abs_pos_iff.2 h0) h] at e
    have := pow2_succ (-1075)
    rw [show (-1075 : Int) + 1 = -1074 by omega] at this
    grind

/-- standard model, all magnitudes: `|rnd q − q| ≤ |q| / 2^53 + 2^-1075` -/
theorem rnd_err_gen (q : Rat) : (rnd q - q).abs ≤ q.abs / pow2 53 + pow2 (-1075) := by
  have hq : 0 ≤ q.abs / pow2 53 := by
    rw [le_div_iff (pow2_pos 53)]; have := @Rat.abs_nonneg q; grind
  have := pow2_pos (-1075)
  by_cases h : pow2 (-1022) ≤ q.abs
  · have := rnd_err_rel h; grind
  · have := rnd_err_sub (show q.abs < pow2 (-1022) by grind); grind

/-! ### 5. grid points, monotonicity, exactness (item 5) -/

theorem pow2_split {K e : Int} (h : e ≤ K) :
    pow2 K = ((2 ^ (K - e).toNat : Nat) : Rat) * pow2 e := by
  have h1 := pow2_add (K - e) e
  rw [show K - e + e = K by omega] at h1
  rw [h1, ← pow2_natCast, Int.toNat_of_nonneg (by omega)]

/-- a multiple of `2^K`, `K ≥ ulpE a`, is a grid point: written on the grid of `a` -/
theorem grid_eq {a : Rat} {k : Nat} {K : Int} (hK : ulpE a ≤ K) :
    (k : Rat) * pow2 K = ((k * 2 ^ (K - ulpE a).toNat : Nat) : Rat) * pow2 (ulpE a) := by
  rw [pow2_split hK, Rat.natCast_mul]; grind

/-- rounding never crosses a grid point above -/
theorem rndPos_le_grid {a : Rat} {k : Nat} {K : Int} (hK : ulpE a ≤ K)
    (h : a ≤ (k : Rat) * pow2 K) : rndPos a ≤ (k : Rat) * pow2 K := by
  have hP := pow2_pos (ulpE a)
  rw [grid_eq hK] at h ⊢
  have hx : a / pow2 (ulpE a) ≤ ((k * 2 ^ (K - ulpE a).toNat : Nat) : Rat) := by
    rw [div_le_iff hP]; exact h
  have := Rat.natCast_le_natCast.2 (roundHalfEven_le hx)
  exact Rat.mul_le_mul_of_nonneg_right this (Rat.le_of_lt hP)

/-- rounding never crosses a grid point below -/
theorem grid_le_rndPos {a : Rat} {k : Nat} {K : Int} (hK : ulpE a ≤ K)
    (h : (k : Rat) * pow2 K ≤ a) : (k : Rat) * pow2 K ≤ rndPos a := by
  have hP := pow2_pos (ulpE a)
  rw [grid_eq hK] at h ⊢
  have hx : ((k * 2 ^ (K - ulpE a).toNat : Nat) : Rat) ≤ a / pow2 (ulpE a) := by
    rw [le_div_iff hP]; exact h
  have := Rat.natCast_le_natCast.2 (le_roundHalfEven hx)
  exact Rat.mul_le_mul_of_nonneg_right this (Rat.le_of_lt hP)

/-- grid points round to themselves -/
theorem rndPos_grid {a : Rat} {k : Nat} {K : Int} (hK : ulpE a ≤ K)
    (h : a = (k : Rat) * pow2 K) : rndPos a = a := by
  have h1 := rndPos_le_grid hK (by rw [← h]; exact Rat.le_refl)
  have h2 := grid_le_rndPos hK (by rw [← h]; exact Rat.le_refl)
  rw [← h] at h1 h2
  exact Rat.le_antisymm h1 h2

theorem div_le_div_right {a b c : Rat} (hc : 0 < c) (h : a ≤ b) : a / c ≤ b / c := by
  rw [div_le_iff hc, Rat.div_mul_cancel (by grind)]; exact h

theorem rndPos_mono_pos {a b : Rat} (ha : 0 < a) (hab : a ≤ b) : rndPos a ≤ rndPos b := by
  have hb : 0 < b := by grind
  have hm := ulpE_mono ha hab
  by_cases he : ulpE a = ulpE b
  · unfold rndPos
    rw [he]
    have hP := pow2_pos (ulpE b)
    have := Rat.natCast_le_natCast.2 (roundHalfEven_mono (div_le_div_right hP hab))
    exact Rat.mul_le_mul_of_nonneg_right this (Rat.le_of_lt hP)
  · obtain ⟨La, a1, a2, ea⟩ := ulpE_spec ha
    obtain ⟨Lb, b1, b2, eb⟩ := ulpE_spec hb
    have hga := ulpE_ge a
    -- the power of two `2^Lb` separates a and b and lies on both grids
    have hLb : ulpE b = Lb - 52 := by rw [eb]; split <;> omega
    have hLab : La + 1 ≤ Lb := by
      rw [ea, eb] at hm he; split at he <;> split at he <;> omega
    have hsep : a ≤ ((1 : Nat) : Rat) * pow2 Lb := by
      have := pow2_mono hLab; simp; grind
    have hsep' : ((1 : Nat) : Rat) * pow2 Lb ≤ b := by simp; exact b1
    exact Rat.le_trans (rndPos_le_grid (by omega) hsep) (grid_le_rndPos (by omega) hsep')

theorem rndPos_mono {a b : Rat} (ha : 0 ≤ a) (hab : a ≤ b) : rndPos a ≤ rndPos b := by
  by_cases h0 : a = 0
  · subst h0; rw [rndPos_zero]; exact rndPos_nonneg b
  · exact rndPos_mono_pos (by grind) hab

/-- item 5: rounding is monotone (on all of ℚ, before the overflow test) -/
theorem rnd_mono {p q : Rat} (h : p ≤ q) : rnd p ≤ rnd q := by
  unfold rnd
  by_cases hp : p < 0 <;> by_cases hq : q < 0
  · rw [if_pos hp, if_pos hq]
    have := rndPos_mono (a := -q) (b := -p) (by grind) (by grind); grind
  · rw [if_pos hp, if_neg hq]
    have := rndPos_nonneg (-p); have := rndPos_nonneg q; grind
  · exfalso; grind
  · rw [if_neg hp, if_neg hq]; exact rndPos_mono (by grind) h

theorem rnd_nonneg {q : Rat} (h : 0 ≤ q) : 0 ≤ rnd q := by
  have := rnd_mono h; rwa [rnd_zero] at this

theorem rnd_nonpos {q : Rat} (h : q ≤ 0) : rnd q ≤ 0 := by
  have := rnd_mono h; rwa [rnd_zero] at this

/-! ### 5b. representable values -/

theorem pow2_53 : pow2 53 = ((2 ^ 53 : Nat) : Rat) := pow2_natCast 53

theorem ulpE_grid_le {k : Nat} {K : Int} (hk : 0 < k) (hk' : k < 2 ^ 53) (hK : -1074 ≤ K) :
    ulpE ((k : Rat) * pow2 K) ≤ K := by
  have hP := pow2_pos K
  have hkr : (0 : Rat) < (k : Rat) := Rat.natCast_pos.2 hk
  have hpos : 0 < (k : Rat) * pow2 K := Rat.mul_pos hkr hP
  obtain ⟨L, a1, a2, e⟩ := ulpE_spec hpos
  have hlt : (k : Rat) * pow2 K < pow2 (53 + K) := by
    rw [pow2_add, pow2_53]
    exact Rat.mul_lt_mul_of_pos_right (Rat.natCast_lt_natCast.2 hk') hP
  have : L < 53 + K := pow2_lt_iff.1 (by grind)
  rw [e]; split <;> omega

/-- `k · 2^K` with `k < 2^53`, `K ≥ -1074` rounds to itself -/
theorem rndPos_rep {k : Nat} {K : Int} (hk' : k < 2 ^ 53) (hK : -1074 ≤ K) :
    rndPos ((k : Rat) * pow2 K) = (k : Rat) * pow2 K := by
  by_cases hk : k = 0
  · subst hk; simp [rndPos_zero]
  · exact rndPos_grid (ulpE_grid_le (by omega) hk' hK) rfl

/-- exactly representable finite values: `m · 2^K`, `|m| < 2^53`, `K ≥ -1074` -/
def Rep (v : Rat) : Prop := ∃ (m : Int) (K : Int), m.natAbs < 2 ^ 53 ∧ -1074 ≤ K ∧ v = (m : Rat) * pow2 K

theorem Rep.neg {v : Rat} (h : Rep v) : Rep (-v) := by
  obtain ⟨m, K, h1, h2, h3⟩ := h
  exact ⟨-m, K, by omega, h2, by rw [h3, Rat.intCast_neg, Rat.neg_mul]⟩

theorem rep_natCast_mul {k : Nat} {K : Int} (hk : k < 2 ^ 53) (hK : -1074 ≤ K) :
    Rep ((k : Rat) * pow2 K) :=
  ⟨k, K, by omega, hK, by rw [Rat.intCast_natCast]⟩

/-- item 5: representable values round to themselves -/
theorem rnd_of_rep {v : Rat} (h : Rep v) : rnd v = v := by
  obtain ⟨m, K, h1, h2, h3⟩ := h
  subst h3
  by_cases hm : 0 ≤ m
  · obtain ⟨k, rfl⟩ := Int.eq_ofNat_of_zero_le hm
    have hP := pow2_pos K
    rw [Rat.intCast_natCast, rnd_of_nonneg (Rat.mul_nonneg Rat.natCast_nonneg (Rat.le_of_lt hP))]
    exact rndPos_rep (by omega) h2
  · obtain ⟨k, hk⟩ := Int.eq_ofNat_of_zero_le (show 0 ≤ -m by omega)
    have hm' : m = -(k : Int) := by omega
    subst hm'
    have hP := pow2_pos K
    rw [Rat.intCast_neg, Rat.neg_mul, rnd_neg, Rat.intCast_natCast,
      rnd_of_nonneg (Rat.mul_nonneg Rat.natCast_nonneg (Rat.le_of_lt hP)),
      rndPos_rep (by omega) h2]

theorem rep_pow2 {K : Int} (hK : -1074 ≤ K) : Rep (pow2 K) :=
  ⟨1, K, by decide, hK, by simp⟩

theorem rep_intCast {i : Int} (h : i.natAbs ≤ 2 ^ 53) : Rep (i : Rat) := by
  by_cases h' : i.natAbs < 2 ^ 53
  · exact ⟨i, 0, h', by omega, by rw [pow2_zero, Rat.mul_one]⟩
  · have h2 : i = 2 ^ 53 ∨ i = -(2 ^ 53) := by omega
    rcases h2 with rfl | rfl
    · have := rep_pow2 (K := 53) (by omega); rw [pow2_53] at this; exact_mod_cast this
    · have := (rep_pow2 (K := 53) (by omega)).neg; rw [pow2_53] at this; exact_mod_cast this

/-- the result of rounding is representable -/
theorem rep_rndPos {a : Rat} (ha : 0 < a) : Rep (rndPos a) := by
  obtain ⟨L, a1, a2, e⟩ := ulpE_spec ha
  have hge := ulpE_ge a
  have hP := pow2_pos (ulpE a)
  have hle : roundHalfEven (a / pow2 (ulpE a)) ≤ 2 ^ 53 := by
    apply roundHalfEven_le
    rw [div_le_iff hP, ← pow2_53, ← pow2_add]
    have : pow2 (L + 1) ≤ pow2 (53 + ulpE a) := pow2_mono (by rw [e]; split <;> omega)
    grind
  unfold rndPos
  by_cases hlt : roundHalfEven (a / pow2 (ulpE a)) < 2 ^ 53
  · exact rep_natCast_mul hlt hge
  · have : roundHalfEven (a / pow2 (ulpE a)) = 2 ^ 53 := by omega
    rw [this, ← pow2_53, ← pow2_add]
    exact rep_pow2 (by omega)

theorem rep_rnd (q : Rat) : Rep (rnd q) := by
  by_cases h0 : q = 0
  · subst h0; rw [rnd_zero]; exact ⟨0, 0, by decide, by omega, by simp⟩
  · unfold rnd
    split
    · exact (rep_rndPos (by grind)).neg
    · exact rep_rndPos (by grind)

theorem rnd_idem (q : Rat) : rnd (rnd q) = rnd q := rnd_of_rep (rep_rnd q)

/-- bounds by representable values survive rounding -/
theorem rnd_le_of_le_rep {q v : Rat} (hv : Rep v) (h : q ≤ v) : rnd q ≤ v := by
  have := rnd_mono h; rwa [rnd_of_rep hv] at this

theorem le_rnd_of_rep_le {q v : Rat} (hv : Rep v) (h : v ≤ q) : v ≤ rnd q := by
  have := rnd_mono h; rwa [rnd_of_rep hv] at this

theorem rnd_abs_le_of_rep {q v : Rat} (hv : Rep v) (h : q.abs ≤ v) : (rnd q).abs ≤ v := by
  rw [abs_le_iff] at h ⊢
  exact ⟨le_rnd_of_rep_le hv.neg h.1, rnd_le_of_le_rep hv h.2⟩

/-! ### 5c. `roundNE`-level statements (items 4, 5) -/

/-- the largest finite double `(2^53 − 1) · 2^971` -/
def maxFin : Rat := ((2 ^ 53 - 1 : Nat) : Rat) * pow2 971

theorem rep_maxFin : Rep maxFin := rep_natCast_mul (by decide) (by decide)

theorem maxFin_lt : maxFin < pow2 1024 := by
  unfold maxFin
  rw [show (1024 : Int) = 53 + 971 by decide, pow2_add, pow2_53]
  exact Rat.mul_lt_mul_of_pos_right (Rat.natCast_lt_natCast.2 (by decide)) (pow2_pos _)

theorem pow2_le_maxFin {K : Int} (h : K ≤ 1023) : pow2 K ≤ maxFin := by
  refine Rat.le_trans (pow2_mono h) ?_
  unfold maxFin
  rw [show (1023 : Int) = 52 + 971 by decide, pow2_add, show pow2 52 = ((2 ^ 52 : Nat) : Rat) from pow2_natCast 52]
  exact Rat.mul_le_mul_of_nonneg_right (Rat.natCast_le_natCast.2 (by decide)) (Rat.le_of_lt (pow2_pos _))

/-- no overflow up to and including the largest finite double -/
theorem rnd_abs_le_maxFin {q : Rat} (h : q.abs ≤ maxFin) : (rnd q).abs ≤ maxFin :=
  rnd_abs_le_of_rep rep_maxFin h

theorem rnd_abs_lt_of_le_maxFin {q : Rat} (h : q.abs ≤ maxFin) : (rnd q).abs < pow2 1024 := by
  have := rnd_abs_le_maxFin h; have := maxFin_lt; grind

theorem toRat_roundNE_of_le {q : Rat} (h : q.abs ≤ maxFin) : toRat (roundNE q) = rnd q :=
  toRat_roundNE (rnd_abs_lt_of_le_maxFin h)

theorem isFinite_roundNE_of_le {q : Rat} (h : q.abs ≤ maxFin) : isFinite (roundNE q) = true :=
  isFinite_roundNE (rnd_abs_lt_of_le_maxFin h)

/-- results of magnitude at least the smallest subnormal are `.fin` -/
theorem roundNE_fin {q : Rat} (h1 : pow2 (-1074) ≤ q.abs) (h2 : q.abs ≤ maxFin) :
    roundNE q = .fin (rnd q) := by
  have hr : pow2 (-1074) ≤ (rnd q).abs := by
    rw [rnd_abs]
    have := rnd_mono h1
    rwa [rnd_of_rep (rep_pow2 (by decide)), rnd_of_nonneg Rat.abs_nonneg] at this
  rcases roundNE_cases (rnd_abs_lt_of_le_maxFin h2) with ⟨h0, _⟩ | ⟨_, h⟩
  · rw [h0, Rat.abs_zero] at hr; have := pow2_pos (-1074); grind
  · exact h

/-- item 4: for `q ≠ 0` below the overflow threshold the result is a zero or `.fin`, and
    within half a unit in the last place -/
theorem roundNE_finite_val {q : Rat} (h : q.abs ≤ maxFin) :
    ((∃ s, roundNE q = .zero s) ∨ roundNE q = .fin (rnd q)) ∧
    (toRat (roundNE q) - q).abs ≤ pow2 (ulpE q.abs) / 2 := by
  refine ⟨?_, by rw [toRat_roundNE_of_le h]; exact rnd_err q⟩
  rcases roundNE_cases (rnd_abs_lt_of_le_maxFin h) with ⟨_, h⟩ | ⟨_, h⟩
  · exact Or.inl h
  · exact Or.inr h

/-- item 4, corollary: relative error `2^-53` in the normal range -/
theorem roundNE_err_rel {q : Rat} (h1 : pow2 (-1022) ≤ q.abs) (h2 : q.abs ≤ maxFin) :
    (toRat (roundNE q) - q).abs ≤ q.abs / pow2 53 := by
  rw [toRat_roundNE_of_le h2]; exact rnd_err_rel h1

/-- standard model for all magnitudes below overflow -/
theorem roundNE_err_gen {q : Rat} (h2 : q.abs ≤ maxFin) :
    (toRat (roundNE q) - q).abs ≤ q.abs / pow2 53 + pow2 (-1075) := by
  rw [toRat_roundNE_of_le h2]; exact rnd_err_gen q

/-- item 5: monotone below the overflow threshold -/
theorem roundNE_mono {p q : Rat} (hp : p.abs ≤ maxFin) (hq : q.abs ≤ maxFin) (h : p ≤ q) :
    toRat (roundNE p) ≤ toRat (roundNE q) := by
  rw [toRat_roundNE_of_le hp, toRat_roundNE_of_le hq]; exact rnd_mono h

/-- every result falls in exactly one of three classes -/
theorem roundNE_class (q : Rat) :
    (roundNE q = .inf false ∧ pow2 1024 ≤ rnd q ∧ 0 < q) ∨
    (roundNE q = .inf true ∧ rnd q ≤ -pow2 1024 ∧ q < 0) ∨
    (isFinite (roundNE q) = true ∧ toRat (roundNE q) = rnd q ∧ (rnd q).abs < pow2 1024) := by
  by_cases hfin : (rnd q).abs < pow2 1024
  · exact Or.inr (Or.inr ⟨isFinite_roundNE hfin, toRat_roundNE hfin, hfin⟩)
  · have hP := pow2_pos 1024
    have hq0 : q ≠ 0 := by intro h; subst h; rw [rnd_zero, Rat.abs_zero] at hfin; grind
    have hr0 : rnd q ≠ 0 := by intro h; rw [h, Rat.abs_zero] at hfin; grind
    have e := roundNE_eq q
    rw [if_neg hq0, if_neg hr0, if_pos (by grind)] at e
    by_cases hn : q < 0
    · right; left
      have := rnd_nonpos (Rat.le_of_lt hn)
      rw [Rat.abs_of_nonpos this] at hfin
      simp only [hn, decide_true] at e
      exact ⟨e, by grind, hn⟩
    · left
      have := rnd_nonneg (show 0 ≤ q by grind)
      rw [Rat.abs_of_nonneg this] at hfin
      simp only [hn, decide_false] at e
      exact ⟨e, by grind, by grind⟩

theorem roundNE_ne_nan (q : Rat) : roundNE q ≠ .nan := by
  rcases roundNE_class q with ⟨h, _⟩ | ⟨h, _⟩ | ⟨h, _⟩
  · rw [h]; exact F64.noConfusion
  · rw [h]; exact F64.noConfusion
  · intro hn; rw [hn] at h; exact Bool.noConfusion h

/-- sign preservation (any magnitude; `toRat` of an infinity is 0 by convention) -/
theorem roundNE_nonneg {q : Rat} (h : 0 ≤ q) : 0 ≤ toRat (roundNE q) := by
  rcases roundNE_class q with ⟨e, _⟩ | ⟨e, _⟩ | ⟨_, e, _⟩
  · rw [e]; exact Rat.le_refl
  · rw [e]; exact Rat.le_refl
  · rw [e]; exact rnd_nonneg h

theorem roundNE_nonpos {q : Rat} (h : q ≤ 0) : toRat (roundNE q) ≤ 0 := by
  rcases roundNE_class q with ⟨e, _⟩ | ⟨e, _⟩ | ⟨_, e, _⟩
  · rw [e]; exact Rat.le_refl
  · rw [e]; exact Rat.le_refl
  · rw [e]; exact rnd_nonpos h

/-- item 5: a representable non-zero value below overflow rounds to itself -/
theorem roundNE_of_rep {v : Rat} (hv : Rep v) (h0 : v ≠ 0) (h : v.abs < pow2 1024) :
    roundNE v = .fin v := by
  have e := rnd_of_rep hv
  rcases roundNE_cases (q := v) (by rw [e]; exact h) with ⟨h1, _⟩ | ⟨_, h1⟩
  · rw [e] at h1; exact absurd h1 h0
  · rw [e] at h1; exact h1

/-- `m · 2^K` with `|m| < 2^53`, `K ≥ -1074`, below overflow, rounds to itself -/
theorem roundNE_mul_pow2 {m : Int} {K : Int} (hm : m.natAbs < 2 ^ 53) (hK : -1074 ≤ K)
    (h0 : m ≠ 0) (h : ((m : Rat) * pow2 K).abs < pow2 1024) :
    roundNE ((m : Rat) * pow2 K) = .fin ((m : Rat) * pow2 K) := by
  refine roundNE_of_rep ⟨m, K, hm, hK, rfl⟩ ?_ h
  intro hz
  rcases Rat.mul_eq_zero.1 hz with h1 | h1
  · exact h0 (by exact_mod_cast h1)
  · exact pow2_ne_zero K h1

/-- every rounded result is well-formed (non-zero and a fixed point of `roundNE`) -/
theorem WF_roundNE (q : Rat) : WF (roundNE q) := by
  rcases roundNE_class q with ⟨e, _⟩ | ⟨e, _⟩ | ⟨_, _, hlt⟩
  · rw [e]; trivial
  · rw [e]; trivial
  · rcases roundNE_cases hlt with ⟨_, s, e⟩ | ⟨h0, e⟩
    · rw [e]; trivial
    · rw [e]; exact ⟨h0, roundNE_of_rep (rep_rnd q) h0 hlt⟩

/-- a well-formed finite payload is representable and below overflow -/
theorem WF.rep {v : Rat} (h : WF (.fin v)) : Rep v ∧ v.abs < pow2 1024 ∧ v ≠ 0 := by
  obtain ⟨h0, e⟩ := h
  rcases roundNE_class v with ⟨e', _⟩ | ⟨e', _⟩ | ⟨_, e', hlt⟩
  · rw [e] at e'; exact F64.noConfusion e'
  · rw [e] at e'; exact F64.noConfusion e'
  · rw [e] at e'
    have : rnd v = v := e'.symm
    have hr := rep_rnd v
    rw [this] at hr hlt
    exact ⟨hr, hlt, h0⟩

theorem WF_fin_iff {v : Rat} : WF (.fin v) ↔ Rep v ∧ v.abs < pow2 1024 ∧ v ≠ 0 :=
  ⟨WF.rep, fun ⟨h1, h2, h3⟩ => ⟨h3, roundNE_of_rep h1 h3 h2⟩⟩

/-! ### 6. derived facts: comparisons, `ofInt`, `toInt64`, `ceil` -/

theorem le_iff_of_finite {a b : F64} (ha : isFinite a = true) (hb : isFinite b = true) :
    le a b = true ↔ toRat a ≤ toRat b := by
  cases a <;> cases b <;> simp_all [le, isFinite]

theorem lt_iff_of_finite {a b : F64} (ha : isFinite a = true) (hb : isFinite b = true) :
    lt a b = true ↔ toRat a < toRat b := by
  cases a <;> cases b <;> simp_all [lt, isFinite]

theorem beq_iff_of_finite {a b : F64} (ha : isFinite a = true) (hb : isFinite b = true) :
    beq a b = true ↔ toRat a = toRat b := by
  cases a <;> cases b <;> simp_all [beq, isFinite]

theorem gt_iff_of_finite {a b : F64} (ha : isFinite a = true) (hb : isFinite b = true) :
    gt a b = true ↔ toRat b < toRat a := lt_iff_of_finite hb ha

theorem ge_iff_of_finite {a b : F64} (ha : isFinite a = true) (hb : isFinite b = true) :
    ge a b = true ↔ toRat b ≤ toRat a := le_iff_of_finite hb ha

/-- item 5, in terms of the IEEE comparison, infinities included: no magnitude hypothesis -/
theorem le_roundNE_of_le {p q : Rat} (h : p ≤ q) : le (roundNE p) (roundNE q) = true := by
  have hm := rnd_mono h
  have hP := pow2_pos 1024
  rcases roundNE_class p with ⟨ep, bp, sp⟩ | ⟨ep, bp, sp⟩ | ⟨fp, ep, bp⟩ <;>
  rcases roundNE_class q with ⟨eq, bq, sq⟩ | ⟨eq, bq, sq⟩ | ⟨fq, eq, bq⟩
  · rw [ep, eq]; rfl
  · exfalso; grind
  · exfalso; rw [abs_lt_iff] at bq; grind
  · rw [ep, eq]; rfl
  · rw [ep, eq]; rfl
  · rw [ep]; cases hq : roundNE q <;> simp_all [le, isFinite]
  · rw [eq]; cases hp : roundNE p <;> simp_all [le, isFinite]
  · exfalso; rw [abs_lt_iff] at bp; grind
  · rw [le_iff_of_finite fp fq, ep, eq]; exact hm

theorem ofInt_zero : ofInt 0 = .zero false := roundNE_zero

/-- item 5: integers up to `2^53` in magnitude convert exactly -/
theorem ofInt_exact {i : Int} (h0 : i ≠ 0) (h : i.natAbs ≤ 2 ^ 53) : ofInt i = .fin (i : Rat) := by
  unfold ofInt
  refine roundNE_of_rep (rep_intCast h) (by exact_mod_cast h0) ?_
  have h1 : (i : Rat).abs ≤ pow2 53 := by
    rw [abs_le_iff, pow2_53, ← Rat.intCast_natCast, ← Rat.intCast_neg]
    exact ⟨Rat.intCast_le_intCast.2 (by omega), Rat.intCast_le_intCast.2 (by omega)⟩
  have := pow2_strictMono (show (53 : Int) < 1024 by decide)
  grind

theorem toRat_ofInt_exact {i : Int} (h : i.natAbs ≤ 2 ^ 53) : toRat (ofInt i) = (i : Rat) := by
  by_cases h0 : i = 0
  · subst h0; rw [ofInt_zero]; rfl
  · rw [ofInt_exact h0 h]; rfl

theorem isFinite_ofInt_exact {i : Int} (h : i.natAbs ≤ 2 ^ 53) : isFinite (ofInt i) = true := by
  by_cases h0 : i = 0
  · subst h0; rw [ofInt_zero]; rfl
  · rw [ofInt_exact h0 h]; rfl

theorem intCast_abs_le_maxFin {i : Int} (h : i.natAbs ≤ 2 ^ 63) : (i : Rat).abs ≤ maxFin := by
  have h1 : (i : Rat).abs ≤ pow2 63 := by
    rw [abs_le_iff, show pow2 63 = ((2 ^ 63 : Nat) : Rat) from pow2_natCast 63, ← Rat.intCast_natCast, ← Rat.intCast_neg]
    exact ⟨Rat.intCast_le_intCast.2 (by omega), Rat.intCast_le_intCast.2 (by omega)⟩
  exact Rat.le_trans h1 (pow2_le_maxFin (by decide))

/-- `float64(i)` for any int64: finite, value `rnd i` -/
theorem toRat_ofInt {i : Int} (h : i.natAbs ≤ 2 ^ 63) : toRat (ofInt i) = rnd (i : Rat) :=
  toRat_roundNE_of_le (intCast_abs_le_maxFin h)

theorem isFinite_ofInt {i : Int} (h : i.natAbs ≤ 2 ^ 63) : isFinite (ofInt i) = true :=
  isFinite_roundNE_of_le (intCast_abs_le_maxFin h)

theorem ofInt_fin {i : Int} (h0 : i ≠ 0) (h : i.natAbs ≤ 2 ^ 63) : ofInt i = .fin (rnd (i : Rat)) := by
  refine roundNE_fin ?_ (intCast_abs_le_maxFin h)
  have h1 : (1 : Rat) ≤ (i : Rat).abs := by
    by_cases hp : 0 ≤ i
    · rw [Rat.abs_of_nonneg (Rat.intCast_nonneg.2 hp)]
      exact_mod_cast (show (1 : Int) ≤ i by omega)
    · rw [Rat.abs_of_nonpos (Rat.intCast_nonpos.2 (by omega)), ← Rat.intCast_neg]
      exact_mod_cast (show (1 : Int) ≤ -i by omega)
  have := pow2_mono (show (-1074 : Int) ≤ 0 by decide)
  rw [pow2_zero] at this
  grind

/-- item 6: `|float64(i) − i| ≤ |i| / 2^53` for every int64 -/
theorem ofInt_err {i : Int} (h : i.natAbs ≤ 2 ^ 63) :
    (toRat (ofInt i) - (i : Rat)).abs ≤ (i : Rat).abs / pow2 53 := by
  by_cases h0 : i = 0
  · subst h0; rw [ofInt_zero]
    show ((0 : Rat) - ((0 : Int) : Rat)).abs ≤ _
    rw [Rat.intCast_zero, Rat.sub_self, Rat.abs_zero, Rat.div_def, Rat.zero_mul]; exact Rat.le_refl
  · rw [toRat_ofInt h]
    apply rnd_err_rel
    have h1 : (1 : Rat) ≤ (i : Rat).abs := by
      by_cases hp : 0 ≤ i
      · rw [Rat.abs_of_nonneg (Rat.intCast_nonneg.2 hp)]
        exact_mod_cast (show (1 : Int) ≤ i by omega)
      · rw [Rat.abs_of_nonpos (Rat.intCast_nonpos.2 (by omega)), ← Rat.intCast_neg]
        exact_mod_cast (show (1 : Int) ≤ -i by omega)
    have := pow2_mono (show (-1022 : Int) ≤ 0 by decide)
    rw [pow2_zero] at this
    grind

/-- item 6: `float64(·)` is monotone (IEEE `<=`), any integers -/
theorem ofInt_mono {i j : Int} (h : i ≤ j) : le (ofInt i) (ofInt j) = true :=
  le_roundNE_of_le (Rat.intCast_le_intCast.2 h)

theorem toRat_ofInt_mono {i j : Int} (hi : i.natAbs ≤ 2 ^ 63) (hj : j.natAbs ≤ 2 ^ 63) (h : i ≤ j) :
    toRat (ofInt i) ≤ toRat (ofInt j) := by
  rw [toRat_ofInt hi, toRat_ofInt hj]; exact rnd_mono (Rat.intCast_le_intCast.2 h)

/-! #### truncation -/

/-- truncation towards zero -/
def trunc (q : Rat) : Int := if q < 0 then -((-q).floor) else q.floor

theorem trunc_intCast (i : Int) : trunc (i : Rat) = i := by
  unfold trunc
  split
  · rw [← Rat.intCast_neg, Rat.floor_intCast]; omega
  · exact Rat.floor_intCast i

theorem trunc_of_nonneg {q : Rat} (h : 0 ≤ q) :
    0 ≤ trunc q ∧ (trunc q : Rat) ≤ q ∧ q < (trunc q : Rat) + 1 := by
  unfold trunc; rw [if_neg (by grind)]
  have h1 := Rat.floor_le q
  have h2 := Rat.lt_floor_add_one q
  rw [Rat.intCast_add] at h2
  exact ⟨Rat.le_floor_iff.2 (by simpa using h), h1, by simpa using h2⟩

theorem trunc_of_nonpos {q : Rat} (h : q ≤ 0) :
    trunc q ≤ 0 ∧ q ≤ (trunc q : Rat) ∧ (trunc q : Rat) - 1 < q := by
  by_cases h0 : q = 0
  · subst h0
    have : trunc 0 = 0 := by have := trunc_intCast 0; rwa [Rat.intCast_zero] at this
    rw [this, Rat.intCast_zero]; exact ⟨by omega, Rat.le_refl, by grind⟩
  · unfold trunc; rw [if_pos (by grind)]
    have h1 := Rat.floor_le (-q)
    have h2 := Rat.lt_floor_add_one (-q)
    rw [Rat.intCast_add] at h2
    have h3 : (0 : Int) ≤ (-q).floor := Rat.le_floor_iff.2 (by simp; grind)
    rw [Rat.intCast_neg]
    refine ⟨by omega, by grind, ?_⟩
    have : ((1 : Int) : Rat) = 1 := by simp
    grind

/-- truncation is within one of the argument -/
theorem trunc_err (q : Rat) : ((trunc q : Rat) - q).abs < 1 := by
  rw [abs_lt_iff]
  by_cases h : 0 ≤ q
  · have := trunc_of_nonneg h; grind
  · have := trunc_of_nonpos (show q ≤ 0 by grind); grind

theorem trunc_mono {p q : Rat} (h : p ≤ q) : trunc p ≤ trunc q := by
  by_cases hp : 0 ≤ p
  · have hq : 0 ≤ q := by grind
    unfold trunc; rw [if_neg (by grind), if_neg (by grind)]
    exact Rat.floor_monotone h
  · by_cases hq : 0 ≤ q
    · have := trunc_of_nonpos (show p ≤ 0 by grind)
      have := trunc_of_nonneg hq
      omega
    · unfold trunc; rw [if_pos (by grind), if_pos (by grind)]
      have := Rat.floor_monotone (show -q ≤ -p by grind)
      omega

/-- item 6: `int64(f)` of a finite value in range is truncation -/
theorem toInt64_eq_trunc {x : F64} (hf : isFinite x = true)
    (h1 : -(pow2 63) - 1 < toRat x) (h2 : toRat x < pow2 63) :
    toInt64 x = trunc (toRat x) := by
  cases x with
  | nan => exact Bool.noConfusion hf
  | inf _ => exact Bool.noConfusion hf
  | zero _ => exact (trunc_intCast 0).symm
  | fin q =>
    simp only [toRat] at h1 h2 ⊢
    have hP : pow2 63 = ((9223372036854775808 : Int) : Rat) := by decide
    have hlo : -9223372036854775808 ≤ trunc q := by
      by_cases hq : 0 ≤ q
      · have := (trunc_of_nonneg hq).1; omega
      · have t := trunc_of_nonpos (show q ≤ 0 by grind)
        have : ((-9223372036854775808 - 1 : Int) : Rat) < ((trunc q : Int) : Rat) := by
          rw [Rat.intCast_sub, Rat.intCast_neg, Rat.intCast_one]; grind
        have := Rat.intCast_lt_intCast.1 this
        omega
    have hhi : trunc q ≤ 9223372036854775807 := by
      by_cases hq : 0 ≤ q
      · have t := trunc_of_nonneg hq
        have : ((trunc q : Int) : Rat) < ((9223372036854775808 : Int) : Rat) := by grind
        have := Rat.intCast_lt_intCast.1 this
        omega
      · have := (trunc_of_nonpos (show q ≤ 0 by grind)).1; omega
    show (if trunc q < -9223372036854775808 ∨ trunc q > 9223372036854775807 then _ else trunc q) = _
    rw [if_neg (by omega)]

/-! #### `ceil` -/

theorem isFinite_ceil (x : F64) : isFinite (ceil x) = isFinite x := by
  cases x with
  | fin q => simp only [ceil]; split <;> rfl
  | _ => rfl

/-- item 6: `math.Ceil` of a finite value is the integer ceiling -/
theorem toRat_ceil {x : F64} (hf : isFinite x = true) : toRat (ceil x) = ((toRat x).ceil : Rat) := by
  cases x with
  | nan => exact Bool.noConfusion hf
  | inf _ => exact Bool.noConfusion hf
  | zero _ =>
    show (0 : Rat) = (((0 : Rat).ceil : Int) : Rat)
    have := Rat.ceil_intCast 0
    rw [Rat.intCast_zero] at this
    rw [this, Rat.intCast_zero]
  | fin q =>
    simp only [ceil]
    by_cases h : q.ceil = 0
    · rw [if_pos h]; show (0 : Rat) = ((q.ceil : Int) : Rat); rw [h, Rat.intCast_zero]
    · rw [if_neg h]; rfl

theorem le_toRat_ceil {x : F64} (hf : isFinite x = true) : toRat x ≤ toRat (ceil x) := by
  rw [toRat_ceil hf]; exact Rat.le_ceil

theorem toRat_ceil_lt {x : F64} (hf : isFinite x = true) : toRat (ceil x) < toRat x + 1 := by
  rw [toRat_ceil hf]; exact Rat.ceil_lt

theorem isFinite_floor (x : F64) : isFinite (floor x) = isFinite x := by
  cases x with
  | fin q => simp only [floor]; split <;> rfl
  | _ => rfl

/-- `math.Floor` of a finite value is the integer floor -/
theorem toRat_floor {x : F64} (hf : isFinite x = true) : toRat (floor x) = ((toRat x).floor : Rat) := by
  cases x with
  | nan => exact Bool.noConfusion hf
  | inf _ => exact Bool.noConfusion hf
  | zero _ =>
    show (0 : Rat) = (((0 : Rat).floor : Int) : Rat)
    have := Rat.floor_intCast 0
    rw [Rat.intCast_zero] at this
    rw [this, Rat.intCast_zero]
  | fin q =>
    simp only [floor]
    by_cases h : q.floor = 0
    · rw [if_pos h]; show (0 : Rat) = ((q.floor : Int) : Rat); rw [h, Rat.intCast_zero]
    · rw [if_neg h]; rfl

/-- `math.Abs` -/
theorem toRat_abs (x : F64) : toRat (abs x) = (toRat x).abs := by
  cases x with
  | fin q => simp only [abs, toRat, Rat.abs]; split <;> grind
  | _ => simp [abs, toRat]

theorem isFinite_abs (x : F64) : isFinite (abs x) = isFinite x := by
  cases x <;> rfl

/-! #### arithmetic on finite values -/

theorem WF_zero (s : Bool) : WF (.zero s) := trivial
theorem WF_ofInt (i : Int) : WF (ofInt i) := WF_roundNE _
theorem WF_ofConst (n : Int) (d : Nat) : WF (ofConst n d) := WF_roundNE _

theorem WF_neg {x : F64} (h : WF x) : WF (neg x) := by
  cases x with
  | fin q =>
    obtain ⟨hr, hlt, h0⟩ := WF.rep h
    exact WF_fin_iff.2 ⟨hr.neg, by rwa [Rat.abs_neg], by grind⟩
  | _ => trivial

theorem WF_abs {x : F64} (h : WF x) : WF (abs x) := by
  cases x with
  | fin q =>
    simp only [abs]; split
    · exact WF_neg (x := .fin q) h
    · exact h
  | _ => trivial

theorem roundNE_of_WF {q : Rat} (h : WF (.fin q)) : roundNE q = .fin q := h.2

theorem roundNE_neg_of_WF {q : Rat} (h : WF (.fin q)) : roundNE (-q) = .fin (-q) :=
  (WF_neg (x := .fin q) h).2

theorem rnd_of_WF {q : Rat} (h : WF (.fin q)) : rnd q = q := rnd_of_rep (WF.rep h).1

theorem WF_mul (a b : F64) : WF (mul a b) := by
  cases a <;> cases b <;> simp only [mul] <;> first | trivial | exact WF_roundNE _

theorem WF_div (a b : F64) : WF (div a b) := by
  cases a <;> cases b <;> simp only [div] <;> first | trivial | exact WF_roundNE _

theorem WF_add {a b : F64} (ha : WF a) (hb : WF b) : WF (add a b) := by
  cases a <;> cases b <;> simp only [add] <;>
    first | trivial | exact WF_roundNE _ | exact ha | exact hb | (split <;> trivial)

theorem WF_sub {a b : F64} (ha : WF a) (hb : WF b) : WF (sub a b) := WF_add ha (WF_neg hb)

theorem toRat_neg (x : F64) : toRat (neg x) = -(toRat x) := by
  cases x <;> simp [neg, toRat]

theorem isFinite_neg (x : F64) : isFinite (neg x) = isFinite x := by
  cases x <;> rfl

/-- product of finite values, below overflow: finite, value `rnd (a·b)` -/
theorem toRat_mul {a b : F64} (fa : isFinite a = true) (fb : isFinite b = true)
    (h : (toRat a * toRat b).abs ≤ maxFin) :
    isFinite (mul a b) = true ∧ toRat (mul a b) = rnd (toRat a * toRat b) := by
  cases a <;> cases b <;> simp only [isFinite, Bool.false_eq_true] at fa fb <;>
    simp only [mul, toRat, Rat.zero_mul, Rat.mul_zero, rnd_zero] at h ⊢
  · exact ⟨rfl, trivial⟩
  · exact ⟨rfl, trivial⟩
  · exact ⟨rfl, trivial⟩
  · exact ⟨isFinite_roundNE_of_le h, toRat_roundNE_of_le h⟩

/-- quotient of finite values, non-zero divisor, below overflow -/
theorem toRat_div {a b : F64} (fa : isFinite a = true) (fb : isFinite b = true)
    (hb : toRat b ≠ 0) (h : (toRat a / toRat b).abs ≤ maxFin) :
    isFinite (div a b) = true ∧ toRat (div a b) = rnd (toRat a / toRat b) := by
  cases a <;> cases b <;> simp only [isFinite, Bool.false_eq_true] at fa fb <;>
    simp only [div, toRat, Rat.div_def, Rat.zero_mul, rnd_zero, ne_eq, not_true_eq_false] at h hb ⊢
  · exact ⟨rfl, trivial⟩
  · rw [← Rat.div_def] at h ⊢
    exact ⟨isFinite_roundNE_of_le h, toRat_roundNE_of_le h⟩

/-- sum of well-formed finite values, below overflow -/
theorem toRat_add {a b : F64} (wa : WF a) (wb : WF b) (fa : isFinite a = true)
    (fb : isFinite b = true) (h : (toRat a + toRat b).abs ≤ maxFin) :
    isFinite (add a b) = true ∧ toRat (add a b) = rnd (toRat a + toRat b) := by
  cases a <;> cases b <;> simp only [isFinite, Bool.false_eq_true] at fa fb <;>
    simp only [add, toRat, Rat.zero_add, Rat.add_zero, rnd_zero] at h ⊢
  · exact ⟨rfl, trivial⟩
  · exact ⟨rfl, (rnd_of_WF wb).symm⟩
  · exact ⟨rfl, (rnd_of_WF wa).symm⟩
  · exact ⟨isFinite_roundNE_of_le h, toRat_roundNE_of_le h⟩

theorem toRat_sub {a b : F64} (wa : WF a) (wb : WF b) (fa : isFinite a = true)
    (fb : isFinite b = true) (h : (toRat a - toRat b).abs ≤ maxFin) :
    isFinite (sub a b) = true ∧ toRat (sub a b) = rnd (toRat a - toRat b) := by
  have := toRat_add wa (WF_neg wb) fa (by rw [isFinite_neg]; exact fb)
    (by rw [toRat_neg, ← Rat.sub_eq_add_neg]; exact h)
  rw [toRat_neg, ← Rat.sub_eq_add_neg] at this
  exact this

/-- multiplying by `float64(1)` is the identity on well-formed non-NaN values -/
theorem mul_one_left {x : F64} (h : WF x) : mul (ofInt 1) x = x := by
  rw [ofInt_exact (by decide) (by decide)]
  cases x with
  | nan => rfl
  | inf b => simp only [mul, Rat.intCast_one, show decide ((1 : Rat) < 0) = false by decide]; cases b <;> rfl
  | zero b => simp only [mul, Rat.intCast_one, show decide ((1 : Rat) < 0) = false by decide]; cases b <;> rfl
  | fin q => simp only [mul, Rat.intCast_one, Rat.one_mul]; exact h.2

/-- multiplying by `float64(-1)` is negation on well-formed values -/
theorem mul_negone_left {x : F64} (h : WF x) : mul (ofInt (-1)) x = neg x := by
  rw [ofInt_exact (by decide) (by decide)]
  cases x with
  | nan => rfl
  | inf b =>
    simp only [mul, neg, Rat.intCast_neg, Rat.intCast_one]
    cases b <;> rfl
  | zero b =>
    simp only [mul, neg, Rat.intCast_neg, Rat.intCast_one]
    cases b <;> rfl
  | fin q =>
    simp only [mul, neg, Rat.intCast_neg, Rat.intCast_one, Rat.neg_mul, Rat.one_mul]
    exact roundNE_neg_of_WF h

/-- multiplication by a fixed finite non-negative factor is monotone (IEEE `<=`) -/
theorem mul_mono_left {a b d : Rat} (hd : 0 ≤ d) (h : a ≤ b) :
    le (roundNE (a * d)) (roundNE (b * d)) = true :=
  le_roundNE_of_le (Rat.mul_le_mul_of_nonneg_right h hd)

/-! #### integers of representable values are representable -/

/-- a representable value is an integer, or smaller than `2^53` in magnitude -/
theorem rep_int_or_small {v : Rat} (h : Rep v) :
    (∃ i : Int, v = (i : Rat)) ∨ (-(pow2 53) < v ∧ v < pow2 53) := by
  obtain ⟨m, K, hm, hK, rfl⟩ := h
  by_cases hk : 0 ≤ K
  · left
    obtain ⟨n, rfl⟩ := Int.eq_ofNat_of_zero_le hk
    refine ⟨m * ((2 ^ n : Nat) : Int), ?_⟩
    rw [pow2_natCast, Rat.intCast_mul, Rat.intCast_natCast]
  · right
    have hP := pow2_pos K
    have h1 : pow2 K ≤ 1 := by have := pow2_mono (show K ≤ 0 by omega); rwa [pow2_zero] at this
    have hm1 : -(pow2 53) < (m : Rat) := by
      rw [pow2_53, ← Rat.intCast_natCast, ← Rat.intCast_neg]; exact Rat.intCast_lt_intCast.2 (by omega)
    have hm2 : (m : Rat) < pow2 53 := by
      rw [pow2_53, ← Rat.intCast_natCast]; exact Rat.intCast_lt_intCast.2 (by omega)
    have hP53 := pow2_pos 53
    by_cases h0 : 0 ≤ (m : Rat)
    · have := Rat.mul_le_mul_of_nonneg_left h1 h0
      have := Rat.mul_nonneg h0 (Rat.le_of_lt hP)
      grind
    · have := Rat.mul_le_mul_of_nonneg_left h1 (show 0 ≤ -(m : Rat) by grind)
      have := Rat.mul_nonneg (show 0 ≤ -(m : Rat) by grind) (Rat.le_of_lt hP)
      grind

private theorem WF_int_of_near {q : Rat} {c : Int} (h : WF (.fin q)) (hc0 : c ≠ 0)
    (hnear : (c : Rat) = q ∨ (-(pow2 53) < q ∧ q < pow2 53 ∧ (c : Rat) - 1 < q ∧ q < (c : Rat) + 1)) :
    WF (.fin (c : Rat)) := by
  obtain ⟨hr, hlt, _⟩ := WF.rep h
  rcases hnear with e | ⟨l, u, cl, cu⟩
  · rw [e]; exact h
  · have h1 : ((c - 1 : Int) : Rat) < (((2 ^ 53 : Nat) : Int) : Rat) := by
      rw [Rat.intCast_sub, Rat.intCast_one, Rat.intCast_natCast, ← pow2_53]; grind
    have h2 : ((-((2 ^ 53 : Nat) : Int) : Int) : Rat) < ((c + 1 : Int) : Rat) := by
      rw [Rat.intCast_add, Rat.intCast_one, Rat.intCast_neg, Rat.intCast_natCast, ← pow2_53]; grind
    have h1' := Rat.intCast_lt_intCast.1 h1
    have h2' := Rat.intCast_lt_intCast.1 h2
    have hn : c.natAbs ≤ 2 ^ 53 := by omega
    have := ofInt_exact hc0 hn
    have w := WF_ofInt c
    rwa [this] at w

theorem WF_ceil {x : F64} (h : WF x) : WF (ceil x) := by
  cases x with
  | fin q =>
    simp only [ceil]
    by_cases hc : q.ceil = 0
    · rw [if_pos hc]; trivial
    · rw [if_neg hc]
      refine WF_int_of_near h hc ?_
      rcases rep_int_or_small (WF.rep h).1 with ⟨i, rfl⟩ | ⟨l, u⟩
      · left; rw [Rat.ceil_intCast]
      · right
        have a := @Rat.le_ceil q
        have b := @Rat.ceil_lt q
        exact ⟨l, u, by grind, by grind⟩
  | _ => exact h

theorem WF_floor {x : F64} (h : WF x) : WF (floor x) := by
  cases x with
  | fin q =>
    simp only [floor]
    by_cases hc : q.floor = 0
    · rw [if_pos hc]; trivial
    · rw [if_neg hc]
      refine WF_int_of_near h hc ?_
      rcases rep_int_or_small (WF.rep h).1 with ⟨i, rfl⟩ | ⟨l, u⟩
      · left; rw [Rat.floor_intCast]
      · right
        have a := Rat.floor_le q
        have b := Rat.lt_floor_add_one q
        rw [Rat.intCast_add, Rat.intCast_one] at b
        exact ⟨l, u, by grind, by grind⟩
  | _ => exact h

/-! #### `math.Sqrt`: sign and NaN-freeness -/

theorem sqrtRat_arg_nonneg (n : Nat) (k : Int) : 0 ≤ (n : Rat) / pow2 k := by
  rw [le_div_iff (pow2_pos k), Rat.zero_mul]; exact Rat.natCast_nonneg

/-- `sqrtRat q` is `roundNE` of a non-negative rational -/
theorem sqrtRat_eq (q : Rat) : ∃ t : Rat, 0 ≤ t ∧ sqrtRat q = roundNE t := by
  unfold sqrtRat
  simp only []
  split <;> split <;> exact ⟨_, sqrtRat_arg_nonneg _ _, rfl⟩

theorem WF_sqrt {x : F64} (h : WF x) : WF (sqrt x) := by
  cases x with
  | nan => trivial
  | inf s => cases s <;> trivial
  | zero _ => trivial
  | fin q =>
    simp only [sqrt]; split
    · trivial
    · obtain ⟨t, _, e⟩ := sqrtRat_eq q; rw [e]; exact WF_roundNE t

/-- the square root is never negative (NaN and infinities read as 0) -/
theorem toRat_sqrt_nonneg (x : F64) : 0 ≤ toRat (sqrt x) := by
  cases x with
  | nan => exact Rat.le_refl
  | inf s => cases s <;> exact Rat.le_refl
  | zero _ => exact Rat.le_refl
  | fin q =>
    simp only [sqrt]; split
    · exact Rat.le_refl
    · obtain ⟨t, ht, e⟩ := sqrtRat_eq q; rw [e]; exact roundNE_nonneg ht

/-- `math.Sqrt` of a non-negative finite value is not NaN -/
theorem sqrt_ne_nan {x : F64} (hf : isFinite x = true) (h0 : 0 ≤ toRat x) : sqrt x ≠ .nan := by
  cases x with
  | nan => exact Bool.noConfusion hf
  | inf _ => exact Bool.noConfusion hf
  | zero _ => exact F64.noConfusion
  | fin q =>
    simp only [sqrt]
    rw [toRat_fin] at h0
    rw [if_neg (by grind)]
    obtain ⟨t, _, e⟩ := sqrtRat_eq q; rw [e]; exact roundNE_ne_nan t

/-- `math.Sqrt` of a negative finite value is NaN -/
theorem sqrt_neg_eq_nan {q : Rat} (h : q < 0) : sqrt (.fin q) = .nan := by
  simp only [sqrt]; rw [if_pos h]

/-! #### bit patterns decode to well-formed values -/

theorem WF_fin_mul_pow2 (sign : Bool) {k : Nat} {K : Int} (hk0 : 0 < k) (hk : k < 2 ^ 53)
    (hK : -1074 ≤ K) (hK' : K ≤ 971) :
    WF (.fin (if sign then -((k : Rat) * pow2 K) else (k : Rat) * pow2 K)) := by
  have hP := pow2_pos K
  have hkr : (0 : Rat) < (k : Rat) := Rat.natCast_pos.2 hk0
  have hpos : 0 < (k : Rat) * pow2 K := Rat.mul_pos hkr hP
  have hlt : (k : Rat) * pow2 K < pow2 1024 := by
    have h1 : (k : Rat) * pow2 K < pow2 53 * pow2 K := by
      rw [pow2_53]; exact Rat.mul_lt_mul_of_pos_right (Rat.natCast_lt_natCast.2 hk) hP
    rw [← pow2_add] at h1
    have := pow2_mono (show 53 + K ≤ 1024 by omega)
    grind
  have hw : WF (.fin ((k : Rat) * pow2 K)) :=
    WF_fin_iff.2 ⟨rep_natCast_mul hk hK, by rw [Rat.abs_of_nonneg (Rat.le_of_lt hpos)]; exact hlt,
      by grind⟩
  cases sign
  · exact hw
  · exact WF_neg (x := .fin _) hw

theorem WF_ofBits (b : Nat) : WF (ofBits b) := by
  unfold ofBits
  simp only []
  split
  · split <;> trivial
  · split
    · split
      · trivial
      · rename_i h
        exact WF_fin_mul_pow2 _ (by omega) (by have := Nat.mod_lt b (show 0 < 2 ^ 52 by decide); omega)
          (by decide) (by decide)
    · rename_i h1 h2
      have hf := Nat.mod_lt b (show 0 < 2 ^ 52 by decide)
      have he := Nat.mod_lt (b / 2 ^ 52) (show 0 < 2 ^ 11 by decide)
      exact WF_fin_mul_pow2 _ (by omega) (by omega) (by omega) (by omega)

/-! ### 7. `time.Duration.Seconds()` and `timemath.Duration` -/

theorem tdiv_tmod_facts (d : Int) :
    d = Int.tdiv d 1000000000 * 1000000000 + Int.tmod d 1000000000 ∧
    (0 ≤ d → 0 ≤ Int.tmod d 1000000000 ∧ Int.tmod d 1000000000 ≤ d) ∧
    (d ≤ 0 → d ≤ Int.tmod d 1000000000 ∧ Int.tmod d 1000000000 ≤ 0) ∧
    (Int.tmod d 1000000000).natAbs < 1000000000 := by
  by_cases h : 0 ≤ d
  · rw [Int.tdiv_eq_ediv_of_nonneg h, Int.tmod_eq_emod_of_nonneg h]
    omega
  · have h' : 0 ≤ -d := by omega
    have e1 : Int.tdiv d 1000000000 = -((-d) / 1000000000) := by
      rw [← Int.tdiv_eq_ediv_of_nonneg h', Int.neg_tdiv]; omega
    have e2 : Int.tmod d 1000000000 = -((-d) % 1000000000) := by
      rw [← Int.tmod_eq_emod_of_nonneg h', Int.neg_tmod]; omega
    rw [e1, e2]
    omega

theorem ofInt_1e9 : ofInt 1000000000 = .fin 1000000000 := by
  rw [ofInt_exact (by decide) (by decide)]; simp

/-- sub-second part as a double: within `[0, 1]` resp. `[-1, 0]` -/
theorem rnd_frac_bounds {ns : Int} (h : ns.natAbs < 1000000000) :
    (0 ≤ ns → 0 ≤ rnd ((ns : Rat) / 1000000000) ∧ rnd ((ns : Rat) / 1000000000) ≤ 1) ∧
    (ns ≤ 0 → -1 ≤ rnd ((ns : Rat) / 1000000000) ∧ rnd ((ns : Rat) / 1000000000) ≤ 0) := by
  have hl : ((-1000000000 : Int) : Rat) ≤ (ns : Rat) := Rat.intCast_le_intCast.2 (by omega)
  have hu : (ns : Rat) ≤ ((1000000000 : Int) : Rat) := Rat.intCast_le_intCast.2 (by omega)
  have r1 : Rep (1 : Rat) := by have := rep_pow2 (K := 0) (by decide); rwa [pow2_zero] at this
  simp only [Rat.intCast_neg, Rat.intCast_ofNat] at hl hu
  constructor
  · intro h0
    have h0' : ((0 : Int) : Rat) ≤ (ns : Rat) := Rat.intCast_le_intCast.2 h0
    rw [Rat.intCast_zero] at h0'
    exact ⟨rnd_nonneg (by grind), rnd_le_of_le_rep r1 (by grind)⟩
  · intro h0
    have h0' : (ns : Rat) ≤ ((0 : Int) : Rat) := Rat.intCast_le_intCast.2 h0
    rw [Rat.intCast_zero] at h0'
    exact ⟨le_rnd_of_rep_le r1.neg (by grind), rnd_nonpos (by grind)⟩

/-- the value `Seconds()` computes, as a rational: both roundings explicit -/
def secondsVal (d : Int) : Rat :=
  rnd (((Int.tdiv d 1000000000 : Int) : Rat) + rnd (((Int.tmod d 1000000000 : Int) : Rat) / 1000000000))

/-- `Duration.Seconds()` of any int64: finite, well-formed, value `secondsVal d` -/
theorem durationSeconds_val {d : Int} (hd : d.natAbs ≤ 2 ^ 63) :
    isFinite (durationSeconds d) = true ∧ WF (durationSeconds d) ∧
    toRat (durationSeconds d) = secondsVal d := by
  obtain ⟨hsplit, hpos, hneg, hns⟩ := tdiv_tmod_facts d
  unfold durationSeconds secondsVal
  generalize Int.tdiv d 1000000000 = sec at *
  generalize Int.tmod d 1000000000 = ns at *
  have hsec : sec.natAbs ≤ 2 ^ 53 := by omega
  have hnsb : ns.natAbs ≤ 2 ^ 53 := by omega
  have hfr := rnd_frac_bounds hns
  have hmax : (17179869184 : Rat) ≤ maxFin := by
    refine Rat.le_trans ?_ (pow2_le_maxFin (K := 34) (by decide))
    rw [show pow2 34 = 17179869184 by decide]; exact Rat.le_refl
  have hl : ((-1000000000 : Int) : Rat) ≤ (ns : Rat) := Rat.intCast_le_intCast.2 (by omega)
  have hu : (ns : Rat) ≤ ((1000000000 : Int) : Rat) := Rat.intCast_le_intCast.2 (by omega)
  have hsl : ((-9223372037 : Int) : Rat) ≤ (sec : Rat) := Rat.intCast_le_intCast.2 (by omega)
  have hsu : (sec : Rat) ≤ ((9223372037 : Int) : Rat) := Rat.intCast_le_intCast.2 (by omega)
  simp only [Rat.intCast_neg, Rat.intCast_ofNat] at hl hu hsl hsu
  obtain ⟨fQ, vQ⟩ := toRat_div (isFinite_ofInt_exact hnsb) (isFinite_ofInt_exact (i := 1000000000) (by decide))
    (by rw [ofInt_1e9]; simp [toRat_fin]) (by
      rw [toRat_ofInt_exact hnsb, ofInt_1e9, toRat_fin]
      refine Rat.le_trans ?_ hmax; rw [abs_le_iff]; grind)
  rw [toRat_ofInt_exact hnsb, ofInt_1e9, toRat_fin] at vQ
  have hfrb : -1 ≤ rnd ((ns : Rat) / 1000000000) ∧ rnd ((ns : Rat) / 1000000000) ≤ 1 := by
    by_cases h0 : 0 ≤ ns
    · have := hfr.1 h0; grind
    · have := hfr.2 (by omega); grind
  obtain ⟨fS, vS⟩ := toRat_add (WF_ofInt sec) (WF_div _ _) (isFinite_ofInt_exact hsec) fQ (by
    rw [toRat_ofInt_exact hsec, ofInt_1e9, vQ]
    refine Rat.le_trans ?_ hmax; rw [abs_le_iff]; grind)
  rw [toRat_ofInt_exact hsec, ofInt_1e9, vQ] at vS
  rw [ofInt_1e9] at fS
  rw [ofInt_1e9]
  exact ⟨fS, WF_add (WF_ofInt sec) (WF_div _ _), vS⟩

/-- `secondsVal` is monotone in the duration -/
theorem secondsVal_mono {d₁ d₂ : Int} (h : d₁ ≤ d₂) : secondsVal d₁ ≤ secondsVal d₂ := by
  obtain ⟨hs1, hp1, hn1, hb1⟩ := tdiv_tmod_facts d₁
  obtain ⟨hs2, hp2, hn2, hb2⟩ := tdiv_tmod_facts d₂
  unfold secondsVal
  generalize Int.tdiv d₁ 1000000000 = s1 at *
  generalize Int.tmod d₁ 1000000000 = n1 at *
  generalize Int.tdiv d₂ 1000000000 = s2 at *
  generalize Int.tmod d₂ 1000000000 = n2 at *
  apply rnd_mono
  have f1 := rnd_frac_bounds hb1
  have f2 := rnd_frac_bounds hb2
  by_cases hs : s1 = s2
  · subst hs
    have : n1 ≤ n2 := by omega
    have := rnd_mono (div_le_div_right (c := 1000000000) (by grind) (Rat.intCast_le_intCast.2 this))
    grind
  · have hlt : s1 + 1 ≤ s2 := by
      by_cases h1 : 0 ≤ d₁
      · have := hp1 h1; have := hp2 (by omega); omega
      · have := hn1 (by omega)
        by_cases h2 : 0 ≤ d₂
        · have := hp2 h2; omega
        · have := hn2 (by omega); omega
    have hc : ((s1 + 1 : Int) : Rat) ≤ (s2 : Rat) := Rat.intCast_le_intCast.2 hlt
    rw [Rat.intCast_add, Rat.intCast_one] at hc
    by_cases h1 : 0 ≤ d₁
    · have a := f1.1 (hp1 h1).1
      have b := f2.1 (hp2 (by omega)).1
      grind
    · have a := f1.2 (hn1 (by omega)).2
      by_cases h2 : 0 ≤ d₂
      · have b := f2.1 (hp2 h2).1
        grind
      · have b := f2.2 (hn2 (by omega)).2
        grind

/-- `Seconds()` is monotone (as rationals; both results are finite for int64 arguments) -/
theorem durationSeconds_mono {d₁ d₂ : Int} (h1 : d₁.natAbs ≤ 2 ^ 63) (h2 : d₂.natAbs ≤ 2 ^ 63)
    (h : d₁ ≤ d₂) : toRat (durationSeconds d₁) ≤ toRat (durationSeconds d₂) := by
  rw [(durationSeconds_val h1).2.2, (durationSeconds_val h2).2.2]; exact secondsVal_mono h

/-- whole seconds convert exactly (`|k| ≤ 2^53`) -/
theorem secondsVal_whole {k : Int} (hk : k.natAbs ≤ 2 ^ 53) : secondsVal (k * 1000000000) = (k : Rat) := by
  unfold secondsVal
  have h1 : Int.tdiv (k * 1000000000) 1000000000 = k := Int.mul_tdiv_cancel _ (by decide)
  have h2 : Int.tmod (k * 1000000000) 1000000000 = 0 := Int.mul_tmod_left _ _
  rw [h1, h2, Rat.intCast_zero, Rat.div_def, Rat.zero_mul, rnd_zero, Rat.add_zero]
  exact rnd_of_rep (rep_intCast hk)

theorem secondsVal_nonneg {d : Int} (h : 0 ≤ d) : 0 ≤ secondsVal d := by
  have := secondsVal_mono h
  have h0 := secondsVal_whole (k := 0) (by decide)
  simp only [Int.zero_mul, Rat.intCast_zero] at h0
  rwa [h0] at this

theorem secondsVal_nonpos {d : Int} (h : d ≤ 0) : secondsVal d ≤ 0 := by
  have := secondsVal_mono h
  have h0 := secondsVal_whole (k := 0) (by decide)
  simp only [Int.zero_mul, Rat.intCast_zero] at h0
  rwa [h0] at this

theorem secondsVal_neg (d : Int) : secondsVal (-d) = -(secondsVal d) := by
  unfold secondsVal
  rw [Int.neg_tdiv, Int.neg_tmod, Rat.intCast_neg, Rat.intCast_neg, Rat.div_def, Rat.neg_mul,
    ← Rat.div_def, rnd_neg, ← Rat.neg_add, rnd_neg]

/-- sign of an absolute value, as a case split usable by `rcases` -/
theorem abs_cases (x : Rat) : (0 ≤ x ∧ x.abs = x) ∨ (x ≤ 0 ∧ x.abs = -x) := by
  by_cases h : 0 ≤ x
  · exact Or.inl ⟨h, Rat.abs_of_nonneg h⟩
  · have h' : x ≤ 0 := by grind
    exact Or.inr ⟨h', Rat.abs_of_nonpos h'⟩

private theorem secondsVal_arith {D sec n fr Sv η : Rat} (hη0 : 0 ≤ η)
    (hD : D = sec + n) (h0 : 0 ≤ n) (h1 : n ≤ D)
    (e1 : (fr - n).abs ≤ n / 9007199254740992 + η)
    (e2 : (Sv - (sec + fr)).abs ≤ (sec + fr).abs / 9007199254740992 + η) :
    (Sv - D).abs ≤ D * (3 / 9007199254740992) + 3 * η := by
  rw [abs_le_iff] at e1 e2
  rcases abs_cases (sec + fr) with ⟨hs, es⟩ | ⟨hs, es⟩ <;> rw [es] at e2 <;>
    exact abs_le_iff.2 ⟨by grind, by grind⟩

private theorem secondsVal_err_nonneg {d : Int} (h0 : 0 ≤ d) :
    (secondsVal d - (d : Rat) / 1000000000).abs ≤
      (d : Rat) / 1000000000 * (3 / 9007199254740992) + 3 * pow2 (-1075) := by
  obtain ⟨hsplit, hpos, _, hns⟩ := tdiv_tmod_facts d
  obtain ⟨hn0, hnd⟩ := hpos h0
  unfold secondsVal
  generalize Int.tdiv d 1000000000 = sec at *
  generalize Int.tmod d 1000000000 = ns at *
  have hD : (d : Rat) / 1000000000 = (sec : Rat) + (ns : Rat) / 1000000000 := by
    have : (d : Rat) = ((sec * 1000000000 + ns : Int) : Rat) := by rw [← hsplit]
    rw [this, Rat.intCast_add, Rat.intCast_mul]; simp only [Rat.intCast_ofNat]; grind
  have a : ((0 : Int) : Rat) ≤ (ns : Rat) := Rat.intCast_le_intCast.2 hn0
  have b : (ns : Rat) ≤ (d : Rat) := Rat.intCast_le_intCast.2 hnd
  rw [Rat.intCast_zero] at a
  have e1 := rnd_err_gen ((ns : Rat) / 1000000000)
  have e2 := rnd_err_gen ((sec : Rat) + rnd ((ns : Rat) / 1000000000))
  rw [show pow2 53 = 9007199254740992 by decide] at e1 e2
  rw [Rat.abs_of_nonneg (show 0 ≤ (ns : Rat) / 1000000000 by grind)] at e1
  exact secondsVal_arith (Rat.le_of_lt (pow2_pos _)) hD (by grind) (by grind) e1 e2

/-- error of `Seconds()`: two roundings, relative `3·2^-53` (plus the underflow slack) -/
theorem secondsVal_err (d : Int) :
    (secondsVal d - (d : Rat) / 1000000000).abs ≤
      ((d : Rat) / 1000000000).abs * (3 / 9007199254740992) + 3 * pow2 (-1075) := by
  by_cases h0 : 0 ≤ d
  · have h := secondsVal_err_nonneg h0
    have : 0 ≤ (d : Rat) / 1000000000 := by
      have : ((0 : Int) : Rat) ≤ (d : Rat) := Rat.intCast_le_intCast.2 h0
      rw [Rat.intCast_zero] at this; grind
    rwa [Rat.abs_of_nonneg this]
  · have h := secondsVal_err_nonneg (d := -d) (by omega)
    rw [secondsVal_neg, Rat.intCast_neg] at h
    have hle : (d : Rat) / 1000000000 ≤ 0 := by
      have : (d : Rat) ≤ ((0 : Int) : Rat) := Rat.intCast_le_intCast.2 (by omega)
      rw [Rat.intCast_zero] at this; grind
    rw [Rat.abs_of_nonpos hle]
    have e : -secondsVal d - -(d : Rat) / 1000000000 = -(secondsVal d - (d : Rat) / 1000000000) := by grind
    rw [e, Rat.abs_neg] at h
    grind

theorem secondsVal_abs_le {d : Int} (hd : d.natAbs ≤ 2 ^ 63) : (secondsVal d).abs ≤ 9223372037 := by
  have h1 := secondsVal_mono (d₁ := d) (d₂ := 9223372037 * 1000000000) (by omega)
  have h2 := secondsVal_mono (d₁ := -9223372037 * 1000000000) (d₂ := d) (by omega)
  rw [secondsVal_whole (by decide)] at h1 h2
  simp only [Rat.intCast_neg, Rat.intCast_ofNat] at h1 h2
  exact abs_le_iff.2 ⟨h2, h1⟩

theorem abs_mul_of_nonneg_right (x : Rat) {c : Rat} (hc : 0 ≤ c) : (x * c).abs = x.abs * c := by
  rw [abs_mul, Rat.abs_of_nonneg hc]

/-- the largest double below `2^63` -/
theorem rep_maxInt64F : Rep 9223372036854774784 := by
  have := rep_natCast_mul (k := 2 ^ 53 - 1) (K := 10) (by decide) (by decide)
  rw [show pow2 10 = 1024 by decide] at this
  have e : ((2 ^ 53 - 1 : Nat) : Rat) * 1024 = 9223372036854774784 := by
    simp only [Nat.reducePow, Nat.reduceSub, Rat.natCast_ofNat]; grind
  rwa [e] at this

/-- `timemath.Duration(s)` of a finite `s` whose nanosecond value fits int64 (magnitude at
    most the largest double below `2^63`) is the truncation of the rounded product -/
theorem toDuration_val {s : F64} (hs : isFinite s = true)
    (h : (toRat s * 1000000000).abs ≤ 9223372036854774784) :
    toDuration s = trunc (rnd (toRat s * 1000000000)) := by
  unfold toDuration
  rw [ofInt_1e9]
  have hmax : (9223372036854774784 : Rat) ≤ maxFin := by
    refine Rat.le_trans ?_ (pow2_le_maxFin (K := 63) (by decide))
    rw [show pow2 63 = 9223372036854775808 by decide]; grind
  obtain ⟨f, v⟩ := toRat_mul hs (show isFinite (.fin 1000000000) = true from rfl)
    (by rw [toRat_fin]; exact Rat.le_trans h hmax)
  rw [toRat_fin] at v
  have hb := rnd_abs_le_of_rep rep_maxInt64F h
  rw [abs_le_iff] at hb
  rw [toInt64_eq_trunc f (by rw [v, show pow2 63 = 9223372036854775808 by decide]; grind)
    (by rw [v, show pow2 63 = 9223372036854775808 by decide]; grind), v]

/-! ### 8. clamp-then-convert: a parts-per-million slew bound (PLL)

The PLL clamps `p` to `[d * -500e-6, d * 500e-6]` (`d = math.Ceil(dt)`, an integer number of
seconds) and hands `timemath.Duration(p)` to the clock: the slew is at most 500 µs per second,
in integer nanoseconds, with no rounding slack — for `d ≤ 6·10^9` s. -/

/-- the double nearest to `500e-6` -/
def c500ppm : Rat := rnd (1 / 2000)

theorem c500ppm_bounds :
    1 / 2000 - 1 / 2000 / 9007199254740992 ≤ c500ppm ∧ c500ppm ≤ 1 / 2000 + 1 / 2000 / 9007199254740992 := by
  have h : pow2 (-1022) ≤ ((1 : Rat) / 2000).abs := by
    rw [Rat.abs_of_nonneg (by grind)]
    refine Rat.le_trans (pow2_mono (show (-1022 : Int) ≤ -11 by decide)) ?_
    rw [show pow2 (-11) = 1 / 2048 by rw [pow2_neg]; congr 1]; grind
  have e := rnd_err_rel h
  rw [Rat.abs_of_nonneg (show (0 : Rat) ≤ 1 / 2000 by grind), show pow2 53 = 9007199254740992 by decide,
    abs_le_iff] at e
  unfold c500ppm; grind

theorem ofConst_500ppm : toRat (ofConst 500 1000000) = c500ppm := by
  unfold ofConst c500ppm
  have e : ((500 : Int) : Rat) / ((1000000 : Nat) : Rat) = 1 / 2000 := by
    simp only [Rat.intCast_ofNat, Rat.natCast_ofNat]; grind
  rw [e]
  refine toRat_roundNE_of_le (Rat.le_trans ?_ (pow2_le_maxFin (K := 0) (by decide)))
  rw [pow2_zero, abs_le_iff]; grind

private theorem slew_arith {d x r1 r2 η : Rat} (hd : d ≤ 6000000000)
    (hη : η ≤ 1 / 1152921504606846976)
    (hx : x ≤ d * (1 / 2000 + 1 / 2000 / 9007199254740992))
    (e1 : r1 - x ≤ x / 9007199254740992 + η)
    (e2 : r2 - r1 * 1000000000 ≤ r1 * 1000000000 / 9007199254740992 + η) :
    r2 < 500000 * d + 1 := by
  grind

/-- the clamp value, converted: `rnd (rnd (d·c)·10^9) < 500000·d + 1` -/
theorem slew_upper {d : Rat} (hd0 : 0 ≤ d) (hd : d ≤ 6000000000) :
    rnd (rnd (d * c500ppm) * 1000000000) < 500000 * d + 1 := by
  obtain ⟨cl, cu⟩ := c500ppm_bounds
  have hc0 : 0 ≤ c500ppm := by grind
  have hx0 : 0 ≤ d * c500ppm := Rat.mul_nonneg hd0 hc0
  have hx : d * c500ppm ≤ d * (1 / 2000 + 1 / 2000 / 9007199254740992) :=
    Rat.mul_le_mul_of_nonneg_left cu hd0
  have h1 : 0 ≤ rnd (d * c500ppm) := rnd_nonneg hx0
  have e1 := rnd_err_gen (d * c500ppm)
  have e2 := rnd_err_gen (rnd (d * c500ppm) * 1000000000)
  rw [show pow2 53 = 9007199254740992 by decide, abs_le_iff,
    Rat.abs_of_nonneg hx0] at e1
  rw [show pow2 53 = 9007199254740992 by decide, abs_le_iff,
    Rat.abs_of_nonneg (show 0 ≤ rnd (d * c500ppm) * 1000000000 by grind)] at e2
  have hη : pow2 (-1075) ≤ 1 / 1152921504606846976 := by
    rw [show (1 : Rat) / 1152921504606846976 = pow2 (-60) by rw [pow2_neg]; congr 1]
    exact pow2_mono (by decide)
  exact slew_arith hd hη hx e1.2 e2.2

/-- PLL slew bound: if `p` lies between the two clamp values `∓rnd (d·c)` for an integer
    number of seconds `0 ≤ k ≤ 6·10^9` (`d = k`), then `timemath.Duration(p)` — the truncation of
    `rnd (p·10^9)` — is at most `500000·k` ns in magnitude: 500 ppm, exactly. -/
theorem ppm_slew_bound {k : Int} (hk0 : 0 ≤ k) (hk : k ≤ 6000000000) {p : Rat}
    (hp1 : -(rnd ((k : Rat) * c500ppm)) ≤ p) (hp2 : p ≤ rnd ((k : Rat) * c500ppm)) :
    -(500000 * k) ≤ trunc (rnd (p * 1000000000)) ∧ trunc (rnd (p * 1000000000)) ≤ 500000 * k := by
  have hd0 : (0 : Rat) ≤ (k : Rat) := by
    have : ((0 : Int) : Rat) ≤ (k : Rat) := Rat.intCast_le_intCast.2 hk0
    rwa [Rat.intCast_zero] at this
  have hd : (k : Rat) ≤ 6000000000 := by
    have : (k : Rat) ≤ ((6000000000 : Int) : Rat) := Rat.intCast_le_intCast.2 hk
    simpa using this
  have hu := slew_upper hd0 hd
  generalize hr : rnd ((k : Rat) * c500ppm) = r1 at *
  have hcast : ((500000 * k + 1 : Int) : Rat) = 500000 * (k : Rat) + 1 := by
    rw [Rat.intCast_add, Rat.intCast_mul]; simp
  -- upper side
  have up : trunc (rnd (p * 1000000000)) ≤ 500000 * k := by
    have m := trunc_mono (rnd_mono (show p * 1000000000 ≤ r1 * 1000000000 by grind))
    have : trunc (rnd (r1 * 1000000000)) < 500000 * k + 1 := by
      by_cases hs : 0 ≤ rnd (r1 * 1000000000)
      · have t := (trunc_of_nonneg hs).2.1
        have : ((trunc (rnd (r1 * 1000000000)) : Int) : Rat) < ((500000 * k + 1 : Int) : Rat) := by
          rw [hcast]; grind
        exact Rat.intCast_lt_intCast.1 this
      · have := (trunc_of_nonpos (show rnd (r1 * 1000000000) ≤ 0 by grind)).1
        omega
    omega
  -- lower side, by symmetry
  have lo : -(500000 * k) ≤ trunc (rnd (p * 1000000000)) := by
    have m := trunc_mono (rnd_mono (show -(r1 * 1000000000) ≤ p * 1000000000 by grind))
    rw [rnd_neg] at m
    have : -(500000 * k + 1) < trunc (-(rnd (r1 * 1000000000))) := by
      by_cases hs : 0 ≤ rnd (r1 * 1000000000)
      · have t := (trunc_of_nonpos (show -(rnd (r1 * 1000000000)) ≤ 0 by grind)).2.1
        have : ((-(500000 * k + 1) : Int) : Rat) < ((trunc (-(rnd (r1 * 1000000000))) : Int) : Rat) := by
          rw [Rat.intCast_neg, hcast]; grind
        exact Rat.intCast_lt_intCast.1 this
      · have := (trunc_of_nonneg (show 0 ≤ -(rnd (r1 * 1000000000)) by grind)).1
        omega
    omega
  exact ⟨lo, up⟩

/-! ### 9. bit patterns: `ofBits (toBits x) = x` -/

theorem bits_decomp (s E r : Nat) (hs : s ≤ 1) (hE : E < 2048) (hr : r < 4503599627370496) :
    (s * 9223372036854775808 + E * 4503599627370496 + r) / 9223372036854775808 % 2 = s ∧
    (s * 9223372036854775808 + E * 4503599627370496 + r) / 4503599627370496 % 2048 = E ∧
    (s * 9223372036854775808 + E * 4503599627370496 + r) % 4503599627370496 = r := by
  generalize hb : s * 9223372036854775808 + E * 4503599627370496 + r = b
  have q1 : b / 9223372036854775808 = s := by omega
  have q2 : b / 4503599627370496 = s * 2048 + E := by omega
  refine ⟨by omega, by omega, by omega⟩

/-- decoding a pattern given by its three fields -/
theorem ofBits_parts (sg : Bool) (E r : Nat) (hE : E < 2048) (hr : r < 2 ^ 52) :
    ofBits ((if sg then 2 ^ 63 else 0) + E * 2 ^ 52 + r) =
      if E = 2047 then (if r = 0 then .inf sg else .nan)
      else if E = 0 then
        (if r = 0 then .zero sg
         else .fin (if sg then -((r : Rat) * pow2 (-1074)) else (r : Rat) * pow2 (-1074)))
      else .fin (if sg then -(((2 ^ 52 + r : Nat) : Rat) * pow2 ((E : Int) - 1075))
                 else ((2 ^ 52 + r : Nat) : Rat) * pow2 ((E : Int) - 1075)) := by
  unfold ofBits minExp
  simp only [Nat.reducePow] at hr ⊢
  cases sg
  · obtain ⟨a, b, c⟩ := bits_decomp 0 E r (by omega) hE hr
    simp only [Nat.zero_mul] at a b c
    simp only [Bool.false_eq_true, if_false, a, b, c]
    simp
  · obtain ⟨a, b, c⟩ := bits_decomp 1 E r (by omega) hE hr
    simp only [Nat.one_mul] at a b c
    simp only [if_true, a, b, c]
    simp

/-- the fields of a well-formed finite value: mantissa `m`, exponent `e`, `|q| = m·2^e` -/
theorem WF_fin_fields {q : Rat} (h : WF (.fin q)) :
    let a : Rat := if decide (q < 0) = true then -q else q
    let e := ulpExp a.num.natAbs a.den
    let m := (a / pow2 e).floor.toNat
    (m : Rat) * pow2 e = a ∧ 1 ≤ m ∧ m < 2 ^ 53 ∧ (2 ^ 52 ≤ m ∨ e = -1074) ∧ -1074 ≤ e ∧ e ≤ 971 := by
  obtain ⟨hr, hlt, h0⟩ := WF.rep h
  have hrnd := rnd_of_rep hr
  intro a e m
  have ha_abs : a = q.abs := by
    show (if decide (q < 0) = true then -q else q) = q.abs
    by_cases hq : q < 0
    · simp only [hq, decide_true, if_true]; exact (Rat.abs_of_nonpos (Rat.le_of_lt hq)).symm
    · simp only [hq, decide_false, Bool.false_eq_true, if_false]; exact (Rat.abs_of_nonneg (by grind)).symm
  have ha : 0 < a := by rw [ha_abs]; exact Rat.abs_pos_iff.2 h0
  have hfix : rndPos a = a := by rw [ha_abs, ← rnd_abs, hrnd]
  have he : e = ulpE a := rfl
  have hP := pow2_pos e
  -- the quotient is the natural number chosen by the rounding
  obtain ⟨k, hk⟩ : ∃ k : Nat, a / pow2 e = (k : Rat) := by
    refine ⟨roundHalfEven (a / pow2 e), ?_⟩
    have : ((roundHalfEven (a / pow2 (ulpE a)) : Nat) : Rat) * pow2 (ulpE a) = a := hfix
    rw [← he] at this
    apply Rat.le_antisymm
    · rw [div_le_iff hP, this]; exact Rat.le_refl
    · rw [le_div_iff hP, this]; exact Rat.le_refl
  have hm : m = k := by
    show (a / pow2 e).floor.toNat = k
    rw [hk, ← Rat.intCast_natCast, Rat.floor_intCast]; simp
  have hmul : (m : Rat) * pow2 e = a := by
    rw [hm, ← hk]; exact Rat.div_mul_cancel (pow2_ne_zero e)
  obtain ⟨L, a1, a2, eL⟩ := ulpE_spec ha
  rw [← he] at eL
  have hge : -1074 ≤ e := by rw [he]; exact ulpE_ge a
  have hL : L < 1024 := pow2_lt_iff.1 (by rw [ha_abs] at a1; grind)
  have hlt53 : (m : Rat) < ((2 ^ 53 : Nat) : Rat) := by
    have h1 : pow2 (L + 1) ≤ pow2 (53 + e) := pow2_mono (by rw [eL]; split <;> omega)
    rw [pow2_add 53 e, pow2_53] at h1
    have : (m : Rat) * pow2 e < ((2 ^ 53 : Nat) : Rat) * pow2 e := by grind
    exact Rat.lt_of_mul_lt_mul_right this (Rat.le_of_lt hP)
  have hm53 : m < 2 ^ 53 := Rat.natCast_lt_natCast.1 hlt53
  have hm1 : 1 ≤ m := by
    rcases Nat.eq_zero_or_pos m with hz | hp
    · rw [hz] at hmul; simp at hmul; grind
    · exact hp
  refine ⟨hmul, hm1, hm53, ?_, hge, by rw [eL]; split <;> omega⟩
  by_cases hsub : L - 52 < -1074
  · right; rw [eL, if_pos hsub]
  · left
    rw [if_neg hsub] at eL
    have h1 : pow2 52 * pow2 e = pow2 L := by rw [← pow2_add, eL]; congr 1; omega
    have : ((2 ^ 52 : Nat) : Rat) * pow2 e ≤ (m : Rat) * pow2 e := by
      rw [← pow2_natCast 52] ; show pow2 52 * pow2 e ≤ _; rw [h1, hmul]; exact a1
    exact Rat.natCast_le_natCast.1 (Rat.le_of_mul_le_mul_right this hP)

/-- the line protocol loses nothing: decoding the encoding of a well-formed value gives it
    back (every NaN is the canonical one) -/
theorem ofBits_toBits {x : F64} (h : WF x) : ofBits (toBits x) = x := by
  cases x with
  | nan => decide
  | inf n => cases n <;> decide
  | zero n => cases n <;> decide
  | fin q =>
    obtain ⟨hmul, hm1, hm53, hnorm, hge, hle⟩ := WF_fin_fields h
    unfold toBits
    simp only []
    generalize hsg : decide (q < 0) = sg at *
    generalize ha : (if sg = true then -q else q) = a at *
    generalize he : ulpExp a.num.natAbs a.den = e at *
    generalize hmm : (a / pow2 e).floor.toNat = m at *
    have hq : q = if sg = true then -a else a := by
      rw [← ha]; cases sg <;> simp
    by_cases hsm : m < 2 ^ 52
    · rw [if_pos hsm]
      have he' : e = -1074 := by rcases hnorm with h' | h'; omega; exact h'
      have := ofBits_parts sg 0 m (by decide) hsm
      simp only [Nat.zero_mul, Nat.add_zero] at this
      rw [this]
      simp only [if_true, if_neg (show ¬ m = 0 by omega)]
      rw [hq, ← hmul, he', if_neg (by decide)]
    · rw [if_neg hsm]
      obtain ⟨E, hE⟩ := Int.eq_ofNat_of_zero_le (show 0 ≤ e + 1075 by omega)
      have hEn : (e + 1075).toNat = E := by omega
      rw [hEn]
      have := ofBits_parts sg E (m - 2 ^ 52) (by omega) (by omega)
      rw [Nat.add_assoc] at this ⊢
      rw [this, if_neg (by omega), if_neg (by omega), hq, ← hmul,
        show 2 ^ 52 + (m - 2 ^ 52) = m by omega, show (E : Int) - 1075 = e by omega]

end ScionTime.F64
