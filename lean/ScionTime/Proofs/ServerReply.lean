/-
  Lemmas for C06: what `handleRequest` replies and records, what `updateTX` records,
  and the era-agnostic "later" relation on NTP timestamps.
-/
import ScionTime.Proofs.ServerOps
namespace ScionTime.Server
open ScionTime.Time64

/-- the 64-bit fixed-point value of an NTP timestamp -/
def val64 (x : T64) : Int := x.sec * 4294967296 + x.frac

/-- `tx` is later than `rx` in NTP's era-agnostic sense: the 64-bit difference `tx - rx`
    (mod 2^64) lies in (0, 2^63) -/
def Later (rx tx : T64) : Prop :=
  0 < (val64 tx - val64 rx) % 18446744073709551616 ∧
    (val64 tx - val64 rx) % 18446744073709551616 < 9223372036854775808

instance (a b : T64) : Decidable (Later a b) := by unfold Later; infer_instance

/-- encodings of two instants less than 2^30 s apart compare like the instants -/
theorem later_ofTime (r t : Int) (h1 : r < t) (h2 : t - r < 1073741824000000000) :
    Later (ofTime r) (ofTime t) := by
  unfold Later val64 ofTime unixSec nanosecond
  simp only
  t64c
  have hs : r / 1000000000 ≤ t / 1000000000 := by omega
  have hd : t / 1000000000 - r / 1000000000 ≤ 1073741824 := by omega
  have hnr0 : 0 ≤ r % 1000000000 ∧ r % 1000000000 < 1000000000 := by omega
  have hnt0 : 0 ≤ t % 1000000000 ∧ t % 1000000000 < 1000000000 := by omega
  have hlt : r / 1000000000 < t / 1000000000 ∨
      (r / 1000000000 = t / 1000000000 ∧ r % 1000000000 < t % 1000000000) := by omega
  generalize r / 1000000000 = sr at *
  generalize t / 1000000000 = st' at *
  generalize r % 1000000000 = nr at *
  generalize t % 1000000000 = nt at *
  have hfr0 : 0 ≤ nr * 4294967296 / 1000000000 ∧ nr * 4294967296 / 1000000000 < 4294967296 := by omega
  have hft0 : 0 ≤ nt * 4294967296 / 1000000000 ∧ nt * 4294967296 / 1000000000 < 4294967296 := by omega
  have hflt : sr = st' → nr * 4294967296 / 1000000000 < nt * 4294967296 / 1000000000 := by intro e; omega
  generalize nr * 4294967296 / 1000000000 = fr at *
  generalize nt * 4294967296 / 1000000000 = ft at *
  have hD : (st' - -2208988800) % 4294967296 * 4294967296 + ft -
      ((sr - -2208988800) % 4294967296 * 4294967296 + fr) =
      ((st' - sr) * 4294967296 + (ft - fr)) + 18446744073709551616 *
        ((sr - -2208988800) / 4294967296 - (st' - -2208988800) / 4294967296) := by omega
  rw [hD, Int.add_mul_emod_self_left]
  have hV : 0 < (st' - sr) * 4294967296 + (ft - fr) ∧
      (st' - sr) * 4294967296 + (ft - fr) < 9223372036854775808 := by omega
  rw [Int.emod_eq_of_lt (by omega) (by omega)]
  exact hV

/-- the software transmit time `handleRequest` starts from -/
def txt0 (strict : Bool) (rxt now : Int) : Int := if strict && !(rxt < now) then rxt + 1 else now

/-- reply and out-parameters of `handleRequest` in closed form -/
theorem hr_outputs (strict : Bool) (cap icap : Nat) (st : State) (id : Nat) (req : Req) (rxt now : Int) :
    (∀ it, st.items.find id = some it →
      (handleRequestG strict cap icap st id req rxt now).rxt =
          (uniq it.buf rxt (txt0 strict rxt now) (it.buf.length + 1)).1 ∧
      (handleRequestG strict cap icap st id req rxt now).txt =
          (uniq it.buf rxt (txt0 strict rxt now) (it.buf.length + 1)).2 ∧
      (handleRequestG strict cap icap st id req rxt now).reply =
        mkReply req (ofTime (uniq it.buf rxt (txt0 strict rxt now) (it.buf.length + 1)).1)
          (ofTime (uniq it.buf rxt (txt0 strict rxt now) (it.buf.length + 1)).2)
          ((scan it.buf req.org).o.bind (fun o => it.buf[o]?))) ∧
    (st.items.find id = none →
      (handleRequestG strict cap icap st id req rxt now).rxt = rxt ∧
      (handleRequestG strict cap icap st id req rxt now).txt = txt0 strict rxt now ∧
      (handleRequestG strict cap icap st id req rxt now).reply =
        mkReply req (ofTime rxt) (ofTime (txt0 strict rxt now)) none) := by
  unfold handleRequestG txt0
  simp only
  constructor
  · intro it hit
    rw [hit]
    exact ⟨rfl, rfl, rfl⟩
  · intro hnone
    rw [hnone]
    simp only
    split <;> exact ⟨rfl, rfl, rfl⟩

/-- the entry served by the origin lookup, if any -/
theorem served_spec (buf : List Entry) (org : T64) :
    (∀ e, (scan buf org).o.bind (fun o => buf[o]?) = some e → e ∈ buf ∧ e.rx = org) ∧
    ((scan buf org).o.bind (fun o => buf[o]?) = none → ∀ e ∈ buf, e.rx ≠ org) := by
  have sinv := scan_inv buf org
  generalize scan buf org = sc at sinv
  constructor
  · intro e he
    cases ho : sc.o with
    | none => simp [ho] at he
    | some o =>
      simp only [ho, Option.bind_some] at he
      have := sinv.o_some o ho
      rw [he] at this
      exact ⟨List.mem_of_getElem? he, by simpa using this⟩
  · intro hn
    cases ho : sc.o with
    | none => exact sinv.o_none ho
    | some o =>
      simp only [ho, Option.bind_some] at hn
      have := sinv.o_some o ho
      rw [hn] at this; cases this

/-- entries of one item with the same rx are the same entry -/
theorem eq_of_rx_eq {buf : List Entry} (hn : (buf.map (·.rx)).Nodup) {a b : Entry}
    (ha : a ∈ buf) (hb : b ∈ buf) (h : a.rx = b.rx) : a = b := by
  induction buf with
  | nil => cases ha
  | cons c l ih =>
    simp only [List.map_cons, List.nodup_cons, List.mem_map, not_exists, not_and] at hn
    rcases List.mem_cons.1 ha with ea | ha'
    · rcases List.mem_cons.1 hb with eb | hb'
      · rw [ea, eb]
      · subst ea; exact absurd h.symm (hn.1 b hb')
    · rcases List.mem_cons.1 hb with eb | hb'
      · subst eb; exact absurd h (hn.1 a ha')
      · exact ih hn.2 ha' hb'

/-- after `handleRequest`, whatever the client keeps contains the pair just replied
    (unless the request was served statelessly and the client keeps nothing) -/
theorem find_after_update (m m1 : Map) (id : Nat) (it : Item) (q' : T64)
    (g : List Entry → List Entry) (hit : m.find id = some it) (s1 : Same (setQval m id q') m1) :
    ∃ it1, (setBuf m1 id g).find id = some it1 ∧ it1.buf = g it.buf ∧ it1.qval = q' := by
  have hs := s1 id
  rw [find_setQval] at hs
  simp only [if_true, hit, Option.map_some, core] at hs
  cases hf1 : Map.find m1 id with
  | none => simp [hf1] at hs
  | some it1 =>
    simp only [hf1, Option.map_some, Option.some.injEq] at hs
    unfold core at hs
    simp only [Prod.mk.injEq] at hs
    refine ⟨{ it1 with buf := g it1.buf }, ?_, ?_, ?_⟩
    · rw [find_setBuf]; simp [hf1]
    · simp only; rw [← hs.1]
    · simp only; rw [← hs.2]

theorem mem_storeEntry (icap : Nat) (buf : List Entry) (org : T64) (e : Entry) (hpos : 1 ≤ buf.length) :
    e ∈ storeEntry icap buf (scan buf org) e := by
  have sinv := scan_inv buf org
  generalize scan buf org = sc at sinv
  have hlt : ∀ {i : Nat} {v : T64}, (buf[i]?).map (·.rx) = some v → i < buf.length := by
    intro i v h
    rcases Nat.lt_or_ge i buf.length with c | c
    · exact c
    · rw [List.getElem?_eq_none c] at h; cases h
  unfold storeEntry
  split
  · rename_i o ho
    exact List.mem_set (hlt (sinv.o_some o ho)) e
  · split
    · split
      · rename_i m v hm
        exact List.mem_set (hlt (sinv.mn_some m v hm)) e
      · rename_i hm
        have := sinv.mn_none hm
        subst this; simp at hpos
    · simp

end ScionTime.Server

namespace ScionTime.Server
open ScionTime.Time64
variable {P : Entry → Prop}

theorem mkReply_rx (req : Req) (a b : T64) (s : Option Entry) : (mkReply req a b s).rx = a := by
  unfold mkReply; split
  · split <;> rfl
  · rfl

theorem mkReply_ref (req : Req) (a b : T64) (s : Option Entry) : (mkReply req a b s).ref = b := by
  unfold mkReply; split
  · split <;> rfl
  · rfl

theorem mkReply_inter (req : Req) (a b : T64) (s : Option Entry) :
    (mkReply req a b s).inter = true ↔ req.rx ≠ req.tx ∧ ∃ e, s = some e := by
  unfold mkReply; split
  · rename_i e
    split
    · rename_i h; simp [h]
    · rename_i h; simp [h]
  · simp

theorem mkReply_inter_shape (req : Req) (a b : T64) (e : Entry)
    (h : (mkReply req a b (some e)).inter = true) :
    (mkReply req a b (some e)).org = req.rx ∧ (mkReply req a b (some e)).tx = e.tx := by
  unfold mkReply at h ⊢
  simp only at h ⊢
  split
  · exact ⟨rfl, rfl⟩
  · rename_i hne; simp [hne] at h

theorem mkReply_basic_shape (req : Req) (a b : T64) (s : Option Entry)
    (h : (mkReply req a b s).inter = false) :
    (mkReply req a b s).org = req.tx ∧ (mkReply req a b s).tx = b := by
  unfold mkReply at h ⊢
  split
  · split
    · rename_i hne; simp [hne] at h
    · exact ⟨rfl, rfl⟩
  · exact ⟨rfl, rfl⟩

/-- the optional eviction keeps map/heap agreement and does not make `id` appear -/
theorem evict_keeps (cap : Nat) (hcap : 1 ≤ cap) (st : State) (h : WF st) (rxt64 : T64) (id : Nat)
    (hnone : st.items.find id = none) :
    WF (evict cap st rxt64).1 ∧ (evict cap st rxt64).1.items.find id = none := by
  unfold evict
  split
  · rename_i hc
    simp only [Bool.and_eq_true, decide_eq_true_eq] at hc
    have hpos : 0 < st.heap.size := by have := h.len; omega
    obtain ⟨a, _, c, d⟩ := popMin_spec st h hpos
    refine ⟨a, ?_⟩
    simp only
    by_cases e : id = (popMin st).2
    · rw [e]; exact d
    · have := c id e
      rw [hnone] at this
      cases hf : Map.find (popMin st).1.items id <;> simp [hf] at this ⊢
  · exact ⟨h, hnone⟩

/-- After `handleRequest`, whatever the client keeps contains the pair just replied. -/
theorem hr_recorded (strict : Bool) (cap icap : Nat) (hcap : 1 ≤ cap) (st : State)
    (inv : Inv0 P cap icap st) (id : Nat) (req : Req) (rxt now : Int) (it' : Item)
    (hf : (handleRequestG strict cap icap st id req rxt now).st.items.find id = some it') :
    (⟨ofTime (handleRequestG strict cap icap st id req rxt now).rxt,
      ofTime (handleRequestG strict cap icap st id req rxt now).txt, id⟩ : Entry) ∈ it'.buf := by
  unfold handleRequestG at hf ⊢
  simp only at hf ⊢
  split at hf
  · rename_i it hit
    have ok := inv.items id it hit
    obtain ⟨q', _, _, _, s1, _⟩ := hr_fix_spec st inv.wf id it hit (scan it.buf req.org).mx
      (ofTime (uniq it.buf rxt (if (strict && !decide (rxt < now)) = true then rxt + 1 else now) (it.buf.length + 1)).1)
    obtain ⟨it1, h1, h2, _⟩ := find_after_update st.items _ id it q'
      (fun b => storeEntry icap b (scan it.buf req.org)
        ⟨ofTime (uniq it.buf rxt (if (strict && !decide (rxt < now)) = true then rxt + 1 else now) (it.buf.length + 1)).1,
         ofTime (uniq it.buf rxt (if (strict && !decide (rxt < now)) = true then rxt + 1 else now) (it.buf.length + 1)).2, id⟩)
      hit s1
    simp only at hf
    rw [h1] at hf
    cases hf
    rw [h2]
    exact mem_storeEntry icap it.buf req.org _ ok.len_pos
  · rename_i hnone
    obtain ⟨w1, n1⟩ := evict_keeps cap hcap st inv.wf (ofTime rxt) id hnone
    generalize evict cap st (ofTime rxt) = ev at w1 n1 hf ⊢
    split at hf
    · simp only at hf; rw [n1] at hf; cases hf
    · rename_i hne
      simp only [hne, if_false]
      obtain ⟨_, _, s2⟩ := push_spec ev.1 w1 id { buf := [], qval := ofTime rxt, qidx := 0 } n1
      simp only at hf
      rw [find_setBuf] at hf
      simp only [if_true] at hf
      have hs := s2 id
      rw [Map.find_cons] at hs
      simp only [if_true, Option.map_some] at hs
      cases hf2 : Map.find (push { items := (id, { buf := [], qval := ofTime rxt, qidx := 0 }) :: ev.1.items, heap := ev.1.heap } id).items id with
      | none => rw [hf2] at hs; simp at hs
      | some it2 =>
        rw [hf2] at hs hf
        simp only [Option.map_some, Option.some.injEq] at hs hf
        unfold core at hs
        simp only [Prod.mk.injEq] at hs
        subst hf
        simp only
        rw [← hs.1]
        simp

end ScionTime.Server

namespace ScionTime.Server
open ScionTime.Time64
variable {P : Entry → Prop}

/-- `*txt` after `updateTXTimestamp` -/
def utxTxt (rxt txt1 : Int) : Int := if ¬ rxt < txt1 then rxt + 1 else txt1

theorem utx_txt (st : State) (id : Nat) (rxt txt1 : Int) :
    (updateTX st id rxt txt1).2 = utxTxt rxt txt1 := by
  unfold updateTX utxTxt
  simp only
  generalize (if ¬ rxt < txt1 then rxt + 1 else txt1) = txt
  split
  · rfl
  · split
    · rfl
    · split
      · rfl
      · split <;> rfl

/-- What `updateTX` does to the exchange with receive time `rxt` of client `id`: the kernel
    transmit time replaces the recorded one if it differs, otherwise the exchange is dropped. -/
theorem utx_recorded (cap icap : Nat) (st : State) (inv : Inv0 P cap icap st) (id : Nat)
    (rxt txt1 : Int) (it : Item) (hit : st.items.find id = some it) (e : Entry) (he : e ∈ it.buf)
    (hrx : e.rx = ofTime rxt) :
    (e.tx ≠ ofTime (utxTxt rxt txt1) →
      ∃ it', (updateTX st id rxt txt1).1.items.find id = some it' ∧
        { e with tx := ofTime (utxTxt rxt txt1) } ∈ it'.buf ∧ it'.buf.length = it.buf.length) ∧
    (e.tx = ofTime (utxTxt rxt txt1) →
      ∀ it', (updateTX st id rxt txt1).1.items.find id = some it' →
        (∀ e' ∈ it'.buf, e'.rx ≠ ofTime rxt) ∧ it'.buf.length + 1 = it.buf.length) := by
  have ok := inv.items id it hit
  have s2 := scan2_inv it.buf (ofTime rxt)
  unfold updateTX utxTxt
  simp only [hit]
  generalize (if ¬ rxt < txt1 then rxt + 1 else txt1) = txt
  generalize scan2 it.buf (ofTime rxt) = sc at s2 ⊢
  cases hx : sc.x with
  | none => exact absurd hrx (s2.x_none hx e he)
  | some x =>
    simp only
    have hxs := s2.x_some x hx
    have hxl : x < it.buf.length := by
      rcases Nat.lt_or_ge x it.buf.length with c | c
      · exact c
      · rw [List.getElem?_eq_none c] at hxs; cases hxs
    have hxrx : (it.buf[x]).rx = ofTime rxt := by
      rw [List.getElem?_eq_getElem hxl] at hxs; simpa using hxs
    have hex : it.buf.getD x defaultEntry = e := by
      rw [List.getD_eq_getElem?_getD, List.getElem?_eq_getElem hxl]
      exact eq_of_rx_eq ok.distinct (List.getElem_mem hxl) he (by simp only [Option.getD_some]; rw [hxrx, hrx])
    rw [hex]
    constructor
    · intro hne
      simp only [hne, ne_eq, not_false_eq_true, if_true]
      refine ⟨{ it with buf := it.buf.set x { e with tx := ofTime txt } }, ?_, ?_, ?_⟩
      · rw [find_setBuf]; simp [hit]
      · exact List.mem_set hxl _
      · simp
    · intro heq it' hf
      simp only [heq, ne_eq, not_true_eq_false, if_false] at hf
      split at hf
      · obtain ⟨_, _, _, d⟩ := remove_spec st inv.wf id it hit
        simp only at hf
        rw [d] at hf; cases hf
      · obtain ⟨q', _, _, _, s1, _⟩ := utx_fix_spec st inv.wf id it hit sc.m0 sc.m1 (ofTime rxt)
        obtain ⟨it1, h1, h2, _⟩ := find_after_update st.items _ id it q' (fun b => swapRemove b x) hit s1
        simp only at hf
        have hf' : Map.find (setBuf (utxFix st id it.qidx sc.m0 sc.m1 (ofTime rxt)).items id
            (fun b => swapRemove b x)) id = some it' := hf
        rw [h1] at hf'
        cases hf'
        rw [h2]
        refine ⟨?_, ?_⟩
        · intro e' he'
          have := (rx_ne_of_mem_swapRemove hxl ok.distinct he').2
          rw [hxrx] at this; exact this
        · rw [length_swapRemove _ _ hxl]
          have := ok.len_pos; omega

end ScionTime.Server
