/-
  Mutual exclusion ⇒ linearizability (Model/Mutex.lean): invariants of the interleaving
  semantics and their preservation by every scheduler choice. Core Lean only.
-/
import ScionTime.Model.Mutex
namespace ScionTime.Mutex

variable {σ ι : Type}

/-- invariant: the shared state is the sequential execution of the completed operations in
    lock-acquisition order, plus the micro-steps the current holder has already done -/
def Inv (sem : ι → Body σ) (init : σ) (s : Sys σ ι) : Prop :=
  match s.holder with
  | none => (∀ th ∈ s.threads, th.cur = none) ∧ s.shared = seqResult sem init s.log
  | some i =>
    ∃ th prev op done rem, s.threads[i]? = some th ∧ th.cur = some rem ∧
      (∀ j th', j ≠ i → s.threads[j]? = some th' → th'.cur = none) ∧
      s.log = prev ++ [(i, op)] ∧ sem op = done ++ rem ∧
      s.shared = runOp done (seqResult sem init prev)

theorem seqResult_append (sem : ι → Body σ) (init : σ) (l : List (Nat × ι)) (e : Nat × ι) :
    seqResult sem init (l ++ [e]) = runOp (sem e.2) (seqResult sem init l) := by
  simp [seqResult, List.foldl_append]

theorem runOp_append (a b : Body σ) (s : σ) : runOp (a ++ b) s = runOp b (runOp a s) := by
  simp [runOp, List.foldl_append]

theorem step_inv (sem : ι → Body σ) (init : σ) (s s' : Sys σ ι) (i : Nat) (h : Inv sem init s)
    (hs : step sem s i = some s') : Inv sem init s' := by
  unfold step at hs
  cases hth : s.threads[i]? with
  | none => simp [hth] at hs
  | some th =>
    simp only [hth] at hs
    cases hcur : th.cur with
    | none =>
      simp only [hcur] at hs
      cases htodo : th.todo with
      | nil => simp [htodo] at hs
      | cons op rest =>
        cases hh : s.holder with
        | some k => simp [htodo, hh] at hs
        | none =>
          simp only [htodo, hh] at hs
          injection hs with hs; subst hs
          unfold Inv at h ⊢
          simp only [hh] at h
          obtain ⟨hall, hsh⟩ := h
          have hi : i < s.threads.length := by
            rcases List.getElem?_eq_some_iff.mp hth with ⟨hlt, _⟩; exact hlt
          refine ⟨{ todo := rest, cur := some (sem op) }, s.log, op, [], sem op, ?_, rfl, ?_, rfl, by simp, ?_⟩
          · simp [hi]
          · intro j th' hj hget
            rw [List.getElem?_set_ne (Ne.symm hj)] at hget
            exact hall th' (List.mem_of_getElem? hget)
          · simpa [runOp] using hsh
    | some rem =>
      simp only [hcur] at hs
      cases rem with
      | nil =>
        by_cases hh : s.holder = some i
        · simp only [hh, if_true] at hs
          injection hs with hs; subst hs
          unfold Inv at h ⊢
          simp only [hh] at h
          obtain ⟨th0, prev, op, done, rem, hget, hc, hoth, hlog, hop, hsh⟩ := h
          have : th0 = th := by rw [hth] at hget; injection hget with e; exact e.symm
          subst this
          rw [hcur] at hc; injection hc with hc; subst hc
          simp only
          constructor
          · intro th' hmem
            rcases List.mem_iff_getElem?.mp hmem with ⟨j, hj⟩
            by_cases hji : j = i
            · subst hji
              have hi : j < s.threads.length := by
                rcases List.getElem?_eq_some_iff.mp hth with ⟨hlt, _⟩; exact hlt
              simp [hi] at hj; rw [← hj]
            · rw [List.getElem?_set_ne (Ne.symm hji)] at hj
              exact hoth j th' hji hj
          · rw [hlog, seqResult_append, hsh, hop]; simp
        · simp [hh] at hs
      | cons f fs =>
        by_cases hh : s.holder = some i
        · simp only [hh, if_true] at hs
          injection hs with hs; subst hs
          unfold Inv at h ⊢
          simp only [hh] at h ⊢
          obtain ⟨th0, prev, op, done, rem, hget, hc, hoth, hlog, hop, hsh⟩ := h
          have : th0 = th := by rw [hth] at hget; injection hget with e; exact e.symm
          subst this
          rw [hcur] at hc; injection hc with hc; subst hc
          have hi : i < s.threads.length := by
            rcases List.getElem?_eq_some_iff.mp hth with ⟨hlt, _⟩; exact hlt
          refine ⟨{ th0 with cur := some fs }, prev, op, done ++ [f], fs, ?_, rfl, ?_, hlog, by simp [hop], ?_⟩
          · simp [hi]
          · intro j th' hj hget'
            rw [List.getElem?_set_ne (Ne.symm hj)] at hget'
            exact hoth j th' hj hget'
          · rw [runOp_append, ← hsh]; rfl
        · simp [hh] at hs

theorem run_inv (sem : ι → Body σ) (init : σ) (sched : List Nat) (s : Sys σ ι) (h : Inv sem init s) :
    Inv sem init (run sem s sched) := by
  induction sched generalizing s with
  | nil => exact h
  | cons i is ih =>
    unfold run
    cases hs : step sem s i with
    | none => exact ih s h
    | some s' => exact ih s' (step_inv sem init s s' i h hs)

theorem start_inv (sem : ι → Body σ) (init : σ) (progs : List (List ι)) : Inv sem init (start init progs) := by
  unfold Inv start
  simp only
  refine ⟨?_, rfl⟩
  intro th hmem
  rcases List.mem_map.mp hmem with ⟨p, _, rfl⟩
  rfl

/-- program order: what thread `i` has logged so far, followed by what it still has to start, is
    its program -/
def ProgOrder (progs : List (List ι)) (s : Sys σ ι) : Prop :=
  s.threads.length = progs.length ∧
  ∀ i th, s.threads[i]? = some th →
    some (((s.log.filter (fun e => e.1 == i)).map (·.2)) ++ th.todo) = progs[i]?

theorem step_progOrder (sem : ι → Body σ) (progs : List (List ι)) (s s' : Sys σ ι) (i : Nat)
    (h : ProgOrder progs s) (hs : step sem s i = some s') : ProgOrder progs s' := by
  unfold step at hs
  cases hth : s.threads[i]? with
  | none => simp [hth] at hs
  | some th =>
    have hi : i < s.threads.length := by
      rcases List.getElem?_eq_some_iff.mp hth with ⟨hlt, _⟩; exact hlt
    simp only [hth] at hs
    cases hcur : th.cur with
    | none =>
      simp only [hcur] at hs
      cases htodo : th.todo with
      | nil => simp [htodo] at hs
      | cons op rest =>
        cases hh : s.holder with
        | some k => simp [htodo, hh] at hs
        | none =>
          simp only [htodo, hh] at hs
          injection hs with hs; subst hs
          refine ⟨by simpa using h.1, ?_⟩
          intro j th' hget
          by_cases hji : j = i
          · subst hji
            simp [hi] at hget; subst hget
            have := h.2 j th hth
            rw [htodo] at this
            simp only [List.filter_append, List.map_append, List.filter_cons, List.filter_nil,
              beq_self_eq_true, if_true, List.map_cons, List.map_nil, List.append_assoc,
              List.cons_append, List.nil_append]
            simpa using this
          · simp only at hget
            rw [List.getElem?_set_ne (Ne.symm hji)] at hget
            have := h.2 j th' hget
            have hne : (i == j) = false := by simp [Ne.symm hji]
            simp only [List.filter_append, List.filter_cons, List.filter_nil, hne, Bool.false_eq_true,
              if_false, List.append_nil]
            exact this
    | some rem =>
      simp only [hcur] at hs
      have key : ∀ th2 : Thread σ ι, th2.todo = th.todo →
          ProgOrder progs { s with threads := s.threads.set i th2 } := by
        intro th2 htd
        refine ⟨by simpa using h.1, ?_⟩
        intro j th' hget
        by_cases hji : j = i
        · subst hji
          simp [hi] at hget; subst hget
          rw [htd]; exact h.2 j th hth
        · simp only at hget
          rw [List.getElem?_set_ne (Ne.symm hji)] at hget
          exact h.2 j th' hget
      cases rem with
      | nil =>
        by_cases hh : s.holder = some i
        · simp only [hh, if_true] at hs
          injection hs with hs; subst hs
          exact ⟨(key { th with cur := none } rfl).1, (key { th with cur := none } rfl).2⟩
        · simp [hh] at hs
      | cons f fs =>
        by_cases hh : s.holder = some i
        · simp only [hh, if_true] at hs
          injection hs with hs; subst hs
          exact ⟨(key { th with cur := some fs } rfl).1, (key { th with cur := some fs } rfl).2⟩
        · simp [hh] at hs

theorem run_progOrder (sem : ι → Body σ) (progs : List (List ι)) (sched : List Nat) (s : Sys σ ι)
    (h : ProgOrder progs s) : ProgOrder progs (run sem s sched) := by
  induction sched generalizing s with
  | nil => exact h
  | cons i is ih =>
    unfold run
    cases hs : step sem s i with
    | none => exact ih s h
    | some s' => exact ih s' (step_progOrder sem progs s s' i h hs)

theorem start_progOrder (init : σ) (progs : List (List ι)) : ProgOrder progs (start (σ := σ) init progs) := by
  refine ⟨by simp [start], ?_⟩
  intro i th hget
  simp only [start, List.getElem?_map] at hget
  cases hp : progs[i]? with
  | none => simp [hp] at hget
  | some p =>
    simp [hp] at hget; subst hget
    simp [start]
end ScionTime.Mutex
