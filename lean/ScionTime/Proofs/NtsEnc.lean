/-
  Helper lemmas for C10 / C11 / C14Nts: explicit form of a packet that fits its buffer, and the
  decoder run over that explicit form.
-/
import ScionTime.Model.Nts
namespace ScionTime.Nts

/-- an extension field whose value needs no padding -/
def field (t : Nat) (v : Bytes) : Bytes := be16 t ++ be16 (4 + v.length) ++ v

def fields (t : Nat) : List Bytes → Bytes
  | [] => []
  | v :: vs => field t v ++ fields t vs

/-- total size of the fields of a list of values -/
def fieldsLen : List Bytes → Nat
  | [] => 0
  | v :: vs => 4 + v.length + fieldsLen vs

def Aligned (vs : List Bytes) : Prop := ∀ v ∈ vs, v.length % 4 = 0

@[simp] theorem be16_length (v : Nat) : (be16 v).length = 2 := rfl
@[simp] theorem field_length (t : Nat) (v : Bytes) : (field t v).length = 4 + v.length := by
  simp [field]; omega
@[simp] theorem fields_length (t : Nat) (vs : List Bytes) : (fields t vs).length = fieldsLen vs := by
  induction vs with
  | nil => rfl
  | cons v vs ih => simp [fields, fieldsLen, ih]
@[simp] theorem zeros_length (n : Nat) : (zeros n).length = n := by simp [zeros]

theorem pad4_aligned (n : Nat) (h : n % 4 = 0) : pad4 n = n := by unfold pad4; omega
theorem pad4_mod (n : Nat) : pad4 n % 4 = 0 := by unfold pad4; omega
theorem pad4_ge (n : Nat) : n ≤ pad4 n ∧ pad4 n < n + 4 := by unfold pad4; omega

theorem fieldsLen_replicate (n : Nat) (v : Bytes) : fieldsLen (List.replicate n v) = n * (4 + v.length) := by
  induction n with
  | zero => simp [fieldsLen]
  | succ n ih => simp [List.replicate_succ, fieldsLen, ih, Nat.succ_mul]; omega

theorem packValue_fits (cap t : Nat) (out v : Bytes) (ha : v.length % 4 = 0)
    (hfit : out.length + 4 + v.length ≤ cap) (h16 : v.length + 4 < 65536) :
    packValue cap t out v = .ok (out ++ field t v) := by
  have hp : pad4 v.length = v.length := pad4_aligned _ ha
  have h1 : ¬ (cap - out.length < 4) := by omega
  have h2 : (4 + v.length % 65536) % 65536 = 4 + v.length := by omega
  have h3 : cap - (out ++ be16 t ++ be16 (4 + v.length)).length ≥ v.length := by
    simp; omega
  simp only [packValue, putHdr, hp, h1, if_false, h2, Res.pure_eq, copyTrunc, Nat.sub_self,
    zeros, List.replicate_zero, List.take_nil, List.append_nil, bind, Res.bind]
  rw [List.take_of_length_le h3]
  simp [field, List.append_assoc]

theorem packList_fits (cap t : Nat) (vs : List Bytes) (out : Bytes) (ha : Aligned vs)
    (hfit : out.length + fieldsLen vs ≤ cap) (h16 : cap < 65536) :
    packList cap t vs out = .ok (out ++ fields t vs) := by
  induction vs generalizing out with
  | nil => simp [packList, fields]
  | cons v vs ih =>
    have hv : v.length % 4 = 0 := ha v (by simp)
    have hvs : Aligned vs := fun w hw => ha w (by simp [hw])
    simp only [fieldsLen] at hfit
    rw [packList, packValue_fits cap t out v hv (by omega) (by omega)]
    simp only [Res.bind_ok]
    rw [ih (out ++ field t v) hvs (by simp; omega)]
    simp [fields, List.append_assoc]

/-- the authenticator field as written for a 16-byte nonce and an aligned ciphertext -/
def authField (nonce ct : Bytes) : Bytes :=
  be16 extAuthenticator ++ be16 (8 + 16 + ct.length) ++ be16 16 ++ be16 ct.length ++ nonce ++ ct

@[simp] theorem authField_length (nonce ct : Bytes) : (authField nonce ct).length = 8 + nonce.length + ct.length := by
  simp [authField]; omega

theorem packAuth_fits (A : AEAD) (hs : A.Sized) (cap : Nat) (out key pt nonce : Bytes)
    (hk : keyOk key = true) (hn : nonce.length = 16) (hpt : pt.length % 4 = 0)
    (hfit : out.length + 40 + pt.length ≤ cap) (h16 : cap < 65536) :
    packAuth A cap out key pt nonce = .ok (out ++ authField nonce (A.sealF key nonce pt (some out))) := by
  have hct := hs key nonce pt (some out)
  have hn' : ¬ (nonce.length ≠ 16) := by omega
  have e1 : nonce.length % 65536 = 16 := by omega
  have e2 : (65536 - 16) % 65536 % 4 = 0 := by decide
  simp only [packAuth, hk, Bool.not_true, Bool.false_eq_true, if_false, sealC, hn', e1, e2,
    bind, Res.bind]
  generalize A.sealF key nonce pt (some out) = ct at hct ⊢
  have e3 : ct.length % 65536 = ct.length := by omega
  have e4 : (65536 - ct.length) % 65536 % 4 = 0 := by omega
  have e5 : (8 + 16 + 0 + ct.length + 0) % 65536 = 8 + 16 + ct.length := by omega
  have h1 : ¬ (cap - out.length < 4) := by omega
  have h2 : ¬ (cap - (out ++ be16 extAuthenticator ++ be16 (8 + 16 + ct.length)).length < 4) := by
    simp; omega
  simp only [e3, e4, e5, putHdr, h1, h2, if_false, Res.pure_eq, copyTrunc, zeros, List.replicate_zero,
    List.take_nil, List.append_nil]
  have t1 : cap - (out ++ be16 extAuthenticator ++ be16 (8 + 16 + ct.length) ++ be16 16 ++ be16 ct.length).length ≥ nonce.length := by
    simp; omega
  rw [List.take_of_length_le t1]
  have t2 : cap - (out ++ be16 extAuthenticator ++ be16 (8 + 16 + ct.length) ++ be16 16 ++ be16 ct.length ++ nonce).length ≥ ct.length := by
    simp; omega
  rw [List.take_of_length_le t2]
  simp [authField, List.append_assoc]


/-- packets the project's encoder is given: identifier ≥ 32 bytes, all lengths multiples of 4
    (32-byte identifiers, 124-byte cookies, plaintext empty or whole cookie fields), usable key. -/
structure WellFormed (p : Packet) : Prop where
  uid32 : 32 ≤ p.uid.length
  uidA : p.uid.length % 4 = 0
  cA : Aligned p.cookies
  pA : Aligned p.placeholders
  ptA : p.pt.length % 4 = 0
  key : keyOk p.key = true

/-- size of the encoded packet -/
def packetLen (p : Packet) : Nat :=
  ntpPacketLen + (4 + p.uid.length) + fieldsLen p.cookies + fieldsLen p.placeholders + (40 + p.pt.length)

/-- everything in front of the authenticator: the associated data -/
def adOf (fixed : Bool) (hdr : Bytes) (p : Packet) : Bytes :=
  hdr ++ field extUniqueIdentifier p.uid ++ fields extCookie p.cookies ++ fields (phType fixed) p.placeholders

theorem adOf_length (fixed : Bool) (hdr : Bytes) (p : Packet) :
    (adOf fixed hdr p).length = hdr.length + (4 + p.uid.length) + fieldsLen p.cookies + fieldsLen p.placeholders := by
  simp [adOf]; omega

theorem encode_eq (fixed : Bool) (A : AEAD) (hs : A.Sized) (hdr : Bytes) (p : Packet) (nonce : Bytes)
    (hh : hdr.length = ntpPacketLen) (wf : WellFormed p) (fit : packetLen p ≤ maxPacketLen)
    (hn : nonce.length = 16) :
    encodePacketG fixed A hdr p nonce =
      .ok (adOf fixed hdr p ++ authField nonce (A.sealF p.key nonce p.pt (some (adOf fixed hdr p)))) := by
  unfold packetLen ntpPacketLen maxPacketLen at fit
  unfold ntpPacketLen at hh
  have h0 : ¬ (hdr.length ≠ ntpPacketLen) := by unfold ntpPacketLen; omega
  have hu : ¬ (p.uid.length < 32) := by have := wf.uid32; omega
  unfold encodePacketG
  simp only [h0, if_false, packUid, hu, maxPacketLen]
  rw [packValue_fits 1024 extUniqueIdentifier hdr p.uid wf.uidA (by omega) (by omega)]
  simp only [bind, Res.bind]
  rw [packList_fits 1024 extCookie p.cookies _ wf.cA (by simp; omega) (by omega)]
  simp only
  rw [packList_fits 1024 (phType fixed) p.placeholders _ wf.pA (by simp; omega) (by omega)]
  simp only
  rw [packAuth_fits A hs 1024 _ p.key p.pt nonce wf.key hn wf.ptA (by simp; omega) (by omega)]
  simp [errToPanic, adOf]

/-! ### the decoder on explicit fields -/

theorem u16_be16' (v : Nat) (h : v < 65536) : u16 (v / 256 % 256) (v % 256) = v := u16_be16 v h

theorem copyN_prefix (v tail : Bytes) : copyN v.length (v ++ tail) = v := by
  simp [copyN, zeros]

theorem valueLen_add (n : Nat) (h : n + 4 < 65536) : valueLen (4 + n) = n := by
  unfold valueLen; omega

theorem drop4 (a b c e : Nat) (l : Bytes) (n : Nat) : (a :: b :: c :: e :: l).drop (4 + n) = l.drop n := by
  have : 4 + n = n + 1 + 1 + 1 + 1 := by omega
  rw [this]; rfl

theorem decLoop_field (chk : Bool) (total fuel t : Nat) (v tail : Bytes) (fu : Bool) (d : Decoded)
    (ht : t < 65536) (hna : t ≠ extAuthenticator) (hv : v.length + 4 < 65536)
    (hlen : 28 ≤ 4 + v.length + tail.length) :
    decLoop chk total (fuel + 1) (field t v ++ tail) fu d =
      if t = extUniqueIdentifier then decLoop chk total fuel tail true { d with uid := v }
      else if t = extCookie then decLoop chk total fuel tail fu { d with cookies := d.cookies ++ [v] }
      else if t = extCookiePlaceholder then decLoop chk total fuel tail fu { d with nph := d.nph + 1 }
      else decLoop chk total fuel tail fu d := by
  have e : field t v ++ tail =
      (t / 256 % 256) :: (t % 256) :: ((4 + v.length) / 256 % 256) :: ((4 + v.length) % 256) :: (v ++ tail) := by
    simp [field, be16]
  rw [e]
  have hl' : ((t / 256 % 256) :: (t % 256) :: ((4 + v.length) / 256 % 256) :: ((4 + v.length) % 256) :: (v ++ tail)).length
      = 4 + v.length + tail.length := by simp; omega
  have h28 : ¬ (((t / 256 % 256) :: (t % 256) :: ((4 + v.length) / 256 % 256) :: ((4 + v.length) % 256) :: (v ++ tail)).length < 28) := by
    rw [hl']; omega
  have c1 : (chk && (decide (4 + v.length < 4) || decide (4 + v.length >
      ((t / 256 % 256) :: (t % 256) :: ((4 + v.length) / 256 % 256) :: ((4 + v.length) % 256) :: (v ++ tail)).length))) = false := by
    rw [hl']; simp
  have c2 : ¬ (4 + v.length = 0) := by omega
  have hd : ((t / 256 % 256) :: (t % 256) :: ((4 + v.length) / 256 % 256) :: ((4 + v.length) % 256) :: (v ++ tail)).drop (4 + v.length) = tail := by
    rw [drop4]; simp
  rw [decLoop]
  simp only [h28, if_false, u16_be16' t ht, u16_be16' (4 + v.length) (by omega), c1, Bool.false_eq_true, hna, c2,
    valueLen_add v.length hv, copyN_prefix, hd]


theorem fieldsLen_ge (vs : List Bytes) : 4 * vs.length ≤ fieldsLen vs := by
  induction vs with
  | nil => simp [fieldsLen]
  | cons v vs ih => simp [fieldsLen]; omega

theorem decLoop_cookies (chk : Bool) (total : Nat) (vs : List Bytes) (tail : Bytes) (fuel : Nat) (fu : Bool) (d : Decoded)
    (hf : vs.length ≤ fuel) (hv : fieldsLen vs < 65536) (htail : 28 ≤ tail.length) :
    decLoop chk total fuel (fields extCookie vs ++ tail) fu d =
      decLoop chk total (fuel - vs.length) tail fu { d with cookies := d.cookies ++ vs } := by
  induction vs generalizing fuel d with
  | nil => simp [fields]
  | cons v vs ih =>
    simp only [fieldsLen] at hv
    simp only [List.length_cons] at hf
    obtain ⟨f', rfl⟩ : ∃ f', fuel = f' + 1 := ⟨fuel - 1, by omega⟩
    simp only [fields, List.append_assoc]
    rw [decLoop_field chk total f' extCookie v (fields extCookie vs ++ tail) fu d (by decide) (by decide) (by omega)
      (by simp; omega)]
    simp only [extCookie, extUniqueIdentifier, if_true, show ¬ (0x204 = 0x104) by decide, if_false]
    have := ih f' { d with cookies := d.cookies ++ [v] } (by omega) (by omega)
    simp only [extCookie] at this
    rw [this]
    simp [List.append_assoc, Nat.add_sub_add_right]

theorem decLoop_placeholders (chk : Bool) (total : Nat) (vs : List Bytes) (tail : Bytes) (fuel : Nat) (fu : Bool) (d : Decoded)
    (hf : vs.length ≤ fuel) (hv : fieldsLen vs < 65536) (htail : 28 ≤ tail.length) :
    decLoop chk total fuel (fields extCookiePlaceholder vs ++ tail) fu d =
      decLoop chk total (fuel - vs.length) tail fu { d with nph := d.nph + vs.length } := by
  induction vs generalizing fuel d with
  | nil => simp [fields]
  | cons v vs ih =>
    simp only [fieldsLen] at hv
    simp only [List.length_cons] at hf
    obtain ⟨f', rfl⟩ : ∃ f', fuel = f' + 1 := ⟨fuel - 1, by omega⟩
    simp only [fields, List.append_assoc]
    rw [decLoop_field chk total f' extCookiePlaceholder v (fields extCookiePlaceholder vs ++ tail) fu d (by decide) (by decide) (by omega)
      (by simp; omega)]
    simp only [extCookiePlaceholder, extCookie, extUniqueIdentifier, if_true, show ¬ (0x304 = 0x104) by decide,
      show ¬ (0x304 = 0x204) by decide, if_false]
    have := ih f' { d with nph := d.nph + 1 } (by omega) (by omega)
    simp only [extCookiePlaceholder] at this
    rw [this]
    simp [Nat.add_sub_add_right, Nat.add_assoc, Nat.add_comm 1]

theorem decLoop_auth (chk : Bool) (total fuel : Nat) (nonce ct : Bytes) (fu : Bool) (d : Decoded)
    (hn : nonce.length = 16) (hct : 4 ≤ ct.length) (hct' : ct.length + 24 < 65536) :
    decLoop chk total (fuel + 1) (authField nonce ct) fu d =
      .ok (fu, true, { d with nonce := nonce, ct := ct, pos := total - (authField nonce ct).length }) := by
  have e : authField nonce ct =
      (extAuthenticator / 256 % 256) :: (extAuthenticator % 256) :: ((8 + 16 + ct.length) / 256 % 256) :: ((8 + 16 + ct.length) % 256)
        :: (16 / 256 % 256) :: (16 % 256) :: (ct.length / 256 % 256) :: (ct.length % 256) :: (nonce ++ ct) := by
    simp [authField, be16]
  have hl : (authField nonce ct).length = 24 + ct.length := by simp [hn]
  have h28 : ¬ ((authField nonce ct).length < 28) := by omega
  rw [e] at hl h28 ⊢
  rw [decLoop]
  simp only [h28, if_false]
  have c1 : (chk && (decide (8 + 16 + ct.length < 4) || decide (8 + 16 + ct.length >
      ((extAuthenticator / 256 % 256) :: (extAuthenticator % 256) :: ((8 + 16 + ct.length) / 256 % 256) :: ((8 + 16 + ct.length) % 256)
        :: (16 / 256 % 256) :: (16 % 256) :: (ct.length / 256 % 256) :: (ct.length % 256) :: (nonce ++ ct)).length))) = false := by
    rw [hl]; simp; intro _; omega
  have n1 : copyN 16 (nonce ++ ct) = nonce := by rw [← hn]; exact copyN_prefix nonce ct
  have n2 : copyN ct.length (List.drop (min 16 (nonce ++ ct).length) (nonce ++ ct)) = ct := by
    have : min 16 (nonce ++ ct).length = nonce.length := by simp [hn]
    rw [this]; simp [copyN, zeros]
  simp only [u16_be16' extAuthenticator (by decide), u16_be16' (8 + 16 + ct.length) (by omega), c1, Bool.false_eq_true, if_false,
    if_true, unpackAuth, u16_be16' 16 (by decide), u16_be16' ct.length (by omega), n1, n2]


/-- what `DecodePacket` yields on a packet of the explicit form -/
def decodedOf (hdr : Bytes) (p : Packet) (nonce ct : Bytes) : Decoded :=
  { uid := p.uid, cookies := p.cookies, nph := p.placeholders.length, nonce := nonce, ct := ct,
    pos := (adOf true hdr p).length }

theorem decode_explicit (hdr : Bytes) (p : Packet) (nonce ct : Bytes)
    (hh : hdr.length = ntpPacketLen) (hn : nonce.length = 16) (hct : 4 ≤ ct.length)
    (hfit : (adOf true hdr p).length + 24 + ct.length ≤ maxPacketLen) :
    decodePacketG true (adOf true hdr p ++ authField nonce ct) = .ok (decodedOf hdr p nonce ct) := by
  have hal := adOf_length true hdr p
  unfold maxPacketLen at hfit
  unfold ntpPacketLen at hh
  have hb : (adOf true hdr p ++ authField nonce ct).length = (adOf true hdr p).length + 24 + ct.length := by
    simp [hn]; omega
  have hdrop : (adOf true hdr p ++ authField nonce ct).drop ntpPacketLen =
      field extUniqueIdentifier p.uid ++ (fields extCookie p.cookies ++ (fields extCookiePlaceholder p.placeholders ++ authField nonce ct)) := by
    simp only [adOf, phType, if_true, List.append_assoc]
    exact List.drop_left' hh
  have g1 := fieldsLen_ge p.cookies
  have g2 := fieldsLen_ge p.placeholders
  unfold decodePacketG
  rw [hdrop, hb]
  rw [decLoop_field true _ _ extUniqueIdentifier p.uid _ false {} (by decide) (by decide) (by omega) (by simp [hn]; omega)]
  simp only [if_true]
  rw [decLoop_cookies true _ p.cookies _ _ true _ (by omega) (by omega) (by simp [hn]; omega)]
  rw [decLoop_placeholders true _ p.placeholders _ _ true _ (by omega) (by omega) (by simp [hn]; omega)]
  obtain ⟨f', hf'⟩ : ∃ f', (adOf true hdr p).length + 24 + ct.length - p.cookies.length - p.placeholders.length = f' + 1 :=
    ⟨(adOf true hdr p).length + 24 + ct.length - p.cookies.length - p.placeholders.length - 1, by omega⟩
  rw [hf', decLoop_auth true _ f' nonce ct true _ hn hct (by omega)]
  simp [decodedOf, hn]
  omega


/-- encode then decode, for well-formed packets that fit -/
theorem encode_decode (A : AEAD) (hs : A.Sized) (hdr : Bytes) (p : Packet) (nonce : Bytes)
    (hh : hdr.length = ntpPacketLen) (wf : WellFormed p) (fit : packetLen p ≤ maxPacketLen)
    (hn : nonce.length = 16) :
    ∃ b, encodePacket A hdr p nonce = .ok b ∧
      b = adOf true hdr p ++ authField nonce (A.sealF p.key nonce p.pt (some (adOf true hdr p))) ∧
      decodePacket b = .ok
        { uid := p.uid, cookies := p.cookies, nph := p.placeholders.length, nonce := nonce,
          ct := A.sealF p.key nonce p.pt (some (adOf true hdr p)), pos := (adOf true hdr p).length } := by
  refine ⟨_, encode_eq true A hs hdr p nonce hh wf fit hn, rfl, ?_⟩
  have hct := hs p.key nonce p.pt (some (adOf true hdr p))
  have hal := adOf_length true hdr p
  have h48 : hdr.length = 48 := hh
  have hfit : (adOf true hdr p).length + 24 + (A.sealF p.key nonce p.pt (some (adOf true hdr p))).length ≤ maxPacketLen := by
    unfold packetLen ntpPacketLen at fit; omega
  have := decode_explicit hdr p nonce _ hh hn (by omega) hfit
  simpa [decodePacket, decodedOf] using this

theorem ptLoop_field (chk : Bool) (fuel : Nat) (v tail : Bytes) (cs : List Bytes)
    (hv : v.length + 4 < 65536) (hlen : 28 ≤ 4 + v.length + tail.length) :
    ptLoop chk (fuel + 1) (field extCookie v ++ tail) cs = ptLoop chk fuel tail (cs ++ [v]) := by
  have e : field extCookie v ++ tail =
      (extCookie / 256 % 256) :: (extCookie % 256) :: ((4 + v.length) / 256 % 256) :: ((4 + v.length) % 256) :: (v ++ tail) := by
    simp [field, be16]
  rw [e]
  have hl' : ((extCookie / 256 % 256) :: (extCookie % 256) :: ((4 + v.length) / 256 % 256) :: ((4 + v.length) % 256) :: (v ++ tail)).length
      = 4 + v.length + tail.length := by simp; omega
  have h28 : ¬ (((extCookie / 256 % 256) :: (extCookie % 256) :: ((4 + v.length) / 256 % 256) :: ((4 + v.length) % 256) :: (v ++ tail)).length < 28) := by
    rw [hl']; omega
  have c1 : (chk && (decide (4 + v.length < 4) || decide (4 + v.length >
      ((extCookie / 256 % 256) :: (extCookie % 256) :: ((4 + v.length) / 256 % 256) :: ((4 + v.length) % 256) :: (v ++ tail)).length))) = false := by
    rw [hl']; simp
  have c2 : ¬ (4 + v.length = 0) := by omega
  have hd : ((extCookie / 256 % 256) :: (extCookie % 256) :: ((4 + v.length) / 256 % 256) :: ((4 + v.length) % 256) :: (v ++ tail)).drop (4 + v.length) = tail := by
    rw [drop4]; simp
  rw [ptLoop]
  simp only [h28, if_false, u16_be16' extCookie (by decide), u16_be16' (4 + v.length) (by omega), c1, Bool.false_eq_true, c2,
    valueLen_add v.length hv, copyN_prefix, hd, if_true]

/-- cookies long enough to be walked by `authenticate` (a field must span 28 bytes) -/
def Long (vs : List Bytes) : Prop := ∀ v ∈ vs, 24 ≤ v.length

theorem ptLoop_cookies (chk : Bool) (vs : List Bytes) (fuel : Nat) (cs : List Bytes)
    (hf : vs.length < fuel) (hv : fieldsLen vs < 65536) (hl : Long vs) :
    ptLoop chk fuel (fields extCookie vs) cs = .ok (cs ++ vs) := by
  induction vs generalizing fuel cs with
  | nil =>
    obtain ⟨f', rfl⟩ : ∃ f', fuel = f' + 1 := ⟨fuel - 1, by simp at hf; omega⟩
    simp [fields, ptLoop]
  | cons v vs ih =>
    simp only [fieldsLen] at hv
    simp only [List.length_cons] at hf
    have hv24 : 24 ≤ v.length := hl v (by simp)
    obtain ⟨f', rfl⟩ : ∃ f', fuel = f' + 1 := ⟨fuel - 1, by omega⟩
    have := ptLoop_field chk f' v (fields extCookie vs) cs (by omega) (by omega)
    simp only [fields]
    rw [this, ih f' (cs ++ [v]) (by omega) (by omega) (fun w hw => hl w (by simp [hw]))]
    simp [List.append_assoc]


/-! ### sizes for arbitrary (unaligned) value lengths: no truncation, no panic when it fits -/

def paddedLen (vs : List Bytes) : Nat := (vs.map fun c => 4 + pad4 c.length).sum

theorem packValue_len (cap t : Nat) (out v : Bytes)
    (hfit : out.length + 4 + pad4 v.length ≤ cap) (h16 : cap < 65536) :
    ∃ out', packValue cap t out v = .ok out' ∧ out'.length = out.length + 4 + pad4 v.length := by
  have hp := pad4_ge v.length
  have h1 : ¬ (cap - out.length < 4) := by omega
  simp only [packValue, putHdr, h1, if_false, Res.pure_eq, copyTrunc, bind, Res.bind]
  refine ⟨_, rfl, ?_⟩
  simp only [List.length_append, be16_length, List.length_take, zeros_length]
  omega

theorem packList_len (cap t : Nat) (vs : List Bytes) (out : Bytes)
    (hfit : out.length + paddedLen vs ≤ cap) (h16 : cap < 65536) :
    ∃ out', packList cap t vs out = .ok out' ∧ out'.length = out.length + paddedLen vs := by
  induction vs generalizing out with
  | nil => exact ⟨out, rfl, by simp [paddedLen]⟩
  | cons v vs ih =>
    simp only [paddedLen, List.map_cons, List.sum_cons] at hfit
    obtain ⟨o1, e1, l1⟩ := packValue_len cap t out v (by omega) h16
    obtain ⟨o2, e2, l2⟩ := ih o1 (by simp only [paddedLen]; omega)
    refine ⟨o2, ?_, ?_⟩
    · rw [packList, e1]; exact e2
    · simp only [paddedLen, List.map_cons, List.sum_cons] at l2 ⊢; omega

theorem packAuth_len (A : AEAD) (hs : A.Sized) (cap : Nat) (out key pt nonce : Bytes)
    (hk : keyOk key = true) (hn : nonce.length = 16)
    (hfit : out.length + 24 + pad4 (pt.length + 16) ≤ cap) (h16 : cap < 65536) :
    ∃ out', packAuth A cap out key pt nonce = .ok out' ∧ out'.length = out.length + 24 + pad4 (pt.length + 16) := by
  have hct := hs key nonce pt (some out)
  have hn' : ¬ (nonce.length ≠ 16) := by omega
  have e1 : nonce.length % 65536 = 16 := by omega
  have e2 : (65536 - 16) % 65536 % 4 = 0 := by decide
  simp only [packAuth, hk, Bool.not_true, Bool.false_eq_true, if_false, sealC, hn', e1, e2, bind, Res.bind]
  generalize A.sealF key nonce pt (some out) = ct at hct ⊢
  have hp := pad4_ge (pt.length + 16)
  have hpm := pad4_mod (pt.length + 16)
  have e3 : ct.length % 65536 = ct.length := by omega
  have h1 : ¬ (cap - out.length < 4) := by omega
  simp only [e3, putHdr, h1, if_false]
  have h2 : ¬ (cap - (out ++ be16 extAuthenticator ++
      be16 ((8 + 16 + 0 + ct.length + (65536 - ct.length) % 65536 % 4) % 65536)).length < 4) := by
    simp; omega
  simp only [h2, if_false, Res.pure_eq, copyTrunc]
  refine ⟨_, rfl, ?_⟩
  simp only [List.length_append, be16_length, List.length_take, zeros_length, hn]
  unfold pad4 at *
  omega

/-- `EncodePacket` succeeds without truncation whenever the padded sizes fit, for any value lengths. -/
theorem encode_len (fixed : Bool) (A : AEAD) (hs : A.Sized) (hdr : Bytes) (p : Packet) (nonce : Bytes)
    (hh : hdr.length = ntpPacketLen) (hu : 32 ≤ p.uid.length) (hk : keyOk p.key = true) (hn : nonce.length = 16)
    (fit : ntpPacketLen + (4 + pad4 p.uid.length) + paddedLen p.cookies + paddedLen p.placeholders +
      (24 + pad4 (p.pt.length + 16)) ≤ maxPacketLen) :
    ∃ b, encodePacketG fixed A hdr p nonce = .ok b ∧
      b.length = ntpPacketLen + (4 + pad4 p.uid.length) + paddedLen p.cookies + paddedLen p.placeholders +
        (24 + pad4 (p.pt.length + 16)) := by
  unfold ntpPacketLen maxPacketLen at fit
  have h48 : hdr.length = 48 := hh
  have h0 : ¬ (hdr.length ≠ ntpPacketLen) := by unfold ntpPacketLen; omega
  have hu' : ¬ (p.uid.length < 32) := by omega
  obtain ⟨o1, e1, l1⟩ := packValue_len 1024 extUniqueIdentifier hdr p.uid (by omega) (by omega)
  obtain ⟨o2, e2, l2⟩ := packList_len 1024 extCookie p.cookies o1 (by omega) (by omega)
  obtain ⟨o3, e3, l3⟩ := packList_len 1024 (phType fixed) p.placeholders o2 (by omega) (by omega)
  obtain ⟨o4, e4, l4⟩ := packAuth_len A hs 1024 o3 p.key p.pt nonce hk hn (by omega) (by omega)
  refine ⟨o4, ?_, by unfold ntpPacketLen; omega⟩
  unfold encodePacketG
  simp only [h0, if_false, packUid, hu', maxPacketLen, e1, bind, Res.bind, e2, e3, e4, errToPanic]

end ScionTime.Nts
