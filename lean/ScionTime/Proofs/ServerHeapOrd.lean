/-
  Heap order (`tssQ` is a min-heap on `qval`) is preserved by the transcribed
  container/heap routines of Model/Server.lean.
-/
import ScionTime.Proofs.ServerInv
namespace ScionTime.Server
open ScionTime.Time64

def OkAt (st : State) (c : Nat) : Prop := le64 (kv st ((c - 1) / 2)) (kv st c)

/-- heap order on the first n slots -/
def HeapOrd (st : State) (n : Nat) : Prop := ∀ c, 0 < c → c < n → OkAt st c

def UpInv (st : State) (j n : Nat) : Prop :=
  (∀ c, 0 < c → c < n → c ≠ j → OkAt st c) ∧
  (∀ c, 0 < c → c < n → (c - 1) / 2 = j → 0 < j → le64 (kv st ((j - 1) / 2)) (kv st c))

/-- all pairs fine except (children of i) and, if top, the pair (parent i, i); and
    parent(i) ≤ children(i) -/
def DInv (st : State) (i n : Nat) (top : Bool) : Prop :=
  (∀ c, 0 < c → c < n → (c - 1) / 2 ≠ i → (c ≠ i ∨ top = false) → OkAt st c) ∧
  (∀ c, 0 < c → c < n → (c - 1) / 2 = i → 0 < i → le64 (kv st ((i - 1) / 2)) (kv st c))

/-! ### `kv` after a swap -/

theorem kv_swap_l (st : State) (i j : Nat) (hi : i < st.heap.size) (hj : j < st.heap.size)
    (hne : i ≠ j) : kv (swap st i j) i = kv st j := by
  rw [kv_swap st i j i hi hj]; simp [hne]

theorem kv_swap_r (st : State) (i j : Nat) (hi : i < st.heap.size) (hj : j < st.heap.size) :
    kv (swap st i j) j = kv st i := by
  rw [kv_swap st i j j hi hj]; simp

theorem kv_swap_o (st : State) (i j x : Nat) (hi : i < st.heap.size) (hj : j < st.heap.size)
    (h1 : x ≠ i) (h2 : x ≠ j) : kv (swap st i j) x = kv st x := by
  rw [kv_swap st i j x hi hj]; simp [h1, h2]

/-! ### up -/

theorem up_heap (n f : Nat) : ∀ (st : State) (j : Nat), j < f → j < n → n ≤ st.heap.size →
    UpInv st j n → HeapOrd (up st j f) n := by
  induction f with
  | zero => intro st j h; omega
  | succ f ih =>
    intro st j hjf hjn hn h
    unfold up
    simp only
    split
    · rename_i hstop
      intro c hc0 hcn
      by_cases hcj : c = j
      · subst hcj
        simp only [Bool.or_eq_true, decide_eq_true_eq, Bool.not_eq_true'] at hstop
        rcases hstop with e | e
        · omega
        · exact e
      · exact h.1 c hc0 hcn hcj
    · rename_i hgo
      simp only [Bool.or_eq_true, decide_eq_true_eq, Bool.not_eq_true', not_or,
        Bool.not_eq_false] at hgo
      obtain ⟨hpj, hless⟩ := hgo
      have hlt : le64 (kv st j) (kv st ((j - 1) / 2)) := le64_of_before hless
      obtain ⟨p, hp⟩ : ∃ p, p = (j - 1) / 2 := ⟨_, rfl⟩
      rw [← hp] at hpj hlt ⊢
      have hj0 : 0 < j := by omega
      have hps : p < st.heap.size := by omega
      have hjs : j < st.heap.size := by omega
      have hpne : p ≠ j := by omega
      apply ih (swap st p j) p (by omega) (by omega) (by rw [size_swap]; exact hn)
      constructor
      · intro c hc0 hcn hcp
        show le64 (kv (swap st p j) ((c - 1) / 2)) (kv (swap st p j) c)
        by_cases c1 : c = j
        · subst c1
          rw [← hp, kv_swap_l st p c hps hjs hpne, kv_swap_r st p c hps hjs]
          exact hlt
        · have ok : le64 (kv st ((c - 1) / 2)) (kv st c) := h.1 c hc0 hcn c1
          rw [kv_swap_o st p j c hps hjs hcp c1]
          by_cases q1 : (c - 1) / 2 = p
          · rw [q1, kv_swap_l st p j hps hjs hpne]
            rw [q1] at ok
            exact le64_trans hlt ok
          · by_cases q2 : (c - 1) / 2 = j
            · rw [q2, kv_swap_r st p j hps hjs]
              have := h.2 c hc0 hcn q2 hj0
              rw [← hp] at this
              exact this
            · rw [kv_swap_o st p j _ hps hjs q1 q2]
              exact ok
      · intro c hc0 hcn hpar hp0
        have okp : le64 (kv st ((p - 1) / 2)) (kv st p) := h.1 p hp0 (by omega) hpne
        have g1 : (p - 1) / 2 ≠ p := by omega
        have g2 : (p - 1) / 2 ≠ j := by omega
        rw [kv_swap_o st p j _ hps hjs g1 g2]
        by_cases c1 : c = j
        · rw [c1, kv_swap_r st p j hps hjs]
          exact okp
        · have cp : c ≠ p := by omega
          rw [kv_swap_o st p j c hps hjs cp c1]
          have ok : le64 (kv st ((c - 1) / 2)) (kv st c) := h.1 c hc0 hcn c1
          rw [hpar] at ok
          exact le64_trans okp ok

/-! ### down -/

theorem child_min (st : State) (i n : Nat) (h : 2 * i + 1 < n) : ∀ c, c < n → 0 < c →
    (c - 1) / 2 = i → le64 (kv st (child st i n)) (kv st c) := by
  intro c hcn hc0 hpar
  have hc : c = 2 * i + 1 ∨ c = 2 * i + 1 + 1 := by have := h; omega
  unfold child
  split
  · rename_i hcond
    simp only [Bool.and_eq_true, decide_eq_true_eq] at hcond
    rcases hc with e | e
    · subst e; exact le64_of_before hcond.2
    · subst e; exact le64_refl _
  · rename_i hcond
    simp only [Bool.and_eq_true, decide_eq_true_eq, not_and, Bool.not_eq_true] at hcond
    rcases hc with e | e
    · subst e; exact le64_refl _
    · subst e; exact hcond (by omega)

theorem down_heap (n f : Nat) : ∀ (st : State) (i : Nat) (top : Bool), n ≤ i + f →
    n ≤ st.heap.size → DInv st i n top →
    ((down st i n f).2 = i →
      (down st i n f).1 = st ∧ ∀ c, 0 < c → c < n → (c - 1) / 2 = i → OkAt st c) ∧
    ((down st i n f).2 ≠ i → HeapOrd (down st i n f).1 n) := by
  induction f with
  | zero =>
    intro st i top hf hn h
    refine ⟨fun _ => ⟨rfl, ?_⟩, fun hne => absurd rfl hne⟩
    intro c hc0 hcn hpar; omega
  | succ f ih =>
    intro st i top hf hn h
    generalize hr : down st i n (f + 1) = r
    unfold down at hr
    split at hr
    · subst hr
      refine ⟨fun _ => ⟨rfl, ?_⟩, fun hne => absurd rfl hne⟩
      intro c hc0 hcn hpar; omega
    · rename_i hlt
      have hlt : 2 * i + 1 < n := by omega
      have hmin := child_min st i n hlt
      obtain ⟨hjn, hjc⟩ := child_cases st i n hlt
      split at hr
      · rename_i hstop
        subst hr
        refine ⟨fun _ => ⟨rfl, ?_⟩, fun hne => absurd rfl hne⟩
        intro c hc0 hcn hpar
        simp only [Bool.not_eq_true'] at hstop
        have hs : le64 (kv st i) (kv st (child st i n)) := hstop
        show le64 (kv st ((c - 1) / 2)) (kv st c)
        rw [hpar]
        exact le64_trans hs (hmin c hcn hc0 hpar)
      · rename_i hgo
        simp only [Bool.not_eq_true', Bool.not_eq_false] at hgo
        have hlt2 : le64 (kv st (child st i n)) (kv st i) := le64_of_before hgo
        generalize child st i n = j at hr hmin hjn hjc hlt2
        have hij : i ≠ j := by omega
        have hpj : (j - 1) / 2 = i := by omega
        have his : i < st.heap.size := by omega
        have hjs : j < st.heap.size := by omega
        have hD : DInv (swap st i j) j n false := by
          constructor
          · intro c hc0 hcn hq _
            show le64 (kv (swap st i j) ((c - 1) / 2)) (kv (swap st i j) c)
            by_cases c1 : c = j
            · rw [c1, hpj, kv_swap_l st i j his hjs hij, kv_swap_r st i j his hjs]
              exact hlt2
            · by_cases c2 : c = i
              · have hi0 : 0 < i := by omega
                have g1 : (i - 1) / 2 ≠ i := by omega
                have g2 : (i - 1) / 2 ≠ j := by omega
                rw [c2, kv_swap_l st i j his hjs hij, kv_swap_o st i j _ his hjs g1 g2]
                exact h.2 j (by omega) hjn hpj hi0
              · rw [kv_swap_o st i j c his hjs c2 c1]
                by_cases q1 : (c - 1) / 2 = i
                · rw [q1, kv_swap_l st i j his hjs hij]
                  exact hmin c hcn hc0 q1
                · rw [kv_swap_o st i j _ his hjs q1 hq]
                  exact h.1 c hc0 hcn q1 (Or.inl c2)
          · intro c hc0 hcn hpar hj0
            have c1 : c ≠ i := by omega
            have c2 : c ≠ j := by omega
            rw [hpj, kv_swap_l st i j his hjs hij, kv_swap_o st i j c his hjs c1 c2]
            have ok : le64 (kv st ((c - 1) / 2)) (kv st c) :=
              h.1 c hc0 hcn (by omega) (Or.inl c1)
            rw [hpar] at ok
            exact ok
        have IH := ih (swap st i j) j false (by omega) (by rw [size_swap]; exact hn) hD
        have hge := down_ge f (swap st i j) j n
        rw [hr] at IH hge
        refine ⟨fun e => by omega, fun _ => ?_⟩
        by_cases e : r.2 = j
        · obtain ⟨e1, hch⟩ := IH.1 e
          rw [e1]
          intro c hc0 hcn
          by_cases q : (c - 1) / 2 = j
          · exact hch c hc0 hcn q
          · exact hD.1 c hc0 hcn q (Or.inr rfl)
        · exact IH.2 e

/-- `if !down(h, i, n) { up(h, i) }` (the body of `heap.Fix` and of `heap.Remove`) -/
theorem fixn_heap (st : State) (i n : Nat) (hi : i < n) (hn : n ≤ st.heap.size)
    (h : DInv st i n true) :
    HeapOrd (if (down st i n n).2 > i then (down st i n n).1
      else up (down st i n n).1 i (i + 1)) n := by
  have D := down_heap n n st i true (by omega) hn h
  have hge := down_ge n st i n
  generalize down st i n n = r at D hge
  split
  · exact D.2 (by omega)
  · have e : r.2 = i := by omega
    obtain ⟨e1, hch⟩ := D.1 e
    rw [e1]
    apply up_heap _ _ st i (by omega) hi hn
    constructor
    · intro c hc0 hcn hci
      by_cases q : (c - 1) / 2 = i
      · exact hch c hc0 hcn q
      · exact h.1 c hc0 hcn q (Or.inl hci)
    · exact h.2

theorem fix_heap (st : State) (i : Nat) (hi : i < st.heap.size)
    (h : DInv st i st.heap.size true) : HeapOrd (fix st i) st.heap.size := by
  unfold fix
  simp only
  exact fixn_heap st i st.heap.size hi (Nat.le_refl _) h

/-- `down(h, 0, n)` on a heap whose root was replaced -/
theorem down_heap0 (st : State) (n : Nat) (hn : n ≤ st.heap.size) (h : DInv st 0 n true) :
    HeapOrd (down st 0 n n).1 n := by
  have D := down_heap n n st 0 true (by omega) hn h
  generalize down st 0 n n = r at D
  by_cases e : r.2 = 0
  · obtain ⟨e1, hch⟩ := D.1 e
    rw [e1]
    intro c hc0 hcn
    by_cases q : (c - 1) / 2 = 0
    · exact hch c hc0 hcn q
    · exact h.1 c hc0 hcn q (Or.inl (by omega))
  · exact D.2 e

/-! ### the composite operations -/

theorem heapOrd_congr {st st' : State} {n : Nat} (hk : ∀ x, x < n → kv st' x = kv st x)
    (ho : HeapOrd st n) : HeapOrd st' n := by
  intro c hc0 hcn
  show le64 (kv st' ((c - 1) / 2)) (kv st' c)
  rw [hk c hcn, hk _ (by omega)]
  exact ho c hc0 hcn

theorem heapOrd_mono {st : State} {n m : Nat} (hm : m ≤ n) (ho : HeapOrd st n) : HeapOrd st m :=
  fun c hc0 hcm => ho c hc0 (by omega)

theorem fixQval_heap (st : State) (h : WF st) (ho : HeapOrd st st.heap.size) (id : Nat) (it : Item)
    (hit : st.items.find id = some it) (v : T64) :
    HeapOrd (fixQval st id v it.qidx) (fixQval st id v it.qidx).heap.size := by
  rw [(fixQval_spec st h id it hit v).2.1]
  have hq : it.qidx < st.heap.size := (h.bwd id it.qidx (by unfold pos; rw [hit]; rfl)).1
  have hk : ∀ x, x < st.heap.size → x ≠ it.qidx →
      kv { st with items := setQval st.items id v } x = kv st x :=
    fun x hx hne => kv_modify_ne st h id _ it hit x hx hne
  unfold fixQval
  apply fix_heap { st with items := setQval st.items id v } it.qidx hq
  constructor
  · intro c hc0 hcn hq1 hc1
    have hcn' : c < st.heap.size := hcn
    have hc2 : c ≠ it.qidx := by
      rcases hc1 with e | e
      · exact e
      · cases e
    show le64 (kv { st with items := setQval st.items id v } ((c - 1) / 2))
      (kv { st with items := setQval st.items id v } c)
    rw [hk c hcn' hc2, hk _ (by omega) hq1]
    exact ho c hc0 hcn'
  · intro c hc0 hcn hpar hq0
    have hcn' : c < st.heap.size := hcn
    rw [hk c hcn' (by omega), hk _ (by omega) (by omega)]
    have a : le64 (kv st ((it.qidx - 1) / 2)) (kv st it.qidx) := ho it.qidx hq0 hq
    have b : le64 (kv st ((c - 1) / 2)) (kv st c) := ho c hc0 hcn'
    rw [hpar] at b
    exact le64_trans a b

theorem push_heap (st : State) (h : WF st) (ho : HeapOrd st st.heap.size) (id : Nat) (it : Item)
    (hnone : st.items.find id = none) :
    HeapOrd (push { st with items := (id, it) :: st.items } id) (st.heap.size + 1) := by
  unfold push
  simp only
  have hkold : ∀ i, i < st.heap.size → hkey st i ≠ id := by
    intro i hi e
    have := h.fwd i hi
    rw [e] at this; unfold pos at this; rw [hnone] at this; cases this
  have hk : ∀ x, x < st.heap.size →
      kv { items := setQidx ((id, it) :: st.items) id st.heap.size, heap := st.heap.push id } x
        = kv st x := by
    intro x hx
    have hkx : hkey
        { items := setQidx ((id, it) :: st.items) id st.heap.size, heap := st.heap.push id } x
          = hkey st x := by
      unfold hkey
      simp only [Array.getD_eq_getD_getElem?, Array.getElem?_push]
      have : ¬ x = st.heap.size := by omega
      simp [this]
    unfold kv
    rw [hkx]
    show qv (setQidx ((id, it) :: st.items) id st.heap.size) (hkey st x) = qv st.items (hkey st x)
    rw [← qv_same (same_setQidx ((id, it) :: st.items) id st.heap.size)]
    unfold qv
    rw [Map.find_cons, if_neg (Ne.symm (hkold x hx))]
  apply up_heap (st.heap.size + 1) (st.heap.size + 1) _ st.heap.size (by omega) (by omega)
    (by simp)
  constructor
  · intro c hc0 hcn hne
    exact heapOrd_congr hk ho c hc0 (by omega)
  · intro c hc0 hcn hpar hpos
    omega

/-- removing the last heap slot together with its map entry -/
theorem heapOrd_dropLast (st : State) (h : WF st) (k : Nat)
    (hk : hkey st (st.heap.size - 1) = k) (n : Nat) (hn : n ≤ st.heap.size - 1)
    (ho : HeapOrd st n) : HeapOrd { items := st.items.erase k, heap := st.heap.pop } n := by
  refine heapOrd_congr ?_ ho
  intro x hx
  have hx' : x < st.heap.size - 1 := by omega
  have hkx : hkey { items := st.items.erase k, heap := st.heap.pop } x = hkey st x := by
    unfold hkey
    simp only [Array.getD_eq_getD_getElem?, Array.getElem?_pop, hx', if_true]
  have hne : ¬ k = hkey st x := by
    intro e
    rw [← hk] at e
    have := h.inj (by omega) (by omega) e
    omega
  unfold kv
  rw [hkx]
  show qv (st.items.erase k) (hkey st x) = qv st.items (hkey st x)
  unfold qv
  rw [Map.find_erase _ h.nodup, if_neg hne]

theorem popMin_heap (st : State) (h : WF st) (hpos : 0 < st.heap.size)
    (ho : HeapOrd st st.heap.size) : HeapOrd (popMin st).1 (st.heap.size - 1) := by
  unfold popMin
  simp only
  have hnl : st.heap.size - 1 < st.heap.size := by omega
  have k1 := keeps_swap st h 0 (st.heap.size - 1) hpos hnl
  have k2 := k1.trans (keeps_down (st.heap.size - 1) _ 0 (st.heap.size - 1) k1.wf
    (by rw [k1.size]; omega))
  have hD : DInv (swap st 0 (st.heap.size - 1)) 0 (st.heap.size - 1) true := by
    constructor
    · intro c hc0 hcn hq _
      show le64 (kv (swap st 0 (st.heap.size - 1)) ((c - 1) / 2))
        (kv (swap st 0 (st.heap.size - 1)) c)
      rw [kv_swap_o st 0 _ c hpos hnl (by omega) (by omega),
        kv_swap_o st 0 _ _ hpos hnl hq (by omega)]
      exact ho c hc0 (by omega)
    · intro c _ _ _ h0; omega
  have H := down_heap0 _ _ (by rw [size_swap]; omega) hD
  generalize (down (swap st 0 (st.heap.size - 1)) 0 (st.heap.size - 1) (st.heap.size - 1)).1
    = st1 at k2 H
  have hs : st1.heap.size = st.heap.size := k2.size
  rw [← hs] at H ⊢
  exact heapOrd_dropLast st1 k2.wf _ rfl _ (Nat.le_refl _) H

theorem remove_heap (st : State) (h : WF st) (ho : HeapOrd st st.heap.size) (id : Nat) (it : Item)
    (hit : st.items.find id = some it) :
    HeapOrd (remove st it.qidx id) (st.heap.size - 1) := by
  obtain ⟨hq, hkq⟩ := h.bwd id it.qidx (by unfold pos; rw [hit]; rfl)
  have hpos : 0 < st.heap.size := by omega
  have hn : st.heap.size - 1 < st.heap.size := by omega
  -- the state before the final Pop
  have key : ∃ st1, (remove st it.qidx id) = { items := st1.items.erase id, heap := st1.heap.pop } ∧
      Keeps st st1 ∧ hkey st1 (st.heap.size - 1) = id ∧ HeapOrd st1 (st.heap.size - 1) := by
    unfold remove
    simp only
    split
    · rename_i hne
      have hlt : it.qidx < st.heap.size - 1 := by omega
      have k1 := keeps_swap st h it.qidx (st.heap.size - 1) hq hn
      have hk1 : hkey (swap st it.qidx (st.heap.size - 1)) (st.heap.size - 1) = id := by
        rw [hkey_swap st _ _ _ hq hn]; simp [hkq]
      have k2 := keeps_down (st.heap.size - 1) _ it.qidx (st.heap.size - 1) k1.wf
        (by rw [k1.size]; omega)
      have hk2 : hkey (down (swap st it.qidx (st.heap.size - 1)) it.qidx (st.heap.size - 1)
          (st.heap.size - 1)).1 (st.heap.size - 1) = id := by
        rw [hkey_down_ge _ _ _ _ _ (by rw [size_swap]; omega) (Nat.le_refl _)]; exact hk1
      have hD : DInv (swap st it.qidx (st.heap.size - 1)) it.qidx (st.heap.size - 1) true := by
        constructor
        · intro c hc0 hcn hq1 hc1
          have hc2 : c ≠ it.qidx := by
            rcases hc1 with e | e
            · exact e
            · cases e
          show le64 (kv (swap st it.qidx (st.heap.size - 1)) ((c - 1) / 2))
            (kv (swap st it.qidx (st.heap.size - 1)) c)
          rw [kv_swap_o st _ _ c hq hn hc2 (by omega),
            kv_swap_o st _ _ _ hq hn hq1 (by omega)]
          exact ho c hc0 (by omega)
        · intro c hc0 hcn hpar hq0
          rw [kv_swap_o st _ _ c hq hn (by omega) (by omega),
            kv_swap_o st _ _ _ hq hn (by omega) (by omega)]
          have a : le64 (kv st ((it.qidx - 1) / 2)) (kv st it.qidx) := ho it.qidx hq0 hq
          have b : le64 (kv st ((c - 1) / 2)) (kv st c) := ho c hc0 (by omega)
          rw [hpar] at b
          exact le64_trans a b
      have H := fixn_heap _ it.qidx (st.heap.size - 1) hlt (by rw [size_swap]; omega) hD
      split
      · rename_i hgt
        rw [if_pos hgt] at H
        exact ⟨_, rfl, k1.trans k2, hk2, H⟩
      · rename_i hgt
        rw [if_neg hgt] at H
        have k3 := keeps_up (it.qidx + 1) _ it.qidx k2.wf (by rw [k2.size, k1.size]; exact hq)
        refine ⟨_, rfl, (k1.trans k2).trans k3, ?_, H⟩
        rw [hkey_up_gt _ _ _ _ (by rw [k2.size, k1.size]; exact hq) hlt]; exact hk2
    · rename_i heq
      have heq' : st.heap.size - 1 = it.qidx := by omega
      exact ⟨st, rfl, Keeps.refl h, by rw [heq']; exact hkq, heapOrd_mono (by omega) ho⟩
  obtain ⟨st1, e, k, hk, H⟩ := key
  rw [e]
  have hs : st1.heap.size = st.heap.size := k.size
  rw [← hs] at hk H ⊢
  exact heapOrd_dropLast st1 k.wf id hk _ (Nat.le_refl _) H

end ScionTime.Server
