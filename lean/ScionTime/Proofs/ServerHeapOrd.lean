/-
  Heap order (`tssQ` is a min-heap on `qval`) is preserved by the transcribed
  container/heap routines of Model/Server.lean.
-/
import ScionTime.Proofs.ServerInv
namespace ScionTime.Server
open ScionTime.Time64

def OkAt (st : State) (c : Nat) : Prop := le64 (kv st ((c - 1) / 2)) (kv st c)

/-- heap order on the first n slots -/
def HeapOrd (st : State) (n : Nat) : Prop := ∀ c, 0 < c → c < n → OkAt st c

def UpInv (st : State) (j n : Nat) : Prop :=
  (∀ c, 0 < c → c < n → c ≠ j → OkAt st c) ∧
  (∀ c, 0 < c → c < n → (c - 1) / 2 = j → 0 < j → le64 (kv st ((j - 1) / 2)) (kv st c))

/-- all pairs fine except (children of i) and, if top, the pair (parent i, i); and
    parent(i) ≤ children(i) -/
def DInv (st : State) (i n : Nat) (top : Bool) : Prop :=
  (∀ c, 0 < c → c < n → (c - 1) / 2 ≠ i → (c ≠ i ∨ top = false) → OkAt st c) ∧
  (∀ c, 0 < c → c < n → (c - 1) / 2 = i → 0 < i → le64 (kv st ((i - 1) / 2)) (kv st c))

/-! ### `kv` after a swap -/

theorem kv_swap_l (st : State) (i j : Nat) (hi : i < st.heap.size) (hj : j < st.heap.size)
    (hne : i ≠ j) : kv (swap st i j) i = kv st j := by
  rw [kv_swap st i j i hi hj]; simp [hne]

theorem kv_swap_r (st : State) (i j : Nat) (hi : i < st.heap.size) (hj : j < st.heap.size) :
    kv (swap st i j) j = kv st i := by
  rw [kv_swap st i j j hi hj]; simp

theorem kv_swap_o (st : State) (i j x : Nat) (hi : i < st.heap.size) (hj : j < st.heap.size)
    (h1 : x ≠ i) (h2 : x ≠ j) : kv (swap st i j) x = kv st x := by
  rw [kv_swap st i j x hi hj]; simp [h1, h2]

/-! ### up -/

theorem up_heap (n f : Nat) : ∀ (st : State) (j : Nat), j < f → j < n → n ≤ st.heap.size →
    UpInv st j n → HeapOrd (up st j f) n := by
  induction f with
  | zero => intro st j h; omega
  | succ f ih =>
    intro st j hjf hjn hn h
    unfold up
    simp only
    split
    · rename_i hstop
      intro c hc0 hcn
      by_cases hcj : c = j
      · subst hcj
        simp only [Bool.or_eq_true, decide_eq_true_eq, Bool.not_eq_true'] at hstop
        rcases hstop with e | e
        · omega
        · exact e
      · exact h.1 c hc0 hcn hcj
    · rename_i hgo
      simp only [Bool.or_eq_true, decide_eq_true_eq, Bool.not_eq_true', not_or,
        Bool.not_eq_false] at hgo
      obtain ⟨hpj, hless⟩ := hgo
      have hlt : le64 (kv st j) (kv st ((j - 1) / 2)) := le64_of_before hless
      obtain ⟨p, hp⟩ : ∃ p, p = (j - 1) / 2 := ⟨_, rfl⟩
      rw [← hp] at hpj hlt ⊢
      have hj0 : 0 < j := by omega
      have hps : p < st.heap.size := by omega
      have hjs : j < st.heap.size := by omega
      have hpne : p ≠ j := by omega
      apply ih (swap st p j) p (by omega) (by omega) (by rw [size_swap]; exact hn)
      constructor
      · intro c hc0 hcn hcp
        show le64 (kv (swap st p j) ((c - 1) / 2)) (kv (swap st p j) c)
        by_cases c1 : c = j
        · subst c1
          rw [← hp, kv_swap_l st p c hps hjs hpne, kv_swap_r st p c hps hjs]
          exact hlt
        · have ok : le64 (kv st ((c - 1) / 2)) (kv st c) := h.1 c hc0 hcn c1
          rw [kv_swap_o st p j c hps hjs hcp c1]
          by_cases q1 : (c - 1) / 2 = p
          · rw [q1, kv_swap_l st p j hps hjs hpne]
            rw [q1] at ok
            exact le64_trans hlt ok
          · by_cases q2 : (c - 1) / 2 = j
            · rw [q2, kv_swap_r st p j hps hjs]
              have := h.2 c hc0 hcn q2 hj0
              rw [← hp] at this
              exact this
            · rw [kv_swap_o st p j _ hps hjs q1 q2]
              exact ok
      · intro c hc0 hcn hpar hp0
        have okp : le64 (kv st ((p - 1) / 2)) (kv st p) := h.1 p hp0 (by omega) hpne
        have g1 : (p - 1) / 2 ≠ p := by omega
        have g2 : (p - 1) / 2 ≠ j := by omega
        rw [kv_swap_o st p j _ hps hjs g1 g2]
        by_cases c1 : c = j
        · rw [c1, kv_swap_r st p j hps hjs]
          exact okp
        · have cp : c ≠ p := by omega
          rw [kv_swap_o st p j c hps hjs cp c1]
          have ok : le64 (kv st ((c - 1) / 2)) (kv st c) := h.1 c hc0 hcn c1
          rw [hpar] at ok
          exact le64_trans okp ok

/-! ### down -/

theorem child_min (st : State) (i n : Nat) (h : 2 * i + 1 < n) : ∀ c, c < n → 0 < c →
    (c - 1) / 2 = i → le64 (kv st (child st i n)) (kv st c) := by
  intro c hcn hc0 hpar
  have hc : c = 2 * i + 1 ∨ c = 2 * i + 1 + 1 := by have := h; omega
  unfold child
  split
  · rename_i hcond
    simp only [Bool.and_eq_true, decide_eq_true_eq] at hcond
    rcases hc with e | e
    · subst e; exact le64_of_before hcond.2
    · subst e; exact le64_refl _
  · rename_i hcond
    simp only [Bool.and_eq_true, decide_eq_true_eq, not_and, Bool.not_eq_true] at hcond
    rcases hc with e | e
    · subst e; exact le64_refl _
    · subst e; exact hcond (by omega)

theorem down_heap (n f : Nat) : ∀ (st : State) (i : Nat) (top : Bool), n ≤ i + f →
    n ≤ st.heap.size → DInv st i n top →
    ((down st i n f).2 = i →
      (down st i n f).1 = st ∧ ∀ c, 0 < c → c < n → (c - 1) / 2 = i → OkAt st c) ∧
    ((down st i n f).2 ≠ i → HeapOrd (down st i n f).1 n) := by
  induction f with
  | zero =>
    intro st i top hf hn h
    refine ⟨fun _ => ⟨rfl, ?_⟩, fun hne => absurd rfl hne⟩
    intro c hc0 hcn hpar; omega
  | succ f ih =>
    intro st i top hf hn h
    generalize hr : down st i n (f + 1) = r
    unfold down at hr
    split at hr
    · subst hr
      refine ⟨fun _ => ⟨rfl, ?_⟩, fun hne => absurd rfl hne⟩
      intro c hc0 hcn hpar; omega
    · rename_i hlt
      have hlt : 2 * i + 1 < n := by omega
      have hmin := child_min st i n hlt
      obtain ⟨hjn, hjc⟩ := child_cases st i n hlt
      split at hr
      · rename_i hstop
        subst hr
        refine ⟨fun _ => ⟨rfl, ?_⟩, fun hne => absurd rfl hne⟩
        intro c hc0 hcn hpar
        simp only [Bool.not_eq_true'] at hstop
        have hs : le64 (kv st i) (kv st (child st i n)) := hstop
        show le64 (kv st ((c - 1) / 2)) (kv st c)
        rw [hpar]
        exact le64_trans hs (hmin c hcn hc0 hpar)
      · rename_i hgo
        simp only [Bool.not_eq_true', Bool.not_eq_false] at hgo
        have hlt2 : le64 (kv st (child st i n)) (kv st i) := le64_of_before hgo
        generalize child st i n = j at hr hmin hjn hjc hlt2
        have hij : i ≠ j := by omega
        have hpj : (j - 1) / 2 = i := by omega
        have his : i < st.heap.size := by omega
        have hjs : j < st.heap.size := by omega
        have hD : DInv (swap st i j) j n false := by
          constructor
          · intro c hc0 hcn hq _
            show le64 (kv (swap st i j) ((c - 1) / 2)) (kv (swap st i j) c)
            by_cases c1 : c = j
            · rw [c1, hpj, kv_swap_l st i j his hjs hij, kv_swap_r st i j his hjs]
              exact hlt2
            · by_cases c2 : c = i
              · have hi0 : 0 < i := by omega
                have g1 : (i - 1) / 2 ≠ i := by omega
                have g2 : (i - 1) / 2 ≠ j := by omega
                rw [c2, kv_swap_l st i j his hjs hij, kv_swap_o st i j _ his hjs g1 g2]
                exact h.2 j (by omega) hjn hpj hi0
              · rw [kv_swap_o st i j c his hjs c2 c1]
                by_cases q1 : (c - 1) / 2 = i
                · rw [q1, kv_swap_l st i j his hjs hij]
                  exact hmin c hcn hc0 q1
                · rw [kv_swap_o st i j _ his hjs q1 hq]
                  exact h.1 c hc0 hcn q1 (Or.inl c2)
          · intro c hc0 hcn hpar hj0
            have c1 : c ≠ i := by omega
            have c2 : c ≠ j := by omega
            rw [hpj, kv_swap_l st i j his hjs hij, kv_swap_o st i j c his hjs c1 c2]
            have ok : le64 (kv st ((c - 1) / 2)) (kv st c) :=
              h.1 c hc0 hcn (by omega) (Or.inl c1)
            rw [hpar] at ok
            exact ok
        have IH := ih (swap st i j) j false (by omega) (by rw [size_swap]; exact hn) hD
        have hge := down_ge f (swap st i j) j n
        rw [hr] at IH hge
        refine ⟨fun e => by omega, fun _ => ?_⟩
        by_cases e : r.2 = j
        · obtain ⟨e1, hch⟩ := IH.1 e
          rw [e1]
          intro c hc0 hcn
          by_cases q : (c - 1) / 2 = j
          · exact hch c hc0 hcn q
          · exact hD.1 c hc0 hcn q (Or.inr rfl)
        · exact IH.2 e

theorem fix_heap (st : State) (i : Nat) (hi : i < st.heap.size)
    (h : DInv st i st.heap.size true) : HeapOrd (fix st i) st.heap.size := by
  unfold fix
  simp only
  have D := down_heap st.heap.size st.heap.size st i true (by omega) (Nat.le_refl _) h
  have hge := down_ge st.heap.size st i st.heap.size
  generalize down st i st.heap.size st.heap.size = r at D hge
  split
  · exact D.2 (by omega)
  · have e : r.2 = i := by omega
    obtain ⟨e1, hch⟩ := D.1 e
    rw [e1]
    apply up_heap _ _ st i (by omega) hi (Nat.le_refl _)
    constructor
    · intro c hc0 hcn hci
      by_cases q : (c - 1) / 2 = i
      · exact hch c hc0 hcn q
      · exact h.1 c hc0 hcn q (Or.inl hci)
    · exact h.2

end ScionTime.Server
