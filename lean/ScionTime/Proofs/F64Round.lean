/-
  Proofs/F64Round.lean — what `roundNE` (Model/F64.lean) does to a rational whose binade is
  known: the result is the round-half-even multiple of the unit in the last place; hence
  integers below 2^53 are exact and the relative error is at most 2^-53.
  (Written for C18's floating-point clauses; generic, no C18 content.)
-/
import ScionTime.Model.F64
namespace ScionTime.F64

/-! ### powers of two -/

theorem natpow_pos (k : Nat) : (0 : Rat) < ((2 ^ k : Nat) : Rat) :=
  Rat.natCast_pos.mpr (Nat.pow_pos (by decide))

theorem natpow_succ (k : Nat) : ((2 ^ (k+1) : Nat) : Rat) = 2 * ((2 ^ k : Nat) : Rat) := by
  rw [Nat.pow_succ, Nat.mul_comm, Rat.natCast_mul]; rfl

theorem pow2_pos (e : Int) : 0 < pow2 e := by
  unfold pow2
  split
  · exact natpow_pos _
  · have := natpow_pos (-e).toNat
    generalize ((2 ^ (-e).toNat : Nat) : Rat) = x at *
    rw [Rat.div_def, Rat.one_mul]
    exact Rat.inv_pos.mpr this

theorem pow2_zero : pow2 0 = 1 := by decide

theorem pow2_succ (e : Int) : pow2 (e + 1) = 2 * pow2 e := by
  unfold pow2
  by_cases h : e ≥ 0
  · have h1 : e + 1 ≥ 0 := by omega
    rw [if_pos h, if_pos h1]
    have : (e + 1).toNat = e.toNat + 1 := by omega
    rw [this, natpow_succ]
  · rw [if_neg h]
    by_cases h1 : e + 1 ≥ 0
    · rw [if_pos h1]
      have he : e = -1 := by omega
      subst he
      show ((2 ^ 0 : Nat) : Rat) = 2 * (1 / ((2 ^ 1 : Nat) : Rat))
      have h1 : ((2 ^ 0 : Nat) : Rat) = 1 := rfl
      have h2 : ((2 ^ 1 : Nat) : Rat) = 2 := rfl
      rw [h1, h2]; grind
    · rw [if_neg h1]
      have : (-e).toNat = (-(e + 1)).toNat + 1 := by omega
      rw [this, natpow_succ]
      have := natpow_pos (-(e + 1)).toNat
      generalize ((2 ^ (-(e + 1)).toNat : Nat) : Rat) = x at *
      grind

theorem pow2_add_nat (e : Int) (n : Nat) : pow2 (e + n) = ((2 ^ n : Nat) : Rat) * pow2 e := by
  induction n with
  | zero => simp
  | succ k ih =>
    have : e + ((k + 1 : Nat) : Int) = (e + k) + 1 := by omega
    rw [this, pow2_succ, ih, natpow_succ]
    grind

theorem pow2_le_of_le {a b : Int} (h : a ≤ b) : pow2 a ≤ pow2 b := by
  obtain ⟨n, rfl⟩ : ∃ n : Nat, b = a + n := ⟨(b - a).toNat, by omega⟩
  rw [pow2_add_nat]
  have h1 : (1 : Rat) ≤ ((2 ^ n : Nat) : Rat) := by
    have : 1 ≤ 2 ^ n := Nat.one_le_two_pow
    exact_mod_cast this
  have h2 := pow2_pos a
  calc pow2 a = 1 * pow2 a := by grind
    _ ≤ ((2 ^ n : Nat) : Rat) * pow2 a := Rat.mul_le_mul_of_nonneg_right h1 (Rat.le_of_lt h2)

theorem pow2_lt_of_lt {a b : Int} (h : a < b) : pow2 a < pow2 b := by
  have h1 : pow2 (a + 1) ≤ pow2 b := pow2_le_of_le (by omega)
  have h2 := pow2_pos a
  rw [pow2_succ] at h1
  grind

theorem pow2_natCast (n : Nat) : pow2 (n : Int) = ((2 ^ n : Nat) : Rat) := by
  unfold pow2
  rw [if_pos (by omega)]
  simp


theorem pow2_of_nonneg (e : Int) (h : 0 ≤ e) : pow2 e = ((2 ^ e.toNat : Nat) : Rat) := by
  unfold pow2; rw [if_pos h]

theorem pow2_neg_mul (e : Int) : pow2 (-e) * pow2 e = 1 := by
  rcases Int.le_total 0 e with h | h
  · have := pow2_add_nat (-e) e.toNat
    have h0 : -e + (e.toNat : Int) = 0 := by omega
    rw [h0, pow2_zero] at this
    have h1 : pow2 e = ((2 ^ e.toNat : Nat) : Rat) := pow2_of_nonneg e h
    rw [h1]; grind
  · have := pow2_add_nat e (-e).toNat
    have h0 : e + ((-e).toNat : Int) = 0 := by omega
    rw [h0, pow2_zero] at this
    have h1 : pow2 (-e) = ((2 ^ (-e).toNat : Nat) : Rat) := pow2_of_nonneg (-e) (by omega)
    rw [h1]; grind

/-! ### floorLog2 -/

theorem log2_bounds (n : Nat) (hn : 0 < n) :
    pow2 (n.log2 : Int) ≤ (n : Rat) ∧ (n : Rat) < 2 * pow2 (n.log2 : Int) := by
  have h1 : 2 ^ n.log2 ≤ n := Nat.log2_self_le (by omega)
  have h2 : n < 2 ^ (n.log2 + 1) := Nat.lt_log2_self
  rw [pow2_natCast]
  constructor
  · exact_mod_cast h1
  · rw [← natpow_succ]; exact_mod_cast h2

/-- `floorLog2 n d = ⌊log₂ (n/d)⌋`: `2^l · d ≤ n < 2^(l+1) · d`. -/
theorem floorLog2_spec (n d : Nat) (hn : 0 < n) (hd : 0 < d) :
    pow2 (floorLog2 n d) * d ≤ n ∧ (n : Rat) < pow2 (floorLog2 n d + 1) * d := by
  obtain ⟨hA1, hA2⟩ := log2_bounds n hn
  obtain ⟨hB1, hB2⟩ := log2_bounds d hd
  have hBpos := pow2_pos (d.log2 : Int)
  -- P = 2^(a-b), A = P·B
  have hAB : pow2 (n.log2 : Int) = pow2 ((n.log2 : Int) - (d.log2 : Int)) * pow2 (d.log2 : Int) := by
    have := pow2_add_nat ((n.log2 : Int) - (d.log2 : Int)) d.log2
    have h0 : (n.log2 : Int) - (d.log2 : Int) + (d.log2 : Int) = (n.log2 : Int) := by omega
    rw [h0, ← pow2_natCast] at this
    rw [this]; grind
  have hPpos := pow2_pos ((n.log2 : Int) - (d.log2 : Int))
  -- the test `ge` decides P·d ≤ n
  have hge : (if (n.log2 : Int) - (d.log2 : Int) ≥ 0
      then decide (n ≥ d * 2 ^ ((n.log2 : Int) - (d.log2 : Int)).toNat)
      else decide (n * 2 ^ (-((n.log2 : Int) - (d.log2 : Int))).toNat ≥ d)) = true ↔
      pow2 ((n.log2 : Int) - (d.log2 : Int)) * d ≤ n := by
    generalize (n.log2 : Int) - (d.log2 : Int) = l at *
    split
    · rename_i hl
      have hP : pow2 l = ((2 ^ l.toNat : Nat) : Rat) := pow2_of_nonneg l hl
      rw [decide_eq_true_iff, hP, ← Rat.natCast_mul, Nat.mul_comm]
      exact Rat.natCast_le_natCast.symm
    · rename_i hl
      have hQ : pow2 (-l) = ((2 ^ (-l).toNat : Nat) : Rat) := pow2_of_nonneg (-l) (by omega)
      have hPQ := pow2_neg_mul l
      have hQpos := pow2_pos (-l)
      rw [decide_eq_true_iff]
      have hcast : (n * 2 ^ (-l).toNat ≥ d) ↔ ((d : Rat) ≤ n * pow2 (-l)) := by
        rw [hQ, ← Rat.natCast_mul]; exact Rat.natCast_le_natCast.symm
      rw [hcast]
      constructor
      · intro h
        have := Rat.mul_le_mul_of_nonneg_left h (Rat.le_of_lt hPpos)
        have e : pow2 l * ((n : Rat) * pow2 (-l)) = n * (pow2 (-l) * pow2 l) := by grind
        rw [e, hPQ] at this
        grind
      · intro h
        have := Rat.mul_le_mul_of_nonneg_left h (Rat.le_of_lt hQpos)
        have e : pow2 (-l) * (pow2 l * (d : Rat)) = (pow2 (-l) * pow2 l) * d := by grind
        rw [e, hPQ] at this
        grind
  unfold floorLog2
  simp only
  generalize (n.log2 : Int) - (d.log2 : Int) = l at *
  generalize pow2 (n.log2 : Int) = A at *
  generalize pow2 (d.log2 : Int) = B at *
  generalize (if l ≥ 0 then decide (n ≥ d * 2 ^ l.toNat) else decide (n * 2 ^ (-l).toNat ≥ d)) = g at *
  have hPB_le : pow2 l * B ≤ pow2 l * d := Rat.mul_le_mul_of_nonneg_left hB1 (Rat.le_of_lt hPpos)
  have hPd_lt : pow2 l * d < pow2 l * (2 * B) := Rat.mul_lt_mul_of_pos_left hB2 hPpos
  cases g with
  | true =>
    have := hge.mp rfl
    simp only [if_true]
    rw [pow2_succ]
    refine ⟨this, ?_⟩
    generalize pow2 l = P at *
    grind
  | false =>
    have hn' : ¬ (pow2 l * d ≤ n) := fun h => Bool.noConfusion (hge.mpr h)
    have hs : pow2 l = 2 * pow2 (l - 1) := by
      have := pow2_succ (l - 1)
      have h0 : l - 1 + 1 = l := by omega
      rw [h0] at this; exact this
    have h0 : l - 1 + 1 = l := by omega
    simp only [Bool.false_eq_true, if_false]
    rw [h0]
    generalize pow2 (l - 1) = P1 at *
    generalize pow2 l = P at *
    constructor
    · have e1 : P * (d : Rat) = 2 * (P1 * d) := by rw [hs]; grind
      have e2 : P * (2 * B) = 2 * A := by rw [hAB]; grind
      rw [e1, e2] at hPd_lt
      generalize P1 * (d : Rat) = X at *
      grind
    · grind


/-! ### round half even -/

theorem toNat_cast (z : Int) (h : 0 ≤ z) : ((z.toNat : Nat) : Rat) = (z : Rat) := by
  have : ((z.toNat : Nat) : Int) = z := Int.toNat_of_nonneg h
  rw [← Rat.intCast_natCast, this]

/-- `roundHalfEven x` is within 1/2 of `x`, not below `⌊x⌋`, and is `x` itself when `x` is a
    natural number. -/
theorem roundHalfEven_spec (x : Rat) (hx : 0 ≤ x) :
    (roundHalfEven x : Rat) ≤ x + 1/2 ∧ x - 1/2 ≤ (roundHalfEven x : Rat) ∧
    (x.floor : Rat) ≤ (roundHalfEven x : Rat) := by
  have hf0 : 0 ≤ x.floor := Rat.le_floor_iff.mpr (by simpa using hx)
  have h1 := Rat.floor_le x
  have h2 := Rat.lt_floor_add_one x
  have h2' : x < (x.floor : Rat) + 1 := by
    have : ((x.floor + 1 : Int) : Rat) = (x.floor : Rat) + 1 := by simp [Rat.intCast_add]
    rw [this] at h2; exact h2
  unfold roundHalfEven
  simp only
  generalize hfl : x.floor = f at *
  have hc1 : (((f + 1).toNat : Nat) : Rat) = (f : Rat) + 1 := by
    rw [toNat_cast _ (by omega)]; simp [Rat.intCast_add]
  have hc0 : ((f.toNat : Nat) : Rat) = (f : Rat) := toNat_cast _ hf0
  split
  · rw [hc1]; grind
  · split
    · rw [hc0]; grind
    · split
      · rw [hc0]; grind
      · rw [hc1]; grind

theorem roundHalfEven_natCast (k : Nat) : roundHalfEven (k : Rat) = k := by
  unfold roundHalfEven
  have hfl : ((k : Rat)).floor = (k : Int) := by
    rw [← Rat.intCast_natCast, Rat.floor_intCast]
  simp only [hfl]
  have : (k : Rat) - ((k : Int) : Rat) = 0 := by rw [Rat.intCast_natCast]; grind
  rw [this]
  have h1 : ¬ ((0 : Rat) > 1/2) := by grind
  have h2 : (0 : Rat) < 1/2 := by grind
  rw [if_neg h1, if_pos h2]
  omega

/-! ### roundNE on a known binade -/

def absR (q : Rat) : Rat := if decide (q < 0) = true then -q else q

theorem absR_pos (q : Rat) (hq : q ≠ 0) : 0 < absR q := by
  unfold absR; split <;> grind

theorem rat_eq_num_div_den (a : Rat) : a = (a.num : Rat) / (a.den : Rat) := by
  have := Rat.mkRat_eq_div a.num a.den
  rw [Rat.mkRat_self] at this
  exact this

theorem pos_num_den (a : Rat) (ha : 0 < a) :
    0 < a.num.natAbs ∧ 0 < a.den ∧ (a.num.natAbs : Rat) = a * (a.den : Rat) := by
  have hnum : 0 < a.num := by
    have : 0 ≤ a.num := Rat.num_nonneg.mpr (Rat.le_of_lt ha)
    have hne : a.num ≠ 0 := by
      intro h
      have := rat_eq_num_div_den a
      rw [h] at this
      have h0 : a = 0 := by rw [this]; simp [Rat.div_def]
      grind
    omega
  have hden : 0 < a.den := Nat.pos_of_ne_zero a.den_nz
  refine ⟨by omega, hden, ?_⟩
  have hd : (0 : Rat) < (a.den : Rat) := Rat.natCast_pos.mpr hden
  have h1 : ((a.num.natAbs : Nat) : Rat) = (a.num : Rat) := by
    have : ((a.num.natAbs : Nat) : Int) = a.num := by omega
    rw [← Rat.intCast_natCast, this]
  rw [h1]
  have := rat_eq_num_div_den a
  have h2 : (a.num : Rat) / (a.den : Rat) * (a.den : Rat) = (a.num : Rat) :=
    Rat.div_mul_cancel (by grind)
  rw [← this] at h2
  exact h2.symm

/-- If `2^(e+52) ≤ |q| < 2^(e+53)` with `e` a legal exponent, `roundNE q` is the finite double
    `± m·2^e` where `m` is `|q|/2^e` rounded half-even. -/
theorem roundNE_spec (q : Rat) (hq : q ≠ 0) (e : Int) (he : minExp ≤ e) (hmax : e + 53 ≤ 1023)
    (hlo : pow2 (e + 52) ≤ absR q) (hhi : absR q < pow2 (e + 53)) :
    roundNE q = .fin (if decide (q < 0) = true then -((roundHalfEven (absR q / pow2 e) : Rat) * pow2 e)
                      else (roundHalfEven (absR q / pow2 e) : Rat) * pow2 e) ∧
    pow2 52 ≤ (roundHalfEven (absR q / pow2 e) : Rat) := by
  have ha := absR_pos q hq
  obtain ⟨hn, hd, hnd⟩ := pos_num_den (absR q) ha
  obtain ⟨hl1, hl2⟩ := floorLog2_spec _ _ hn hd
  have hdpos : (0 : Rat) < ((absR q).den : Rat) := Rat.natCast_pos.mpr hd
  rw [hnd] at hl1 hl2
  have hl1' : pow2 (floorLog2 (absR q).num.natAbs (absR q).den) ≤ absR q :=
    Rat.le_of_mul_le_mul_right hl1 hdpos
  have hl2' : absR q < pow2 (floorLog2 (absR q).num.natAbs (absR q).den + 1) :=
    Rat.lt_of_mul_lt_mul_right hl2 (Rat.le_of_lt hdpos)
  -- the binade is e + 52
  have hl : floorLog2 (absR q).num.natAbs (absR q).den = e + 52 := by
    generalize floorLog2 (absR q).num.natAbs (absR q).den = l at *
    rcases Int.lt_trichotomy l (e + 52) with h | h | h
    · have := pow2_le_of_le (show l + 1 ≤ e + 52 by omega)
      grind
    · exact h
    · have := pow2_le_of_le (show e + 53 ≤ l by omega)
      grind
  have hulp : ulpExp (absR q).num.natAbs (absR q).den = e := by
    unfold ulpExp precBits
    simp only [hl]
    have : e + 52 - (53 - 1) = e := by omega
    rw [this, if_neg (by omega)]
  -- scaled value in [2^52, 2^53)
  have hpe := pow2_pos e
  have h52c : pow2 52 = ((2 ^ 52 : Nat) : Rat) := pow2_of_nonneg 52 (by omega)
  have h53c : pow2 53 = ((2 ^ 53 : Nat) : Rat) := pow2_of_nonneg 53 (by omega)
  have h52 : pow2 (e + 52) = pow2 52 * pow2 e := by
    have := pow2_add_nat e 52
    rw [h52c]; exact this
  have h53 : pow2 (e + 53) = pow2 53 * pow2 e := by
    have := pow2_add_nat e 53
    rw [h53c]; exact this
  have hs_lo : pow2 52 ≤ absR q / pow2 e := by
    rw [h52] at hlo
    have : pow2 52 * pow2 e / pow2 e ≤ absR q / pow2 e := by
      rw [Rat.div_def, Rat.div_def]
      exact Rat.mul_le_mul_of_nonneg_right hlo (Rat.le_of_lt (Rat.inv_pos.mpr hpe))
    rw [Rat.mul_div_cancel (by grind)] at this
    exact this
  have hs_hi : absR q / pow2 e < pow2 53 := by
    rw [h53] at hhi
    exact (Rat.div_lt_iff hpe).mpr hhi
  have hs0 : 0 ≤ absR q / pow2 e := by
    have := pow2_pos 52; grind
  obtain ⟨hm1, hm2, hm3⟩ := roundHalfEven_spec (absR q / pow2 e) hs0
  -- m ≥ 2^52
  have hm_lo : pow2 52 ≤ (roundHalfEven (absR q / pow2 e) : Rat) := by
    have h52n : pow2 52 = ((4503599627370496 : Int) : Rat) := by decide
    have : (4503599627370496 : Int) ≤ (absR q / pow2 e).floor := by
      apply Rat.le_floor_iff.mpr
      rw [← h52n]; exact hs_lo
    have := Rat.intCast_le_intCast.mpr this
    rw [h52n]
    grind
  refine ⟨?_, hm_lo⟩
  -- unfold roundNE
  have hmne : roundHalfEven (absR q / pow2 e) ≠ 0 := by
    intro h0
    rw [h0] at hm_lo
    have := pow2_pos 52
    have : ((0 : Nat) : Rat) = 0 := rfl
    grind
  have hv_lt : (roundHalfEven (absR q / pow2 e) : Rat) * pow2 e < overflowThreshold := by
    unfold overflowThreshold
    have h1 : (roundHalfEven (absR q / pow2 e) : Rat) ≤ pow2 53 := by
      have hlt : (roundHalfEven (absR q / pow2 e) : Rat) < ((2 ^ 53 + 1 : Nat) : Rat) := by
        have : ((2 ^ 53 + 1 : Nat) : Rat) = ((2 ^ 53 : Nat) : Rat) + 1 := by
          rw [Rat.natCast_add]; rfl
        rw [this, ← h53c]; grind
      have := Rat.natCast_lt_natCast.mp hlt
      rw [h53c]
      apply Rat.natCast_le_natCast.mpr
      omega
    have h2 := Rat.mul_le_mul_of_nonneg_right h1 (Rat.le_of_lt hpe)
    rw [← h53] at h2
    have h3 := pow2_le_of_le hmax
    have h4 := pow2_lt_of_lt (show (1023 : Int) < 1024 by omega)
    grind
  unfold roundNE
  rw [if_neg hq]
  simp only
  have habs : (if decide (q < 0) = true then -q else q) = absR q := rfl
  rw [habs, hulp, if_neg hmne, if_neg (by grind)]


/-- Every non-zero rational lies in exactly one binade. -/
theorem exists_binade (a : Rat) (ha : 0 < a) :
    ∃ l : Int, pow2 l ≤ a ∧ a < pow2 (l + 1) := by
  obtain ⟨hn, hd, hnd⟩ := pos_num_den a ha
  obtain ⟨hl1, hl2⟩ := floorLog2_spec _ _ hn hd
  have hdpos : (0 : Rat) < (a.den : Rat) := Rat.natCast_pos.mpr hd
  rw [hnd] at hl1 hl2
  exact ⟨_, Rat.le_of_mul_le_mul_right hl1 hdpos, Rat.lt_of_mul_lt_mul_right hl2 (Rat.le_of_lt hdpos)⟩

theorem absR_eq (q : Rat) : (q < 0 → absR q = -q) ∧ (¬ q < 0 → absR q = q) := by
  unfold absR
  constructor
  · intro h; rw [if_pos (by simpa using h)]
  · intro h; rw [if_neg (by simpa using h)]

/-- Relative error of rounding in the normal range: `|fl(q) − q| ≤ |q|·2^-53`, the sign is
    kept and the result is finite. -/
theorem roundNE_relErr (q : Rat) (hq : q ≠ 0) (hlo : pow2 (-1022) ≤ absR q) (hhi : absR q < pow2 1023) :
    ∃ v : Rat, roundNE q = .fin v ∧ absR (v - q) * pow2 53 ≤ absR q ∧
      (0 < q → 0 < v) ∧ (q < 0 → v < 0) := by
  have ha := absR_pos q hq
  obtain ⟨l, hl1, hl2⟩ := exists_binade (absR q) ha
  have hl_lo : -1022 ≤ l := by
    by_cases h : l < -1022
    · have := pow2_le_of_le (show l + 1 ≤ -1022 by omega); grind
    · omega
  have hl_hi : l ≤ 1022 := by
    by_cases h : 1022 < l
    · have := pow2_le_of_le (show (1023 : Int) ≤ l by omega); grind
    · omega
  have e1 : l - 52 + 52 = l := by omega
  have e2 : l - 52 + 53 = l + 1 := by omega
  obtain ⟨hr, hm⟩ := roundNE_spec q hq (l - 52) (by unfold minExp; omega) (by omega)
    (by rw [e1]; exact hl1) (by rw [e2]; exact hl2)
  have hP := pow2_pos (l - 52)
  have hs0 : 0 ≤ absR q / pow2 (l - 52) := by
    rw [Rat.div_def]; exact Rat.le_of_lt (Rat.mul_pos ha (Rat.inv_pos.mpr hP))
  obtain ⟨hm1, hm2, _⟩ := roundHalfEven_spec (absR q / pow2 (l - 52)) hs0
  have hsP : absR q / pow2 (l - 52) * pow2 (l - 52) = absR q := Rat.div_mul_cancel (by grind)
  have h52 : pow2 l = pow2 52 * pow2 (l - 52) := by
    have := pow2_add_nat (l - 52) 52
    have h52c : pow2 52 = ((2 ^ 52 : Nat) : Rat) := pow2_of_nonneg 52 (by omega)
    have e : l - 52 + ((52 : Nat) : Int) = l := by omega
    rw [e] at this; rw [h52c]; exact this
  have h53 : pow2 53 = 2 * pow2 52 := pow2_succ 52
  have hp52 := pow2_pos 52
  generalize hM : (roundHalfEven (absR q / pow2 (l - 52)) : Rat) = M at *
  generalize hS : absR q / pow2 (l - 52) = S at *
  generalize hPd : pow2 (l - 52) = P at *
  -- products
  have k1 : M * P ≤ (S + 1/2) * P := Rat.mul_le_mul_of_nonneg_right hm1 (Rat.le_of_lt hP)
  have k2 : (S - 1/2) * P ≤ M * P := Rat.mul_le_mul_of_nonneg_right hm2 (Rat.le_of_lt hP)
  have k3 : (S + 1/2) * P = absR q + P / 2 := by rw [← hsP]; grind
  have k4 : (S - 1/2) * P = absR q - P / 2 := by rw [← hsP]; grind
  rw [k3] at k1; rw [k4] at k2
  have k5 : pow2 52 * P ≤ M * P := Rat.mul_le_mul_of_nonneg_right hm (Rat.le_of_lt hP)
  have hMPpos : 0 < M * P := by
    have := Rat.mul_pos hp52 hP; grind
  -- (M*P - a) * 2^53 ≤ a  and  (a - M*P) * 2^53 ≤ a   [since P/2 * 2^53 = 2^52 * P ≤ a]
  have k6 : P / 2 * pow2 53 = pow2 52 * P := by rw [h53]; grind
  have k7 : pow2 52 * P ≤ absR q := by rw [← h52]; exact hl1
  generalize hV : M * P = V at *
  have hA1 : (V - absR q) * pow2 53 ≤ absR q := by
    have hp53 := pow2_pos 53
    have : (V - absR q) * pow2 53 ≤ P / 2 * pow2 53 :=
      Rat.mul_le_mul_of_nonneg_right (by grind) (Rat.le_of_lt hp53)
    grind
  have hA2 : (absR q - V) * pow2 53 ≤ absR q := by
    have hp53 := pow2_pos 53
    have : (absR q - V) * pow2 53 ≤ P / 2 * pow2 53 :=
      Rat.mul_le_mul_of_nonneg_right (by grind) (Rat.le_of_lt hp53)
    grind
  obtain ⟨habs1, habs2⟩ := absR_eq q
  by_cases hneg : q < 0
  · refine ⟨-V, ?_, ?_, ?_, ?_⟩
    · rw [hr, if_pos (by simpa using hneg)]
    · have hq' := habs1 hneg
      obtain ⟨g1, g2⟩ := absR_eq (-V - q)
      by_cases hs : -V - q < 0
      · rw [g1 hs]
        have : -(-V - q) = V - absR q := by rw [hq']; grind
        rw [this]; exact hA1
      · rw [g2 hs]
        have : -V - q = absR q - V := by rw [hq']; grind
        rw [this]; exact hA2
    · intro h; grind
    · intro _; grind
  · refine ⟨V, ?_, ?_, ?_, ?_⟩
    · rw [hr, if_neg (by simpa using hneg)]
    · have hq' := habs2 hneg
      obtain ⟨g1, g2⟩ := absR_eq (V - q)
      by_cases hs : V - q < 0
      · rw [g1 hs]
        have : -(V - q) = absR q - V := by rw [hq']; grind
        rw [this]; exact hA2
      · rw [g2 hs]
        have : V - q = V - absR q := by rw [hq']
        rw [this]; exact hA1
    · intro _; exact hMPpos
    · intro h; exact absurd h hneg


/-- Integers of magnitude below 2^53 are doubles: `float64(n)` is exact. -/
theorem roundNE_intCast (n : Int) (hn : n ≠ 0) (hlo : -9007199254740992 < n) (hhi : n < 9007199254740992) :
    roundNE (n : Rat) = .fin (n : Rat) := by
  have hq : (n : Rat) ≠ 0 := by
    intro h; exact hn (Rat.intCast_eq_zero_iff.mp h)
  have ha := absR_pos _ hq
  -- |n| as a natural number
  have hk : absR (n : Rat) = ((n.natAbs : Nat) : Rat) := by
    obtain ⟨g1, g2⟩ := absR_eq (n : Rat)
    by_cases hneg : (n : Rat) < 0
    · rw [g1 hneg]
      have h0 : n < 0 := Rat.intCast_neg_iff.mp hneg
      have : ((n.natAbs : Nat) : Int) = -n := by omega
      rw [← Rat.intCast_natCast, this]; simp [Rat.intCast_neg]
    · rw [g2 hneg]
      have h0 : ¬ n < 0 := fun h => hneg (Rat.intCast_neg_iff.mpr h)
      have : ((n.natAbs : Nat) : Int) = n := by omega
      rw [← Rat.intCast_natCast, this]
  have hk1 : (1 : Rat) ≤ ((n.natAbs : Nat) : Rat) := by
    have : 1 ≤ n.natAbs := by omega
    exact_mod_cast this
  have hk2 : ((n.natAbs : Nat) : Rat) < pow2 53 := by
    rw [pow2_of_nonneg 53 (by omega)]
    apply Rat.natCast_lt_natCast.mpr
    have : (53 : Int).toNat = 53 := rfl
    rw [this]; omega
  obtain ⟨l, hl1, hl2⟩ := exists_binade _ ha
  rw [hk] at hl1 hl2
  have hl_lo : 0 ≤ l := by
    by_cases h : l < 0
    · have := pow2_le_of_le (show l + 1 ≤ 0 by omega); rw [pow2_zero] at this; grind
    · omega
  have hl_hi : l ≤ 52 := by
    by_cases h : 52 < l
    · have := pow2_le_of_le (show (53 : Int) ≤ l by omega); grind
    · omega
  have e1 : l - 52 + 52 = l := by omega
  have e2 : l - 52 + 53 = l + 1 := by omega
  obtain ⟨hr, _⟩ := roundNE_spec (n : Rat) hq (l - 52) (by unfold minExp; omega) (by omega)
    (by rw [e1, hk]; exact hl1) (by rw [e2, hk]; exact hl2)
  -- the scaled value is the natural number |n|·2^(52-l)
  have hinv := pow2_neg_mul (l - 52)
  have hQ : pow2 (-(l - 52)) = ((2 ^ (-(l - 52)).toNat : Nat) : Rat) := pow2_of_nonneg _ (by omega)
  have hP := pow2_pos (l - 52)
  have hs : absR (n : Rat) / pow2 (l - 52) = ((n.natAbs * 2 ^ (-(l - 52)).toNat : Nat) : Rat) := by
    rw [Rat.natCast_mul, ← hQ, hk]
    generalize pow2 (-(l - 52)) = Q at *
    generalize pow2 (l - 52) = P at *
    have hPne : P ≠ 0 := by grind
    have : ((n.natAbs : Nat) : Rat) * Q * P = ((n.natAbs : Nat) : Rat) := by
      rw [Rat.mul_assoc, hinv, Rat.mul_one]
    calc ((n.natAbs : Nat) : Rat) / P = (((n.natAbs : Nat) : Rat) * Q * P) / P := by rw [this]
      _ = ((n.natAbs : Nat) : Rat) * Q := Rat.mul_div_cancel hPne
  rw [hs, roundHalfEven_natCast] at hr
  have hv : ((n.natAbs * 2 ^ (-(l - 52)).toNat : Nat) : Rat) * pow2 (l - 52) = ((n.natAbs : Nat) : Rat) := by
    rw [Rat.natCast_mul, ← hQ, Rat.mul_assoc, hinv, Rat.mul_one]
  rw [hv] at hr
  rw [hr]
  obtain ⟨g1, g2⟩ := absR_eq (n : Rat)
  by_cases hneg : (n : Rat) < 0
  · rw [if_pos (by simpa using hneg), ← hk, g1 hneg]; simp
  · rw [if_neg (by simpa using hneg), ← hk, g2 hneg]

theorem ofInt_exact (n : Int) (hn : n ≠ 0) (hlo : -9007199254740992 < n) (hhi : n < 9007199254740992) :
    ofInt n = .fin (n : Rat) := roundNE_intCast n hn hlo hhi

theorem ofInt_zero : ofInt 0 = .zero false := by
  unfold ofInt roundNE; simp


/-- Rounding does not cross the double 1: a rational in (0,1) rounds to +0 (underflow) or to a
    finite double in (0, 1]. (A special case of monotonicity, enough for C18.) -/
theorem roundNE_small_pos (q : Rat) (h0 : 0 < q) (h1 : q < 1) :
    roundNE q = .zero false ∨ ∃ v, roundNE q = .fin v ∧ 0 < v ∧ v ≤ 1 := by
  have hq : q ≠ 0 := by grind
  obtain ⟨hn, hd, hnd⟩ := pos_num_den q h0
  obtain ⟨hl1, _⟩ := floorLog2_spec _ _ hn hd
  have hdpos : (0 : Rat) < (q.den : Rat) := Rat.natCast_pos.mpr hd
  rw [hnd] at hl1
  have hl1' : pow2 (floorLog2 q.num.natAbs q.den) ≤ q := Rat.le_of_mul_le_mul_right hl1 hdpos
  have hlneg : floorLog2 q.num.natAbs q.den < 0 := by
    by_cases h : floorLog2 q.num.natAbs q.den < 0
    · exact h
    · have := pow2_le_of_le (show (0 : Int) ≤ floorLog2 q.num.natAbs q.den by omega)
      rw [pow2_zero] at this; grind
  have he : ulpExp q.num.natAbs q.den < 0 := by
    unfold ulpExp precBits minExp
    simp only
    split <;> omega
  have hnegf : decide (q < 0) = false := by
    rw [decide_eq_false_iff_not]; grind
  unfold roundNE
  rw [if_neg hq]
  simp only [hnegf, Bool.false_eq_true, if_false]
  generalize ulpExp q.num.natAbs q.den = e at *
  -- N = 2^(-e) is a natural number with N · 2^e = 1
  have hinv := pow2_neg_mul e
  have hQ : pow2 (-e) = ((2 ^ (-e).toNat : Nat) : Rat) := pow2_of_nonneg _ (by omega)
  have hP := pow2_pos e
  have hs : q / pow2 e = q * pow2 (-e) := by
    have hPne : pow2 e ≠ 0 := by grind
    have : q * pow2 (-e) * pow2 e = q := by rw [Rat.mul_assoc, hinv, Rat.mul_one]
    calc q / pow2 e = (q * pow2 (-e) * pow2 e) / pow2 e := by rw [this]
      _ = q * pow2 (-e) := Rat.mul_div_cancel hPne
  have hNpos := pow2_pos (-e)
  have hs0 : 0 ≤ q / pow2 e := by rw [hs]; exact Rat.le_of_lt (Rat.mul_pos h0 hNpos)
  have hsN : q / pow2 e < pow2 (-e) := by
    rw [hs]
    have := Rat.mul_lt_mul_of_pos_right h1 hNpos
    rw [Rat.one_mul] at this; exact this
  obtain ⟨hm1, _, _⟩ := roundHalfEven_spec (q / pow2 e) hs0
  have hmN : roundHalfEven (q / pow2 e) ≤ 2 ^ (-e).toNat := by
    have hlt : (roundHalfEven (q / pow2 e) : Rat) < ((2 ^ (-e).toNat + 1 : Nat) : Rat) := by
      have : ((2 ^ (-e).toNat + 1 : Nat) : Rat) = ((2 ^ (-e).toNat : Nat) : Rat) + 1 := by
        rw [Rat.natCast_add]; rfl
      rw [this, ← hQ]; grind
    have := Rat.natCast_lt_natCast.mp hlt
    omega
  have hv1 : (roundHalfEven (q / pow2 e) : Rat) * pow2 e ≤ 1 := by
    have h := Rat.mul_le_mul_of_nonneg_right (Rat.natCast_le_natCast.mpr hmN) (Rat.le_of_lt hP)
    rw [← hQ, hinv] at h; exact h
  by_cases hm0 : roundHalfEven (q / pow2 e) = 0
  · left; rw [if_pos hm0]
  · right
    rw [if_neg hm0]
    have hmpos : (0 : Rat) < (roundHalfEven (q / pow2 e) : Rat) :=
      Rat.natCast_pos.mpr (Nat.pos_of_ne_zero hm0)
    have hvpos := Rat.mul_pos hmpos hP
    have hov : ¬ ((roundHalfEven (q / pow2 e) : Rat) * pow2 e ≥ overflowThreshold) := by
      unfold overflowThreshold
      have := pow2_lt_of_lt (show (0 : Int) < 1024 by omega)
      rw [pow2_zero] at this; grind
    rw [if_neg hov]
    exact ⟨_, rfl, hvpos, hv1⟩

/-- Rounding is odd: `fl(−q) = −fl(q)`. -/
theorem roundNE_neg (q : Rat) (hq : q ≠ 0) : roundNE (-q) = neg (roundNE q) := by
  have hnq : -q ≠ 0 := by grind
  unfold roundNE
  rw [if_neg hq, if_neg hnq]
  simp only
  by_cases h : q < 0
  · have h1 : decide (q < 0) = true := by simpa using h
    have h2 : decide (-q < 0) = false := by rw [decide_eq_false_iff_not]; grind
    simp only [h1, h2, if_true, Bool.false_eq_true, if_false]
    split
    · rfl
    · split
      · rfl
      · simp [neg]
  · have h1 : decide (q < 0) = false := by rw [decide_eq_false_iff_not]; exact h
    have h2 : decide (-q < 0) = true := by rw [decide_eq_true_iff]; grind
    simp only [h1, h2, if_true, Bool.false_eq_true, if_false, Rat.neg_neg]
    split
    · rfl
    · split
      · rfl
      · simp [neg]

theorem roundNE_small_neg (q : Rat) (h0 : q < 0) (h1 : -1 < q) :
    roundNE q = .zero true ∨ ∃ v, roundNE q = .fin v ∧ v < 0 ∧ -1 ≤ v := by
  have hq : q = -(-q) := by grind
  rw [hq, roundNE_neg (-q) (by grind)]
  rcases roundNE_small_pos (-q) (by grind) (by grind) with h | ⟨v, hv, v0, v1⟩
  · left; rw [h]; rfl
  · right; rw [hv]; exact ⟨-v, rfl, by grind, by grind⟩

end ScionTime.F64
