/-
  Proofs/F64P_C18Float.lean — helper lemmas for Props/F64P_C18Float.lean (constants, integer casts,
  the pure rational arithmetic of the rounding chains).
-/
import ScionTime.Model.F64P_UnixutilFloat
import ScionTime.Proofs.F64
namespace ScionTime.F64P_C18Float
open ScionTime.F64 ScionTime.F64P_UnixutilFloat

/-! ### constants -/

theorem pow2_53_lit : pow2 53 = 9007199254740992 := by decide
theorem pow2_63_lit : pow2 63 = 9223372036854775808 := by decide
theorem pow2_m10 : pow2 (-10) = 1 / 1024 := by rw [pow2_neg]; congr 1
theorem eta_le : pow2 (-1075) ≤ 1 / 1024 := by
  rw [← pow2_m10]; exact pow2_mono (by decide)
theorem pow2_m37 : pow2 (-37) = 1 / 137438953472 := by rw [pow2_neg]; congr 1

/-- the scale factor `65536.0 * 1e6` is an exact double -/
theorem scaleF_eq : scaleF = .fin 65536000000 := by
  have := ofInt_exact (i := scale) (by decide) (by decide)
  unfold scaleF; rw [this]; unfold scale; simp

theorem intCast_bounds {x : Int} {n : Nat} (h : x.natAbs ≤ n) :
    -((n : Int) : Rat) ≤ (x : Rat) ∧ (x : Rat) ≤ ((n : Int) : Rat) := by
  rw [← Rat.intCast_neg]
  exact ⟨Rat.intCast_le_intCast.2 (by omega), Rat.intCast_le_intCast.2 (by omega)⟩

theorem one_le_abs_intCast {x : Int} (h0 : x ≠ 0) : (1 : Rat) ≤ (x : Rat).abs := by
  by_cases hp : 0 ≤ x
  · rw [Rat.abs_of_nonneg (Rat.intCast_nonneg.2 hp)]
    exact_mod_cast (show (1 : Int) ≤ x by omega)
  · rw [Rat.abs_of_nonpos (Rat.intCast_nonpos.2 (by omega)), ← Rat.intCast_neg]
    exact_mod_cast (show (1 : Int) ≤ -x by omega)

/-- an integer within distance < 1 of `r` is within 1 of `trunc r` -/
theorem trunc_near {r : Rat} {x : Int} (h : (r - (x : Rat)).abs < 1) :
    (trunc r - x).natAbs ≤ 1 := by
  rw [abs_lt_iff] at h
  have h1 := trunc_mono (p := ((x - 1 : Int) : Rat)) (q := r) (by rw [Rat.intCast_sub, Rat.intCast_one]; grind)
  have h2 := trunc_mono (p := r) (q := ((x + 1 : Int) : Rat)) (by rw [Rat.intCast_add, Rat.intCast_one]; grind)
  rw [trunc_intCast] at h1 h2
  omega

/-- pure arithmetic of the two roundings -/
theorem rt_arith {X f r : Rat} (hX1 : -2251799813685248 ≤ X) (hX2 : X ≤ 2251799813685248)
    (e1 : (f - X / 65536000000).abs ≤ (X / 65536000000).abs / 9007199254740992)
    (e2 : (r - f * 65536000000).abs ≤ (f * 65536000000).abs / 9007199254740992 + 1 / 1024) :
    (r - X).abs < 1 ∧ (f * 65536000000).abs ≤ 4503599627370496 := by
  rw [abs_le_iff] at e1 e2
  rcases abs_cases (X / 65536000000) with ⟨h1, a1⟩ | ⟨h1, a1⟩ <;>
  rcases abs_cases (f * 65536000000) with ⟨h2, a2⟩ | ⟨h2, a2⟩ <;>
  rw [a1] at e1 <;> rw [a2] at e2 ⊢ <;>
  exact ⟨abs_lt_iff.2 ⟨by grind, by grind⟩, by grind⟩

theorem pow2_40_lit : pow2 40 = 1099511627776 := by decide
theorem pow2_m11 : pow2 (-11) = 1 / 2048 := by rw [pow2_neg]; congr 1
theorem pow2_m60 : pow2 (-60) = 1 / 1152921504606846976 := by rw [pow2_neg]; congr 1
theorem eta_le' : pow2 (-1075) ≤ 1 / 1152921504606846976 := by
  rw [← pow2_m60]; exact pow2_mono (by decide)

theorem isFinite_scaleF : isFinite scaleF = true := by rw [scaleF_eq]; rfl
theorem toRat_scaleF : toRat scaleF = 65536000000 := by rw [scaleF_eq]; rfl

theorem natAbs_le_of_bounds {s : Int} {n : Int} (h1 : -(n : Rat) ≤ (s : Rat)) (h2 : (s : Rat) ≤ (n : Rat)) :
    s.natAbs ≤ n.natAbs := by
  rw [← Rat.intCast_neg] at h1
  have := Rat.intCast_le_intCast.1 h1
  have := Rat.intCast_le_intCast.1 h2
  omega

/-- pure arithmetic of freq -> scaled ppm -> freq: `p` exact product, `r` its rounding,
    `S` the truncation, `g` the rounded quotient -/
theorem rtf_arith {p r S g : Rat} (hp : p.abs ≤ 1099511627776)
    (e1 : (r - p).abs ≤ p.abs / 9007199254740992 + 1 / 1152921504606846976)
    (et : (S - r).abs < 1)
    (e2 : (g - S / 65536000000).abs ≤ (S / 65536000000).abs / 9007199254740992 + 1 / 1152921504606846976) :
    (g * 65536000000 - p).abs ≤ 1 + 1 / 2048 := by
  rw [abs_le_iff] at e1 e2
  rw [abs_lt_iff] at et
  rcases abs_cases p with ⟨h1, a1⟩ | ⟨h1, a1⟩ <;>
  rcases abs_cases (S / 65536000000) with ⟨h2, a2⟩ | ⟨h2, a2⟩ <;>
  rw [a1] at hp e1 <;> rw [a2] at e2 <;>
  exact abs_le_iff.2 ⟨by grind, by grind⟩

theorem rtf_arith0 {p r S : Rat} (hp : p.abs ≤ 1099511627776)
    (e1 : (r - p).abs ≤ p.abs / 9007199254740992 + 1 / 1152921504606846976)
    (et : (S - r).abs < 1) :
    r.abs ≤ 1099511627777 ∧ S.abs ≤ 1099511627778 := by
  rw [abs_le_iff] at e1
  rw [abs_lt_iff] at et
  rcases abs_cases p with ⟨h1, a1⟩ | ⟨h1, a1⟩ <;> rw [a1] at hp e1 <;>
  exact ⟨abs_le_iff.2 ⟨by grind, by grind⟩, abs_le_iff.2 ⟨by grind, by grind⟩⟩

/-! ### drift -/

theorem abs_mul_le {a b A B : Rat} (ha : a.abs ≤ A) (hb : b.abs ≤ B) : (a * b).abs ≤ A * B := by
  rw [abs_mul]
  have h1 := Rat.mul_le_mul_of_nonneg_right ha (@Rat.abs_nonneg b)
  have h2 := Rat.mul_le_mul_of_nonneg_left hb (Rat.le_trans (@Rat.abs_nonneg a) ha)
  exact Rat.le_trans h1 h2

/-- L2: the one non-linear step: scale an error bound on `Sv ≈ D` by the factor `c` -/
theorem drift_L2 {D Sv c κ η : Rat} (hη0 : 0 ≤ η) (hc : c.abs ≤ 1 / 2)
    (h : (Sv - D).abs ≤ D.abs * κ + 3 * η) :
    (Sv * c - D * c).abs ≤ (D * c).abs * κ + 2 * η := by
  have e : Sv * c - D * c = (Sv - D) * c := by grind
  rw [e, abs_mul, abs_mul]
  have h1 := Rat.mul_le_mul_of_nonneg_right h (@Rat.abs_nonneg c)
  have h2 := Rat.mul_le_mul_of_nonneg_left hc (show 0 ≤ 3 * η by grind)
  grind

/-- L3: the two remaining roundings, with the underflow slack absorbed into `|E|` -/
theorem drift_L3 {x y Mv Rv E η : Rat} (hη0 : 0 ≤ η)
    (hE : E = x * 1000000000) (hη : 4000000000 * η ≤ E.abs / 1152921504606846976)
    (h : (y - x).abs ≤ x.abs * (3 / 9007199254740992) + 2 * η)
    (e3 : (Mv - y).abs ≤ y.abs / 9007199254740992 + η)
    (e4 : (Rv - Mv * 1000000000).abs ≤ (Mv * 1000000000).abs / 9007199254740992 + η) :
    (Rv - E).abs ≤ E.abs / 1125899906842624 := by
  subst hE
  rw [abs_mul_of_nonneg_right _ (by grind)] at hη e4 ⊢
  rw [abs_le_iff] at h e3 e4
  rcases abs_cases x with ⟨hx, ax⟩ | ⟨hx, ax⟩ <;>
  rcases abs_cases y with ⟨hy, ay⟩ | ⟨hy, ay⟩ <;>
  rcases abs_cases Mv with ⟨hm, am⟩ | ⟨hm, am⟩ <;>
  rw [ax] at h hη ⊢ <;> rw [ay] at e3 <;> rw [am] at e4 <;>
  exact abs_le_iff.2 ⟨by grind, by grind⟩

theorem mul_le_mul' {a b c d : Rat} (ha : 0 ≤ a) (hab : a ≤ b) (hc : 0 ≤ c) (hcd : c ≤ d) :
    a * c ≤ b * d :=
  Rat.le_trans (Rat.mul_le_mul_of_nonneg_right hab hc)
    (Rat.mul_le_mul_of_nonneg_left hcd (Rat.le_trans ha hab))

theorem pow2_m175 : pow2 (-175) = 1 / 47890485652059026823698344598447161988085597568237568 := by
  rw [pow2_neg]; congr 1
theorem pow2_50_lit : pow2 50 = 1125899906842624 := by decide

/-- magnitude of the third rounding's result -/
theorem drift_L3b {x y Mv η : Rat} (hη : η ≤ 1 / 1152921504606846976)
    (hx : (x * 1000000000).abs ≤ 4611686018427387904)
    (h : (y - x).abs ≤ x.abs * (3 / 9007199254740992) + 2 * η)
    (e3 : (Mv - y).abs ≤ y.abs / 9007199254740992 + η) :
    (Mv * 1000000000).abs ≤ 9223372036854774784 := by
  rw [abs_mul_of_nonneg_right _ (by grind)] at hx ⊢
  rw [abs_le_iff] at h e3
  rcases abs_cases x with ⟨hx', ax⟩ | ⟨hx', ax⟩ <;>
  rcases abs_cases y with ⟨hy, ay⟩ | ⟨hy, ay⟩ <;>
  rcases abs_cases Mv with ⟨hm, am⟩ | ⟨hm, am⟩ <;>
  rw [ax] at h hx <;> rw [ay] at e3 <;> rw [am] <;> grind

/-- the underflow slack is negligible against `|E| ≥ 2^-900` -/
theorem drift_eta {E : Rat} (hE : pow2 (-900) ≤ E.abs) :
    4000000000 * pow2 (-1075) ≤ E.abs / 1152921504606846976 := by
  have : pow2 (-1075) = pow2 (-900) * pow2 (-175) := by rw [← pow2_add]; rfl
  rw [this, pow2_m175]
  have := pow2_pos (-900)
  grind

/-- last step: truncation -/
theorem drift_final {Rv E T : Rat}
    (h : (Rv - E).abs ≤ E.abs / 1125899906842624) (ht : (T - Rv).abs < 1) :
    (T - E).abs ≤ 1 + E.abs / 1125899906842624 := by
  rw [abs_le_iff] at h
  rw [abs_lt_iff] at ht
  rcases abs_cases E with ⟨hE, aE⟩ | ⟨hE, aE⟩ <;> rw [aE] at h ⊢ <;>
  exact abs_le_iff.2 ⟨by grind, by grind⟩

end ScionTime.F64P_C18Float
