/-
  Helper lemmas for C15: permutation invariants of the sticky loop, of the picks of
  crypto.Sample applied to the candidate list, and of the fill loop.
-/
import ScionTime.Model.Multipath
namespace ScionTime.Multipath
open ScionTime.Sample List

/-! ### list facts -/

theorem set_perm {α : Type} : ∀ (l : List α) (j : Nat) (x : α) (h : j < l.length),
    (l[j] :: l.set j x).Perm (x :: l)
  | a :: l, 0, x, _ => by simpa using Perm.swap x a l
  | a :: l, j + 1, x, h => by
    have ih := set_perm l j x (by simpa using h)
    simp only [getElem_cons_succ, set_cons_succ]
    exact (Perm.swap a _ _).trans (((Perm.cons a ih).trans (Perm.swap x a l)))

theorem dropLast_append_last {α : Type} : ∀ (l : List α) (a : α), l.getLast? = some a → l.dropLast ++ [a] = l := by
  intro l a h
  rcases eq_nil_or_concat l with rfl | ⟨l', b, rfl⟩
  · simp at h
  · simp at h; subst h; simp

/-- `ps[j] = ps[last]; ps = ps[:last]` removes exactly `ps[j]` (as a multiset) -/
theorem swapRemove_perm (ps : List Path) (j : Nat) (h : j < ps.length) :
    (ps[j] :: swapRemove ps j).Perm ps := by
  unfold swapRemove
  rcases hl : ps.getLast? with _ | last
  · simp at hl; subst hl; simp at h
  · simp only
    have hps := dropLast_append_last ps last hl
    generalize hinit : ps.dropLast = init at hps
    subst hps
    simp only [length_append, length_cons, length_nil] at h
    rw [set_append]
    by_cases hj : j < init.length
    · simp only [hj, ↓reduceIte, dropLast_concat]
      have := set_perm init j last hj
      rw [getElem_append_left hj]
      exact this.trans (perm_append_singleton last init).symm
    · have hj' : j = init.length := by omega
      subst hj'
      simp only [Nat.lt_irrefl, ↓reduceIte, Nat.sub_self, set_cons_zero, dropLast_concat]
      simp only [getElem_concat_length]
      exact (perm_append_singleton last init).symm

theorem swapRemove_length (ps : List Path) (j : Nat) (h : j < ps.length) :
    (swapRemove ps j).length + 1 = ps.length := by
  have := (swapRemove_perm ps j h).length_eq
  simpa using this

/-! ### sticky loop -/

def assignedOf (sps : List (Option Path)) : List Path := sps.filterMap id

/-- what one iteration of the first loop does: either nothing is taken, or an element of the
    candidate list with the client's previous fingerprint is taken out of it -/
theorem stickyStep_cases (f : Bool) (c : Client) (ps : List Path) :
    ((stickyStep f c ps).1 = none ∧ (stickyStep f c ps).2 = ps) ∨
    (∃ j, ∃ h : j < ps.length, wantsSticky f c = true ∧
      ps.findIdx? (fun p => p.2 == c.ipath) = some j ∧
      (stickyStep f c ps).1 = some ps[j] ∧ (stickyStep f c ps).2 = swapRemove ps j) := by
  unfold stickyStep
  split
  · rename_i hw
    split
    · rename_i j hj
      have hlt : j < ps.length := by
        obtain ⟨h, _⟩ := findIdx?_eq_some_iff_getElem.mp hj
        exact h
      right
      refine ⟨j, hlt, hw, hj, ?_⟩
      simp [getElem?_eq_getElem hlt]
    · left; exact ⟨rfl, rfl⟩
  · left; exact ⟨rfl, rfl⟩

theorem stickyStep_perm (f : Bool) (c : Client) (ps : List Path) :
    ((stickyStep f c ps).1.toList ++ (stickyStep f c ps).2).Perm ps := by
  rcases stickyStep_cases f c ps with ⟨h1, h2⟩ | ⟨j, hj, _, _, h1, h2⟩
  · rw [h1, h2]; simp
  · rw [h1, h2]; simpa using swapRemove_perm ps j hj

theorem stickyLoop_length (f : Bool) : ∀ (cs : List Client) (ps : List Path),
    (stickyLoop f cs ps).1.length = cs.length
  | [], _ => rfl
  | c :: cs, ps => by simp [stickyLoop, stickyLoop_length f cs]

/-- assigned ++ remaining candidates is a permutation of the offered list -/
theorem stickyLoop_perm (f : Bool) : ∀ (cs : List Client) (ps : List Path),
    (assignedOf (stickyLoop f cs ps).1 ++ (stickyLoop f cs ps).2).Perm ps
  | [], ps => by simp [stickyLoop, assignedOf]
  | c :: cs, ps => by
    have h1 := stickyStep_perm f c ps
    have ih := stickyLoop_perm f cs (stickyStep f c ps).2
    simp only [stickyLoop, assignedOf] at *
    rcases hs : (stickyStep f c ps).1 with _ | p
    · rw [hs] at h1
      simp only [filterMap_cons, id_eq]
      simp only [Option.toList_none, nil_append] at h1
      exact ih.trans h1
    · rw [hs] at h1
      simp only [filterMap_cons, id_eq, cons_append]
      simp only [Option.toList_some, cons_append, nil_append] at h1
      exact (Perm.cons p ih).trans h1

/-! ### the picks of crypto.Sample applied to a list -/

theorem applyPicks_append {α : Type} : ∀ (a b : List (Nat × Nat)) (l : List α),
    applyPicks l (a ++ b) = applyPicks (applyPicks l a) b
  | [], _, _ => rfl
  | (d, s) :: a, b, l => by
    simp only [cons_append, applyPicks]
    split <;> exact applyPicks_append a b _

theorem applyPicks_id {α : Type} : ∀ (is : List Nat) (l : List α),
    applyPicks l (is.map fun i => (i, i)) = l
  | [], _ => rfl
  | i :: is, l => by
    simp only [map_cons, applyPicks]
    split
    · rename_i x hx
      obtain ⟨h, rfl⟩ := List.getElem?_eq_some_iff.mp hx
      rw [set_getElem_self]; exact applyPicks_id is l
    · exact applyPicks_id is l

/-- the picks act on positions: applying them commutes with mapping the list -/
theorem applyPicks_map {α β : Type} (f : α → β) : ∀ (picks : List (Nat × Nat)) (l : List α),
    applyPicks (l.map f) picks = (applyPicks l picks).map f
  | [], _ => rfl
  | (d, s) :: picks, l => by
    simp only [applyPicks, getElem?_map]
    cases hs : l[s]? with
    | none => simpa using applyPicks_map f picks l
    | some x =>
      simp only [Option.map_some]
      rw [← map_set]; exact applyPicks_map f picks _

theorem eq_map_range_getD {α : Type} (l : List α) (d : α) :
    l = (List.range l.length).map fun i => l.getD i d := by
  apply ext_getElem?
  intro i
  rw [getElem?_map]
  by_cases hi : i < l.length
  · simp [hi, getD_eq_getElem?_getD]
  · simp [hi]

/-- invariant of the second loop of Sample acting through `ps[dst] = ps[src]`:
    the first `k` entries are always distinct entries (as a multiset: a sub-multiset) of the
    original list, the entries from `k` on are untouched -/
theorem sampleLoop_perm {α : Type} (ps : List α) (rnd : Int → Bool → Stream → Res (Nat × Stream))
    (k : Nat) (c : Bool) :
    ∀ (m i : Nat) (s : Stream) (l : List α) (picks : List (Nat × Nat)) (s' : Stream),
      sampleLoopWith rnd k c m i s = .ok (picks, s') → k ≤ i → i + m = ps.length →
      l.length = ps.length → l.drop k = ps.drop k →
      (∃ r, (l.take k ++ r).Perm (ps.take i)) →
      ∃ r', ((applyPicks l picks).take k ++ r').Perm ps ∧ (applyPicks l picks).length = ps.length := by
  intro m
  induction m with
  | zero =>
    intro i s l picks s' h hk him hlen _ hperm
    simp only [sampleLoopWith, Res.ok.injEq, Prod.mk.injEq] at h
    obtain ⟨rfl, _⟩ := h
    obtain ⟨r, hr⟩ := hperm
    have : ps.take i = ps := take_of_length_le (by omega)
    rw [this] at hr
    exact ⟨r, hr, hlen⟩
  | succ m ih =>
    intro i s l picks s' h hk him hlen hdrop hperm
    simp only [sampleLoopWith] at h
    split at h
    · rename_i j s1 hj
      split at h
      · rename_i ps' s'' hrec
        simp only [Res.ok.injEq, Prod.mk.injEq] at h
        obtain ⟨rfl, rfl⟩ := h
        have hi : i < ps.length := by omega
        have hli : l[i]? = some ps[i] := by
          have h1 : (l.drop k)[i - k]? = (ps.drop k)[i - k]? := by rw [hdrop]
          rw [getElem?_drop, getElem?_drop] at h1
          have : k + (i - k) = i := by omega
          rw [this] at h1
          rw [h1]; exact getElem?_eq_getElem hi
        obtain ⟨r, hr⟩ := hperm
        rw [applyPicks_append]
        by_cases hjk : j < k
        · simp only [hjk, ↓reduceIte, applyPicks, hli]
          apply ih (i + 1) s1 (l.set j ps[i]) ps' s'' hrec (by omega) (by omega) (by simpa using hlen)
          · rw [drop_set_of_lt hjk]; exact hdrop
          · have hjA : j < (l.take k).length := by rw [length_take]; omega
            refine ⟨(l.take k)[j] :: r, ?_⟩
            rw [take_set, take_succ_eq_append_getElem hi]
            have h1 := set_perm (l.take k) j ps[i] hjA
            have h2 : ((l.take k).set j ps[i] ++ (l.take k)[j] :: r).Perm
                (((l.take k)[j] :: (l.take k).set j ps[i]) ++ r) := perm_middle
            refine h2.trans ?_
            refine (Perm.append_right r h1).trans ?_
            simp only [cons_append]
            exact (Perm.cons _ hr).trans (perm_append_singleton _ _).symm
        · simp only [hjk, ↓reduceIte, applyPicks]
          apply ih (i + 1) s1 l ps' s'' hrec (by omega) (by omega) hlen hdrop
          refine ⟨r ++ [ps[i]], ?_⟩
          rw [take_succ_eq_append_getElem hi, ← append_assoc]
          exact Perm.append_right _ hr
      · simp at h
      · simp at h
    · simp at h
    · simp at h

/-- crypto.Sample with `pick = ps[dst] = ps[src]`: `k' = min k n` and the first `k'` entries of
    the list afterwards are a sub-multiset of the candidates -/
theorem sample_perm {α : Type} (ps : List α) (K : Nat) (c : Bool) (s : Stream)
    (k' : Nat) (picks : List (Nat × Nat)) (rest : Stream)
    (h : sample (K : Int) (ps.length : Int) c s = .ok (k', picks, rest)) :
    k' = min K ps.length ∧
    ∃ r, ((applyPicks ps picks).take k' ++ r).Perm ps ∧ (applyPicks ps picks).length = ps.length := by
  unfold sample at h
  have h1 : ¬ ((K : Int) < 0) := by omega
  have h2 : ¬ ((ps.length : Int) < 0) := by omega
  simp only [h1, h2, ↓reduceIte, Int.toNat_natCast] at h
  split at h
  · rename_i pk s' hloop
    simp only [Res.ok.injEq, Prod.mk.injEq] at h
    obtain ⟨hk, hp, _⟩ := h
    have hk' : k' = min K ps.length := by
      rw [← hk]; split <;> omega
    refine ⟨hk', ?_⟩
    rw [← hp, applyPicks_append, hk, applyPicks_id]
    have hle : k' ≤ ps.length := by omega
    rw [hk] at hloop
    unfold sampleLoop at hloop
    exact sampleLoop_perm ps randIntn k' c (ps.length - k') k' s ps pk s' hloop (Nat.le_refl _)
      (by omega) rfl rfl ⟨[], by simp⟩
  · simp at h
  · simp at h

/-! ### fill -/

theorem countSome_add_countNone : ∀ (sps : List (Option Path)),
    countSome sps + countNone sps = sps.length
  | [] => rfl
  | none :: sps => by
    have := countSome_add_countNone sps
    simp [countSome, countNone] at *; omega
  | some p :: sps => by
    have := countSome_add_countNone sps
    simp [countSome, countNone] at *; omega

theorem countSome_eq_length_assignedOf : ∀ (sps : List (Option Path)),
    countSome sps = (assignedOf sps).length
  | [] => rfl
  | none :: sps => by
    have := countSome_eq_length_assignedOf sps
    simp [countSome, assignedOf] at *; exact this
  | some p :: sps => by
    have := countSome_eq_length_assignedOf sps
    simp [countSome, assignedOf] at *; exact this

theorem fill_length : ∀ (sps : List (Option Path)) (qs : List Path), (fill sps qs).length = sps.length
  | [], _ => rfl
  | some p :: sps, qs => by simp [fill, fill_length sps qs]
  | none :: sps, q :: qs => by simp [fill, fill_length sps qs]
  | none :: sps, [] => by simp [fill, fill_length sps []]

/-- the fill loop keeps every earlier assignment and hands out the sampled paths in order -/
theorem fill_assigned : ∀ (sps : List (Option Path)) (qs : List Path), qs.length ≤ countNone sps →
    assignedOf (fill sps qs) ~ assignedOf sps ++ qs
  | [], qs, h => by
    have : qs = [] := by simpa [countNone] using h
    subst this; simp [fill, assignedOf]
  | some p :: sps, qs, h => by
    have ih := fill_assigned sps qs (by simpa [countNone] using h)
    simp only [fill, assignedOf, filterMap_cons, id_eq, cons_append] at *
    exact Perm.cons p ih
  | none :: sps, q :: qs, h => by
    have ih := fill_assigned sps qs (by simp [countNone] at *; omega)
    simp only [fill, assignedOf, filterMap_cons, id_eq] at *
    exact (Perm.cons q ih).trans perm_middle.symm
  | none :: sps, [], _ => by
    have ih := fill_assigned sps [] (Nat.zero_le _)
    simp only [fill, assignedOf, filterMap_cons, id_eq, append_nil] at *
    exact ih

theorem fill_keeps : ∀ (sps : List (Option Path)) (qs : List Path) (i : Nat) (p : Path),
    sps[i]? = some (some p) → (fill sps qs)[i]? = some (some p)
  | [], _, _, _, h => by simp at h
  | some p' :: sps, qs, 0, p, h => by simpa [fill] using h
  | some p' :: sps, qs, i + 1, p, h => by
    simp only [fill, getElem?_cons_succ] at *; exact fill_keeps sps qs i p h
  | none :: sps, q :: qs, 0, p, h => by simp at h
  | none :: sps, q :: qs, i + 1, p, h => by
    simp only [fill, getElem?_cons_succ] at *; exact fill_keeps sps qs i p h
  | none :: sps, [], 0, p, h => by simp at h
  | none :: sps, [], i + 1, p, h => by
    simp only [fill, getElem?_cons_succ] at *; exact fill_keeps sps [] i p h

/-! ### the assignment as a whole -/

theorem offeredPaths_length (offered : List Fp) : (offeredPaths offered).length = offered.length := by
  simp [offeredPaths]

theorem assign_ok_spec (f : Bool) (cs : List Client) (offered : List Fp) (c : Bool) (s : Stream)
    (sps : List (Option Path)) (rest : Stream) (reset : List Bool)
    (h : assign f cs offered c s = (.ok sps rest, reset)) :
    sps.length = cs.length ∧
    (∃ r, (assignedOf sps ++ r).Perm (offeredPaths offered)) ∧
    countSome sps = min cs.length offered.length ∧ 0 < countSome sps ∧
    reset = (stickyLoop f cs (offeredPaths offered)).1.map Option.isNone ∧
    (∀ (i : Nat) (p : Path), (stickyLoop f cs (offeredPaths offered)).1[i]? = some (some p) → sps[i]? = some (some p)) := by
  unfold assign at h
  generalize hst : stickyLoop f cs (offeredPaths offered) = st at h
  unfold assignFrom at h
  simp only at h
  have hlen : st.1.length = cs.length := by rw [← hst]; exact stickyLoop_length f cs _
  have hperm : (assignedOf st.1 ++ st.2).Perm (offeredPaths offered) := by
    rw [← hst]; exact stickyLoop_perm f cs _
  have hcn := countSome_add_countNone st.1
  have hca := countSome_eq_length_assignedOf st.1
  have hk : ((st.1.length : Int) - (countSome st.1 : Nat)) = ((countNone st.1 : Nat) : Int) := by omega
  rw [hk] at h
  split at h
  · simp at h
  · simp at h
  · rename_i n picks rest' hs
    obtain ⟨hn, r, hr, _⟩ := sample_perm st.2 (countNone st.1) c s n picks rest' hs
    split at h
    · simp at h
    · rename_i hpos
      simp only [Prod.mk.injEq, AssignRes.ok.injEq] at h
      obtain ⟨⟨hsps, _⟩, hreset⟩ := h
      have hql : ((applyPicks st.2 picks).take n).length ≤ countNone st.1 := by
        rw [length_take]; omega
      have hfa := fill_assigned st.1 ((applyPicks st.2 picks).take n) hql
      have hpl := hperm.length_eq
      rw [length_append, offeredPaths_length] at hpl
      refine ⟨?_, ?_, ?_, ?_, hreset.symm, ?_⟩
      · rw [← hsps, fill_length]; exact hlen
      · refine ⟨r, ?_⟩
        rw [← hsps]
        refine (Perm.append_right r hfa).trans ?_
        rw [append_assoc]
        exact (Perm.append_left _ hr).trans hperm
      · rw [countSome_eq_length_assignedOf, ← hsps, hfa.length_eq, length_append, length_take]
        have := hr.length_eq
        rw [length_append, length_take] at this
        omega
      · rw [countSome_eq_length_assignedOf, ← hsps, hfa.length_eq, length_append, length_take]
        have := hr.length_eq
        rw [length_append, length_take] at this
        omega
      · intro i p hi
        rw [← hsps]; exact fill_keeps _ _ i p hi

/-- the candidate list when client `i`'s turn comes in the first loop -/
def candidatesAt (f : Bool) (cs : List Client) (ps : List Path) (i : Nat) : List Path :=
  (stickyLoop f (cs.take i) ps).2

theorem stickyLoop_get (f : Bool) : ∀ (cs : List Client) (ps : List Path) (i : Nat),
    (stickyLoop f cs ps).1[i]? = cs[i]?.map fun c => (stickyStep f c (candidatesAt f cs ps i)).1
  | [], _, _ => by simp [stickyLoop]
  | c :: cs, ps, 0 => by simp [stickyLoop, candidatesAt]
  | c :: cs, ps, i + 1 => by
    have ih := stickyLoop_get f cs (stickyStep f c ps).2 i
    simp only [stickyLoop, getElem?_cons_succ, candidatesAt, take_succ_cons] at *
    exact ih

theorem stickyLoop_nil (f : Bool) : ∀ (cs : List Client),
    stickyLoop f cs [] = (cs.map fun _ => none, [])
  | [] => rfl
  | c :: cs => by
    have h : stickyStep f c [] = (none, []) := by
      unfold stickyStep; split <;> simp
    simp [stickyLoop, h, stickyLoop_nil f cs]

theorem values_length : ∀ (sps : List (Option Path)) (succ : List (Option Int)),
    sps.length ≤ succ.length → (values sps succ).length = countSome sps
  | [], _, _ => by simp [values, countSome]
  | p :: sps, [], h => by simp at h
  | none :: sps, r :: succ, h => by
    have ih := values_length sps succ (by simpa using h)
    simp [values, countSome] at *; exact ih
  | some p :: sps, r :: succ, h => by
    have ih := values_length sps succ (by simpa using h)
    simp [values, countSome] at *; exact ih

end ScionTime.Multipath
