/-
  Proofs/C18Float.lean — helper lemmas for Props/C18Float.lean (constants, integer casts,
  the pure rational arithmetic of the rounding chains).
-/
import ScionTime.Model.UnixutilFloat
import ScionTime.Proofs.F64
namespace ScionTime.C18Float
open ScionTime.F64 ScionTime.UnixutilFloat

/-! ### constants -/

theorem pow2_53_lit : pow2 53 = 9007199254740992 := by decide
theorem pow2_63_lit : pow2 63 = 9223372036854775808 := by decide
theorem pow2_m10 : pow2 (-10) = 1 / 1024 := by rw [pow2_neg]; congr 1
theorem eta_le : pow2 (-1075) ≤ 1 / 1024 := by
  rw [← pow2_m10]; exact pow2_mono (by decide)
theorem pow2_m37 : pow2 (-37) = 1 / 137438953472 := by rw [pow2_neg]; congr 1

/-- the scale factor `65536.0 * 1e6` is an exact double -/
theorem scaleF_eq : scaleF = .fin 65536000000 := by
  have := ofInt_exact (i := scale) (by decide) (by decide)
  unfold scaleF; rw [this]; unfold scale; simp

theorem intCast_bounds {x : Int} {n : Nat} (h : x.natAbs ≤ n) :
    -((n : Int) : Rat) ≤ (x : Rat) ∧ (x : Rat) ≤ ((n : Int) : Rat) := by
  rw [← Rat.intCast_neg]
  exact ⟨Rat.intCast_le_intCast.2 (by omega), Rat.intCast_le_intCast.2 (by omega)⟩

theorem one_le_abs_intCast {x : Int} (h0 : x ≠ 0) : (1 : Rat) ≤ (x : Rat).abs := by
  by_cases hp : 0 ≤ x
  · rw [Rat.abs_of_nonneg (Rat.intCast_nonneg.2 hp)]
    exact_mod_cast (show (1 : Int) ≤ x by omega)
  · rw [Rat.abs_of_nonpos (Rat.intCast_nonpos.2 (by omega)), ← Rat.intCast_neg]
    exact_mod_cast (show (1 : Int) ≤ -x by omega)

/-- an integer within distance < 1 of `r` is within 1 of `trunc r` -/
theorem trunc_near {r : Rat} {x : Int} (h : (r - (x : Rat)).abs < 1) :
    (trunc r - x).natAbs ≤ 1 := by
  rw [abs_lt_iff] at h
  have h1 := trunc_mono (p := ((x - 1 : Int) : Rat)) (q := r) (by rw [Rat.intCast_sub, Rat.intCast_one]; grind)
  have h2 := trunc_mono (p := r) (q := ((x + 1 : Int) : Rat)) (by rw [Rat.intCast_add, Rat.intCast_one]; grind)
  rw [trunc_intCast] at h1 h2
  omega

/-- pure arithmetic of the two roundings -/
theorem rt_arith {X f r : Rat} (hX1 : -2251799813685248 ≤ X) (hX2 : X ≤ 2251799813685248)
    (e1 : (f - X / 65536000000).abs ≤ (X / 65536000000).abs / 9007199254740992)
    (e2 : (r - f * 65536000000).abs ≤ (f * 65536000000).abs / 9007199254740992 + 1 / 1024) :
    (r - X).abs < 1 ∧ (f * 65536000000).abs ≤ 4503599627370496 := by
  simp only [Rat.abs] at e1 e2 ⊢
  grind

theorem pow2_40_lit : pow2 40 = 1099511627776 := by decide
theorem pow2_m11 : pow2 (-11) = 1 / 2048 := by rw [pow2_neg]; congr 1
theorem pow2_m60 : pow2 (-60) = 1 / 1152921504606846976 := by rw [pow2_neg]; congr 1
theorem eta_le' : pow2 (-1075) ≤ 1 / 1152921504606846976 := by
  rw [← pow2_m60]; exact pow2_mono (by decide)

theorem isFinite_scaleF : isFinite scaleF = true := by rw [scaleF_eq]; rfl
theorem toRat_scaleF : toRat scaleF = 65536000000 := by rw [scaleF_eq]; rfl

theorem natAbs_le_of_bounds {s : Int} {n : Int} (h1 : -(n : Rat) ≤ (s : Rat)) (h2 : (s : Rat) ≤ (n : Rat)) :
    s.natAbs ≤ n.natAbs := by
  rw [← Rat.intCast_neg] at h1
  have := Rat.intCast_le_intCast.1 h1
  have := Rat.intCast_le_intCast.1 h2
  omega

/-- pure arithmetic of freq -> scaled ppm -> freq: `p` exact product, `r` its rounding,
    `S` the truncation, `g` the rounded quotient -/
theorem rtf_arith {p r S g : Rat} (hp : p.abs ≤ 1099511627776)
    (e1 : (r - p).abs ≤ p.abs / 9007199254740992 + 1 / 1152921504606846976)
    (et : (S - r).abs < 1)
    (e2 : (g - S / 65536000000).abs ≤ (S / 65536000000).abs / 9007199254740992 + 1 / 1152921504606846976) :
    (g * 65536000000 - p).abs ≤ 1 + 1 / 2048 := by
  simp only [Rat.abs] at hp e1 et e2 ⊢
  grind

theorem rtf_arith0 {p r S : Rat} (hp : p.abs ≤ 1099511627776)
    (e1 : (r - p).abs ≤ p.abs / 9007199254740992 + 1 / 1152921504606846976)
    (et : (S - r).abs < 1) :
    r.abs ≤ 1099511627777 ∧ S.abs ≤ 1099511627778 := by
  simp only [Rat.abs] at hp e1 et ⊢
  grind

end ScionTime.C18Float
