/-
  Lemmas about Model/ListenerTx.lean: the socket layer (error queue, kernel counter, the
  listener's `txid`) and its composition with the timestamp store.
-/
import ScionTime.Model.ListenerTx
import ScionTime.Proofs.ServerReply
namespace ScionTime.ListenerTx
open ScionTime.Server ScionTime.Time64

/-! ### the error queue -/

theorem arrive_fst_mem : ∀ (l : List (Nat × Stamp)) (x : Stamp), x ∈ (arrive l).1 → ∃ d, (d, x) ∈ l := by
  intro l
  induction l with
  | nil => intro x h; simp [arrive] at h
  | cons p l ih =>
    intro x h
    obtain ⟨d, s⟩ := p
    unfold arrive at h
    simp only at h
    split at h
    · rcases List.mem_cons.1 h with e | h'
      · exact ⟨d, by rw [e]; exact List.mem_cons_self⟩
      · obtain ⟨d', hd⟩ := ih x h'; exact ⟨d', List.mem_cons_of_mem _ hd⟩
    · obtain ⟨d', hd⟩ := ih x h; exact ⟨d', List.mem_cons_of_mem _ hd⟩

theorem arrive_snd_mem : ∀ (l : List (Nat × Stamp)) (p : Nat × Stamp), p ∈ (arrive l).2 → ∃ d, (d, p.2) ∈ l := by
  intro l
  induction l with
  | nil => intro p h; simp [arrive] at h
  | cons q l ih =>
    intro p h
    obtain ⟨d, s⟩ := q
    unfold arrive at h
    simp only at h
    split at h
    · obtain ⟨d', hd⟩ := ih p h; exact ⟨d', List.mem_cons_of_mem _ hd⟩
    · rcases List.mem_cons.1 h with e | h'
      · exact ⟨d, by rw [e]; exact List.mem_cons_self⟩
      · obtain ⟨d', hd⟩ := ih p h'; exact ⟨d', List.mem_cons_of_mem _ hd⟩

/-- the repaired read loop skips every timestamp of an earlier datagram -/
theorem reads_fixed_stale (txid : Nat) : ∀ (q r : List Stamp), (∀ x ∈ q, x.id < txid) →
    reads true txid (q ++ r) =
      ((reads true txid r).1, (reads true txid r).2.1, (reads true txid r).2.2 + q.length) := by
  intro q
  induction q with
  | nil => intro r _; simp
  | cons s q ih =>
    intro r h
    have hs : s.id < txid := h s List.mem_cons_self
    have ih' := ih r (fun x hx => h x (List.mem_cons_of_mem _ hx))
    simp only [List.cons_append, reads, hs, Bool.true_and, decide_true, if_true, ih', List.length_cons]
    simp only [Prod.mk.injEq, true_and]
    omega

theorem reads_own (fixed : Bool) (txid : Nat) (t : Int) :
    reads fixed txid [⟨txid, t⟩] = ((t, txid, .none), [], 1) := by
  simp [reads]

theorem reads_nil (fixed : Bool) (txid : Nat) :
    reads fixed txid [] = ((zeroTime, 0, .notFound), [], 1) := rfl

/-- the number of `ReadTXTimestamp` calls of an iteration is bounded by what is on the queue -/
theorem reads_count_le (fixed : Bool) (txid : Nat) : ∀ q : List Stamp,
    1 ≤ (reads fixed txid q).2.2 ∧ (reads fixed txid q).2.2 ≤ q.length + 1 := by
  intro q
  induction q with
  | nil => simp [reads]
  | cons s q ih =>
    unfold reads
    split
    · simp only [List.length_cons]; omega
    · simp

/-- the old code reads once -/
theorem reads_old_once (txid : Nat) (q : List Stamp) : (reads false txid q).2.2 = 1 := by
  cases q <;> simp [reads]

/-- the single read of one iteration is `ReadTXTimestamp` on the kernel's answer for the head
    of the error queue -/
theorem reads_old_eq_readTX (txid : Nat) (q : List Stamp) :
    readTX (kernelRead q).1 =
      .ret (reads false txid q).1.1 (reads false txid q).1.2.1 (reads false txid q).1.2.2 ∧
    (kernelRead q).2 = (reads false txid q).2.1 := by
  cases q with
  | nil => exact ⟨by simp [kernelRead, reads, readTX, emptyQueue, pollFdsLen], rfl⟩
  | cons s q =>
    simp only [kernelRead, reads, Bool.false_and]
    refine ⟨?_, rfl⟩
    simp [readTX, stampMsg, pollFdsLen]

/-! ### alignment of `txid` with the kernel's counter (repaired code) -/

/-- `txid` is the number of datagrams written on the socket, and every transmit timestamp on
    the error queue or still under way belongs to an earlier datagram -/
structure Aligned (s : LSock) : Prop where
  txid : s.txid = s.sent
  queue : ∀ x ∈ s.queue, x.id < s.sent
  pending : ∀ p ∈ s.pending, p.2.id < s.sent

theorem aligned_init : Aligned LSock.init := ⟨rfl, by simp [LSock.init], by simp [LSock.init]⟩

/-- closed form of write + reads + bookkeeping of the repaired code on an aligned socket -/
theorem sendRead_fixed_eq (sr : Bool) (s : LSock) (al : Aligned s) (txt0 : Int) (kb : KB) :
    sendRead ⟨true, sr, true⟩ s txt0 kb =
      { sock := { txid := s.sent + 1, sent := s.sent + 1, queue := [],
                  pending := (arrive s.pending).2 ++ (match kb with | .late d t => [(d, ⟨s.sent, t⟩)] | _ => []) }
        txt1 := (match kb with | .intime t => t | _ => txt0)
        nreads := s.queue.length + (arrive s.pending).1.length + 1
        dgram := s.sent } := by
  have htx := al.txid
  have hq : ∀ x ∈ s.queue ++ (arrive s.pending).1, x.id < s.sent := by
    intro x hx
    rcases List.mem_append.1 hx with h | h
    · exact al.queue x h
    · obtain ⟨d, hd⟩ := arrive_fst_mem _ x h
      exact al.pending (d, x) hd
  cases kb with
  | intime t =>
    have hr := reads_fixed_stale s.sent (s.queue ++ (arrive s.pending).1) [⟨s.sent, t⟩] hq
    rw [reads_own] at hr
    simp only [sendRead, LSock.send, htx]
    rw [hr]
    simp [decide3, List.length_append]
    omega
  | never =>
    have hr := reads_fixed_stale s.sent (s.queue ++ (arrive s.pending).1) [] hq
    rw [reads_nil] at hr
    simp only [sendRead, LSock.send, htx]
    rw [hr]
    simp [decide3, List.length_append]
    omega
  | late d t =>
    have hr := reads_fixed_stale s.sent (s.queue ++ (arrive s.pending).1) [] hq
    rw [reads_nil] at hr
    simp only [sendRead, LSock.send, htx]
    rw [hr]
    simp [decide3, List.length_append]
    omega

theorem sendRead_fixed (sr : Bool) (s : LSock) (al : Aligned s) (txt0 : Int) (kb : KB) :
    Aligned (sendRead ⟨true, sr, true⟩ s txt0 kb).sock ∧
    (sendRead ⟨true, sr, true⟩ s txt0 kb).sock.sent = s.sent + 1 ∧
    (sendRead ⟨true, sr, true⟩ s txt0 kb).sock.queue = [] ∧
    (sendRead ⟨true, sr, true⟩ s txt0 kb).dgram = s.sent ∧
    (sendRead ⟨true, sr, true⟩ s txt0 kb).txt1 = (match kb with | .intime t => t | _ => txt0) ∧
    (sendRead ⟨true, sr, true⟩ s txt0 kb).nreads = s.queue.length + (arrive s.pending).1.length + 1 := by
  rw [sendRead_fixed_eq sr s al txt0 kb]
  refine ⟨⟨rfl, by simp, ?_⟩, rfl, rfl, rfl, rfl, rfl⟩
  intro p hp
  simp only at hp ⊢
  rcases List.mem_append.1 hp with h | h
  · obtain ⟨d, hd⟩ := arrive_snd_mem _ p h
    have := al.pending (d, p.2) hd
    simp only at this; omega
  · cases kb with
    | late d t => simp only [List.mem_singleton] at h; subst h; simp
    | intime t => simp at h
    | never => simp at h

/-! ### cost of the repaired read loop -/

theorem arrive_length : ∀ l : List (Nat × Stamp), (arrive l).1.length + (arrive l).2.length = l.length := by
  intro l
  induction l with
  | nil => simp [arrive]
  | cons p l ih =>
    obtain ⟨d, s⟩ := p
    unfold arrive
    simp only
    split <;> simp only [List.length_cons] <;> omega

/-- datagrams written one after the other on one socket (any branch of the listener): the socket
    afterwards and the total number of `ReadTXTimestamp` calls -/
def runSock (sr : Bool) : LSock → List KB → LSock × Nat
  | s, [] => (s, 0)
  | s, kb :: kbs =>
    let p := sendRead ⟨true, sr, true⟩ s 0 kb
    let r := runSock sr p.sock kbs
    (r.1, p.nreads + r.2)

theorem runSock_reads (sr : Bool) : ∀ (kbs : List KB) (s : LSock), Aligned s → s.queue = [] →
    (runSock sr s kbs).2 + (runSock sr s kbs).1.pending.length ≤ 2 * kbs.length + s.pending.length := by
  intro kbs
  induction kbs with
  | nil => intro s _ _; simp [runSock]
  | cons kb kbs ih =>
    intro s al hq
    obtain ⟨al', _, hq', _, _, hn⟩ := sendRead_fixed sr s al 0 kb
    have hp : (sendRead ⟨true, sr, true⟩ s 0 kb).sock.pending.length ≤ (arrive s.pending).2.length + 1 := by
      rw [sendRead_fixed_eq sr s al 0 kb]
      cases kb <;> simp
    have := ih _ al' hq'
    have ha := arrive_length s.pending
    simp only [runSock, List.length_cons]
    rw [hn, hq]
    simp only [List.length_nil]
    omega

end ScionTime.ListenerTx
