/-
  Proofs/Provider.lean — invariants of the key provider model (helper lemmas for Props/C12).
-/
import ScionTime.Model.Provider
namespace ScionTime.Provider

/-- Newest first: ids strictly decreasing, generation times non-increasing. -/
def Sorted (keys : List Key) : Prop := keys.Pairwise (fun a b => b.id < a.id ∧ b.nb ≤ a.nb)

/-- What holds of every state reached at (last clock reading) `now`. -/
structure Inv (P : Params) (now : Int) (s : State) : Prop where
  sorted : Sorted s.keys
  head : ∃ k rest, s.keys = k :: rest ∧ k.id = s.currentId ∧ k.nb = s.generatedAt
  wf : ∀ k ∈ s.keys, k.na = k.nb + P.validity ∧ k.nb ≤ now

theorem validAt_iff (k : Key) (t : Int) : k.validAt t = true ↔ k.nb ≤ t ∧ t ≤ k.na := by
  unfold Key.validAt
  simp only [Bool.not_eq_true', Bool.or_eq_false_iff, decide_eq_false_iff_not]
  omega

theorem find_some {keys : List Key} {id : Int} {k : Key} (h : find keys id = some k) :
    k ∈ keys ∧ k.id = id := by
  unfold find at h
  refine ⟨List.mem_of_find?_eq_some h, ?_⟩
  have := List.find?_some h
  simpa using this

theorem sorted_inj {keys : List Key} (hs : Sorted keys) {a b : Key} (ha : a ∈ keys) (hb : b ∈ keys)
    (hid : a.id = b.id) : a = b := by
  induction keys with
  | nil => cases ha
  | cons x xs ih =>
    have hp := List.pairwise_cons.mp hs
    rcases List.mem_cons.mp ha with rfl | ha' <;> rcases List.mem_cons.mp hb with rfl | hb'
    · rfl
    · have := (hp.1 b hb').1; omega
    · have := (hp.1 a ha').1; omega
    · exact ih hp.2 ha' hb'

theorem find_of_mem {keys : List Key} (hs : Sorted keys) {k : Key} (hk : k ∈ keys) :
    find keys k.id = some k := by
  cases h : find keys k.id with
  | none =>
    unfold find at h
    have := List.find?_eq_none.mp h k hk
    simp at this
  | some k' =>
    have := find_some h
    rw [sorted_inj hs this.1 hk this.2]

theorem inv_ids_le {P now s} (h : Inv P now s) : ∀ k ∈ s.keys, k.id ≤ s.currentId := by
  obtain ⟨k0, rest, hk, hid, _⟩ := h.head
  intro k hk'
  have hs := h.sorted
  rw [hk] at hs hk'
  have hp := List.pairwise_cons.mp hs
  rcases List.mem_cons.mp hk' with rfl | hm
  · omega
  · have := (hp.1 k hm).1; omega

theorem inv_mono {P now now' s} (h : Inv P now s) (hle : now ≤ now') : Inv P now' s :=
  ⟨h.sorted, h.head, fun k hk => ⟨(h.wf k hk).1, by have := (h.wf k hk).2; omega⟩⟩

theorem inv_generateNext {P now s t} (h : Inv P now s) (hle : now ≤ t) :
    Inv P t (generateNext P s t) := by
  refine ⟨?_, ⟨_, _, rfl, rfl, rfl⟩, ?_⟩
  · unfold generateNext Sorted
    simp only
    refine List.pairwise_cons.mpr ⟨?_, List.Pairwise.filter _ h.sorted⟩
    intro b hb
    have hb' := (List.mem_filter.mp hb).1
    have := inv_ids_le h b hb'
    have := (h.wf b hb').2
    simp only
    omega
  · intro k hk
    unfold generateNext at hk
    simp only at hk
    rcases List.mem_cons.mp hk with rfl | hm
    · simp
    · have hm' := (List.mem_filter.mp hm).1
      have := h.wf k hm'
      omega

theorem inv_init (P : Params) (t0 : Int) : Inv P t0 (init P t0) := by
  refine ⟨?_, ⟨_, _, rfl, rfl, rfl⟩, ?_⟩
  · simp [init, generateNext, Sorted]
  · intro k hk
    simp [init, generateNext] at hk
    subst hk
    simp

theorem inv_step {P now s} (op : Op) (h : Inv P now s) (h1 : now ≤ op.tIn) (h2 : op.tIn ≤ op.tOut) :
    Inv P op.tOut (step P s op).1 := by
  cases op with
  | current t1 t2 =>
    simp only [Op.tIn, Op.tOut] at h1 h2 ⊢
    simp only [step, current]
    split
    · exact inv_generateNext h (by omega)
    · exact inv_mono h (by omega)
  | get id t =>
    simp only [Op.tIn, Op.tOut] at h1 h2 ⊢
    exact inv_mono h (by omega)

theorem timed_le_end {now : Int} {ops : List Op} (h : Timed now ops) : now ≤ endTime now ops := by
  induction ops generalizing now with
  | nil => exact Int.le_refl _
  | cons op rest ih =>
    obtain ⟨h1, h2, h3⟩ := h
    have := ih h3
    simp only [endTime]
    omega

theorem inv_exec {P now s} (ops : List Op) (h : Inv P now s) (ht : Timed now ops) :
    Inv P (endTime now ops) (exec P s ops) := by
  induction ops generalizing now s with
  | nil => exact h
  | cons op rest ih =>
    obtain ⟨h1, h2, h3⟩ := ht
    exact ih (inv_step op h h1 h2) h3

theorem timed_append {now : Int} {a b : List Op} :
    Timed now (a ++ b) ↔ Timed now a ∧ Timed (endTime now a) b := by
  induction a generalizing now with
  | nil => simp [Timed, endTime]
  | cons op rest ih => simp only [List.cons_append, Timed, endTime, ih, and_assoc]

theorem endTime_append {now : Int} {a b : List Op} :
    endTime now (a ++ b) = endTime (endTime now a) b := by
  induction a generalizing now with
  | nil => rfl
  | cons op rest ih => simp only [List.cons_append, endTime, ih]

theorem exec_append {P s} {a b : List Op} : exec P s (a ++ b) = exec P (exec P s a) b := by
  induction a generalizing s with
  | nil => rfl
  | cons op rest ih => simp only [List.cons_append, exec, ih]

/-- States reachable from `NewProvider()` at `t0` by a history whose last clock reading is `now`. -/
def Reach (P : Params) (t0 now : Int) (s : State) : Prop :=
  ∃ ops, Timed t0 ops ∧ s = exec P (init P t0) ops ∧ now = endTime t0 ops

theorem reach_inv {P t0 now s} (h : Reach P t0 now s) : Inv P now s := by
  obtain ⟨ops, ht, rfl, rfl⟩ := h
  exact inv_exec ops (inv_init P t0) ht

theorem reach_exec {P t0 now s} (h : Reach P t0 now s) {ops : List Op} (ht : Timed now ops) :
    Reach P t0 (endTime now ops) (exec P s ops) := by
  obtain ⟨ops0, ht0, rfl, rfl⟩ := h
  exact ⟨ops0 ++ ops, timed_append.mpr ⟨ht0, ht⟩, exec_append.symm, endTime_append.symm⟩

/-- A step only adds keys with ids above the old `currentID`; `currentID` never decreases. -/
theorem keys_sub_step {P s} (op : Op) :
    s.currentId ≤ (step P s op).1.currentId ∧
    ∀ k ∈ (step P s op).1.keys, k ∈ s.keys ∨ s.currentId < k.id := by
  cases op with
  | get id t => exact ⟨Int.le_refl _, fun k hk => Or.inl hk⟩
  | current t1 t2 =>
    simp only [step, current]
    split
    · refine ⟨by simp only [generateNext]; omega, fun k hk => ?_⟩
      simp only [generateNext] at hk
      rcases List.mem_cons.mp hk with rfl | hm
      · right; simp only; omega
      · left; exact (List.mem_filter.mp hm).1
    · exact ⟨Int.le_refl _, fun k hk => Or.inl hk⟩

theorem keys_sub_exec {P s} (ops : List Op) :
    s.currentId ≤ (exec P s ops).currentId ∧
    ∀ k ∈ (exec P s ops).keys, k ∈ s.keys ∨ s.currentId < k.id := by
  induction ops generalizing s with
  | nil => exact ⟨Int.le_refl _, fun k hk => Or.inl hk⟩
  | cons op rest ih =>
    have h1 := keys_sub_step (P := P) (s := s) op
    have h2 := ih (s := (step P s op).1)
    refine ⟨by simp only [exec]; omega, fun k hk => ?_⟩
    rcases h2.2 k hk with hm | hlt
    · exact h1.2 k hm
    · right; omega

/-- A key valid at the clock reading of a step survives the step. -/
theorem keys_retained_step {P s} (op : Op) {k : Key} (hk : k ∈ s.keys)
    (hv : k.nb ≤ op.tOut ∧ op.tOut ≤ k.na) : k ∈ (step P s op).1.keys := by
  cases op with
  | get id t => exact hk
  | current t1 t2 =>
    simp only [step, current]
    split
    · simp only [generateNext]
      exact List.mem_cons_of_mem _ (List.mem_filter.mpr ⟨hk, (validAt_iff k t2).mpr hv⟩)
    · exact hk

theorem keys_retained_exec {P s now} (ops : List Op) {k : Key} (hk : k ∈ s.keys)
    (ht : Timed now ops) (hnb : k.nb ≤ now) (hna : endTime now ops ≤ k.na) :
    k ∈ (exec P s ops).keys := by
  induction ops generalizing s now with
  | nil => exact hk
  | cons op rest ih =>
    obtain ⟨h1, h2, h3⟩ := ht
    have hle := timed_le_end h3
    simp only [endTime] at hna
    exact ih (keys_retained_step op hk ⟨by omega, by omega⟩) h3 (by omega) hna

/-- The answer of a call is a key of the map after the call. -/
theorem ans_mem {P now s} (h : Inv P now s) (op : Op) (h1 : now ≤ op.tIn) (h2 : op.tIn ≤ op.tOut)
    {k : Key} (ha : (step P s op).2 = some k) : k ∈ (step P s op).1.keys := by
  cases op with
  | get id t =>
    simp only [step, get] at ha ⊢
    split at ha
    · cases ha
    · rename_i k' hf
      split at ha
      · cases ha; exact (find_some hf).1
      · cases ha
  | current t1 t2 =>
    have hi := inv_step (.current t1 t2) h h1 h2
    obtain ⟨k0, rest, hk, hid, _⟩ := hi.head
    have hf := find_of_mem hi.sorted (k := k0) (by rw [hk]; exact List.mem_cons_self)
    simp only [step, current] at ha hi hk hid hf ⊢
    rw [← hid, hf] at ha
    simp only [Option.getD_some, Option.some.injEq] at ha
    subst ha
    rw [hk]; exact List.mem_cons_self

/-- `Current` answers the head of the map: the key with id `currentID`, generated at `generatedAt`. -/
theorem current_key {P now s} (h : Inv P now s) {t1 t2 : Int} (h1 : now ≤ t1) (h2 : t1 ≤ t2) :
    (current P s t1 t2).2 ∈ (current P s t1 t2).1.keys ∧
    (current P s t1 t2).2.id = (current P s t1 t2).1.currentId ∧
    (current P s t1 t2).2.nb = (current P s t1 t2).1.generatedAt := by
  have hi := inv_step (.current t1 t2) h h1 h2
  obtain ⟨k0, rest, hk, hid, hnb⟩ := hi.head
  have hf := find_of_mem hi.sorted (k := k0) (by rw [hk]; exact List.mem_cons_self)
  simp only [step, current] at hi hk hid hf hnb ⊢
  rw [← hid, hf]
  simp only [Option.getD_some]
  exact ⟨by rw [hk]; exact List.mem_cons_self, trivial, hnb⟩

end ScionTime.Provider
