/-
  Proofs/C17Num.lean — floating-point error analysis for the unfiltered path of the
  Ntimed filter (property C17), on top of the `fl` lemmas of Proofs/F64.lean.
  Core Lean only (`grind` for linear arithmetic over `Rat`).
-/
import ScionTime.Model.Filters
import ScionTime.Proofs.F64
import ScionTime.Proofs.C17
namespace ScionTime.Filters
open ScionTime.F64

/-- `2^-1075`, the absolute rounding error below the normal range. -/
def eta : Rat := pow2 (-1075)

theorem eta_pos : 0 < eta := pow2_pos _
theorem eta_small : eta ≤ 1 / 1000000000000000000000000000000000000000000000000000000000000 := by
  unfold eta; decide +kernel

theorem pow2_53_lit : pow2 53 = 9007199254740992 := by decide +kernel

/-- One rounding: for `|q| ≤ Q`, `|rnd q − q| ≤ Q/2^53 + η`. -/
theorem rnd_step {q Q : Rat} (h1 : -Q ≤ q) (h2 : q ≤ Q) :
    -(Q / 9007199254740992 + eta) ≤ rnd q - q ∧ rnd q - q ≤ Q / 9007199254740992 + eta := by
  have h := rnd_err_gen q
  have hq : q.abs ≤ Q := abs_le_iff.2 ⟨h1, h2⟩
  rw [pow2_53_lit] at h
  rw [abs_le_iff] at h
  unfold eta
  grind

/-- Anything below `2^100` in magnitude is far from overflow. -/
theorem le_maxFin_of_le {q : Rat} (h1 : -1267650600228229401496703205376 ≤ q)
    (h2 : q ≤ 1267650600228229401496703205376) : q.abs ≤ maxFin := by
  have h : pow2 100 ≤ maxFin := pow2_le_maxFin (by decide)
  have e : pow2 100 = 1267650600228229401496703205376 := by decide +kernel
  have := abs_le_iff.2 ⟨h1, h2⟩
  grind

theorem tdiv_tmod_facts (d : Int) :
    d = d.tdiv 1000000000 * 1000000000 + d.tmod 1000000000 ∧
    (d.tdiv 1000000000).natAbs * 1000000000 + (d.tmod 1000000000).natAbs = d.natAbs ∧
    (d.tmod 1000000000).natAbs < 1000000000 := by
  rcases Int.le_total 0 d with h | h
  · rw [Int.tdiv_eq_ediv_of_nonneg h, Int.tmod_eq_emod_of_nonneg h]; omega
  · have e : d = -(-d) := by omega
    rw [e, Int.neg_tdiv, Int.neg_tmod, Int.tdiv_eq_ediv_of_nonneg (by omega),
      Int.tmod_eq_emod_of_nonneg (by omega)]
    omega

theorem intCast_abs_bounds (i : Int) :
    -((i.natAbs : Nat) : Rat) ≤ (i : Rat) ∧ (i : Rat) ≤ ((i.natAbs : Nat) : Rat) := by
  have h1 : -((i.natAbs : Nat) : Int) ≤ i := by omega
  have h2 : i ≤ ((i.natAbs : Nat) : Int) := by omega
  have h1' := Rat.intCast_le_intCast.2 h1
  have h2' := Rat.intCast_le_intCast.2 h2
  rw [Rat.intCast_neg, Rat.intCast_natCast] at h1'
  rw [Rat.intCast_natCast] at h2'
  exact ⟨h1', h2'⟩

/-- Pure rational core of `Duration.Seconds()`: `σ` whole seconds, `n` nanoseconds,
    with magnitudes `S`, `N`. -/
theorem durS_rat {σ n S N : Rat} (hs1 : -S ≤ σ) (hs2 : σ ≤ S) (hn1 : -N ≤ n) (hn2 : n ≤ N)
    (hS : S ≤ 9007199254740992) (hN : N ≤ 1000000000) :
    (-1267650600228229401496703205376 ≤ n / 1000000000 ∧ n / 1000000000 ≤ 1267650600228229401496703205376) ∧
    (-1267650600228229401496703205376 ≤ σ + rnd (n / 1000000000) ∧
      σ + rnd (n / 1000000000) ≤ 1267650600228229401496703205376) ∧
    -((S * 1000000000 + N) / 1000000000 * (2000001 / 9007199254740992000000) + 3 * eta)
        ≤ rnd (σ + rnd (n / 1000000000)) - (σ * 1000000000 + n) / 1000000000 ∧
    rnd (σ + rnd (n / 1000000000)) - (σ * 1000000000 + n) / 1000000000
        ≤ (S * 1000000000 + N) / 1000000000 * (2000001 / 9007199254740992000000) + 3 * eta := by
  have he := eta_pos
  have he2 := eta_small
  have eq1 := rnd_step (q := n / 1000000000) (Q := N / 1000000000) (by grind) (by grind)
  have eq2 := rnd_step (q := σ + rnd (n / 1000000000))
    (Q := S + N / 1000000000 * (1 + 1 / 9007199254740992) + eta) (by grind) (by grind)
  refine ⟨⟨by grind, by grind⟩, ⟨by grind, by grind⟩, by grind, by grind⟩

/-- `time.Duration.Seconds()` for `|d| ≤ 2^62` ns: finite, well-formed, and within
    `(2 + 10⁻⁶)·2⁻⁵³·|d| + 3η` (in seconds) of `d/10⁹`. -/
theorem durS_spec (d : Int) (hd : d.natAbs ≤ 2 ^ 62) :
    isFinite (durationSeconds d) = true ∧ WF (durationSeconds d) ∧
    -(((d.natAbs : Nat) : Rat) / 1000000000 * (2000001 / 9007199254740992000000) + 3 * eta)
        ≤ toRat (durationSeconds d) - (d : Rat) / 1000000000 ∧
    toRat (durationSeconds d) - (d : Rat) / 1000000000
        ≤ ((d.natAbs : Nat) : Rat) / 1000000000 * (2000001 / 9007199254740992000000) + 3 * eta := by
  obtain ⟨hdec, habs, hnlt⟩ := tdiv_tmod_facts d
  have hs53 : (d.tdiv 1000000000).natAbs ≤ 2 ^ 53 := by
    have : (2:Nat) ^ 62 = 4611686018427387904 := by decide
    have : (2:Nat) ^ 53 = 9007199254740992 := by decide
    omega
  have hn53 : (d.tmod 1000000000).natAbs ≤ 2 ^ 53 := by
    have : (2:Nat) ^ 53 = 9007199254740992 := by decide
    omega
  -- the three conversions are exact
  have ts := toRat_ofInt_exact hs53
  have fs := isFinite_ofInt_exact hs53
  have tn := toRat_ofInt_exact hn53
  have fn := isFinite_ofInt_exact hn53
  have tg : toRat (ofInt 1000000000) = 1000000000 := by
    rw [toRat_ofInt_exact (by decide)]; simp
  have fg : isFinite (ofInt 1000000000) = true := isFinite_ofInt_exact (by decide)
  -- magnitudes
  have bs := intCast_abs_bounds (d.tdiv 1000000000)
  have bn := intCast_abs_bounds (d.tmod 1000000000)
  have hS : (((d.tdiv 1000000000).natAbs : Nat) : Rat) ≤ 9007199254740992 := by
    have := (Rat.natCast_le_natCast).2 hs53
    have e : (((2:Nat) ^ 53 : Nat) : Rat) = 9007199254740992 := by decide +kernel
    rw [e] at this; exact this
  have hN : (((d.tmod 1000000000).natAbs : Nat) : Rat) ≤ 1000000000 := by
    have := (Rat.natCast_le_natCast).2 (Nat.le_of_lt hnlt)
    have e : ((1000000000 : Nat) : Rat) = 1000000000 := by simp
    rw [e] at this; exact this
  have hA : (((d.tdiv 1000000000).natAbs : Nat) : Rat) * 1000000000
      + (((d.tmod 1000000000).natAbs : Nat) : Rat) = ((d.natAbs : Nat) : Rat) := by
    rw [← habs, Rat.natCast_add, Rat.natCast_mul]; simp
  have hD : ((d.tdiv 1000000000 : Int) : Rat) * 1000000000
      + ((d.tmod 1000000000 : Int) : Rat) = (d : Rat) := by
    have := congrArg (fun i : Int => (i : Rat)) hdec
    simp only [Rat.intCast_add, Rat.intCast_mul] at this
    rw [this]; simp
  obtain ⟨⟨q1, q2⟩, ⟨a1, a2⟩, e1, e2⟩ := durS_rat bs.1 bs.2 bn.1 bn.2 hS hN
  rw [hA, hD] at e1 e2
  -- the quotient nsec / 1e9
  have hq : (toRat (ofInt (d.tmod 1000000000)) / toRat (ofInt 1000000000)).abs ≤ maxFin := by
    rw [tn, tg]; exact le_maxFin_of_le q1 q2
  obtain ⟨fq, tq⟩ := toRat_div fn fg (by rw [tg]; decide) hq
  rw [tn, tg] at tq
  -- the sum sec + quotient
  have hsum : (toRat (ofInt (d.tdiv 1000000000))
      + toRat (div (ofInt (d.tmod 1000000000)) (ofInt 1000000000))).abs ≤ maxFin := by
    rw [ts, tq]; exact le_maxFin_of_le a1 a2
  obtain ⟨fa, ta⟩ := toRat_add (WF_ofInt _) (WF_div _ _) fs fq hsum
  rw [ts, tq] at ta
  refine ⟨fa, WF_add (WF_ofInt _) (WF_div _ _), ?_, ?_⟩
  · show _ ≤ toRat (add (ofInt (d.tdiv 1000000000)) (div (ofInt (d.tmod 1000000000)) (ofInt 1000000000))) - _
    rw [ta]; exact e1
  · show toRat (add (ofInt (d.tdiv 1000000000)) (div (ofInt (d.tmod 1000000000)) (ofInt 1000000000))) - _ ≤ _
    rw [ta]; exact e2

/-- Pure rational core of `Duration((lo + hi) / 2)`: `lo`, `hi` approximate `α`, `β` (seconds,
    magnitudes `A`, `B ≤ 2^33`) as `durS_spec` says; then the product `p` that is truncated
    to nanoseconds is within `3·2⁻⁵³·(A+B)·10⁹ + 10⁻³` of `(α+β)/2·10⁹`. -/
theorem mid_rat {lo hi α β A B : Rat}
    (ha1 : -A ≤ α) (ha2 : α ≤ A) (hb1 : -B ≤ β) (hb2 : β ≤ B)
    (hA : A ≤ 8589934592) (hB : B ≤ 8589934592)
    (hl1 : -(A * (2000001 / 9007199254740992000000) + 3 * eta) ≤ lo - α)
    (hl2 : lo - α ≤ A * (2000001 / 9007199254740992000000) + 3 * eta)
    (hh1 : -(B * (2000001 / 9007199254740992000000) + 3 * eta) ≤ hi - β)
    (hh2 : hi - β ≤ B * (2000001 / 9007199254740992000000) + 3 * eta) :
    (-1267650600228229401496703205376 ≤ lo + hi ∧ lo + hi ≤ 1267650600228229401496703205376) ∧
    (-1267650600228229401496703205376 ≤ rnd (lo + hi) / 2 ∧
      rnd (lo + hi) / 2 ≤ 1267650600228229401496703205376) ∧
    (-1267650600228229401496703205376 ≤ rnd (rnd (lo + hi) / 2) * 1000000000 ∧
      rnd (rnd (lo + hi) / 2) * 1000000000 ≤ 1267650600228229401496703205376) ∧
    -((A + B) * 1000000000 * (3 / 9007199254740992) + 1 / 1000)
      ≤ rnd (rnd (rnd (lo + hi) / 2) * 1000000000) - (α + β) / 2 * 1000000000 ∧
    rnd (rnd (rnd (lo + hi) / 2) * 1000000000) - (α + β) / 2 * 1000000000
      ≤ (A + B) * 1000000000 * (3 / 9007199254740992) + 1 / 1000 := by
  have he := eta_pos
  have he2 := eta_small
  have e1 := rnd_step (q := lo + hi)
    (Q := (A + B) * (1 + 2000001 / 9007199254740992000000) + 6 * eta) (by grind) (by grind)
  have e2 := rnd_step (q := rnd (lo + hi) / 2)
    (Q := (A + B) * (1 + 4000000 / 9007199254740992000000) / 2 + 4 * eta) (by grind) (by grind)
  have e3 := rnd_step (q := rnd (rnd (lo + hi) / 2) * 1000000000)
    (Q := ((A + B) * (1 + 5000000 / 9007199254740992000000) / 2 + 6 * eta) * 1000000000)
    (by grind) (by grind)
  refine ⟨⟨by grind, by grind⟩, ⟨by grind, by grind⟩, ⟨by grind, by grind⟩, by grind, by grind⟩

theorem c2_eq : c2 = .fin 2 := by decide +kernel
theorem pow2_63_lit : pow2 63 = 9223372036854775808 := by decide +kernel

/-- scaling helpers (pure `Rat`) -/
theorem sec_bounds {v V : Rat} (h1 : -V ≤ v) (h2 : v ≤ V) (hV : V ≤ 4611686018427387904) :
    -(V / 1000000000) ≤ v / 1000000000 ∧ v / 1000000000 ≤ V / 1000000000 ∧
    V / 1000000000 ≤ 8589934592 := by
  refine ⟨by grind, by grind, by grind⟩

/-- From the rational error bound to the integer statement (pure arithmetic). -/
theorem final_rat {p P raw a b An Bn : Rat}
    (hp1 : -((An / 1000000000 + Bn / 1000000000) * 1000000000 * (3 / 9007199254740992) + 1 / 1000)
      ≤ p - (a / 1000000000 + b / 1000000000) / 2 * 1000000000)
    (hp2 : p - (a / 1000000000 + b / 1000000000) / 2 * 1000000000
      ≤ (An / 1000000000 + Bn / 1000000000) * 1000000000 * (3 / 9007199254740992) + 1 / 1000)
    (ht1 : -1 < P - p) (ht2 : P - p < 1)
    (hr1 : -1 ≤ 2 * raw + (a + b)) (hr2 : 2 * raw + (a + b) ≤ 1)
    (ha1 : -An ≤ a) (ha2 : a ≤ An) (hb1 : -Bn ≤ b) (hb2 : b ≤ Bn)
    (hA : An ≤ 4611686018427387904) (hB : Bn ≤ 4611686018427387904) :
    (-9223372036854775808 - 1 < p ∧ p < 9223372036854775808) ∧
    (-9223372036854775808 < P ∧ P < 9223372036854775808) ∧
    (-P - raw) * 9007199254740992 < 14636698788954112 + 3 * (An + Bn) ∧
    -(14636698788954112 + 3 * (An + Bn)) < (-P - raw) * 9007199254740992 := by
  refine ⟨⟨by grind, by grind⟩, ⟨by grind, by grind⟩, by grind, by grind⟩

/-- `Inv(Duration((lo + hi) / 2))` against `ntp.ClockOffset`, for legs below `2^62` ns. -/
theorem ntimed_num (x : Sample)
    (ha1 : -4611686018427387904 < x.cTx - x.sRx) (ha2 : x.cTx - x.sRx < 4611686018427387904)
    (hb1 : -4611686018427387904 < x.cRx - x.sTx) (hb2 : x.cRx - x.sTx < 4611686018427387904) :
    -(1125899906842624 + (((x.cTx - x.sRx).natAbs : Int) + ((x.cRx - x.sTx).natAbs : Int)))
      ≤ 1125899906842624 * (inv64 (toDuration (ntimedMid x)) - (clockOffset x.cTx x.sRx x.sTx x.cRx).toInt) ∧
    1125899906842624 * (inv64 (toDuration (ntimedMid x)) - (clockOffset x.cTx x.sRx x.sTx x.cRx).toInt)
      ≤ 1125899906842624 + (((x.cTx - x.sRx).natAbs : Int) + ((x.cRx - x.sTx).natAbs : Int)) := by
  -- the integer side
  have hlo : (timeSub x.cTx x.sRx).toInt = x.cTx - x.sRx :=
    timeSub_toInt _ _ (by unfold minI64; omega) (by unfold maxI64; omega)
  have hhi : (timeSub x.cRx x.sTx).toInt = x.cRx - x.sTx :=
    timeSub_toInt _ _ (by unfold minI64; omega) (by unfold maxI64; omega)
  have hraw := clockOffset_toInt x.cTx x.sRx x.sTx x.cRx (by omega) (by omega) (by omega) (by omega)
  generalize hra : (clockOffset x.cTx x.sRx x.sTx x.cRx).toInt = raw at *
  unfold ntimedMid ntimedLo ntimedHi toDuration
  rw [hlo, hhi]
  generalize hda : x.cTx - x.sRx = a at *
  generalize hdb : x.cRx - x.sTx = b at *
  have hrawab : -1 ≤ 2 * raw + (a + b) ∧ 2 * raw + (a + b) ≤ 1 := by
    have e : x.sRx - x.cTx + (x.sTx - x.cRx) = -(a + b) := by omega
    rw [e] at hraw
    rcases Int.le_total 0 (a + b) with h | h
    · rw [Int.neg_tdiv, Int.tdiv_eq_ediv_of_nonneg h] at hraw; omega
    · rw [Int.tdiv_eq_ediv_of_nonneg (by omega)] at hraw; omega
  have hna : a.natAbs ≤ 2 ^ 62 := by
    have : (2:Nat) ^ 62 = 4611686018427387904 := by decide
    omega
  have hnb : b.natAbs ≤ 2 ^ 62 := by
    have : (2:Nat) ^ 62 = 4611686018427387904 := by decide
    omega
  obtain ⟨fl, wl, l1, l2⟩ := durS_spec a hna
  obtain ⟨fh, wh, h1, h2⟩ := durS_spec b hnb
  have ba := intCast_abs_bounds a
  have bb := intCast_abs_bounds b
  have hAn : ((a.natAbs : Nat) : Rat) ≤ 4611686018427387904 := by
    have := (Rat.natCast_le_natCast).2 hna
    have e : (((2:Nat) ^ 62 : Nat) : Rat) = 4611686018427387904 := by decide +kernel
    rw [e] at this; exact this
  have hBn : ((b.natAbs : Nat) : Rat) ≤ 4611686018427387904 := by
    have := (Rat.natCast_le_natCast).2 hnb
    have e : (((2:Nat) ^ 62 : Nat) : Rat) = 4611686018427387904 := by decide +kernel
    rw [e] at this; exact this
  obtain ⟨sa1, sa2, sa3⟩ := sec_bounds ba.1 ba.2 hAn
  obtain ⟨sb1, sb2, sb3⟩ := sec_bounds bb.1 bb.2 hBn
  obtain ⟨⟨m1, m2⟩, ⟨m3, m4⟩, ⟨m5, m6⟩, e1, e2⟩ := mid_rat sa1 sa2 sb1 sb2 sa3 sb3 l1 l2 h1 h2
  -- lo + hi
  obtain ⟨fs, ts⟩ := toRat_add wl wh fl fh (le_maxFin_of_le m1 m2)
  -- / 2
  have t2 : toRat c2 = 2 := by rw [c2_eq]; rfl
  have f2 : isFinite c2 = true := by rw [c2_eq]; rfl
  obtain ⟨fm, tm⟩ := toRat_div fs f2 (by rw [t2]; decide) (by rw [ts, t2]; exact le_maxFin_of_le m3 m4)
  rw [ts, t2] at tm
  -- * 1e9
  have tg : toRat (ofInt 1000000000) = 1000000000 := by
    rw [toRat_ofInt_exact (by decide)]; simp
  have fg : isFinite (ofInt 1000000000) = true := isFinite_ofInt_exact (by decide)
  obtain ⟨fp, tp⟩ := toRat_mul fm fg (by rw [tm, tg]; exact le_maxFin_of_le m5 m6)
  rw [tm, tg] at tp
  -- truncation
  have hraw1 : ((-1 : Int) : Rat) ≤ ((2 * raw + (a + b) : Int) : Rat) := Rat.intCast_le_intCast.2 hrawab.1
  have hraw2 : ((2 * raw + (a + b) : Int) : Rat) ≤ ((1 : Int) : Rat) := Rat.intCast_le_intCast.2 hrawab.2
  simp only [Rat.intCast_add, Rat.intCast_mul] at hraw1 hraw2
  have c1 : ((-1 : Int) : Rat) = -1 := by decide +kernel
  have c2' : ((2 : Int) : Rat) = 2 := by decide +kernel
  have c3' : ((1 : Int) : Rat) = 1 := by decide +kernel
  rw [c1, c2'] at hraw1
  rw [c3', c2'] at hraw2
  have htr := trunc_err (rnd (rnd (rnd (toRat (durationSeconds a) + toRat (durationSeconds b)) / 2) * 1000000000))
  rw [abs_lt_iff] at htr
  obtain ⟨⟨p1, p2⟩, ⟨P1, P2⟩, D1, D2⟩ := final_rat e1 e2 htr.1 htr.2 hraw1 hraw2 ba.1 ba.2 bb.1 bb.2 hAn hBn
  have htrunc := toInt64_eq_trunc fp (by rw [tp, pow2_63_lit]; exact p1) (by rw [tp, pow2_63_lit]; exact p2)
  rw [tp] at htrunc
  rw [htrunc]
  generalize trunc (rnd (rnd (rnd (toRat (durationSeconds a) + toRat (durationSeconds b)) / 2) * 1000000000)) = P at *
  -- back to the integers
  have hP1 : (-9223372036854775808 : Int) < P := by
    apply Rat.intCast_lt_intCast.1
    have : ((-9223372036854775808 : Int) : Rat) = -9223372036854775808 := by decide +kernel
    rw [this]; exact P1
  have hinv : inv64 P = -P := by
    unfold inv64 minI64; rw [if_neg (by omega)]
  rw [hinv]
  have hD1 : (-P - raw) * 9007199254740992 < 14636698788954112 + 3 * (((a.natAbs : Nat) : Int) + ((b.natAbs : Nat) : Int)) := by
    apply Rat.intCast_lt_intCast.1
    simp only [Rat.intCast_add, Rat.intCast_mul, Rat.intCast_sub, Rat.intCast_neg, Rat.intCast_natCast]
    have k1 : ((9007199254740992 : Int) : Rat) = 9007199254740992 := by decide +kernel
    have k2 : ((14636698788954112 : Int) : Rat) = 14636698788954112 := by decide +kernel
    have k3 : ((3 : Int) : Rat) = 3 := by decide +kernel
    rw [k1, k2, k3]; exact D1
  have hD2 : -(14636698788954112 + 3 * (((a.natAbs : Nat) : Int) + ((b.natAbs : Nat) : Int))) < (-P - raw) * 9007199254740992 := by
    apply Rat.intCast_lt_intCast.1
    simp only [Rat.intCast_add, Rat.intCast_mul, Rat.intCast_sub, Rat.intCast_neg, Rat.intCast_natCast]
    have k1 : ((9007199254740992 : Int) : Rat) = 9007199254740992 := by decide +kernel
    have k2 : ((14636698788954112 : Int) : Rat) = 14636698788954112 := by decide +kernel
    have k3 : ((3 : Int) : Rat) = 3 := by decide +kernel
    rw [k1, k2, k3]; exact D2
  constructor <;> omega

end ScionTime.Filters
