/-
  Proofs/Collect.lean — step relation and invariants of the collection transition system
  (helper lemmas for Props/C16).
-/
import ScionTime.Model.Collect
namespace ScionTime.Collect

/-- `step` in relational form: one constructor per enabled step, with its enabling conditions. -/
inductive Step : St → St → Prop
  | finish (s : St) (x : Sender) (hx : x ∈ s.measuring) (hd : x.due ≤ s.now) :
      Step s { s with measuring := s.measuring.erase x, sending := s.sending ++ [{ id := x.id, ok := x.ok }] }
  | abort (s : St) (x : Sender) (hx : x ∈ s.measuring) (ha : x.aware = true) (hc : s.ctxDone = true) :
      Step s { s with measuring := s.measuring.erase x, sending := s.sending ++ [{ id := x.id, ok := false }] }
  | cancel (s : St) (hc : s.ctxDone = false) (hd : s.deadline = s.now) :
      Step s { s with ctxDone := true }
  | recv (s : St) (m : Msg) (hp : s.phase = .loop) (hm : m ∈ s.sending) (hi : s.i ≠ s.n) :
      Step s (collectorRecv { s with sending := s.sending.erase m } m)
  | observeCancel (s : St) (hp : s.phase = .loop) (hi : s.i ≠ s.n) (hc : s.ctxDone = true) :
      Step s { s with phase := .done (s.n - s.i), retAt := s.now }
  | retFull (s : St) (hp : s.phase = .loop) (hi : s.i = s.n) :
      Step s { s with phase := .done (s.n - s.i), retAt := s.now }
  | drain (s : St) (m : Msg) (left : Nat) (hp : s.phase = .done left) (hm : m ∈ s.sending) (hl : left ≠ 0) :
      Step s { s with sending := s.sending.erase m, phase := .done (left - 1), drained := s.drained ++ [m] }
  | tick (s : St) (t : Int) (hb : busy s = false) (hlt : s.now < t) (hmem : t ∈ timers s)
      (hall : ∀ u ∈ timers s, t ≤ u) :
      Step s { s with now := t }

theorem step_sound {s s' : St} {c : Choice} (h : step s c = some s') : Step s s' := by
  cases c with
  | finish id =>
    simp only [step] at h
    split at h
    · rename_i x hf
      split at h
      · rename_i hd
        cases h
        exact Step.finish s x (List.mem_of_find?_eq_some hf) hd
      · cases h
    · cases h
  | abort id =>
    simp only [step] at h
    split at h
    · rename_i x hf
      split at h
      · rename_i hd
        cases h
        exact Step.abort s x (List.mem_of_find?_eq_some hf) hd.1 hd.2
      · cases h
    · cases h
  | cancel =>
    simp only [step] at h
    split at h
    · rename_i hd
      cases h
      exact Step.cancel s (by simpa using hd.1) hd.2
    · cases h
  | recv id =>
    cases hp : s.phase with
    | done left => simp [step, hp] at h
    | loop =>
      cases hf : findMsg s.sending id with
      | none => simp [step, hp, hf] at h
      | some m =>
        simp only [step, hp, hf] at h
        split at h
        · rename_i hi
          cases h
          have e := Step.recv s m hp (List.mem_of_find?_eq_some hf) hi
          rw [hp] at e
          exact e
        · cases h
  | observeCancel =>
    simp only [step] at h
    split at h
    · rename_i hp
      split at h
      · rename_i hc
        cases h
        exact Step.observeCancel s hp hc.1 hc.2
      · cases h
    · cases h
  | retFull =>
    simp only [step] at h
    split at h
    · rename_i hp
      split at h
      · rename_i hc
        cases h
        exact Step.retFull s hp hc
      · cases h
    · cases h
  | drain id =>
    cases hp : s.phase with
    | loop => simp [step, hp] at h
    | done left =>
      cases hf : findMsg s.sending id with
      | none => simp [step, hp, hf] at h
      | some m =>
        simp only [step, hp, hf] at h
        split at h
        · rename_i hl
          cases h
          have e := Step.drain s m left hp (List.mem_of_find?_eq_some hf) hl
          exact e
        · cases h
  | tick t =>
    simp only [step] at h
    split at h
    · rename_i hc
      cases h
      refine Step.tick s t (by simpa using hc.1) hc.2.1 hc.2.2.1 ?_
      intro u hu
      have := List.all_eq_true.mp hc.2.2.2 u hu
      simpa using this
    · cases h

/-- reflexive-transitive closure -/
inductive Reach : St → St → Prop
  | refl (s : St) : Reach s s
  | tail {s s' s'' : St} : Reach s s' → Step s' s'' → Reach s s''

theorem reach_head {s s' s'' : St} (h1 : Step s s') (h2 : Reach s' s'') : Reach s s'' := by
  induction h2 with
  | refl => exact Reach.tail (Reach.refl _) h1
  | tail _ hs ih => exact Reach.tail ih hs

theorem run_reach {s s' : St} {sched : List Choice} (h : run s sched = some s') : Reach s s' := by
  induction sched generalizing s with
  | nil => simp only [run, Option.some.injEq] at h; subst h; exact Reach.refl _
  | cons c rest ih =>
    simp only [run] at h
    split at h
    · rename_i s1 hs
      exact reach_head (step_sound hs) (ih h)
    · cases h

/-! ### list lemmas -/

theorem take_set_succ {α} (l : List α) (j : Nat) (a : α) (h : j < l.length) :
    (l.set j a).take (j + 1) = l.take j ++ [a] := by
  induction l generalizing j with
  | nil => simp at h
  | cons x xs ih =>
    cases j with
    | zero => simp
    | succ j =>
      simp only [List.set_cons_succ, List.take_succ_cons, List.cons_append, List.cons.injEq, true_and]
      exact ih j (by simpa using h)

theorem drop_set_succ {α} (l : List α) (j : Nat) (a : α) :
    (l.set j a).drop (j + 1) = l.drop (j + 1) := by
  induction l generalizing j with
  | nil => simp
  | cons x xs ih =>
    cases j with
    | zero => simp
    | succ j => simp only [List.set_cons_succ, List.drop_succ_cons]; exact ih j

theorem drop_succ_of_drop_eq {α} {l l0 : List α} {j : Nat} (h : l.drop j = l0.drop j) :
    l.drop (j + 1) = l0.drop (j + 1) := by
  have := congrArg (List.drop 1) h
  simpa [List.drop_drop, Nat.add_comm] using this

/-! ### invariants -/

/-- the collector's view: counters, result slice, ghost log -/
structure SliceInv (ms0 : List Msg) (s : St) : Prop where
  len : s.ms.length = s.n
  len0 : ms0.length = s.n
  iEq : s.i = s.received.length
  jEq : s.j = (s.received.filter (·.ok)).length
  iLe : s.i ≤ s.n
  front : s.ms.take s.j = s.received.filter (·.ok)
  tail : s.ms.drop s.j = ms0.drop s.j

theorem SliceInv.jLe {ms0 s} (h : SliceInv ms0 s) : s.j ≤ s.i := by
  rw [h.jEq, h.iEq]; exact List.length_filter_le _ _

theorem collectorRecv_phase (s : St) (m : Msg) : (collectorRecv s m).phase = s.phase := by
  by_cases hok : m.ok = true <;> by_cases hj : s.j ≠ s.ms.length <;> simp [collectorRecv, hok, hj]

theorem sliceInv_recv {ms0 s} (h : SliceInv ms0 s) (m : Msg) (l : List Msg) (hi : s.i ≠ s.n) :
    SliceInv ms0 (collectorRecv { s with sending := l } m) := by
  have hj : s.j < s.ms.length := by have := h.jLe; have := h.iLe; have := h.len; omega
  unfold collectorRecv
  cases hok : m.ok
  · simp only [Bool.false_eq_true, if_false]
    exact { len := h.len, len0 := h.len0,
            iEq := by simp [h.iEq],
            jEq := by simp [List.filter_append, hok, h.jEq],
            iLe := by have := h.iLe; simp only; omega,
            front := by simp [List.filter_append, hok, h.front],
            tail := h.tail }
  · have hne : s.j ≠ s.ms.length := by omega
    simp only [if_true, hne, ne_eq, not_false_eq_true]
    exact { len := by simp [h.len], len0 := h.len0,
            iEq := by simp [h.iEq],
            jEq := by simp [List.filter_append, hok, h.jEq],
            iLe := by have := h.iLe; simp only; omega,
            front := by
              simp only [List.filter_append, List.filter_cons, hok, if_true, List.filter_nil]
              rw [take_set_succ _ _ _ hj, h.front],
            tail := by
              simp only
              rw [drop_set_succ]
              exact drop_succ_of_drop_eq h.tail }

theorem sliceInv_step {ms0 s s'} (h : SliceInv ms0 s) (hs : Step s s') : SliceInv ms0 s' := by
  cases hs with
  | recv m hp hm hi => exact sliceInv_recv h m _ hi
  | finish | abort | cancel | observeCancel | retFull | drain | tick =>
    exact ⟨h.len, h.len0, h.iEq, h.jEq, h.iLe, h.front, h.tail⟩

/-- conservation: every sender is in exactly one place -/
def allIds (s : St) : List Nat :=
  s.received.map (·.id) ++ s.drained.map (·.id) ++ s.sending.map (·.id) ++ s.measuring.map (·.id)

theorem collectorRecv_lists (s : St) (m : Msg) :
    (collectorRecv s m).received = s.received ++ [m] ∧ (collectorRecv s m).drained = s.drained ∧
    (collectorRecv s m).sending = s.sending ∧ (collectorRecv s m).measuring = s.measuring ∧
    (collectorRecv s m).n = s.n ∧ (collectorRecv s m).now = s.now ∧
    (collectorRecv s m).deadline = s.deadline ∧ (collectorRecv s m).retAt = s.retAt ∧
    (collectorRecv s m).ctxDone = s.ctxDone := by
  by_cases hok : m.ok = true <;> by_cases hj : s.j ≠ s.ms.length <;> simp [collectorRecv, hok, hj]

theorem perm_of_mem_map {α β} [DecidableEq α] (f : α → β) {x : α} {l : List α} (hx : x ∈ l) :
    (l.map f).Perm (f x :: (l.erase x).map f) := by
  have := (List.perm_cons_erase hx).map f
  simpa using this

theorem allIds_step {ids : List Nat} {s s'} (h : (allIds s).Perm ids) (hs : Step s s') :
    (allIds s').Perm ids := by
  refine List.Perm.trans ?_ h
  cases hs with
  | cancel | observeCancel | retFull | tick => exact List.Perm.refl _
  | finish x hx hd =>
    have hp := perm_of_mem_map (·.id) hx
    simp only [allIds, List.map_append, List.map_cons, List.map_nil, List.append_assoc,
      List.singleton_append]
    exact List.Perm.append_left _ (List.Perm.append_left _ (List.Perm.append_left _ hp.symm))
  | abort x hx ha hc =>
    have hp := perm_of_mem_map (·.id) hx
    simp only [allIds, List.map_append, List.map_cons, List.map_nil, List.append_assoc,
      List.singleton_append]
    exact List.Perm.append_left _ (List.Perm.append_left _ (List.Perm.append_left _ hp.symm))
  | recv m hp hm hi =>
    have hl := collectorRecv_lists { s with sending := s.sending.erase m } m
    have hp' := perm_of_mem_map (·.id) hm
    simp only [allIds, hl.1, hl.2.1, hl.2.2.1, hl.2.2.2.1, List.map_append, List.map_cons,
      List.map_nil, List.append_assoc, List.singleton_append]
    refine List.Perm.append_left _ ?_
    refine List.Perm.trans List.perm_middle.symm ?_
    refine List.Perm.append_left _ ?_
    rw [← List.cons_append]
    exact List.Perm.append_right _ hp'.symm
  | drain m left hp hm hl =>
    have hp' := perm_of_mem_map (·.id) hm
    simp only [allIds, List.map_append, List.map_cons, List.map_nil, List.append_assoc,
      List.singleton_append]
    refine List.Perm.append_left _ (List.Perm.append_left _ ?_)
    exact List.Perm.append_right _ hp'.symm

/-- the drain goroutine's counter -/
structure DrainInv (s : St) : Prop where
  cnt : ∀ left, s.phase = .done left → left + s.drained.length + s.received.length = s.n
  loopDr : s.phase = .loop → s.drained = []

theorem drainInv_step {ms0 s s'} (hsl : SliceInv ms0 s) (h : DrainInv s) (hs : Step s s') :
    DrainInv s' := by
  cases hs with
  | finish | abort | cancel | tick => exact ⟨h.cnt, h.loopDr⟩
  | recv m hp hm hi =>
    have hl := collectorRecv_lists { s with sending := s.sending.erase m } m
    have hph := collectorRecv_phase { s with sending := s.sending.erase m } m
    refine ⟨fun left hd => ?_, fun _ => ?_⟩
    · rw [hph] at hd; simp only at hd; rw [hp] at hd; cases hd
    · rw [hl.2.1]; exact h.loopDr hp
  | observeCancel hp hi hc =>
    refine ⟨fun left hd => ?_, fun hl => by cases hl⟩
    simp only [Phase.done.injEq] at hd
    have := h.loopDr hp; have := hsl.iEq; have := hsl.iLe
    simp only [*, List.length_nil] at *
    omega
  | retFull hp hi =>
    refine ⟨fun left hd => ?_, fun hl => by cases hl⟩
    simp only [Phase.done.injEq] at hd
    have := h.loopDr hp; have := hsl.iEq; have := hsl.iLe
    simp only [*, List.length_nil] at *
    omega
  | drain m left hp hm hl =>
    refine ⟨fun left' hd => ?_, fun hl => by cases hl⟩
    simp only [Phase.done.injEq] at hd
    have := h.cnt left hp
    simp only [List.length_append, List.length_singleton]
    omega

/-- virtual time: the collector is never in its loop later than the deadline -/
structure TimeInv (t0 d : Int) (s : St) : Prop where
  dl : s.deadline = d
  inLoop : s.phase = .loop → s.now ≤ max d t0
  ret : ∀ left, s.phase = .done left → s.retAt ≤ max d t0

theorem timeInv_step {t0 d s s'} (h : TimeInv t0 d s) (hs : Step s s') : TimeInv t0 d s' := by
  cases hs with
  | finish | abort | cancel => exact ⟨h.dl, h.inLoop, h.ret⟩
  | recv m hp hm hi =>
    have hl := collectorRecv_lists { s with sending := s.sending.erase m } m
    have hph := collectorRecv_phase { s with sending := s.sending.erase m } m
    refine ⟨by rw [hl.2.2.2.2.2.2.1]; exact h.dl, fun _ => by rw [hl.2.2.2.2.2.1]; exact h.inLoop hp,
      fun left hd => ?_⟩
    rw [hph] at hd; simp only at hd; rw [hp] at hd; cases hd
  | observeCancel hp hi hc => exact ⟨h.dl, (fun hl => by cases hl), fun _ _ => h.inLoop hp⟩
  | retFull hp hi => exact ⟨h.dl, (fun hl => by cases hl), fun _ _ => h.inLoop hp⟩
  | drain m left hp hm hl => exact ⟨h.dl, (fun hl => by cases hl), fun _ _ => h.ret left hp⟩
  | tick t hb hlt hmem hall =>
    refine ⟨h.dl, fun hp => ?_, h.ret⟩
    simp only at hp ⊢
    -- the collector is in its loop and nothing can run: the context is not yet cancelled,
    -- so its deadline is a pending timer and `t` cannot be later
    have hnd : s.ctxDone = false := by
      cases hc : s.ctxDone with
      | false => rfl
      | true => simp [busy, hp, hc] at hb
    have hmemd : s.deadline ∈ timers s := by simp [timers, hnd]
    have := hall _ hmemd
    have := h.dl
    omega

/-- all invariants together -/
structure Inv (t0 d : Int) (ms0 : List Msg) (ids : List Nat) (s : St) : Prop where
  slice : SliceInv ms0 s
  cons : (allIds s).Perm ids
  drain : DrainInv s
  time : TimeInv t0 d s
  nIds : ids.length = s.n

theorem step_n {s s'} (hs : Step s s') : s'.n = s.n := by
  cases hs with
  | recv m hp hm hi => exact (collectorRecv_lists _ m).2.2.2.2.1
  | finish | abort | cancel | observeCancel | retFull | drain | tick => rfl

theorem inv_step {t0 d ms0 ids s s'} (h : Inv t0 d ms0 ids s) (hs : Step s s') : Inv t0 d ms0 ids s' :=
  ⟨sliceInv_step h.slice hs, allIds_step h.cons hs, drainInv_step h.slice h.drain hs,
   timeInv_step h.time hs, by rw [step_n hs]; exact h.nIds⟩

theorem inv_init (t0 d : Int) (senders : List Sender) (ms0 : List Msg)
    (hlen : ms0.length = senders.length) :
    Inv t0 d ms0 (senders.map (·.id)) (init t0 d senders ms0) := by
  refine ⟨⟨rfl, rfl, rfl, rfl, Nat.zero_le _, rfl, rfl⟩, by simp [allIds, init],
    ⟨(fun left hd => by cases hd), fun _ => rfl⟩,
    ⟨rfl, fun _ => by simp only [init]; omega, fun left hd => by cases hd⟩, by simp [init, hlen]⟩

theorem inv_reach {t0 d ms0 ids s s'} (h : Inv t0 d ms0 ids s) (hr : Reach s s') : Inv t0 d ms0 ids s' := by
  induction hr with
  | refl => exact h
  | tail _ hs ih => exact inv_step ih hs

/-- lengths: received + drained + sending + measuring = n -/
theorem inv_count {t0 d ms0 ids s} (h : Inv t0 d ms0 ids s) :
    s.received.length + s.drained.length + s.sending.length + s.measuring.length = s.n := by
  have := h.cons.length_eq
  simp only [allIds, List.length_append, List.length_map] at this
  rw [← h.nIds]; omega

end ScionTime.Collect
