/-
  Joint uniformity of the ideal reservoir (Algorithm R): every k-subset of the n items is
  produced by the same number, (n-k)!, of draw vectors. Helper lemmas and the induction.
-/
import ScionTime.Proofs.Sample
namespace ScionTime.Sample
open List

def fact : Nat → Nat
  | 0 => 1
  | m + 1 => (m + 1) * fact m

/-! ### list facts -/

/-- a duplicate-free list contained in another is a sub-multiset of it -/
theorem exists_perm_append_of_subset : ∀ (A B : List Nat), A.Nodup → A ⊆ B → ∃ rest, B ~ A ++ rest
  | [], B, _, _ => ⟨B, by simp⟩
  | a :: A, B, hn, hs => by
    have ha : a ∈ B := hs (by simp)
    have hn' := nodup_cons.mp hn
    have hsub : A ⊆ B.erase a := by
      intro x hx
      have hxa : x ≠ a := fun h => hn'.1 (h ▸ hx)
      exact (mem_erase_of_ne hxa).mpr (hs (by simp [hx]))
    obtain ⟨rest, hr⟩ := exists_perm_append_of_subset A (B.erase a) hn'.2 hsub
    exact ⟨rest, (perm_cons_erase ha).trans (by simpa using Perm.cons a hr)⟩

/-- pigeonhole: a duplicate-free list contained in a list that is not longer is a
    permutation of it -/
theorem perm_of_subset_of_length_le (A B : List Nat) (hn : A.Nodup) (hs : A ⊆ B) (hl : B.length ≤ A.length) :
    B ~ A := by
  obtain ⟨rest, hr⟩ := exists_perm_append_of_subset A B hn hs
  have := hr.length_eq
  rw [length_append] at this
  have : rest = [] := by
    cases rest with
    | nil => rfl
    | cons x xs => simp at this; omega
  subst this
  simpa using hr

theorem perm_eraseIdx : ∀ (l : List Nat) (j : Nat) (h : j < l.length), l ~ l[j] :: l.eraseIdx j
  | a :: l, 0, _ => by simp
  | a :: l, j + 1, h => by
    have ih := perm_eraseIdx l j (by simpa using h)
    simp only [getElem_cons_succ, eraseIdx_cons_succ]
    exact (Perm.cons a ih).trans (Perm.swap _ _ _)

theorem set_perm' : ∀ (l : List Nat) (j : Nat) (x : Nat) (h : j < l.length),
    (l[j] :: l.set j x) ~ (x :: l)
  | a :: l, 0, x, _ => by simpa using Perm.swap x a l
  | a :: l, j + 1, x, h => by
    have ih := set_perm' l j x (by simpa using h)
    simp only [getElem_cons_succ, set_cons_succ]
    exact (Perm.swap a _ _).trans (((Perm.cons a ih).trans (Perm.swap x a l)))

theorem set_perm_eraseIdx (l : List Nat) (j x : Nat) (h : j < l.length) :
    l.set j x ~ x :: l.eraseIdx j := by
  have h1 := set_perm' l j x h
  have h2 : (x :: l) ~ l[j] :: x :: l.eraseIdx j :=
    (Perm.cons x (perm_eraseIdx l j h)).trans (Perm.swap _ _ _)
  exact (h1.trans h2).cons_inv

theorem countP_eq_range : ∀ (N d : Nat), d < N → countP (fun j => decide (j = d)) (List.range N) = 1
  | 0, d, h => by simp at h
  | N + 1, d, h => by
    rw [range_succ, countP_append]
    by_cases hd : d < N
    · rw [countP_eq_range N d hd]
      have : N ≠ d := by omega
      simp [this]
    · have hd' : d = N := by omega
      subst hd'
      have : countP (fun j => decide (j = d)) (List.range d) = 0 :=
        countP_eq_zero.mpr (fun x hx => by simp at hx; simp; omega)
      rw [this]; simp

/-- a predicate true at exactly one index below `N` is counted once -/
theorem countP_range_unique (N d : Nat) (p : Nat → Bool) (hd : d < N)
    (h : ∀ j, j < N → (p j = true ↔ j = d)) : countP p (List.range N) = 1 := by
  rw [countP_congr (q := fun j => decide (j = d))]
  · exact countP_eq_range N d hd
  · intro j hj
    simp only [mem_range] at hj
    simp [h j hj]

theorem countP_ge_range : ∀ (N k : Nat), k ≤ N → countP (fun j => decide (¬ j < k)) (List.range N) = N - k
  | 0, k, _ => by simp
  | N + 1, k, h => by
    rw [range_succ, countP_append]
    by_cases hk : k ≤ N
    · rw [countP_ge_range N k hk]
      have : ¬ N < k := by omega
      simp only [this, not_false_eq_true, decide_true, countP_cons, countP_nil, ↓reduceIte]
      omega
    · have hk' : k = N + 1 := by omega
      subst hk'
      have : countP (fun j => decide (¬ j < N + 1)) (List.range N) = 0 :=
        countP_eq_zero.mpr (fun x hx => by simp at hx; simp; omega)
      rw [this]; simp

theorem countP_eq_sum_ite {α : Type} (p : α → Bool) (Y : List α) :
    countP p Y = (Y.map fun b => if p b then 1 else 0).sum := by
  induction Y with
  | nil => rfl
  | cons b Y ih => simp only [countP_cons, map_cons, sum_cons, ih]; split <;> omega

theorem sum_map_add {α : Type} (Y : List α) (f g : α → Nat) :
    (Y.map fun b => f b + g b).sum = (Y.map f).sum + (Y.map g).sum := by
  induction Y with
  | nil => rfl
  | cons b Y ih => simp only [map_cons, sum_cons, ih]; omega

/-- double counting -/
theorem countP_swap {α β : Type} (q : α → β → Bool) (L : List α) (Y : List β) :
    (L.map fun a => countP (fun b => q a b) Y).sum = (Y.map fun b => countP (fun a => q a b) L).sum := by
  induction L with
  | nil =>
    have : ∀ Y : List β, (Y.map fun _ => 0).sum = 0 := by
      intro Y; induction Y <;> simp_all
    simp [this]
  | cons a L ih =>
    simp only [map_cons, sum_cons, countP_cons, ih]
    rw [sum_map_add, countP_eq_sum_ite]
    omega

/-! ### one step of the reservoir, counted against a target set `S` (as a permutation class) -/

/-- the new item is not wanted: the `n+1-k` draws that leave the reservoir alone -/
theorem stepA (k n : Nat) (res S : List Nat) (h : ResInv k n res) (hk : k ≤ n + 1) (hnS : n ∉ S) :
    countP (fun j => decide (stepRes res j n ~ S)) (List.range (n + 1)) =
      if res ~ S then n + 1 - k else 0 := by
  obtain ⟨h1, _, _⟩ := h
  rw [countP_congr (q := fun j => decide (¬ j < k) && decide (res ~ S))]
  · by_cases hp : res ~ S
    · simp only [hp, decide_true, Bool.and_true, ↓reduceIte]
      exact countP_ge_range (n + 1) k hk
    · simp only [hp, decide_false, Bool.and_false, ↓reduceIte]
      exact countP_eq_zero.mpr (fun _ _ => by simp)
  · intro j _
    unfold stepRes
    rw [h1]
    by_cases hj : j < k
    · simp only [hj, ↓reduceIte, decide_eq_true_eq, not_true_eq_false, decide_false, Bool.false_and,
        Bool.false_eq_true, iff_false]
      intro hperm
      exact hnS (hperm.subset (mem_set (by omega) n))
    · simp [hj]

/-- if the reservoir contains `S'` (one item fewer), the extra item is unique -/
theorem extra_item (k n : Nat) (res S' : List Nat) (h : ResInv k n res) (hS' : S'.Nodup)
    (hl : S'.length + 1 = k) (hsub : S' ⊆ res) :
    ∃ y, y < n ∧ y ∉ S' ∧ res ~ y :: S' ∧ ∀ y', res ~ y' :: S' → y' = y := by
  obtain ⟨h1, h2, h3⟩ := h
  obtain ⟨rest, hr⟩ := exists_perm_append_of_subset S' res hS' hsub
  have hlen := hr.length_eq
  rw [length_append] at hlen
  match rest, hr, hlen with
  | [], _, hlen => simp at hlen; omega
  | [y], hr, _ =>
    have hperm : res ~ y :: S' := hr.trans (perm_append_singleton y S')
    have hnd : (y :: S').Nodup := hperm.nodup h2
    refine ⟨y, h3 y (hperm.symm.subset (by simp)), (nodup_cons.mp hnd).1, hperm, ?_⟩
    intro y' hy'
    have hnd' : (y' :: S').Nodup := hy'.nodup h2
    have hmem : y' ∈ y :: S' := (hy'.symm.trans hperm).subset (by simp)
    rcases mem_cons.mp hmem with h | h
    · exact h
    · exact absurd h (nodup_cons.mp hnd').1
  | _ :: _ :: _, _, hlen => simp at hlen; omega

/-- the new item is wanted (`S ~ n :: S'`): exactly one draw works if the reservoir contains
    `S'`, none otherwise -/
theorem stepB (k n : Nat) (res S S' : List Nat) (h : ResInv k n res) (hk : k ≤ n + 1)
    (hS : S ~ n :: S') (hS' : S'.Nodup) (hl : S'.length + 1 = k) :
    countP (fun j => decide (stepRes res j n ~ S)) (List.range (n + 1)) =
      if S' ⊆ res then 1 else 0 := by
  have hinv := h
  obtain ⟨h1, h2, h3⟩ := h
  have hnres : n ∉ res := fun hm => Nat.lt_irrefl _ (h3 n hm)
  -- what a working draw looks like
  have hwork : ∀ j, stepRes res j n ~ S → ∃ hj : j < res.length, res.eraseIdx j ~ S' := by
    intro j hp
    unfold stepRes at hp
    by_cases hj : j < res.length
    · simp only [hj, ↓reduceIte] at hp
      refine ⟨hj, ?_⟩
      exact ((set_perm_eraseIdx res j n hj).symm.trans (hp.trans hS)).cons_inv
    · simp only [hj, ↓reduceIte] at hp
      exact absurd ((hp.trans hS).symm.subset (by simp)) hnres
  by_cases hsub : S' ⊆ res
  · simp only [hsub, ↓reduceIte]
    obtain ⟨y, _, _, hperm, huniq⟩ := extra_item k n res S' hinv hS' hl hsub
    have hy : y ∈ res := hperm.symm.subset (by simp)
    obtain ⟨j0, hj0, hyj⟩ := mem_iff_getElem.mp hy
    apply countP_range_unique (n + 1) j0 _ (by omega)
    intro j _
    simp only [decide_eq_true_eq]
    constructor
    · intro hp
      obtain ⟨hj, he⟩ := hwork j hp
      have : res ~ res[j] :: S' := (perm_eraseIdx res j hj).trans (Perm.cons _ he)
      have := huniq _ this
      exact (getElem_inj h2).mp (this.trans hyj.symm)
    · rintro rfl
      unfold stepRes
      simp only [hj0, ↓reduceIte]
      have he : res.eraseIdx j ~ S' := by
        have := (perm_eraseIdx res j hj0).symm.trans hperm
        rw [hyj] at this
        exact this.cons_inv
      exact (set_perm_eraseIdx res j n hj0).trans ((Perm.cons n he).trans hS.symm)
  · simp only [hsub, ↓reduceIte]
    apply countP_eq_zero.mpr
    intro j _
    simp only [decide_eq_true_eq]
    intro hp
    obtain ⟨hj, he⟩ := hwork j hp
    apply hsub
    intro x hx
    have : x ∈ res.eraseIdx j := he.symm.subset hx
    exact (mem_eraseIdx_iff_getElem.mp this).elim fun i ⟨hi, _, hxi⟩ => hxi ▸ getElem_mem hi

/-- the same indicator, written as a count over the possible extra items -/
theorem partitionB (k n : Nat) (res S' : List Nat) (h : ResInv k n res) (hS' : S'.Nodup)
    (hl : S'.length + 1 = k) :
    countP (fun y => decide (y ∉ S' ∧ res ~ y :: S')) (List.range n) = if S' ⊆ res then 1 else 0 := by
  by_cases hsub : S' ⊆ res
  · simp only [hsub, ↓reduceIte]
    obtain ⟨y, hyn, hyS, hperm, huniq⟩ := extra_item k n res S' h hS' hl hsub
    apply countP_range_unique n y _ hyn
    intro y' _
    simp only [decide_eq_true_eq]
    exact ⟨fun ⟨_, hp⟩ => huniq y' hp, fun he => he ▸ ⟨hyS, hperm⟩⟩
  · simp only [hsub, ↓reduceIte]
    apply countP_eq_zero.mpr
    intro y _
    simp only [decide_eq_true_eq, not_and]
    intro _ hp
    exact hsub (fun x hx => hp.symm.subset (by simp [hx]))

/-- `#{y < n : y ∉ S'} = n - |S'|` for duplicate-free `S' ⊆ [0, n)` -/
theorem count_not_mem (n : Nat) (S' : List Nat) (hS' : S'.Nodup) (hb : ∀ y ∈ S', y < n) :
    countP (fun y => decide (y ∉ S')) (List.range n) = n - S'.length := by
  obtain ⟨rest, hr⟩ := exists_perm_append_of_subset S' (List.range n) hS' (fun y hy => by simpa using hb y hy)
  have hnd : (S' ++ rest).Nodup := hr.nodup nodup_range
  have hlen := hr.length_eq
  rw [length_append, length_range] at hlen
  rw [hr.countP_eq, countP_append]
  have h1 : countP (fun y => decide (y ∉ S')) S' = 0 :=
    countP_eq_zero.mpr (fun y hy => by simp [hy])
  have h2 : countP (fun y => decide (y ∉ S')) rest = rest.length :=
    countP_eq_length.mpr (fun y hy => by
      simp only [decide_eq_true_eq]
      exact fun hyS => (nodup_append.mp hnd).2.2 y hyS y hy rfl)
  rw [h1, h2]; omega

/-! ### the induction -/

theorem joint_uniform (k : Nat) : ∀ (m : Nat) (S : List Nat), S.Nodup → S.length = k →
    (∀ y ∈ S, y < k + m) → countP (fun res => decide (res ~ S)) (outcomes k m) = fact m
  | 0, S, hn, hl, hb => by
    rw [outcomes_zero]
    have : List.range k ~ S :=
      perm_of_subset_of_length_le S (List.range k) hn (fun y hy => by simpa using hb y hy) (by simp [hl])
    simp [this, fact]
  | m + 1, S, hn, hl, hb => by
    rw [outcomes_succ, countP_flatMap]
    by_cases hnS : k + m ∈ S
    · -- the newest item is in S
      have hS : S ~ (k + m) :: S.erase (k + m) := perm_cons_erase hnS
      have hS' : (S.erase (k + m)).Nodup := hn.erase _
      have hl' : (S.erase (k + m)).length + 1 = k := by
        rw [length_erase_of_mem hnS, hl]
        have : 0 < S.length := length_pos_of_mem hnS
        omega
      have hb' : ∀ y ∈ S.erase (k + m), y < k + m := by
        intro y hy
        have := (hn.mem_erase_iff).mp hy
        have := hb y this.2
        omega
      generalize S.erase (k + m) = S' at *
      rw [sum_map_congr _ _ (fun res => countP (fun y => decide (y ∉ S' ∧ res ~ y :: S')) (List.range (k + m)))]
      · rw [countP_swap]
        rw [sum_map_congr _ _ (fun y => if decide (y ∉ S') then fact m else 0)]
        · rw [sum_map_ite, count_not_mem (k + m) S' hS' hb']
          have : k + m - S'.length = m + 1 := by omega
          rw [this, fact, Nat.mul_comm]
        · intro y hy
          simp only [mem_range] at hy
          by_cases hyS : y ∈ S'
          · simp only [hyS, not_true_eq_false, false_and, decide_false, Bool.false_eq_true, ↓reduceIte]
            exact countP_eq_zero.mpr (fun _ _ => by simp)
          · simp only [hyS, not_false_eq_true, true_and, decide_true, ↓reduceIte]
            exact joint_uniform k m (y :: S') (nodup_cons.mpr ⟨hyS, hS'⟩) (by simp; omega)
              (fun z hz => by
                rcases mem_cons.mp hz with h | h
                · omega
                · exact hb' z h)
      · intro res hres
        simp only [Function.comp, countP_map]
        rw [partitionB k (k + m) res S' (outcomes_inv k m res hres) hS' hl']
        exact stepB k (k + m) res S S' (outcomes_inv k m res hres) (by omega) hS hS' hl'
    · -- the newest item is not in S
      have hb' : ∀ y ∈ S, y < k + m := by
        intro y hy
        have := hb y hy
        have : y ≠ k + m := fun h => hnS (h ▸ hy)
        omega
      rw [sum_map_congr _ _ (fun res => if decide (res ~ S) then m + 1 else 0)]
      · rw [sum_map_ite, joint_uniform k m S hn hl hb', fact]
      · intro res hres
        simp only [Function.comp, countP_map]
        have h := stepA k (k + m) res S (outcomes_inv k m res hres) (by omega) hnS
        have : k + m + 1 - k = m + 1 := by omega
        rw [this] at h
        refine Eq.trans h ?_
        by_cases hp : res ~ S <;> simp [hp]

end ScionTime.Sample
