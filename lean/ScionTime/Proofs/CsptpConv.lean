/-
  Helper lemmas for the CSPTP part of C18.
-/
import ScionTime.Model.CsptpConv
namespace ScionTime.CsptpConv

theorem secOfBytes_six (b0 b1 b2 b3 b4 b5 : Nat) :
    secOfBytes [b0, b1, b2, b3, b4, b5] = b0 * 2^40 + b1 * 2^32 + b2 * 2^24 + b3 * 2^16 + b4 * 2^8 + b5 := rfl

theorem secOfBytes_secBytes (s : Nat) (h : s < 2^48) : secOfBytes (secBytes s) = s := by
  unfold secBytes
  rw [secOfBytes_six]
  omega

theorem wf_bytes (ts : Timestamp) (h : ts.WF) :
    ∃ b0 b1 b2 b3 b4 b5, ts.seconds = [b0, b1, b2, b3, b4, b5] ∧
      b0 < 256 ∧ b1 < 256 ∧ b2 < 256 ∧ b3 < 256 ∧ b4 < 256 ∧ b5 < 256 := by
  obtain ⟨hl, hb, _⟩ := h
  match hs : ts.seconds, hl with
  | [b0, b1, b2, b3, b4, b5], _ =>
    rw [hs] at hb
    exact ⟨b0, b1, b2, b3, b4, b5, rfl, hb _ (by simp), hb _ (by simp), hb _ (by simp),
      hb _ (by simp), hb _ (by simp), hb _ (by simp)⟩

theorem timeSub_exact (t u : Int) (h1 : -9223372036854775808 ≤ t - u) (h2 : t - u ≤ 9223372036854775807) :
    (timeSub t u).toInt = t - u := by
  unfold timeSub
  rw [if_neg (by omega), if_neg (by omega), Int64.toInt_ofInt_of_le (by omega) (by omega)]

end ScionTime.CsptpConv
