/-
  Proofs/C19.lean — helper lemmas for Props/C19.lean (PLL discipline, Model/Pll.lean).
  Core Lean only (uses the rounding lemmas of Proofs/F64.lean).
-/
import ScionTime.Model.Pll
import ScionTime.Proofs.F64
namespace ScionTime.Pll
open ScionTime.F64

/-! ### integer helpers -/

theorem inv_range {d : Int} (h : minI64 ≤ d ∧ d ≤ maxI64) : minI64 < inv d ∧ inv d ≤ maxI64 := by
  unfold inv minI64 maxI64 at *; split <;> omega

theorem inv_inv {d : Int} (hr : minI64 ≤ d ∧ d ≤ maxI64) :
    inv (inv d) = if d = minI64 then minI64 + 1 else d := by
  unfold inv minI64 maxI64 at *
  by_cases h : d = -9223372036854775808
  · subst h; decide
  · simp only [h, if_false]
    split <;> omega

theorem durAbs_inv {d : Int} (h : minI64 ≤ d ∧ d ≤ maxI64) :
    durAbs (inv d) > stepThreshold ↔ (d > 1000000 ∨ d < -1000000) := by
  unfold durAbs inv stepThreshold minI64 maxI64 at *; split <;> split <;> (try split) <;> omega

theorem timeSub_nonneg {t u : Int} (h : u ≤ t) : 0 ≤ timeSub t u := by
  unfold timeSub minI64 maxI64; simp only; split <;> (try split) <;> omega

theorem timeSub_le (t u : Int) : minI64 ≤ timeSub t u ∧ timeSub t u ≤ maxI64 := by
  unfold timeSub minI64 maxI64; simp only; split <;> (try split) <;> omega

theorem timeSub_exact {t u : Int} (h : minI64 ≤ t - u ∧ t - u ≤ maxI64) : timeSub t u = t - u := by
  unfold timeSub minI64 maxI64 at *; simp only; split <;> (try split) <;> omega

/-! ### the tail of `Do` -/

theorem gt_fzero_fzero : gt fzero fzero = false := by decide

theorem finish_zero (s : State) (now : Int) (acts : List Action) :
    finish s now fzero fzero acts = .ok { s with t := now } acts := by
  simp [finish, gt_fzero_fzero]

theorem finish_cases (s : State) (now : Int) (p d : F64) (acts : List Action) :
    (gt d fzero = true ∧
      finish s now p d acts = .ok { s with t := now } (acts ++ [.adjust (toDuration p) (toDuration d) s.i]))
    ∨ (gt d fzero = false ∧ finish s now p d acts = .ok { s with t := now } acts) := by
  unfold finish
  cases h : gt d fzero <;> simp

/-- What the gain selection can do to the state: nothing but (possibly) `a`, `b`. -/
theorem gains_frame (s : State) (mdt : Int) (w pw : F64) :
    let r := gains s mdt w pw
    r.1.epoch = s.epoch ∧ r.1.mode = s.mode ∧ r.1.t0 = s.t0 ∧ r.1.t = s.t ∧ r.1.i = s.i := by
  unfold gains
  split
  · simp
  · split
    · simp
    · split <;> simp

/-- The tracking branch makes at most one call, an `Adjust`, exactly when `⌈dt⌉ > 0`. -/
theorem track_cases (s : State) (now mdt : Int) (dt : F64) (off : Int) (w pw : F64) :
    let g := gains s mdt w pw
    let p := mul (durationSeconds (inv off)) g.2.1
    let d := ceil dt
    let s' : State := { g.1 with i := add g.1.i (mul p g.2.2), t := now }
    (gt d fzero = true ∧ track s now mdt dt off w pw =
        .ok s' [.adjust (toDuration (clamp p d)) (toDuration d) s'.i])
    ∨ (gt d fzero = false ∧ track s now mdt dt off w pw = .ok s' []) := by
  intro g p d s'
  unfold track
  have := finish_cases { g.1 with i := add g.1.i (mul p g.2.2) } now (clamp p d) d []
  simpa using this

/-- Complete case analysis of `Do` (one disjunct per path through the switch). -/

theorem step_spec (s : State) (e : Nat) (now off : Int) (w pw : F64) :
    let s0 := syncEpoch s e
    let mdt := timeSub now s0.t0
    let dt := durationSeconds (timeSub now s0.t)
    let r := step s e now off w pw
    (s0.mode = 0 ∧ r = .ok { s0 with t0 := now, mode := 1, t := now } []) ∨
    (s0.mode = 1 ∧ mdt < 0 ∧ r = .panic .clock) ∨
    (s0.mode = 1 ∧ 0 ≤ mdt ∧ (mdt > stepWait ∧ gt w wStep = true) ∧ durAbs (inv off) > stepThreshold ∧
        r = .ok { s0 with t0 := now, mode := 2, t := now } [.step (inv (inv off))]) ∨
    (s0.mode = 1 ∧ 0 ≤ mdt ∧ (mdt > stepWait ∧ gt w wStep = true) ∧ ¬ durAbs (inv off) > stepThreshold ∧
        r = .ok { s0 with t0 := now, mode := 2, t := now } []) ∨
    (s0.mode = 1 ∧ 0 ≤ mdt ∧ ¬ (mdt > stepWait ∧ gt w wStep = true) ∧ r = .ok { s0 with t := now } []) ∨
    (s0.mode = 2 ∧ mdt < 0 ∧ r = .panic .clock) ∨
    (s0.mode = 2 ∧ 0 ≤ mdt ∧ mdt > pllWait ∧
        r = .ok { s0 with a := pInit, b := div pInit iInit, t0 := now, mode := 3, t := now } []) ∨
    (s0.mode = 2 ∧ 0 ≤ mdt ∧ ¬ mdt > pllWait ∧ r = .ok { s0 with t := now } []) ∨
    (s0.mode = 3 ∧ mdt < 0 ∧ r = .panic .clock) ∨
    (s0.mode = 3 ∧ 0 ≤ mdt ∧ lt dt fzero = true ∧ r = .panic .clock) ∨
    (s0.mode = 3 ∧ 0 ≤ mdt ∧ lt dt fzero = false ∧ r = track s0 now mdt dt (inv off) w pw) ∨
    (3 < s0.mode ∧ r = .panic .mode) := by
  intro s0 mdt dt r
  show _ ∨ _
  simp only [r, step, finish_zero]
  by_cases h0 : s0.mode = 0
  · left; simp [s0] at h0 ⊢; simp [h0]
  by_cases h1 : s0.mode = 1
  · right
    simp only [s0, mdt] at h1 h0 ⊢
    simp only [h1]
    by_cases hm : timeSub now (syncEpoch s e).t0 < 0
    · left; simp [hm]
    · right
      have hm' : 0 ≤ timeSub now (syncEpoch s e).t0 := by omega
      by_cases hc : timeSub now (syncEpoch s e).t0 > stepWait ∧ gt w wStep = true
      · by_cases ha : durAbs (inv off) > stepThreshold
        · left; simp [hm, hm', hc, ha]
        · right; left; simp [hm, hm', hc, ha]
      · right; right; left; simp [hm, hm', hc]
  by_cases h2 : s0.mode = 2
  · right; right; right; right; right
    simp only [s0, mdt] at h2 ⊢
    simp only [h2]
    by_cases hm : timeSub now (syncEpoch s e).t0 < 0
    · left; simp [hm]
    · right
      have hm' : 0 ≤ timeSub now (syncEpoch s e).t0 := by omega
      by_cases hc : timeSub now (syncEpoch s e).t0 > pllWait
      · left; simp [hm, hm', hc]
      · right; left; simp [hm, hm', hc]
  by_cases h3 : s0.mode = 3
  · right; right; right; right; right; right; right; right
    simp only [s0, mdt, dt] at h3 ⊢
    simp only [h3]
    by_cases hm : timeSub now (syncEpoch s e).t0 < 0
    · left; simp [hm]
    · right
      have hm' : 0 ≤ timeSub now (syncEpoch s e).t0 := by omega
      cases hd : lt (durationSeconds (timeSub now (syncEpoch s e).t)) fzero
      · right; left; simp [hm, hm']
      · left; simp [hm, hm']
  · right; right; right; right; right; right; right; right; right; right; right
    simp only [s0] at h0 h1 h2 h3 ⊢
    simp [h0, h1, h2, h3]
    omega

/-! ### floats: bounded non-negative values -/

/-- finite, non-negative, at most `M` -/
def Bd (M : Rat) (x : F64) : Prop := isFinite x = true ∧ 0 ≤ toRat x ∧ toRat x ≤ M

theorem maxFin_big : (18446744073709551616 : Rat) ≤ maxFin := by
  have := pow2_le_maxFin (K := 64) (by decide)
  have e : pow2 64 = 18446744073709551616 := by decide +kernel
  rwa [e] at this

theorem bd_roundNE {q M : Rat} (h0 : 0 ≤ q) (hM : q ≤ M) (hR : Rep M) (hMax : M ≤ maxFin) :
    Bd M (roundNE q) := by
  have ha : q.abs ≤ maxFin := by rw [abs_le_iff]; have := maxFin_big; grind
  refine ⟨isFinite_roundNE_of_le ha, roundNE_nonneg h0, ?_⟩
  rw [toRat_roundNE_of_le ha]; exact rnd_le_of_le_rep hR hM

theorem bd_lt_fzero {M : Rat} {x : F64} (h : Bd M x) : lt x fzero = false := by
  obtain ⟨hf, h0, _⟩ := h
  cases x with
  | nan => simp [isFinite] at hf
  | inf n => simp [isFinite] at hf
  | zero n => simp [lt, fzero, toRat]
  | fin q => simp [lt, fzero, toRat] at h0 ⊢; grind

theorem bd_add {M1 M2 : Rat} {x y : F64} (hx : Bd M1 x) (hy : Bd M2 y) (hR : Rep (M1 + M2))
    (hMax : M1 + M2 ≤ maxFin) : Bd (M1 + M2) (add x y) := by
  obtain ⟨hfx, hx0, hx1⟩ := hx
  obtain ⟨hfy, hy0, hy1⟩ := hy
  cases x with
  | nan => simp [isFinite] at hfx
  | inf n => simp [isFinite] at hfx
  | zero a =>
    cases y with
    | nan => simp [isFinite] at hfy
    | inf n => simp [isFinite] at hfy
    | zero b => simp [add, Bd, isFinite, toRat] at *; grind
    | fin v => simp [add, Bd, isFinite, toRat] at *; grind
  | fin u =>
    cases y with
    | nan => simp [isFinite] at hfy
    | inf n => simp [isFinite] at hfy
    | zero b => simp [add, Bd, isFinite, toRat] at *; grind
    | fin v =>
      simp only [add, toRat] at *
      exact bd_roundNE (by grind) (by grind) hR hMax

theorem intCast_le_lit {n m : Int} (h : n ≤ m) : (n : Rat) ≤ (m : Rat) := Rat.intCast_le_intCast.mpr h

theorem ofInt_bd {n : Int} (h0 : 0 ≤ n) (h : n ≤ 9007199254740992) : Bd (n : Rat) (ofInt n) := by
  have hr : Rep (n : Rat) := rep_intCast (by omega)
  have h1 : (0 : Rat) ≤ (n : Rat) := Rat.intCast_nonneg.mpr h0
  refine bd_roundNE h1 Rat.le_refl hr ?_
  have h2 : (n : Rat) ≤ ((9007199254740992 : Int) : Rat) := intCast_le_lit h
  have h3 : ((9007199254740992 : Int) : Rat) ≤ 18446744073709551616 := by decide +kernel
  exact Rat.le_trans h2 (Rat.le_trans h3 maxFin_big)

theorem ofInt_second : ofInt 1000000000 = .fin 1000000000 := by decide +kernel

theorem rep_one : Rep 1 := by
  have := rep_intCast (i := 1) (by decide); simpa using this

theorem div_second_bd {x : F64} (hx : Bd 1000000000 x) : Bd 1 (div x (ofInt 1000000000)) := by
  rw [ofInt_second]
  obtain ⟨hf, h0, h1⟩ := hx
  cases x with
  | nan => simp [isFinite] at hf
  | inf n => simp [isFinite] at hf
  | zero a => simp [div, Bd, isFinite, toRat]; decide
  | fin u =>
    simp only [div, toRat] at *
    refine bd_roundNE ?_ ?_ rep_one (by have := maxFin_big; grind)
    · rw [le_div_iff (by decide)]; grind
    · rw [div_le_iff (by decide)]; grind

/-- `time.Duration.Seconds()` of a non-negative duration: finite, non-negative, at most the
    whole seconds plus one. -/
theorem durationSeconds_bd {d : Int} (h0 : 0 ≤ d) (h : d ≤ maxI64) :
    Bd ((d / 1000000000 + 1 : Int) : Rat) (durationSeconds d) := by
  unfold durationSeconds
  have e1 : Int.tdiv d 1000000000 = d / 1000000000 := Int.tdiv_eq_ediv_of_nonneg h0
  have e2 : Int.tmod d 1000000000 = d % 1000000000 := Int.tmod_eq_emod_of_nonneg h0
  rw [e1, e2]
  unfold maxI64 at h
  have hq := ofInt_bd (n := d / 1000000000) (by omega) (by omega)
  have hr := ofInt_bd (n := d % 1000000000) (by omega) (by omega)
  have hr' : Bd 1000000000 (ofInt (d % 1000000000)) := by
    refine ⟨hr.1, hr.2.1, Rat.le_trans hr.2.2 ?_⟩
    exact intCast_le_lit (m := 1000000000) (by omega)
  have hf := div_second_bd hr'
  have hs : ((d / 1000000000 + 1 : Int) : Rat) = ((d / 1000000000 : Int) : Rat) + 1 := by
    rw [Rat.intCast_add]; rfl
  rw [hs]
  refine bd_add hq hf ?_ ?_
  · rw [← hs]; exact rep_intCast (by omega)
  · rw [← hs]
    have h2 : ((d / 1000000000 + 1 : Int) : Rat) ≤ ((9223372037 : Int) : Rat) := intCast_le_lit (by omega)
    have h3 : ((9223372037 : Int) : Rat) ≤ 18446744073709551616 := by decide +kernel
    exact Rat.le_trans h2 (Rat.le_trans h3 maxFin_big)

/-! ### invariant under monotone readings -/

theorem syncEpoch_cases (s : State) (e : Nat) :
    (s.epoch ≠ e ∧ syncEpoch s e = { s with epoch := e, mode := 0 }) ∨
    (s.epoch = e ∧ syncEpoch s e = s) := by
  unfold syncEpoch
  by_cases h : s.epoch = e <;> simp [h]

theorem syncEpoch_epoch (s : State) (e : Nat) : (syncEpoch s e).epoch = e := by
  rcases syncEpoch_cases s e with ⟨h', h⟩ | ⟨h', h⟩ <;> rw [h] <;> simp [h']

/-- The invariant of the controller under (per-epoch) monotone clock readings. -/
structure Inv (s : State) : Prop where
  mode_le : s.mode ≤ 3
  t0_le : s.mode ≠ 0 → s.t0 ≤ s.t

theorem inv_init : Inv init := ⟨by decide, by decide⟩

/-- the outcome of the tracking branch, whatever the floats are -/
theorem track_ok (s : State) (now mdt : Int) (dt : F64) (off : Int) (w pw : F64) :
    ∃ s' acts, track s now mdt dt off w pw = .ok s' acts ∧ s'.mode = s.mode ∧ s'.epoch = s.epoch
      ∧ s'.t0 = s.t0 ∧ s'.t = now ∧ (∀ x, Action.step x ∉ acts) := by
  have hg := gains_frame s mdt w pw
  simp only at hg
  rcases track_cases s now mdt dt off w pw with ⟨_, h⟩ | ⟨_, h⟩
  · exact ⟨_, _, h, by simp [hg], by simp [hg], by simp [hg], by simp, by simp⟩
  · exact ⟨_, _, h, by simp [hg], by simp [hg], by simp [hg], by simp, by simp⟩

theorem step_safe {s : State} {e : Nat} {now off : Int} {w pw : F64} (hI : Inv s)
    (hnow : e = s.epoch → s.mode ≠ 0 → s.t ≤ now) :
    ∃ s' acts, step s e now off w pw = .ok s' acts ∧ Inv s' ∧ s'.t = now ∧ s'.epoch = e ∧ s'.mode ≠ 0 := by
  have hep := syncEpoch_epoch s e
  have h0 : (syncEpoch s e).mode ≠ 0 → syncEpoch s e = s ∧ e = s.epoch := by
    rcases syncEpoch_cases s e with ⟨h', h⟩ | ⟨h', h⟩ <;> rw [h] <;> simp [h']
  have hm3 : (syncEpoch s e).mode ≤ 3 := by
    rcases syncEpoch_cases s e with ⟨_, h⟩ | ⟨h', h⟩ <;> rw [h] <;> simp [hI.mode_le]
  -- in a non-zero mode, readings are ordered t0 ≤ t ≤ now
  have hord : (syncEpoch s e).mode ≠ 0 → 0 ≤ timeSub now (syncEpoch s e).t0 ∧ (syncEpoch s e).t ≤ now := by
    intro hne
    obtain ⟨hs, he⟩ := h0 hne
    rw [hs] at hne ⊢
    have h1 := hI.t0_le hne
    have h2 := hnow he hne
    exact ⟨timeSub_nonneg (by omega), h2⟩
  have hspec := step_spec s e now off w pw
  simp only at hspec
  rcases hspec with ⟨hm, hr⟩ | ⟨hm, hlt, _⟩ | ⟨hm, _, _, _, hr⟩ | ⟨hm, _, _, _, hr⟩ | ⟨hm, _, _, hr⟩ |
      ⟨hm, hlt, _⟩ | ⟨hm, _, _, hr⟩ | ⟨hm, _, _, hr⟩ | ⟨hm, hlt, _⟩ | ⟨hm, _, hlt, _⟩ | ⟨hm, _, _, hr⟩ | ⟨hm, _⟩
  · exact ⟨_, _, hr, ⟨by simp, by simp⟩, by simp, by simp [hep], by simp⟩
  · have := (hord (by omega)).1; omega
  · exact ⟨_, _, hr, ⟨by simp, by simp⟩, by simp, by simp [hep], by simp⟩
  · exact ⟨_, _, hr, ⟨by simp, by simp⟩, by simp, by simp [hep], by simp⟩
  · have ho := hord (by omega)
    obtain ⟨hs, _⟩ := h0 (by omega)
    refine ⟨_, _, hr, ⟨by simp [hm], ?_⟩, by simp, by simp [hep], by simp [hm]⟩
    intro _; simp only; rw [hs] at ho ⊢; have := hI.t0_le (by rw [hs] at hm; omega); omega
  · have := (hord (by omega)).1; omega
  · exact ⟨_, _, hr, ⟨by simp, by simp⟩, by simp, by simp [hep], by simp⟩
  · have ho := hord (by omega)
    obtain ⟨hs, _⟩ := h0 (by omega)
    refine ⟨_, _, hr, ⟨by simp [hm], ?_⟩, by simp, by simp [hep], by simp [hm]⟩
    intro _; simp only; rw [hs] at ho ⊢; have := hI.t0_le (by rw [hs] at hm; omega); omega
  · have := (hord (by omega)).1; omega
  · have ho := (hord (by omega)).2
    have hb := durationSeconds_bd (d := timeSub now (syncEpoch s e).t) (timeSub_nonneg ho) (timeSub_le _ _).2
    rw [bd_lt_fzero hb] at hlt; exact absurd hlt (by decide)
  · have ho := hord (by omega)
    obtain ⟨hs, _⟩ := h0 (by omega)
    obtain ⟨s', acts, ht, hmode, hepo, ht0, htt, _⟩ :=
      track_ok (syncEpoch s e) now (timeSub now (syncEpoch s e).t0)
        (durationSeconds (timeSub now (syncEpoch s e).t)) (inv off) w pw
    refine ⟨s', acts, hr.trans ht, ⟨by omega, ?_⟩, htt, by rw [hepo, hep], by omega⟩
    intro _; rw [ht0, htt, hs]
    rw [hs] at ho hm
    have := hI.t0_le (by omega); omega
  · omega


/-! ### floats: ceil, truncation, `timemath.Duration` -/

theorem gt_fzero_iff_fin_pos {x : F64} (hf : isFinite x = true) (h : gt x fzero = true) :
    ∃ q, x = .fin q ∧ 0 < q := by
  cases x with
  | nan => simp [isFinite] at hf
  | inf n => simp [isFinite] at hf
  | zero n => simp [gt, lt, fzero, toRat] at h
  | fin q => exact ⟨q, rfl, by simp [gt, lt, fzero, toRat] at h; exact of_decide_eq_true h⟩

/-- `math.Ceil` of a bounded non-negative double that compares `> 0.0`: an integer `D ≥ 1`. -/
theorem ceil_bd {M : Int} {x : F64} (hx : Bd (M : Rat) x) (h : gt (ceil x) fzero = true) :
    ∃ D : Int, 1 ≤ D ∧ D ≤ M ∧ ceil x = .fin (D : Rat) ∧ D = (toRat x).ceil := by
  obtain ⟨hf, h0, h1⟩ := hx
  cases x with
  | nan => simp [isFinite] at hf
  | inf n => simp [isFinite] at hf
  | zero n => simp [ceil, gt, lt, fzero, toRat] at h
  | fin q =>
    simp only [toRat] at h0 h1
    simp only [ceil] at h ⊢
    by_cases hc : q.ceil = 0
    · simp [hc, gt, lt, fzero, toRat] at h
    · simp only [hc, if_false] at h ⊢
      refine ⟨q.ceil, ?_, Rat.ceil_le_iff.mpr h1, rfl, rfl⟩
      have : (0 : Int) ≤ q.ceil := by
        have := Rat.le_ceil (x := q)
        have h2 : ((0 : Int) : Rat) ≤ (q.ceil : Rat) := by simp only [Rat.intCast_zero]; grind
        exact Rat.intCast_le_intCast.mp h2
      omega
/-- truncation: for an integer bound `L ≤ 2^63`, `|X| < L` gives `|int64(X)| < L`. -/
theorem toInt64_fin_lt {X : Rat} {L : Int} (hL : L ≤ 9223372036854775808)
    (h1 : -(L : Rat) < X) (h2 : X < (L : Rat)) :
    -L < toInt64 (.fin X) ∧ toInt64 (.fin X) < L := by
  unfold toInt64
  simp only
  by_cases hn : X < 0
  · simp only [hn, if_true]
    have a1 : (-X).floor < L := Rat.floor_lt_iff.mpr (by grind)
    have a2 : 0 ≤ (-X).floor := Rat.le_floor_iff.mpr (by simp only [Rat.intCast_zero]; grind)
    split <;> omega
  · simp only [hn, if_false]
    have a1 : X.floor < L := Rat.floor_lt_iff.mpr h2
    have a2 : 0 ≤ X.floor := Rat.le_floor_iff.mpr (by simp only [Rat.intCast_zero]; grind)
    split <;> omega

theorem toInt64_zero (s : Bool) : toInt64 (.zero s) = 0 := rfl

/-- lower bound version for positive values -/
theorem toInt64_fin_ge {X : Rat} {a : Int} (ha : 0 ≤ a) (h1 : (a : Rat) ≤ X)
    (h2 : X < ((9223372036854775808 : Int) : Rat)) :
    a ≤ toInt64 (.fin X) := by
  unfold toInt64
  simp only
  have h0 : (0 : Rat) ≤ (a : Rat) := Rat.intCast_nonneg.mpr ha
  have hn : ¬ X < 0 := by grind
  simp only [hn, if_false]
  have a1 : X.floor < 9223372036854775808 := Rat.floor_lt_iff.mpr h2
  have a2 : a ≤ X.floor := Rat.le_floor_iff.mpr h1
  split <;> omega


theorem big_le_maxFin {q : Rat} (h : q.abs ≤ 18446744073709551616) : q.abs ≤ maxFin :=
  Rat.le_trans h maxFin_big

theorem rep_durMax : Rep (9223372036854774784 : Rat) := by
  have h := rep_natCast_mul (k := 9007199254740991) (K := 10) (by decide) (by decide)
  have e : ((9007199254740991 : Nat) : Rat) * pow2 10 = 9223372036854774784 := by decide +kernel
  rwa [e] at h

theorem rep_second : Rep (1000000000 : Rat) := by
  have h := rep_intCast (i := 1000000000) (by decide)
  have e : ((1000000000 : Int) : Rat) = 1000000000 := by decide +kernel
  rwa [e] at h

/-- `timemath.Duration(d)` for `d = ⌈dt⌉ = D` whole seconds, `1 ≤ D ≤ 9223372036`:
    at least one second, no int64 overflow. -/
theorem toDuration_ceil {D : Int} (h1 : 1 ≤ D) (h2 : D ≤ 9223372036) :
    1000000000 ≤ toDuration (.fin (D : Rat)) ∧ toDuration (.fin (D : Rat)) ≤ 9223372036854774784 := by
  unfold toDuration
  rw [ofInt_second]
  simp only [mul]
  have hD1 : ((1 : Int) : Rat) ≤ (D : Rat) := intCast_le_lit h1
  have hD2 : (D : Rat) ≤ ((9223372036 : Int) : Rat) := intCast_le_lit h2
  have e1 : ((1 : Int) : Rat) = 1 := by decide +kernel
  have e2 : ((9223372036 : Int) : Rat) = 9223372036 := by decide +kernel
  rw [e1] at hD1; rw [e2] at hD2
  have hq1 : (1000000000 : Rat) ≤ (D : Rat) * 1000000000 := by grind
  have hq2 : (D : Rat) * 1000000000 ≤ 9223372036854774784 := by grind
  have habs : ((D : Rat) * 1000000000).abs ≤ maxFin := by
    apply big_le_maxFin; rw [abs_le_iff]; grind
  have hp : pow2 (-1074) ≤ ((D : Rat) * 1000000000).abs := by
    have h3 : pow2 (-1074) ≤ pow2 0 := pow2_mono (by decide)
    rw [pow2_zero] at h3
    rw [Rat.abs_of_nonneg (by grind)]
    grind
  rw [roundNE_fin hp habs]
  have l1 := le_rnd_of_rep_le rep_second hq1
  have l2 := rnd_le_of_le_rep rep_durMax hq2
  constructor
  · refine toInt64_fin_ge (by decide) ?_ ?_
    · have e : ((1000000000 : Int) : Rat) = 1000000000 := by decide +kernel
      rw [e]; exact l1
    · have e : ((9223372036854775808 : Int) : Rat) = 9223372036854775808 := by decide +kernel
      rw [e]; grind
  · have := toInt64_fin_lt (X := rnd ((D : Rat) * 1000000000)) (L := 9223372036854774785) (by decide)
      (by have e : ((9223372036854774785 : Int) : Rat) = 9223372036854774785 := by decide +kernel
          rw [e]; grind)
      (by have e : ((9223372036854774785 : Int) : Rat) = 9223372036854774785 := by decide +kernel
          rw [e]; grind)
    omega


/-! ### the clamp and the slew bound -/

/-- the double nearest to `500e-6` (0x3f40624dd2f1a9fc) -/
def slewC : Rat := 1152921504606847 / 2305843009213693952
theorem slewPos_eq : slewPos = .fin slewC := by decide +kernel
theorem slewNeg_eq : slewNeg = .fin (-slewC) := by decide +kernel

theorem lt_finite {x y : F64} (hx : isFinite x = true) (hy : isFinite y = true) :
    lt x y = decide (toRat x < toRat y) := by
  cases x <;> cases y <;> simp [isFinite] at hx hy <;> simp [lt, toRat]

theorem lt_finite_inf {x : F64} (hx : isFinite x = true) (b : Bool) : lt x (.inf b) = !b := by
  cases x <;> simp [isFinite] at hx <;> simp [lt]

theorem lt_inf_finite {x : F64} (hx : isFinite x = true) (b : Bool) : lt (.inf b) x = b := by
  cases x <;> simp [isFinite] at hx <;> simp [lt]

theorem clamp_generic {p hi lo : F64} (hp : p ≠ .nan) (hh : isFinite hi = true)
    (hl : isFinite lo = true) (hle : toRat lo ≤ toRat hi) :
    isFinite (if lt (if gt p hi then hi else p) lo then lo else (if gt p hi then hi else p)) = true ∧
    toRat lo ≤ toRat (if lt (if gt p hi then hi else p) lo then lo else (if gt p hi then hi else p)) ∧
    toRat (if lt (if gt p hi then hi else p) lo then lo else (if gt p hi then hi else p)) ≤ toRat hi := by
  by_cases hpf : isFinite p = true
  · unfold gt
    rw [lt_finite hh hpf]
    by_cases h1 : toRat hi < toRat p
    · simp only [h1, decide_true, if_true]
      rw [lt_finite hh hl]
      have : ¬ toRat hi < toRat lo := by grind
      simp only [this, decide_false]
      exact ⟨hh, hle, Rat.le_refl⟩
    · simp only [h1, decide_false, Bool.false_eq_true, if_false]
      rw [lt_finite hpf hl]
      by_cases h2 : toRat p < toRat lo
      · simp only [h2, decide_true, if_true]
        exact ⟨hl, Rat.le_refl, hle⟩
      · simp only [h2, decide_false]
        exact ⟨hpf, by grind, by grind⟩
  · cases p with
    | nan => exact absurd rfl hp
    | zero c => simp [isFinite] at hpf
    | fin x => simp [isFinite] at hpf
    | inf n =>
      unfold gt
      rw [lt_finite_inf hh]
      cases n
      · simp only [Bool.not_false, if_true]
        rw [lt_finite hh hl]
        have : ¬ toRat hi < toRat lo := by grind
        simp only [this, decide_false]
        exact ⟨hh, hle, Rat.le_refl⟩
      · simp only [Bool.not_true, Bool.false_eq_true, if_false]
        rw [lt_inf_finite hl]
        simp only [if_true]
        exact ⟨hl, Rat.le_refl, hle⟩


def slewMaxD : Int := 8000000000

theorem pow2_53_lit : pow2 53 = 9007199254740992 := by decide +kernel
theorem pow2_tiny : pow2 (-1075) ≤ 1 / 1000000000000000000000000000000 := by decide +kernel

/-- `timemath.Duration(p)` for a finite `p` with `|p| ≤ D·c·(1+2⁻⁵³) + 2⁻¹⁰⁷⁵`, `c = fl(500e-6)`. -/
theorem toDuration_bounded {p2 : F64} {D : Int} (h1 : 1 ≤ D) (h2 : D ≤ 8000000000)
    (hf : isFinite p2 = true)
    (hlo : -((D : Rat) * (1152921504606847 / 2305843009213693952)
              + (D : Rat) * (1152921504606847 / 2305843009213693952) / 9007199254740992 + pow2 (-1075)) ≤ toRat p2)
    (hhi : toRat p2 ≤ (D : Rat) * (1152921504606847 / 2305843009213693952)
              + (D : Rat) * (1152921504606847 / 2305843009213693952) / 9007199254740992 + pow2 (-1075)) :
    -(500000 * D) ≤ toDuration p2 ∧ toDuration p2 ≤ 500000 * D := by
  have hD1 : ((1 : Int) : Rat) ≤ (D : Rat) := intCast_le_lit h1
  have hD2 : (D : Rat) ≤ ((8000000000 : Int) : Rat) := intCast_le_lit h2
  have e1 : ((1 : Int) : Rat) = 1 := by decide +kernel
  have e2 : ((8000000000 : Int) : Rat) = 8000000000 := by decide +kernel
  rw [e1] at hD1; rw [e2] at hD2
  have hcast : ((500000 * D + 1 : Int) : Rat) = 500000 * (D : Rat) + 1 := by
    rw [Rat.intCast_add, Rat.intCast_mul]; rfl
  generalize (D : Rat) = d at *
  have ht := pow2_tiny
  have ht0 := pow2_pos (-1075)
  unfold toDuration
  rw [ofInt_second]
  cases p2 with
  | nan => simp [isFinite] at hf
  | inf n => simp [isFinite] at hf
  | zero a =>
    rw [show mul (.zero a) (.fin 1000000000) = .zero (a != decide ((1000000000 : Rat) < 0)) from rfl,
      toInt64_zero]
    omega
  | fin P =>
    simp only [toRat] at hlo hhi
    simp only [mul]
    have hq : (P * 1000000000).abs ≤ maxFin := by
      apply big_le_maxFin; rw [abs_le_iff]
      generalize pow2 (-1075) = t at *
      constructor <;> grind
    have hqf := isFinite_roundNE_of_le hq
    have hqe := roundNE_err_gen hq
    rw [abs_le_iff, pow2_53_lit] at hqe
    generalize pow2 (-1075) = t at *
    cases hr : roundNE (P * 1000000000) with
    | nan => rw [hr] at hqf; simp [isFinite] at hqf
    | inf n => rw [hr] at hqf; simp [isFinite] at hqf
    | zero a => simp only [toInt64]; omega
    | fin X =>
      rw [hr] at hqe
      simp only [toRat] at hqe
      have hb : -((500000 * D + 1 : Int) : Rat) < X ∧ X < ((500000 * D + 1 : Int) : Rat) := by
        rw [hcast]
        by_cases hP : 0 ≤ P
        · rw [Rat.abs_of_nonneg (by grind)] at hqe; constructor <;> grind
        · rw [Rat.abs_of_nonpos (by grind)] at hqe; constructor <;> grind
      have := toInt64_fin_lt (X := X) (L := 500000 * D + 1) (by omega) hb.1 hb.2
      omega

/-- The clamped slew, converted with `timemath.Duration`, is at most 500 000 ns per whole
    second `D`, for `1 ≤ D ≤ 8·10⁹` (roundings: the constant `500e-6` itself, `D·fl(500e-6)`,
    `·1e9`; against the slack of the final truncation). -/
theorem slew_clamp_bound {p : F64} {D : Int} (hp : p ≠ .nan) (h1 : 1 ≤ D) (h2 : D ≤ slewMaxD) :
    -(500000 * D) ≤ toDuration (clamp p (.fin (D : Rat))) ∧
      toDuration (clamp p (.fin (D : Rat))) ≤ 500000 * D := by
  unfold slewMaxD at h2
  have hD1 : ((1 : Int) : Rat) ≤ (D : Rat) := intCast_le_lit h1
  have hD2 : (D : Rat) ≤ ((8000000000 : Int) : Rat) := intCast_le_lit h2
  have e1 : ((1 : Int) : Rat) = 1 := by decide +kernel
  have e2 : ((8000000000 : Int) : Rat) = 8000000000 := by decide +kernel
  rw [e1] at hD1; rw [e2] at hD2
  have hqh : ((D : Rat) * (1152921504606847 / 2305843009213693952)).abs ≤ maxFin := by
    apply big_le_maxFin; rw [abs_le_iff]; constructor <;> grind
  have hql : ((D : Rat) * -(1152921504606847 / 2305843009213693952)).abs ≤ maxFin := by
    apply big_le_maxFin; rw [abs_le_iff]; constructor <;> grind
  have hhf := isFinite_roundNE_of_le hqh
  have hlf := isFinite_roundNE_of_le hql
  have hhe := roundNE_err_gen hqh
  have hle' := roundNE_err_gen hql
  have hmono := roundNE_mono hql hqh (by grind)
  obtain ⟨hf, hlo, hhi⟩ := clamp_generic hp hhf hlf hmono
  have a1 : ((D : Rat) * (1152921504606847 / 2305843009213693952)).abs
      = (D : Rat) * (1152921504606847 / 2305843009213693952) := Rat.abs_of_nonneg (by grind)
  have a2 : ((D : Rat) * -(1152921504606847 / 2305843009213693952)).abs
      = (D : Rat) * (1152921504606847 / 2305843009213693952) := by
    rw [Rat.abs_of_nonpos (by grind)]; grind
  rw [abs_le_iff, a1, pow2_53_lit] at hhe
  rw [abs_le_iff, a2, pow2_53_lit] at hle'
  unfold clamp
  rw [slewPos_eq, slewNeg_eq]
  simp only [mul, slewC]
  refine toDuration_bounded h1 h2 hf ?_ ?_
  · generalize pow2 (-1075) = t at *; grind
  · generalize pow2 (-1075) = t at *; grind

/-! ### finiteness of the proportional term, gains, Adjust calls -/

theorem intCast_abs_le {n : Int} {m : Nat} (h : n.natAbs ≤ m) : ((n : Int) : Rat).abs ≤ ((m : Int) : Rat) := by
  rw [abs_le_iff]
  constructor
  · rw [← Rat.intCast_neg]; exact intCast_le_lit (by omega)
  · exact intCast_le_lit (by omega)

theorem ofInt_small {n : Int} (h : n.natAbs ≤ 2 ^ 53) :
    ofInt n = if n = 0 then .zero false else .fin (n : Rat) := by
  unfold ofInt
  by_cases h0 : n = 0
  · subst h0; simp only [if_true]; exact roundNE_zero
  · simp only [h0, if_false]
    refine roundNE_of_rep (rep_intCast h) ?_ ?_
    · intro hc; exact h0 (by have := Rat.intCast_eq_zero_iff.mp hc; exact this)
    · have h1 := intCast_abs_le h
      have h2 : (((2 ^ 53 : Nat) : Int) : Rat) < pow2 1024 := by decide +kernel
      grind

/-- `Duration.Seconds()` of any int64 is a finite double. -/
theorem durationSeconds_finite {d : Int} (h : minI64 ≤ d ∧ d ≤ maxI64) :
    isFinite (durationSeconds d) = true := by
  unfold minI64 maxI64 at h
  unfold durationSeconds
  have hq : (Int.tdiv d 1000000000).natAbs ≤ 9223372037 := by
    rcases Int.le_total 0 d with h0 | h0
    · rw [Int.tdiv_eq_ediv_of_nonneg h0]; omega
    · have : Int.tdiv d 1000000000 = -((-d) / 1000000000) := by
        rw [← Int.tdiv_eq_ediv_of_nonneg (by omega), Int.neg_tdiv, Int.neg_neg]
      rw [this]; omega
  have hr : (Int.tmod d 1000000000).natAbs < 1000000000 := by
    rcases Int.le_total 0 d with h0 | h0
    · rw [Int.tmod_eq_emod_of_nonneg h0]; omega
    · have : Int.tmod d 1000000000 = -((-d) % 1000000000) := by
        rw [← Int.tmod_eq_emod_of_nonneg (by omega), Int.neg_tmod, Int.neg_neg]
      rw [this]; omega
  rw [ofInt_small (n := Int.tdiv d 1000000000) (by omega),
    ofInt_small (n := Int.tmod d 1000000000) (by omega), ofInt_second]
  generalize Int.tdiv d 1000000000 = q at *
  generalize Int.tmod d 1000000000 = r at *
  have hqa := intCast_abs_le (m := 9223372037) hq
  have hra := intCast_abs_le (m := 1000000000) (by omega : r.natAbs ≤ 1000000000)
  have e1 : (((9223372037 : Nat) : Int) : Rat) = 9223372037 := by decide +kernel
  have e2 : (((1000000000 : Nat) : Int) : Rat) = 1000000000 := by decide +kernel
  rw [e1] at hqa; rw [e2] at hra
  rw [abs_le_iff] at hqa hra
  have hdiv : isFinite (div (if r = 0 then F64.zero false else .fin (r : Rat)) (.fin 1000000000)) = true
      ∧ (toRat (div (if r = 0 then F64.zero false else .fin (r : Rat)) (.fin 1000000000))).abs ≤ 1 := by
    by_cases hr0 : r = 0
    · simp only [hr0, if_true, div, isFinite, toRat]; exact ⟨trivial, by decide +kernel⟩
    · simp only [hr0, if_false, div]
      have hb : ((r : Rat) / 1000000000).abs ≤ 1 := by
        rw [abs_le_iff]; constructor
        · rw [le_div_iff (by decide)]; grind
        · rw [div_le_iff (by decide)]; grind
      have hm : ((r : Rat) / 1000000000).abs ≤ maxFin := big_le_maxFin (by grind)
      refine ⟨isFinite_roundNE_of_le hm, ?_⟩
      rw [toRat_roundNE_of_le hm]
      exact rnd_abs_le_of_rep rep_one hb
  generalize div (if r = 0 then F64.zero false else .fin (r : Rat)) (.fin 1000000000) = y at hdiv
  obtain ⟨hyf, hyb⟩ := hdiv
  rw [abs_le_iff] at hyb
  by_cases hq0 : q = 0
  · simp only [hq0, if_true]
    cases y <;> simp [isFinite] at hyf <;> simp [add, isFinite]
  · simp only [hq0, if_false]
    cases y with
    | nan => simp [isFinite] at hyf
    | inf n => simp [isFinite] at hyf
    | zero b => simp [add, isFinite]
    | fin v =>
      simp only [add]
      simp only [toRat] at hyb
      exact isFinite_roundNE_of_le (big_le_maxFin (by rw [abs_le_iff]; constructor <;> grind))

theorem mul_ne_nan {x y : F64} (hx : isFinite x = true) (hy : isFinite y = true) : mul x y ≠ .nan := by
  cases x <;> cases y <;> simp [isFinite] at hx hy <;> simp [mul]
  exact roundNE_ne_nan _


/-! ### gains stay bounded (under `0 ≤ pow ≤ 1`) -/

def pInitR : Rat := 5944751508129055 / 18014398509481984
def bInitR : Rat := 6341068275337659 / 1152921504606846976
theorem pInit_eq : pInit = .fin pInitR := by decide +kernel
theorem bInit_eq : div pInit iInit = .fin bInitR := by decide +kernel
theorem rep_pInitR : Rep pInitR :=
  (WF.rep (v := pInitR) ⟨by decide +kernel, by decide +kernel⟩).1
theorem rep_bInitR : Rep bInitR :=
  (WF.rep (v := bInitR) ⟨by decide +kernel, by decide +kernel⟩).1

/-- `l.a ∈ [0, 0.33]`, `l.b ∈ [0, 0.33/60]`, both finite. -/
structure Gain (s : State) : Prop where
  a : Bd pInitR s.a
  b : Bd bInitR s.b

theorem gain_init : Gain init :=
  ⟨⟨by decide +kernel, by decide +kernel, by decide +kernel⟩,
   ⟨by decide +kernel, by decide +kernel, by decide +kernel⟩⟩

theorem mul_bd {M : Rat} {x y : F64} (hx : Bd M x) (hy : Bd 1 y) (hR : Rep M) (hM : M ≤ maxFin) :
    Bd M (mul x y) := by
  obtain ⟨hfx, hx0, hx1⟩ := hx
  obtain ⟨hfy, hy0, hy1⟩ := hy
  have hM0 : 0 ≤ M := Rat.le_trans hx0 hx1
  cases x with
  | nan => simp [isFinite] at hfx
  | inf n => simp [isFinite] at hfx
  | zero a =>
    cases y with
    | nan => simp [isFinite] at hfy
    | inf n => simp [isFinite] at hfy
    | zero b => exact ⟨rfl, Rat.le_refl, hM0⟩
    | fin v => exact ⟨rfl, Rat.le_refl, hM0⟩
  | fin u =>
    cases y with
    | nan => simp [isFinite] at hfy
    | inf n => simp [isFinite] at hfy
    | zero b => exact ⟨rfl, Rat.le_refl, hM0⟩
    | fin v =>
      simp only [mul, toRat] at *
      have h1 : 0 ≤ u * v := Rat.mul_nonneg hx0 hy0
      have h2 : u * v ≤ u * 1 := Rat.mul_le_mul_of_nonneg_left hy1 hx0
      exact bd_roundNE h1 (by grind) hR hM

theorem aLow_bd : Bd pInitR aLow := ⟨by decide +kernel, by decide +kernel, by decide +kernel⟩
theorem bLow_bd : Bd bInitR bLow := ⟨by decide +kernel, by decide +kernel, by decide +kernel⟩
theorem aMid_bd : Bd pInitR aMid := ⟨by decide +kernel, by decide +kernel, by decide +kernel⟩
theorem bMid_bd : Bd bInitR bMid := ⟨by decide +kernel, by decide +kernel, by decide +kernel⟩

theorem gains_bd {s : State} (hg : Gain s) {pw : F64} (hpw : Bd 1 pw) (mdt : Int) (w : F64) :
    Gain (gains s mdt w pw).1 ∧ Bd pInitR (gains s mdt w pw).2.1 ∧ Bd bInitR (gains s mdt w pw).2.2 := by
  have hA : pInitR ≤ maxFin := Rat.le_trans (by decide +kernel) maxFin_big
  have hB : bInitR ≤ maxFin := Rat.le_trans (by decide +kernel) maxFin_big
  unfold gains
  split
  · exact ⟨hg, aLow_bd, bLow_bd⟩
  · split
    · exact ⟨hg, aMid_bd, bMid_bd⟩
    · split
      · have ha := mul_bd hg.a hpw rep_pInitR hA
        have hb := mul_bd hg.b hpw rep_bInitR hB
        exact ⟨⟨ha, hb⟩, ha, hb⟩
      · exact ⟨hg, hg.a, hg.b⟩

theorem step_gain {s : State} {e : Nat} {now off : Int} {w pw : F64} (hg : Gain s) (hpw : Bd 1 pw) :
    Gain ((step s e now off w pw).next s) := by
  have hg0 : Gain (syncEpoch s e) := by
    rcases syncEpoch_cases s e with ⟨_, h⟩ | ⟨_, h⟩ <;> rw [h]
    · exact ⟨hg.a, hg.b⟩
    · exact hg
  have hspec := step_spec s e now off w pw
  simp only at hspec
  rcases hspec with ⟨_, hr⟩ | ⟨_, _, hr⟩ | ⟨_, _, _, _, hr⟩ | ⟨_, _, _, _, hr⟩ | ⟨_, _, _, hr⟩ |
      ⟨_, _, hr⟩ | ⟨_, _, _, hr⟩ | ⟨_, _, _, hr⟩ | ⟨_, _, hr⟩ | ⟨_, _, _, hr⟩ | ⟨_, _, _, hr⟩ | ⟨_, hr⟩
  all_goals rw [hr]
  all_goals try exact hg
  all_goals try exact ⟨hg0.a, hg0.b⟩
  · refine ⟨?_, ?_⟩
    · show Bd pInitR pInit
      rw [pInit_eq]; exact ⟨rfl, by decide +kernel, Rat.le_refl⟩
    · show Bd bInitR (div pInit iInit)
      rw [bInit_eq]; exact ⟨rfl, by decide +kernel, Rat.le_refl⟩
  · have hgb := gains_bd hg0 hpw (timeSub now (syncEpoch s e).t0) w
    rcases track_cases (syncEpoch s e) now (timeSub now (syncEpoch s e).t0)
        (durationSeconds (timeSub now (syncEpoch s e).t)) (inv off) w pw with ⟨_, h⟩ | ⟨_, h⟩
    all_goals rw [h]; exact ⟨hgb.1.a, hgb.1.b⟩

/-- Everything about an `Adjust` call made by one update. -/
theorem step_adjust {s s' : State} {e : Nat} {now off : Int} {w pw : F64} {acts : List Action}
    {o d : Int} {f : F64}
    (h : step s e now off w pw = .ok s' acts) (ha : Action.adjust o d f ∈ acts) :
    e = s.epoch ∧ s.mode = 3 ∧ s'.mode = 3 ∧ acts = [.adjust o d f] ∧ f = s'.i ∧
    0 ≤ timeSub now s.t0 ∧
    gt (ceil (durationSeconds (timeSub now s.t))) fzero = true ∧
    d = toDuration (ceil (durationSeconds (timeSub now s.t))) ∧
    o = toDuration (clamp (mul (durationSeconds (inv (inv off))) (gains s (timeSub now s.t0) w pw).2.1)
          (ceil (durationSeconds (timeSub now s.t)))) ∧
    s'.i = add s.i (mul (mul (durationSeconds (inv (inv off))) (gains s (timeSub now s.t0) w pw).2.1)
          (gains s (timeSub now s.t0) w pw).2.2) := by
  have h0 : (syncEpoch s e).mode ≠ 0 → syncEpoch s e = s ∧ e = s.epoch := by
    rcases syncEpoch_cases s e with ⟨h', h⟩ | ⟨h', h⟩ <;> rw [h] <;> simp [h']
  have hspec := step_spec s e now off w pw
  simp only at hspec
  rw [h] at hspec
  rcases hspec with ⟨_, hr⟩ | ⟨_, _, hr⟩ | ⟨_, _, _, _, hr⟩ | ⟨_, _, _, _, hr⟩ | ⟨_, _, _, hr⟩ |
      ⟨_, _, hr⟩ | ⟨_, _, _, hr⟩ | ⟨_, _, _, hr⟩ | ⟨_, _, hr⟩ | ⟨_, _, _, hr⟩ | ⟨hm, hmdt, _, hr⟩ | ⟨_, hr⟩
  all_goals try (injection hr with _ hacts; rw [hacts] at ha; simp at ha)
  all_goals try (exact Outcome.noConfusion hr)
  obtain ⟨hs, he⟩ := h0 (by omega)
  rw [hs] at hr hm hmdt
  have hgf := gains_frame s (timeSub now s.t0) w pw
  simp only at hgf
  rcases track_cases s now (timeSub now s.t0) (durationSeconds (timeSub now s.t)) (inv off) w pw with
    ⟨hgt, ht⟩ | ⟨_, ht⟩
  · rw [ht] at hr
    injection hr with hs' hacts
    rw [hacts] at ha
    simp only [List.mem_singleton] at ha
    injection ha with ho hd hf
    refine ⟨he, hm, ?_, ?_, ?_, hmdt, hgt, hd, ho, ?_⟩
    · rw [hs']; simp [hgf, hm]
    · rw [hacts, ho, hd, hf]
    · rw [hf, hs']
    · rw [hs']; simp [hgf]
  · rw [ht] at hr
    injection hr with _ hacts
    rw [hacts] at ha; simp at ha

/-! ### histories -/

/-- (state before, input, outcome) for every update of a history -/
def trace (s : State) : List Input → List (State × Input × Outcome)
  | [] => []
  | x :: xs => (s, x, stepIn s x) :: trace ((stepIn s x).next s) xs

theorem run_eq_trace (s : State) (xs : List Input) : run s xs = (trace s xs).map (·.2.2) := by
  induction xs generalizing s with
  | nil => rfl
  | cons x xs ih => simp [run, trace, ih]

theorem trace_step {s : State} {xs : List Input} {τ : State × Input × Outcome} (h : τ ∈ trace s xs) :
    τ.2.2 = stepIn τ.1 τ.2.1 := by
  induction xs generalizing s with
  | nil => simp [trace] at h
  | cons x xs ih =>
    simp only [trace, List.mem_cons] at h
    rcases h with rfl | h
    · rfl
    · exact ih h

theorem trace_inv {P : State → Prop} (hstep : ∀ s x, P s → P ((stepIn s x).next s))
    {s : State} (hs : P s) (xs : List Input) : (∀ τ ∈ trace s xs, P τ.1) ∧ P (final s xs) := by
  induction xs generalizing s with
  | nil => simp [trace, final, hs]
  | cons x xs ih =>
    have := ih (hstep s x hs)
    simp only [trace, final, List.mem_cons]
    exact ⟨by rintro τ (rfl | h); exact hs; exact this.1 τ h, this.2⟩

/-- clock readings never decrease -/
def NonDecreasing : List Input → Prop
  | x :: y :: rest => x.now ≤ y.now ∧ NonDecreasing (y :: rest)
  | _ => True

/-- clock readings never decrease between two consecutive updates in the same clock epoch
    (weaker than `NonDecreasing`: a step of the clock may move the readings anywhere) -/
def NonDecreasingInEpoch : List Input → Prop
  | x :: y :: rest => (x.clkEpoch = y.clkEpoch → x.now ≤ y.now) ∧ NonDecreasingInEpoch (y :: rest)
  | _ => True

theorem NonDecreasing.inEpoch : ∀ {xs : List Input}, NonDecreasing xs → NonDecreasingInEpoch xs
  | [], _ => trivial
  | [_], _ => trivial
  | _ :: y :: rest, h => ⟨fun _ => h.1, NonDecreasing.inEpoch (xs := y :: rest) h.2⟩

/-- Under per-epoch monotone readings every update of a history starts in a state satisfying
    the invariant, sees a reading not before the previous one, and does not panic. -/
theorem trace_safe {s : State} {xs : List Input} (hI : Inv s)
    (hhead : ∀ x, xs.head? = some x → x.clkEpoch = s.epoch → s.mode ≠ 0 → s.t ≤ x.now)
    (hm : NonDecreasingInEpoch xs) :
    ∀ τ ∈ trace s xs, Inv τ.1 ∧ (τ.2.1.clkEpoch = τ.1.epoch → τ.1.mode ≠ 0 → τ.1.t ≤ τ.2.1.now) ∧
      ∃ s' acts, τ.2.2 = .ok s' acts := by
  induction xs generalizing s with
  | nil => simp [trace]
  | cons x xs ih =>
    have hx := hhead x rfl
    obtain ⟨s', acts, hst, hI', ht, he, hm0⟩ :=
      step_safe (s := s) (e := x.clkEpoch) (now := x.now) (off := x.offset) (w := x.weight) (pw := x.pow) hI hx
    have hnext : (stepIn s x).next s = s' := by simp [stepIn, hst, Outcome.next]
    simp only [trace, List.mem_cons]
    rintro τ (rfl | h)
    · exact ⟨hI, hx, s', acts, hst⟩
    · rw [hnext] at h
      refine ih hI' ?_ ?_ τ h
      · intro y hy hey _
        cases xs with
        | nil => simp at hy
        | cons z zs =>
          simp only [List.head?_cons, Option.some.injEq] at hy
          subst hy
          rw [ht]; exact hm.1 (by rw [hey, he])
      · cases xs with
        | nil => trivial
        | cons z zs => exact hm.2

/-! ### the integrator -/

/-- finite with magnitude at most `M` -/
def AbsBd (M : Rat) (x : F64) : Prop := isFinite x = true ∧ (toRat x).abs ≤ M

theorem AbsBd.nonneg {M : Rat} {x : F64} (h : AbsBd M x) : 0 ≤ M :=
  Rat.le_trans Rat.abs_nonneg h.2

theorem AbsBd.mono {M N : Rat} {x : F64} (h : AbsBd M x) (hMN : M ≤ N) : AbsBd N x :=
  ⟨h.1, Rat.le_trans h.2 hMN⟩

theorem Bd.absBd {M : Rat} {x : F64} (h : Bd M x) : AbsBd M x :=
  ⟨h.1, by rw [Rat.abs_of_nonneg h.2.1]; exact h.2.2⟩

theorem absBd_roundNE {q M : Rat} (hq : q.abs ≤ M) (hR : Rep M) (hM : M ≤ maxFin) :
    AbsBd M (roundNE q) := by
  have ha : q.abs ≤ maxFin := Rat.le_trans hq hM
  refine ⟨isFinite_roundNE_of_le ha, ?_⟩
  rw [toRat_roundNE_of_le ha]; exact rnd_abs_le_of_rep hR hq

theorem absBd_zero {M : Rat} (h : 0 ≤ M) (b : Bool) : AbsBd M (.zero b) := ⟨rfl, by simpa [toRat] using h⟩

theorem mul_absBd {x y : F64} {X Y M : Rat} (hx : AbsBd X x) (hy : AbsBd Y y) (hXY : X * Y ≤ M)
    (hR : Rep M) (hM : M ≤ maxFin) : AbsBd M (mul x y) := by
  have hM0 : 0 ≤ M := Rat.le_trans (Rat.mul_nonneg hx.nonneg hy.nonneg) hXY
  obtain ⟨hfx, hxa⟩ := hx
  obtain ⟨hfy, hya⟩ := hy
  cases x with
  | nan => simp [isFinite] at hfx
  | inf n => simp [isFinite] at hfx
  | zero a =>
    cases y with
    | nan => simp [isFinite] at hfy
    | inf n => simp [isFinite] at hfy
    | zero b => exact absBd_zero hM0 _
    | fin v => exact absBd_zero hM0 _
  | fin u =>
    cases y with
    | nan => simp [isFinite] at hfy
    | inf n => simp [isFinite] at hfy
    | zero b => exact absBd_zero hM0 _
    | fin v =>
      simp only [mul, toRat] at *
      refine absBd_roundNE ?_ hR hM
      rw [abs_mul]
      have h1 : u.abs * v.abs ≤ X * v.abs := Rat.mul_le_mul_of_nonneg_right hxa Rat.abs_nonneg
      have h2 : X * v.abs ≤ X * Y := Rat.mul_le_mul_of_nonneg_left hya (Rat.le_trans Rat.abs_nonneg hxa)
      exact Rat.le_trans (Rat.le_trans h1 h2) hXY

theorem add_absBd {x y : F64} {X Y : Rat} (hx : AbsBd X x) (hy : AbsBd Y y)
    (hR : Rep (X + Y)) (hM : X + Y ≤ maxFin) : AbsBd (X + Y) (add x y) := by
  have hX0 := hx.nonneg
  have hY0 := hy.nonneg
  obtain ⟨hfx, hxa⟩ := hx
  obtain ⟨hfy, hya⟩ := hy
  cases x with
  | nan => simp [isFinite] at hfx
  | inf n => simp [isFinite] at hfx
  | zero a =>
    cases y with
    | nan => simp [isFinite] at hfy
    | inf n => simp [isFinite] at hfy
    | zero b => exact absBd_zero (by grind) _
    | fin v => exact ⟨rfl, by simp only [add, toRat] at *; grind⟩
  | fin u =>
    cases y with
    | nan => simp [isFinite] at hfy
    | inf n => simp [isFinite] at hfy
    | zero b => exact ⟨rfl, by simp only [add, toRat] at *; grind⟩
    | fin v =>
      simp only [add, toRat] at *
      refine absBd_roundNE ?_ hR hM
      rw [abs_le_iff] at *
      constructor <;> grind


theorem rep_nat {k : Nat} (hk : k < 9007199254740992) : Rep ((k : Nat) : Rat) := by
  have := rep_natCast_mul (k := k) (K := 0) (show k < 2 ^ 53 from hk) (by decide)
  rwa [pow2_zero, Rat.mul_one] at this

/-- `Duration.Seconds()` of any int64: finite, magnitude at most 9 223 372 038. -/
theorem durationSeconds_absBd {d : Int} (h : minI64 ≤ d ∧ d ≤ maxI64) :
    AbsBd 9223372038 (durationSeconds d) := by
  unfold minI64 maxI64 at h
  unfold durationSeconds
  have hq : (Int.tdiv d 1000000000).natAbs ≤ 9223372037 := by
    rcases Int.le_total 0 d with h0 | h0
    · rw [Int.tdiv_eq_ediv_of_nonneg h0]; omega
    · have : Int.tdiv d 1000000000 = -((-d) / 1000000000) := by
        rw [← Int.tdiv_eq_ediv_of_nonneg (by omega), Int.neg_tdiv, Int.neg_neg]
      rw [this]; omega
  have hr : (Int.tmod d 1000000000).natAbs < 1000000000 := by
    rcases Int.le_total 0 d with h0 | h0
    · rw [Int.tmod_eq_emod_of_nonneg h0]; omega
    · have : Int.tmod d 1000000000 = -((-d) % 1000000000) := by
        rw [← Int.tmod_eq_emod_of_nonneg (by omega), Int.neg_tmod, Int.neg_neg]
      rw [this]; omega
  rw [ofInt_small (n := Int.tdiv d 1000000000) (by omega),
    ofInt_small (n := Int.tmod d 1000000000) (by omega), ofInt_second]
  generalize Int.tdiv d 1000000000 = q at *
  generalize Int.tmod d 1000000000 = r at *
  have hqa := intCast_abs_le (m := 9223372037) hq
  have hra := intCast_abs_le (m := 1000000000) (by omega : r.natAbs ≤ 1000000000)
  have e1 : (((9223372037 : Nat) : Int) : Rat) = 9223372037 := by decide +kernel
  have e2 : (((1000000000 : Nat) : Int) : Rat) = 1000000000 := by decide +kernel
  rw [e1] at hqa; rw [e2] at hra
  have hX : AbsBd 9223372037 (if q = 0 then F64.zero false else .fin (q : Rat)) := by
    by_cases hq0 : q = 0
    · simp only [hq0, if_true]; exact absBd_zero (by decide +kernel) _
    · simp only [hq0, if_false]; exact ⟨rfl, hqa⟩
  have hY : AbsBd 1 (div (if r = 0 then F64.zero false else .fin (r : Rat)) (.fin 1000000000)) := by
    by_cases hr0 : r = 0
    · simp only [hr0, if_true, div]; exact absBd_zero (by decide +kernel) _
    · simp only [hr0, if_false, div]
      rw [abs_le_iff] at hra
      have hb : ((r : Rat) / 1000000000).abs ≤ 1 := by
        rw [abs_le_iff]; constructor
        · rw [le_div_iff (by decide)]; grind
        · rw [div_le_iff (by decide)]; grind
      exact absBd_roundNE hb rep_one (Rat.le_trans (by decide +kernel) maxFin_big)
  have e3 : (9223372037 : Rat) + 1 = 9223372038 := by decide +kernel
  have := add_absBd hX hY (by rw [e3]; have := rep_nat (k := 9223372038) (by decide); exact this)
    (by rw [e3]; exact Rat.le_trans (by decide +kernel) maxFin_big)
  rwa [e3] at this

/-- The integrator after `n` updates: finite, `|l.i| ≤ n·2²⁵`. -/
def IntegBd (n : Nat) (s : State) : Prop := AbsBd ((n : Rat) * 33554432) s.i

theorem natCast_succ (n : Nat) : ((n + 1 : Nat) : Rat) = (n : Rat) + 1 := by
  rw [Rat.natCast_add]; rfl

theorem integBd_succ {n : Nat} {s : State} (h : IntegBd n s) : IntegBd (n + 1) s := by
  refine h.mono ?_
  rw [natCast_succ]
  have : (0 : Rat) ≤ (n : Rat) := Rat.natCast_nonneg
  grind

/-- growth of the integrator in one tracking update: `|p·b| ≤ 2²⁵` -/
theorem integ_term_absBd {off : Int} {a b : F64} (hoff : minI64 ≤ off ∧ off ≤ maxI64)
    (ha : Bd pInitR a) (hb : Bd bInitR b) :
    AbsBd 33554432 (mul (mul (durationSeconds off) a) b) := by
  have hs := durationSeconds_absBd hoff
  have hp : AbsBd ((4294967296 : Nat) : Rat) (mul (durationSeconds off) a) :=
    mul_absBd hs ha.absBd (by decide +kernel) (rep_nat (by decide))
      (Rat.le_trans (by decide +kernel) maxFin_big)
  have e : ((33554432 : Nat) : Rat) = 33554432 := by decide +kernel
  have := mul_absBd hp hb.absBd (M := ((33554432 : Nat) : Rat)) (by decide +kernel) (rep_nat (by decide))
    (Rat.le_trans (by decide +kernel) maxFin_big)
  rwa [e] at this

theorem step_integ {s : State} {e : Nat} {now off : Int} {w pw : F64} {n : Nat}
    (hg : Gain s) (hpw : Bd 1 pw) (hoff : minI64 ≤ off ∧ off ≤ maxI64) (hn : n + 1 < 2 ^ 53)
    (hi : IntegBd n s) : IntegBd (n + 1) ((step s e now off w pw).next s) := by
  have hi0 : IntegBd n (syncEpoch s e) := by
    rcases syncEpoch_cases s e with ⟨_, h⟩ | ⟨_, h⟩ <;> rw [h] <;> exact hi
  have hg0 : Gain (syncEpoch s e) := by
    rcases syncEpoch_cases s e with ⟨_, h⟩ | ⟨_, h⟩ <;> rw [h]
    · exact ⟨hg.a, hg.b⟩
    · exact hg
  have hspec := step_spec s e now off w pw
  simp only at hspec
  rcases hspec with ⟨_, hr⟩ | ⟨_, _, hr⟩ | ⟨_, _, _, _, hr⟩ | ⟨_, _, _, _, hr⟩ | ⟨_, _, _, hr⟩ |
      ⟨_, _, hr⟩ | ⟨_, _, _, hr⟩ | ⟨_, _, _, hr⟩ | ⟨_, _, hr⟩ | ⟨_, _, _, hr⟩ | ⟨_, _, _, hr⟩ | ⟨_, hr⟩
  all_goals rw [hr]
  all_goals try exact integBd_succ hi
  all_goals try exact integBd_succ hi0
  have hgb := gains_bd hg0 hpw (timeSub now (syncEpoch s e).t0) w
  have hgf := gains_frame (syncEpoch s e) (timeSub now (syncEpoch s e).t0) w pw
  simp only at hgf
  have hr2 := inv_range (inv_range hoff |> fun h => ⟨by omega, h.2⟩)
  have hterm := integ_term_absBd (off := inv (inv off)) ⟨by omega, hr2.2⟩ hgb.2.1 hgb.2.2
  have hi1 : AbsBd ((n : Rat) * 33554432) (gains (syncEpoch s e) (timeSub now (syncEpoch s e).t0) w pw).1.i := by
    rw [hgf.2.2.2.2]; exact hi0
  have hsum : (n : Rat) * 33554432 + 33554432 = ((n + 1 : Nat) : Rat) * 33554432 := by
    rw [natCast_succ]; grind
  have hp25 : pow2 25 = 33554432 := by decide +kernel
  have hrep : Rep (((n + 1 : Nat) : Rat) * 33554432) := by
    have := rep_natCast_mul (k := n + 1) (K := 25) hn (by decide)
    rwa [hp25] at this
  have hmax : ((n + 1 : Nat) : Rat) * 33554432 ≤ maxFin := by
    have h1 : ((n + 1 : Nat) : Rat) ≤ ((9007199254740992 : Nat) : Rat) :=
      Rat.natCast_le_natCast.mpr (by have : (2:Nat) ^ 53 = 9007199254740992 := by decide
                                     omega)
    have h2 : ((n + 1 : Nat) : Rat) * 33554432 ≤ ((9007199254740992 : Nat) : Rat) * 33554432 :=
      Rat.mul_le_mul_of_nonneg_right h1 (by decide +kernel)
    have h3 : ((9007199254740992 : Nat) : Rat) * 33554432 = pow2 78 := by decide +kernel
    rw [h3] at h2
    exact Rat.le_trans h2 (pow2_le_maxFin (by decide))
  have hadd := add_absBd hi1 hterm (by rw [hsum]; exact hrep) (by rw [hsum]; exact hmax)
  rw [hsum] at hadd
  rcases track_cases (syncEpoch s e) now (timeSub now (syncEpoch s e).t0)
      (durationSeconds (timeSub now (syncEpoch s e).t)) (inv off) w pw with ⟨_, h⟩ | ⟨_, h⟩
  all_goals rw [h]; exact hadd

/-- a relation holds between every two consecutive updates -/
def Consec (R : Input → Input → Prop) : List Input → Prop
  | x :: y :: rest => R x y ∧ Consec R (y :: rest)
  | _ => True

/-- `trace_safe` with the link to the previous update: in a history without panics the state
    before an update is in mode 0 (very first update) or carries the previous update's reading
    in `l.t`. -/
theorem trace_linked {R : Input → Input → Prop} {s : State} {xs : List Input} (hI : Inv s)
    (prev : Option Input) (hnone : prev = none → s.mode = 0)
    (hprev : ∀ p, prev = some p → s.t = p.now ∧ s.epoch = p.clkEpoch)
    (hheadR : ∀ x p, xs.head? = some x → prev = some p → R p x ∧ (p.clkEpoch = x.clkEpoch → p.now ≤ x.now))
    (hm : NonDecreasingInEpoch xs) (hR : Consec R xs) :
    ∀ τ ∈ trace s xs, Inv τ.1 ∧ (∃ s' acts, τ.2.2 = .ok s' acts) ∧
      (τ.1.mode = 0 ∨ ∃ p, R p τ.2.1 ∧ τ.1.t = p.now ∧ (τ.2.1.clkEpoch = τ.1.epoch → p.now ≤ τ.2.1.now)) := by
  induction xs generalizing s prev with
  | nil => simp [trace]
  | cons x xs ih =>
    have hx : x.clkEpoch = s.epoch → s.mode ≠ 0 → s.t ≤ x.now := by
      intro he h0
      cases prev with
      | none => exact absurd (hnone rfl) h0
      | some p =>
        obtain ⟨ht, hep⟩ := hprev p rfl
        rw [ht]; exact (hheadR x p rfl rfl).2 (by rw [← hep, he])
    obtain ⟨s', acts, hst, hI', ht, he, hm0⟩ :=
      step_safe (s := s) (e := x.clkEpoch) (now := x.now) (off := x.offset) (w := x.weight) (pw := x.pow) hI hx
    have hnext : (stepIn s x).next s = s' := by simp [stepIn, hst, Outcome.next]
    simp only [trace, List.mem_cons]
    rintro τ (rfl | h)
    · refine ⟨hI, ⟨s', acts, hst⟩, ?_⟩
      cases prev with
      | none => exact Or.inl (hnone rfl)
      | some p =>
        obtain ⟨ht', hep⟩ := hprev p rfl
        refine Or.inr ⟨p, (hheadR x p rfl rfl).1, ht', fun he' => (hheadR x p rfl rfl).2 (by rw [← hep, he'])⟩
    · rw [hnext] at h
      refine ih hI' (some x) (by intro hc; cases hc) ?_ ?_ ?_ ?_ τ h
      · intro p hp; cases hp; exact ⟨ht, he⟩
      · intro y p hy hp
        cases hp
        cases xs with
        | nil => simp at hy
        | cons z zs =>
          simp only [List.head?_cons, Option.some.injEq] at hy
          subst hy
          exact ⟨hR.1, hm.1⟩
      · cases xs with
        | nil => trivial
        | cons z zs => exact hm.2
      · cases xs with
        | nil => trivial
        | cons z zs => exact hR.2

/-- index-carrying induction for the integrator bound -/
theorem trace_integ {s : State} {xs : List Input} {n : Nat} (hg : Gain s) (hi : IntegBd n s)
    (hpw : ∀ x ∈ xs, Bd 1 x.pow) (hoff : ∀ x ∈ xs, minI64 ≤ x.offset ∧ x.offset ≤ maxI64)
    (hlen : n + xs.length < 2 ^ 53) :
    ∀ τ ∈ trace s xs, IntegBd (n + xs.length) (τ.2.2.next τ.1) := by
  induction xs generalizing s n with
  | nil => simp [trace]
  | cons x xs ih =>
    simp only [List.length_cons] at hlen ⊢
    have hstep := step_integ (s := s) (e := x.clkEpoch) (now := x.now) (off := x.offset) (w := x.weight)
      (pw := x.pow) (n := n) hg (hpw x (List.mem_cons_self ..)) (hoff x (List.mem_cons_self ..)) (by omega) hi
    have hgs := step_gain (s := s) (e := x.clkEpoch) (now := x.now) (off := x.offset) (w := x.weight)
      (pw := x.pow) hg (hpw x (List.mem_cons_self ..))
    simp only [trace, List.mem_cons]
    rintro τ (rfl | h)
    · have hmono : ∀ k, IntegBd (n + 1) ((stepIn s x).next s) → IntegBd (n + 1 + k) ((stepIn s x).next s) := by
        intro k hk
        induction k with
        | zero => exact hk
        | succ k ihk => exact integBd_succ ihk
      have := hmono xs.length hstep
      rwa [show n + 1 + xs.length = n + (xs.length + 1) by omega] at this
    · have := ih (n := n + 1) hgs hstep (fun y hy => hpw y (List.mem_cons_of_mem _ hy))
        (fun y hy => hoff y (List.mem_cons_of_mem _ hy)) (by omega) τ h
      rwa [show n + 1 + xs.length = n + (xs.length + 1) by omega] at this


end ScionTime.Pll
