/-
  Helper lemmas about Model/ClientNtp.lean: what `accept` implies at the NTP stage, and that
  the receive loop accepts only through `classify … = accept`, after at most one retry.
-/
import ScionTime.Model.ClientNtp
import ScionTime.Proofs.NtpMath
namespace ScionTime.ClientNtp
open ScionTime.Time64 ScionTime.NtpMath

theorem validateTimestamps_ok (t0 t1 t2 t3 : Int) (h : validateTimestamps t0 t1 t2 t3 = .ok) :
    t0 ≤ t3 ∧ t1 ≤ t2 := by
  unfold validateTimestamps at h
  split at h
  · cases h
  · split at h
    · cases h
    · rename_i h1 h2
      rw [sub64_neg_iff] at h1 h2
      omega

theorem validMetadata_true (lvm st : Nat) (h : validMetadata lvm st = true) :
    leap lvm ≠ 3 ∧ (version lvm = 3 ∨ version lvm = 4) ∧ mode lvm = 4 ∧ 1 ≤ st ∧ st ≤ 15 := by
  unfold validMetadata at h
  split at h
  · cases h
  · split at h
    · cases h
    · split at h
      · cases h
      · split at h
        · cases h
        · omega

/-- the tuple the NTP stage builds for payload `p` -/
def tupleOf (prev : Prev) (req : Req) (cTx1 cRx : Int) (p : Payload) : Accepted :=
  let il := req.interleaved && p.pkt.origin == req.rx
  { il := il
    t0 := if il then toTime prev.cTx req.cTx0 else cTx1
    t1 := if il then toTime prev.sRx req.cTx0 else toTime p.pkt.rx req.cTx0
    t2 := toTime p.pkt.tx req.cTx0
    t3 := if il then toTime prev.cRx req.cTx0 else cRx
    cRx := cRx
    sRx64 := p.pkt.rx }

/-- Everything `ntpStage … = accept a` implies. -/
theorem ntpStage_accept (cfg : Cfg) (prev : Prev) (req : Req) (cTx1 cRx : Int) (p : Payload)
    (a : Accepted) (h : ntpStage cfg prev req cTx1 cRx p = .accept a) :
    48 ≤ p.len ∧
    (cfg.nts = true → p.ntsDecodeOk = true ∧ p.ntsUidEq = true ∧ p.ntsOpenOk = true) ∧
    ((req.interleaved = true ∧ p.pkt.origin = req.rx) ∨ p.pkt.origin = req.tx) ∧
    validMetadata p.pkt.lvm p.pkt.stratum = true ∧
    a = tupleOf prev req cTx1 cRx p ∧ a.t0 ≤ a.t3 ∧ a.t1 ≤ a.t2 := by
  unfold ntpStage at h
  split at h
  · cases h
  rename_i hlen
  split at h
  · cases h
  rename_i hdec
  split at h
  · cases h
  rename_i hproc
  simp only at h
  split at h
  · cases h
  rename_i horg
  split at h
  · cases h
  rename_i hmeta
  split at h
  · cases h
  · cases h
  rename_i hts
  have hv := validateTimestamps_ok _ _ _ _ hts
  injection h with h
  subst h
  refine ⟨by omega, ?_, ?_, by simpa using hmeta, rfl, hv.1, hv.2⟩
  · intro hn
    simp [hn] at hdec hproc
    exact ⟨hdec, hproc.1, hproc.2⟩
  · by_cases hil : (req.interleaved && p.pkt.origin == req.rx) = true
    · left; simpa using hil
    · right
      simp only [hil] at horg
      simpa using horg

/-- the loop accepts only what `classify` accepts, from a datagram event of the list -/
theorem runLoop_accepted {D : Type} (classify : Int → D → Step) (dl : Bool) (evs : List (Event D)) :
    ∀ (r n : Nat) (a : Accepted) (m : Nat), runLoop classify dl r n evs = .accepted a m →
      ∃ d cRx b, Event.dgram d cRx b ∈ evs ∧ classify cRx d = .accept a := by
  induction evs with
  | nil => intro r n a m h; simp [runLoop] at h
  | cons e rest ih =>
    intro r n a m h
    cases e with
    | readErr b =>
      simp only [runLoop] at h
      split at h
      · obtain ⟨d, c, b', hm, hc⟩ := ih _ _ _ _ h
        exact ⟨d, c, b', List.mem_cons_of_mem _ hm, hc⟩
      · cases h
    | badFlags b =>
      simp only [runLoop] at h
      split at h
      · obtain ⟨d, c, b', hm, hc⟩ := ih _ _ _ _ h
        exact ⟨d, c, b', List.mem_cons_of_mem _ hm, hc⟩
      · cases h
    | dgram d cRx b =>
      simp only [runLoop] at h
      split at h
      · split at h
        · obtain ⟨d', c, b', hm, hc⟩ := ih _ _ _ _ h
          exact ⟨d', c, b', List.mem_cons_of_mem _ hm, hc⟩
        · cases h
      · cases h
      · cases h
      · rename_i a' hc
        injection h with h1 h2
        subst h1
        exact ⟨d, cRx, b, List.mem_cons_self, hc⟩

/-- "one retry, then return": once `numRetries = 1` the next event is terminal. -/
theorem runLoop_retried {D : Type} (classify : Int → D → Step) (dl : Bool) (n : Nat)
    (e : Event D) (rest : List (Event D)) :
    (∃ a, runLoop classify dl 1 n (e :: rest) = .accepted a (n + 1)) ∨
    (∃ k, runLoop classify dl 1 n (e :: rest) = .error k (n + 1)) ∨
    runLoop classify dl 1 n (e :: rest) = .panic (n + 1) := by
  cases e with
  | readErr b => right; left; exact ⟨.read, by simp [runLoop, mayRetry, maxNumRetries]⟩
  | badFlags b => right; left; exact ⟨.flags, by simp [runLoop, mayRetry, maxNumRetries]⟩
  | dgram d cRx b =>
    simp only [runLoop, mayRetry, maxNumRetries]
    cases classify cRx d with
    | skip k => right; left; exact ⟨k, by simp⟩
    | fatal k => right; left; exact ⟨k, rfl⟩
    | panic => right; right; rfl
    | accept a => left; exact ⟨a, rfl⟩

/-- from a fresh loop, at most two events are consumed -/
theorem runLoop_consumes_le_two {D : Type} (classify : Int → D → Step) (dl : Bool)
    (evs : List (Event D)) :
    (∀ a m, runLoop classify dl 0 0 evs = .accepted a m → m ≤ 2) ∧
    (∀ k m, runLoop classify dl 0 0 evs = .error k m → m ≤ 2) := by
  cases evs with
  | nil => simp [runLoop]
  | cons e rest =>
    have second : (∀ a m, runLoop classify dl 1 1 rest = .accepted a m → m ≤ 2) ∧
        (∀ k m, runLoop classify dl 1 1 rest = .error k m → m ≤ 2) := by
      cases rest with
      | nil => simp [runLoop]
      | cons e2 rest2 =>
        rcases runLoop_retried classify dl 1 e2 rest2 with ⟨a, h⟩ | ⟨k, h⟩ | h
        all_goals (rw [h]; constructor <;> intro _ _ hh <;> cases hh <;> omega)
    cases e with
    | readErr b =>
      simp only [runLoop]
      split
      · exact second
      · constructor <;> intro _ _ hh <;> cases hh; omega
    | badFlags b =>
      simp only [runLoop]
      split
      · exact second
      · constructor <;> intro _ _ hh <;> cases hh; omega
    | dgram d cRx b =>
      simp only [runLoop]
      cases classify cRx d with
      | skip k =>
        simp only
        split
        · exact second
        · constructor <;> intro _ _ hh <;> cases hh; omega
      | fatal k => constructor <;> intro _ _ hh <;> cases hh; omega
      | panic => constructor <;> intro _ _ hh <;> cases hh
      | accept a => constructor <;> intro _ _ hh <;> cases hh; omega

/-- a basic (non-interleaved) request never reaches the `panic` of `ValidateResponseTimestamps`
    when the receive time handed to the NTP stage is not before the transmit time -/
theorem ntpStage_basic_no_panic (cfg : Cfg) (prev : Prev) (req : Req) (cTx1 cRx : Int) (p : Payload)
    (hb : req.interleaved = false) (hle : cTx1 ≤ cRx) : ntpStage cfg prev req cTx1 cRx p ≠ .panic := by
  unfold ntpStage
  split
  · simp
  split
  · simp
  split
  · simp
  simp only [hb, Bool.false_and, Bool.false_eq_true, if_false]
  split
  · simp
  split
  · simp
  unfold validateTimestamps
  have : ¬ (sub64 cRx cTx1 < 0) := by rw [sub64_neg_iff]; omega
  simp only [this, if_false]
  split
  · rename_i heq; split at heq <;> cases heq
  · simp
  · simp

theorem scionRxTime_within (d : ScionDgram) (cTx1 cRx : Int) (hle : cTx1 ≤ cRx) :
    cTx1 ≤ scionRxTime d cTx1 cRx ∧ scionRxTime d cTx1 cRx ≤ cRx := by
  unfold scionRxTime
  split
  · split
    · split <;> omega
    · omega
  · omega

theorem classifyIP_accept (cfg : Cfg) (server : Nat) (prev : Prev) (req : Req) (cTx1 cRx : Int)
    (d : IpDgram) (a : Accepted) (h : classifyIP cfg server prev req cTx1 cRx d = .accept a) :
    d.src = server ∧ ntpStage cfg prev req cTx1 cRx d.payload = .accept a := by
  unfold classifyIP at h
  split at h
  · cases h
  · rename_i hs
    exact ⟨by simpa using hs, h⟩

theorem classifySCION_accept (cfg : Cfg) (sc : ScionCtx) (prev : Prev) (req : Req) (cTx1 cRx : Int)
    (d : ScionDgram) (a : Accepted) (h : classifySCION cfg sc prev req cTx1 cRx d = .accept a) :
    d.decodeOk = true ∧ 2 ≤ d.decoded.length ∧ lastLayer d.decoded = some .udp ∧
    d.udpLength ≤ d.bufLen ∧
    d.srcIA = sc.remoteIA ∧ equalsIP d.srcHost sc.remoteHost = true ∧
    d.dstIA = sc.localIA ∧ equalsIP d.dstHost sc.localHost = true ∧
    (∀ au, (d.decoded.length ≥ 3 && secondLast d.decoded == some .e2e) = true → sc.keyAvailable = true →
        d.authOpt = some au → au.spi = spiServer → au.alg = algCMAC → au.macOk = true) ∧
    ntpStage cfg prev req cTx1 (scionRxTime d cTx1 cRx) d.payload = .accept a := by
  unfold classifySCION classifySCIONWith at h
  split at h
  · cases h
  rename_i h1
  split at h
  · cases h
  rename_i h2
  split at h
  · cases h
  rename_i h3
  split at h
  · cases h
  rename_i h4
  split at h
  · cases h
  split at h
  · cases h
  rename_i h5
  simp [addrCheck, addrValid] at h1 h2 h3 h5
  have hlast : lastLayer d.decoded = some .udp := by
    by_cases hu : lastLayer d.decoded = some .udp
    · exact hu
    · exact absurd (h2.2 hu) h3
  dsimp only at h
  refine ⟨h1, h2.1, hlast, by omega, h5.1, h5.2.1, h5.2.2.1, h5.2.2.2, ?_, ?_⟩
  · intro au he hk hau hspi halg
    rw [he, hk, hau] at h
    simp only [Bool.and_self, if_true] at h
    split at h
    · cases h
    · simp only [hspi, halg, beq_self_eq_true, Bool.and_self, if_true] at h
      split at h
      · cases h
      · rename_i hm; simpa using hm
  · split at h
    · cases hau : d.authOpt with
      | none => rw [hau] at h; exact h
      | some au =>
        rw [hau] at h
        simp only at h
        split at h
        · cases h
        · split at h
          · split at h
            · cases h
            · exact h
          · exact h
    · exact h

theorem mkRequest_cTx0 (cfg : Cfg) (prev : Prev) (reference : String) (now : Int) :
    (mkRequest cfg prev reference now).cTx0 = now := by
  unfold mkRequest; split <;> rfl

theorem mkRequest_interleaved (cfg : Cfg) (prev : Prev) (reference : String) (now : Int)
    (h : (mkRequest cfg prev reference now).interleaved = true) :
    prev.reference = reference ∧ cfg.interleavedMode = true ∧
    (mkRequest cfg prev reference now).origin = prev.sRx ∧
    (mkRequest cfg prev reference now).rx = prev.cRx ∧ (mkRequest cfg prev reference now).tx = prev.cTx := by
  unfold mkRequest at h ⊢
  split
  · rename_i hc
    simp only [Bool.and_eq_true, beq_iff_eq] at hc
    exact ⟨hc.1.2.symm, hc.1.1, rfl, rfl, rfl⟩
  · rename_i hc; rw [if_neg hc] at h; cases h


end ScionTime.ClientNtp
