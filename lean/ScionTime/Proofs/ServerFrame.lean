/-
  Frame lemmas for `handleRequest` / `updateTXTimestamp` (Model/Server.lean): which entries a
  call can leave on record. Every entry on record after a call was on record before it under the
  same client id, or it belongs to the calling client and carries the receive timestamp the call
  is about.
-/
import ScionTime.Proofs.ServerReply
namespace ScionTime.Server
open ScionTime.Time64

/-- entries of `m'` are entries of `m` under the same key, except possibly entries of `id` whose
    receive timestamp is `r` -/
def SubExc (m m' : Map) (id : Nat) (r : T64) : Prop :=
  ∀ k it' e, m'.find k = some it' → e ∈ it'.buf →
    (∃ it, m.find k = some it ∧ e ∈ it.buf) ∨ (k = id ∧ e.rx = r)

theorem SubExc.refl (m : Map) (id : Nat) (r : T64) : SubExc m m id r :=
  fun _ it' _ h he => Or.inl ⟨it', h, he⟩

theorem SubExc.trans {a b c : Map} {id : Nat} {r : T64} (h1 : SubExc a b id r) (h2 : SubExc b c id r) :
    SubExc a c id r := by
  intro k it' e hf he
  rcases h2 k it' e hf he with ⟨it, hb, heb⟩ | h
  · exact h1 k it e hb heb
  · exact Or.inr h

theorem subExc_of_same {m m' : Map} (h : Same m m') (id : Nat) (r : T64) : SubExc m m' id r := by
  intro k it' e hf he
  obtain ⟨it, h1, h2, _⟩ := same_find h hf
  exact Or.inl ⟨it, h1, by rw [h2]; exact he⟩

theorem subExc_setQval (m : Map) (k0 : Nat) (v : T64) (id : Nat) (r : T64) : SubExc m (setQval m k0 v) id r := by
  intro k it' e hf he
  rw [find_setQval] at hf
  split at hf
  · cases h : Map.find m k with
    | none => rw [h] at hf; cases hf
    | some it => rw [h] at hf; simp only [Option.map_some, Option.some.injEq] at hf; subst hf; exact Or.inl ⟨it, rfl, he⟩
  · exact Or.inl ⟨it', hf, he⟩

/-- maps whose entries agree on `core` for every key but `x`, where the new map has nothing -/
theorem subExc_of_core_except {m m' : Map} (x : Nat)
    (h : ∀ k, k ≠ x → (m'.find k).map core = (m.find k).map core) (hx : m'.find x = none)
    (id : Nat) (r : T64) : SubExc m m' id r := by
  intro k it' e hf he
  by_cases hk : k = x
  · subst hk; rw [hx] at hf; cases hf
  · have := h k hk
    rw [hf] at this
    cases h1 : Map.find m k with
    | none => rw [h1] at this; simp at this
    | some it =>
      rw [h1] at this
      simp only [Option.map_some, Option.some.injEq, core, Prod.mk.injEq] at this
      exact Or.inl ⟨it, rfl, by rw [← this.1]; exact he⟩

theorem mem_of_mem_storeEntry (icap : Nat) (buf : List Entry) (sc : Scan) (e x : Entry)
    (h : x ∈ storeEntry icap buf sc e) : x ∈ buf ∨ x = e := by
  unfold storeEntry at h
  split at h
  · rcases List.mem_or_eq_of_mem_set h with h | h
    · exact Or.inl h
    · exact Or.inr h
  · split at h
    · split at h
      · rcases List.mem_or_eq_of_mem_set h with h | h
        · exact Or.inl h
        · exact Or.inr h
      · exact Or.inl h
    · rcases List.mem_append.1 h with h | h
      · exact Or.inl h
      · exact Or.inr (by simpa using h)

/-- `handleRequest`: what is on record afterwards was on record before, or is an entry of the
    requesting client with the receive timestamp of this reply. -/
theorem hr_frame (strict : Bool) (cap icap : Nat) (hcap : 1 ≤ cap) (st : State) (wf : WF st) (id : Nat)
    (req : Req) (rxt now : Int) :
    SubExc st.items (handleRequestG strict cap icap st id req rxt now).st.items id
      (handleRequestG strict cap icap st id req rxt now).reply.rx := by
  unfold handleRequestG
  simp only
  split
  · rename_i it hit
    simp only [mkReply_rx]
    generalize ofTime (uniq it.buf rxt (if (strict && !decide (rxt < now)) = true then rxt + 1 else now) (it.buf.length + 1)).1 = rxt64
    generalize ofTime (uniq it.buf rxt (if (strict && !decide (rxt < now)) = true then rxt + 1 else now) (it.buf.length + 1)).2 = txt64
    obtain ⟨q', _, _, _, s1, _⟩ := hr_fix_spec st wf id it hit (scan it.buf req.org).mx rxt64
    intro k it' e hf he
    rw [find_setBuf] at hf
    by_cases hk : id = k
    · subst hk
      simp only [if_true] at hf
      cases h1 : Map.find (hrFix st id it.qidx (scan it.buf req.org).mx rxt64).items id with
      | none => rw [h1] at hf; cases hf
      | some it1 =>
        rw [h1] at hf
        simp only [Option.map_some, Option.some.injEq] at hf
        subst hf
        simp only at he
        obtain ⟨it0, h0, hb, _⟩ := same_find s1 h1
        rw [find_setQval] at h0
        simp only [if_true, hit, Option.map_some, Option.some.injEq] at h0
        subst h0
        simp only at hb
        rcases mem_of_mem_storeEntry _ _ _ _ _ he with h | h
        · exact Or.inl ⟨it, hit, by rw [hb]; exact h⟩
        · exact Or.inr ⟨rfl, by rw [h]⟩
    · simp only [hk, if_false] at hf
      rcases (subExc_of_same s1 id rxt64) k it' e hf he with ⟨it0, h0, he0⟩ | h
      · exact (subExc_setQval st.items id q' id rxt64) k it0 e h0 he0
      · exact Or.inr h
  · rename_i hnone
    have hev : SubExc st.items (evict cap st (ofTime rxt)).1.items id (ofTime rxt) := by
      unfold evict
      split
      · rename_i hc
        simp only [Bool.and_eq_true, decide_eq_true_eq] at hc
        have hpos : 0 < st.heap.size := by have := wf.len; omega
        obtain ⟨_, _, c, d⟩ := popMin_spec st wf hpos
        exact subExc_of_core_except (popMin st).2 c d id _
      · exact SubExc.refl _ _ _
    obtain ⟨w1, n1⟩ := evict_keeps cap hcap st wf (ofTime rxt) id hnone
    generalize evict cap st (ofTime rxt) = ev at hev w1 n1 ⊢
    split
    · simp only [mkReply_rx]; exact hev
    · simp only [mkReply_rx]
      obtain ⟨_, _, s2⟩ := push_spec ev.1 w1 id { buf := [], qval := ofTime rxt, qidx := 0 } n1
      refine SubExc.trans hev ?_
      intro k it' e hf he
      rw [find_setBuf] at hf
      by_cases hk : id = k
      · subst hk
        simp only [if_true] at hf
        cases h1 : Map.find (push { items := (id, { buf := [], qval := ofTime rxt, qidx := 0 }) :: ev.1.items, heap := ev.1.heap } id).items id with
        | none => rw [h1] at hf; cases hf
        | some it1 =>
          rw [h1] at hf
          simp only [Option.map_some, Option.some.injEq] at hf
          subst hf
          simp only at he
          obtain ⟨it0, h0, hb, _⟩ := same_find s2 h1
          rw [Map.find_cons] at h0
          simp only [if_true, Option.some.injEq] at h0
          subst h0
          simp only at hb
          rw [← hb] at he
          simp only [List.nil_append, List.mem_singleton] at he
          exact Or.inr ⟨rfl, by rw [he]⟩
      · simp only [hk, if_false] at hf
        obtain ⟨it0, h0, hb, _⟩ := same_find s2 hf
        rw [Map.find_cons] at h0
        simp only [hk, if_false] at h0
        exact Or.inl ⟨it0, h0, by rw [hb]; exact he⟩

/-- `updateTXTimestamp`: what is on record afterwards was on record before, or is the entry of
    this client with the receive timestamp the call is about. -/
theorem utx_frame (st : State) (wf : WF st) (id : Nat) (rxt txt1 : Int) :
    SubExc st.items (updateTX st id rxt txt1).1.items id (ofTime rxt) := by
  unfold updateTX
  simp only
  generalize (if ¬ rxt < txt1 then rxt + 1 else txt1) = txt
  split
  · exact SubExc.refl _ _ _
  · rename_i it hit
    have s2 := scan2_inv it.buf (ofTime rxt)
    generalize scan2 it.buf (ofTime rxt) = sc at s2 ⊢
    cases hx : sc.x with
    | none => exact SubExc.refl _ _ _
    | some x =>
      simp only
      have hxs := s2.x_some x hx
      have hxl : x < it.buf.length := by
        rcases Nat.lt_or_ge x it.buf.length with c | c
        · exact c
        · rw [List.getElem?_eq_none c] at hxs; cases hxs
      have hxrx : (it.buf.getD x defaultEntry).rx = ofTime rxt := by
        rw [List.getD_eq_getElem?_getD, List.getElem?_eq_getElem hxl]
        rw [List.getElem?_eq_getElem hxl] at hxs
        simpa using hxs
      split
      · -- the transmit timestamp is replaced
        intro k it' e hf he
        rw [find_setBuf] at hf
        by_cases hk : id = k
        · subst hk
          simp only [if_true, hit, Option.map_some, Option.some.injEq] at hf
          subst hf
          simp only at he
          rcases List.mem_or_eq_of_mem_set he with h | h
          · exact Or.inl ⟨it, hit, h⟩
          · exact Or.inr ⟨rfl, by rw [h]; exact hxrx⟩
        · simp only [hk, if_false] at hf
          exact Or.inl ⟨it', hf, he⟩
      · split
        · -- the client's only exchange: the item goes
          obtain ⟨_, _, c, d⟩ := remove_spec st wf id it hit
          exact subExc_of_core_except id c d id _
        · -- the exchange is removed from the item
          obtain ⟨q', _, _, _, s1, _⟩ := utx_fix_spec st wf id it hit sc.m0 sc.m1 (ofTime rxt)
          intro k it' e hf he
          rw [find_setBuf] at hf
          by_cases hk : id = k
          · subst hk
            simp only [if_true] at hf
            cases h1 : Map.find (utxFix st id it.qidx sc.m0 sc.m1 (ofTime rxt)).items id with
            | none => rw [h1] at hf; cases hf
            | some it1 =>
              rw [h1] at hf
              simp only [Option.map_some, Option.some.injEq] at hf
              subst hf
              simp only at he
              obtain ⟨it0, h0, hb, _⟩ := same_find s1 h1
              rw [find_setQval] at h0
              simp only [if_true, hit, Option.map_some, Option.some.injEq] at h0
              subst h0
              simp only at hb
              rw [← hb] at he
              have he2 := List.dropLast_subset _ he
              rcases List.mem_or_eq_of_mem_set he2 with h | h
              · exact Or.inl ⟨it, hit, h⟩
              · refine Or.inl ⟨it, hit, ?_⟩
                rw [h, List.getD_eq_getElem?_getD]
                have hl : it.buf.length - 1 < it.buf.length := by omega
                rw [List.getElem?_eq_getElem hl]
                exact List.getElem_mem hl
          · simp only [hk, if_false] at hf
            rcases (subExc_of_same s1 id (ofTime rxt)) k it' e hf he with ⟨it0, h0, he0⟩ | h
            · exact (subExc_setQval st.items id q' id (ofTime rxt)) k it0 e h0 he0
            · exact Or.inr h

end ScionTime.Server
