/-
  Proofs/F64Apply.lean — the rounding lemmas of F64Round in the form the C18 float theorems
  use: numerals instead of `pow2`, linear inequalities instead of absolute values.
-/
import ScionTime.Proofs.F64Round
namespace ScionTime.F64

theorem pow2_neg64 : pow2 (-64) = 1 / 18446744073709551616 := by
  unfold pow2; rw [if_neg (by omega)]
  have : (-(-64 : Int)).toNat = 64 := rfl
  rw [this]; simp

theorem pow2_64 : pow2 64 = 18446744073709551616 := by
  rw [pow2_of_nonneg 64 (by omega)]
  have : (64 : Int).toNat = 64 := rfl
  rw [this]; simp

theorem pow2_53v : pow2 53 = 9007199254740992 := by
  rw [pow2_of_nonneg 53 (by omega)]
  have : (53 : Int).toNat = 53 := rfl
  rw [this]; simp

theorem absR_bounds (t : Rat) : t ≤ absR t ∧ -t ≤ absR t := by
  obtain ⟨g1, g2⟩ := absR_eq t
  by_cases h : t < 0
  · rw [g1 h]; grind
  · rw [g2 h]; grind

/-- One correctly rounded operation whose exact result `q` has magnitude in `[2^-64, 2^64]`:
    the double `v` has the sign of `q` and `|v − q|·2^53 ≤ |q|`. -/
theorem round_step (q : Rat) (hq0 : q ≠ 0) (h1 : 1 / 18446744073709551616 ≤ absR q)
    (h2 : absR q ≤ 18446744073709551616) :
    ∃ v, roundNE q = .fin v ∧
      (0 < q → 0 < v ∧ (v - q) * 9007199254740992 ≤ q ∧ (q - v) * 9007199254740992 ≤ q) ∧
      (q < 0 → v < 0 ∧ (v - q) * 9007199254740992 ≤ -q ∧ (q - v) * 9007199254740992 ≤ -q) := by
  have hlo : pow2 (-1022) ≤ absR q := by
    have := pow2_le_of_le (show (-1022 : Int) ≤ -64 by omega)
    rw [pow2_neg64] at this; grind
  have hhi : absR q < pow2 1023 := by
    have := pow2_lt_of_lt (show (64 : Int) < 1023 by omega)
    rw [pow2_64] at this; grind
  obtain ⟨v, hv, herr, hpos, hneg⟩ := roundNE_relErr q hq0 hlo hhi
  rw [pow2_53v] at herr
  obtain ⟨b1, b2⟩ := absR_bounds (v - q)
  have c1 := Rat.mul_le_mul_of_nonneg_right b1 (show (0 : Rat) ≤ 9007199254740992 by grind)
  have c2 := Rat.mul_le_mul_of_nonneg_right b2 (show (0 : Rat) ≤ 9007199254740992 by grind)
  obtain ⟨g1, g2⟩ := absR_eq q
  refine ⟨v, hv, ?_, ?_⟩
  · intro hp
    have : absR q = q := g2 (by grind)
    rw [this] at herr
    refine ⟨hpos hp, by grind, by grind⟩
  · intro hn
    have : absR q = -q := g1 hn
    rw [this] at herr
    refine ⟨hneg hn, by grind, by grind⟩

end ScionTime.F64
