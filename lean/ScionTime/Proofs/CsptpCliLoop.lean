/-
  Helper lemmas for Props/C08CsptpCli.lean: one iteration of the client's receive loop
  (`CsptpCliLoop.iter`) in closed form — a classification of the datagram (`classify`) that
  depends on the datagram, its source, the sequence id and (for the partial overwrite) the old
  `resptlv` only, applied to the loop variables (`applyCls`).
-/
import ScionTime.Model.CsptpCliLoop
import ScionTime.Proofs.CsptpSrv
namespace ScionTime.CsptpCliLoop
open ScionTime.Wire ScionTime.Csptp ScionTime.CsptpClient

/-- what the loop body makes of one datagram -/
inductive Cls where
  /-- a failure path: error, log message, whether `respmsg0Ok` / `respmsg1Ok` were cleared before,
      and the new value of `resptlv` if the TLV decoder had already written to it -/
  | failed (err log : String) (reset0 reset1 : Bool) (tlv : Option ResponseTLV)
  | sync (msg : Message)
  | followUp (msg : Message) (tlv : ResponseTLV)
deriving Repr, DecidableEq

def classify (seq : Nat) (tlv0 : ResponseTLV) (wire : List Nat) (otherFlags : Nat) (src : Src) : Cls :=
  if CsptpSrv.recvFlags wire.length otherFlags ≠ 0 then .failed "flags" logRead false false none else
  if wire.length < minMessageLength then .failed "packet" logStructure false false none else
  match decodeMessage (wire.take minMessageLength) with
  | .panic _ => .failed "size" logDecode false false none
  | .err _ => .failed "size" logDecode false false none
  | .ok msg =>
    if wire.length ≠ msg.messageLength then .failed "packet" logUnexpected false false none else
    if msg.sequenceID ≠ seq then .failed "packet" logUnexpected false false none else
    if msg.sdoIDMessageType = messageTypeSync then
      if src ≠ .event then .failed "source" logSource true false none else
      if wire.length - minMessageLength ≠ 0 then .failed "packet" logUnexpected true false none else
      .sync msg
    else if msg.sdoIDMessageType = messageTypeFollowUp then
      if src ≠ .general then .failed "source" logSource false true none else
      if !(decodeInto tlv0 (wire.drop minMessageLength)).2 then
        .failed "tlv-size" logDecode false true (some (decodeInto tlv0 (wire.drop minMessageLength)).1) else
      if !isResponseKind (decodeInto tlv0 (wire.drop minMessageLength)).1 then
        .failed "packet" logUnexpected false true (some (decodeInto tlv0 (wire.drop minMessageLength)).1) else
      if wire.length - minMessageLength ≠ encodedTLVLength (decodeInto tlv0 (wire.drop minMessageLength)).1.flagField then
        .failed "packet" logUnexpected false true (some (decodeInto tlv0 (wire.drop minMessageLength)).1) else
      .followUp msg (decodeInto tlv0 (wire.drop minMessageLength)).1
    else .failed "packet" logUnexpected false false none

/-- the buffer after the read -/
def Loop.recv (st : Loop) (wire : List Nat) : Loop := { st with backing := CsptpSrv.recvInto st.backing wire }
/-- what a failure path did to the loop variables before it failed -/
def Loop.clear (st : Loop) (r0 r1 : Bool) (tlv : Option ResponseTLV) : Loop :=
  { st with ok0 := (bif r0 then false else st.ok0), ok1 := (bif r1 then false else st.ok1), tlv := tlv.getD st.tlv }
def Loop.keepSync (st : Loop) (rxt : Int) (msg : Message) : Loop := { st with rx0 := rxt, m0 := msg, ok0 := true }
def Loop.keepFollowUp (st : Loop) (tlv : ResponseTLV) (rxt : Int) (msg : Message) : Loop :=
  { st with tlv := tlv, rx1 := rxt, m1 := msg, ok1 := true }
/-- the `for` post statement -/
def Loop.bump (st : Loop) : Loop := { st with numRetries := st.numRetries + 1 }

def applyCls (dl : Bool) (st : Loop) (c : Cls) (rxt : Int) (before : Bool) : Step :=
  match c with
  | .failed err log r0 r1 tlv => failPath dl (st.clear r0 r1 tlv) before err log
  | .sync msg => endOfBody (st.keepSync rxt msg)
  | .followUp msg tlv => endOfBody (st.keepFollowUp tlv rxt msg)

def Result.kind : Result → String
  | .ok _ _ => "ok"
  | .err e _ => "err:" ++ e
  | .pending _ _ => "pending"
  | .panic c => "panic:" ++ c
def Result.trace : Result → List String
  | .ok _ t => t
  | .err _ t => t
  | .pending _ t => t
  | .panic _ => []
def Result.state? : Result → Option Loop
  | .ok st _ => some st
  | .pending st _ => some st
  | _ => none

/-- the state an iteration leaves behind, if it leaves one -/
def Step.state? : Step → Option Loop
  | .retry st _ => some st
  | .next st => some st
  | .done st => some st
  | _ => none

def Step.isPanic : Step → Bool
  | .panic _ => true
  | _ => false

def Step.isDone : Step → Bool
  | .done _ => true
  | _ => false

theorem iter_readErr (dl : Bool) (seq : Nat) (st : Loop) (before : Bool) :
    iter dl seq st (.readErr before) = failPath dl st before "read" logRead := rfl

/-- one iteration on a datagram, in closed form -/
theorem iter_dgram (dl : Bool) (seq : Nat) (st : Loop) (wire : List Nat) (f : Nat) (src : Src) (rxt : Int)
    (before : Bool) (hb : st.backing.length = maxMessageLength) :
    iter dl seq st (.dgram wire f src rxt before) =
      applyCls dl (st.recv wire) (classify seq st.tlv wire f src) rxt before := by
  have hb' : st.backing.length = CsptpSrv.maxMessageLength := hb
  have hlen := CsptpSrv.recvInto_length st.backing wire hb'
  unfold iter classify
  simp only
  by_cases hf : CsptpSrv.recvFlags wire.length f ≠ 0
  · rw [if_pos hf, if_pos hf]; rfl
  · rw [if_neg hf, if_neg hf]
    have hf0 : CsptpSrv.recvFlags wire.length f = 0 := by omega
    have hwl : wire.length ≤ 98 := (CsptpSrv.recvFlags_zero hf0).1
    have hmin : min wire.length maxMessageLength = wire.length := by unfold maxMessageLength; omega
    rw [hmin]
    by_cases hs : wire.length < minMessageLength
    · rw [if_pos hs, if_pos hs]; rfl
    · rw [if_neg hs, if_neg hs]
      have h44 : minMessageLength ≤ wire.length := by omega
      rw [CsptpSrv.sliceTo_ok _ _ (by rw [hlen]; decide)]
      simp only
      rw [CsptpSrv.recvInto_take _ _ _ (by unfold CsptpSrv.maxMessageLength; omega)]
      rcases C14.msg_decode_total (wire.take minMessageLength) with ⟨_, hm⟩ | ⟨_, hm⟩
      · rw [hm]; rfl
      · rw [hm]
        simp only
        split
        · rfl
        · split
          · rfl
          · split
            · split
              · rfl
              · split <;> rfl
            · split
              · split
                · rfl
                · rw [CsptpSrv.sliceFrom_ok _ _ _ h44]
                  simp only
                  rw [CsptpSrv.recvInto_take _ _ _ (by unfold CsptpSrv.maxMessageLength; omega),
                    List.take_of_length_le (Nat.le_refl _)]
                  split
                  · rfl
                  · split
                    · rfl
                    · split <;> rfl
              · rfl

theorem failPath_cases (dl : Bool) (st : Loop) (before : Bool) (err log : String) :
    (failPath dl st before err log = .retry st.bump log ∧
      dl = true ∧ before = true ∧ st.numRetries ≠ maxNumRetries) ∨
    (failPath dl st before err log = .fail err ∧ (dl = false ∨ before = false ∨ st.numRetries = maxNumRetries)) := by
  unfold failPath
  by_cases h : st.numRetries ≠ maxNumRetries ∧ dl = true ∧ before = true
  · rw [if_pos h]; exact .inl ⟨rfl, h.2.1, h.2.2, h.1⟩
  · rw [if_neg h]
    refine .inr ⟨rfl, ?_⟩
    cases dl <;> cases before <;> simp_all

theorem endOfBody_cases (st : Loop) :
    (endOfBody st = .done st ∧ st.ok0 = true ∧ st.ok1 = true) ∨
    (endOfBody st = .next st.bump ∧ (st.ok0 = false ∨ st.ok1 = false)) := by
  unfold endOfBody Loop.bump
  cases h0 : st.ok0 <;> cases h1 : st.ok1 <;> simp

theorem decodeInto_ok {old : ResponseTLV} {b : List Nat} (h : (decodeInto old b).2 = true) :
    decodeResponseTLV b = .ok (decodeInto old b).1 := by
  unfold decodeInto at h ⊢
  rcases CsptpSrv.resp_decode_cases b with hd | ⟨t', hd⟩
  · rw [hd] at h
    simp only at h
    split at h <;> cases h
  · rw [hd]

theorem decodeInto_of_ok {old t : ResponseTLV} {b : List Nat} (h : decodeResponseTLV b = .ok t) :
    decodeInto old b = (t, true) := by
  unfold decodeInto; rw [h]

end ScionTime.CsptpCliLoop
