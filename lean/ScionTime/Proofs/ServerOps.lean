/-
  `handleRequest` and `updateTX` preserve the structural invariant `Inv0`.
-/
import ScionTime.Proofs.ServerInv
import ScionTime.Proofs.ServerScan2
namespace ScionTime.Server
open ScionTime.Time64
variable {P : Entry → Prop}

theorem mem_of_getElem?_map {buf : List Entry} {i : Nat} {v : T64}
    (h : (buf[i]?).map (·.rx) = some v) : ∃ e ∈ buf, e.rx = v := by
  cases hx : buf[i]? with
  | none => simp [hx] at h
  | some x => exact ⟨x, List.mem_of_getElem? hx, by simpa [hx] using h⟩

theorem find_setQval (m : Map) (id : Nat) (v : T64) (k : Nat) :
    Map.find (setQval m id v) k =
      if id = k then (Map.find m k).map (fun it => { it with qval := v }) else Map.find m k := by
  unfold setQval; rw [Map.find_modify]

theorem find_setBuf (m : Map) (id : Nat) (g : List Entry → List Entry) (k : Nat) :
    Map.find (setBuf m id g) k =
      if id = k then (Map.find m k).map (fun it => { it with buf := g it.buf }) else Map.find m k := by
  unfold setBuf; rw [Map.find_modify]

/-- the buffer written at the end of `handleRequest` satisfies the per-item invariant -/
theorem storeEntry_ok (icap id : Nat) (hic : 1 ≤ icap) (buf : List Entry) (q q' : T64)
    (ok : ItemOk P icap id buf q) (org : T64) (sc : Scan) (e : Entry)
    (hnc : ∀ x ∈ buf, x.rx ≠ e.rx) (hq : ∀ x ∈ buf, le64 x.rx q') (hq' : le64 e.rx q')
    (ho : e.owner = id) (hP : P e) : ItemOk P icap id (storeEntry icap buf sc e) q' := by
  have hnotin : e.rx ∉ buf.map (·.rx) := by
    intro hm
    obtain ⟨x, hx, hxe⟩ := List.mem_map.1 hm
    exact hnc x hx hxe
  have hset : ∀ i, ItemOk P icap id (buf.set i e) q' := by
    intro i
    refine ⟨by rw [List.length_set]; exact ok.len_pos, by rw [List.length_set]; exact ok.len_le, ?_, ?_, ?_, ?_⟩
    · rw [List.map_set]; exact nodup_set_notin _ _ _ ok.distinct hnotin
    · intro x hx
      rcases List.mem_or_eq_of_mem_set hx with hx | hx
      · exact hq x hx
      · subst hx; exact hq'
    · intro x hx
      rcases List.mem_or_eq_of_mem_set hx with hx | hx
      · exact ok.owner x hx
      · subst hx; exact ho
    · intro x hx
      rcases List.mem_or_eq_of_mem_set hx with hx | hx
      · exact ok.good x hx
      · subst hx; exact hP
  unfold storeEntry
  split
  · exact hset _
  · split
    · split
      · exact hset _
      · exact ⟨ok.len_pos, ok.len_le, ok.distinct, hq, ok.owner, ok.good⟩
    · rename_i hlen
      refine ⟨by simp, ?_, ?_, ?_, ?_, ?_⟩
      · have := ok.len_le; simp only [List.length_append, List.length_cons, List.length_nil]; omega
      · rw [List.map_append, List.nodup_append]
        refine ⟨ok.distinct, by simp, ?_⟩
        intro a ha b hb
        simp at hb; subst hb
        intro e'; subst e'; exact hnotin ha
      · intro x hx
        rcases List.mem_append.1 hx with hx | hx
        · exact hq x hx
        · simp at hx; subst hx; exact hq'
      · intro x hx
        rcases List.mem_append.1 hx with hx | hx
        · exact ok.owner x hx
        · simp at hx; subst hx; exact ho
      · intro x hx
        rcases List.mem_append.1 hx with hx | hx
        · exact ok.good x hx
        · simp at hx; subst hx; exact hP

theorem same_setQval_self (m : Map) (id : Nat) (it : Item) (hit : m.find id = some it) :
    Same (setQval m id it.qval) m := by
  intro k
  rw [find_setQval]
  by_cases e : id = k
  · subst e; simp [hit, core]
  · simp [e]

/-- the `heap.Fix` step of `handleRequest` (existing client) -/
theorem hr_fix_spec (st : State) (h : WF st) (id : Nat) (it : Item) (hit : st.items.find id = some it)
    (mx : Option (Nat × T64)) (rxt64 : T64) :
    ∃ q', WF (hrFix st id it.qidx mx rxt64) ∧
      (hrFix st id it.qidx mx rxt64).items.length = st.items.length ∧
      (hrFix st id it.qidx mx rxt64).heap.size = st.heap.size ∧
      Same (setQval st.items id q') (hrFix st id it.qidx mx rxt64).items ∧
      ((q' = it.qval ∧ hrFix st id it.qidx mx rxt64 = st ∧ ∀ i v, mx = some (i, v) → after rxt64 v = false) ∨
       (q' = rxt64 ∧ hrFix st id it.qidx mx rxt64 = fixQval st id rxt64 it.qidx ∧
          ∃ i v, mx = some (i, v) ∧ after rxt64 v = true)) := by
  unfold hrFix
  cases mx with
  | none =>
    exact ⟨it.qval, h, rfl, rfl, same_setQval_self _ _ _ hit, Or.inl ⟨rfl, rfl, by intro i v e; cases e⟩⟩
  | some p =>
    obtain ⟨i, v⟩ := p
    simp only
    by_cases ha : after rxt64 v = true
    · simp only [ha, if_true]
      obtain ⟨a, b, c, d⟩ := fixQval_spec st h id it hit rxt64
      exact ⟨rxt64, a, c, b, d, Or.inr ⟨rfl, trivial, i, v, rfl, ha⟩⟩
    · simp only [ha]
      refine ⟨it.qval, h, rfl, rfl, same_setQval_self _ _ _ hit, Or.inl ⟨rfl, rfl, ?_⟩⟩
      intro i' v' e; cases e; simpa using ha

theorem inv0_handleRequestG (strict : Bool) (cap icap : Nat) (hcap : 1 ≤ cap) (hic : 1 ≤ icap)
    (hic2 : icap < 1000000000) (st : State) (inv : Inv0 P cap icap st) (id : Nat) (req : Req)
    (rxt now : Int)
    (hP : ∀ a b : Int, rxt ≤ a → (strict = true → a < b) → (b ≤ now ∨ b ≤ a + 1) →
      P ⟨ofTime a, ofTime b, id⟩) :
    Inv0 P cap icap (handleRequestG strict cap icap st id req rxt now).st := by
  unfold handleRequestG
  simp only
  have htxt0 : (strict = true → rxt < (if (strict && !decide (rxt < now)) = true then rxt + 1 else now)) ∧
      ((if (strict && !decide (rxt < now)) = true then rxt + 1 else now) ≤ now ∨
       (if (strict && !decide (rxt < now)) = true then rxt + 1 else now) = rxt + 1) := by
    cases strict <;> simp <;> split <;> omega
  split
  · -- existing client
    rename_i it hit
    have ok := inv.items id it hit
    generalize (if (strict && !decide (rxt < now)) = true then rxt + 1 else now) = txt0 at htxt0 ⊢
    have hnc := uniq_spec it.buf rxt txt0 (by have := ok.len_le; omega)
    have hmono := uniq_mono it.buf (it.buf.length + 1) rxt txt0
    generalize (uniq it.buf rxt txt0 (it.buf.length + 1)) = u at hnc hmono ⊢
    have hPe : P ⟨ofTime u.1, ofTime u.2, id⟩ := by
      apply hP u.1 u.2 hmono.1
      · intro hs; exact hmono.2.2.2.1 (htxt0.1 hs)
      · rcases hmono.2.2.2.2.2 with c | c
        · rcases htxt0.2 with d | d
          · left; omega
          · right; omega
        · right; exact c
    have hnc' : ∀ x ∈ it.buf, x.rx ≠ ofTime u.1 := by
      intro x hx e
      have : collides it.buf (ofTime u.1) = true := (collides_iff _ _).2 ⟨x, hx, e⟩
      rw [hnc] at this; cases this
    have sinv := scan_inv it.buf req.org
    generalize scan it.buf req.org = sc at sinv ⊢
    obtain ⟨q', w1, l1, _, s1, hq'⟩ := hr_fix_spec st inv.wf id it hit sc.mx (ofTime u.1)
    replace hq' : (q' = it.qval ∧ ∀ i v, sc.mx = some (i, v) → after (ofTime u.1) v = false) ∨
        (q' = ofTime u.1 ∧ ∃ i v, sc.mx = some (i, v) ∧ after (ofTime u.1) v = true) := by
      rcases hq' with ⟨a, _, c⟩ | ⟨a, _, c⟩
      · exact Or.inl ⟨a, c⟩
      · exact Or.inr ⟨a, c⟩
    generalize hrFix st id it.qidx sc.mx (ofTime u.1) = st1 at w1 l1 s1 ⊢
    -- the bound on q'
    have hbound : (∀ x ∈ it.buf, le64 x.rx q') ∧ le64 (ofTime u.1) q' := by
      rcases hq' with ⟨e, hf⟩ | ⟨e, i, v, hm, ha⟩
      · subst e
        refine ⟨ok.qval_ge, ?_⟩
        cases hm : sc.mx with
        | none =>
          have := sinv.mx_none hm
          have := ok.len_pos
          simp_all
        | some p =>
          obtain ⟨i, v⟩ := p
          have ha := hf i v hm
          obtain ⟨h1, _⟩ := sinv.mx_some i v hm
          obtain ⟨x, hx, hxe⟩ := mem_of_getElem?_map h1
          have : le64 (ofTime u.1) v := by
            unfold le64; rw [← after_eq]; exact ha
          exact le64_trans this (hxe ▸ ok.qval_ge x hx)
      · subst e
        obtain ⟨_, h2⟩ := sinv.mx_some i v hm
        rw [after_eq] at ha
        have hv := le64_of_before ha
        exact ⟨fun x hx => le64_trans (h2 x hx) hv, le64_refl _⟩
    refine ⟨wf_modify st1 w1 id _ (fun _ => rfl), ?_, ?_⟩
    · simp only [setBuf, Map.length_modify, l1]; exact inv.size
    · intro k it2 hf
      simp only at hf
      rw [find_setBuf] at hf
      by_cases e : id = k
      · subst e
        simp only [if_true] at hf
        cases hf1 : Map.find st1.items id with
        | none => simp [hf1] at hf
        | some it1 =>
          simp only [hf1, Option.map_some, Option.some.injEq] at hf
          subst hf
          have hs := s1 id
          rw [find_setQval, hf1] at hs
          simp only [if_true, hit, Option.map_some, core, Option.some.injEq, Prod.mk.injEq] at hs
          simp only
          rw [← hs.1, ← hs.2]
          exact storeEntry_ok icap id hic it.buf it.qval q' ok req.org sc _ hnc' hbound.1 hbound.2 rfl hPe
      · simp only [e, if_false] at hf
        obtain ⟨it0, h1, h2, h3⟩ := same_find s1 hf
        rw [find_setQval] at h1
        simp only [e, if_false] at h1
        rw [← h2, ← h3]; exact inv.items k it0 h1
  · -- new client
    rename_i hnone
    generalize (if (strict && !decide (rxt < now)) = true then rxt + 1 else now) = txt0 at htxt0 ⊢
    have hPe : P ⟨ofTime rxt, ofTime txt0, id⟩ := by
      apply hP rxt txt0 (Int.le_refl _) htxt0.1
      rcases htxt0.2 with d | d
      · left; exact d
      · right; omega
    -- the state after the optional eviction
    have hev : ∀ (ev : State × Option Nat), ev = evict cap st (ofTime rxt) →
        WF ev.1 ∧ ev.1.items.length ≤ cap ∧ ev.1.items.find id = none ∧ ItemsOk P icap ev.1.items := by
      intro ev hev
      unfold evict at hev
      split at hev
      · rename_i hc
        simp only [Bool.and_eq_true, decide_eq_true_eq] at hc
        have hpos : 0 < st.heap.size := by have := inv.wf.len; omega
        obtain ⟨a, b, c, d⟩ := popMin_spec st inv.wf hpos
        subst hev
        simp only
        refine ⟨a, by have := inv.size; omega, ?_, ?_⟩
        · by_cases e : id = (popMin st).2
          · rw [e]; exact d
          · have := c id e
            rw [hnone] at this
            cases hf : Map.find (popMin st).1.items id <;> simp [hf] at this ⊢
        · intro k it' hf
          have hk : k ≠ (popMin st).2 := by
            intro e; rw [e, d] at hf; cases hf
          have := c k hk
          rw [hf] at this
          cases hf0 : Map.find st.items k with
          | none => simp [hf0] at this
          | some it0 =>
            simp only [hf0, Option.map_some, core, Option.some.injEq, Prod.mk.injEq] at this
            rw [this.1, this.2]; exact inv.items k it0 hf0
      · subst hev
        exact ⟨inv.wf, inv.size, hnone, inv.items⟩
    obtain ⟨w1, l1, n1, i1⟩ := hev _ rfl
    generalize evict cap st (ofTime rxt) = ev at w1 l1 n1 i1 ⊢
    split
    · exact ⟨w1, l1, i1⟩
    · rename_i hne
      obtain ⟨w2, l2, s2⟩ := push_spec ev.1 w1 id { buf := [], qval := ofTime rxt, qidx := 0 } n1
      generalize (push { ev.1 with items := (id, { buf := [], qval := ofTime rxt, qidx := 0 }) :: ev.1.items } id) = st2 at w2 l2 s2 ⊢
      refine ⟨wf_modify st2 w2 id _ (fun _ => rfl), ?_, ?_⟩
      · simp only [setBuf, Map.length_modify, l2]; omega
      · intro k it2 hf
        simp only at hf
        rw [find_setBuf] at hf
        by_cases e : id = k
        · subst e
          simp only [if_true] at hf
          cases hf1 : Map.find st2.items id with
          | none => simp [hf1] at hf
          | some it1 =>
            simp only [hf1, Option.map_some, Option.some.injEq] at hf
            subst hf
            have hs := s2 id
            rw [hf1, Map.find_cons] at hs
            simp only [if_true, Option.map_some, core, Option.some.injEq, Prod.mk.injEq] at hs
            simp only
            rw [← hs.1, ← hs.2]
            refine ⟨by simp, by simpa using hic, by simp, ?_, ?_, ?_⟩
            · intro x hx; simp at hx; subst hx; exact le64_refl _
            · intro x hx; simp at hx; subst hx; rfl
            · intro x hx; simp at hx; subst hx; exact hPe
        · simp only [e, if_false] at hf
          obtain ⟨it0, h1, h2, h3⟩ := same_find s2 hf
          rw [Map.find_cons] at h1
          simp only [e, if_false] at h1
          rw [← h2, ← h3]; exact i1 k it0 h1


/-! ### updateTX -/

theorem itemsOk_update (icap : Nat) (m m1 : Map) (id : Nat) (it : Item) (q' : T64)
    (g : List Entry → List Entry) (ok : ItemsOk P icap m) (hit : m.find id = some it)
    (s1 : Same (setQval m id q') m1) (hnew : ItemOk P icap id (g it.buf) q') :
    ItemsOk P icap (setBuf m1 id g) := by
  intro k it2 hf
  rw [find_setBuf] at hf
  by_cases e : id = k
  · subst e
    simp only [if_true] at hf
    cases hf1 : Map.find m1 id with
    | none => simp [hf1] at hf
    | some it1 =>
      simp only [hf1, Option.map_some, Option.some.injEq] at hf
      subst hf
      have hs := s1 id
      rw [find_setQval, hf1] at hs
      simp only [if_true, hit, Option.map_some, core, Option.some.injEq, Prod.mk.injEq] at hs
      simp only
      rw [← hs.1, ← hs.2]
      exact hnew
  · simp only [e, if_false] at hf
    obtain ⟨it0, h1, h2, h3⟩ := same_find s1 hf
    rw [find_setQval] at h1
    simp only [e, if_false] at h1
    rw [← h2, ← h3]; exact ok k it0 h1

theorem set_eq_self_of_getElem? {α} : ∀ (l : List α) (i : Nat) (a : α), l[i]? = some a → l.set i a = l := by
  intro l
  induction l with
  | nil => intro i a h; simp at h
  | cons b l ih =>
    intro i a h
    cases i with
    | zero => simp at h; subst h; rfl
    | succ i => simp at h; simp [ih i a h]

theorem set_tx_ok (icap id : Nat) (buf : List Entry) (q : T64) (ok : ItemOk P icap id buf q)
    (x : Nat) (ex : Entry) (hx : buf[x]? = some ex) (t : T64) (hP : P { ex with tx := t }) :
    ItemOk P icap id (buf.set x { ex with tx := t }) q := by
  have hmem : ex ∈ buf := List.mem_of_getElem? hx
  refine ⟨by rw [List.length_set]; exact ok.len_pos, by rw [List.length_set]; exact ok.len_le, ?_, ?_, ?_, ?_⟩
  · rw [List.map_set]
    rw [set_eq_self_of_getElem? _ _ _ (by simp [hx])]
    exact ok.distinct
  · intro e he
    rcases List.mem_or_eq_of_mem_set he with he | he
    · exact ok.qval_ge e he
    · subst he; exact ok.qval_ge ex hmem
  · intro e he
    rcases List.mem_or_eq_of_mem_set he with he | he
    · exact ok.owner e he
    · subst he; exact ok.owner ex hmem
  · intro e he
    rcases List.mem_or_eq_of_mem_set he with he | he
    · exact ok.good e he
    · subst he; exact hP

theorem utx_fix_spec (st : State) (h : WF st) (id : Nat) (it : Item) (hit : st.items.find id = some it)
    (m0 m1 : Option (Nat × T64)) (rxt64 : T64) :
    ∃ q', WF (utxFix st id it.qidx m0 m1 rxt64) ∧
      (utxFix st id it.qidx m0 m1 rxt64).items.length = st.items.length ∧
      (utxFix st id it.qidx m0 m1 rxt64).heap.size = st.heap.size ∧
      Same (setQval st.items id q') (utxFix st id it.qidx m0 m1 rxt64).items ∧
      ((q' = it.qval ∧ utxFix st id it.qidx m0 m1 rxt64 = st) ∨
       (∃ i0 i1, m0 = some (i0, rxt64) ∧ m1 = some (i1, q') ∧
          utxFix st id it.qidx m0 m1 rxt64 = fixQval st id q' it.qidx)) := by
  have dflt : utxFix st id it.qidx m0 m1 rxt64 = st →
      ∃ q', WF (utxFix st id it.qidx m0 m1 rxt64) ∧
      (utxFix st id it.qidx m0 m1 rxt64).items.length = st.items.length ∧
      (utxFix st id it.qidx m0 m1 rxt64).heap.size = st.heap.size ∧
      Same (setQval st.items id q') (utxFix st id it.qidx m0 m1 rxt64).items ∧
      ((q' = it.qval ∧ utxFix st id it.qidx m0 m1 rxt64 = st) ∨
       (∃ i0 i1, m0 = some (i0, rxt64) ∧ m1 = some (i1, q') ∧
          utxFix st id it.qidx m0 m1 rxt64 = fixQval st id q' it.qidx)) := by
    intro e
    rw [e]
    exact ⟨it.qval, h, rfl, rfl, same_setQval_self _ _ _ hit, Or.inl ⟨rfl, rfl⟩⟩
  cases m0 with
  | none => exact dflt (by simp [utxFix])
  | some p0 =>
    obtain ⟨i0, v0⟩ := p0
    cases m1 with
    | none => exact dflt (by simp [utxFix])
    | some p1 =>
      obtain ⟨i1, v1⟩ := p1
      by_cases hv : v0 = rxt64
      · have e : utxFix st id it.qidx (some (i0, v0)) (some (i1, v1)) rxt64 = fixQval st id v1 it.qidx := by
          simp [utxFix, hv]
        rw [e]
        obtain ⟨a, b, c, d⟩ := fixQval_spec st h id it hit v1
        exact ⟨v1, a, c, b, d, Or.inr ⟨i0, i1, by rw [hv], rfl, rfl⟩⟩
      · exact dflt (by simp [utxFix, hv])

theorem inv0_updateTX (cap icap : Nat) (st : State) (inv : Inv0 P cap icap st) (id : Nat)
    (rxt txt1 : Int)
    (hP : ∀ (e : Entry) (t : Int), P e → e.rx = ofTime rxt → rxt < t → (t = txt1 ∨ t = rxt + 1) →
      P { e with tx := ofTime t }) :
    Inv0 P cap icap (updateTX st id rxt txt1).1 := by
  unfold updateTX
  simp only
  have htxt : rxt < (if ¬ rxt < txt1 then rxt + 1 else txt1) ∧
      ((if ¬ rxt < txt1 then rxt + 1 else txt1) = txt1 ∨ (if ¬ rxt < txt1 then rxt + 1 else txt1) = rxt + 1) := by
    split <;> omega
  split
  · exact inv
  · rename_i it hit
    have ok := inv.items id it hit
    generalize (if ¬ rxt < txt1 then rxt + 1 else txt1) = txt at htxt ⊢
    have s2 := scan2_inv it.buf (ofTime rxt)
    generalize scan2 it.buf (ofTime rxt) = sc at s2 ⊢
    split
    · exact inv
    · rename_i x hx
      have hxs := s2.x_some x hx
      have hxl : x < it.buf.length := by
        rcases Nat.lt_or_ge x it.buf.length with c | c
        · exact c
        · rw [List.getElem?_eq_none c] at hxs; cases hxs
      have hxe : it.buf[x]? = some (it.buf.getD x defaultEntry) := by
        rw [List.getD_eq_getElem?_getD, List.getElem?_eq_getElem hxl]; rfl
      have hxrx : (it.buf[x]).rx = ofTime rxt := by
        rw [List.getElem?_eq_getElem hxl] at hxs; simpa using hxs
      split
      · -- the transmit time is replaced
        refine ⟨wf_modify st inv.wf id _ (fun _ => rfl), ?_, ?_⟩
        · simp only [setBuf, Map.length_modify]; exact inv.size
        · exact itemsOk_update icap st.items st.items id it it.qval
            (fun b => b.set x { (it.buf.getD x defaultEntry) with tx := ofTime txt }) inv.items hit
            (same_setQval_self _ _ _ hit) (set_tx_ok icap id it.buf it.qval ok x _ hxe _
              (hP _ txt (ok.good _ (List.mem_of_getElem? hxe))
                (by rw [List.getD_eq_getElem?_getD, List.getElem?_eq_getElem hxl]; exact hxrx) htxt.1 htxt.2))
      · split
        · -- the whole item is removed
          obtain ⟨a, b, c, d⟩ := remove_spec st inv.wf id it hit
          simp only
          refine ⟨a, by have := inv.size; omega, ?_⟩
          intro k it' hf
          have hk : k ≠ id := by intro e; rw [e, d] at hf; cases hf
          have := c k hk
          rw [hf] at this
          cases hf0 : Map.find st.items k with
          | none => simp [hf0] at this
          | some it0 =>
            simp only [hf0, Option.map_some, core, Option.some.injEq, Prod.mk.injEq] at this
            rw [this.1, this.2]; exact inv.items k it0 hf0
        · -- one exchange is removed
          rename_i hlen1
          obtain ⟨q', w1, l1, _, s1, hq'⟩ := utx_fix_spec st inv.wf id it hit sc.m0 sc.m1 (ofTime rxt)
          replace hq' : q' = it.qval ∨ ∃ i0 i1, sc.m0 = some (i0, ofTime rxt) ∧ sc.m1 = some (i1, q') := by
            rcases hq' with ⟨a, _⟩ | ⟨i0, i1, a, b, _⟩
            · exact Or.inl a
            · exact Or.inr ⟨i0, i1, a, b⟩
          generalize utxFix st id it.qidx sc.m0 sc.m1 (ofTime rxt) = st1 at w1 l1 s1 ⊢
          refine ⟨wf_modify st1 w1 id _ (fun _ => rfl), ?_, ?_⟩
          · simp only [setBuf, Map.length_modify, l1]; exact inv.size
          · refine itemsOk_update icap st.items st1.items id it q' (fun b => swapRemove b x) inv.items hit s1 ?_
            show ItemOk P icap id (swapRemove it.buf x) q'
            have hlp := ok.len_pos
            refine ⟨by rw [length_swapRemove _ _ hxl]; omega,
              by rw [length_swapRemove _ _ hxl]; have := ok.len_le; omega,
              nodup_swapRemove _ _ hxl ok.distinct, ?_, ?_, ?_⟩
            · intro e he
              obtain ⟨hm, hne⟩ := rx_ne_of_mem_swapRemove hxl ok.distinct he
              rcases hq' with c | ⟨i0, i1, c0, c1⟩
              · rw [c]; exact ok.qval_ge e hm
              · rcases s2.m1_some i0 _ i1 q' c0 c1 e hm with d | d
                · rw [hxrx] at hne; exact absurd d hne
                · exact d
            · intro e he
              exact ok.owner e (rx_ne_of_mem_swapRemove hxl ok.distinct he).1
            · intro e he
              exact ok.good e (rx_ne_of_mem_swapRemove hxl ok.distinct he).1

end ScionTime.Server
