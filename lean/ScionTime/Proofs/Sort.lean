/-
  Helper lemmas for C02: insertion sort is a sorting permutation, sorted permutations are
  unique up to keys, the counting argument behind the fault-tolerant midpoint, and the
  Int64 midpoint under the 2^62 bound.
-/
import ScionTime.Model.Timemath
namespace ScionTime.Timemath

variable {α β : Type}

theorem insertBy_perm (key : α → Int) (a : α) (l : List α) : (insertBy key a l).Perm (a :: l) := by
  induction l with
  | nil => exact List.Perm.refl _
  | cons b l ih =>
    unfold insertBy
    split
    · exact List.Perm.refl _
    · exact (List.Perm.cons b ih).trans (List.Perm.swap a b l)

theorem sortBy_perm (key : α → Int) (l : List α) : (sortBy key l).Perm l := by
  induction l with
  | nil => exact List.Perm.refl _
  | cons a l ih =>
    unfold sortBy
    exact (insertBy_perm key a _).trans (List.Perm.cons a ih)

theorem insertBy_sorted (key : α → Int) (a : α) (l : List α) (h : SortedBy key l) :
    SortedBy key (insertBy key a l) := by
  induction l with
  | nil => unfold insertBy SortedBy; exact List.pairwise_singleton _ _
  | cons b l ih =>
    unfold SortedBy at h ih ⊢
    rw [List.pairwise_cons] at h
    unfold insertBy
    split
    · rename_i hab
      rw [List.pairwise_cons]
      refine ⟨?_, List.pairwise_cons.mpr h⟩
      intro c hc
      rcases List.mem_cons.mp hc with rfl | hc
      · exact hab
      · exact Int.le_trans hab (h.1 c hc)
    · rename_i hab
      rw [List.pairwise_cons]
      refine ⟨?_, ih h.2⟩
      intro c hc
      have := (insertBy_perm key a l).mem_iff.mp hc
      rcases List.mem_cons.mp this with rfl | hc
      · omega
      · exact h.1 c hc

theorem sortBy_sorted (key : α → Int) (l : List α) : SortedBy key (sortBy key l) := by
  induction l with
  | nil => unfold sortBy SortedBy; exact List.Pairwise.nil
  | cons a l ih => unfold sortBy; exact insertBy_sorted key a _ ih

theorem sortBy_length (key : α → Int) (l : List α) : (sortBy key l).length = l.length :=
  (sortBy_perm key l).length_eq

/-- Two permutations of each other that are both sorted by `key` carry the same keys in the
    same positions: *any* correct sort produces the same key sequence. -/
theorem sorted_perm_keys_eq (key : α → Int) {l₁ l₂ : List α} (h₁ : SortedBy key l₁)
    (h₂ : SortedBy key l₂) (hp : l₁.Perm l₂) : l₁.map key = l₂.map key := by
  apply List.Perm.eq_of_pairwise (le := fun (a b : Int) => a ≤ b)
  · intro a b _ _ hab hba; omega
  · exact List.pairwise_map.mpr h₁
  · exact List.pairwise_map.mpr h₂
  · exact hp.map key

/-- With an injective key the sorted permutation itself is unique. -/
theorem sorted_perm_unique (key : α → Int) (hinj : ∀ a b, key a = key b → a = b)
    {l₁ l₂ : List α} (h₁ : SortedBy key l₁) (h₂ : SortedBy key l₂) (hp : l₁.Perm l₂) :
    l₁ = l₂ := by
  apply List.Perm.eq_of_pairwise (le := fun a b => key a ≤ key b) _ h₁ h₂ hp
  intro a b _ _ hab hba
  exact hinj a b (by omega)

theorem insertBy_map (g : β → α) (key : α → Int) (b : β) (l : List β) :
    (insertBy (fun x => key (g x)) b l).map g = insertBy key (g b) (l.map g) := by
  induction l with
  | nil => rfl
  | cons c l ih =>
    simp only [insertBy, List.map_cons]
    split
    · rfl
    · rw [List.map_cons, ih]

/-- Sorting commutes with a map that the key factors through. -/
theorem sortBy_map (g : β → α) (key : α → Int) (l : List β) :
    (sortBy (fun x => key (g x)) l).map g = sortBy key (l.map g) := by
  induction l with
  | nil => rfl
  | cons c l ih =>
    simp only [sortBy, List.map_cons]
    rw [insertBy_map, ih]

/-- In a list sorted by `key`, a later position carries a key at least as large. -/
theorem sorted_le (key : α → Int) {l : List α} (h : SortedBy key l) {i j : Nat} (hij : i ≤ j)
    (hj : j < l.length) : key (l[i]'(by omega)) ≤ key l[j] := by
  rcases Nat.lt_or_eq_of_le hij with hlt | heq
  · exact (List.pairwise_iff_getElem.mp h) i j (by omega) hj hlt
  · subst heq; exact Int.le_refl _

/-- Pigeonhole: among any `k+1` consecutive positions of a list with at most `k` elements
    marked bad, one is not marked. -/
theorem exists_good_in_range (bad : α → Bool) (l : List α) (s k : Nat) (hlen : s + k < l.length)
    (hbad : l.countP bad ≤ k) :
    ∃ i, s ≤ i ∧ i ≤ s + k ∧ ∃ h : i < l.length, bad l[i] = false := by
  let w := (l.drop s).take (k+1)
  have hwlen : w.length = k + 1 := by simp [w]; omega
  have hsub : w.Sublist l := (List.take_sublist _ _).trans (List.drop_sublist _ _)
  have hcnt : w.countP bad ≤ k := Nat.le_trans (hsub.countP_le) hbad
  have hne : ¬ (w.countP bad = w.length) := by omega
  rw [List.countP_eq_length] at hne
  have hex : ∃ a ∈ w, ¬ (bad a = true) := by
    apply Classical.byContradiction
    intro hno
    apply hne
    intro a ha
    apply Classical.byContradiction
    intro hna
    exact hno ⟨a, ha, hna⟩
  obtain ⟨a, ha, hna⟩ := hex
  obtain ⟨n, hn, hget⟩ := List.getElem_of_mem ha
  have hn' : n < k + 1 := by omega
  refine ⟨s + n, by omega, by omega, by omega, ?_⟩
  have hw : w[n] = l[s + n]'(by omega) := by
    simp [w]
  rw [← hw, hget]
  cases h : bad a
  · rfl
  · exact absurd h hna

/-- The selection lemma behind the fault-tolerant midpoint: in a list sorted by `key` with
    at most `f = (n-1)/3` elements marked bad, the elements at positions `f` and `n-1-f`
    both have keys between any lower and upper bound of the unmarked keys, and are ordered. -/
theorem sel_between (key : α → Int) (bad : α → Bool) (l : List α) (hs : SortedBy key l)
    (hn : 0 < l.length) (f : Nat) (hf : f = (l.length - 1) / 3) (hbad : l.countP bad ≤ f) (lo hi : Int)
    (hlo : ∀ e ∈ l, bad e = false → lo ≤ key e) (hhi : ∀ e ∈ l, bad e = false → key e ≤ hi) :
    lo ≤ key (l[f]'(by omega)) ∧
    key (l[f]'(by omega)) ≤ key (l[l.length - 1 - f]'(by omega)) ∧
    key (l[l.length - 1 - f]'(by omega)) ≤ hi := by
  obtain ⟨i, _, hi1, hil, hgi⟩ := exists_good_in_range bad l 0 f (by omega) hbad
  obtain ⟨j, hj0, _, hjl, hgj⟩ := exists_good_in_range bad l (l.length - 1 - f) f (by omega) hbad
  have a1 : lo ≤ key (l[f]'(by omega)) :=
    Int.le_trans (hlo _ (List.getElem_mem hil) hgi) (sorted_le key hs (by omega) (by omega))
  have b2 : key (l[l.length - 1 - f]'(by omega)) ≤ hi :=
    Int.le_trans (sorted_le key hs hj0 hjl) (hhi _ (List.getElem_mem hjl) hgj)
  exact ⟨a1, sorted_le key hs (by omega) (by omega), b2⟩

/-- `Midpoint` over int64 equals the unbounded expression when `y - x` does not overflow;
    in particular for `|x|, |y| < 2^62`. -/
theorem midpoint_toInt (x y : Int64) (hx : -4611686018427387904 < x.toInt)
    (hx' : x.toInt < 4611686018427387904) (hy : -4611686018427387904 < y.toInt)
    (hy' : y.toInt < 4611686018427387904) :
    (midpoint x y).toInt = midZ x.toInt y.toInt := by
  unfold midpoint midZ
  have h2 : (2 : Int64).toInt = 2 := by decide
  rw [Int64.toInt_add, Int64.toInt_div, Int64.toInt_sub, h2]
  have hsub : (y.toInt - x.toInt).bmod (2 ^ 64) = y.toInt - x.toInt := by
    apply Int.bmod_eq_of_le <;> omega
  rw [hsub]
  rcases Int.le_total 0 (y.toInt - x.toInt) with hd | hd
  · rw [Int.tdiv_eq_ediv_of_nonneg hd]
    have : ((y.toInt - x.toInt) / 2).bmod (2 ^ 64) = (y.toInt - x.toInt) / 2 := by
      apply Int.bmod_eq_of_le <;> omega
    rw [this]
    apply Int.bmod_eq_of_le <;> omega
  · have hneg : (y.toInt - x.toInt).tdiv 2 = -((x.toInt - y.toInt) / 2) := by
      have : y.toInt - x.toInt = -(x.toInt - y.toInt) := by omega
      rw [this, Int.neg_tdiv, Int.tdiv_eq_ediv_of_nonneg (by omega)]
    rw [hneg]
    have : (-((x.toInt - y.toInt) / 2)).bmod (2 ^ 64) = -((x.toInt - y.toInt) / 2) := by
      apply Int.bmod_eq_of_le <;> omega
    rw [this]
    apply Int.bmod_eq_of_le <;> omega

/-- The unbounded midpoint of `x ≤ y` lies between them. -/
theorem midZ_between (x y : Int) (h : x ≤ y) : x ≤ midZ x y ∧ midZ x y ≤ y := by
  unfold midZ
  rw [Int.tdiv_eq_ediv_of_nonneg (by omega)]
  omega

theorem toInt_injective (a b : Int64) (h : a.toInt = b.toInt) : a = b := Int64.toInt_inj.mp h

/-- Any sorted permutation of a slice of int64 is the one the insertion sort produces. -/
theorem sort64_unique {ds post : List Int64} (hp : post.Perm ds) (hs : SortedBy Int64.toInt post) :
    post = sort64 ds :=
  sorted_perm_unique Int64.toInt toInt_injective hs (sortBy_sorted _ _)
    (hp.trans (sortBy_perm _ _).symm)

theorem sort64_perm_eq {ds₁ ds₂ : List Int64} (hp : ds₁.Perm ds₂) : sort64 ds₁ = sort64 ds₂ :=
  sort64_unique ((sortBy_perm _ _).trans hp) (sortBy_sorted _ _)

theorem sort64_map_toInt (ds : List Int64) : (sort64 ds).map Int64.toInt = sortZ (ds.map Int64.toInt) := by
  unfold sort64 sortZ
  exact sortBy_map Int64.toInt id ds

end ScionTime.Timemath

namespace ScionTime.Timemath

theorem getD_of_lt {α : Type} (l : List α) (i : Nat) (d : α) (h : i < l.length) : l.getD i d = l[i] := by
  simp [List.getD, h]

/-- Two ordered int64 values inside `(-2^62, 2^62)`: the int64 midpoint is the unbounded one
    and lies between them. -/
theorem midpoint_between (x y : Int64) (lo hi : Int) (hlo : lo ≤ x.toInt) (hxy : x.toInt ≤ y.toInt)
    (hhi : y.toInt ≤ hi) (hx : -4611686018427387904 < x.toInt) (hy : y.toInt < 4611686018427387904) :
    (midpoint x y).toInt = midZ x.toInt y.toInt ∧ lo ≤ (midpoint x y).toInt ∧ (midpoint x y).toInt ≤ hi := by
  have h := midpoint_toInt x y hx (by omega) (by omega) hy
  have hb := midZ_between x.toInt y.toInt hxy
  rw [h]
  exact ⟨rfl, by omega, by omega⟩

end ScionTime.Timemath

namespace ScionTime.Timemath

theorem getD_map_toInt (s : List Int64) (i : Nat) : (s.map Int64.toInt).getD i 0 = (s.getD i 0).toInt := by
  by_cases h : i < s.length
  · rw [getD_of_lt _ _ _ h, getD_of_lt _ _ _ (by rw [List.length_map]; exact h), List.getElem_map]
  · simp [List.getD, h]

end ScionTime.Timemath
