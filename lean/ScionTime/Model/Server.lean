/-
  Model of core/server/server.go: the per-client timestamp store (`tss`, `tssQ`),
  `handleRequest` and `updateTXTimestamp`, and the functions of Go's `container/heap`
  (`up`, `down`, `Push`, `Pop`, `Fix`, `Remove`) that the store is driven with.

  * A `time.Time` is an `Int` count of nanoseconds since the Unix epoch (Model/Time64).
  * A client id is a `Nat` (the harness maps it to the string key it passes to the code).
  * `tss` (a Go map of pointers) is an association list `id ↦ Item`; `tssQ` (a slice of
    the same pointers) is an `Array` of ids. `Item.qidx` is the back pointer that
    `tssQueue.Swap`/`Push` maintain; that it always is the position of the id in the heap
    array is a theorem (Props/C07), not an assumption of the model.
  * `tssItem.buf[0:len]` is a `List Entry` (slots at and beyond `len` are never read
    before they are written). `Entry.owner` is a ghost field (the client id on whose
    behalf the entry was written); it is not part of the Go state and never read by
    the model.
  * Loops: the heap loops and the receive-timestamp uniqueness loop carry fuel
    (structural recursion); Props/C07 shows the fuel passed always suffices.
  * Every index the functions use is total here (`getD`); the places where Go would
    panic on an out-of-range index are listed in `hrPanics`/`utxPanics`, and Props/C07
    shows these are false in every reachable state.
-/
import ScionTime.Model.Time64
namespace ScionTime.Server
open ScionTime.Time64

structure Entry where
  rx : T64
  tx : T64
  owner : Nat
deriving Repr, DecidableEq

/-- `tssItem` (without `key`, which is the map key) -/
structure Item where
  buf : List Entry
  qval : T64
  qidx : Nat
deriving Repr, DecidableEq

abbrev Map := List (Nat × Item)

namespace Map

def find : Map → Nat → Option Item
  | [], _ => none
  | (k', it) :: m, k => if k' = k then some it else find m k

/-- in-place update through the pointer stored in the map -/
def modify : Map → Nat → (Item → Item) → Map
  | [], _, _ => []
  | (k', it) :: m, k, f => if k' = k then (k', f it) :: m else (k', it) :: modify m k f

/-- `delete(tss, k)` -/
def erase : Map → Nat → Map
  | [], _ => []
  | (k', it) :: m, k => if k' = k then m else (k', it) :: erase m k

def keys (m : Map) : List Nat := m.map (·.1)

end Map

structure State where
  items : Map
  heap : Array Nat
deriving Repr

def init : State := { items := [], heap := #[] }

def zero64 : T64 := ⟨0, 0⟩

/-- `q[i].qval` read through the heap slot's pointer -/
def qv (m : Map) (k : Nat) : T64 :=
  match m.find k with
  | some it => it.qval
  | none => zero64

def hkey (st : State) (i : Nat) : Nat := st.heap.getD i 0

/-- qval of the item in heap slot `i` -/
def kv (st : State) (i : Nat) : T64 := qv st.items (hkey st i)

/-- `tssQueue.Less` -/
def less (st : State) (i j : Nat) : Bool := before (kv st i) (kv st j)

def setQidx (m : Map) (k : Nat) (i : Nat) : Map := m.modify k (fun it => { it with qidx := i })
def setQval (m : Map) (k : Nat) (v : T64) : Map := m.modify k (fun it => { it with qval := v })
/-- update of `tssi.buf[0:len]` through the pointer -/
def setBuf (m : Map) (k : Nat) (f : List Entry → List Entry) : Map :=
  m.modify k (fun it => { it with buf := f it.buf })

/-- `tssQueue.Swap`: `q[i], q[j] = q[j], q[i]; q[i].qidx = i; q[j].qidx = j` -/
def swap (st : State) (i j : Nat) : State :=
  let ki := hkey st i
  let kj := hkey st j
  { items := setQidx (setQidx st.items kj i) ki j
    heap := (st.heap.setIfInBounds i kj).setIfInBounds j ki }

/-- `container/heap.up(h, j)`; fuel `j + 1` suffices. -/
def up (st : State) (j : Nat) : Nat → State
  | 0 => st
  | f + 1 =>
    let i := (j - 1) / 2   -- Go: (j-1)/2 truncates, so j = 0 gives i = 0 = j
    if i = j || !less st j i then st
    else up (swap st i j) i f

/-- the child `j` that `down` compares with: `j1 = 2i+1`, or `j2 = j1+1` if
    `j2 < n && h.Less(j2, j1)` -/
def child (st : State) (i n : Nat) : Nat :=
  if 2 * i + 1 + 1 < n && less st (2 * i + 1 + 1) (2 * i + 1) then 2 * i + 1 + 1 else 2 * i + 1

/-- `container/heap.down(h, i0, n)`; returns the final position (`i > i0` is Go's result);
    fuel `n` suffices. -/
def down (st : State) (i n : Nat) : Nat → State × Nat
  | 0 => (st, i)
  | f + 1 =>
    if 2 * i + 1 ≥ n then (st, i)
    else if !less st (child st i n) i then (st, i)
    else down (swap st i (child st i n)) (child st i n) n f

/-- `heap.Fix(h, i)`: `if !down(h, i, h.Len()) { up(h, i) }` -/
def fix (st : State) (i : Nat) : State :=
  let n := st.heap.size
  let r := down st i n n
  if r.2 > i then r.1 else up r.1 i (i + 1)

/-- `tssi.qval = v; heap.Fix(&tssQ, tssi.qidx)` -/
def fixQval (st : State) (id : Nat) (v : T64) (qidx : Nat) : State :=
  fix { st with items := setQval st.items id v } qidx

/-- `heap.Push(h, x)` for an item already in the map under `k`:
    `x.qidx = len(q); q = append(q, x); up(h, len-1)` -/
def push (st : State) (k : Nat) : State :=
  let n := st.heap.size
  let st1 : State := { items := setQidx st.items k n, heap := st.heap.push k }
  up st1 n (n + 1)

/-- `heap.Pop(h)` followed by `delete(tss, x.key)` (the eviction in `handleRequest`);
    returns the evicted id. -/
def popMin (st : State) : State × Nat :=
  let n := st.heap.size - 1
  let st1 := (down (swap st 0 n) 0 n n).1
  let k := hkey st1 n
  ({ items := st1.items.erase k, heap := st1.heap.pop }, k)

/-- `heap.Remove(h, i)` followed by `delete(tss, key)` (in `updateTXTimestamp`,
    where `h[i]` is the item of `key`). -/
def remove (st : State) (i : Nat) (key : Nat) : State :=
  let n := st.heap.size - 1
  let st1 :=
    if n ≠ i then
      let s := swap st i n
      let r := down s i n n
      if r.2 > i then r.1 else up r.1 i (i + 1)
    else st
  { items := st1.items.erase key, heap := st1.heap.pop }

/-! ### handleRequest -/

structure Req where
  org : T64
  rx : T64
  tx : T64
deriving Repr, DecidableEq

structure Reply where
  rx : T64      -- ReceiveTime
  org : T64     -- OriginTime
  tx : T64      -- TransmitTime
  ref : T64     -- ReferenceTime
  inter : Bool  -- which branch built the reply (ghost: not a packet field)
deriving Repr, DecidableEq

def collides (buf : List Entry) (v : T64) : Bool := buf.any (fun e => e.rx == v)

/-- The receive-timestamp uniqueness loop of `handleRequest` (outer `for`): while some kept
    rx equals `Time64FromTime(rxt)`, `rxt += 1ns` and, if then `!rxt.Before(txt)`,
    `txt = rxt + 1ns`. Fuel `len + 1` suffices (Props/C06). -/
def uniq (buf : List Entry) (rxt txt : Int) : Nat → Int × Int
  | 0 => (rxt, txt)
  | f + 1 =>
    if collides buf (ofTime rxt) then
      let rxt := rxt + 1
      let txt := if ¬ (rxt < txt) then rxt + 1 else txt
      uniq buf rxt txt f
    else (rxt, txt)

/-- Result of the inner scan loop of `handleRequest` when it runs to the end (no
    collision): `o`, `min`, `max` (−1 is `none`). `min`/`max` carry the rx value at that
    index next to the index (the loop re-reads `buf[min].rxt`; the buffer does not change
    during the loop). -/
structure Scan where
  o : Option Nat
  mn : Option (Nat × T64)
  mx : Option (Nat × T64)
deriving Repr, DecidableEq

def scanStep (org : T64) (i : Nat) (e : Entry) (a : Scan) : Scan :=
  { o := if e.rx = org then some i else a.o
    mn := match a.mn with
      | none => some (i, e.rx)
      | some (m, v) => if before e.rx v then some (i, e.rx) else some (m, v)
    mx := match a.mx with
      | none => some (i, e.rx)
      | some (m, v) => if !before e.rx v then some (i, e.rx) else some (m, v) }

def scanAux (org : T64) : List Entry → Nat → Scan → Scan
  | [], _, a => a
  | e :: l, i, a => scanAux org l (i + 1) (scanStep org i e a)

def scan (buf : List Entry) (org : T64) : Scan := scanAux org buf 0 ⟨none, none, none⟩

/-- the reply's timestamp fields -/
def mkReply (req : Req) (rxt64 txt64 : T64) (served : Option Entry) : Reply :=
  match served with
  | some e =>
    if req.rx ≠ req.tx then
      { rx := rxt64, org := req.rx, tx := e.tx, ref := txt64, inter := true }
    else { rx := rxt64, org := req.tx, tx := txt64, ref := txt64, inter := false }
  | none => { rx := rxt64, org := req.tx, tx := txt64, ref := txt64, inter := false }

structure HR where
  st : State
  reply : Reply
  rxt : Int   -- *rxt on return
  txt : Int   -- *txt on return
  evicted : Option Nat  -- ghost: id evicted by this call

/-- buffer update at the end of `handleRequest` -/
def storeEntry (icap : Nat) (buf : List Entry) (sc : Scan) (e : Entry) : List Entry :=
  match sc.o with
  | some o => buf.set o e
  | none =>
    if buf.length = icap then
      match sc.mn with
      | some (m, _) => buf.set m e
      | none => buf
    else buf ++ [e]

/-- `if max != -1 && rxt64.After(tssi.buf[max].rxt) { tssi.qval = rxt64; heap.Fix(&tssQ, tssi.qidx) }` -/
def hrFix (st : State) (id : Nat) (qidx : Nat) (mx : Option (Nat × T64)) (rxt64 : T64) : State :=
  match mx with
  | some (_, v) => if after rxt64 v then fixQval st id rxt64 qidx else st
  | none => st

/-- `if len(tss) == tssCap && !tssQ[0].qval.After(rxt64) { x := heap.Pop(&tssQ); delete(tss, x.key) }` -/
def evict (cap : Nat) (st : State) (rxt64 : T64) : State × Option Nat :=
  if st.items.length = cap && !after (kv st 0) rxt64 then ((popMin st).1, some (popMin st).2)
  else (st, none)

/-- `handleRequest(clientID, req, rxt, txt, resp)` with `timebase.Now() = now`.
    `strict = true` is the repaired code (fix for finding F9: `txt` is forced later than
    `rxt` before the store is consulted), `strict = false` the code as it was. -/
def handleRequestG (strict : Bool) (cap icap : Nat) (st : State) (id : Nat) (req : Req)
    (rxt0 now : Int) : HR :=
  let txt0 := if strict && !(rxt0 < now) then rxt0 + 1 else now
  match st.items.find id with
  | some it =>
    let u := uniq it.buf rxt0 txt0 (it.buf.length + 1)
    let rxt := u.1
    let txt := u.2
    let rxt64 := ofTime rxt
    let txt64 := ofTime txt
    let sc := scan it.buf req.org
    let served := sc.o.bind (fun o => it.buf[o]?)
    let reply := mkReply req rxt64 txt64 served
    let st1 := hrFix st id it.qidx sc.mx rxt64
    let e : Entry := ⟨rxt64, txt64, id⟩
    let st2 : State :=
      { st1 with items := setBuf st1.items id (fun b => storeEntry icap b sc e) }
    ⟨st2, reply, rxt, txt, none⟩
  | none =>
    let rxt64 := ofTime rxt0
    let txt64 := ofTime txt0
    let reply := mkReply req rxt64 txt64 none
    let ev := evict cap st rxt64
    let st1 := ev.1
    if st1.items.length = cap then
      ⟨st1, reply, rxt0, txt0, ev.2⟩
    else
      let it : Item := { buf := [], qval := rxt64, qidx := 0 }
      let st2 := push { st1 with items := (id, it) :: st1.items } id
      let st3 : State :=
        { st2 with items := setBuf st2.items id (fun b => b ++ [⟨rxt64, txt64, id⟩]) }
      ⟨st3, reply, rxt0, txt0, ev.2⟩

def handleRequest := handleRequestG true
/-- the function as it was at the pinned commit (before the `fix:` commit for F9) -/
def handleRequestOld := handleRequestG false

/-! ### updateTXTimestamp -/

/-- Result of the scan loop of `updateTXTimestamp`: `x`, `max0`, `max1`
    (index and rx value, as in `Scan`). -/
structure Scan2 where
  x : Option Nat
  m0 : Option (Nat × T64)
  m1 : Option (Nat × T64)
deriving Repr, DecidableEq

def scan2Step (rxt64 : T64) (i : Nat) (e : Entry) (a : Scan2) : Scan2 :=
  let x := if e.rx = rxt64 then some i else a.x
  match a.m0 with
  | none => { x := x, m0 := some (i, e.rx), m1 := a.m0 }
  | some (m, v) =>
    if !before e.rx v then { x := x, m0 := some (i, e.rx), m1 := some (m, v) }
    else
      match a.m1 with
      | none => { x := x, m0 := a.m0, m1 := some (i, e.rx) }
      | some (m', v') =>
        if !before e.rx v' then { x := x, m0 := a.m0, m1 := some (i, e.rx) }
        else { x := x, m0 := a.m0, m1 := some (m', v') }

def scan2Aux (rxt64 : T64) : List Entry → Nat → Scan2 → Scan2
  | [], _, a => a
  | e :: l, i, a => scan2Aux rxt64 l (i + 1) (scan2Step rxt64 i e a)

def scan2 (buf : List Entry) (rxt64 : T64) : Scan2 := scan2Aux rxt64 buf 0 ⟨none, none, none⟩

def defaultEntry : Entry := ⟨zero64, zero64, 0⟩

/-- `if tssi.buf[max0].rxt == rxt64 { tssi.qval = tssi.buf[max1].rxt; heap.Fix(&tssQ, tssi.qidx) }` -/
def utxFix (st : State) (id : Nat) (qidx : Nat) (m0 m1 : Option (Nat × T64)) (rxt64 : T64) : State :=
  match m0, m1 with
  | some (_, v0), some (_, v1) => if v0 = rxt64 then fixQval st id v1 qidx else st
  | _, _ => st

/-- `updateTXTimestamp(clientID, rxt, txt)`; returns the state and `*txt` on return. -/
def updateTX (st : State) (id : Nat) (rxt txt1 : Int) : State × Int :=
  let txt := if ¬ (rxt < txt1) then rxt + 1 else txt1
  match st.items.find id with
  | none => (st, txt)
  | some it =>
    let rxt64 := ofTime rxt
    let txt64 := ofTime txt
    let sc := scan2 it.buf rxt64
    match sc.x with
    | none => (st, txt)
    | some x =>
      let ex := it.buf.getD x defaultEntry
      if ex.tx ≠ txt64 then
        ({ st with items := setBuf st.items id (fun b => b.set x { ex with tx := txt64 }) }, txt)
      else if it.buf.length = 1 then
        (remove st it.qidx id, txt)
      else
        let st1 := utxFix st id it.qidx sc.m0 sc.m1 rxt64
        ({ st1 with items := setBuf st1.items id
                              (fun b => (b.set x (b.getD (b.length - 1) defaultEntry)).dropLast) }, txt)

/-! ### where Go would panic (index out of range) -/

/-- Sufficient condition for all indices being in range: `handleRequest` indexes `tssQ[0]`
    when the map is full, and `heap.Fix` indexes `tssQ[qidx]` (when it is called). -/
def hrPanics (cap : Nat) (st : State) (id : Nat) : Bool :=
  match st.items.find id with
  | some it => decide (st.heap.size ≤ it.qidx)
  | none => st.items.length = cap && st.heap.size = 0

def utxPanics (st : State) (id : Nat) : Bool :=
  match st.items.find id with
  | some it => decide (st.heap.size ≤ it.qidx)
  | none => false

/-! ### histories -/

inductive Op where
  | hr (id : Nat) (req : Req) (rxt now : Int)
  | utx (id : Nat) (rxt txt1 : Int)
deriving Repr

def stepOp (cap icap : Nat) (st : State) : Op → State
  | .hr id req rxt now => (handleRequest cap icap st id req rxt now).st
  | .utx id rxt txt1 => (updateTX st id rxt txt1).1

def run (cap icap : Nat) (st : State) (ops : List Op) : State :=
  ops.foldl (stepOp cap icap) st

/-- the pinned capacities -/
def tssCap : Nat := 1048576
def tssItemCap : Nat := 8

end ScionTime.Server
