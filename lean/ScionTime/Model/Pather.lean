/-
  Model of net/scion/pather.go: the path table behind `ntpReferenceClockSCION.MeasureClockOffset`
  (timeservice.go) — `update` as a function of the daemon's answers of one refresh and of the
  configured destination list, `Paths`, `StartPather` (first update + one update per tick).

  A path is what Model/Multipath.lean calls a `Path`: (identity, fingerprint). IAs are the
  64-bit numbers of `addr.IA` (ISD = upper 16 bits, AS = lower 48 bits).
  Core Lean only.
-/
import ScionTime.Model.Multipath

namespace ScionTime.Pather
open ScionTime.Multipath (Path)

abbrev IA := Nat

/-- `addr.IA.IsWildcard`: ISD 0 or AS 0 -/
def isWildcard (ia : IA) : Bool := ia / 281474976710656 == 0 || ia % 281474976710656 == 0

/-- What the daemon answers during ONE refresh: `dc.LocalIA(ctx)` (`none` = error) and, per
    destination, `dc.Paths(ctx, dst, localIA, Refresh)` (`none` = error). A destination that is
    asked twice in one refresh gets the same answer twice (the refresh takes milliseconds). -/
structure Daemon where
  localIA : Option IA
  paths : IA → Option (List Path)

/-- `map[addr.IA][]snet.Path` as an association list with unique keys (first occurrence order;
    every output sorts by key) -/
abbrev PathMap := List (IA × List Path)

def PathMap.get? (m : PathMap) (ia : IA) : Option (List Path) :=
  match m with
  | [] => none
  | (k, v) :: rest => if k = ia then some v else PathMap.get? rest ia

/-- `paths[ia] = append(paths[ia], ps...)` -/
def PathMap.appendAt (m : PathMap) (ia : IA) (ps : List Path) : PathMap :=
  match m with
  | [] => [(ia, ps)]
  | (k, v) :: rest => if k = ia then (k, v ++ ps) :: rest else (k, v) :: PathMap.appendAt rest ia ps

/-- The Pather's guarded state: `p.localIA`, `p.paths` (`none` = the nil map of a new Pather). -/
structure Table where
  localIA : IA := 0
  paths : Option PathMap := none

/-- `Pather.Paths(dst)`: `none` = nil (no entry), otherwise a COPY of the entry (the copy is the
    subject of `Multipath.pathsCopy` / Props/C15Pather). -/
def Table.pathsOf (t : Table) (dst : IA) : Option (List Path) :=
  match t.paths with
  | none => none
  | some m => m.get? dst

inductive UpdRes where
  | done (t : Table)
  | panicWildcard               -- panic("unexpected destination IA: wildcard.")

/-- the `for _, dstIA := range dstIAs` loop of `update`. `dedup` = the repaired code (a destination
    IA that is already in the new map is not looked up and appended a second time); `false` = the
    code as found. A failed lookup is logged and contributes the empty list. -/
def fill (dedup : Bool) (d : Daemon) : PathMap → List IA → Option PathMap
  | m, [] => some m
  | m, ia :: rest =>
    if isWildcard ia then none
    else if dedup && (m.get? ia).isSome then fill dedup d m rest
    else fill dedup d (m.appendAt ia ((d.paths ia).getD [])) rest

/-- `update(ctx, p, dc, dstIAs)`: a failed LocalIA lookup leaves the table as it is (and the
    destination list is not even looked at); otherwise a NEW map is built from this refresh's
    answers only and installed together with the local IA under the lock. -/
def update (dedup : Bool) (t : Table) (d : Daemon) (dsts : List IA) : UpdRes :=
  match d.localIA with
  | none => .done t
  | some l =>
    match fill dedup d [] dsts with
    | none => .panicWildcard
    | some m => .done { localIA := l, paths := some m }

/-- `StartPather` and its refresh goroutine: the first update in the caller's goroutine, then one
    update per tick; `ds` = the daemon's answers at the first call and at every tick. A panic
    ends the history (and the process). Result: the table after the history, or the index of the
    update that panicked. -/
def run (dedup : Bool) (dsts : List IA) : Table → Nat → List Daemon → Table ⊕ Nat
  | t, _, [] => .inl t
  | t, k, d :: rest =>
    match update dedup t d dsts with
    | .panicWildcard => .inr k
    | .done t' => run dedup dsts t' (k + 1) rest

/-- the code as found / the repaired code -/
def updateOld := update false
def updateNew := update true

end ScionTime.Pather
