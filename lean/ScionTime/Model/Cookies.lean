/-
  Model of net/ntske/cookies.go: ServerCookie / EncryptedServerCookie Encode, Decode,
  EncryptWithNonce, Decrypt — plus the shared vocabulary of the NTS models (bytes,
  outcomes with explicit Go panics, abstract AEAD with miscreant's contract).

  Bytes are `List Nat` (the driver only ever feeds values < 256). A Go slice `b[pos:]` is
  modelled by the suffix `b.drop pos`; the places where the Go runtime would panic
  (index / slice bounds) are explicit `Res.panic` outcomes decided from the suffix
  length, exactly where the Go code reads. Loops carry fuel; `Res.hang` is the outcome
  "the Go loop never terminates" (only reachable in the `…Old` variants, see Nts.lean).

  Every decoder takes a flag `chk`: `true` is the code after the `fix:` commits (bounds
  checks present), `false` is the code as it was at the pinned commit (`…Old`).
-/
namespace ScionTime.Nts

abbrev Bytes := List Nat

/-- error values the Go code returns (small enum; the harness maps Go errors to the same names). -/
inductive Err
  | noAuth | noCookies | noUid | shortUid | extType | respId | auth | keySize | cookieData
  | extLen | nonceLen | tooLarge | noKey
deriving DecidableEq, Repr

def Err.name : Err → String
  | .noAuth => "no-auth" | .noCookies => "no-cookies" | .noUid => "no-uid"
  | .shortUid => "short-uid" | .extType => "ext-type" | .respId => "resp-id"
  | .auth => "auth" | .keySize => "keysize" | .cookieData => "cookie-data"
  | .extLen => "ext-len" | .nonceLen => "nonce-len" | .tooLarge => "too-large"
  | .noKey => "no-key"

/-- panic classes as `lib.PanicClass` prints them. -/
inductive Pan
  | index | slice | shortUid | nonceLen | keySize | header
deriving DecidableEq, Repr

def Pan.name : Pan → String
  | .index => "index" | .slice => "slice"
  | .shortUid => "explicit:UniqueIdentifier.ID_<_32_bytes"
  | .nonceLen => "explicit:miscreant.AEAD:_incorrect_nonce_length"
  | .keySize => "explicit:siv:_bad_key_size"
  | .header => "explicit:unexpected_NTP_header"

inductive Res (α : Type)
  | ok (a : α) | err (e : Err) | panic (p : Pan) | hang
deriving DecidableEq, Repr

def Res.bind {α β : Type} (x : Res α) (f : α → Res β) : Res β :=
  match x with
  | .ok a => f a | .err e => .err e | .panic p => .panic p | .hang => .hang

instance : Monad Res where
  pure := .ok
  bind := Res.bind

/-- "never crashes, never hangs": the outcome is a value or an error. -/
def Res.Safe {α : Type} : Res α → Prop
  | .ok _ => True | .err _ => True | .panic _ => False | .hang => False

@[simp] theorem Res.bind_ok {α β} (a : α) (f : α → Res β) : (Res.ok a >>= f) = f a := rfl
@[simp] theorem Res.bind_err {α β} (e) (f : α → Res β) : (Res.err e >>= f) = .err e := rfl
@[simp] theorem Res.bind_panic {α β} (p) (f : α → Res β) : (Res.panic p >>= f) = .panic p := rfl
@[simp] theorem Res.bind_hang {α β} (f : α → Res β) : (Res.hang >>= f) = .hang := rfl
@[simp] theorem Res.pure_eq {α} (a : α) : (pure a : Res α) = .ok a := rfl

/-- `binary.BigEndian.PutUint16` -/
def be16 (v : Nat) : Bytes := [v / 256 % 256, v % 256]
/-- `binary.BigEndian.Uint16` of two bytes -/
def u16 (a b : Nat) : Nat := a * 256 + b

theorem u16_be16 (v : Nat) (h : v < 65536) : u16 (v / 256 % 256) (v % 256) = v := by
  unfold u16; omega

def zeros (n : Nat) : Bytes := List.replicate n 0

/-- `x := make([]byte, n); copy(x, src)` -/
def copyN (n : Nat) (src : Bytes) : Bytes := src.take n ++ zeros (n - src.length)

/-! ### AEAD (github.com/miscreant/miscreant.go), abstract -/

/-- The AEAD is a parameter. `ad = none` is Go's `nil` additional data (cookies),
    `some bytes` the non-nil slice `buf[:pos]` (packets). Arguments: key nonce text ad. -/
structure AEAD where
  sealF : Bytes → Bytes → Bytes → Option Bytes → Bytes
  openF : Bytes → Bytes → Bytes → Option Bytes → Option Bytes

/-- the round-trip law used in proofs -/
def AEAD.Lawful (A : AEAD) : Prop :=
  ∀ k n p ad, A.openF k n (A.sealF k n p ad) ad = some p

/-- SIV appends a 16-byte tag (checked by the harness on every seal it performs). -/
def AEAD.Sized (A : AEAD) : Prop :=
  ∀ k n p ad, (A.sealF k n p ad).length = p.length + 16

/-- …and `Open` only accepts ciphertexts that are 16 bytes longer than what it returns. -/
def AEAD.OpenSized (A : AEAD) : Prop :=
  ∀ k n c ad p, A.openF k n c ad = some p → c.length = p.length + 16

/-- `miscreant.NewAEAD("AES-CMAC-SIV", key, 16)`: error `siv: bad key size` unless 32 or 64. -/
def keyOk (key : Bytes) : Bool := key.length == 32 || key.length == 64

/-- `aessiv.Seal(nil, nonce, pt, ad)`: panics when `len(nonce) != 16`. -/
def sealC (A : AEAD) (key nonce pt : Bytes) (ad : Option Bytes) : Res Bytes :=
  if nonce.length ≠ 16 then .panic .nonceLen else .ok (A.sealF key nonce pt ad)

/-- `aessiv.Open(nil, nonce, ct, ad)`: panics when `len(nonce) != 16`; error when not authentic. -/
def openC (A : AEAD) (key nonce ct : Bytes) (ad : Option Bytes) : Res Bytes :=
  if nonce.length ≠ 16 then .panic .nonceLen
  else match A.openF key nonce ct ad with
    | some p => .ok p
    | none => .err .auth

/-! ### cookie TLVs -/

def cookieTypeAlgorithm : Nat := 0x101
def cookieTypeKeyS2C : Nat := 0x201
def cookieTypeKeyC2S : Nat := 0x301
def cookieTypeKeyID : Nat := 0x401
def cookieTypeNonce : Nat := 0x501
def cookieTypeCiphertext : Nat := 0x601

/-- Both cookie forms share one layout: a 2-byte field under tag `t0`, byte strings under
    `t1`, `t2`. `ServerCookie` = (Algo, S2C, C2S), `EncryptedServerCookie` = (ID, Nonce, Ciphertext). -/
structure Triple where
  num : Nat
  x : Bytes
  y : Bytes
deriving DecidableEq, Repr

/-- `(*ServerCookie).Encode` / `(*EncryptedServerCookie).Encode` (the buffer is sized exactly;
    lengths are written as `uint16(len(..))`). -/
def encodeTLV (t0 t1 t2 : Nat) (c : Triple) : Bytes :=
  be16 t0 ++ be16 2 ++ be16 c.num ++
  be16 t1 ++ be16 (c.x.length % 65536) ++ c.x ++
  be16 t2 ++ be16 (c.y.length % 65536) ++ c.y

structure TlvSt where
  num : Option Nat := none
  x : Option Bytes := none
  y : Option Bytes := none
deriving DecidableEq, Repr

/-- The `for pos < len(b)` loop of both `Decode` methods over the suffix `rest = b[pos:]`.
    `chk = false` (pinned commit): a truncated TLV header panics `index`, a value length
    beyond the buffer panics `slice` (F3). `chk = true`: both are `errUnexpectedCookieData`.
    A slice `b[lo:hi]` panics when `hi > cap(b)`; the model takes `cap = len` (true for the
    `make`-allocated cookie the listeners pass in). -/
def tlvLoop (chk : Bool) (t0 t1 t2 : Nat) : Nat → Bytes → TlvSt → Res TlvSt
  | 0, _, _ => .hang
  | fuel + 1, rest, st =>
    match rest with
    | [] => .ok st
    | a :: b :: c :: d :: v =>
      let t := u16 a b
      let l := u16 c d
      if chk && l > v.length then .err .cookieData else
      if t = t0 then
        if chk && l < 2 then .err .cookieData else
        match v with
        | n1 :: n0 :: _ =>
          if l > v.length then .err .cookieData   -- `pos != len(b)` after the loop
          else tlvLoop chk t0 t1 t2 fuel (v.drop l) { st with num := some (u16 n1 n0) }
        | _ => .panic .index
      else if t = t1 then
        if l > v.length then .panic .slice
        else tlvLoop chk t0 t1 t2 fuel (v.drop l) { st with x := some (v.take l) }
      else if t = t2 then
        if l > v.length then .panic .slice
        else tlvLoop chk t0 t1 t2 fuel (v.drop l) { st with y := some (v.take l) }
      else
        if l > v.length then .err .cookieData
        else tlvLoop chk t0 t1 t2 fuel (v.drop l) st
    | _ => if chk then .err .cookieData else .panic .index

/-- `Decode`: loop, then `pos != len(b)` / missing field ⇒ `errUnexpectedCookieData`. -/
def decodeTLV (chk : Bool) (t0 t1 t2 : Nat) (b : Bytes) : Res Triple :=
  match tlvLoop chk t0 t1 t2 (b.length + 1) b {} with
  | .ok st =>
    match st.num, st.x, st.y with
    | some n, some x, some y => .ok ⟨n, x, y⟩
    | _, _, _ => .err .cookieData
  | .err e => .err e
  | .panic p => .panic p
  | .hang => .hang

/-- `(*ServerCookie).Encode`; triple = (Algo, S2C, C2S) -/
def scEncode (c : Triple) : Bytes := encodeTLV cookieTypeAlgorithm cookieTypeKeyS2C cookieTypeKeyC2S c
/-- `(*ServerCookie).Decode` -/
def scDecode (b : Bytes) : Res Triple := decodeTLV true cookieTypeAlgorithm cookieTypeKeyS2C cookieTypeKeyC2S b
def scDecodeOld (b : Bytes) : Res Triple := decodeTLV false cookieTypeAlgorithm cookieTypeKeyS2C cookieTypeKeyC2S b
/-- `(*EncryptedServerCookie).Encode`; triple = (ID, Nonce, Ciphertext) -/
def ecEncode (c : Triple) : Bytes := encodeTLV cookieTypeKeyID cookieTypeNonce cookieTypeCiphertext c
/-- `(*EncryptedServerCookie).Decode` -/
def ecDecode (b : Bytes) : Res Triple := decodeTLV true cookieTypeKeyID cookieTypeNonce cookieTypeCiphertext b
def ecDecodeOld (b : Bytes) : Res Triple := decodeTLV false cookieTypeKeyID cookieTypeNonce cookieTypeCiphertext b

/-- `(*ServerCookie).EncryptWithNonce(key, keyid)`; `nonce` = the 16 bytes drawn from
    `crypto/rand`. Order as in Go: nonce drawn, then `NewAEAD` (key size), then seal with
    nil additional data. `ID = uint16(keyid)`. -/
def encryptCookie (A : AEAD) (c : Triple) (key : Bytes) (keyid : Nat) (nonce : Bytes) : Res Triple :=
  if !keyOk key then .err .keySize else do
    let ct ← sealC A key nonce (scEncode c) none
    pure ⟨keyid % 65536, nonce, ct⟩

/-- `(*EncryptedServerCookie).Decrypt(key)`. `chk = true`: nonce length is checked before
    the AEAD is used (F16); `false`: miscreant panics. -/
def decryptCookieG (chk : Bool) (A : AEAD) (ec : Triple) (key : Bytes) : Res Triple :=
  if !keyOk key then .err .keySize else
  if chk && ec.x.length ≠ 16 then .err .nonceLen else do
    let b ← openC A key ec.x ec.y none
    decodeTLV chk cookieTypeAlgorithm cookieTypeKeyS2C cookieTypeKeyC2S b

def decryptCookie := decryptCookieG true
def decryptCookieOld := decryptCookieG false

end ScionTime.Nts
