/-
  Model of the reply / no-reply decision of the NTP listeners and of the reply header:
  core/server/server_ip.go runIPServer, core/server/server_scion.go runSCIONServer (payload
  part, after the SCION/UDP layers; identical decision sequence), core/server/server.go
  handleRequest (header fields; the timestamps are C06's).

  The NTS branch (`len(buf) > ntp.PacketLen`: nts.DecodePacket, FirstCookie, cookie Decode,
  provider.Get, Decrypt, ProcessRequest, and at least one fresh cookie encrypted for the
  reply) is abstracted into the boolean `ntsOk`; every failure in that branch is a `continue`
  (no reply), before `ValidateRequest` is consulted.

  Core Lean only.
-/
import ScionTime.Model.NtpPacket
namespace ScionTime.ServerReply
open ScionTime.Wire ScionTime.NtpPacket

/-- `buf := make([]byte, 2048)` in runIPServer: a longer datagram is read truncated with
    `flags = MSG_TRUNC ≠ 0` and dropped. -/
def ipServerBufLen : Nat := 2048

/-- why a datagram was not answered, in the order of the `continue`s of the loop body -/
inductive Decision where
  | dropTruncated   -- `flags != 0`
  | dropDecode      -- `ntp.DecodePacket` failed (fewer than 48 bytes)
  | dropNts         -- more than 48 bytes and the NTS branch failed
  | dropValidate    -- `ntp.ValidateRequest` failed
  | reply
  | crash (cls : String)
deriving Repr, DecidableEq

/-- one iteration of the receive loop on a datagram with UDP payload `payload` -/
def serve (payload : List Nat) (ntsOk : Bool) : Decision :=
  if payload.length > ipServerBufLen then .dropTruncated
  else match decodePacket payload with
    | .err _ => .dropDecode
    | .panic c => .crash c
    | .ok req =>
      if payload.length > packetLen ∧ ntsOk = false then .dropNts
      else if validateRequest req.lvm = false then .dropValidate
      else .reply

/-- the listener sends a reply for this datagram -/
def shouldReply (payload : List Nat) (ntsOk : Bool) : Bool :=
  serve payload ntsOk = .reply

/-- the SCION listener's payload decision: the same sequence without the 2048-byte receive
    buffer (the payload is a slice of a SCION packet that was already parsed). -/
def shouldReplyPayload (payload : List Nat) (ntsOk : Bool) : Bool :=
  match decodePacket payload with
  | .ok req => (!(payload.length > packetLen && !ntsOk)) && validateRequest req.lvm
  | _ => false

/-- `serverRefID` -/
def serverRefID : Nat := 0x58535453
/-- `resp.Stratum = 1` -/
def replyStratum : Nat := 1
/-- `resp.Precision = -32` -/
def replyPrecision : Int := -32
/-- `resp.RootDispersion = ntp.Time32{Seconds: 0, Fraction: 10}` -/
def replyRootDispersion : Time32 := ⟨0, 10⟩

/-- first header byte of every reply: `var ntpresp ntp.Packet` (LVM = 0, so leap indicator 0),
    then `resp.SetVersion(ntp.VersionMax)`, `resp.SetMode(ntp.ModeServer)`. -/
def replyLvm : Outcome Nat :=
  match setVersion 0 versionMax with
  | .ok x => setMode x modeServer
  | o => o

/-- header of the reply to `req` as `handleRequest` fills it; the four timestamps are
    parameters here (their values are property C06). -/
def replyHeader (req : Packet) (lvm : Nat) (refT orgT rxT txT : Time64) : Packet :=
  { lvm := lvm, stratum := replyStratum, poll := req.poll, precision := replyPrecision,
    rootDelay := ⟨0, 0⟩, rootDispersion := replyRootDispersion, referenceID := serverRefID,
    referenceTime := refT, originTime := orgT, receiveTime := rxT, transmitTime := txT }

end ScionTime.ServerReply
