/-
  Model of the reply / no-reply decision of the NTP listeners and of the reply header:
  core/server/server_ip.go runIPServer, core/server/server_scion.go runSCIONServer (payload
  part, after the SCION/UDP layers; identical decision sequence), core/server/server.go
  handleRequest (header fields; the timestamps are C06's).

  The NTS branch (`len(buf) > ntp.PacketLen`: nts.DecodePacket, FirstCookie, cookie Decode,
  provider.Get, Decrypt, ProcessRequest, and at least one fresh cookie encrypted for the
  reply) is abstracted into the boolean `ntsOk`; every failure in that branch is a `continue`
  (no reply), before `ValidateRequest` is consulted.

  Core Lean only.
-/
import ScionTime.Model.NtpPacket
namespace ScionTime.ServerReply
open ScionTime.Wire ScionTime.NtpPacket

/-- `buf := make([]byte, 2048)` in runIPServer: a longer datagram is read truncated with
    `flags = MSG_TRUNC ≠ 0` and dropped. -/
def ipServerBufLen : Nat := 2048

/-- why a datagram was not answered, in the order of the `continue`s of the loop body -/
inductive Decision where
  | dropTruncated   -- `flags != 0`
  | dropDecode      -- `ntp.DecodePacket` failed (fewer than 48 bytes)
  | dropNts         -- more than 48 bytes and the NTS branch failed
  | dropValidate    -- `ntp.ValidateRequest` failed
  | reply
  | crash (cls : String)
deriving Repr, DecidableEq

/-- one iteration of the receive loop on a datagram with UDP payload `payload` -/
def serve (payload : List Nat) (ntsOk : Bool) : Decision :=
  if payload.length > ipServerBufLen then .dropTruncated
  else match decodePacket payload with
    | .err _ => .dropDecode
    | .panic c => .crash c
    | .ok req =>
      if payload.length > packetLen ∧ ntsOk = false then .dropNts
      else if validateRequest req.lvm = false then .dropValidate
      else .reply

/-- `serve` for a receive buffer currently `bufLen` bytes long: `ReadMsgUDPAddrPort(buf, oob)`
    delivers at most `len(buf)` bytes and sets `MSG_TRUNC` when the datagram was longer. -/
def serveWith (bufLen : Nat) (payload : List Nat) (ntsOk : Bool) : Decision :=
  if payload.length > bufLen then .dropTruncated
  else match decodePacket payload with
    | .err _ => .dropDecode
    | .panic c => .crash c
    | .ok req =>
      if payload.length > packetLen ∧ ntsOk = false then .dropNts
      else if validateRequest req.lvm = false then .dropValidate
      else .reply

/-- One iteration of the receive loop *with the state that survives it*: the length of `buf`.
    `restoreAtTop = true` is the code as it is: `buf = buf[:cap(buf)]` is the first statement of
    the loop body, so whatever an earlier iteration left (`buf = buf[:n]` on every path past
    the flags check, a 48-byte reply after `EncodePacket`) is undone before the next read.
    `restoreAtTop = false` describes a loop that restores the buffer only at the end of the
    served path (every `continue` skips it); kept to show that the restore is what makes the
    listener's answers independent of earlier datagrams. Returns the buffer length left behind. -/
def loopIter (restoreAtTop : Bool) (bufLen : Nat) (d : List Nat × Bool) : Nat × Decision :=
  let bl := if restoreAtTop then ipServerBufLen else bufLen
  let dec := serveWith bl d.1 d.2
  let bl' := match dec with
    | .dropTruncated => bl                 -- `continue` before `buf = buf[:n]`
    | .reply => if restoreAtTop then packetLen else ipServerBufLen
    | _ => d.1.length                      -- `buf = buf[:n]`, then `continue`
  (bl', dec)

/-- the decisions of the loop on a sequence of datagrams arriving at one listener socket -/
def runLoop (restoreAtTop : Bool) : Nat → List (List Nat × Bool) → List Decision
  | _, [] => []
  | bl, d :: ds =>
    let r := loopIter restoreAtTop bl d
    r.2 :: runLoop restoreAtTop r.1 ds

/-! ### the NTS branch's own per-datagram state

The branch decodes into `var ntsreq nts.Packet`, declared **inside** the loop body (likewise
`ntpreq`, `serverCookie`, `authenticated`). That matters: `nts.DecodePacket` *appends* the cookie
fields it finds to `pkt.Cookies` (also when it fails later in the datagram) and the branch then
authenticates the datagram under the keys sealed in `pkt.FirstCookie()` = `pkt.Cookies[0]`. -/

/-- What the NTS branch sees of one datagram, cookies as opaque ids: the cookie fields
    `nts.DecodePacket` appends for it, whether `nts.DecodePacket` returns nil, and whether the rest
    of the branch (`EncryptedServerCookie.Decode`, `provider.Get`, `Decrypt`, `nts.ProcessRequest`
    of this datagram under that cookie's C2S key, one fresh cookie) succeeds when `FirstCookie()`
    returns the given cookie. -/
structure NtsView where
  cookies : List Nat
  decodes : Bool
  okWith : Nat → Bool

/-- the branch on a request struct whose `Cookies` already holds `carried`: outcome, and the
    cookie list the struct holds afterwards -/
def ntsBranch (carried : List Nat) (v : NtsView) : Bool × List Nat :=
  let all := carried ++ v.cookies
  (v.decodes && (match all with | [] => false | c :: _ => v.okWith c), all)

/-- outcome of the branch for this datagram on a zero-valued request struct -/
def ntsAlone (v : NtsView) : Bool := (ntsBranch [] v).1

/-- does an iteration reach `nts.DecodePacket` (read not truncated, 48-byte header decoded,
    something follows the header) -/
def entersNts (bufLen : Nat) (payload : List Nat) : Bool :=
  if payload.length > bufLen then false
  else match decodePacket payload with
    | .ok _ => payload.length > packetLen
    | _ => false

/-- One iteration with **all** the state that could survive it: the length of `buf` and the
    cookie list of the NTS request struct. `freshNts = true` is the code as it is (the struct is
    declared in the loop body: every datagram starts from the zero value); `freshNts = false`
    describes a loop whose request struct is declared once outside the loop. -/
def loopIterN (restoreAtTop freshNts : Bool) (st : Nat × List Nat) (d : List Nat × NtsView) :
    (Nat × List Nat) × Decision :=
  let bl := if restoreAtTop then ipServerBufLen else st.1
  let carried := if freshNts then [] else st.2
  let br := ntsBranch carried d.2
  let r := loopIter restoreAtTop st.1 (d.1, br.1)
  let carried' := if entersNts bl d.1 then br.2 else carried
  ((r.1, carried'), r.2)

/-- the decisions of that loop on a sequence of datagrams arriving at one listener socket -/
def runLoopN (restoreAtTop freshNts : Bool) : Nat × List Nat → List (List Nat × NtsView) → List Decision
  | _, [] => []
  | st, d :: ds =>
    let r := loopIterN restoreAtTop freshNts st d
    r.2 :: runLoopN restoreAtTop freshNts r.1 ds

/-- the listener sends a reply for this datagram -/
def shouldReply (payload : List Nat) (ntsOk : Bool) : Bool :=
  serve payload ntsOk = .reply

/-- the SCION listener's payload decision: the same sequence without the 2048-byte receive
    buffer (the payload is a slice of a SCION packet that was already parsed). -/
def shouldReplyPayload (payload : List Nat) (ntsOk : Bool) : Bool :=
  match decodePacket payload with
  | .ok req => (!(payload.length > packetLen && !ntsOk)) && validateRequest req.lvm
  | _ => false

/-- `serverRefID` -/
def serverRefID : Nat := 0x58535453
/-- `resp.Stratum = 1` -/
def replyStratum : Nat := 1
/-- `resp.Precision = -32` -/
def replyPrecision : Int := -32
/-- `resp.RootDispersion = ntp.Time32{Seconds: 0, Fraction: 10}` -/
def replyRootDispersion : Time32 := ⟨0, 10⟩

/-- first header byte of every reply: `var ntpresp ntp.Packet` (LVM = 0, so leap indicator 0),
    then `resp.SetVersion(ntp.VersionMax)`, `resp.SetMode(ntp.ModeServer)`. -/
def replyLvm : Outcome Nat :=
  match setVersion 0 versionMax with
  | .ok x => setMode x modeServer
  | o => o

/-- header of the reply to `req` as `handleRequest` fills it; the four timestamps are
    parameters here (their values are property C06). -/
def replyHeader (req : Packet) (lvm : Nat) (refT orgT rxT txT : Time64) : Packet :=
  { lvm := lvm, stratum := replyStratum, poll := req.poll, precision := replyPrecision,
    rootDelay := ⟨0, 0⟩, rootDispersion := replyRootDispersion, referenceID := serverRefID,
    referenceTime := refT, originTime := orgT, receiveTime := rxT, transmitTime := txT }

end ScionTime.ServerReply
