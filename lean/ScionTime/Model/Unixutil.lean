/-
  Model of base/unixutil/timeval_linux.go: TimevalFromNsec.

  int64 arithmetic is Lean's `Int64`: `/` truncates toward zero and `%` takes the sign of the
  dividend, as in Go.  The result is `unix.Timeval{Sec, Usec}`; with `ADJ_NANO` the kernel
  reads `Usec` as nanoseconds and requires it to be non-negative.
  (base/unixutil/freq.go is floating point: modelled in Model/FreqDrift.lean over Model/F64.)
-/
namespace ScionTime.Unixutil

structure Timeval where
  sec  : Int64
  usec : Int64
deriving DecidableEq, Repr

/-- `TimevalFromNsec` -/
def timevalFromNsec (nsec : Int64) : Timeval :=
  let sec := nsec / 1000000000
  let ns := nsec % 1000000000
  if ns < 0 then { sec := sec - 1, usec := ns + 1000000000 }
  else { sec := sec, usec := ns }

/-- The function without the negative-remainder branch (the seeded breakage of DESIGN 8b):
    kept to show that the branch is what makes the property true. -/
def timevalFromNsecNoFix (nsec : Int64) : Timeval :=
  { sec := nsec / 1000000000, usec := nsec % 1000000000 }

end ScionTime.Unixutil
