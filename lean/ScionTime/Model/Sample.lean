/-
  Model of base/crypto/crypto.go: randInt31, randInt63, RandIntn, Sample.
  `crypto/rand.Reader` is a byte stream given as an argument (DESIGN.md §5 "Randomness").
  Core Lean only.

  Stream exhaustion: with Go ≥ 1.24 `crypto/rand.Read` never returns an error (a failing
  Reader crashes the program irrecoverably), so the `err != nil` / `n != len(b)` branches of
  randInt31/63 are dead code; the model has an explicit `exhausted` outcome for a finite
  script that runs out (the harness' scripted reader reports it the same way).
-/
namespace ScionTime.Sample

/-- bytes of `crypto/rand.Reader`, each `< 256`, in the order they are read -/
abbrev Stream := List Nat

inductive Err where
  | exhausted   -- the scripted stream ran out (not a behaviour of the real Reader)
  | cancelled   -- ctx.Err() ≠ nil after a rejected draw
  deriving DecidableEq, Repr

/-- result / error / Go panic (explicit `panic(...)` of the code) -/
inductive Res (α : Type) where
  | ok (a : α)
  | err (e : Err)
  | panic (msg : String)
  deriving Repr

def two32 : Nat := 4294967296
def two64 : Nat := 18446744073709551616
def maxInt32 : Nat := 2147483647

/-- `binary.LittleEndian.Uint32` -/
def le32 (b0 b1 b2 b3 : Nat) : Nat := b0 + 256 * b1 + 65536 * b2 + 16777216 * b3

/-- `binary.LittleEndian.Uint64` -/
def le64 (b0 b1 b2 b3 b4 b5 b6 b7 : Nat) : Nat :=
  le32 b0 b1 b2 b3 + two32 * le32 b4 b5 b6 b7

/-- `t := uint32(-n) % uint32(n)` (for `1 ≤ n < 2^32`: `uint32(-n) = 2^32 - n`) -/
def thr31 (n : Nat) : Nat := (two32 - n) % n

/-- `t := uint64(-n) % uint64(n)` -/
def thr63 (n : Nat) : Nat := (two64 - n) % n

/-- the rejection loop of randInt31: read 4 bytes, accept iff `x > t`, otherwise check the
    context and try again. Structural recursion on the stream. -/
def draw31 (n t : Nat) (cancelled : Bool) : Stream → Res (Nat × Stream)
  | b0 :: b1 :: b2 :: b3 :: rest =>
    let x := le32 b0 b1 b2 b3
    if x > t then .ok (x % n, rest)
    else if cancelled then .err .cancelled
    else draw31 n t cancelled rest
  | _ => .err .exhausted

/-- the rejection loop of randInt63 (8 bytes per draw) -/
def draw63 (n t : Nat) (cancelled : Bool) : Stream → Res (Nat × Stream)
  | b0 :: b1 :: b2 :: b3 :: b4 :: b5 :: b6 :: b7 :: rest =>
    let x := le64 b0 b1 b2 b3 b4 b5 b6 b7
    if x > t then .ok (x % n, rest)
    else if cancelled then .err .cancelled
    else draw63 n t cancelled rest
  | _ => .err .exhausted

/-- crypto.randInt31 -/
def randInt31 (n : Nat) (cancelled : Bool) (s : Stream) : Res (Nat × Stream) :=
  if n < 2 then .ok (0, s)
  else if n > maxInt32 then .panic "invalid argument: n must not be greater than 2147483647"
  else draw31 n (thr31 n) cancelled s

/-- crypto.randInt63 -/
def randInt63 (n : Nat) (cancelled : Bool) (s : Stream) : Res (Nat × Stream) :=
  if n < 2 then .ok (0, s) else draw63 n (thr63 n) cancelled s

/-- crypto.RandIntn (argument is a Go `int`) -/
def randIntn (n : Int) (cancelled : Bool) (s : Stream) : Res (Nat × Stream) :=
  if n ≤ 0 then .panic "invalid argument: n must be greater than 0"
  else if n ≤ (maxInt32 : Int) then randInt31 n.toNat cancelled s
  else randInt63 n.toNat cancelled s

/-- the second loop of crypto.Sample: `m` remaining iterations starting at index `i`;
    returns the `pick(dst, src)` calls in order. `rnd` is crypto.RandIntn (a parameter only
    to keep the definition's unfolding lemmas small; see `sampleLoop`). -/
def sampleLoopWith (rnd : Int → Bool → Stream → Res (Nat × Stream)) (k : Nat) (cancelled : Bool) :
    Nat → Nat → Stream → Res (List (Nat × Nat) × Stream)
  | 0, _, s => .ok ([], s)
  | m + 1, i, s =>
    match rnd ((i : Int) + 1) cancelled s with
    | .ok (j, s') =>
      match sampleLoopWith rnd k cancelled m (i + 1) s' with
      | .ok (ps, s'') => .ok ((if j < k then [(j, i)] else []) ++ ps, s'')
      | .err e => .err e
      | .panic p => .panic p
    | .err e => .err e
    | .panic p => .panic p

def sampleLoop (k : Nat) (cancelled : Bool) : Nat → Nat → Stream → Res (List (Nat × Nat) × Stream) :=
  sampleLoopWith randIntn k cancelled

/-- crypto.Sample over Go ints: result `(k', picks, rest of stream)` where picks is the
    sequence of `pick(dst, src)` calls -/
def sample (k n : Int) (cancelled : Bool) (s : Stream) : Res (Nat × List (Nat × Nat) × Stream) :=
  if k < 0 then .panic "invalid argument: k must be non-negative"
  else if n < 0 then .panic "invalid argument: n must be non-negative"
  else
    let n' := n.toNat
    let k' := if n' < k.toNat then n' else k.toNat
    match sampleLoop k' cancelled (n' - k') k' s with
    | .ok (ps, s') => .ok (k', (List.range k').map (fun i => (i, i)) ++ ps, s')
    | .err e => .err e
    | .panic p => .panic p

/-- apply the `ps[dst] = ps[src]` picks of MeasureClockOffsetSCION to a list -/
def applyPicks {α : Type} (l : List α) : List (Nat × Nat) → List α
  | [] => l
  | (d, s) :: rest =>
    match l[s]? with
    | some x => applyPicks (l.set d x) rest
    | none => applyPicks l rest

/-! ### Ideal reservoir (Algorithm R) on positions, driven by a vector of draws -/

/-- one step of the reservoir: item `i` arrives, draw `j ∈ [0, i]`; it replaces slot `j`
    iff `j < k` (= `res.length`) -/
def stepRes (res : List Nat) (j i : Nat) : List Nat :=
  if j < res.length then res.set j i else res

/-- the reservoir after items `k .. k+js.length-1` arrived with draws `js` -/
def reservoir (k : Nat) (js : List Nat) : List Nat :=
  go (List.range k) k js
where
  go (res : List Nat) (i : Nat) : List Nat → List Nat
    | [] => res
    | j :: js => go (stepRes res j i) (i + 1) js

end ScionTime.Sample
