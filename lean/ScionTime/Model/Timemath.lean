/-
  Model of base/timemath/timemath.go: Sgn, Inv, Midpoint, Median, FaultTolerantMidpoint.

  `time.Duration` is Lean's `Int64`: `+ - ` wrap around, `/` truncates toward zero, exactly
  as Go's int64 (checked on every run by the correspondence harness, boundary stream
  included).  `slices.Sort` on a slice of int64 is modelled by an insertion sort: the sorted
  permutation of a list of integers is unique (`Perm.eq_of_pairwise`, used in Props/C02), so
  every correct sort returns the same slice.  The `…Z` definitions are the same computations
  over unbounded `Int`; Props/C02 proves the two agree when all |v| < 2^62.
-/
namespace ScionTime.Timemath

/-- `Sgn` -/
def sgn (d : Int64) : Int :=
  if d < 0 then -1 else if d > 0 then 1 else 0

/-- `Inv`: `-d`, except `MinInt64 ↦ MaxInt64`. -/
def inv (d : Int64) : Int64 :=
  if d = Int64.minValue then Int64.maxValue else -d

/-- `Midpoint`: `x + (y-x)/2` with int64 wrap-around and truncating division. -/
def midpoint (x y : Int64) : Int64 := x + (y - x) / 2

/-- The same expression over unbounded integers. -/
def midZ (x y : Int) : Int := x + (y - x).tdiv 2

/-- insertion into a list sorted by `key` (before the first element that is not smaller) -/
def insertBy {α : Type} (key : α → Int) (a : α) : List α → List α
  | [] => [a]
  | b :: l => if key a ≤ key b then a :: b :: l else b :: insertBy key a l

/-- insertion sort by `key` -/
def sortBy {α : Type} (key : α → Int) : List α → List α
  | [] => []
  | a :: l => insertBy key a (sortBy key l)

/-- `slices.Sort(ds)` for `[]time.Duration` -/
def sort64 (ds : List Int64) : List Int64 := sortBy Int64.toInt ds

def sortZ (l : List Int) : List Int := sortBy id l

/-- Sorted by `key` (non-decreasing). -/
def SortedBy {α : Type} (key : α → Int) (l : List α) : Prop :=
  l.Pairwise (fun a b => key a ≤ key b)

instance {α : Type} (key : α → Int) (l : List α) : Decidable (SortedBy key l) := by
  unfold SortedBy; infer_instance

/-- Result of `Median` on a slice that is already sorted (`n > 0`):
    `ds[n/2]` for odd `n`, `Midpoint(ds[n/2-1], ds[n/2])` for even `n`.
    (`getD … 0` is never out of range for `n > 0`; the callers below guard `n = 0`.) -/
def medianSorted (s : List Int64) : Int64 :=
  let n := s.length
  let i := n / 2
  if n % 2 ≠ 0 then s.getD i 0 else midpoint (s.getD (i - 1) 0) (s.getD i 0)

/-- Result of `FaultTolerantMidpoint` on a sorted slice (`n > 0`): `f = (n-1)/3`,
    `Midpoint(ds[f], ds[n-1-f])`. -/
def ftmSorted (s : List Int64) : Int64 :=
  let n := s.length
  let f := (n - 1) / 3
  midpoint (s.getD f 0) (s.getD (n - 1 - f) 0)

def medianSortedZ (s : List Int) : Int :=
  let n := s.length
  let i := n / 2
  if n % 2 ≠ 0 then s.getD i 0 else midZ (s.getD (i - 1) 0) (s.getD i 0)

def ftmSortedZ (s : List Int) : Int :=
  let n := s.length
  let f := (n - 1) / 3
  midZ (s.getD f 0) (s.getD (n - 1 - f) 0)

/-- Outcome of a call: `none` = `panic("unexpected number of values")` (empty slice),
    `some (result, slice after the call)`. -/
abbrev Call := Option (Int64 × List Int64)

/-- `Median(ds)` -/
def median (ds : List Int64) : Call :=
  if ds.isEmpty then none else
  let s := sort64 ds
  some (medianSorted s, s)

/-- `FaultTolerantMidpoint(ds)` -/
def ftm (ds : List Int64) : Call :=
  if ds.isEmpty then none else
  let s := sort64 ds
  some (ftmSorted s, s)

/-- The unbounded-integer specifications (`none` on the empty list). -/
def medianZ (l : List Int) : Option Int :=
  if l.isEmpty then none else some (medianSortedZ (sortZ l))

def ftmZ (l : List Int) : Option Int :=
  if l.isEmpty then none else some (ftmSortedZ (sortZ l))

end ScionTime.Timemath
