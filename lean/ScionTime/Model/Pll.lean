/-
  Model/Pll.lean — the PLL clock discipline of core/sync/adjustments/pll.go
  (`Pll.Do(offset, weight)`), transcribed statement by statement over the exact software
  double `F64` and integer nanoseconds.

  * `time.Time` readings of the (scripted) `timebase.SystemClock` are `Int` nanoseconds
    since the Unix epoch (wall-clock readings without monotonic part); `Time.Sub`
    saturates at `MinInt64`/`MaxInt64` as in Go.
  * `time.Duration` values are `Int`s that stay inside the int64 range (`inv`, `durAbs`
    and `timeSub` map the range into itself, no other integer arithmetic is done on them).
  * `math.Pow(stiffenRate, dt)` is NOT modelled: its result is the input `pow` of `step`.
  * The calls the PLL makes on the clock are returned as a list of `Action`s.
  * The three `panic("unexpected clock behavior")` branches and the `default` branch are
    explicit `Outcome.panic`s.  In all of them the Go code has not modified the receiver
    yet (the epoch test did not fire because the mode would then be 0), so a panic leaves
    the state as it was.

  Tie to Go: harness/cmd/c19 (scripted clock, `adjustments.NewPLL`), driver Driver/C19.lean.
-/
import ScionTime.Model.F64
namespace ScionTime.Pll
open ScionTime.F64

def minI64 : Int := -9223372036854775808
def maxI64 : Int := 9223372036854775807

/-- `timemath.Inv` -/
def inv (d : Int) : Int := if d = minI64 then maxI64 else -d

/-- `time.Duration.Abs` -/
def durAbs (d : Int) : Int :=
  if d ≥ 0 then d else if d = minI64 then maxI64 else -d

/-- `time.Time.Sub` on wall-clock readings: the difference, saturated to the int64 range. -/
def timeSub (t u : Int) : Int :=
  let d := t - u
  if d < minI64 then minI64 else if d > maxI64 then maxI64 else d

/-! ### the literals of `Pll.Do` (pinned to the source by Props/C19.lean via Gen) -/

def second : Int := 1000000000
/-- `2*time.Second` -/
def stepWait : Int := 2 * second
/-- `6*time.Second` -/
def pllWait : Int := 6 * second
/-- `1*time.Millisecond` -/
def stepThreshold : Int := 1000000
/-- `captureTime = 300 * time.Second` -/
def captureTime : Int := 300 * second

/-- `weight > 3` -/
def wStep : F64 := ofConst 3 1
/-- `weight < 50` -/
def wLow : F64 := ofConst 50 1
/-- `weight < 150` -/
def wHigh : F64 := ofConst 150 1
/-- `pInit = 0.33` -/
def pInit : F64 := ofConst 33 100
/-- `iInit = 60` -/
def iInit : F64 := ofConst 60 1
/-- `3e-2` -/
def aLow : F64 := ofConst 3 100
/-- `5e-4` -/
def bLow : F64 := ofConst 5 10000
/-- `6e-2` -/
def aMid : F64 := ofConst 6 100
/-- `1e-3` -/
def bMid : F64 := ofConst 1 1000
/-- `pLimit = 0.03` -/
def pLimit : F64 := ofConst 3 100
/-- `500e-6` -/
def slewPos : F64 := ofConst 5 10000
/-- `-500e-6` -/
def slewNeg : F64 := ofConst (-5) 10000
/-- `0.0` -/
def fzero : F64 := .zero false

/-! ### state, actions, outcomes -/

structure State where
  epoch : Nat      -- uint64
  mode : Nat       -- uint64
  t0 : Int         -- time.Time, ns
  t : Int          -- time.Time, ns
  a : F64
  b : F64
  i : F64
deriving DecidableEq, Repr

/-- `time.Time{}` (January 1, year 1) in Unix nanoseconds. -/
def zeroTime : Int := -62135596800 * second

/-- `NewPLL` -/
def init : State :=
  { epoch := 0, mode := 0, t0 := zeroTime, t := zeroTime, a := fzero, b := fzero, i := fzero }

inductive Action where
  | step (offset : Int)                                  -- `l.clk.Step(offset)`
  | adjust (offset duration : Int) (frequency : F64)     -- `l.clk.Adjust(offset, duration, frequency)`
deriving DecidableEq, Repr

inductive PanicKind where
  | clock      -- panic("unexpected clock behavior")
  | mode       -- panic("unexpected PLL mode")
deriving DecidableEq, Repr

inductive Outcome where
  | ok (s : State) (acts : List Action)
  | panic (k : PanicKind)
deriving DecidableEq, Repr

/-- The epoch test at the top of `Do`. -/
def syncEpoch (s : State) (clkEpoch : Nat) : State :=
  if s.epoch ≠ clkEpoch then { s with epoch := clkEpoch, mode := 0 } else s

/-- The tail of `Do` after the switch: `l.t = now`, the log line, and
    `if d > 0.0 { l.clk.Adjust(timemath.Duration(p), timemath.Duration(d), l.i) }`. -/
def finish (s : State) (now : Int) (p d : F64) (acts : List Action) : Outcome :=
  let s := { s with t := now }
  if gt d fzero then .ok s (acts ++ [.adjust (toDuration p) (toDuration d) s.i])
  else .ok s acts

/-- The gain selection of the tracking mode: returns the state (with `l.a`, `l.b` possibly
    stiffened) and the local gains `a`, `b`. -/
def gains (s : State) (mdt : Int) (weight pow : F64) : State × F64 × F64 :=
  if lt weight wLow then (s, aLow, bLow)
  else if lt weight wHigh then (s, aMid, bMid)
  else
    let s := if mdt > captureTime ∧ gt s.a pLimit = true
             then { s with a := mul s.a pow, b := mul s.b pow } else s
    (s, s.a, s.b)

/-- The clamp `if p > d*500e-6 { p = d*500e-6 }; if p < d*-500e-6 { p = d*-500e-6 }`. -/
def clamp (p d : F64) : F64 :=
  let p := if gt p (mul d slewPos) then mul d slewPos else p
  if lt p (mul d slewNeg) then mul d slewNeg else p

/-- `case 3: // tracking` after the two clock checks. `offset` is already inverted once. -/
def track (s : State) (now mdt : Int) (dt : F64) (offset : Int) (weight pow : F64) : Outcome :=
  let (s, a, b) := gains s mdt weight pow
  let p := mul (durationSeconds (inv offset)) a
  let d := ceil dt
  let s := { s with i := add s.i (mul p b) }
  finish s now (clamp p d) d []

/-- `func (l *Pll) Do(offset time.Duration, weight float64)`; `clkEpoch` and `now` are what
    `l.clk.Epoch()` and `l.clk.Now()` return during this call, `pow` what
    `math.Pow(stiffenRate, dt)` returns. -/
def step (s : State) (clkEpoch : Nat) (now : Int) (offset : Int) (weight pow : F64) : Outcome :=
  let offset := inv offset
  let s := syncEpoch s clkEpoch
  if s.mode = 0 then            -- startup
    finish { s with t0 := now, mode := s.mode + 1 } now fzero fzero []
  else if s.mode = 1 then       -- awaiting step
    let mdt := timeSub now s.t0
    if mdt < 0 then .panic .clock
    else if mdt > stepWait ∧ gt weight wStep = true then
      let acts := if durAbs offset > stepThreshold then [Action.step (inv offset)] else []
      finish { s with t0 := now, mode := s.mode + 1 } now fzero fzero acts
    else finish s now fzero fzero []
  else if s.mode = 2 then       -- awaiting PLL
    let mdt := timeSub now s.t0
    if mdt < 0 then .panic .clock
    else if mdt > pllWait then
      finish { s with a := pInit, b := div pInit iInit, t0 := now, mode := s.mode + 1 } now fzero fzero []
    else finish s now fzero fzero []
  else if s.mode = 3 then       -- tracking
    let mdt := timeSub now s.t0
    if mdt < 0 then .panic .clock
    else
      let dt := durationSeconds (timeSub now s.t)
      if lt dt fzero then .panic .clock
      else track s now mdt dt offset weight pow
  else .panic .mode

/-! ### histories -/

structure Input where
  clkEpoch : Nat
  now : Int
  offset : Int
  weight : F64
  pow : F64
deriving Repr

def stepIn (s : State) (x : Input) : Outcome := step s x.clkEpoch x.now x.offset x.weight x.pow

/-- State after an outcome: a panic leaves the receiver as it was (see header). -/
def Outcome.next (s : State) : Outcome → State
  | .ok s' _ => s'
  | .panic _ => s

/-- Run a history, collecting the outcome of every update. -/
def run (s : State) : List Input → List Outcome
  | [] => []
  | x :: xs => let o := stepIn s x; o :: run (o.next s) xs

/-- The state after a history. -/
def final (s : State) : List Input → State
  | [] => s
  | x :: xs => final ((stepIn s x).next s) xs

end ScionTime.Pll
