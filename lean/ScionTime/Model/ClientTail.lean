/-
  What the two per-exchange functions do around the part modelled in Model/ClientNtp.lean:

  (h) core/client/client_ip.go measureClockOffsetIP / client_scion.go measureClockOffsetSCION, the
      statements BEHIND `ValidateResponseTimestamps`, in source order: `c.prev… = …` (interleaved
      mode), `offset = c.Filter.Do(t0, t1, t2, t3)`, and only then

          if c.Histogram != nil { err := c.Histogram.RecordValue(rtd.Microseconds()); if err != nil { return time.Time{}, 0, err } }

      — an error returned AFTER the client's state was committed.
  (r) client_scion.go, the outgoing SCION/UDP header (TrafficClass, SrcIA/DstIA, SetSrcAddr/SetDstAddr
      of the unmapped addresses, SetPath, UDP ports) with its explicit panics, and the host named in
      the DRKey request next to the host written into the header.
  (p) the cookie side of the receive loop: `nts.ProcessResponse` (StoreCookie for every cookie of
      the datagram) runs BEFORE the origin check of the NTP stage, whose refusal `continue`s.
  (w) core/client/client.go, number of exchanges one attempt loop performs.

  Core Lean only.
-/
import ScionTime.Model.ClientNtp
import ScionTime.Model.ClientFlow
namespace ScionTime.ClientTail
open ScionTime.Time64 ScionTime.NtpMath ScionTime.ClientNtp ScionTime.ClientFlow

/-! ## (h) histogram: an error after the state was committed -/

/-- `hdrhistogram.Histogram` as far as the error of `RecordValue` goes: `RecordValue(v)` returns nil
    iff `0 ≤ v < limit`, where `limit` is fixed by the three arguments of `hdrhistogram.New`
    (`countsLen` resp. the first value whose counts index is out of range; the harness measures it
    on the real library and probes `-1, 0, limit-1, limit` on every run). The benchmark tools use
    `hdrhistogram.New(1, 50000, 5)`: `limit = 262144` (µs). `timeservice.go` configures none. -/
structure Hist where
  limit : Nat
deriving Repr, DecidableEq

/-- `time.Duration.Microseconds()`: `int64(d) / 1e3`, truncating -/
def microseconds (d : Int64) : Int := Int.tdiv d.toInt 1000

def Hist.recordOk (h : Hist) (rtd : Int64) : Bool :=
  decide (0 ≤ microseconds rtd) && decide (microseconds rtd < h.limit)

/-- `hdrhistogram.New(1, 50000, 5)` of benchmark/client_ip.go and benchmark/client_scion.go -/
def benchmarkHist : Hist := ⟨262144⟩

/-- what one call of `measureClockOffsetIP` / `measureClockOffsetSCION` returns -/
inductive Result where
  | ok (ts : Int) (off : Int64)
  /-- `Histogram.RecordValue` refused the round-trip delay -/
  | errHist
  | err (e : ErrKind)
  | panic
  | blocked
deriving Repr, DecidableEq

def Result.isOk : Result → Bool
  | .ok _ _ => true
  | _ => false

/-- the tuple `Filter.Do` was called with in this call (`none`: not called) -/
abbrev Sample := Int × Int × Int × Int

structure TailOut where
  result : Result
  prev : Prev
  absorbed : Option Sample
deriving Repr, DecidableEq

/-- The loop body behind `ValidateResponseTimestamps` for an accepted response, in the code's
    order: prev update, filter, histogram. `filter = none` is `c.Filter == nil`. -/
def tail (cfg : Cfg) (hist : Option Hist) (filter : Option (Int → Int → Int → Int → Int64))
    (prev : Prev) (reference : String) (cTx1 : Int) (a : Accepted) : TailOut :=
  let prev' := updatePrev cfg prev reference cTx1 a
  let off := returnedOffset filter a
  let absorbed : Option Sample := filter.map fun _ => (a.t0, a.t1, a.t2, a.t3)
  match hist with
  | none => ⟨.ok a.cRx off, prev', absorbed⟩
  | some h => if h.recordOk a.rtd then ⟨.ok a.cRx off, prev', absorbed⟩ else ⟨.errHist, prev', absorbed⟩

/-- the variant a repair would make of it: the histogram is asked first, nothing is committed
    when it refuses -/
def tailRecordFirst (cfg : Cfg) (hist : Option Hist) (filter : Option (Int → Int → Int → Int → Int64))
    (prev : Prev) (reference : String) (cTx1 : Int) (a : Accepted) : TailOut :=
  match hist with
  | some h =>
    if h.recordOk a.rtd then tail cfg none filter prev reference cTx1 a else ⟨.errHist, prev, none⟩
  | none => tail cfg none filter prev reference cTx1 a

/-- a whole call, from the receive loop's outcome on -/
def finish (cfg : Cfg) (hist : Option Hist) (filter : Option (Int → Int → Int → Int → Int64))
    (prev : Prev) (reference : String) (cTx1 : Int) (out : Outcome) : TailOut :=
  match out with
  | .accepted a _ => tail cfg hist filter prev reference cTx1 a
  | .error e _ => ⟨.err e, prev, none⟩
  | .panic _ => ⟨.panic, prev, none⟩
  | .blocked => ⟨.blocked, prev, none⟩

def exchangeIPH (cfg : Cfg) (hist : Option Hist) (filter : Option (Int → Int → Int → Int → Int64))
    (server : Nat) (prev : Prev) (reference : String) (now cTx1 : Int) (evs : List (Event IpDgram)) : TailOut :=
  finish cfg hist filter prev reference cTx1 (exchangeIP cfg server prev reference now cTx1 evs).1

def exchangeSCIONH (cfg : Cfg) (hist : Option Hist) (filter : Option (Int → Int → Int → Int → Int64))
    (sc : ScionCtx) (prev : Prev) (reference : String) (now cTx1 : Int) (evs : List (Event ScionDgram)) : TailOut :=
  finish cfg hist filter prev reference cTx1 (exchangeSCION cfg sc prev reference now cTx1 evs).1

/-- the call as the attempt loop of client.go sees it: `(t, o, nil)` with `InInterleavedMode()`
    evaluated on the state the call left behind, or an error -/
def TailOut.attempt (cfg : Cfg) (o : TailOut) : Option Attempt :=
  match o.result with
  | .ok ts off => some (.ok ts off (inInterleavedMode cfg o.prev))
  | .errHist => some (.err .other)
  | .err e => some (.err e)
  | .panic => none
  | .blocked => none

/-! ## (r) the outgoing SCION request header -/

/-- `slayers.SCION` / `slayers.UDP` fields the client sets for its request -/
structure ReqHdr where
  trafficClass : Nat
  srcIA : Nat
  dstIA : Nat
  src : HostAddr
  dst : HostAddr
  srcPort : Nat
  dstPort : Nat
  /-- `scionLayer.NextHdr` as serialised: `L4UDP` (17), or `End2EndClass` (201) when the packet
      authenticator option was added -/
  nextHdr : Nat
deriving Repr, DecidableEq

inductive HdrResult where
  | hdr (h : ReqHdr)
  /-- `panic(errUnexpectedAddrType)`: `netip.AddrFromSlice(remoteAddr.Host.IP)` failed -/
  | panicAddr
  /-- `panic(err)` after `path.Dataplane().SetPath(&scionLayer)` failed -/
  | panicSetPath
  /-- the entry check returned `errUnexpectedAddrType` (local address; nothing was built) -/
  | errAddr
  /-- `udp.SetDSCP(conn, c.DSCP)`: `panic("invalid argument: dscp must not be greater than 63")` — a
      configuration value (`timeservice.go` refuses it at start-up: `dscp(cfg)`) -/
  | panicDSCP
deriving Repr, DecidableEq

/-- `addr.HostIP(ip.Unmap())` handed to `SetSrcAddr` / `SetDstAddr`: type `T4Ip` with 4 raw bytes or
    `T16Ip` with 16 -/
def hostOfIP (b : List Nat) : Option HostAddr :=
  (unmapIP b).map fun a => if a.length = 4 then ⟨t4Ip, a⟩ else ⟨t16Ip, a⟩

/-- `remoteAddr.Host.IP.To4()` replacing the address when it has a 4-byte form: the bytes the
    client holds afterwards (`unmapIP` of a 4- or 16-byte slice; any other slice is left alone) -/
def held (b : List Nat) : List Nat := (unmapIP b).getD b

def l4UDP : Nat := 17
def end2EndClass : Nat := 201

/-- The request header. `dscp` = `c.DSCP` (uint8; at most 63, else `SetDSCP` panics right after the socket was
    opened, so `c.DSCP << 2` never wraps), `localPort` = port of
    the exchange's own socket, `setPathOk` = `SetPath` succeeded (always for the paths a daemon or
    the intra-AS constructor hands out), `withAuth` = the authenticator option was added. -/
def mkScionRequestHeader (dscp : Nat) (localIA : Nat) (localIP : List Nat) (remoteIA : Nat)
    (remoteIP : List Nat) (localPort remotePort : Nat) (setPathOk withAuth : Bool) : HdrResult :=
  match hostOfIP localIP with
  | none => .errAddr
  | some src =>
    if dscp > 63 then .panicDSCP else
    match hostOfIP (held remoteIP) with
    | none => .panicAddr
    | some dst =>
      if !setPathOk then .panicSetPath
      else .hdr { trafficClass := dscp * 4 % 256, srcIA := localIA, dstIA := remoteIA, src := src, dst := dst,
                  srcPort := localPort % 65536, dstPort := remotePort % 65536,
                  nextHdr := if withAuth then end2EndClass else l4UDP }

/-- The host a DRKey request names (`DstHost: localAddr.Host.IP.String()`,
    `SrcHost: remoteAddr.Host.IP.String()`): `net.IP.String()` prints a 4-byte slice and an
    IPv4-mapped 16-byte slice as the dotted IPv4 address, any other 16-byte slice as the IPv6
    address — an injective rendering of the UNMAPPED address; `none`: neither 4 nor 16 bytes
    (Go prints `?…`, no host). -/
def drkeyHostOfIP (b : List Nat) : Option (List Nat) := unmapIP b

/-- The host the listener derives from a received header for ITS DRKey request
    (`scionLayer.SrcAddr()` → `addr.Host.IP().String()`): the raw bytes of an IP-typed address;
    a `T16Ip` address is NOT unmapped there (`netip.AddrFrom16`), so `::ffff:a.b.c.d` in a header is
    another host than `a.b.c.d`. -/
def listenerHostOf (h : HostAddr) : Option (List Nat) :=
  if h.type == t4Ip && h.raw.length == 4 then some h.raw
  else if h.type == t16Ip && h.raw.length == 16 then some h.raw
  else none

/-! ## (p) cookie pool over the receive loop with the origin `continue` -/

/-- a datagram as the NTS stage and the origin check see it -/
structure PDgram where
  /-- passes `nts.DecodePacket` and `nts.ProcessResponse` (unique identifier, AEAD) -/
  authOk : Bool
  /-- the cookies `ProcessResponse` hands to `StoreCookie` then (ghost tags) -/
  cookies : List Nat
  /-- `ntpresp.OriginTime` echoes the request (tx, or rx of an interleaved request) -/
  originOk : Bool
deriving Repr, DecidableEq

/-- The receive loop as far as the pool goes; `r` = `numRetries`, `canRetry` = `deadlineIsSet &&
    Now().Before(deadline)` (taken constant over the ≤ 2 iterations). Result: pool, and whether a
    datagram got past the origin check (the exchange then ends with it, accepted or not). -/
def poolLoop (canRetry : Bool) : Nat → List Nat → List PDgram → List Nat × Bool
  | _, pool, [] => (pool, false)
  | r, pool, d :: rest =>
    if !d.authOk then
      if r != maxNumRetries && canRetry then poolLoop canRetry (r + 1) pool rest else (pool, false)
    else
      let pool' := d.cookies.foldl NtsPool.storeCookie pool
      if !d.originOk then
        if r != maxNumRetries && canRetry then poolLoop canRetry (r + 1) pool' rest else (pool', false)
      else (pool', true)

/-- one call: `FetchData` pops the head, then the loop -/
def poolExchange (canRetry : Bool) (pool : List Nat) (ds : List PDgram) : List Nat × Bool :=
  match NtsPool.fetchData pool with
  | none => (pool, false)
  | some (_, rest) => poolLoop canRetry 0 rest ds

/-- the variant in which the origin is checked before the cookies are stored -/
def poolLoopOriginFirst (canRetry : Bool) : Nat → List Nat → List PDgram → List Nat × Bool
  | _, pool, [] => (pool, false)
  | r, pool, d :: rest =>
    if !(d.authOk && d.originOk) then
      if r != maxNumRetries && canRetry then poolLoopOriginFirst canRetry (r + 1) pool rest else (pool, false)
    else (d.cookies.foldl NtsPool.storeCookie pool, true)

/-! ## (w) number of exchanges of one attempt loop -/

/-- index of the first attempt that succeeds and leaves the client in interleaved mode -/
def firstIL : List Attempt → Option Nat
  | [] => none
  | .ok _ _ true :: _ => some 0
  | _ :: rest => (firstIL rest).map (· + 1)

end ScionTime.ClientTail
