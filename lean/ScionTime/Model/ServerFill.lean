/-
  The `fill` of the timestamp store: `n` first requests of `n` fresh clients
  `idbase, idbase+1, …` with receive times `base + i*step` (clock reading `d` later), as
  the harness op `srv.bulk` performs them through the real `handleRequest`, and its closed
  form (Props/C07: `C07_fill_closed_form` proves them equal), which lets the driver build
  the full table of `tssCap = 2^20` clients in linear time.
-/
import ScionTime.Model.Server
namespace ScionTime.Server
open ScionTime.Time64

def zeroReq : Req := ⟨zero64, zero64, zero64⟩

/-- receive time of the `i`-th request of the fill -/
def fillRxt (base step : Int) (i : Nat) : Int := base + (i : Int) * step

/-- `*txt` on return of `handleRequest` for a newcomer: the clock reading `rxt + d`, or
    `rxt + 1` if that is not later than `rxt` (repaired code) -/
def fillTxt (rxt d : Int) : Int := if rxt < rxt + d then rxt + d else rxt + 1

/-- map entry of the `i`-th client after the fill -/
def fillItem (idbase : Nat) (base step d : Int) (i : Nat) : Nat × Item :=
  (idbase + i,
   { buf := [⟨ofTime (fillRxt base step i), ofTime (fillTxt (fillRxt base step i) d), idbase + i⟩]
     qval := ofTime (fillRxt base step i)
     qidx := i })

/-- heap array after the fill: arrival order -/
def fillHeap (n idbase : Nat) : Array Nat := ((List.range n).map (idbase + ·)).toArray

/-- closed form of the fill with the map entries in arrival order (oldest first): the
    state the driver starts the capacity regime from. The order of the association list is
    not observable (`Map.find`/`modify`/`erase`/`length` on distinct keys); with the entries
    newest first (`fillStateRev`) it is literally the state the replay produces. -/
def fillState (n idbase : Nat) (base step d : Int) : State :=
  { items := (List.range n).map (fillItem idbase base step d), heap := fillHeap n idbase }

def fillStateRev (n idbase : Nat) (base step d : Int) : State :=
  { items := ((List.range n).map (fillItem idbase base step d)).reverse, heap := fillHeap n idbase }

/-- the fill, one `handleRequest` per client -/
def fillReplay (cap icap n idbase : Nat) (base step d : Int) : State :=
  (List.range n).foldl (fun (st : State) (i : Nat) =>
    (handleRequest cap icap st (idbase + i) zeroReq (fillRxt base step i) (fillRxt base step i + d)).st) init

end ScionTime.Server
