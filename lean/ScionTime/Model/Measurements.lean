/-
  Model of core/measurements/measurement.go: midpoint, Median, FaultTolerantMidpoint.

  A `Measurement` is `(Offset : int64, Timestamp : time.Time as Int nanoseconds since the
  Unix epoch, Error ≠ nil ?)`.

  `slices.SortFunc(ms, cmp.Compare(a.Offset, b.Offset))` is an *unstable* pattern-defeating
  quicksort: which of two measurements with equal offsets comes first is an implementation
  detail of the Go runtime and is NOT modelled.  Instead the model takes, next to the input
  slice `ms`, the slice `post` the implementation left behind, checks that `post` is a
  permutation of `ms` sorted by offset (`isSortedPerm`), and computes the result from `post`
  exactly as the Go code does after its sort call.  The theorems in Props/C02 quantify over
  *every* offset-sorted permutation, so they hold for whatever (correct) sort Go uses.
-/
import ScionTime.Model.Timemath
namespace ScionTime.Measurements
open ScionTime.Timemath

structure M where
  offset : Int64
  ts     : Int
  err    : Bool
deriving DecidableEq, Repr, Inhabited

def key (m : M) : Int := m.offset.toInt

/-- `t.Sub(u)`: the difference as int64 nanoseconds, saturating at
    `minDuration = -2^63` and `maxDuration = 2^63-1`. -/
def timeSub (t u : Int) : Int64 :=
  if t - u > 9223372036854775807 then Int64.maxValue
  else if t - u < -9223372036854775808 then Int64.minValue
  else Int64.ofInt (t - u)

/-- `t.Add(d)` -/
def timeAdd (t : Int) (d : Int64) : Int := t + d.toInt

/-- Timestamp part of `midpoint(x, y)`. -/
def midTs (tx ty : Int) : Int :=
  if ¬ (tx > ty) then timeAdd tx (timeSub ty tx / 2)
  else timeAdd ty (timeSub tx ty / 2)

/-- `midpoint(x, y)`: offset midpoint as in timemath, timestamp midpoint, `Error` unset. -/
def midpointM (x y : M) : M :=
  { offset := midpoint x.offset y.offset
    ts := midTs x.ts y.ts
    err := false }

def zeroM : M := ⟨0, 0, false⟩

/-- What `Median` returns once `ms` has been sorted into `s` (`n > 0`). -/
def medianSel (s : List M) : M :=
  let n := s.length
  let i := n / 2
  if n % 2 ≠ 0 then { offset := (s.getD i zeroM).offset, ts := (s.getD i zeroM).ts, err := false }
  else midpointM (s.getD (i - 1) zeroM) (s.getD i zeroM)

/-- What `FaultTolerantMidpoint` returns once `ms` has been sorted into `s` (`n > 0`). -/
def ftmSel (s : List M) : M :=
  let n := s.length
  let f := (n - 1) / 3
  midpointM (s.getD f zeroM) (s.getD (n - 1 - f) zeroM)

/-- `post` is a permutation of `ms` that is sorted by offset. -/
def SortedPerm (ms post : List M) : Prop := post.Perm ms ∧ SortedBy key post

def isSortedPerm (ms post : List M) : Bool :=
  post.isPerm ms && decide (SortedBy key post)

theorem isSortedPerm_iff (ms post : List M) : isSortedPerm ms post = true ↔ SortedPerm ms post := by
  unfold isSortedPerm SortedPerm
  rw [Bool.and_eq_true, List.isPerm_iff, decide_eq_true_iff]

inductive Res where
  | panic                 -- `panic("unexpected number of values")`
  | badSort               -- the slice handed in as `post` is not a sorted permutation of the input
  | ok (m : M)
deriving DecidableEq, Repr

/-- `Median(ms)`, given the slice `post` the sort call left behind. -/
def median (ms post : List M) : Res :=
  if ms.isEmpty then .panic
  else if isSortedPerm ms post then .ok (medianSel post) else .badSort

/-- `FaultTolerantMidpoint(ms)`, given the slice `post` the sort call left behind. -/
def ftm (ms post : List M) : Res :=
  if ms.isEmpty then .panic
  else if isSortedPerm ms post then .ok (ftmSel post) else .badSort

end ScionTime.Measurements
