/-
  Model/F64P_UnixutilFloat.lean — the floating-point conversions of C18, over the software
  double of Model/F64.lean.

  Go: base/unixutil/freq.go (ScaledPPMFromFreq, FreqFromScaledPPM),
      driver/clocks/sysclk_linux.go (NewSystemClock, SystemClock.Drift),
      base/timemath/timemath.go (Duration), time.Duration.Seconds.
-/
import ScionTime.Model.F64
namespace ScionTime.F64P_UnixutilFloat
open ScionTime.F64

/-- `65536.0 * 1e6`: an untyped constant expression, evaluated exactly by the compiler
    (= 65 536 000 000, below 2^53) and then converted to float64 without rounding. -/
def scale : Int := 65536000000

def scaleF : F64 := ofInt scale

/-- `unixutil.ScaledPPMFromFreq`: `int64(freq * (65536.0 * 1e6))` -/
def scaledPPMFromFreq (freq : F64) : Int := toInt64 (mul freq scaleF)

/-- `unixutil.FreqFromScaledPPM`: `float64(scaledPPM) / (65536.0 * 1e6)` -/
def freqFromScaledPPM (scaledPPM : Int) : F64 := div (ofInt scaledPPM) scaleF

def maxInt64 : Int := 9223372036854775807

/-- `(*SystemClock).Drift` with the field `c.drift = drift`:
    `if c.drift == UnknownDrift { return math.MaxInt64 }` (`UnknownDrift = 0`; IEEE `==`, so
    both zeros match and NaN does not), else
    `timemath.Duration(duration.Seconds() * c.drift)`. -/
def drift (c : F64) (duration : Int) : Int :=
  if beq c (.zero false) then maxInt64
  else toDuration (mul (durationSeconds duration) c)

/-- `NewSystemClock(log, d).Drift(duration)`: the field is `d.Seconds()`. -/
def driftOfDuration (d : Int) (duration : Int) : Int := drift (durationSeconds d) duration

end ScionTime.F64P_UnixutilFloat
