/-
  Model/Provider.lean — net/ntske/provider.go (`Provider`: the key store shared by the NTS-KE
  and the NTP/NTS servers). Core Lean only.

  Times are `Int` nanoseconds on the monotonic clock (every `time.Time` the provider compares
  comes from `time.Now()` or from `Add` on such a value, so `Before`/`After` compare monotonic
  readings). Every exported method takes `p.mu` first and reads `time.Now()` afterwards, so
  the order in which operations take effect is the order of their clock readings; a history is
  therefore a list of operations with non-decreasing times (`Timed`). `Current` reads the clock
  twice (once itself, once inside `generateNext`): the model keeps both readings `t1 ≤ t2`.

  The Go map `keys` is an association list searched from the newest entry (`find`), which is
  exactly map lookup after `p.keys[id] = key` assignments; `delete` during `range` is `filter`.
  The `ID overflow` panic guard (`currentID == math.MaxInt`) is not part of the state machine;
  `Props/C12.lean` proves `currentId ≤ 1 + elapsed / renewal`, which puts it out of reach.
-/
namespace ScionTime.Provider

/-- `keyValidity`, `keyRenewalInterval` (pinned to /repo's values in Props/C12.lean). -/
structure Params where
  validity : Int
  renewal : Int
deriving Repr

/-- The values in provider.go: 3 days, 1 day (in ns). Pinned to `Gen.Ntske` by
    `C12_pin_keyValidity` / `C12_pin_keyRenewalInterval`. -/
def std : Params := { validity := 259200000000000, renewal := 86400000000000 }

/-- ntske.Key without the secret bytes: `ID`, `Validity.NotBefore`, `Validity.NotAfter`. -/
structure Key where
  id : Int
  nb : Int
  na : Int
deriving Repr, DecidableEq

/-- `(*Key).IsValidAt`: `!(t.Before(NotBefore) || t.After(NotAfter))`. -/
def Key.validAt (k : Key) (t : Int) : Bool := !(decide (t < k.nb) || decide (k.na < t))

/-- Provider fields `keys`, `currentID`, `generatedAt`. -/
structure State where
  keys : List Key
  currentId : Int
  generatedAt : Int
deriving Repr

/-- map lookup `p.keys[id]` (newest binding first). -/
def find (keys : List Key) (id : Int) : Option Key := keys.find? (fun k => k.id == id)

/-- `(*Provider).generateNext` with `time.Now() = t`: delete every key invalid at `t`,
    `currentID++`, `generatedAt = t`, store the new key valid `[t, t + keyValidity]`. -/
def generateNext (P : Params) (s : State) (t : Int) : State :=
  let kept := s.keys.filter (fun k => k.validAt t)
  let id := s.currentId + 1
  { keys := { id := id, nb := t, na := t + P.validity } :: kept
    currentId := id
    generatedAt := t }

/-- `NewProvider()` at time `t0`: empty map, `currentID = 0`, then `generateNext`. -/
def init (P : Params) (t0 : Int) : State := generateNext P { keys := [], currentId := 0, generatedAt := 0 } t0

/-- `(*Provider).Get(id)` with `time.Now() = t`. -/
def get (s : State) (id : Int) (t : Int) : Option Key :=
  match find s.keys id with
  | none => none
  | some k => if k.validAt t then some k else none

/-- The renewal test of `Current`: `!key.IsValidAt(tNow) || generatedAt.Add(renewal).Before(tNow)`
    where a missing map entry is the zero `Key` (never valid at a clock reading). -/
def needsRenewal (P : Params) (s : State) (t : Int) : Bool :=
  (match find s.keys s.currentId with
   | none => true
   | some k => !k.validAt t) || decide (s.generatedAt + P.renewal < t)

/-- the zero `Key{}` returned for a missing map entry (never happens: `C12_current_is_key`). -/
def zeroKey : Key := { id := 0, nb := 0, na := 0 }

/-- `(*Provider).Current()`: `t1` is `Current`'s own clock reading, `t2 ≥ t1` the reading
    inside `generateNext` (used only if a new key is generated). -/
def current (P : Params) (s : State) (t1 t2 : Int) : State × Key :=
  let s' := if needsRenewal P s t1 then generateNext P s t2 else s
  (s', (find s'.keys s'.currentId).getD zeroKey)

/-- One call on the provider. -/
inductive Op where
  | current (t1 t2 : Int)
  | get (id : Int) (t : Int)
deriving Repr

def Op.tIn : Op → Int
  | .current t1 _ => t1
  | .get _ t => t

def Op.tOut : Op → Int
  | .current _ t2 => t2
  | .get _ t => t

/-- State change and answer of one call (`Current` always answers a key; `Get` may not). -/
def step (P : Params) (s : State) : Op → State × Option Key
  | .current t1 t2 => let r := current P s t1 t2; (r.1, some r.2)
  | .get id t => (s, get s id t)

/-- State after a history. -/
def exec (P : Params) (s : State) : List Op → State
  | [] => s
  | op :: rest => exec P (step P s op).1 rest

/-- Clock readings of a history that starts at `now` never go backwards. -/
def Timed (now : Int) : List Op → Prop
  | [] => True
  | op :: rest => now ≤ op.tIn ∧ op.tIn ≤ op.tOut ∧ Timed op.tOut rest

/-- Last clock reading of a history that starts at `now`. -/
def endTime (now : Int) : List Op → Int
  | [] => now
  | op :: rest => endTime op.tOut rest

/-! ### The users of the provider (core/server)

  Three functions obtain keys from the provider: `newNTSKEMsg` (core/server/ntske.go, the answer
  of the NTS-KE server), and the NTS branch of the receive loops of `runIPServer` and
  `runSCIONServer`. All three seal fresh cookies under the value of a `provider.Current()` call
  made in the same call / loop iteration, and the listeners open a request's cookie only with
  the key `provider.Get(id)` returned (second result tested). These usage facts are extracted
  from /repo on every run (`Gen.Server.c12KeyUse_*`, `c12ProviderUses`) and pinned in
  Props/C12.lean. -/

/-- One use of the provider.
  * `ke t1 t2`: `newNTSKEMsg` — `key := provider.Current()` (clock readings `t1 ≤ t2`); the
    cookies of the key exchange answer are sealed under `key`.
  * `ntp id t auth c1 c2`: one iteration of a listener's receive loop on an NTS request whose
    first cookie names key `id` — `provider.Get(id)` at `t`; `continue` if not found; the cookie
    is opened with that key and the request authenticated (`auth`: outcome of everything
    between the two provider calls, `continue` if it fails); then `key := provider.Current()`
    (readings `c1 ≤ c2`) and the fresh cookies of the reply are sealed under `key`. -/
inductive Use where
  | ke (t1 t2 : Int)
  | ntp (id : Int) (t : Int) (auth : Bool) (c1 c2 : Int)
deriving Repr

/-- What one use did with keys: the key the request's cookie was opened with, and the key the
    cookies handed out were sealed under. -/
structure Outcome where
  opened : Option Key
  sealedWith : Option Key
deriving Repr

/-- The provider calls a use makes in state `s` (`Get` does not change the state). -/
def Use.toOps (s : State) : Use → List Op
  | .ke t1 t2 => [.current t1 t2]
  | .ntp id t auth c1 c2 =>
    if (get s id t).isSome && auth then [.get id t, .current c1 c2] else [.get id t]

/-- State change and outcome of one use. -/
def useStep (P : Params) (s : State) : Use → State × Outcome
  | .ke t1 t2 => let r := current P s t1 t2; (r.1, { opened := none, sealedWith := some r.2 })
  | .ntp id t auth c1 c2 =>
    match get s id t with
    | none => (s, { opened := none, sealedWith := none })
    | some k =>
      if auth then
        let r := current P s c1 c2
        (r.1, { opened := some k, sealedWith := some r.2 })
      else (s, { opened := some k, sealedWith := none })

/-- State after a history of uses. -/
def useExec (P : Params) (s : State) : List Use → State
  | [] => s
  | u :: rest => useExec P (useStep P s u).1 rest

/-- The provider calls of a history of uses, in order. -/
def flat (P : Params) (s : State) : List Use → List Op
  | [] => []
  | u :: rest => u.toOps s ++ flat P (useStep P s u).1 rest

/-! What the usage facts exclude (seeded C12-7, C12-8): a listener that keeps the sealing key in
    a variable outside its receive loop and refreshes it only when it is no longer valid, and a
    key exchange that takes the newest key without renewing it. Both seal under keys older than
    the renewal interval (`C12_use_cached_key_stale`, `C12_use_newest_key_stale`). -/

/-- The listener of seeded C12-7: `if !cookieKey.IsValidAt(now) { cookieKey = provider.Current() }`
    with `cookieKey` living across iterations (`cache`). Returns provider state, new cache and
    the sealing key. -/
def sealCachedOld (P : Params) (s : State) (cache : Key) (t : Int) : State × Key × Key :=
  if cache.validAt t then (s, cache, cache)
  else let r := current P s t t; (r.1, r.2, r.2)

/-- `Provider.Newest()` of seeded C12-8 followed by the fallback to `Current()`. -/
def sealNewestOld (P : Params) (s : State) (t : Int) : State × Key :=
  match find s.keys s.currentId with
  | some k => if k.validAt t then (s, k) else current P s t t
  | none => current P s t t

/-! ### The methods as the code has them (regenerated tie, Props/LeafC12.lean)

  `generateNext`, `Get` and `Current` of provider.go are translated from the Go AST on every run
  (Gen/LeafNtske.lean) and proved equal to the three definitions below for every provider state,
  clock reading and random stream. They differ from the state machine above in what the state
  machine leaves out: the `ID overflow` panic (`none`), the assignment `p.keys[id] = key` replacing an
  entry of the same id, and the zero `Key{}` (both validity bounds the zero `time.Time`, year 1)
  standing for a missing map entry. `Props/LeafC12.lean` proves that on every reachable state
  (`Inv`) below the overflow they are the state machine's. -/

/-- `math.MaxInt` -/
def maxInt : Int := 9223372036854775807

/-- the zero `time.Time{}` in ns relative to the Unix epoch (`Go.Time.zero`) -/
def zeroTime : Int := -62135596800000000000

/-- the zero `Key{}` -/
def zeroKeyGo : Key := { id := 0, nb := zeroTime, na := zeroTime }

/-- `(*Provider).generateNext` statement by statement: prune, overflow check, `currentID + 1`,
    `p.keys[currentID] = key` -/
def generateNextGo (P : Params) (s : State) (t : Int) : Option State :=
  let kept := s.keys.filter (fun k => k.validAt t)
  if s.currentId = maxInt then none
  else
    let id := s.currentId + 1
    some { keys := { id := id, nb := t, na := t + P.validity } :: kept.filter (fun k => !(k.id == id))
           currentId := id
           generatedAt := t }

/-- `(*Provider).Get`: `(Key{}, false)` or `(key, true)` -/
def getGo (s : State) (id : Int) (t : Int) : Key × Bool :=
  match find s.keys id with
  | none => (zeroKeyGo, false)
  | some k => if k.validAt t then (k, true) else (zeroKeyGo, false)

/-- `(*Provider).Current`: `none` = the overflow panic inside `generateNext` -/
def currentGo (P : Params) (s : State) (t1 t2 : Int) : Option (State × Key) :=
  let key := (find s.keys s.currentId).getD zeroKeyGo
  if !key.validAt t1 || decide (s.generatedAt + P.renewal < t1) then
    (generateNextGo P s t2).map fun s' => (s', (find s'.keys s'.currentId).getD zeroKeyGo)
  else some (s, key)

end ScionTime.Provider
