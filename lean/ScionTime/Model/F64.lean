/-
  Model/F64.lean — an exact software model of IEEE-754 binary64 as Go uses it on amd64
  (no fused multiply-add; `+ - * /`, `math.Sqrt`, `math.Ceil`, conversions and
  comparisons are correctly rounded / exact).

  A finite non-zero double is the exact rational it denotes (core `Rat`); zeros carry a
  sign; infinities and NaN are explicit.  `roundNE` rounds a non-zero rational to the
  nearest double, ties to even, with gradual underflow and overflow to infinity.
  Everything is computable (the drivers execute it) and kernel-transparent (theorems
  reason about `toRat`).

  Tie to Go: harness/cmd/f64 runs the hardware operations on boundary-dense and random
  bit patterns and compares bit for bit (ops `f64.*`, driver Driver/F64Ops.lean).
  `math.Pow` is NOT modelled (pure Go, not correctly rounded): its result is an input.
-/
namespace ScionTime.F64

inductive F64 where
  | nan
  | inf (neg : Bool)
  | zero (neg : Bool)
  | fin (q : Rat)          -- q ≠ 0 and q is exactly representable (invariant `F64.WF`)
deriving DecidableEq, Repr, Inhabited

/-- `2^e` as a rational, for any integer exponent. -/
def pow2 (e : Int) : Rat :=
  if e ≥ 0 then ((2 ^ e.toNat : Nat) : Rat) else 1 / ((2 ^ (-e).toNat : Nat) : Rat)

/-- `⌊log₂ (n/d)⌋` for positive `n`, `d`. -/
def floorLog2 (n d : Nat) : Int :=
  let l : Int := (n.log2 : Int) - (d.log2 : Int)
  -- 2^(l-1) < n/d < 2^(l+1); decide which half
  let ge : Bool := if l ≥ 0 then decide (n ≥ d * 2 ^ l.toNat) else decide (n * 2 ^ (-l).toNat ≥ d)
  if ge then l else l - 1

def minExp : Int := -1074       -- exponent of the smallest subnormal
def precBits : Int := 53

/-- The exponent `e` such that doubles near `a = n/d > 0` are the integer multiples of `2^e`. -/
def ulpExp (n d : Nat) : Int :=
  let e := floorLog2 n d - (precBits - 1)
  if e < minExp then minExp else e

/-- Round-half-even of a non-negative rational to a natural number. -/
def roundHalfEven (x : Rat) : Nat :=
  let f := x.floor
  let r := x - (f : Rat)
  let m : Int := if r > 1/2 then f + 1 else if r < 1/2 then f else if f % 2 = 0 then f else f + 1
  m.toNat

/-- `2^1024`: results of this magnitude or more overflow to infinity. -/
def overflowThreshold : Rat := pow2 1024

/-- Round a rational to the nearest double (ties to even). -/
def roundNE (q : Rat) : F64 :=
  if q = 0 then .zero false else
  let neg := decide (q < 0)
  let a : Rat := if neg then -q else q
  let e := ulpExp a.num.natAbs a.den
  let m := roundHalfEven (a / pow2 e)
  if m = 0 then .zero neg
  else
    let v : Rat := (m : Rat) * pow2 e
    if v ≥ overflowThreshold then .inf neg
    else .fin (if neg then -v else v)

/-- The rational value of a finite double (0 for zeros; 0 by convention for inf/nan —
    statements about values always carry `isFinite`). -/
def toRat : F64 → Rat
  | .fin q => q
  | _ => 0

def isFinite : F64 → Bool
  | .fin _ => true
  | .zero _ => true
  | _ => false

def isNaN : F64 → Bool
  | .nan => true
  | _ => false

def signBit : F64 → Bool
  | .nan => false
  | .inf n => n
  | .zero n => n
  | .fin q => decide (q < 0)

def neg : F64 → F64
  | .nan => .nan
  | .inf n => .inf (!n)
  | .zero n => .zero (!n)
  | .fin q => .fin (-q)

def abs : F64 → F64
  | .nan => .nan
  | .inf _ => .inf false
  | .zero _ => .zero false
  | .fin q => .fin (if q < 0 then -q else q)

def add : F64 → F64 → F64
  | .nan, _ => .nan
  | _, .nan => .nan
  | .inf a, .inf b => if a = b then .inf a else .nan
  | .inf a, _ => .inf a
  | _, .inf b => .inf b
  | .zero a, .zero b => .zero (a && b)
  | .zero _, .fin y => .fin y
  | .fin x, .zero _ => .fin x
  | .fin x, .fin y => roundNE (x + y)      -- exact zero sum is +0 (round to nearest)

def sub (a b : F64) : F64 := add a (neg b)

def mul : F64 → F64 → F64
  | .nan, _ => .nan
  | _, .nan => .nan
  | .inf a, .inf b => .inf (a != b)
  | .inf _, .zero _ => .nan
  | .zero _, .inf _ => .nan
  | .inf a, .fin y => .inf (a != decide (y < 0))
  | .fin x, .inf b => .inf (decide (x < 0) != b)
  | .zero a, .zero b => .zero (a != b)
  | .zero a, .fin y => .zero (a != decide (y < 0))
  | .fin x, .zero b => .zero (decide (x < 0) != b)
  | .fin x, .fin y => roundNE (x * y)      -- non-zero product; underflow keeps the sign

def div : F64 → F64 → F64
  | .nan, _ => .nan
  | _, .nan => .nan
  | .inf _, .inf _ => .nan
  | .inf a, .zero b => .inf (a != b)
  | .inf a, .fin y => .inf (a != decide (y < 0))
  | .zero _, .zero _ => .nan
  | .zero a, .inf b => .zero (a != b)
  | .zero a, .fin y => .zero (a != decide (y < 0))
  | .fin x, .inf b => .zero (decide (x < 0) != b)
  | .fin x, .zero b => .inf (decide (x < 0) != b)
  | .fin x, .fin y => roundNE (x / y)

/-- Correctly rounded square root. For a positive rational `q` choose `k` with
    `q·4^k ≥ 2^110`, let `s = ⌊√⌊q·4^k⌋⌋` (at least 55 bits): `√q` lies in `[s, s+1)/2^k`,
    and, when inexact, anything strictly inside rounds like the midpoint. -/
def sqrtRat (q : Rat) : F64 :=
  let n := q.num.natAbs
  let d := q.den
  let l := floorLog2 n d
  let k : Int := if l ≥ 112 then 0 else (112 - l + 1) / 2
  let scaled : Rat := q * pow2 (2 * k)
  let fl := scaled.floor.toNat
  let s := fl.sqrt
  let exact := decide ((s * s : Nat) = fl) && decide ((fl : Rat) = scaled)
  if exact then roundNE ((s : Rat) / pow2 k)
  else roundNE (((2 * s + 1 : Nat) : Rat) / pow2 (k + 1))

def sqrt : F64 → F64
  | .nan => .nan
  | .inf false => .inf false
  | .inf true => .nan
  | .zero n => .zero n
  | .fin q => if q < 0 then .nan else sqrtRat q

/-- `math.Ceil` -/
def ceil : F64 → F64
  | .fin q =>
    let c := q.ceil
    if c = 0 then .zero (decide (q < 0)) else .fin (c : Rat)
  | x => x

/-- `math.Floor` -/
def floor : F64 → F64
  | .fin q =>
    let c := q.floor
    if c = 0 then .zero false else .fin (c : Rat)
  | x => x

/-- `float64(i)` for an integer (int64 in the callers). -/
def ofInt (i : Int) : F64 := roundNE (i : Rat)

/-- `int64(f)` as compiled for amd64 (CVTTSD2SQ): truncation towards zero; NaN and values
    outside the int64 range give the "integer indefinite" value `MinInt64`. -/
def toInt64 : F64 → Int
  | .fin q =>
    let t : Int := if q < 0 then -((-q).floor) else q.floor
    if t < -9223372036854775808 ∨ t > 9223372036854775807 then -9223372036854775808 else t
  | .zero _ => 0
  | _ => -9223372036854775808

/-- IEEE comparisons (`<`, `<=`, `==`): false whenever a NaN is involved; `-0 == +0`. -/
def lt : F64 → F64 → Bool
  | .nan, _ => false
  | _, .nan => false
  | .inf a, .inf b => a && !b
  | .inf a, _ => a
  | _, .inf b => !b
  | a, b => decide (toRat a < toRat b)

def le : F64 → F64 → Bool
  | .nan, _ => false
  | _, .nan => false
  | .inf a, .inf b => a || !b
  | .inf a, _ => a
  | _, .inf b => !b
  | a, b => decide (toRat a ≤ toRat b)

def gt (a b : F64) : Bool := lt b a
def ge (a b : F64) : Bool := le b a

def beq : F64 → F64 → Bool
  | .nan, _ => false
  | _, .nan => false
  | .inf a, .inf b => a == b
  | .inf _, _ => false
  | _, .inf _ => false
  | a, b => decide (toRat a = toRat b)

/-- A decimal constant of the Go source (`0.33`, `500e-6`, …) converted to float64:
    the exact rational, rounded once. -/
def ofConst (num : Int) (den : Nat) : F64 := roundNE ((num : Rat) / (den : Rat))

/-! ### Bit patterns (for the line protocol) -/

/-- decode a 64-bit pattern -/
def ofBits (b : Nat) : F64 :=
  let sign := decide (b / 2 ^ 63 % 2 = 1)
  let ex : Nat := b / 2 ^ 52 % 2 ^ 11
  let frac : Nat := b % 2 ^ 52
  if ex = 2047 then (if frac = 0 then .inf sign else .nan)
  else if ex = 0 then
    if frac = 0 then .zero sign
    else
      let v : Rat := (frac : Rat) * pow2 minExp
      .fin (if sign then -v else v)
  else
    let mant : Nat := 2 ^ 52 + frac
    let v : Rat := (mant : Rat) * pow2 ((ex : Int) - 1075)
    .fin (if sign then -v else v)

/-- encode as a 64-bit pattern; every NaN is canonicalised to `0x7ff8000000000001`
    (both sides of the correspondence print this for any NaN). -/
def toBits : F64 → Nat
  | .nan => 0x7ff8000000000001
  | .inf n => (if n then 2 ^ 63 else 0) + 2047 * 2 ^ 52
  | .zero n => if n then 2 ^ 63 else 0
  | .fin q =>
    let sgn := decide (q < 0)
    let a : Rat := if sgn then -q else q
    let e := ulpExp a.num.natAbs a.den
    let m := (a / pow2 e).floor.toNat       -- exact for representable values
    let s : Nat := if sgn then 2 ^ 63 else 0
    if m < 2 ^ 52 then s + m                 -- subnormal (e = minExp)
    else s + ((e + 1075).toNat) * 2 ^ 52 + (m - 2 ^ 52)

/-- Well-formedness: finite payloads are non-zero and exactly representable. -/
def WF : F64 → Prop
  | .fin q => q ≠ 0 ∧ roundNE q = .fin q
  | _ => True

/-! ### The two Go idioms built from these -/

/-- `time.Duration.Seconds()`: `float64(d / 1e9) + float64(d % 1e9) / 1e9` (truncating). -/
def durationSeconds (d : Int) : F64 :=
  add (ofInt (Int.tdiv d 1000000000)) (div (ofInt (Int.tmod d 1000000000)) (ofInt 1000000000))

/-- `timemath.Duration(s)`: `time.Duration(s * float64(time.Second))`. -/
def toDuration (s : F64) : Int := toInt64 (mul s (ofInt 1000000000))

end ScionTime.F64
