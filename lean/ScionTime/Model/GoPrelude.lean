/-
  Prelude of the leaf translator (harness/extract/leaf.go): the meaning given to the few
  operations of Go's standard library and of the language that generated definitions
  (Gen/Leaf.lean) use beyond fixed-width integer arithmetic. Hand-written and therefore part
  of the trusted base of the regenerated tie; every function below is also exercised by the
  differential correspondence of the properties whose models it agrees with (C03, C04, C18).

  A `time.Time` is an `Int` count of nanoseconds since the Unix epoch (wall-clock readings;
  no monotonic part, no location — `UTC()` is the identity on instants).
-/
import ScionTime.Model.F64
namespace ScionTime.Go

/-- `t.Sub(u)`: the exact difference when it fits into an int64, otherwise saturated. -/
def Time.sub (t u : Int) : Int64 :=
  if t - u < -9223372036854775808 then Int64.minValue
  else if t - u > 9223372036854775807 then Int64.maxValue
  else Int64.ofInt (t - u)

/-- `t.Unix()`: seconds since the epoch, rounded towards minus infinity. -/
def Time.unix (t : Int) : Int64 := Int64.ofInt (t / 1000000000)

/-- `t.Nanosecond()`: the non-negative sub-second part (Go's `int` is 64 bits wide). -/
def Time.nanosecond (t : Int) : Int64 := Int64.ofInt (t % 1000000000)

/-- `t.Before(u)`, `t.After(u)` -/
def Time.before (t u : Int) : Bool := decide (t < u)
def Time.after (t u : Int) : Bool := decide (t > u)

/-- `time.Unix(sec, nsec)`: the instant `sec` s + `nsec` ns after the epoch (Go normalises an
    `nsec` outside `[0, 10^9)` into the seconds; the instant is the same). -/
def unixTime (sec nsec : Int64) : Int := sec.toInt * 1000000000 + nsec.toInt

/-- `x << c`, `x >> c` on int64 for a constant shift count `0 ≤ c < 64`: Lean's shifts on
    `Int64` (wrap-around left shift, arithmetic right shift), as in Go. -/
def shl64 (x : Int64) (c : Nat) : Int64 := x <<< Int64.ofNat c
def shr64 (x : Int64) (c : Nat) : Int64 := x >>> Int64.ofNat c

/-- `len(s)` (Go's `int` is 64 bits wide) -/
def len {α : Type} (s : List α) : Int64 := Int64.ofNat s.length

/-- `s[i]` with Go's bounds check made explicit: `none` = run-time panic (index out of range) -/
def idx? (s : List Int64) (i : Int64) : Option Int64 :=
  if 0 ≤ i.toInt ∧ i.toInt < s.length then s[i.toInt.toNat]? else none

/-- `slices.Sort` on a slice of int64: the sorted permutation (insertion sort; the sorted
    permutation of a list of integers is unique, so any correct sort returns the same slice) -/
def insertI64 (a : Int64) : List Int64 → List Int64
  | [] => [a]
  | b :: l => if a.toInt ≤ b.toInt then a :: b :: l else b :: insertI64 a l
def sortI64 : List Int64 → List Int64
  | [] => []
  | a :: l => insertI64 a (sortI64 l)

/-- `d.Abs()` on a time.Duration: `MinInt64` maps to `MaxInt64` -/
def Duration.abs (d : Int64) : Int64 :=
  if d.toInt ≥ 0 then d else if d == Int64.minValue then Int64.maxValue else -d

/-- calls a method makes on its `timebase.SystemClock`, in order -/
inductive ClkAction where
  | step (offset : Int64)
  | adjust (offset duration : Int64) (frequency : F64.F64)
deriving DecidableEq, Repr

/-- A pointer `*T` to a heap object whose contents are never written after its allocation
    (eighth generation, harness/extract/leaf8.go; the translator checks that no field of `T` is
    assigned anywhere in the package): the object's identity — the number of the allocation that
    made it — and its contents. `nil` is `none` of `Option (Ref T)`. Two pointers are the same
    pointer iff they have the same identity; identities are handed out by `World.alloc`
    (Model/GoPrelude3.lean), each once. -/
structure Ref (α : Type) where
  id : Nat
  val : α
deriving Repr

/-- `*p` / `p.f`: dereferencing `nil` panics -/
def Ref.deref? {α : Type} (p : Option (Ref α)) : Option α := p.map (·.val)

/-- identity of the object pointed to (`none` for `nil`) -/
def Ref.id? {α : Type} (p : Option (Ref α)) : Option Nat := p.map (·.id)

/-- `p == q` on pointers: both `nil`, or the same object -/
def Ref.same {α : Type} (p q : Option (Ref α)) : Bool := Ref.id? p == Ref.id? q

end ScionTime.Go
