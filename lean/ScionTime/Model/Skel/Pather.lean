/-
  Control skeletons of net/scion as the models were written against them
  (notes/SKEL.md).  Each row: (depth, canonical text) as rendered by harness/extract/skeleton.go,
  followed by the model definition / branch that mirrors the statement.  Regenerated rows:
  Gen/SkelC15.lean; pins: Props/SkelC15.lean.  Core Lean only.
-/
import ScionTime.Model.Skel.Basic

namespace ScionTime.Model.Skel

/-- net/scion, Pather.LocalIA -/
def Pather.Pather_LocalIA : List Row := [
  (0, "func (p *Pather) LocalIA() addr.IA"),  -- UNMODELLED: accessor of p.localIA; no model has the Pather's local IA; no caller in the repository
  (1, "p.mu.Lock()"),  -- UNMODELLED: no lock-discipline fact or model for Pather.mu (refresh goroutine against readers)
  (1, "defer p.mu.Unlock()"),  -- UNMODELLED: no lock-discipline fact or model for Pather.mu (release on return)
  (1, "return p.localIA")  -- UNMODELLED: reads the local IA stored by the last successful update; in no model (method has no caller)
  ]

/-- net/scion, Pather.Paths -/
def Pather.Pather_Paths : List Row := [
  (0, "func (p *Pather) Paths(dst addr.IA) []snet.Path"),  -- Multipath.pathsCopy: (m, table) -> (m ++ [copy], fresh address); refclkRound; harness c15 ops pa.set / pa.round
  (1, "p.mu.Lock()"),  -- UNMODELLED: no lock-discipline fact or model for Pather.mu; pathsCopy reads a table nobody replaces concurrently
  (1, "defer p.mu.Unlock()"),  -- UNMODELLED: no lock-discipline fact or model for Pather.mu (release on return, after the copy was made)
  (1, "paths, ok := p.paths[dst]"),  -- Multipath.pathsCopy: m.getD table [] (the map keyed by destination IA abstracted to one table address)
  (1, "if !ok"),  -- pin C15Pather_pin_copy (x_c15.go): first return is nil; Multipath.pathsCopy: absent table reads as [] (getD)
  (2, "return nil"),  -- pin C15Pather_pin_copy (x_c15.go): nil; the round on [] is errNoPath (C15_no_path_error)
  (1, "return append(make([]snet.Path, 0, len(paths)), paths...)")  -- Multipath.pathsCopy: m ++ [m.getD table []] at address m.length (new array); pin C15Pather_pin_copy; seeded C15-8
  ]

/-- net/scion, update (with the repair: a repeated destination IA is looked up once) -/
def Pather.update : List Row := [
  (0, "func update(ctx context.Context, p *Pather, dc daemon.Connector, dstIAs []addr.IA)"),  -- Pather.update dedup t d dsts (Model/Pather.lean); harness c15 ops pd.start / pd.refresh (real function behind a stand-in gRPC daemon)
  (1, "localIA, err := dc.LocalIA(ctx)"),  -- env: SCION daemon gRPC call (LocalIA) = Daemon.localIA (none = error)
  (1, "if err != nil"),  -- Pather.update: match d.localIA with | none
  (2, "return"),  -- Pather.update: .done t — table and local IA unchanged (C15Upd_lookup_error_keeps_table)
  (1, "paths := map[addr.IA][]snet.Path{}"),  -- Pather.update: fill starts from [] — nothing carried over (C15Upd_history_last_installed)
  (1, "for _, dstIA := range dstIAs"),  -- Pather.fill: recursion over the configured destination list
  (2, "if dstIA.IsWildcard()"),  -- Pather.fill: isWildcard ia
  (3, "panic(\"unexpected destination IA: wildcard.\")"),  -- Pather.fill = none → UpdRes.panicWildcard (C15Upd_wildcard_panics, _can_be_late)
  (2, "if _, ok := paths[dstIA]; ok"),  -- Pather.fill: dedup && (m.get? ia).isSome  (the repair; `dedup = false` is the code as found)
  (3, "continue"),  -- Pather.fill: fill dedup d m rest
  (2, "ps, err := dc.Paths(ctx, dstIA, localIA, daemon.PathReqFlags{Refresh: true})"),  -- env: SCION daemon gRPC call (Paths, Refresh: true) = Daemon.paths ia
  (2, "if err != nil"),  -- Pather.fill: (d.paths ia).getD [] — a failed lookup is logged and contributes the empty list (C15Upd_lookup_error_empties_offer)
  (2, "paths[dstIA] = append(paths[dstIA], ps...)"),  -- Pather.fill: m.appendAt ia …  (PathMap.appendAt)
  (1, "p.mu.Lock()"),  -- lock discipline: fact Gen.Scion.Pather_lock_discipline, pinned by C15Upd_pin_lock_discipline (every access to p.paths / p.localIA in pather.go sits between Lock and Unlock)
  (1, "p.localIA = localIA"),  -- Pather.update: { localIA := l, … }
  (1, "p.paths = paths"),  -- Pather.update: { …, paths := some m } — the table is replaced wholesale (slices handed out earlier stay intact)
  (1, "p.mu.Unlock()")  -- lock discipline: see row p.mu.Lock()
  ]

/-- net/scion, StartPather -/
def Pather.StartPather : List Row := [
  (0, "func StartPather(ctx context.Context, log *slog.Logger, daemonAddr string, dstIAs []addr.IA) *Pather"),  -- UNMODELLED: Pather construction and refresh goroutine; MainCfg has only the flag pather : Bool; harness uses a hook
  (1, "p := &Pather{log: log}"),  -- env: allocation; the initial nil table reads as [] in Multipath.pathsCopy (getD default), i.e. Paths returns nil
  (1, "dc := NewDaemonConnector(ctx, daemonAddr)"),  -- env: SCION daemon gRPC connector set-up
  (1, "update(ctx, p, dc, dstIAs)"),  -- Pather.run: first element of the history, in the caller's goroutine (harness c15 pd.start via=start runs StartPather itself)
  (1, "go func(ctx context.Context, p *Pather, dc daemon.Connector, dstIAs []addr.IA) {…}(ctx, p, dc, dstIAs)"),  -- UNMODELLED: refresh goroutine, started unconditionally, never stopped (ctx passed on, not consulted); no model
  (2, "func literal 1"),  -- UNMODELLED: body of the refresh goroutine; runs update concurrently with Pather.Paths callers; no model
  (3, "ticker := time.NewTicker(pathRefreshPeriod)"),  -- UNMODELLED: refresh period pathRefreshPeriod = 15 s; the constant is in no model or pin; ticker never stopped
  (3, "for range ticker.C"),  -- UNMODELLED: endless loop over the ticker channel (ticks dropped while an update is still running); no model
  (4, "update(ctx, p, dc, dstIAs)"),  -- Pather.run: one update per tick on the table the previous one left (C15Upd_history_last_installed); executed once per run on a real ticker (harness c15, the Pather left alone for one period)
  (1, "return p")  -- env: plumbing: the pointer is stored in the SCION reference clocks by timeservice.go (MainCfg field pather)
  ]

end ScionTime.Model.Skel
