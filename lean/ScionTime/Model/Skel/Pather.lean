/-
  Control skeletons of net/scion as the models were written against them
  (notes/SKEL.md).  Each row: (depth, canonical text) as rendered by harness/extract/skeleton.go,
  followed by the model definition / branch that mirrors the statement.  Regenerated rows:
  Gen/SkelC15.lean; pins: Props/SkelC15.lean.  Core Lean only.
-/
import ScionTime.Model.Skel.Basic

namespace ScionTime.Model.Skel

/-- net/scion, Pather.LocalIA -/
def Pather.Pather_LocalIA : List Row := [
  (0, "func (p *Pather) LocalIA() addr.IA"),  -- UNMODELLED: accessor of p.localIA; no model has the Pather's local IA; no caller in the repository
  (1, "p.mu.Lock()"),  -- UNMODELLED: no lock-discipline fact or model for Pather.mu (refresh goroutine against readers)
  (1, "defer p.mu.Unlock()"),  -- UNMODELLED: no lock-discipline fact or model for Pather.mu (release on return)
  (1, "return p.localIA")  -- UNMODELLED: reads the local IA stored by the last successful update; in no model (method has no caller)
  ]

/-- net/scion, Pather.Paths -/
def Pather.Pather_Paths : List Row := [
  (0, "func (p *Pather) Paths(dst addr.IA) []snet.Path"),  -- Multipath.pathsCopy: (m, table) -> (m ++ [copy], fresh address); refclkRound; harness c15 ops pa.set / pa.round
  (1, "p.mu.Lock()"),  -- UNMODELLED: no lock-discipline fact or model for Pather.mu; pathsCopy reads a table nobody replaces concurrently
  (1, "defer p.mu.Unlock()"),  -- UNMODELLED: no lock-discipline fact or model for Pather.mu (release on return, after the copy was made)
  (1, "paths, ok := p.paths[dst]"),  -- Multipath.pathsCopy: m.getD table [] (the map keyed by destination IA abstracted to one table address)
  (1, "if !ok"),  -- pin C15Pather_pin_copy (x_c15.go): first return is nil; Multipath.pathsCopy: absent table reads as [] (getD)
  (2, "return nil"),  -- pin C15Pather_pin_copy (x_c15.go): nil; the round on [] is errNoPath (C15_no_path_error)
  (1, "return append(make([]snet.Path, 0, len(paths)), paths...)")  -- Multipath.pathsCopy: m ++ [m.getD table []] at address m.length (new array); pin C15Pather_pin_copy; seeded C15-8
  ]

/-- net/scion, update -/
def Pather.update : List Row := [
  (0, "func update(ctx context.Context, p *Pather, dc daemon.Connector, dstIAs []addr.IA)"),  -- UNMODELLED: the table refresh has no model (Multipath.refclkHistory keeps the table fixed); harness bypasses it
  (1, "localIA, err := dc.LocalIA(ctx)"),  -- env: SCION daemon gRPC call (LocalIA); its result is the localIA stored in row 12
  (1, "if err != nil"),  -- UNMODELLED: daemon LocalIA failure aborts the whole refresh (only logged); no model of this error path
  (2, "return"),  -- UNMODELLED: early return keeps the previous table and localIA (stale paths stay offered; nil table if first update)
  (1, "paths := map[addr.IA][]snet.Path{}"),  -- UNMODELLED: every refresh builds the table from empty: nothing is carried over from the previous table; no model
  (1, "for _, dstIA := range dstIAs"),  -- UNMODELLED: one daemon lookup and one table entry per configured destination IA; models have one table
  (2, "if dstIA.IsWildcard()"),  -- UNMODELLED: wildcard check on the configured destination IAs; no model or MainCfg rule mirrors it
  (3, "panic(\"unexpected destination IA: wildcard.\")"),  -- UNMODELLED: panic for a wildcard destination IA (at start-up, or later in the refresh goroutine); no model
  (2, "ps, err := dc.Paths(ctx, dstIA, localIA, daemon.PathReqFlags{Refresh: true})"),  -- env: SCION daemon gRPC call (Paths, Refresh: true); result = table content, input Mem of Multipath.refclkRound
  (2, "if err != nil"),  -- UNMODELLED: failed lookup is only logged, falls through with ps = nil: the entry becomes empty, old paths dropped
  (2, "paths[dstIA] = append(paths[dstIA], ps...)"),  -- UNMODELLED: entry := entry ++ daemon's list (a destination listed twice gets its paths twice); order = daemon order
  (1, "p.mu.Lock()"),  -- UNMODELLED: no lock-discipline fact or model for Pather.mu (writer side, refresh goroutine)
  (1, "p.localIA = localIA"),  -- UNMODELLED: p.localIA := localIA; no model has this field
  (1, "p.paths = paths"),  -- UNMODELLED: table replaced wholesale by new arrays (slices handed out earlier stay intact); no refresh step in model
  (1, "p.mu.Unlock()")  -- UNMODELLED: no lock-discipline fact or model for Pather.mu (explicit unlock, no defer)
  ]

/-- net/scion, StartPather -/
def Pather.StartPather : List Row := [
  (0, "func StartPather(ctx context.Context, log *slog.Logger, daemonAddr string, dstIAs []addr.IA) *Pather"),  -- UNMODELLED: Pather construction and refresh goroutine; MainCfg has only the flag pather : Bool; harness uses a hook
  (1, "p := &Pather{log: log}"),  -- env: allocation; the initial nil table reads as [] in Multipath.pathsCopy (getD default), i.e. Paths returns nil
  (1, "dc := NewDaemonConnector(ctx, daemonAddr)"),  -- env: SCION daemon gRPC connector set-up
  (1, "update(ctx, p, dc, dstIAs)"),  -- UNMODELLED: synchronous first refresh before the Pather is returned; its failure is silent (update rows 2-3)
  (1, "go func(ctx context.Context, p *Pather, dc daemon.Connector, dstIAs []addr.IA) {…}(ctx, p, dc, dstIAs)"),  -- UNMODELLED: refresh goroutine, started unconditionally, never stopped (ctx passed on, not consulted); no model
  (2, "func literal 1"),  -- UNMODELLED: body of the refresh goroutine; runs update concurrently with Pather.Paths callers; no model
  (3, "ticker := time.NewTicker(pathRefreshPeriod)"),  -- UNMODELLED: refresh period pathRefreshPeriod = 15 s; the constant is in no model or pin; ticker never stopped
  (3, "for range ticker.C"),  -- UNMODELLED: endless loop over the ticker channel (ticks dropped while an update is still running); no model
  (4, "update(ctx, p, dc, dstIAs)"),  -- UNMODELLED: periodic replacement of the table between rounds; Multipath.refclkHistory keeps the table fixed
  (1, "return p")  -- env: plumbing: the pointer is stored in the SCION reference clocks by timeservice.go (MainCfg field pather)
  ]

end ScionTime.Model.Skel
