/-
  Control skeletons of net/scion as the models were written against them
  (notes/SKEL.md).  Each row: (depth, canonical text) as rendered by harness/extract/skeleton.go,
  followed by the model definition / branch that mirrors the statement.  Regenerated rows:
  Gen/SkelC15.lean; pins: Props/SkelC15.lean.  Core Lean only.
-/
import ScionTime.Model.Skel.Basic

namespace ScionTime.Model.Skel

/-- net/scion, Pather.LocalIA -/
def Pather.Pather_LocalIA : List Row := [
  (0, "func (p *Pather) LocalIA() addr.IA"),  -- ?
  (1, "p.mu.Lock()"),  -- ?
  (1, "defer p.mu.Unlock()"),  -- ?
  (1, "return p.localIA")  -- ?
  ]

/-- net/scion, Pather.Paths -/
def Pather.Pather_Paths : List Row := [
  (0, "func (p *Pather) Paths(dst addr.IA) []snet.Path"),  -- ?
  (1, "p.mu.Lock()"),  -- ?
  (1, "defer p.mu.Unlock()"),  -- ?
  (1, "paths, ok := p.paths[dst]"),  -- ?
  (1, "if !ok"),  -- ?
  (2, "return nil"),  -- ?
  (1, "return append(make([]snet.Path, 0, len(paths)), paths...)")  -- ?
  ]

/-- net/scion, update -/
def Pather.update : List Row := [
  (0, "func update(ctx context.Context, p *Pather, dc daemon.Connector, dstIAs []addr.IA)"),  -- ?
  (1, "localIA, err := dc.LocalIA(ctx)"),  -- ?
  (1, "if err != nil"),  -- ?
  (2, "return"),  -- ?
  (1, "paths := map[addr.IA][]snet.Path{}"),  -- ?
  (1, "for _, dstIA := range dstIAs"),  -- ?
  (2, "if dstIA.IsWildcard()"),  -- ?
  (3, "panic(\"unexpected destination IA: wildcard.\")"),  -- ?
  (2, "ps, err := dc.Paths(ctx, dstIA, localIA, daemon.PathReqFlags{Refresh: true})"),  -- ?
  (2, "if err != nil"),  -- ?
  (2, "paths[dstIA] = append(paths[dstIA], ps...)"),  -- ?
  (1, "p.mu.Lock()"),  -- ?
  (1, "p.localIA = localIA"),  -- ?
  (1, "p.paths = paths"),  -- ?
  (1, "p.mu.Unlock()")  -- ?
  ]

/-- net/scion, StartPather -/
def Pather.StartPather : List Row := [
  (0, "func StartPather(ctx context.Context, log *slog.Logger, daemonAddr string, dstIAs []addr.IA) *Pather"),  -- ?
  (1, "p := &Pather{log: log}"),  -- ?
  (1, "dc := NewDaemonConnector(ctx, daemonAddr)"),  -- ?
  (1, "update(ctx, p, dc, dstIAs)"),  -- ?
  (1, "go func(ctx context.Context, p *Pather, dc daemon.Connector, dstIAs []addr.IA) {…}(ctx, p, dc, dstIAs)"),  -- ?
  (2, "func literal 1"),  -- ?
  (3, "ticker := time.NewTicker(pathRefreshPeriod)"),  -- ?
  (3, "for range ticker.C"),  -- ?
  (4, "update(ctx, p, dc, dstIAs)"),  -- ?
  (1, "return p")  -- ?
  ]

end ScionTime.Model.Skel
