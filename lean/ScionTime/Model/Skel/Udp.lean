/-
  Control skeletons of net/udp as the models were written against them
  (notes/SKEL.md).  Each row: (depth, canonical text) as rendered by harness/extract/skeleton.go,
  followed by the model definition / branch that mirrors the statement.  Regenerated rows:
  Gen/SkelC08.lean; pins: Props/SkelC08.lean.  Core Lean only.
-/
import ScionTime.Model.Skel.Basic

namespace ScionTime.Model.Skel

/-- net/udp, TimestampFromOOBData -/
def Udp.TimestampFromOOBData : List Row := [
  (0, "func TimestampFromOOBData(oob []byte) (time.Time, error)"),  -- Udp.timestampFromOOBData = walkGen true oob.length oob; harness c08 op udp.oob (exact outcome); C08_udp_no_panic
  (1, "for unix.CmsgSpace(0) <= len(oob)"),  -- Udp.walkGen: if oob.length < cmsgSpace 0 then .errNotFound, else one step (fuel = length, C08_udp_walk_total)
  (2, "h := (*unix.Cmsghdr)(unsafe.Pointer(&oob[0]))"),  -- Udp.walkGen: hlen := leU oob 0 8, level := leI32 oob 8, typ := leI32 oob 12 (Cmsghdr, little endian)
  (2, "if h.Len < unix.SizeofCmsghdr || h.Len > uint64(len(oob))"),  -- Udp.walkGen: if hlen < sizeofCmsghdr or hlen > oob.length
  (3, "return time.Time{}, errUnexpectedData"),  -- Udp.walkGen: .errUnexpectedData
  (2, "if h.Level == unix.SOL_SOCKET"),  -- Udp.walkGen: level = solSocket (first conjunct of both type tests)
  (3, "if h.Type == unix.SO_TIMESTAMPING_NEW"),  -- Udp.walkGen: level = solSocket and typ = soTimestampingNew
  (4, "if h.Len != uint64(unix.CmsgSpace(3*16))"),  -- Udp.walkGen: if hlen != cmsgSpace 48
  (5, "return time.Time{}, errUnexpectedData"),  -- Udp.walkGen: .errUnexpectedData
  (4, "sec0 := *(*int64)(unsafe.Pointer(&oob[unix.CmsgSpace(0)]))"),  -- Udp.walkGen: sec0 := leI64 oob 16
  (4, "nsec0 := *(*int64)(unsafe.Pointer(&oob[unix.CmsgSpace(8)]))"),  -- Udp.walkGen: nsec0 := leI64 oob 24
  (4, "sec1 := *(*int64)(unsafe.Pointer(&oob[unix.CmsgSpace(16)]))"),  -- Udp.walkGen: sec1 := leI64 oob 32
  (4, "nsec1 := *(*int64)(unsafe.Pointer(&oob[unix.CmsgSpace(24)]))"),  -- Udp.walkGen: nsec1 := leI64 oob 40
  (4, "sec2 := *(*int64)(unsafe.Pointer(&oob[unix.CmsgSpace(32)]))"),  -- Udp.walkGen: sec2 := leI64 oob 48
  (4, "nsec2 := *(*int64)(unsafe.Pointer(&oob[unix.CmsgSpace(40)]))"),  -- Udp.walkGen: nsec2 := leI64 oob 56
  (4, "var ts time.Time"),  -- env: declaration; the value is Udp.Outcome.ok sec nsec
  (4, "if sec2 != 0 || nsec2 != 0"),  -- Udp.walkGen: if sec2 != 0 or nsec2 != 0
  (5, "if sec0 != 0 || nsec0 != 0 || sec1 != 0 || nsec1 != 0"),  -- Udp.walkGen: if sec0 != 0 or nsec0 != 0 or sec1 != 0 or nsec1 != 0
  (6, "return time.Time{}, errUnexpectedData"),  -- Udp.walkGen: if fixed then .errUnexpectedData (else .panicExplicit: F10, timestampFromOOBDataOld)
  (5, "ts = time.Unix(sec2, nsec2).UTC()"),  -- Udp.timeUnix sec2 nsec2 (time.Unix normalisation seen through Unix(), Nanosecond(); .UTC() location not observed)
  (4, "else"),  -- Udp.walkGen: else
  (5, "if sec1 != 0 || nsec1 != 0 || sec2 != 0 || nsec2 != 0"),  -- Udp.walkGen: if sec1 != 0 or nsec1 != 0 (the sec2 / nsec2 disjuncts are false in this branch and left out)
  (6, "return time.Time{}, errUnexpectedData"),  -- Udp.walkGen: if fixed then .errUnexpectedData (else .panicExplicit)
  (5, "ts = time.Unix(sec0, nsec0).UTC()"),  -- Udp.timeUnix sec0 nsec0
  (4, "return ts, nil"),  -- Udp.walkGen: result of timeUnix = .ok sec nsec (timeUnix_ok)
  (3, "else if h.Type == unix.SCM_TIMESTAMPNS"),  -- Udp.walkGen: else if level = solSocket and typ = scmTimestampNs
  (4, "if h.Len != uint64(unix.CmsgSpace(int(unsafe.Sizeof(unix.Timespec{}))))"),  -- Udp.walkGen: if hlen != cmsgSpace 16 (sizeof unix.Timespec = 16 on linux/amd64)
  (5, "return time.Time{}, errUnexpectedData"),  -- Udp.walkGen: .errUnexpectedData
  (4, "ts := (*unix.Timespec)(unsafe.Pointer(&oob[unix.CmsgSpace(0)]))"),  -- Udp.walkGen: leI64 oob 16, leI64 oob 24 (Timespec Sec, Nsec)
  (4, "return time.Unix(ts.Unix()).UTC(), nil"),  -- Udp.timeUnix (leI64 oob 16) (leI64 oob 24)
  (2, "n := unix.CmsgSpace(int(h.Len)) - unix.CmsgSpace(0)"),  -- Udp.walkGen: adv := cmsgSpace hlen - cmsgSpace 0
  (2, "if n > len(oob)"),  -- Udp.walkGen: if adv > oob.length then (if fixed then .errUnexpectedData else .panicSlice)
  (3, "return time.Time{}, errUnexpectedData"),  -- Udp.walkGen: .errUnexpectedData (F10 repair; C08_udp_old_slice_panic for the old code)
  (2, "oob = oob[n:]"),  -- Udp.walkGen: recursive call walkGen fixed fuel (oob.drop adv)
  (1, "return time.Time{}, errTimestampNotFound")  -- Udp.walkGen: .errNotFound
  ]

/-- net/udp, timestampFromOOBData -/
def Udp.timestampFromOOBData : List Row := [
  (0, "func timestampFromOOBData(oob []byte) (time.Time, uint32, error)"),  -- ListenerTx.Cmsg: whole walk as one input of readTX (fields | malformed | panics), no byte-level model; harness c06tx
  (1, "var tsSet, idSet bool"),  -- ListenerTx.Cmsg.fields ts id: tsSet = ts.isSome, idSet = id.isSome
  (1, "var ts time.Time"),  -- ListenerTx.Cmsg.fields (ts : Option Int)
  (1, "var id uint32"),  -- ListenerTx.Cmsg.fields (id : Option Nat)
  (1, "for unix.CmsgSpace(0) <= len(oob)"),  -- ListenerTx.Cmsg: loop abstracted (same guard as the exported twin: Udp.walkGen, oob.length < cmsgSpace 0)
  (2, "h := (*unix.Cmsghdr)(unsafe.Pointer(&oob[0]))"),  -- ListenerTx.Cmsg: header read abstracted (twin Udp.walkGen: hlen, level, typ)
  (2, "if h.Len < unix.SizeofCmsghdr || h.Len > uint64(len(oob))"),  -- ListenerTx.Cmsg.malformed: condition abstracted (twin Udp.walkGen: hlen < sizeofCmsghdr or hlen > oob.length)
  (3, "return time.Time{}, 0, errUnexpectedData"),  -- ListenerTx.Cmsg.malformed; readTX: .ret zeroTime 0 .unexpectedData
  (2, "if h.Level == unix.SOL_SOCKET"),  -- ListenerTx.Cmsg: dispatch abstracted (twin Udp.walkGen: level = solSocket); no SCM_TIMESTAMPNS branch here
  (3, "if h.Type == unix.SO_TIMESTAMPING_NEW"),  -- ListenerTx.Cmsg: dispatch abstracted (twin Udp.walkGen: typ = soTimestampingNew)
  (4, "if h.Len != uint64(unix.CmsgSpace(3*16))"),  -- ListenerTx.Cmsg.malformed: condition abstracted (twin Udp.walkGen: hlen != cmsgSpace 48)
  (5, "return time.Time{}, 0, errUnexpectedData"),  -- ListenerTx.Cmsg.malformed; readTX: .ret zeroTime 0 .unexpectedData
  (4, "sec0 := *(*int64)(unsafe.Pointer(&oob[unix.CmsgSpace(0)]))"),  -- ListenerTx.Cmsg.fields (some t): field read abstracted (twin Udp.walkGen: sec0 := leI64 oob 16)
  (4, "nsec0 := *(*int64)(unsafe.Pointer(&oob[unix.CmsgSpace(8)]))"),  -- ListenerTx.Cmsg.fields (some t): field read abstracted (twin Udp.walkGen: nsec0)
  (4, "sec1 := *(*int64)(unsafe.Pointer(&oob[unix.CmsgSpace(16)]))"),  -- ListenerTx.Cmsg.fields (some t): field read abstracted (twin Udp.walkGen: sec1)
  (4, "nsec1 := *(*int64)(unsafe.Pointer(&oob[unix.CmsgSpace(24)]))"),  -- ListenerTx.Cmsg.fields (some t): field read abstracted (twin Udp.walkGen: nsec1)
  (4, "sec2 := *(*int64)(unsafe.Pointer(&oob[unix.CmsgSpace(32)]))"),  -- ListenerTx.Cmsg.fields (some t): field read abstracted (twin Udp.walkGen: sec2)
  (4, "nsec2 := *(*int64)(unsafe.Pointer(&oob[unix.CmsgSpace(40)]))"),  -- ListenerTx.Cmsg.fields (some t): field read abstracted (twin Udp.walkGen: nsec2)
  (4, "if sec2 != 0 || nsec2 != 0"),  -- ListenerTx.Cmsg: hardware / software triple choice abstracted (twin Udp.walkGen: sec2 != 0 or nsec2 != 0)
  (5, "if sec0 != 0 || nsec0 != 0 || sec1 != 0 || nsec1 != 0"),  -- ListenerTx.Cmsg.panics: condition abstracted (twin Udp.walkGen false: sec0, nsec0, sec1, nsec1 not all 0)
  (6, "panic(\"unexpected timestamping behavior\")"),  -- ListenerTx.Cmsg.panics; readTX: | .panics => .panic (still a panic here; the exported twin returns an error, F10)
  (5, "ts = time.Unix(sec2, nsec2).UTC()"),  -- ListenerTx.Cmsg.fields (some t): hardware timestamp ts[2] (twin Udp.timeUnix sec2 nsec2; not executed by any harness)
  (4, "else"),  -- ListenerTx.Cmsg: else branch abstracted
  (5, "if sec1 != 0 || nsec1 != 0 || sec2 != 0 || nsec2 != 0"),  -- ListenerTx.Cmsg.panics: condition abstracted (twin Udp.walkGen false: sec1 != 0 or nsec1 != 0)
  (6, "panic(\"unexpected timestamping behavior\")"),  -- ListenerTx.Cmsg.panics; readTX: | .panics => .panic
  (5, "ts = time.Unix(sec0, nsec0).UTC()"),  -- ListenerTx.Cmsg.fields (some t): software timestamp ts[0]; stampMsg id t; harness c06tx ops udp.rtx stamp, sock.fifo
  (4, "tsSet = true"),  -- ListenerTx.Cmsg.fields (some t) _: tsSet
  (2, "else if h.Level == unix.SOL_IP && h.Type == unix.IP_RECVERR || h.Level == unix.SOL_IPV6 && h.Type == unix.IPV6_RECVERR"),  -- ListenerTx.Cmsg.fields _ (some id): dispatch on IP_RECVERR / IPV6_RECVERR abstracted; harness c06tx sock.fifo (IPv4)
  (3, "if h.Len < uint64(unix.CmsgSpace(int(unsafe.Sizeof(unix.SockExtendedErr{}))))"),  -- UNMODELLED: length check of the extended-error cmsg before seerr is read; only the outcome Cmsg.malformed exists
  (4, "return time.Time{}, 0, errUnexpectedData"),  -- ListenerTx.Cmsg.malformed; readTX: .ret zeroTime 0 .unexpectedData
  (3, "seerr := *(*unix.SockExtendedErr)(unsafe.Pointer(&oob[unix.CmsgSpace(0)]))"),  -- ListenerTx.Cmsg.fields _ (some id): read of SockExtendedErr abstracted
  (3, "if seerr.Errno != uint32(unix.ENOMSG)"),  -- UNMODELLED: accepts the extended error only with ee_errno = ENOMSG; no model input or harness op has another errno
  (4, "return time.Time{}, 0, errUnexpectedData"),  -- ListenerTx.Cmsg.malformed; readTX: .ret zeroTime 0 .unexpectedData
  (3, "if seerr.Origin != unix.SO_EE_ORIGIN_TIMESTAMPING"),  -- UNMODELLED: accepts only ee_origin = SO_EE_ORIGIN_TIMESTAMPING; no model input or harness op has another origin
  (4, "return time.Time{}, 0, errUnexpectedData"),  -- ListenerTx.Cmsg.malformed; readTX: .ret zeroTime 0 .unexpectedData
  (3, "id = seerr.Data"),  -- ListenerTx.Cmsg.fields _ (some id): id = ee_data (stampMsg: the socket's OPT_ID counter); harness c06tx sock.fifo
  (3, "idSet = true"),  -- ListenerTx.Cmsg.fields _ (some id): idSet
  (2, "oob = oob[unix.CmsgSpace(int(h.Len))-unix.CmsgSpace(0):]"),  -- UNMODELLED: advance without the bound check the exported twin has (F10): slice-bounds panic, not an outcome of Cmsg
  (1, "if !tsSet || !idSet"),  -- ListenerTx.readTX: | .fields (some t) (some id) => .ret t id .none | .fields _ _ => notFound
  (2, "return time.Time{}, 0, errTimestampNotFound"),  -- ListenerTx.readTX: | .fields _ _ => .ret zeroTime 0 .notFound
  (1, "return ts, id, nil")  -- ListenerTx.readTX: | .fields (some t) (some id) => .ret t id .none (C06_readTX_success_iff)
  ]

/-- net/udp, ReadTXTimestamp -/
def Udp.ReadTXTimestamp : List Row := [
  (0, "func ReadTXTimestamp(conn *net.UDPConn) (time.Time, uint32, error)"),  -- ListenerTx.readTX : Kernel -> RRes; harness c06tx op udp.rtx (closed | empty | stamp | icmp | payload), sock.fifo
  (1, "sconn, err := conn.SyscallConn()"),  -- ListenerTx.Kernel.connErr e: SyscallConn() fails (input)
  (1, "if err != nil"),  -- ListenerTx.readTX: | .connErr e
  (2, "return time.Time{}, 0, err"),  -- ListenerTx.readTX: .ret zeroTime 0 (.sys e)
  (1, "var res struct { ts time.Time id uint32 err error }"),  -- env: declaration of the closure's result carrier (ListenerTx.RRes.ret t id err)
  (1, "err = sconn.Read(func(fd uintptr) bool {…})"),  -- ListenerTx.readTX: one run of the closure; pin C09_pin_readTxGivesUp: every return is `return true` (never re-run)
  (2, "func literal 1"),  -- pin C06_pin_readTxClosure (x_c06tx.go): the closure's top-level statements verbatim
  (3, "pollFds := []unix.PollFd{ {Fd: int32(fd), Events: unix.POLLPRI}}"),  -- ListenerTx.pollFdsLen = 1; pin C09_pin_readTxGivesUp: readTxPollEvents = unix.POLLPRI
  (3, "var n int"),  -- env: declaration
  (3, "for"),  -- ListenerTx.PollAns: whole EINTR retry loop as the first answer that is not EINTR (retries not modelled)
  (4, "n, err = unix.Poll(pollFds, 1)"),  -- ListenerTx.Kernel.sys p _: PollAns err e | ready n (input); pollTimeoutMs = 1: pin C09_pin_readTxGivesUp
  (4, "if err == unix.EINTR"),  -- ListenerTx.PollAns: EINTR retry abstracted (first non-EINTR answer)
  (5, "continue"),  -- ListenerTx.PollAns: EINTR retry abstracted
  (4, "break"),  -- ListenerTx.PollAns: the answer that leaves the loop
  (3, "if err != nil"),  -- ListenerTx.readTX: | .sys (.err e) _
  (4, "res.err = err"),  -- ListenerTx.readTX: .ret zeroTime 0 (.sys e)
  (4, "return true"),  -- pin C09_pin_readTxGivesUp: fact_readTxClosureAlwaysDone
  (3, "if n != len(pollFds)"),  -- ListenerTx.readTX: if n != pollFdsLen (0 = poll timed out; C09_readTX_timeout_gives_up)
  (4, "res.err = errTimestampNotFound"),  -- ListenerTx.readTX: .ret zeroTime 0 .notFound; ListenerTx.emptyQueue; harness c06tx op udp.rtx empty
  (4, "return true"),  -- pin C09_pin_readTxGivesUp: fact_readTxClosureAlwaysDone
  (3, "buf := make([]byte, 0)"),  -- env: buffer allocation (zero-length data buffer: a looped-back payload shows as MSG_TRUNC in flags)
  (3, "oob := make([]byte, 128)"),  -- env: buffer allocation (128 bytes for the ancillary data)
  (3, "var oobn, flags int"),  -- env: declaration
  (3, "var srcAddr unix.Sockaddr"),  -- env: declaration
  (3, "for"),  -- ListenerTx.RecvAns: whole EINTR retry loop as the first answer that is not EINTR
  (4, "n, oobn, flags, srcAddr, err = unix.Recvmsg(int(fd), buf, oob, unix.MSG_ERRQUEUE)"),  -- ListenerTx.RecvAns: err e | msg n flags hasSrc c (input; c = Cmsg of oob[:oobn]); msgErrqueue = unix.MSG_ERRQUEUE
  (4, "if err == unix.EINTR"),  -- ListenerTx.RecvAns: EINTR retry abstracted
  (5, "continue"),  -- ListenerTx.RecvAns: EINTR retry abstracted
  (4, "break"),  -- ListenerTx.RecvAns: the answer that leaves the loop
  (3, "if err != nil"),  -- ListenerTx.readTX: match r | .err e
  (4, "res.err = err"),  -- ListenerTx.readTX: .ret zeroTime 0 (.sys e)
  (4, "return true"),  -- pin C09_pin_readTxGivesUp: fact_readTxClosureAlwaysDone
  (3, "if n != 0"),  -- ListenerTx.readTX: | .msg n flags hasSrc c => if n != 0
  (4, "res.err = errUnexpectedData"),  -- ListenerTx.readTX: .ret zeroTime 0 .unexpectedData
  (4, "return true"),  -- pin C09_pin_readTxGivesUp: fact_readTxClosureAlwaysDone
  (3, "if flags != unix.MSG_ERRQUEUE"),  -- ListenerTx.readTX: else if flags != msgErrqueue; harness c06tx ops udp.rtx payload, icmp (MSG_TRUNC set)
  (4, "res.err = errUnexpectedData"),  -- ListenerTx.readTX: .ret zeroTime 0 .unexpectedData
  (4, "return true"),  -- pin C09_pin_readTxGivesUp: fact_readTxClosureAlwaysDone
  (3, "if srcAddr != nil"),  -- ListenerTx.readTX: else if hasSrc
  (4, "res.err = errUnexpectedData"),  -- ListenerTx.readTX: .ret zeroTime 0 .unexpectedData
  (4, "return true"),  -- pin C09_pin_readTxGivesUp: fact_readTxClosureAlwaysDone
  (3, "res.ts, res.id, res.err = timestampFromOOBData(oob[:oobn])"),  -- ListenerTx.readTX: match c (Cmsg: | .malformed | .panics | .fields ts id), the walk's result as an input
  (3, "return true"),  -- pin C09_pin_readTxGivesUp: fact_readTxClosureAlwaysDone
  (1, "if err != nil"),  -- ListenerTx.readTX: | .connErr e (sconn.Read fails: closed socket); harness c06tx op udp.rtx closed
  (2, "return time.Time{}, 0, err"),  -- ListenerTx.readTX: .ret zeroTime 0 (.sys e)
  (1, "return res.ts, res.id, res.err")  -- ListenerTx.RRes.ret t id err (C06_readTX_success_iff, C06_readTX_failure_shape)
  ]

end ScionTime.Model.Skel
