/-
  Control skeletons of net/udp as the models were written against them
  (notes/SKEL.md).  Each row: (depth, canonical text) as rendered by harness/extract/skeleton.go,
  followed by the model definition / branch that mirrors the statement.  Regenerated rows:
  Gen/SkelC08.lean; pins: Props/SkelC08.lean.  Core Lean only.
-/
import ScionTime.Model.Skel.Basic

namespace ScionTime.Model.Skel

/-- net/udp, TimestampFromOOBData -/
def Udp.TimestampFromOOBData : List Row := [
  (0, "func TimestampFromOOBData(oob []byte) (time.Time, error)"),  -- ?
  (1, "for unix.CmsgSpace(0) <= len(oob)"),  -- ?
  (2, "h := (*unix.Cmsghdr)(unsafe.Pointer(&oob[0]))"),  -- ?
  (2, "if h.Len < unix.SizeofCmsghdr || h.Len > uint64(len(oob))"),  -- ?
  (3, "return time.Time{}, errUnexpectedData"),  -- ?
  (2, "if h.Level == unix.SOL_SOCKET"),  -- ?
  (3, "if h.Type == unix.SO_TIMESTAMPING_NEW"),  -- ?
  (4, "if h.Len != uint64(unix.CmsgSpace(3*16))"),  -- ?
  (5, "return time.Time{}, errUnexpectedData"),  -- ?
  (4, "sec0 := *(*int64)(unsafe.Pointer(&oob[unix.CmsgSpace(0)]))"),  -- ?
  (4, "nsec0 := *(*int64)(unsafe.Pointer(&oob[unix.CmsgSpace(8)]))"),  -- ?
  (4, "sec1 := *(*int64)(unsafe.Pointer(&oob[unix.CmsgSpace(16)]))"),  -- ?
  (4, "nsec1 := *(*int64)(unsafe.Pointer(&oob[unix.CmsgSpace(24)]))"),  -- ?
  (4, "sec2 := *(*int64)(unsafe.Pointer(&oob[unix.CmsgSpace(32)]))"),  -- ?
  (4, "nsec2 := *(*int64)(unsafe.Pointer(&oob[unix.CmsgSpace(40)]))"),  -- ?
  (4, "var ts time.Time"),  -- ?
  (4, "if sec2 != 0 || nsec2 != 0"),  -- ?
  (5, "if sec0 != 0 || nsec0 != 0 || sec1 != 0 || nsec1 != 0"),  -- ?
  (6, "return time.Time{}, errUnexpectedData"),  -- ?
  (5, "ts = time.Unix(sec2, nsec2).UTC()"),  -- ?
  (4, "else"),  -- ?
  (5, "if sec1 != 0 || nsec1 != 0 || sec2 != 0 || nsec2 != 0"),  -- ?
  (6, "return time.Time{}, errUnexpectedData"),  -- ?
  (5, "ts = time.Unix(sec0, nsec0).UTC()"),  -- ?
  (4, "return ts, nil"),  -- ?
  (3, "else if h.Type == unix.SCM_TIMESTAMPNS"),  -- ?
  (4, "if h.Len != uint64(unix.CmsgSpace(int(unsafe.Sizeof(unix.Timespec{}))))"),  -- ?
  (5, "return time.Time{}, errUnexpectedData"),  -- ?
  (4, "ts := (*unix.Timespec)(unsafe.Pointer(&oob[unix.CmsgSpace(0)]))"),  -- ?
  (4, "return time.Unix(ts.Unix()).UTC(), nil"),  -- ?
  (2, "n := unix.CmsgSpace(int(h.Len)) - unix.CmsgSpace(0)"),  -- ?
  (2, "if n > len(oob)"),  -- ?
  (3, "return time.Time{}, errUnexpectedData"),  -- ?
  (2, "oob = oob[n:]"),  -- ?
  (1, "return time.Time{}, errTimestampNotFound")  -- ?
  ]

/-- net/udp, timestampFromOOBData -/
def Udp.timestampFromOOBData : List Row := [
  (0, "func timestampFromOOBData(oob []byte) (time.Time, uint32, error)"),  -- ?
  (1, "var tsSet, idSet bool"),  -- ?
  (1, "var ts time.Time"),  -- ?
  (1, "var id uint32"),  -- ?
  (1, "for unix.CmsgSpace(0) <= len(oob)"),  -- ?
  (2, "h := (*unix.Cmsghdr)(unsafe.Pointer(&oob[0]))"),  -- ?
  (2, "if h.Len < unix.SizeofCmsghdr || h.Len > uint64(len(oob))"),  -- ?
  (3, "return time.Time{}, 0, errUnexpectedData"),  -- ?
  (2, "if h.Level == unix.SOL_SOCKET"),  -- ?
  (3, "if h.Type == unix.SO_TIMESTAMPING_NEW"),  -- ?
  (4, "if h.Len != uint64(unix.CmsgSpace(3*16))"),  -- ?
  (5, "return time.Time{}, 0, errUnexpectedData"),  -- ?
  (4, "sec0 := *(*int64)(unsafe.Pointer(&oob[unix.CmsgSpace(0)]))"),  -- ?
  (4, "nsec0 := *(*int64)(unsafe.Pointer(&oob[unix.CmsgSpace(8)]))"),  -- ?
  (4, "sec1 := *(*int64)(unsafe.Pointer(&oob[unix.CmsgSpace(16)]))"),  -- ?
  (4, "nsec1 := *(*int64)(unsafe.Pointer(&oob[unix.CmsgSpace(24)]))"),  -- ?
  (4, "sec2 := *(*int64)(unsafe.Pointer(&oob[unix.CmsgSpace(32)]))"),  -- ?
  (4, "nsec2 := *(*int64)(unsafe.Pointer(&oob[unix.CmsgSpace(40)]))"),  -- ?
  (4, "if sec2 != 0 || nsec2 != 0"),  -- ?
  (5, "if sec0 != 0 || nsec0 != 0 || sec1 != 0 || nsec1 != 0"),  -- ?
  (6, "panic(\"unexpected timestamping behavior\")"),  -- ?
  (5, "ts = time.Unix(sec2, nsec2).UTC()"),  -- ?
  (4, "else"),  -- ?
  (5, "if sec1 != 0 || nsec1 != 0 || sec2 != 0 || nsec2 != 0"),  -- ?
  (6, "panic(\"unexpected timestamping behavior\")"),  -- ?
  (5, "ts = time.Unix(sec0, nsec0).UTC()"),  -- ?
  (4, "tsSet = true"),  -- ?
  (2, "else if h.Level == unix.SOL_IP && h.Type == unix.IP_RECVERR || h.Level == unix.SOL_IPV6 && h.Type == unix.IPV6_RECVERR"),  -- ?
  (3, "if h.Len < uint64(unix.CmsgSpace(int(unsafe.Sizeof(unix.SockExtendedErr{}))))"),  -- ?
  (4, "return time.Time{}, 0, errUnexpectedData"),  -- ?
  (3, "seerr := *(*unix.SockExtendedErr)(unsafe.Pointer(&oob[unix.CmsgSpace(0)]))"),  -- ?
  (3, "if seerr.Errno != uint32(unix.ENOMSG)"),  -- ?
  (4, "return time.Time{}, 0, errUnexpectedData"),  -- ?
  (3, "if seerr.Origin != unix.SO_EE_ORIGIN_TIMESTAMPING"),  -- ?
  (4, "return time.Time{}, 0, errUnexpectedData"),  -- ?
  (3, "id = seerr.Data"),  -- ?
  (3, "idSet = true"),  -- ?
  (2, "oob = oob[unix.CmsgSpace(int(h.Len))-unix.CmsgSpace(0):]"),  -- ?
  (1, "if !tsSet || !idSet"),  -- ?
  (2, "return time.Time{}, 0, errTimestampNotFound"),  -- ?
  (1, "return ts, id, nil")  -- ?
  ]

/-- net/udp, ReadTXTimestamp -/
def Udp.ReadTXTimestamp : List Row := [
  (0, "func ReadTXTimestamp(conn *net.UDPConn) (time.Time, uint32, error)"),  -- ?
  (1, "sconn, err := conn.SyscallConn()"),  -- ?
  (1, "if err != nil"),  -- ?
  (2, "return time.Time{}, 0, err"),  -- ?
  (1, "var res struct { ts time.Time id uint32 err error }"),  -- ?
  (1, "err = sconn.Read(func(fd uintptr) bool {…})"),  -- ?
  (2, "func literal 1"),  -- ?
  (3, "pollFds := []unix.PollFd{ {Fd: int32(fd), Events: unix.POLLPRI}}"),  -- ?
  (3, "var n int"),  -- ?
  (3, "for"),  -- ?
  (4, "n, err = unix.Poll(pollFds, 1)"),  -- ?
  (4, "if err == unix.EINTR"),  -- ?
  (5, "continue"),  -- ?
  (4, "break"),  -- ?
  (3, "if err != nil"),  -- ?
  (4, "res.err = err"),  -- ?
  (4, "return true"),  -- ?
  (3, "if n != len(pollFds)"),  -- ?
  (4, "res.err = errTimestampNotFound"),  -- ?
  (4, "return true"),  -- ?
  (3, "buf := make([]byte, 0)"),  -- ?
  (3, "oob := make([]byte, 128)"),  -- ?
  (3, "var oobn, flags int"),  -- ?
  (3, "var srcAddr unix.Sockaddr"),  -- ?
  (3, "for"),  -- ?
  (4, "n, oobn, flags, srcAddr, err = unix.Recvmsg(int(fd), buf, oob, unix.MSG_ERRQUEUE)"),  -- ?
  (4, "if err == unix.EINTR"),  -- ?
  (5, "continue"),  -- ?
  (4, "break"),  -- ?
  (3, "if err != nil"),  -- ?
  (4, "res.err = err"),  -- ?
  (4, "return true"),  -- ?
  (3, "if n != 0"),  -- ?
  (4, "res.err = errUnexpectedData"),  -- ?
  (4, "return true"),  -- ?
  (3, "if flags != unix.MSG_ERRQUEUE"),  -- ?
  (4, "res.err = errUnexpectedData"),  -- ?
  (4, "return true"),  -- ?
  (3, "if srcAddr != nil"),  -- ?
  (4, "res.err = errUnexpectedData"),  -- ?
  (4, "return true"),  -- ?
  (3, "res.ts, res.id, res.err = timestampFromOOBData(oob[:oobn])"),  -- ?
  (3, "return true"),  -- ?
  (1, "if err != nil"),  -- ?
  (2, "return time.Time{}, 0, err"),  -- ?
  (1, "return res.ts, res.id, res.err")  -- ?
  ]

end ScionTime.Model.Skel
