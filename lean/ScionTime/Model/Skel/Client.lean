/-
  Control skeletons of core/client as the models were written against them
  (notes/SKEL.md).  Each row: (depth, canonical text) as rendered by harness/extract/skeleton.go,
  followed by the model definition / branch that mirrors the statement.  Regenerated rows:
  Gen/SkelC03.lean; pins: Props/SkelC03.lean.  Core Lean only.
-/
import ScionTime.Model.Skel.Basic

namespace ScionTime.Model.Skel

/-- core/client, IPClient.measureClockOffsetIP -/
def Client.IPClient_measureClockOffsetIP : List Row := [
  (0, "func (c *IPClient) measureClockOffsetIP(ctx context.Context, mtrcs *ipClientMetrics, localAddr, remoteAddr *net.UDPAddr) ( timestamp time.Time, offset time.Duration, err error)"),  -- ClientNtp.exchangeIP: one whole exchange from the request on (entry: ClientNtp.entry); harness c03 ops cli.req, cli.exch
  (1, "laddr, ok := netip.AddrFromSlice(localAddr.IP)"),  -- ClientNtp.localAddrOk: iplen == 4 || iplen == 16 (argument of ClientNtp.entry)
  (1, "if !ok"),  -- ClientNtp.entry: if localAddrOk iplen then .proceed else .errAddr (entryOld = code before F13 fix); harness c03 op cli.badlocal
  (2, "return time.Time{}, 0, errUnexpectedAddrType"),  -- ClientNtp.entry: | .errAddr (C05_entry_no_success_without_datagram; entryOld .successZeroOld was F13)
  (1, "var lc net.ListenConfig"),  -- env: variable declaration (net.ListenConfig zero value)
  (1, "pconn, err := lc.ListenPacket(ctx, \"udp\", netip.AddrPortFrom(laddr, 0).String())"),  -- env: fresh UDP socket per exchange (model header: one exchange = one fresh socket); port 0 = kernel-chosen
  (1, "if err != nil"),  -- env: socket set-up failed; result enters only as ClientNtp.ErrKind.other
  (2, "return time.Time{}, 0, err"),  -- ClientNtp.ErrKind.other: return before the receive loop (listen); no def produces it, enters wrapLoop as Attempt.err
  (1, "conn := pconn.(*net.UDPConn)"),  -- env: type assertion on the socket just created
  (1, "defer conn.Close()"),  -- env: defer conn.Close()
  (1, "deadline, deadlineIsSet := ctx.Deadline()"),  -- ClientNtp.Cfg.deadlineSet: deadlineIsSet (deadline value itself enters via Event beforeDeadline flags)
  (1, "if deadlineIsSet"),  -- ClientNtp.Cfg.deadlineSet: true branch
  (2, "err = conn.SetDeadline(deadline)"),  -- env: socket deadline; its expiry enters the model as ClientNtp.Event.readErr
  (2, "if err != nil"),  -- env: SetDeadline failed; result enters only as ClientNtp.ErrKind.other
  (3, "return time.Time{}, 0, err"),  -- ClientNtp.ErrKind.other: return before the receive loop (deadline); no def produces it
  (1, "err = udp.EnableTimestamping(conn, localAddr.Zone)"),  -- env: kernel timestamping set-up; its effect enters as inputs cTx1 / Event.dgram cRx of ClientNtp.exchangeIP
  (1, "if err != nil"),  -- env: error only logged (body dropped); exchange goes on with clock-reading fallbacks for cTx1 / cRx
  (1, "err = udp.SetDSCP(conn, c.DSCP)"),  -- env: socket option IP_TOS from c.DSCP (MainCfg.dscp validates the value; the setsockopt is outside every model)
  (1, "if err != nil"),  -- env: error only logged (body dropped)
  (1, "var ntskeData ntske.Data"),  -- env: variable declaration (ntske.Data zero value)
  (1, "if c.Auth.Enabled"),  -- ClientNtp.Cfg.nts: Auth.Enabled (IP)
  (2, "ntskeData, err = c.Auth.NTSKEFetcher.FetchData(ctx)"),  -- Ntske.fetchWith / NtsPool.fetchData: hand out a copy of the data, pop one cookie (re-key iff pool empty); NtsPool.request
  (2, "if err != nil"),  -- Ntske.fetchWith: | (c, some err) => .error err; NtsPool.request: | none => .err .noCookies
  (3, "return time.Time{}, 0, err"),  -- ClientNtp.ErrKind.other: return before the receive loop (key exchange); NtsPool.request returns .err, nothing sent
  (2, "remoteAddr.IP = net.ParseIP(ntskeData.Server)"),  -- ClientNtp.ntsDestination: parsed = net.ParseIP(ntskeData.Server) (oracle input), held overwritten; harness c03 op cli.ntsdest
  (2, "remoteAddr.Port = int(ntskeData.Port)"),  -- ClientNtp.ntsDestination: port := ntskeData.Port (C20_nts_request_destination)
  (1, "ip4 := remoteAddr.IP.To4()"),  -- ClientNtp.ntsDestination: unmapIP ip (with NTS); without NTS: server : Nat of classifyIP is the address after Unmap
  (1, "if ip4 != nil"),  -- ClientNtp.unmapIP: 4-byte form exists
  (2, "remoteAddr.IP = ip4"),  -- ClientNtp.ntsDestination: (unmapIP ip).map ... the 4-byte form is what the request goes to / what reference prints
  (1, "buf := make([]byte, ntp.PacketLen)"),  -- env: buffer allocation (length ntp.PacketLen: pin C05_pin_packetLen)
  (1, "reference := remoteAddr.String()"),  -- ClientNtp.mkRequest: argument reference (= remoteAddr.String(), after the NTS overwrite and To4)
  (1, "cTxTime0 := timebase.Now()"),  -- ClientNtp.mkRequest: argument now (cTxTime0); stored as Req.cTx0
  (1, "interleavedReq := false"),  -- ClientNtp.mkRequest: Req.interleaved := false (else branch default)
  (1, "ntpreq := ntp.Packet{}"),  -- NtpPacket.zeroPacket; ClientNtp.mkRequest: origin/rx := zero64 in the basic request
  (1, "ntpreq.SetVersion(ntp.VersionMax)"),  -- ClientNtp.requestLVM: 4 * 8 (NtpPacket.setVersion; pin C05_pin_modeClient_versionMax)
  (1, "ntpreq.SetMode(ntp.ModeClient)"),  -- ClientNtp.requestLVM: + 3 (NtpPacket.setMode; pin C05_pin_modeClient_versionMax)
  (1, "if c.InterleavedMode && reference == c.prev.reference && cTxTime0.Sub(ntp.TimeFromTime64(c.prev.cTxTime, cTxTime0)) <= 3*time.Second"),  -- ClientNtp.mkRequest: interleavedMode && reference == prev.reference && windowOk .ip (<= 3 s; pins C03_pin_window*)
  (2, "interleavedReq = true"),  -- ClientNtp.mkRequest: interleaved := true
  (2, "ntpreq.OriginTime = c.prev.sRxTime"),  -- ClientNtp.mkRequest: origin := prev.sRx
  (2, "ntpreq.ReceiveTime = c.prev.cRxTime"),  -- ClientNtp.mkRequest: rx := prev.cRx
  (2, "ntpreq.TransmitTime = c.prev.cTxTime"),  -- ClientNtp.mkRequest: tx := prev.cTx
  (1, "else"),  -- ClientNtp.mkRequest: else
  (2, "ntpreq.TransmitTime = ntp.Time64FromTime(cTxTime0)"),  -- ClientNtp.mkRequest: tx := ofTime now (Time64.ofTime)
  (1, "ntp.EncodePacket(&buf, &ntpreq)"),  -- NtpPacket.encodePacket: the 48 header bytes (ClientNtp keeps only Req origin/rx/tx + requestLVM); harness c03 op cli.req
  (1, "var requestID []byte"),  -- env: variable declaration (requestID; NtsPool.Client.reqId)
  (1, "var ntsreq nts.Packet"),  -- env: variable declaration (ntsreq)
  (1, "if c.Auth.Enabled"),  -- ClientNtp.Cfg.nts; NtsPool.request: NTS part of the request
  (2, "ntsreq, requestID = nts.NewRequestPacket(ntskeData)"),  -- Nts.newRequestPacket: Cookie[0], capped placeholders, uid := copyN 32 rnd; NtsPool.request: reqId := uid; harness c03 op cl.exch
  (2, "nts.EncodePacket(&buf, &ntsreq)"),  -- Nts.encodePacket (encodePacketG true): uid, cookie, placeholders, authenticator appended to hdr; NtsPool.request
  (1, "cTxTimeFallback := timebase.Now()"),  -- env: clock reading taken before the send (fix 53f357f); becomes input cTx1 of ClientNtp.exchangeIP / exchangeSCION when no kernel stamp arrives; exercised by the c03 stream without kernel tx stamps (DESIGN 13.7)
  (1, "n, err := conn.WriteToUDPAddrPort(buf, remoteAddr.AddrPort())"),  -- env: send; the datagram is the output of NtsPool.request / Req; destination = ClientNtp.ntsDestination (cli.ntsdest)
  (1, "if err != nil"),  -- ClientNtp.ntsDestination: = none => this write fails (address without IP), no datagram leaves
  (2, "return time.Time{}, 0, err"),  -- ClientNtp.ErrKind.other: return before the receive loop (write); cookie already popped (NtsPool.request st')
  (1, "if n != len(buf)"),  -- env: kernel short write (a UDP send is all-or-error); no model has the branch, would be ErrKind.other
  (2, "return time.Time{}, 0, errWrite"),  -- ClientNtp.ErrKind.other: return before the receive loop (write, errWrite); no def produces it
  (1, "cTxTime1, id, err := udp.ReadTXTimestamp(conn)"),  -- env: kernel TX timestamp from the error queue; result enters as argument cTx1 of ClientNtp.exchangeIP / classifyIP
  (1, "if err != nil || id != 0"),  -- env: fallback decision for cTx1 (err or id != 0; fresh socket so id is 0); model takes cTx1 as given
  (2, "cTxTime1 = cTxTimeFallback"),  -- env: the reading taken before the send replaces the missing kernel stamp: still input cTx1, now not later than the request's departure (fix 53f357f)
  (1, "if interleavedReq"),  -- env: metric only (reqsSentInterleaved.Inc dropped); no behaviour
  (1, "const maxNumRetries = 1"),  -- ClientNtp.maxNumRetries / NtsPool.maxNumRetries: 1 (pins C05_pin_maxNumRetries, C11_pin_maxNumRetries; x_c03.go)
  (1, "numRetries := 0"),  -- ClientNtp.exchangeIP: runLoop ... cfg.deadlineSet 0 0 evs (numRetries = 0); NtsPool.exchange: budget maxNumRetries + 1
  (1, "oob := make([]byte, udp.TimestampLen())"),  -- env: buffer allocation (oob)
  (1, "for"),  -- ClientNtp.runLoop: the receive loop over List (Event IpDgram); NtsPool.recvLoop for the NTS stage
  (2, "buf = buf[:cap(buf)]"),  -- env: buffer reslice to capacity (48 without NTS, 1024 after nts.EncodePacket); longer datagram => MSG_TRUNC => Event.badFlags
  (2, "oob = oob[:cap(oob)]"),  -- env: buffer reslice (oob)
  (2, "n, oobn, flags, srcAddr, err := conn.ReadMsgUDPAddrPort(buf, oob)"),  -- ClientNtp.Event: what the socket delivers to one iteration (dgram / readErr / badFlags) is the model's input
  (2, "if err != nil"),  -- ClientNtp.runLoop: | .readErr b :: rest
  (3, "if numRetries != maxNumRetries && deadlineIsSet && timebase.Now().Before(deadline)"),  -- ClientNtp.mayRetry: numRetries != maxNumRetries && deadlineSet && before (before = flag b of Event.readErr)
  (4, "numRetries++"),  -- ClientNtp.runLoop: r + 1
  (4, "continue"),  -- ClientNtp.runLoop: recursive call on rest (n + 1)
  (3, "return time.Time{}, 0, err"),  -- ClientNtp.runLoop: else .error .read (n + 1)
  (2, "if flags != 0"),  -- ClientNtp.runLoop: | .badFlags b :: rest
  (3, "err = errUnexpectedPacketFlags"),  -- ClientNtp.ErrKind.flags
  (3, "if numRetries != maxNumRetries && deadlineIsSet && timebase.Now().Before(deadline)"),  -- ClientNtp.mayRetry: flag b of Event.badFlags
  (4, "numRetries++"),  -- ClientNtp.runLoop: r + 1
  (4, "continue"),  -- ClientNtp.runLoop: recursive call on rest
  (3, "return time.Time{}, 0, err"),  -- ClientNtp.runLoop: else .error .flags (n + 1)
  (2, "oob = oob[:oobn]"),  -- env: buffer reslice (oob to oobn); input of Udp.timestampFromOOBData
  (2, "cRxTime, err := udp.TimestampFromOOBData(oob)"),  -- Udp.timestampFromOOBData (walkGen true): cmsg walk; its result enters ClientNtp as Event.dgram cRx
  (2, "if err != nil"),  -- Udp.Outcome: errNotFound / errUnexpectedData; ClientNtp.Event.dgram: cRx = kernel stamp or the clock reading that replaces it
  (3, "cRxTime = timebase.Now()"),  -- ClientNtp.Event.dgram: cRx := clock reading that replaces the kernel stamp (input)
  (2, "buf = buf[:n]"),  -- ClientNtp.Payload.len: n
  (2, "if compareAddrs(srcAddr.Addr(), remoteAddr.AddrPort().Addr()) != 0"),  -- ClientNtp.classifyIP: d.src != server (both after Unmap; ports not compared)
  (3, "err = errUnexpectedPacketSource"),  -- ClientNtp.classifyIP: .skip .source
  (3, "if numRetries != maxNumRetries && deadlineIsSet && timebase.Now().Before(deadline)"),  -- ClientNtp.runLoop: | .skip e => mayRetry r deadlineSet b (b of Event.dgram)
  (4, "numRetries++"),  -- ClientNtp.runLoop: r + 1
  (4, "continue"),  -- ClientNtp.runLoop: recursive call on rest
  (3, "return time.Time{}, 0, err"),  -- ClientNtp.runLoop: else .error e (n + 1), e = .source
  (2, "var ntpresp ntp.Packet"),  -- env: variable declaration, fresh per iteration (ClientNtp.Payload.pkt : NtpPkt)
  (2, "err = ntp.DecodePacket(&ntpresp, buf)"),  -- NtpPacket.decodePacket: size error below 48, else the 48 header bytes; ClientNtp.ntpStage: p.len < 48, Payload.pkt
  (2, "if err != nil"),  -- ClientNtp.ntpStage: if p.len < 48 then .skip .size
  (3, "if numRetries != maxNumRetries && deadlineIsSet && timebase.Now().Before(deadline)"),  -- ClientNtp.runLoop: | .skip e => mayRetry
  (4, "numRetries++"),  -- ClientNtp.runLoop: r + 1
  (4, "continue"),  -- ClientNtp.runLoop: recursive call on rest
  (3, "return time.Time{}, 0, err"),  -- ClientNtp.runLoop: else .error e (n + 1), e = .size
  (2, "authenticated := false"),  -- env: variable used by the dropped log statement only
  (2, "var ntsresp nts.Packet"),  -- pin C11_pin_recvLoopPacketScope (x_c11.go: ntsRespPacketScopeIP = loop): fresh packet per datagram, as NtsPool.response
  (2, "if c.Auth.Enabled"),  -- ClientNtp.ntpStage: cfg.nts && ...; NtsPool.recvLoop: NTS stage of the iteration
  (3, "err = nts.DecodePacket(&ntsresp, buf)"),  -- Nts.decodePacket in NtsPool.response; ClientNtp.Payload.ntsDecodeOk (oracle verdict); harness c03 op cl.exch
  (3, "if err != nil"),  -- ClientNtp.ntpStage: cfg.nts && !p.ntsDecodeOk => .skip .ntsDecode; NtsPool.response: | .err e => (st, .err e)
  (4, "if numRetries != maxNumRetries && deadlineIsSet && timebase.Now().Before(deadline)"),  -- ClientNtp.runLoop: | .skip e => mayRetry; NtsPool.recvLoop: | (st', .err _) => recvLoop A n st' rest (budget)
  (5, "numRetries++"),  -- ClientNtp.runLoop: r + 1; NtsPool.recvLoop: budget n + 1 -> n
  (5, "continue"),  -- ClientNtp.runLoop: recursive call on rest; NtsPool.recvLoop: recursive call
  (4, "return time.Time{}, 0, err"),  -- ClientNtp.runLoop: else .error e (n + 1), e = .ntsDecode; NtsPool.recvLoop: | 0 => (st, .ok false)
  (3, "err = nts.ProcessResponse(buf, ntskeData.S2cKey, &c.Auth.NTSKEFetcher, &ntsresp, requestID)"),  -- Nts.processResponse + NtsPool.response: pool := cs.foldl storeCookie; ClientNtp.Payload.ntsUidEq / ntsOpenOk (verdicts)
  (3, "if err != nil"),  -- ClientNtp.ntpStage: cfg.nts && !(ntsUidEq && ntsOpenOk) => .skip .ntsProcess; NtsPool.response: | .err e => (st, .err e)
  (4, "if numRetries != maxNumRetries && deadlineIsSet && timebase.Now().Before(deadline)"),  -- ClientNtp.runLoop: | .skip e => mayRetry; NtsPool.recvLoop: | (st', .err _)
  (5, "numRetries++"),  -- ClientNtp.runLoop: r + 1; NtsPool.recvLoop: budget n + 1 -> n
  (5, "continue"),  -- ClientNtp.runLoop: recursive call on rest; NtsPool.recvLoop: recursive call
  (4, "return time.Time{}, 0, err"),  -- ClientNtp.runLoop: else .error e (n + 1), e = .ntsProcess
  (3, "authenticated = true"),  -- env: variable used by the dropped log statement only (pktsAuthenticated metric dropped); NtsPool.recvLoop: .ok true
  (2, "interleavedResp := false"),  -- ClientNtp.ntpStage: let il := ... (false unless both conjuncts)
  (2, "if interleavedReq && ntpresp.OriginTime == ntpreq.ReceiveTime"),  -- ClientNtp.ntpStage: il := req.interleaved && p.pkt.origin == req.rx
  (3, "interleavedResp = true"),  -- ClientNtp.ntpStage: il = true (Accepted.il)
  (2, "else if ntpresp.OriginTime != ntpreq.TransmitTime"),  -- ClientNtp.ntpStage: if !il && p.pkt.origin != req.tx
  (3, "err = errUnexpectedPacket"),  -- ClientNtp.ntpStage: .skip .unexpected
  (3, "if numRetries != maxNumRetries && deadlineIsSet && timebase.Now().Before(deadline)"),  -- ClientNtp.runLoop: | .skip e => mayRetry r deadlineSet b
  (4, "numRetries++"),  -- ClientNtp.runLoop: r + 1
  (4, "continue"),  -- ClientNtp.runLoop: recursion; PARTIAL: NtsPool.recvLoop ends at the 1st authenticated dgram, no 2nd StoreCookie round
  (3, "return time.Time{}, 0, err"),  -- ClientNtp.runLoop: else .error e (n + 1), e = .unexpected
  (2, "err = ntp.ValidateResponseMetadata(&ntpresp)"),  -- NtpMath.validMetadata: LI != 3, version 3|4, mode 4, stratum 1..15 (pins C05_pin_modeServer, C05_pin_leapUnknown)
  (2, "if err != nil"),  -- ClientNtp.ntpStage: else if !validMetadata p.pkt.lvm p.pkt.stratum
  (3, "return time.Time{}, 0, err"),  -- ClientNtp.ntpStage: .fatal .response; runLoop: | .fatal e => .error e (n + 1), no retry
  (2, "sRxTime := ntp.TimeFromTime64(ntpresp.ReceiveTime, cTxTime0)"),  -- ClientNtp.ntpStage: sRx := toTime p.pkt.rx req.cTx0 (Time64.toTime)
  (2, "sTxTime := ntp.TimeFromTime64(ntpresp.TransmitTime, cTxTime0)"),  -- ClientNtp.ntpStage: sTx := toTime p.pkt.tx req.cTx0
  (2, "var t0, t1, t2, t3 time.Time"),  -- env: variable declaration
  (2, "if interleavedResp"),  -- ClientNtp.ntpStage: if il (in each of t0, t1, t3)
  (3, "t0 = ntp.TimeFromTime64(c.prev.cTxTime, cTxTime0)"),  -- ClientNtp.ntpStage: t0 := toTime prev.cTx req.cTx0
  (3, "t1 = ntp.TimeFromTime64(c.prev.sRxTime, cTxTime0)"),  -- ClientNtp.ntpStage: t1 := toTime prev.sRx req.cTx0
  (3, "t2 = sTxTime"),  -- ClientNtp.ntpStage: t2 := sTx
  (3, "t3 = ntp.TimeFromTime64(c.prev.cRxTime, cTxTime0)"),  -- ClientNtp.ntpStage: t3 := toTime prev.cRx req.cTx0
  (2, "else"),  -- ClientNtp.ntpStage: else (in each of t0, t1, t3)
  (3, "t0 = cTxTime1"),  -- ClientNtp.ntpStage: t0 := cTx1
  (3, "t1 = sRxTime"),  -- ClientNtp.ntpStage: t1 := sRx
  (3, "t2 = sTxTime"),  -- ClientNtp.ntpStage: t2 := sTx
  (3, "t3 = cRxTime"),  -- ClientNtp.ntpStage: t3 := cRx
  (2, "err = ntp.ValidateResponseTimestamps(t0, t1, t2, t3)"),  -- NtpMath.validateTimestamps: sub64 t3 t0 < 0 => .panic, sub64 t2 t1 < 0 => .errResponse, else .ok
  (2, "if err != nil"),  -- ClientNtp.ntpStage: match validateTimestamps: | .errResponse (| .panic => Step.panic; runLoop .panic (n + 1))
  (3, "return time.Time{}, 0, err"),  -- ClientNtp.ntpStage: .fatal .response; runLoop: | .fatal e => .error e (n + 1)
  (2, "off := ntp.ClockOffset(t0, t1, t2, t3)"),  -- ClientNtp.Accepted.offset: clockOffset64 t0 t1 t2 t3 (NtpMath.clockOffset64)
  (2, "rtd := ntp.RoundTripDelay(t0, t1, t2, t3)"),  -- ClientNtp.Accepted.rtd: roundTripDelay64 t0 t1 t2 t3 (NtpMath.roundTripDelay64; feeds only log and histogram)
  (2, "if interleavedResp"),  -- env: metric only (respsAcceptedInterleaved.Inc dropped); no behaviour
  (2, "if c.InterleavedMode"),  -- ClientNtp.updatePrev: if cfg.interleavedMode (else prev)
  (3, "c.prev.reference = reference"),  -- ClientNtp.updatePrev: reference := reference
  (3, "c.prev.interleaved = interleavedResp"),  -- ClientNtp.updatePrev: interleaved := a.il
  (3, "c.prev.cTxTime = ntp.Time64FromTime(cTxTime1)"),  -- ClientNtp.updatePrev: cTx := ofTime cTx1
  (3, "c.prev.cRxTime = ntp.Time64FromTime(cRxTime)"),  -- ClientNtp.updatePrev: cRx := ofTime a.cRx
  (3, "c.prev.sRxTime = ntpresp.ReceiveTime"),  -- ClientNtp.updatePrev: sRx := a.sRx64 (= p.pkt.rx)
  (2, "timestamp = cRxTime"),  -- ClientNtp.Accepted.cRx: the receive time that becomes timestamp (Attempt.ok ts); harness c03 op cli.exch
  (2, "if c.Filter == nil"),  -- ClientNtp.returnedOffset: match filter | none
  (3, "offset = off"),  -- ClientNtp.returnedOffset: a.offset
  (2, "else"),  -- ClientNtp.returnedOffset: | some f
  (3, "offset = c.Filter.Do(t0, t1, t2, t3)"),  -- ClientNtp.returnedOffset: f a.t0 a.t1 a.t2 a.t3; f = Filters.luckyDo / Filters.ntimedDo (filter state advances)
  (2, "if c.Histogram != nil"),  -- ClientTail.tail: `match hist` (Histogram != nil) behind the prev update and Filter.Do; Props/C05Tail C05T_pin_tail_order
  (3, "err := c.Histogram.RecordValue(rtd.Microseconds())"),  -- env: hdrhistogram library call (observability; only benchmark tools set it); its error is no model input, see next rows
  (3, "if err != nil"),  -- ClientTail.Hist.recordOk: RecordValue(rtd.Microseconds()) == nil iff 0 <= us < limit (harness c03 cli.hist on the real library)
  (4, "return time.Time{}, 0, err"),  -- ClientTail.tail: Result.errHist with prev' and the absorbed sample (error AFTER the commit); C05T_never_offset_otherwise_ip restates the invariant
  (2, "break"),  -- ClientNtp.runLoop: | .accept a => .accepted a (n + 1) (loop ends, nothing further is read)
  (1, "return timestamp, offset, nil")  -- ClientNtp.exchangeIP: (.accepted a _, updatePrev ...); value = Attempt.ok a.cRx (returnedOffset filter a) inIL in wrapLoop
  ]

/-- core/client, SCIONClient.measureClockOffsetSCION -/
def Client.SCIONClient_measureClockOffsetSCION : List Row := [
  (0, "func (c *SCIONClient) measureClockOffsetSCION(ctx context.Context, mtrcs *scionClientMetrics, localAddr, remoteAddr udp.UDPAddr, path snet.Path) ( timestamp time.Time, offset time.Duration, err error)"),  -- ClientNtp.exchangeSCION: one whole exchange from the request on (entry: ClientNtp.entry); harness c03 ops cli.req, cli.exch
  (1, "if c.Auth.Enabled && c.Auth.opt == nil"),  -- env: SPAO scratch buffers, allocated once per client object when Auth.Enabled (reused by every later exchange)
  (2, "c.Auth.opt = &slayers.EndToEndOption{}"),  -- env: buffer allocation (the EndToEndOption every request of this client carries)
  (2, "c.Auth.opt.OptData = make([]byte, scion.PacketAuthOptDataLen)"),  -- env: buffer allocation; 28 bytes = ScionSrv.optDataLen (pin C13_pin_PacketAuthOptDataLen): authPrepare cannot index-panic
  (2, "c.Auth.buf = make([]byte, spao.MACBufferSize)"),  -- env: buffer allocation (spao.MACBufferSize scratch for both CMAC computations)
  (2, "c.Auth.mac = make([]byte, scion.PacketAuthMACLen)"),  -- env: buffer allocation; 16 bytes = ScionSrv.macLen (pin C13_pin_PacketAuthMACLen)
  (1, "var authKey []byte"),  -- ClientNtp.ScionCtx.keyAvailable: authKey != nil; false until the DRKey fetch of this exchange succeeds
  (1, "laddr, ok := netip.AddrFromSlice(localAddr.Host.IP)"),  -- ClientNtp.localAddrOk: iplen == 4 || iplen == 16 (argument of ClientNtp.entry)
  (1, "if !ok"),  -- ClientNtp.entry: if localAddrOk iplen then .proceed else .errAddr (entryOld = before F13 fix); harness c03 op cli.badlocal
  (2, "return time.Time{}, 0, errUnexpectedAddrType"),  -- ClientNtp.entry: | .errAddr (C05_entry_no_success_without_datagram; entryOld .successZeroOld was F13)
  (1, "var lc net.ListenConfig"),  -- env: variable declaration (net.ListenConfig zero value)
  (1, "pconn, err := lc.ListenPacket(ctx, \"udp\", netip.AddrPortFrom(laddr, 0).String())"),  -- env: fresh UDP socket per exchange (model header: one exchange = one fresh socket); port 0 = kernel-chosen
  (1, "if err != nil"),  -- env: socket set-up failed; result enters only as ClientNtp.ErrKind.other
  (2, "return time.Time{}, 0, err"),  -- ClientNtp.ErrKind.other: return before the receive loop (listen); no def produces it; Multipath.attemptLoop: outs[j] = false
  (1, "conn := pconn.(*net.UDPConn)"),  -- env: type assertion on the socket just created
  (1, "defer conn.Close()"),  -- env: defer conn.Close()
  (1, "deadline, deadlineIsSet := ctx.Deadline()"),  -- ClientNtp.Cfg.deadlineSet: deadlineIsSet (the deadline value itself enters via the beforeDeadline flags of ClientNtp.Event)
  (1, "if deadlineIsSet"),  -- ClientNtp.Cfg.deadlineSet: true branch
  (2, "err = conn.SetDeadline(deadline)"),  -- env: socket deadline; its expiry enters the model as ClientNtp.Event.readErr
  (2, "if err != nil"),  -- env: SetDeadline failed; result enters only as ClientNtp.ErrKind.other
  (3, "return time.Time{}, 0, err"),  -- ClientNtp.ErrKind.other: return before the receive loop (deadline); no def produces it
  (1, "err = udp.EnableTimestamping(conn, localAddr.Host.Zone)"),  -- env: kernel timestamping set-up; its effect enters as inputs cTx1 / Event.dgram cRx of ClientNtp.exchangeSCION
  (1, "if err != nil"),  -- env: error only logged (body dropped); exchange goes on with clock-reading fallbacks for cTx1 / cRx
  (1, "err = udp.SetDSCP(conn, c.DSCP)"),  -- env: socket option IP_TOS from c.DSCP (MainCfg.dscp validates the value; the setsockopt is outside every model)
  (1, "if err != nil"),  -- env: error only logged (body dropped)
  (1, "localPort := conn.LocalAddr().(*net.UDPAddr).Port"),  -- env: kernel-chosen local port of the fresh socket; becomes the request's UDP source port (row 85)
  (1, "var ntskeData ntske.Data"),  -- env: variable declaration (ntske.Data zero value)
  (1, "if c.Auth.NTSEnabled"),  -- ClientNtp.Cfg.nts: Auth.NTSEnabled (SCION; independent of Auth.Enabled = SPAO)
  (2, "ntskeData, err = c.Auth.NTSKEFetcher.FetchData(ctx)"),  -- Ntske.fetchWith / NtsPool.fetchData: hand out a copy of the data, pop one cookie (re-key iff pool empty); NtsPool.request
  (2, "if err != nil"),  -- Ntske.fetchWith: | (c, some err) => .error err; NtsPool.request: | none => .err .noCookies
  (3, "return time.Time{}, 0, err"),  -- ClientNtp.ErrKind.other: return before the receive loop (key exchange); NtsPool.request returns .err, nothing sent
  (2, "remoteAddr.Host.IP = net.ParseIP(ntskeData.Server)"),  -- ClientNtp.ntsDestination: parsed = net.ParseIP(ntskeData.Server) (oracle input), held overwritten; harness c03 op cli.ntsdest
  (2, "if remoteAddr.Host.IP == nil"),  -- ClientNtp.ntsDestination: match parsed | none (ntsDestinationSCIONOld: .panic at row 76 before the fix)
  (3, "return time.Time{}, 0, errUnexpectedAddrType"),  -- ClientNtp.ntsDestination: none = nothing sent, errUnexpectedAddrType (C20_nts_request_destination; cookie already popped)
  (2, "remoteAddr.Host.Port = int(ntskeData.Port)"),  -- ClientNtp.ntsDestination: port := ntskeData.Port (C20_nts_request_destination)
  (2, "if remoteAddr.IA == localAddr.IA"),  -- ClientNtp.ntsDestination: server in the client's AS (doc: then also the underlay destination); c03 op cli.ntsdest tr=scion-local
  (3, "path = spath.Path{ Src: localAddr.IA, Dst: remoteAddr.IA, DataplanePath: spath.Empty{}, NextHop: remoteAddr.Host}"),  -- ClientNtp.ntsDestination: PARTIAL - returns (host, port) only; the swap to an empty intra-AS path (NextHop = host) is doc text
  (1, "ip4 := remoteAddr.Host.IP.To4()"),  -- ClientNtp.ScionCtx.remoteHost: 4 bytes whenever the address has a 4-byte form (To4); ClientNtp.ntsDestination: unmapIP ip
  (1, "if ip4 != nil"),  -- ClientNtp.unmapIP: 4-byte form exists
  (2, "remoteAddr.Host.IP = ip4"),  -- ClientNtp.ScionCtx.remoteHost / ntsDestination: the 4-byte form (written through remoteAddr.Host, the per-goroutine copy)
  (1, "nextHop := path.UnderlayNextHop().AddrPort()"),  -- Multipath.RoundOut.assigned: underlay destination = next hop of the path handed in; harness c15 op mp.round (one socket per path)
  (1, "nextHopAddr := nextHop.Addr()"),  -- env: address part of the underlay next hop
  (1, "if nextHopAddr.Is4In6()"),  -- env: socket address form (IPv4-mapped next hop)
  (2, "nextHop = netip.AddrPortFrom( netip.AddrFrom4(nextHopAddr.As4()), nextHop.Port())"),  -- env: socket address form: the 4-byte address with the same port
  (1, "buf := make([]byte, scion.MTU)"),  -- env: buffer allocation (scion.MTU; NTP/NTS payload out, whole datagram in)
  (1, "reference := remoteAddr.IA.String() + \",\" + remoteAddr.Host.String()"),  -- ClientNtp.mkRequest: argument reference (= IA "," host:port, after the NTS overwrite and To4)
  (1, "cTxTime0 := timebase.Now()"),  -- ClientNtp.mkRequest: argument now (cTxTime0); stored as Req.cTx0
  (1, "interleavedReq := false"),  -- ClientNtp.mkRequest: Req.interleaved := false (else branch default)
  (1, "ntpreq := ntp.Packet{}"),  -- NtpPacket.zeroPacket; ClientNtp.mkRequest: origin/rx := zero64 in the basic request
  (1, "ntpreq.SetVersion(ntp.VersionMax)"),  -- ClientNtp.requestLVM: 4 * 8 (NtpPacket.setVersion; pin C05_pin_modeClient_versionMax)
  (1, "ntpreq.SetMode(ntp.ModeClient)"),  -- ClientNtp.requestLVM: + 3 (NtpPacket.setMode; pin C05_pin_modeClient_versionMax)
  (1, "if c.InterleavedMode && reference == c.prev.reference && cTxTime0.Sub(ntp.TimeFromTime64(c.prev.cTxTime, cTxTime0)) < 3*time.Second"),  -- ClientNtp.mkRequest: interleavedMode && reference == prev.reference && windowOk .scion (< 3 s; pins C03_pin_window*)
  (2, "interleavedReq = true"),  -- ClientNtp.mkRequest: interleaved := true
  (2, "ntpreq.OriginTime = c.prev.sRxTime"),  -- ClientNtp.mkRequest: origin := prev.sRx
  (2, "ntpreq.ReceiveTime = c.prev.cRxTime"),  -- ClientNtp.mkRequest: rx := prev.cRx
  (2, "ntpreq.TransmitTime = c.prev.cTxTime"),  -- ClientNtp.mkRequest: tx := prev.cTx
  (1, "else"),  -- ClientNtp.mkRequest: else
  (2, "ntpreq.TransmitTime = ntp.Time64FromTime(cTxTime0)"),  -- ClientNtp.mkRequest: tx := ofTime now (Time64.ofTime)
  (1, "ntp.EncodePacket(&buf, &ntpreq)"),  -- NtpPacket.encodePacket: the 48 header bytes (ClientNtp keeps only Req origin/rx/tx + requestLVM); harness c03 op cli.req
  (1, "var requestID []byte"),  -- env: variable declaration (requestID; NtsPool.Client.reqId)
  (1, "var ntsreq nts.Packet"),  -- env: variable declaration (ntsreq)
  (1, "if c.Auth.NTSEnabled"),  -- ClientNtp.Cfg.nts; NtsPool.request: NTS part of the request
  (2, "ntsreq, requestID = nts.NewRequestPacket(ntskeData)"),  -- Nts.newRequestPacket: Cookie[0], capped placeholders, uid := copyN 32 rnd; NtsPool.request: reqId := uid; harness c03 op cl.exch
  (2, "nts.EncodePacket(&buf, &ntsreq)"),  -- Nts.encodePacket (encodePacketG true): uid, cookie, placeholders, authenticator appended to hdr; NtsPool.request
  (1, "var scionLayer slayers.SCION"),  -- env: variable declaration (scionLayer: built here for the request, reused as decode target of every response)
  (1, "scionLayer.TrafficClass = c.DSCP << 2"),  -- ClientTail.mkScionRequestHeader: trafficClass := dscp * 4 (dscp <= 63, else SetDSCP panicked: HdrResult.panicDSCP)
  (1, "scionLayer.SrcIA = localAddr.IA"),  -- ClientTail.mkScionRequestHeader: srcIA := localIA
  (1, "srcAddrIP, ok := netip.AddrFromSlice(localAddr.Host.IP)"),  -- ClientNtp.localAddrOk: same slice as row 7
  (1, "if !ok"),  -- ClientNtp.entry: .proceed at row 8 implies ok here
  (2, "panic(errUnexpectedAddrType)"),  -- env: unreachable panic guard (row 9 returned otherwise)
  (1, "err = scionLayer.SetSrcAddr(addr.HostIP(srcAddrIP.Unmap()))"),  -- ClientTail.mkScionRequestHeader: src := hostOfIP localIP (T4Ip+4 / T16Ip+16 of the unmapped address); C05T_header_hosts_are_key_hosts
  (1, "if err != nil"),  -- env: slayers setter result
  (2, "panic(err)"),  -- env: panic guard; SetSrcAddr does not fail for an IP host address
  (1, "scionLayer.DstIA = remoteAddr.IA"),  -- ClientTail.mkScionRequestHeader: dstIA := remoteIA
  (1, "dstAddrIP, ok := netip.AddrFromSlice(remoteAddr.Host.IP)"),  -- ClientNtp.unmapIP: AddrFromSlice of remoteAddr.Host.IP; with NTS ok holds by row 32 (ntsDestinationSCIONOld: this was the panic)
  (1, "if !ok"),  -- ClientTail.mkScionRequestHeader: hostOfIP (held remoteIP) = none (caller-supplied address only; not network input)
  (2, "panic(errUnexpectedAddrType)"),  -- ClientTail.HdrResult.panicAddr (C05T_header_remote_panic; executed: harness c03 stream c03hdr non-ip)
  (1, "err = scionLayer.SetDstAddr(addr.HostIP(dstAddrIP.Unmap()))"),  -- ClientNtp.ntsDestination: destination host of the SCION header = unmapIP ip (NTS only; else caller's remoteAddr, not modelled)
  (1, "if err != nil"),  -- env: slayers setter result
  (2, "panic(err)"),  -- env: panic guard; SetDstAddr does not fail for an IP host address
  (1, "err = path.Dataplane().SetPath(&scionLayer)"),  -- Multipath.RoundOut.assigned: the request travels over the path handed in (dataplane bytes: scionproto); harness c15 op mp.round
  (1, "if err != nil"),  -- env: scionproto result (decode of the path's raw bytes)
  (2, "panic(err)"),  -- ClientTail.HdrResult.panicSetPath (input setPathOk; not executed)
  (1, "scionLayer.NextHdr = slayers.L4UDP"),  -- env: header chaining for serialisation (also PldType of the request MAC, row 105, and NextHdr of the E2E extension, row 109)
  (1, "var udpLayer slayers.UDP"),  -- env: variable declaration (udpLayer: built for the request, reused as decode target of every response)
  (1, "udpLayer.SrcPort = uint16(localPort)"),  -- ClientTail.mkScionRequestHeader: srcPort := localPort (oracle C03:header:src-port: = the underlay source port)
  (1, "udpLayer.DstPort = uint16(remoteAddr.Host.Port)"),  -- ClientNtp.ntsDestination: port = UDP destination port of the SCION header (NTS only; else the caller's remoteAddr.Host.Port)
  (1, "udpLayer.SetNetworkLayerForChecksum(&scionLayer)"),  -- env: checksum set-up (gopacket)
  (1, "payload := gopacket.Payload(buf)"),  -- env: payload layer over buf (the NtpPacket.encodePacket / Nts.encodePacket bytes)
  (1, "buffer := gopacket.NewSerializeBuffer()"),  -- env: buffer allocation (gopacket serialize buffer)
  (1, "options := gopacket.SerializeOptions{ ComputeChecksums: true, FixLengths: true}"),  -- env: serialisation options (checksums and lengths computed by gopacket)
  (1, "err = payload.SerializeTo(buffer, options)"),  -- env: gopacket serialisation of the payload
  (1, "if err != nil"),  -- env: serialisation result
  (2, "panic(err)"),  -- env: panic guard on serialising the client's own payload (no model exit)
  (1, "buffer.PushLayer(payload.LayerType())"),  -- env: gopacket layer bookkeeping
  (1, "err = udpLayer.SerializeTo(buffer, options)"),  -- env: gopacket serialisation of the UDP header (length, checksum)
  (1, "if err != nil"),  -- env: serialisation result
  (2, "panic(err)"),  -- env: panic guard on serialising the client's own UDP header (no model exit)
  (1, "buffer.PushLayer(udpLayer.LayerType())"),  -- env: gopacket layer bookkeeping
  (1, "if c.Auth.Enabled"),  -- ClientNtp.ScionCtx.keyAvailable: Auth.Enabled (first conjunct)
  (2, "hostHostKey, err := c.Auth.DRKeyFetcher.FetchHostHostKey(ctx, drkey.HostHostMeta{ ProtoId: scion.DRKeyProtocolTS, Validity: cTxTime0, SrcIA: remoteAddr.IA, DstIA: localAddr.IA, SrcHost: remoteAddr.Host.IP.String(), DstHost: localAddr.Host.IP.String()})"),  -- Drkey.fetchHostHost with Drkey.clientHHId (TS, validity cTxTime0, fast side = server); pin C13_pin_call_sites (x_c13.go)
  (2, "if err != nil"),  -- Drkey.fetchHostHost: none => ScionCtx.keyAvailable = false: request unauthenticated, responses unchecked (error only logged)
  (2, "else"),  -- Drkey.fetchHostHost: some key
  (3, "authKey = hostHostKey.Key[:]"),  -- ClientNtp.ScionCtx.keyAvailable := true (C13_client_key_uncached: the daemon's answer for this very exchange)
  (3, "scion.PreparePacketAuthOpt(c.Auth.opt, scion.PacketAuthSPIClient, scion.PacketAuthAlgorithm)"),  -- ScionSrv.authPrepare d spiClient algorithm: SPI, algorithm, zeros (C13_meta_prepare; pin C13_pin_PacketAuthSPIClient)
  (3, "_, err = spao.ComputeAuthCMAC( spao.MACInput{ Key: authKey, Header: slayers.PacketAuthOption{EndToEndOption: c.Auth.opt}, ScionLayer: &scionLayer, PldType: scionLayer.NextHdr, Pld: buffer.Bytes()}, c.Auth.buf, scion.PacketAuthOptMAC(c.Auth.opt))"),  -- env: spao CMAC over the request (listener side: oracle ScionSrv.Pkt.mac); harness c03 oracle C13:client:request-authenticator
  (3, "if err != nil"),  -- env: crypto library result
  (4, "panic(err)"),  -- env: panic guard (MAC over the client's own header and the path it just set; no model exit)
  (3, "e2eExtn := slayers.EndToEndExtn{}"),  -- env: variable declaration (E2E extension of the request)
  (3, "e2eExtn.NextHdr = scionLayer.NextHdr"),  -- env: header chaining for serialisation
  (3, "e2eExtn.Options = []*slayers.EndToEndOption{c.Auth.opt}"),  -- env: the extension's only option is the prepared authenticator (listener reads it as ScionSrv.Pkt.auth)
  (3, "err = e2eExtn.SerializeTo(buffer, options)"),  -- env: gopacket serialisation of the E2E extension
  (3, "if err != nil"),  -- env: serialisation result
  (4, "panic(err)"),  -- env: panic guard on serialising the client's own extension (no model exit)
  (3, "buffer.PushLayer(e2eExtn.LayerType())"),  -- env: gopacket layer bookkeeping
  (3, "scionLayer.NextHdr = slayers.End2EndClass"),  -- env: header chaining for serialisation (SCION header now announces the E2E extension)
  (1, "err = scionLayer.SerializeTo(buffer, options)"),  -- env: gopacket serialisation of the SCION header
  (1, "if err != nil"),  -- env: serialisation result
  (2, "panic(err)"),  -- env: panic guard on serialising the client's own SCION header (no model exit)
  (1, "buffer.PushLayer(scionLayer.LayerType())"),  -- env: gopacket layer bookkeeping
  (1, "cTxTimeFallback := timebase.Now()"),  -- env: clock reading taken before the send (fix 53f357f); becomes input cTx1 of ClientNtp.exchangeIP / exchangeSCION when no kernel stamp arrives; exercised by the c03 stream without kernel tx stamps (DESIGN 13.7)
  (1, "n, err := conn.WriteToUDPAddrPort(buffer.Bytes(), nextHop)"),  -- env: send to nextHop; payload = Req / NtsPool.request output; destination: ClientNtp.ntsDestination resp. assigned path's next hop
  (1, "if err != nil"),  -- env: write failed; result enters only as ClientNtp.ErrKind.other
  (2, "return time.Time{}, 0, err"),  -- ClientNtp.ErrKind.other: return before the receive loop (write); cookie already popped (NtsPool.request st')
  (1, "if n != len(buffer.Bytes())"),  -- env: kernel short write (a UDP send is all-or-error); no model has the branch, would be ErrKind.other
  (2, "return time.Time{}, 0, errWrite"),  -- ClientNtp.ErrKind.other: return before the receive loop (write, errWrite); no def produces it
  (1, "cTxTime1, id, err := udp.ReadTXTimestamp(conn)"),  -- env: kernel TX timestamp from the error queue; enters as argument cTx1 of ClientNtp.exchangeSCION (call itself: ListenerTx.readTX)
  (1, "if err != nil || id != 0"),  -- env: fallback decision for cTx1 (err or id != 0; fresh socket so id is 0); model takes cTx1 as given
  (2, "cTxTime1 = cTxTimeFallback"),  -- env: the reading taken before the send replaces the missing kernel stamp: still input cTx1, now not later than the request's departure (fix 53f357f)
  (1, "if interleavedReq"),  -- env: metric only (reqsSentInterleaved.Inc dropped); no behaviour
  (1, "const maxNumRetries = 1"),  -- ClientNtp.maxNumRetries / NtsPool.maxNumRetries: 1 (pins C05_pin_maxNumRetries, C11_pin_maxNumRetries; x_c03.go)
  (1, "numRetries := 0"),  -- ClientNtp.exchangeSCION: runLoop ... cfg.deadlineSet 0 0 evs (numRetries = 0); NtsPool.exchange: budget maxNumRetries + 1
  (1, "oob := make([]byte, udp.TimestampLen())"),  -- env: buffer allocation (oob)
  (1, "for"),  -- ClientNtp.runLoop: the receive loop over List (Event ScionDgram); NtsPool.recvLoop for the NTS stage
  (2, "buf = buf[:cap(buf)]"),  -- env: buffer reslice to capacity (scion.MTU, or what nts.EncodePacket left); longer datagram => MSG_TRUNC => Event.badFlags
  (2, "oob = oob[:cap(oob)]"),  -- env: buffer reslice (oob)
  (2, "n, oobn, flags, lastHop, err := conn.ReadMsgUDPAddrPort(buf, oob)"),  -- ClientNtp.Event: what the socket delivers to one iteration (dgram / readErr / badFlags) is the model's input; lastHop only logged
  (2, "if err != nil"),  -- ClientNtp.runLoop: | .readErr b :: rest
  (3, "if numRetries != maxNumRetries && deadlineIsSet && timebase.Now().Before(deadline)"),  -- ClientNtp.mayRetry: numRetries != maxNumRetries && deadlineSet && before (before = flag b of Event.readErr)
  (4, "numRetries++"),  -- ClientNtp.runLoop: r + 1
  (4, "continue"),  -- ClientNtp.runLoop: recursive call on rest (n + 1)
  (3, "return time.Time{}, 0, err"),  -- ClientNtp.runLoop: else .error .read (n + 1)
  (2, "if flags != 0"),  -- ClientNtp.runLoop: | .badFlags b :: rest
  (3, "err = errUnexpectedPacketFlags"),  -- ClientNtp.ErrKind.flags
  (3, "if numRetries != maxNumRetries && deadlineIsSet && timebase.Now().Before(deadline)"),  -- ClientNtp.mayRetry: flag b of Event.badFlags
  (4, "numRetries++"),  -- ClientNtp.runLoop: r + 1
  (4, "continue"),  -- ClientNtp.runLoop: recursive call on rest
  (3, "return time.Time{}, 0, err"),  -- ClientNtp.runLoop: else .error .flags (n + 1)
  (2, "oob = oob[:oobn]"),  -- env: buffer reslice (oob to oobn); input of Udp.timestampFromOOBData
  (2, "cRxTime, err := udp.TimestampFromOOBData(oob)"),  -- Udp.timestampFromOOBData (walkGen true): cmsg walk; its result enters ClientNtp as Event.dgram cRx
  (2, "if err != nil"),  -- Udp.Outcome: errNotFound / errUnexpectedData; ClientNtp.Event.dgram: cRx = kernel stamp or the clock reading that replaces it
  (3, "cRxTime = timebase.Now()"),  -- ClientNtp.Event.dgram: cRx := clock reading that replaces the kernel stamp (input)
  (2, "buf = buf[:n]"),  -- ClientNtp.ScionDgram.bufLen: n
  (2, "var ( hbhLayer slayers.HopByHopExtnSkipper e2eLayer slayers.EndToEndExtn scmpLayer slayers.SCMP )"),  -- env: variable declarations, fresh per iteration (HBH skipper, E2E extension, SCMP layer)
  (2, "parser := gopacket.NewDecodingLayerParser( slayers.LayerTypeSCION, &scionLayer, &hbhLayer, &e2eLayer, &udpLayer, &scmpLayer)"),  -- env: gopacket parser set-up; the request's scionLayer / udpLayer are overwritten by the parse (ScionDgram = the parsed values)
  (2, "parser.IgnoreUnsupported = true"),  -- env: parser option (an unsupported next layer ends the parse without error); outcome = ScionDgram.decodeOk / decoded
  (2, "decoded := make([]gopacket.LayerType, 4)"),  -- env: buffer allocation (decoded layer types)
  (2, "err = parser.DecodeLayers(buf, &decoded)"),  -- ClientNtp.ScionDgram.decodeOk / decoded: gopacket/slayers parse is outside the model (oracle input); harness c03 op cli.exch ev=s:
  (2, "if err != nil"),  -- ClientNtp.classifySCIONWith: if !d.decodeOk
  (3, "if numRetries != maxNumRetries && deadlineIsSet && timebase.Now().Before(deadline)"),  -- ClientNtp.classifySCIONWith: .skip .layers; runLoop: | .skip e => mayRetry r deadlineSet b (b of Event.dgram)
  (4, "numRetries++"),  -- ClientNtp.runLoop: r + 1
  (4, "continue"),  -- ClientNtp.runLoop: recursive call on rest
  (3, "return time.Time{}, 0, err"),  -- ClientNtp.runLoop: else .error e (n + 1), e = .layers
  (2, "validType := len(decoded) >= 2 && (decoded[len(decoded)-1] == slayers.LayerTypeSCIONUDP || decoded[len(decoded)-1] == slayers.LayerTypeSCMP)"),  -- ClientNtp.classifySCIONWith: d.decoded.length >= 2 && (lastLayer == some .udp || lastLayer == some .scmp)
  (2, "if !validType"),  -- ClientNtp.classifySCIONWith: else if !(...)
  (3, "err = errUnexpectedPacket"),  -- ClientNtp.classifySCIONWith: .skip .unexpected
  (3, "if numRetries != maxNumRetries && deadlineIsSet && timebase.Now().Before(deadline)"),  -- ClientNtp.runLoop: | .skip e => mayRetry r deadlineSet b
  (4, "numRetries++"),  -- ClientNtp.runLoop: r + 1
  (4, "continue"),  -- ClientNtp.runLoop: recursive call on rest
  (3, "return time.Time{}, 0, err"),  -- ClientNtp.runLoop: else .error e (n + 1), e = .unexpected
  (2, "if decoded[len(decoded)-1] == slayers.LayerTypeSCMP"),  -- ClientNtp.classifySCIONWith: else if lastLayer d.decoded == some .scmp
  (3, "err = errUnexpectedPacket"),  -- ClientNtp.classifySCIONWith: .skip .unexpected (SCMP type/code only logged)
  (3, "if numRetries != maxNumRetries && deadlineIsSet && timebase.Now().Before(deadline)"),  -- ClientNtp.runLoop: | .skip e => mayRetry r deadlineSet b
  (4, "numRetries++"),  -- ClientNtp.runLoop: r + 1
  (4, "continue"),  -- ClientNtp.runLoop: recursive call on rest
  (3, "return time.Time{}, 0, err"),  -- ClientNtp.runLoop: else .error e (n + 1), e = .unexpected
  (2, "if len(buf) < int(udpLayer.Length)"),  -- ClientNtp.classifySCIONWith: else if d.bufLen < d.udpLength (notes C03: length above payload but within datagram passes)
  (3, "err = errUnexpectedPacket"),  -- ClientNtp.classifySCIONWith: .skip .unexpected
  (3, "if numRetries != maxNumRetries && deadlineIsSet && timebase.Now().Before(deadline)"),  -- ClientNtp.runLoop: | .skip e => mayRetry r deadlineSet b
  (4, "numRetries++"),  -- ClientNtp.runLoop: r + 1
  (4, "continue"),  -- ClientNtp.runLoop: recursive call on rest
  (3, "return time.Time{}, 0, err"),  -- ClientNtp.runLoop: else .error e (n + 1), e = .unexpected
  (2, "validSrc := scionLayer.SrcIA == remoteAddr.IA && equalsIP(scionLayer.SrcAddrType, scionLayer.RawSrcAddr, remoteAddr.Host.IP)"),  -- ClientNtp.addrValid: d.srcIA == sc.remoteIA && equalsIP d.srcHost sc.remoteHost (ClientNtp.equalsIP; compareIPsOld before fix)
  (2, "validDst := scionLayer.DstIA == localAddr.IA && equalsIP(scionLayer.DstAddrType, scionLayer.RawDstAddr, localAddr.Host.IP)"),  -- ClientNtp.addrValid: d.dstIA == sc.localIA && equalsIP d.dstHost sc.localHost
  (2, "if !validSrc || !validDst"),  -- ClientNtp.classifySCIONWith: addr sc d != some true (addr = addrCheck; addrCheckOld: none = the compareIPs panic)
  (3, "err = errUnexpectedPacket"),  -- ClientNtp.classifySCIONWith: .skip .unexpected (C05_scion_foreign_address_is_skipped)
  (3, "if numRetries != maxNumRetries && deadlineIsSet && timebase.Now().Before(deadline)"),  -- ClientNtp.runLoop: | .skip e => mayRetry r deadlineSet b
  (4, "if !validSrc"),  -- env: log only (body dropped)
  (4, "if !validDst"),  -- env: log only (body dropped)
  (4, "numRetries++"),  -- ClientNtp.runLoop: r + 1
  (4, "continue"),  -- ClientNtp.runLoop: recursive call on rest
  (3, "return time.Time{}, 0, err"),  -- ClientNtp.runLoop: else .error e (n + 1), e = .unexpected
  (2, "authenticated := false"),  -- env: flag read by dropped log / metric only; acceptance never depends on it (C05_accept_sound_scion: no authenticator => accepted)
  (2, "if len(decoded) >= 3 && decoded[len(decoded)-2] == slayers.LayerTypeEndToEndExtn"),  -- ClientNtp.classifySCIONWith: e2e := decoded.length >= 3 && secondLast == some .e2e (same test in ClientNtp.scionRxTime)
  (3, "tsOpt, err := e2eLayer.FindOption(scion.OptTypeTimestamp)"),  -- ClientNtp.ScionDgram.tsOpt: timestamp option found in the E2E extension (parse outside the model)
  (3, "if err == nil"),  -- ClientNtp.scionRxTime: match d.tsOpt | some t (| none => cRx)
  (4, "cRxTime0, err := udp.TimestampFromOOBData(tsOpt.OptData)"),  -- Udp.timestampFromOOBData on network-supplied bytes (C08, F10); ok result = ScionDgram.tsOpt : Option Int
  (4, "if err == nil && !cRxTime0.Before(cTxTime1) && !cRxTime0.After(cRxTime)"),  -- ClientNtp.scionRxTime: if cTx1 <= t and t <= cRx (scionRxTimeOld: any parsable time; C05_scion_rx_time_within_exchange)
  (5, "cRxTime = cRxTime0"),  -- ClientNtp.scionRxTime: then t (the rxTime argument of ntpStage)
  (3, "if authKey != nil"),  -- ClientNtp.classifySCIONWith: if e2e && sc.keyAvailable
  (4, "authOpt, err := e2eLayer.FindOption(slayers.OptTypeAuthenticator)"),  -- ClientNtp.classifySCIONWith: match d.authOpt (| none => next: no authenticator option, accepted unauthenticated)
  (4, "if err == nil && len(authOpt.OptData) != scion.PacketAuthOptDataLen"),  -- ClientNtp.classifySCIONWith: if !a.wellFormed (option data not 28 bytes; pin C13_pin_PacketAuthOptDataLen)
  (5, "err = errInvalidPacketAuthenticator"),  -- ClientNtp.classifySCIONWith: malformed := .skip .auth (classifySCIONAuthOld: .panic in PacketAuthOptMetadata before the fix)
  (5, "if numRetries != maxNumRetries && deadlineIsSet && timebase.Now().Before(deadline)"),  -- ClientNtp.runLoop: | .skip e => mayRetry r deadlineSet b
  (6, "numRetries++"),  -- ClientNtp.runLoop: r + 1
  (6, "continue"),  -- ClientNtp.runLoop: recursive call on rest
  (5, "return time.Time{}, 0, err"),  -- ClientNtp.runLoop: else .error e (n + 1), e = .auth
  (4, "if err == nil"),  -- ClientNtp.classifySCIONWith: | some a, a.wellFormed
  (5, "spi, algo := scion.PacketAuthOptMetadata(authOpt)"),  -- ScionSrv.authMeta: SPI = bytes 0..3 big endian, algorithm = byte 4 (no panic: length checked) = AuthOpt.spi / AuthOpt.alg
  (5, "if spi == scion.PacketAuthSPIServer && algo == scion.PacketAuthAlgorithm"),  -- ClientNtp.classifySCIONWith: a.spi == spiServer && a.alg == algCMAC (pins C05_pin_spiServer, C05_pin_algorithm); else next
  (6, "_, err = spao.ComputeAuthCMAC( spao.MACInput{ Key: authKey, Header: slayers.PacketAuthOption{EndToEndOption: authOpt}, ScionLayer: &scionLayer, PldType: slayers.L4UDP, Pld: udpLayer.Contents[:len(udpLayer.Contents)+len(udpLayer.Payload)]}, c.Auth.buf, c.Auth.mac)"),  -- ClientNtp.AuthOpt.macOk: oracle input; MAC taken over the UDP header + payload that are decoded and evaluated (fix 8b4d8f7), not the last Length bytes of the datagram; exercised by the re-framed-response stream (DESIGN 13.7)
  (6, "if err != nil"),  -- env: crypto library result; AuthOpt has only macOk : Bool, no 'MAC not computable' verdict (see next row)
  (7, "panic(err)"),  -- env: unreachable from network input without RecyclePaths() (strict path decoding; the four registered path types are the four spao serialises) - pinned: Props/C05Tail C08T_pin_no_recycle_paths
  (6, "authenticated = subtle.ConstantTimeCompare(scion.PacketAuthOptMAC(authOpt), c.Auth.mac) != 0"),  -- ClientNtp.AuthOpt.macOk: option MAC (ScionSrv.authMAC: bytes 12..28) equals the computed one (oracle input)
  (6, "if !authenticated"),  -- ClientNtp.classifySCIONWith: if !a.macOk
  (7, "err = errInvalidPacketAuthenticator"),  -- ClientNtp.classifySCIONWith: .skip .auth (C05_scion_invalid_authenticator_never_accepted)
  (7, "if numRetries != maxNumRetries && deadlineIsSet && timebase.Now().Before(deadline)"),  -- ClientNtp.runLoop: | .skip e => mayRetry r deadlineSet b
  (8, "numRetries++"),  -- ClientNtp.runLoop: r + 1
  (8, "continue"),  -- ClientNtp.runLoop: recursive call on rest
  (7, "return time.Time{}, 0, err"),  -- ClientNtp.runLoop: else .error e (n + 1), e = .auth
  (2, "var ntpresp ntp.Packet"),  -- env: variable declaration, fresh per iteration (ClientNtp.Payload.pkt : NtpPkt)
  (2, "err = ntp.DecodePacket(&ntpresp, udpLayer.Payload)"),  -- NtpPacket.decodePacket on the UDP payload: size error below 48, else 48 header bytes; ClientNtp.ntpStage: p.len < 48, Payload.pkt
  (2, "if err != nil"),  -- ClientNtp.ntpStage: if p.len < 48 then .skip .size
  (3, "if numRetries != maxNumRetries && deadlineIsSet && timebase.Now().Before(deadline)"),  -- ClientNtp.runLoop: | .skip e => mayRetry
  (4, "numRetries++"),  -- ClientNtp.runLoop: r + 1
  (4, "continue"),  -- ClientNtp.runLoop: recursive call on rest
  (3, "return time.Time{}, 0, err"),  -- ClientNtp.runLoop: else .error e (n + 1), e = .size
  (2, "ntsAuthenticated := false"),  -- env: variable used by the dropped log statement only
  (2, "var ntsresp nts.Packet"),  -- pin C11_pin_recvLoopPacketScope (x_c11.go: ntsRespPacketScopeSCION = loop): fresh packet per datagram, as NtsPool.response
  (2, "if c.Auth.NTSEnabled"),  -- ClientNtp.ntpStage: cfg.nts && ...; NtsPool.recvLoop: NTS stage of the iteration
  (3, "err = nts.DecodePacket(&ntsresp, udpLayer.Payload)"),  -- Nts.decodePacket in NtsPool.response; ClientNtp.Payload.ntsDecodeOk (oracle verdict); harness c03 op cl.exch tr=scion
  (3, "if err != nil"),  -- ClientNtp.ntpStage: cfg.nts && !p.ntsDecodeOk => .skip .ntsDecode; NtsPool.response: | .err e => (st, .err e)
  (4, "if numRetries != maxNumRetries && deadlineIsSet && timebase.Now().Before(deadline)"),  -- ClientNtp.runLoop: | .skip e => mayRetry; NtsPool.recvLoop: | (st', .err _) => recvLoop A n st' rest (budget)
  (5, "numRetries++"),  -- ClientNtp.runLoop: r + 1; NtsPool.recvLoop: budget n + 1 -> n
  (5, "continue"),  -- ClientNtp.runLoop: recursive call on rest; NtsPool.recvLoop: recursive call
  (4, "return time.Time{}, 0, err"),  -- ClientNtp.runLoop: else .error e (n + 1), e = .ntsDecode; NtsPool.recvLoop: | 0 => (st, .ok false)
  (3, "err = nts.ProcessResponse(udpLayer.Payload, ntskeData.S2cKey, &c.Auth.NTSKEFetcher, &ntsresp, requestID)"),  -- Nts.processResponse + NtsPool.response: pool := cs.foldl storeCookie; ClientNtp.Payload.ntsUidEq / ntsOpenOk (verdicts)
  (3, "if err != nil"),  -- ClientNtp.ntpStage: cfg.nts && !(ntsUidEq && ntsOpenOk) => .skip .ntsProcess; NtsPool.response: | .err e => (st, .err e)
  (4, "if numRetries != maxNumRetries && deadlineIsSet && timebase.Now().Before(deadline)"),  -- ClientNtp.runLoop: | .skip e => mayRetry; NtsPool.recvLoop: | (st', .err _)
  (5, "numRetries++"),  -- ClientNtp.runLoop: r + 1; NtsPool.recvLoop: budget n + 1 -> n
  (5, "continue"),  -- ClientNtp.runLoop: recursive call on rest; NtsPool.recvLoop: recursive call
  (4, "return time.Time{}, 0, err"),  -- ClientNtp.runLoop: else .error e (n + 1), e = .ntsProcess
  (3, "ntsAuthenticated = true"),  -- env: variable used by the dropped log statement only; NtsPool.recvLoop: .ok true
  (2, "interleavedResp := false"),  -- ClientNtp.ntpStage: let il := ... (false unless both conjuncts)
  (2, "if interleavedReq && ntpresp.OriginTime == ntpreq.ReceiveTime"),  -- ClientNtp.ntpStage: il := req.interleaved && p.pkt.origin == req.rx (C05_interleaved_tuple_only_for_interleaved_request)
  (3, "interleavedResp = true"),  -- ClientNtp.ntpStage: il = true (Accepted.il)
  (2, "else if ntpresp.OriginTime != ntpreq.TransmitTime"),  -- ClientNtp.ntpStage: if !il && p.pkt.origin != req.tx
  (3, "err = errUnexpectedPacket"),  -- ClientNtp.ntpStage: .skip .unexpected
  (3, "if numRetries != maxNumRetries && deadlineIsSet && timebase.Now().Before(deadline)"),  -- ClientNtp.runLoop: | .skip e => mayRetry r deadlineSet b
  (4, "numRetries++"),  -- ClientNtp.runLoop: r + 1
  (4, "continue"),  -- ClientNtp.runLoop: recursion; PARTIAL: NtsPool.recvLoop ends at the 1st authenticated dgram, no 2nd StoreCookie round
  (3, "return time.Time{}, 0, err"),  -- ClientNtp.runLoop: else .error e (n + 1), e = .unexpected
  (2, "err = ntp.ValidateResponseMetadata(&ntpresp)"),  -- NtpMath.validMetadata: LI != 3, version 3|4, mode 4, stratum 1..15 (pins C05_pin_modeServer, C05_pin_leapUnknown)
  (2, "if err != nil"),  -- ClientNtp.ntpStage: else if !validMetadata p.pkt.lvm p.pkt.stratum
  (3, "return time.Time{}, 0, err"),  -- ClientNtp.ntpStage: .fatal .response; runLoop: | .fatal e => .error e (n + 1), no retry
  (2, "dscp := scionLayer.TrafficClass >> 2"),  -- env: value read by the dropped log statement only (response traffic class)
  (2, "sRxTime := ntp.TimeFromTime64(ntpresp.ReceiveTime, cTxTime0)"),  -- ClientNtp.ntpStage: sRx := toTime p.pkt.rx req.cTx0 (Time64.toTime)
  (2, "sTxTime := ntp.TimeFromTime64(ntpresp.TransmitTime, cTxTime0)"),  -- ClientNtp.ntpStage: sTx := toTime p.pkt.tx req.cTx0
  (2, "var t0, t1, t2, t3 time.Time"),  -- env: variable declaration
  (2, "if interleavedResp"),  -- ClientNtp.ntpStage: if il (in each of t0, t1, t3)
  (3, "t0 = ntp.TimeFromTime64(c.prev.cTxTime, cTxTime0)"),  -- ClientNtp.ntpStage: t0 := toTime prev.cTx req.cTx0
  (3, "t1 = ntp.TimeFromTime64(c.prev.sRxTime, cTxTime0)"),  -- ClientNtp.ntpStage: t1 := toTime prev.sRx req.cTx0
  (3, "t2 = sTxTime"),  -- ClientNtp.ntpStage: t2 := sTx
  (3, "t3 = ntp.TimeFromTime64(c.prev.cRxTime, cTxTime0)"),  -- ClientNtp.ntpStage: t3 := toTime prev.cRx req.cTx0
  (2, "else"),  -- ClientNtp.ntpStage: else (in each of t0, t1, t3)
  (3, "t0 = cTxTime1"),  -- ClientNtp.ntpStage: t0 := cTx1
  (3, "t1 = sRxTime"),  -- ClientNtp.ntpStage: t1 := sRx
  (3, "t2 = sTxTime"),  -- ClientNtp.ntpStage: t2 := sTx
  (3, "t3 = cRxTime"),  -- ClientNtp.ntpStage: t3 := cRx (= scionRxTime d cTx1 cRx for the SCION client)
  (2, "err = ntp.ValidateResponseTimestamps(t0, t1, t2, t3)"),  -- NtpMath.validateTimestamps: sub64 t3 t0 < 0 => .panic, sub64 t2 t1 < 0 => .errResponse, else .ok
  (2, "if err != nil"),  -- ClientNtp.ntpStage: match validateTimestamps: | .errResponse (| .panic => Step.panic; runLoop .panic (n + 1))
  (3, "return time.Time{}, 0, err"),  -- ClientNtp.ntpStage: .fatal .response; runLoop: | .fatal e => .error e (n + 1)
  (2, "off := ntp.ClockOffset(t0, t1, t2, t3)"),  -- ClientNtp.Accepted.offset: clockOffset64 t0 t1 t2 t3 (NtpMath.clockOffset64)
  (2, "rtd := ntp.RoundTripDelay(t0, t1, t2, t3)"),  -- ClientNtp.Accepted.rtd: roundTripDelay64 t0 t1 t2 t3 (NtpMath.roundTripDelay64; feeds only log and histogram)
  (2, "if interleavedResp"),  -- env: metric only (respsAcceptedInterleaved.Inc dropped); no behaviour
  (2, "if c.InterleavedMode"),  -- ClientNtp.updatePrev: if cfg.interleavedMode (else prev)
  (3, "c.prev.reference = reference"),  -- ClientNtp.updatePrev: reference := reference
  (3, "c.prev.path = snet.Fingerprint(path).String()"),  -- UNMODELLED: prev.path := fingerprint of the path used; not in ClientNtp.Prev; nothing derives Multipath.Client.prevPath from it
  (3, "c.prev.interleaved = interleavedResp"),  -- ClientNtp.updatePrev: interleaved := a.il
  (3, "c.prev.cTxTime = ntp.Time64FromTime(cTxTime1)"),  -- ClientNtp.updatePrev: cTx := ofTime cTx1
  (3, "c.prev.cRxTime = ntp.Time64FromTime(cRxTime)"),  -- ClientNtp.updatePrev: cRx := ofTime a.cRx
  (3, "c.prev.sRxTime = ntpresp.ReceiveTime"),  -- ClientNtp.updatePrev: sRx := a.sRx64 (= p.pkt.rx)
  (2, "timestamp = cRxTime"),  -- ClientNtp.Accepted.cRx: the receive time that becomes timestamp (Attempt.ok ts); harness c03 op cli.exch
  (2, "if c.Filter == nil"),  -- ClientNtp.returnedOffset: match filter | none
  (3, "offset = off"),  -- ClientNtp.returnedOffset: a.offset
  (2, "else"),  -- ClientNtp.returnedOffset: | some f
  (3, "offset = c.Filter.Do(t0, t1, t2, t3)"),  -- ClientNtp.returnedOffset: f a.t0 a.t1 a.t2 a.t3; f = Filters.luckyDo / Filters.ntimedDo (filter state advances)
  (2, "if c.Histogram != nil"),  -- ClientTail.tail: `match hist` (Histogram != nil) behind the prev update and Filter.Do; Props/C05Tail C05T_pin_tail_order
  (3, "err := c.Histogram.RecordValue(rtd.Microseconds())"),  -- env: hdrhistogram library call (observability; only benchmark tools set it); its error is no model input, see next rows
  (3, "if err != nil"),  -- ClientTail.Hist.recordOk: RecordValue(rtd.Microseconds()) == nil iff 0 <= us < limit (harness c03 cli.hist on the real library)
  (4, "return time.Time{}, 0, err"),  -- ClientTail.tail: Result.errHist with prev' and the absorbed sample (error AFTER the commit); C05T_never_offset_otherwise_scion restates the invariant
  (2, "break"),  -- ClientNtp.runLoop: | .accept a => .accepted a (n + 1) (loop ends, nothing further is read)
  (1, "return timestamp, offset, nil")  -- ClientNtp.exchangeSCION: (.accepted a _, updatePrev ...); enters Multipath.round as succ[i] = some off, attemptLoop outs[j] = true
  ]

/-- core/client, MeasureClockOffsetIP -/
def Client.MeasureClockOffsetIP : List Row := [
  (0, "func MeasureClockOffsetIP(ctx context.Context, log *slog.Logger, ntpc *IPClient, localAddr, remoteAddr *net.UDPAddr) ( ts time.Time, off time.Duration, err error)"),  -- ClientNtp.wrapIP: the up-to-3-attempts wrapper (C05_wrapper_ip_sound); harness c03 op cli.wrap
  (1, "mtrcs := ipMetrics.Load()"),  -- env: metrics handle (counters dropped from the skeleton)
  (1, "var nerr, n int"),  -- ClientNtp.wrapIP: WrapState 0 0 none 0 (zero named results ts, off, err; nerr = 0); n = length of attempts.take ...
  (1, "if ntpc.InterleavedMode"),  -- ClientNtp.wrapIP: if interleavedMode
  (2, "n = 3"),  -- ClientNtp.wrapIP: attempts.take 3
  (1, "else"),  -- ClientNtp.wrapIP: else
  (2, "n = 1"),  -- ClientNtp.wrapIP: attempts.take 1
  (1, "for i := range n"),  -- ClientNtp.wrapLoop: recursion over the attempts actually made, i = loop index
  (2, "t, o, e := ntpc.measureClockOffsetIP(ctx, mtrcs, localAddr, remoteAddr)"),  -- ClientNtp.Attempt: result of one call (input of wrapLoop; one call = ClientNtp.entry then ClientNtp.exchangeIP)
  (2, "if e == nil"),  -- ClientNtp.wrapLoop: | .ok t o inIL :: rest
  (3, "ts, off, err = t, o, e"),  -- ClientNtp.wrapLoop: s' := { s with ts := t, off := o, err := none }
  (3, "if ntpc.InInterleavedMode()"),  -- ClientNtp.inInterleavedMode: interleavedMode && prev.reference != "" && prev.interleaved; enters wrapLoop as Attempt.ok inIL
  (4, "break"),  -- ClientNtp.wrapLoop: if inIL then s' (no further attempt)
  (2, "else"),  -- ClientNtp.wrapLoop: | .err e :: rest
  (3, "if nerr == i"),  -- ClientNtp.wrapLoop: if s.nerr = i (only while every attempt so far failed)
  (4, "err = e"),  -- ClientNtp.wrapLoop: err := some e
  (3, "nerr++"),  -- ClientNtp.wrapLoop: nerr := s.nerr + 1
  (1, "return")  -- ClientNtp.wrapLoop: | _, s, [] => s (named results returned)
  ]

/-- core/client, MeasureClockOffsetSCION -/
def Client.MeasureClockOffsetSCION : List Row := [
  (0, "func MeasureClockOffsetSCION(ctx context.Context, log *slog.Logger, ntpcs []*SCIONClient, localAddr, remoteAddr udp.UDPAddr, ps []snet.Path) ( time.Time, time.Duration, error)"),  -- Multipath.round (f11fixed = f12fixed = true) / roundP / roundAt: the whole function; harness c15 ops mp.round, pa.round
  (1, "mtrcs := scionMetrics.Load()"),  -- env: metrics handle (counters dropped from the skeleton)
  (1, "sps := make([]snet.Path, len(ntpcs))"),  -- Multipath.stickyLoop: result list, one Option Path per client (none = nil)
  (1, "nsps := 0"),  -- Multipath.countSome: nsps (number of some entries)
  (1, "for i, c := range ntpcs"),  -- Multipath.stickyLoop: recursion over the clients, candidates threaded through
  (2, "if c.InInterleavedMode()"),  -- Multipath.wantsSticky true c = c.inInterleavedMode (pin C15_pin_round stickyGuard, x_c15.go; false = code before F11: pf != "")
  (3, "pf := c.InterleavedModePath()"),  -- Multipath.Client.ipath: prevPath when in interleaved mode, else ""
  (3, "for j := range len(ps)"),  -- Multipath.stickyStep: ps.findIdx? over the remaining candidates
  (4, "if p := ps[j]; snet.Fingerprint(p).String() == pf"),  -- Multipath.stickyStep: fun p => p.2 == c.ipath (fingerprints compared as strings)
  (5, "ps[j] = ps[len(ps)-1]"),  -- Multipath.swapRemove: ps.set j last (in place: Multipath.stickyLoopTail / arrayAfter say what stays in the caller's array)
  (5, "ps = ps[:len(ps)-1]"),  -- Multipath.swapRemove: dropLast
  (5, "sps[i] = p"),  -- Multipath.stickyStep: (some p, swapRemove ps j)
  (5, "nsps++"),  -- Multipath.countSome: one more some entry
  (5, "break"),  -- Multipath.stickyStep: findIdx? = first match only (C15_sticky_kept)
  (2, "if sps[i] == nil"),  -- Multipath.assignFrom: reset := st.1.map Option.isNone
  (3, "c.ResetInterleavedMode()"),  -- Multipath.assignFrom: reset flag (set before any error return); the write: MainCfg.SCIONClient.resetInterleavedMode
  (3, "if c.Filter != nil"),  -- Multipath.assignFrom: reset flag stands for ResetInterleavedMode + Filter.Reset together (RoundOut.reset doc); nil filter: no flag
  (4, "c.Filter.Reset()"),  -- Filters.luckyReset / Filters.ntimedReset: the reset itself; Multipath reports the flag only; c15 oracle C15:sticky:not-reset
  (1, "n, err := crypto.Sample(ctx, len(sps)-nsps, len(ps), func(dst, src int) {…})"),  -- Multipath.assignFrom: sample (st.1.length - nsps) st.2.length cancelled s (Sample.sample; pin C15_pin_round sampleArgs)
  (2, "func literal 1"),  -- Sample.sample: the pick(dst, src) calls, returned as the list picks
  (3, "ps[dst] = ps[src]"),  -- Sample.applyPicks: l.set d l[s] (in place; Multipath.arrayAfter for the caller's array)
  (1, "if err != nil"),  -- Multipath.assignFrom: | .err e
  (2, "return time.Time{}, 0, err"),  -- Multipath.assignFrom: (.errSample e, reset); round: RoundRes.errSample (clients already reset)
  (1, "if nsps+n == 0"),  -- Multipath.assignFrom: if nsps + n = 0
  (2, "return time.Time{}, 0, errNoPath"),  -- Multipath.assignFrom: (.errNoPath rest, reset); round: RoundRes.errNoPath (C15_no_path_error, C15_no_client_error)
  (1, "for i, j := 0, 0; j != n; j++"),  -- Multipath.fill: over sps with the n sampled paths (applyPicks st.2 picks).take n
  (2, "for sps[i] != nil"),  -- Multipath.fill: | some p :: sps, qs => some p :: fill sps qs (skip clients that have a path)
  (3, "i++"),  -- Multipath.fill: next list position
  (2, "sps[i] = ps[j]"),  -- Multipath.fill: | none :: sps, q :: qs => some q :: fill sps qs
  (2, "nsps++"),  -- Multipath.countSome of the filled list = number of participants (C15_participants)
  (1, "ms := make([]measurements.Measurement, nsps)"),  -- Multipath.values: one slot per participant, zero measurement until a success is stored (r.getD 0)
  (1, "msc := make(chan measurements.Measurement)"),  -- env: unbuffered result channel (Collect.St.sending models such a channel for MeasureClockOffsets)
  (1, "for i := range len(ntpcs)"),  -- Multipath.round: (cs.zip sps).map, one entry per client
  (2, "if sps[i] == nil"),  -- Multipath.round: if p.isSome ... else 0 (probes); Multipath.values: filterMap keeps participants only
  (3, "continue"),  -- Multipath.round: probes = 0, no value for a client without a path (oracle C15:round:probes)
  (2, "go func(ctx context.Context, log *slog.Logger, mtrcs *scionClientMetrics, ntpc *SCIONClient, localAddr, remoteAddr udp.UDPAddr, p snet.Path) {…}(ctx, log, mtrcs, ntpcs[i], localAddr, udp.UDPAddr{IA: remoteAddr.IA, Host: snet.CopyUDPAddr(remoteAddr.Host)}, sps[i])"),  -- Multipath.round: one goroutine per participant = its outcome succ[i]; PARTIAL: CopyUDPAddr (race repair) seen only by c15 -race
  (3, "func literal 1"),  -- Multipath.attemptLoop: body of the per-path goroutine (own client object per goroutine: C03Refclk_clients_distinct)
  (4, "var err error"),  -- Multipath.attemptLoopGo: state err : Option Nat, initially none (nil)
  (4, "var ts time.Time"),  -- Multipath.attemptLoopGo: state val : Option Nat, initially none (zero timestamp)
  (4, "var off time.Duration"),  -- Multipath.attemptLoopGo: state val, initially none (zero offset; Multipath.values: r.getD 0)
  (4, "var nerr, n int"),  -- Multipath.attemptLoopGo: state nerr = 0; n = length of outs
  (4, "if ntpc.InterleavedMode"),  -- Multipath.round: probes, if c.mode
  (5, "n = 3"),  -- Multipath.round: probes = 3 (attemptLoop over three outcomes: C15_attempt_loop_three_complete)
  (4, "else"),  -- Multipath.round: probes, else
  (5, "n = 1"),  -- Multipath.round: probes = 1
  (4, "for j := range n"),  -- Multipath.attemptLoopGo: recursion over outs, j = loop index
  (5, "t, o, e := ntpc.measureClockOffsetSCION(ctx, mtrcs, localAddr, remoteAddr, p)"),  -- ClientNtp.exchangeSCION (after ClientNtp.entry): one call; its outcome is outs[j] of Multipath.attemptLoop (ClientNtp.Attempt)
  (5, "if e == nil"),  -- Multipath.attemptLoopGo: | true :: rest
  (6, "ts, off, err = t, o, e"),  -- Multipath.attemptLoopGo: err := none, val := some j (C15_attempt_loop_reports_iff_any_success)
  (6, "if ntpc.InInterleavedMode()"),  -- ClientNtp.inInterleavedMode: interleavedMode && prev.reference != "" && prev.interleaved (condition only, see next row)
  (7, "break"),  -- ClientFlow.wrapLoopCtx: `if inIL then (s', 1)` (both attempt loops); count: Props/C05Tail C15T_exchanges_per_round; Multipath.round's probes is an upper bound only
  (5, "else"),  -- Multipath.attemptLoopGo: | false :: rest
  (6, "if nerr == j"),  -- Multipath.attemptLoopGo: if nerr == j (only while every attempt so far failed)
  (7, "err = e"),  -- Multipath.attemptLoopGo: err := some j (attemptLoopLastErr = seeded variant, C15_attempt_loop_last_error_refuted)
  (6, "nerr++"),  -- Multipath.attemptLoopGo: nerr + 1
  (4, "msc <- measurements.Measurement{ Timestamp: ts, Offset: off, Error: err}"),  -- Multipath.round: succ[i] (some off iff attemptLoop reports nil error); the send: Collect.Choice.finish (blocked in msc <- m)
  (1, "n = collectMeasurements(ctx, ms, msc)"),  -- Multipath.successes sps succ: all participants report; PARTIAL: return on ctx expiry (Collect, Props C16) not composed here
  (1, "if n == 0"),  -- Multipath.round: if f12fixed && successes sps succ == 0
  (2, "return time.Time{}, 0, errNoMeasurement"),  -- Multipath.round: RoundRes.errNoMeasurement (repair of F12; C15_F12_old_counterexample)
  (1, "m := measurements.FaultTolerantMidpoint(ms)"),  -- Multipath.round: ftm (values sps succ), ftm a parameter (Measurements.ftm is C02's; pin C15_pin_round ftm); C15_result_is_ftm
  (1, "return m.Timestamp, m.Offset, m.Error")  -- Multipath.round: RoundRes.ok off; PARTIAL: Timestamp / Error of the midpoint only in Measurements.ftmSel, not compared
  ]

end ScionTime.Model.Skel
