/-
  Control skeletons of core/client as the models were written against them
  (notes/SKEL.md).  Each row: (depth, canonical text) as rendered by harness/extract/skeleton.go,
  followed by the model definition / branch that mirrors the statement.  Regenerated rows:
  Gen/SkelC03.lean; pins: Props/SkelC03.lean.  Core Lean only.
-/
import ScionTime.Model.Skel.Basic

namespace ScionTime.Model.Skel

/-- core/client, IPClient.measureClockOffsetIP -/
def Client.IPClient_measureClockOffsetIP : List Row := [
  (0, "func (c *IPClient) measureClockOffsetIP(ctx context.Context, mtrcs *ipClientMetrics, localAddr, remoteAddr *net.UDPAddr) ( timestamp time.Time, offset time.Duration, err error)"),  -- ?
  (1, "laddr, ok := netip.AddrFromSlice(localAddr.IP)"),  -- ?
  (1, "if !ok"),  -- ?
  (2, "return time.Time{}, 0, errUnexpectedAddrType"),  -- ?
  (1, "var lc net.ListenConfig"),  -- ?
  (1, "pconn, err := lc.ListenPacket(ctx, \"udp\", netip.AddrPortFrom(laddr, 0).String())"),  -- ?
  (1, "if err != nil"),  -- ?
  (2, "return time.Time{}, 0, err"),  -- ?
  (1, "conn := pconn.(*net.UDPConn)"),  -- ?
  (1, "defer conn.Close()"),  -- ?
  (1, "deadline, deadlineIsSet := ctx.Deadline()"),  -- ?
  (1, "if deadlineIsSet"),  -- ?
  (2, "err = conn.SetDeadline(deadline)"),  -- ?
  (2, "if err != nil"),  -- ?
  (3, "return time.Time{}, 0, err"),  -- ?
  (1, "err = udp.EnableTimestamping(conn, localAddr.Zone)"),  -- ?
  (1, "if err != nil"),  -- ?
  (1, "err = udp.SetDSCP(conn, c.DSCP)"),  -- ?
  (1, "if err != nil"),  -- ?
  (1, "var ntskeData ntske.Data"),  -- ?
  (1, "if c.Auth.Enabled"),  -- ?
  (2, "ntskeData, err = c.Auth.NTSKEFetcher.FetchData(ctx)"),  -- ?
  (2, "if err != nil"),  -- ?
  (3, "return time.Time{}, 0, err"),  -- ?
  (2, "remoteAddr.IP = net.ParseIP(ntskeData.Server)"),  -- ?
  (2, "remoteAddr.Port = int(ntskeData.Port)"),  -- ?
  (1, "ip4 := remoteAddr.IP.To4()"),  -- ?
  (1, "if ip4 != nil"),  -- ?
  (2, "remoteAddr.IP = ip4"),  -- ?
  (1, "buf := make([]byte, ntp.PacketLen)"),  -- ?
  (1, "reference := remoteAddr.String()"),  -- ?
  (1, "cTxTime0 := timebase.Now()"),  -- ?
  (1, "interleavedReq := false"),  -- ?
  (1, "ntpreq := ntp.Packet{}"),  -- ?
  (1, "ntpreq.SetVersion(ntp.VersionMax)"),  -- ?
  (1, "ntpreq.SetMode(ntp.ModeClient)"),  -- ?
  (1, "if c.InterleavedMode && reference == c.prev.reference && cTxTime0.Sub(ntp.TimeFromTime64(c.prev.cTxTime, cTxTime0)) <= 3*time.Second"),  -- ?
  (2, "interleavedReq = true"),  -- ?
  (2, "ntpreq.OriginTime = c.prev.sRxTime"),  -- ?
  (2, "ntpreq.ReceiveTime = c.prev.cRxTime"),  -- ?
  (2, "ntpreq.TransmitTime = c.prev.cTxTime"),  -- ?
  (1, "else"),  -- ?
  (2, "ntpreq.TransmitTime = ntp.Time64FromTime(cTxTime0)"),  -- ?
  (1, "ntp.EncodePacket(&buf, &ntpreq)"),  -- ?
  (1, "var requestID []byte"),  -- ?
  (1, "var ntsreq nts.Packet"),  -- ?
  (1, "if c.Auth.Enabled"),  -- ?
  (2, "ntsreq, requestID = nts.NewRequestPacket(ntskeData)"),  -- ?
  (2, "nts.EncodePacket(&buf, &ntsreq)"),  -- ?
  (1, "n, err := conn.WriteToUDPAddrPort(buf, remoteAddr.AddrPort())"),  -- ?
  (1, "if err != nil"),  -- ?
  (2, "return time.Time{}, 0, err"),  -- ?
  (1, "if n != len(buf)"),  -- ?
  (2, "return time.Time{}, 0, errWrite"),  -- ?
  (1, "cTxTime1, id, err := udp.ReadTXTimestamp(conn)"),  -- ?
  (1, "if err != nil || id != 0"),  -- ?
  (2, "cTxTime1 = timebase.Now()"),  -- ?
  (1, "if interleavedReq"),  -- ?
  (1, "const maxNumRetries = 1"),  -- ?
  (1, "numRetries := 0"),  -- ?
  (1, "oob := make([]byte, udp.TimestampLen())"),  -- ?
  (1, "for"),  -- ?
  (2, "buf = buf[:cap(buf)]"),  -- ?
  (2, "oob = oob[:cap(oob)]"),  -- ?
  (2, "n, oobn, flags, srcAddr, err := conn.ReadMsgUDPAddrPort(buf, oob)"),  -- ?
  (2, "if err != nil"),  -- ?
  (3, "if numRetries != maxNumRetries && deadlineIsSet && timebase.Now().Before(deadline)"),  -- ?
  (4, "numRetries++"),  -- ?
  (4, "continue"),  -- ?
  (3, "return time.Time{}, 0, err"),  -- ?
  (2, "if flags != 0"),  -- ?
  (3, "err = errUnexpectedPacketFlags"),  -- ?
  (3, "if numRetries != maxNumRetries && deadlineIsSet && timebase.Now().Before(deadline)"),  -- ?
  (4, "numRetries++"),  -- ?
  (4, "continue"),  -- ?
  (3, "return time.Time{}, 0, err"),  -- ?
  (2, "oob = oob[:oobn]"),  -- ?
  (2, "cRxTime, err := udp.TimestampFromOOBData(oob)"),  -- ?
  (2, "if err != nil"),  -- ?
  (3, "cRxTime = timebase.Now()"),  -- ?
  (2, "buf = buf[:n]"),  -- ?
  (2, "if compareAddrs(srcAddr.Addr(), remoteAddr.AddrPort().Addr()) != 0"),  -- ?
  (3, "err = errUnexpectedPacketSource"),  -- ?
  (3, "if numRetries != maxNumRetries && deadlineIsSet && timebase.Now().Before(deadline)"),  -- ?
  (4, "numRetries++"),  -- ?
  (4, "continue"),  -- ?
  (3, "return time.Time{}, 0, err"),  -- ?
  (2, "var ntpresp ntp.Packet"),  -- ?
  (2, "err = ntp.DecodePacket(&ntpresp, buf)"),  -- ?
  (2, "if err != nil"),  -- ?
  (3, "if numRetries != maxNumRetries && deadlineIsSet && timebase.Now().Before(deadline)"),  -- ?
  (4, "numRetries++"),  -- ?
  (4, "continue"),  -- ?
  (3, "return time.Time{}, 0, err"),  -- ?
  (2, "authenticated := false"),  -- ?
  (2, "var ntsresp nts.Packet"),  -- ?
  (2, "if c.Auth.Enabled"),  -- ?
  (3, "err = nts.DecodePacket(&ntsresp, buf)"),  -- ?
  (3, "if err != nil"),  -- ?
  (4, "if numRetries != maxNumRetries && deadlineIsSet && timebase.Now().Before(deadline)"),  -- ?
  (5, "numRetries++"),  -- ?
  (5, "continue"),  -- ?
  (4, "return time.Time{}, 0, err"),  -- ?
  (3, "err = nts.ProcessResponse(buf, ntskeData.S2cKey, &c.Auth.NTSKEFetcher, &ntsresp, requestID)"),  -- ?
  (3, "if err != nil"),  -- ?
  (4, "if numRetries != maxNumRetries && deadlineIsSet && timebase.Now().Before(deadline)"),  -- ?
  (5, "numRetries++"),  -- ?
  (5, "continue"),  -- ?
  (4, "return time.Time{}, 0, err"),  -- ?
  (3, "authenticated = true"),  -- ?
  (2, "interleavedResp := false"),  -- ?
  (2, "if interleavedReq && ntpresp.OriginTime == ntpreq.ReceiveTime"),  -- ?
  (3, "interleavedResp = true"),  -- ?
  (2, "else if ntpresp.OriginTime != ntpreq.TransmitTime"),  -- ?
  (3, "err = errUnexpectedPacket"),  -- ?
  (3, "if numRetries != maxNumRetries && deadlineIsSet && timebase.Now().Before(deadline)"),  -- ?
  (4, "numRetries++"),  -- ?
  (4, "continue"),  -- ?
  (3, "return time.Time{}, 0, err"),  -- ?
  (2, "err = ntp.ValidateResponseMetadata(&ntpresp)"),  -- ?
  (2, "if err != nil"),  -- ?
  (3, "return time.Time{}, 0, err"),  -- ?
  (2, "sRxTime := ntp.TimeFromTime64(ntpresp.ReceiveTime, cTxTime0)"),  -- ?
  (2, "sTxTime := ntp.TimeFromTime64(ntpresp.TransmitTime, cTxTime0)"),  -- ?
  (2, "var t0, t1, t2, t3 time.Time"),  -- ?
  (2, "if interleavedResp"),  -- ?
  (3, "t0 = ntp.TimeFromTime64(c.prev.cTxTime, cTxTime0)"),  -- ?
  (3, "t1 = ntp.TimeFromTime64(c.prev.sRxTime, cTxTime0)"),  -- ?
  (3, "t2 = sTxTime"),  -- ?
  (3, "t3 = ntp.TimeFromTime64(c.prev.cRxTime, cTxTime0)"),  -- ?
  (2, "else"),  -- ?
  (3, "t0 = cTxTime1"),  -- ?
  (3, "t1 = sRxTime"),  -- ?
  (3, "t2 = sTxTime"),  -- ?
  (3, "t3 = cRxTime"),  -- ?
  (2, "err = ntp.ValidateResponseTimestamps(t0, t1, t2, t3)"),  -- ?
  (2, "if err != nil"),  -- ?
  (3, "return time.Time{}, 0, err"),  -- ?
  (2, "off := ntp.ClockOffset(t0, t1, t2, t3)"),  -- ?
  (2, "rtd := ntp.RoundTripDelay(t0, t1, t2, t3)"),  -- ?
  (2, "if interleavedResp"),  -- ?
  (2, "if c.InterleavedMode"),  -- ?
  (3, "c.prev.reference = reference"),  -- ?
  (3, "c.prev.interleaved = interleavedResp"),  -- ?
  (3, "c.prev.cTxTime = ntp.Time64FromTime(cTxTime1)"),  -- ?
  (3, "c.prev.cRxTime = ntp.Time64FromTime(cRxTime)"),  -- ?
  (3, "c.prev.sRxTime = ntpresp.ReceiveTime"),  -- ?
  (2, "timestamp = cRxTime"),  -- ?
  (2, "if c.Filter == nil"),  -- ?
  (3, "offset = off"),  -- ?
  (2, "else"),  -- ?
  (3, "offset = c.Filter.Do(t0, t1, t2, t3)"),  -- ?
  (2, "if c.Histogram != nil"),  -- ?
  (3, "err := c.Histogram.RecordValue(rtd.Microseconds())"),  -- ?
  (3, "if err != nil"),  -- ?
  (4, "return time.Time{}, 0, err"),  -- ?
  (2, "break"),  -- ?
  (1, "return timestamp, offset, nil")  -- ?
  ]

/-- core/client, SCIONClient.measureClockOffsetSCION -/
def Client.SCIONClient_measureClockOffsetSCION : List Row := [
  (0, "func (c *SCIONClient) measureClockOffsetSCION(ctx context.Context, mtrcs *scionClientMetrics, localAddr, remoteAddr udp.UDPAddr, path snet.Path) ( timestamp time.Time, offset time.Duration, err error)"),  -- ?
  (1, "if c.Auth.Enabled && c.Auth.opt == nil"),  -- ?
  (2, "c.Auth.opt = &slayers.EndToEndOption{}"),  -- ?
  (2, "c.Auth.opt.OptData = make([]byte, scion.PacketAuthOptDataLen)"),  -- ?
  (2, "c.Auth.buf = make([]byte, spao.MACBufferSize)"),  -- ?
  (2, "c.Auth.mac = make([]byte, scion.PacketAuthMACLen)"),  -- ?
  (1, "var authKey []byte"),  -- ?
  (1, "laddr, ok := netip.AddrFromSlice(localAddr.Host.IP)"),  -- ?
  (1, "if !ok"),  -- ?
  (2, "return time.Time{}, 0, errUnexpectedAddrType"),  -- ?
  (1, "var lc net.ListenConfig"),  -- ?
  (1, "pconn, err := lc.ListenPacket(ctx, \"udp\", netip.AddrPortFrom(laddr, 0).String())"),  -- ?
  (1, "if err != nil"),  -- ?
  (2, "return time.Time{}, 0, err"),  -- ?
  (1, "conn := pconn.(*net.UDPConn)"),  -- ?
  (1, "defer conn.Close()"),  -- ?
  (1, "deadline, deadlineIsSet := ctx.Deadline()"),  -- ?
  (1, "if deadlineIsSet"),  -- ?
  (2, "err = conn.SetDeadline(deadline)"),  -- ?
  (2, "if err != nil"),  -- ?
  (3, "return time.Time{}, 0, err"),  -- ?
  (1, "err = udp.EnableTimestamping(conn, localAddr.Host.Zone)"),  -- ?
  (1, "if err != nil"),  -- ?
  (1, "err = udp.SetDSCP(conn, c.DSCP)"),  -- ?
  (1, "if err != nil"),  -- ?
  (1, "localPort := conn.LocalAddr().(*net.UDPAddr).Port"),  -- ?
  (1, "var ntskeData ntske.Data"),  -- ?
  (1, "if c.Auth.NTSEnabled"),  -- ?
  (2, "ntskeData, err = c.Auth.NTSKEFetcher.FetchData(ctx)"),  -- ?
  (2, "if err != nil"),  -- ?
  (3, "return time.Time{}, 0, err"),  -- ?
  (2, "remoteAddr.Host.IP = net.ParseIP(ntskeData.Server)"),  -- ?
  (2, "if remoteAddr.Host.IP == nil"),  -- ?
  (3, "return time.Time{}, 0, errUnexpectedAddrType"),  -- ?
  (2, "remoteAddr.Host.Port = int(ntskeData.Port)"),  -- ?
  (2, "if remoteAddr.IA == localAddr.IA"),  -- ?
  (3, "path = spath.Path{ Src: localAddr.IA, Dst: remoteAddr.IA, DataplanePath: spath.Empty{}, NextHop: remoteAddr.Host}"),  -- ?
  (1, "ip4 := remoteAddr.Host.IP.To4()"),  -- ?
  (1, "if ip4 != nil"),  -- ?
  (2, "remoteAddr.Host.IP = ip4"),  -- ?
  (1, "nextHop := path.UnderlayNextHop().AddrPort()"),  -- ?
  (1, "nextHopAddr := nextHop.Addr()"),  -- ?
  (1, "if nextHopAddr.Is4In6()"),  -- ?
  (2, "nextHop = netip.AddrPortFrom( netip.AddrFrom4(nextHopAddr.As4()), nextHop.Port())"),  -- ?
  (1, "buf := make([]byte, scion.MTU)"),  -- ?
  (1, "reference := remoteAddr.IA.String() + \",\" + remoteAddr.Host.String()"),  -- ?
  (1, "cTxTime0 := timebase.Now()"),  -- ?
  (1, "interleavedReq := false"),  -- ?
  (1, "ntpreq := ntp.Packet{}"),  -- ?
  (1, "ntpreq.SetVersion(ntp.VersionMax)"),  -- ?
  (1, "ntpreq.SetMode(ntp.ModeClient)"),  -- ?
  (1, "if c.InterleavedMode && reference == c.prev.reference && cTxTime0.Sub(ntp.TimeFromTime64(c.prev.cTxTime, cTxTime0)) < 3*time.Second"),  -- ?
  (2, "interleavedReq = true"),  -- ?
  (2, "ntpreq.OriginTime = c.prev.sRxTime"),  -- ?
  (2, "ntpreq.ReceiveTime = c.prev.cRxTime"),  -- ?
  (2, "ntpreq.TransmitTime = c.prev.cTxTime"),  -- ?
  (1, "else"),  -- ?
  (2, "ntpreq.TransmitTime = ntp.Time64FromTime(cTxTime0)"),  -- ?
  (1, "ntp.EncodePacket(&buf, &ntpreq)"),  -- ?
  (1, "var requestID []byte"),  -- ?
  (1, "var ntsreq nts.Packet"),  -- ?
  (1, "if c.Auth.NTSEnabled"),  -- ?
  (2, "ntsreq, requestID = nts.NewRequestPacket(ntskeData)"),  -- ?
  (2, "nts.EncodePacket(&buf, &ntsreq)"),  -- ?
  (1, "var scionLayer slayers.SCION"),  -- ?
  (1, "scionLayer.TrafficClass = c.DSCP << 2"),  -- ?
  (1, "scionLayer.SrcIA = localAddr.IA"),  -- ?
  (1, "srcAddrIP, ok := netip.AddrFromSlice(localAddr.Host.IP)"),  -- ?
  (1, "if !ok"),  -- ?
  (2, "panic(errUnexpectedAddrType)"),  -- ?
  (1, "err = scionLayer.SetSrcAddr(addr.HostIP(srcAddrIP.Unmap()))"),  -- ?
  (1, "if err != nil"),  -- ?
  (2, "panic(err)"),  -- ?
  (1, "scionLayer.DstIA = remoteAddr.IA"),  -- ?
  (1, "dstAddrIP, ok := netip.AddrFromSlice(remoteAddr.Host.IP)"),  -- ?
  (1, "if !ok"),  -- ?
  (2, "panic(errUnexpectedAddrType)"),  -- ?
  (1, "err = scionLayer.SetDstAddr(addr.HostIP(dstAddrIP.Unmap()))"),  -- ?
  (1, "if err != nil"),  -- ?
  (2, "panic(err)"),  -- ?
  (1, "err = path.Dataplane().SetPath(&scionLayer)"),  -- ?
  (1, "if err != nil"),  -- ?
  (2, "panic(err)"),  -- ?
  (1, "scionLayer.NextHdr = slayers.L4UDP"),  -- ?
  (1, "var udpLayer slayers.UDP"),  -- ?
  (1, "udpLayer.SrcPort = uint16(localPort)"),  -- ?
  (1, "udpLayer.DstPort = uint16(remoteAddr.Host.Port)"),  -- ?
  (1, "udpLayer.SetNetworkLayerForChecksum(&scionLayer)"),  -- ?
  (1, "payload := gopacket.Payload(buf)"),  -- ?
  (1, "buffer := gopacket.NewSerializeBuffer()"),  -- ?
  (1, "options := gopacket.SerializeOptions{ ComputeChecksums: true, FixLengths: true}"),  -- ?
  (1, "err = payload.SerializeTo(buffer, options)"),  -- ?
  (1, "if err != nil"),  -- ?
  (2, "panic(err)"),  -- ?
  (1, "buffer.PushLayer(payload.LayerType())"),  -- ?
  (1, "err = udpLayer.SerializeTo(buffer, options)"),  -- ?
  (1, "if err != nil"),  -- ?
  (2, "panic(err)"),  -- ?
  (1, "buffer.PushLayer(udpLayer.LayerType())"),  -- ?
  (1, "if c.Auth.Enabled"),  -- ?
  (2, "hostHostKey, err := c.Auth.DRKeyFetcher.FetchHostHostKey(ctx, drkey.HostHostMeta{ ProtoId: scion.DRKeyProtocolTS, Validity: cTxTime0, SrcIA: remoteAddr.IA, DstIA: localAddr.IA, SrcHost: remoteAddr.Host.IP.String(), DstHost: localAddr.Host.IP.String()})"),  -- ?
  (2, "if err != nil"),  -- ?
  (2, "else"),  -- ?
  (3, "authKey = hostHostKey.Key[:]"),  -- ?
  (3, "scion.PreparePacketAuthOpt(c.Auth.opt, scion.PacketAuthSPIClient, scion.PacketAuthAlgorithm)"),  -- ?
  (3, "_, err = spao.ComputeAuthCMAC( spao.MACInput{ Key: authKey, Header: slayers.PacketAuthOption{EndToEndOption: c.Auth.opt}, ScionLayer: &scionLayer, PldType: scionLayer.NextHdr, Pld: buffer.Bytes()}, c.Auth.buf, scion.PacketAuthOptMAC(c.Auth.opt))"),  -- ?
  (3, "if err != nil"),  -- ?
  (4, "panic(err)"),  -- ?
  (3, "e2eExtn := slayers.EndToEndExtn{}"),  -- ?
  (3, "e2eExtn.NextHdr = scionLayer.NextHdr"),  -- ?
  (3, "e2eExtn.Options = []*slayers.EndToEndOption{c.Auth.opt}"),  -- ?
  (3, "err = e2eExtn.SerializeTo(buffer, options)"),  -- ?
  (3, "if err != nil"),  -- ?
  (4, "panic(err)"),  -- ?
  (3, "buffer.PushLayer(e2eExtn.LayerType())"),  -- ?
  (3, "scionLayer.NextHdr = slayers.End2EndClass"),  -- ?
  (1, "err = scionLayer.SerializeTo(buffer, options)"),  -- ?
  (1, "if err != nil"),  -- ?
  (2, "panic(err)"),  -- ?
  (1, "buffer.PushLayer(scionLayer.LayerType())"),  -- ?
  (1, "n, err := conn.WriteToUDPAddrPort(buffer.Bytes(), nextHop)"),  -- ?
  (1, "if err != nil"),  -- ?
  (2, "return time.Time{}, 0, err"),  -- ?
  (1, "if n != len(buffer.Bytes())"),  -- ?
  (2, "return time.Time{}, 0, errWrite"),  -- ?
  (1, "cTxTime1, id, err := udp.ReadTXTimestamp(conn)"),  -- ?
  (1, "if err != nil || id != 0"),  -- ?
  (2, "cTxTime1 = timebase.Now()"),  -- ?
  (1, "if interleavedReq"),  -- ?
  (1, "const maxNumRetries = 1"),  -- ?
  (1, "numRetries := 0"),  -- ?
  (1, "oob := make([]byte, udp.TimestampLen())"),  -- ?
  (1, "for"),  -- ?
  (2, "buf = buf[:cap(buf)]"),  -- ?
  (2, "oob = oob[:cap(oob)]"),  -- ?
  (2, "n, oobn, flags, lastHop, err := conn.ReadMsgUDPAddrPort(buf, oob)"),  -- ?
  (2, "if err != nil"),  -- ?
  (3, "if numRetries != maxNumRetries && deadlineIsSet && timebase.Now().Before(deadline)"),  -- ?
  (4, "numRetries++"),  -- ?
  (4, "continue"),  -- ?
  (3, "return time.Time{}, 0, err"),  -- ?
  (2, "if flags != 0"),  -- ?
  (3, "err = errUnexpectedPacketFlags"),  -- ?
  (3, "if numRetries != maxNumRetries && deadlineIsSet && timebase.Now().Before(deadline)"),  -- ?
  (4, "numRetries++"),  -- ?
  (4, "continue"),  -- ?
  (3, "return time.Time{}, 0, err"),  -- ?
  (2, "oob = oob[:oobn]"),  -- ?
  (2, "cRxTime, err := udp.TimestampFromOOBData(oob)"),  -- ?
  (2, "if err != nil"),  -- ?
  (3, "cRxTime = timebase.Now()"),  -- ?
  (2, "buf = buf[:n]"),  -- ?
  (2, "var ( hbhLayer slayers.HopByHopExtnSkipper e2eLayer slayers.EndToEndExtn scmpLayer slayers.SCMP )"),  -- ?
  (2, "parser := gopacket.NewDecodingLayerParser( slayers.LayerTypeSCION, &scionLayer, &hbhLayer, &e2eLayer, &udpLayer, &scmpLayer)"),  -- ?
  (2, "parser.IgnoreUnsupported = true"),  -- ?
  (2, "decoded := make([]gopacket.LayerType, 4)"),  -- ?
  (2, "err = parser.DecodeLayers(buf, &decoded)"),  -- ?
  (2, "if err != nil"),  -- ?
  (3, "if numRetries != maxNumRetries && deadlineIsSet && timebase.Now().Before(deadline)"),  -- ?
  (4, "numRetries++"),  -- ?
  (4, "continue"),  -- ?
  (3, "return time.Time{}, 0, err"),  -- ?
  (2, "validType := len(decoded) >= 2 && (decoded[len(decoded)-1] == slayers.LayerTypeSCIONUDP || decoded[len(decoded)-1] == slayers.LayerTypeSCMP)"),  -- ?
  (2, "if !validType"),  -- ?
  (3, "err = errUnexpectedPacket"),  -- ?
  (3, "if numRetries != maxNumRetries && deadlineIsSet && timebase.Now().Before(deadline)"),  -- ?
  (4, "numRetries++"),  -- ?
  (4, "continue"),  -- ?
  (3, "return time.Time{}, 0, err"),  -- ?
  (2, "if decoded[len(decoded)-1] == slayers.LayerTypeSCMP"),  -- ?
  (3, "err = errUnexpectedPacket"),  -- ?
  (3, "if numRetries != maxNumRetries && deadlineIsSet && timebase.Now().Before(deadline)"),  -- ?
  (4, "numRetries++"),  -- ?
  (4, "continue"),  -- ?
  (3, "return time.Time{}, 0, err"),  -- ?
  (2, "if len(buf) < int(udpLayer.Length)"),  -- ?
  (3, "err = errUnexpectedPacket"),  -- ?
  (3, "if numRetries != maxNumRetries && deadlineIsSet && timebase.Now().Before(deadline)"),  -- ?
  (4, "numRetries++"),  -- ?
  (4, "continue"),  -- ?
  (3, "return time.Time{}, 0, err"),  -- ?
  (2, "validSrc := scionLayer.SrcIA == remoteAddr.IA && equalsIP(scionLayer.SrcAddrType, scionLayer.RawSrcAddr, remoteAddr.Host.IP)"),  -- ?
  (2, "validDst := scionLayer.DstIA == localAddr.IA && equalsIP(scionLayer.DstAddrType, scionLayer.RawDstAddr, localAddr.Host.IP)"),  -- ?
  (2, "if !validSrc || !validDst"),  -- ?
  (3, "err = errUnexpectedPacket"),  -- ?
  (3, "if numRetries != maxNumRetries && deadlineIsSet && timebase.Now().Before(deadline)"),  -- ?
  (4, "if !validSrc"),  -- ?
  (4, "if !validDst"),  -- ?
  (4, "numRetries++"),  -- ?
  (4, "continue"),  -- ?
  (3, "return time.Time{}, 0, err"),  -- ?
  (2, "authenticated := false"),  -- ?
  (2, "if len(decoded) >= 3 && decoded[len(decoded)-2] == slayers.LayerTypeEndToEndExtn"),  -- ?
  (3, "tsOpt, err := e2eLayer.FindOption(scion.OptTypeTimestamp)"),  -- ?
  (3, "if err == nil"),  -- ?
  (4, "cRxTime0, err := udp.TimestampFromOOBData(tsOpt.OptData)"),  -- ?
  (4, "if err == nil && !cRxTime0.Before(cTxTime1) && !cRxTime0.After(cRxTime)"),  -- ?
  (5, "cRxTime = cRxTime0"),  -- ?
  (3, "if authKey != nil"),  -- ?
  (4, "authOpt, err := e2eLayer.FindOption(slayers.OptTypeAuthenticator)"),  -- ?
  (4, "if err == nil && len(authOpt.OptData) != scion.PacketAuthOptDataLen"),  -- ?
  (5, "err = errInvalidPacketAuthenticator"),  -- ?
  (5, "if numRetries != maxNumRetries && deadlineIsSet && timebase.Now().Before(deadline)"),  -- ?
  (6, "numRetries++"),  -- ?
  (6, "continue"),  -- ?
  (5, "return time.Time{}, 0, err"),  -- ?
  (4, "if err == nil"),  -- ?
  (5, "spi, algo := scion.PacketAuthOptMetadata(authOpt)"),  -- ?
  (5, "if spi == scion.PacketAuthSPIServer && algo == scion.PacketAuthAlgorithm"),  -- ?
  (6, "_, err = spao.ComputeAuthCMAC( spao.MACInput{ Key: authKey, Header: slayers.PacketAuthOption{EndToEndOption: authOpt}, ScionLayer: &scionLayer, PldType: slayers.L4UDP, Pld: buf[len(buf)-int(udpLayer.Length):]}, c.Auth.buf, c.Auth.mac)"),  -- ?
  (6, "if err != nil"),  -- ?
  (7, "panic(err)"),  -- ?
  (6, "authenticated = subtle.ConstantTimeCompare(scion.PacketAuthOptMAC(authOpt), c.Auth.mac) != 0"),  -- ?
  (6, "if !authenticated"),  -- ?
  (7, "err = errInvalidPacketAuthenticator"),  -- ?
  (7, "if numRetries != maxNumRetries && deadlineIsSet && timebase.Now().Before(deadline)"),  -- ?
  (8, "numRetries++"),  -- ?
  (8, "continue"),  -- ?
  (7, "return time.Time{}, 0, err"),  -- ?
  (2, "var ntpresp ntp.Packet"),  -- ?
  (2, "err = ntp.DecodePacket(&ntpresp, udpLayer.Payload)"),  -- ?
  (2, "if err != nil"),  -- ?
  (3, "if numRetries != maxNumRetries && deadlineIsSet && timebase.Now().Before(deadline)"),  -- ?
  (4, "numRetries++"),  -- ?
  (4, "continue"),  -- ?
  (3, "return time.Time{}, 0, err"),  -- ?
  (2, "ntsAuthenticated := false"),  -- ?
  (2, "var ntsresp nts.Packet"),  -- ?
  (2, "if c.Auth.NTSEnabled"),  -- ?
  (3, "err = nts.DecodePacket(&ntsresp, udpLayer.Payload)"),  -- ?
  (3, "if err != nil"),  -- ?
  (4, "if numRetries != maxNumRetries && deadlineIsSet && timebase.Now().Before(deadline)"),  -- ?
  (5, "numRetries++"),  -- ?
  (5, "continue"),  -- ?
  (4, "return time.Time{}, 0, err"),  -- ?
  (3, "err = nts.ProcessResponse(udpLayer.Payload, ntskeData.S2cKey, &c.Auth.NTSKEFetcher, &ntsresp, requestID)"),  -- ?
  (3, "if err != nil"),  -- ?
  (4, "if numRetries != maxNumRetries && deadlineIsSet && timebase.Now().Before(deadline)"),  -- ?
  (5, "numRetries++"),  -- ?
  (5, "continue"),  -- ?
  (4, "return time.Time{}, 0, err"),  -- ?
  (3, "ntsAuthenticated = true"),  -- ?
  (2, "interleavedResp := false"),  -- ?
  (2, "if interleavedReq && ntpresp.OriginTime == ntpreq.ReceiveTime"),  -- ?
  (3, "interleavedResp = true"),  -- ?
  (2, "else if ntpresp.OriginTime != ntpreq.TransmitTime"),  -- ?
  (3, "err = errUnexpectedPacket"),  -- ?
  (3, "if numRetries != maxNumRetries && deadlineIsSet && timebase.Now().Before(deadline)"),  -- ?
  (4, "numRetries++"),  -- ?
  (4, "continue"),  -- ?
  (3, "return time.Time{}, 0, err"),  -- ?
  (2, "err = ntp.ValidateResponseMetadata(&ntpresp)"),  -- ?
  (2, "if err != nil"),  -- ?
  (3, "return time.Time{}, 0, err"),  -- ?
  (2, "dscp := scionLayer.TrafficClass >> 2"),  -- ?
  (2, "sRxTime := ntp.TimeFromTime64(ntpresp.ReceiveTime, cTxTime0)"),  -- ?
  (2, "sTxTime := ntp.TimeFromTime64(ntpresp.TransmitTime, cTxTime0)"),  -- ?
  (2, "var t0, t1, t2, t3 time.Time"),  -- ?
  (2, "if interleavedResp"),  -- ?
  (3, "t0 = ntp.TimeFromTime64(c.prev.cTxTime, cTxTime0)"),  -- ?
  (3, "t1 = ntp.TimeFromTime64(c.prev.sRxTime, cTxTime0)"),  -- ?
  (3, "t2 = sTxTime"),  -- ?
  (3, "t3 = ntp.TimeFromTime64(c.prev.cRxTime, cTxTime0)"),  -- ?
  (2, "else"),  -- ?
  (3, "t0 = cTxTime1"),  -- ?
  (3, "t1 = sRxTime"),  -- ?
  (3, "t2 = sTxTime"),  -- ?
  (3, "t3 = cRxTime"),  -- ?
  (2, "err = ntp.ValidateResponseTimestamps(t0, t1, t2, t3)"),  -- ?
  (2, "if err != nil"),  -- ?
  (3, "return time.Time{}, 0, err"),  -- ?
  (2, "off := ntp.ClockOffset(t0, t1, t2, t3)"),  -- ?
  (2, "rtd := ntp.RoundTripDelay(t0, t1, t2, t3)"),  -- ?
  (2, "if interleavedResp"),  -- ?
  (2, "if c.InterleavedMode"),  -- ?
  (3, "c.prev.reference = reference"),  -- ?
  (3, "c.prev.path = snet.Fingerprint(path).String()"),  -- ?
  (3, "c.prev.interleaved = interleavedResp"),  -- ?
  (3, "c.prev.cTxTime = ntp.Time64FromTime(cTxTime1)"),  -- ?
  (3, "c.prev.cRxTime = ntp.Time64FromTime(cRxTime)"),  -- ?
  (3, "c.prev.sRxTime = ntpresp.ReceiveTime"),  -- ?
  (2, "timestamp = cRxTime"),  -- ?
  (2, "if c.Filter == nil"),  -- ?
  (3, "offset = off"),  -- ?
  (2, "else"),  -- ?
  (3, "offset = c.Filter.Do(t0, t1, t2, t3)"),  -- ?
  (2, "if c.Histogram != nil"),  -- ?
  (3, "err := c.Histogram.RecordValue(rtd.Microseconds())"),  -- ?
  (3, "if err != nil"),  -- ?
  (4, "return time.Time{}, 0, err"),  -- ?
  (2, "break"),  -- ?
  (1, "return timestamp, offset, nil")  -- ?
  ]

/-- core/client, MeasureClockOffsetIP -/
def Client.MeasureClockOffsetIP : List Row := [
  (0, "func MeasureClockOffsetIP(ctx context.Context, log *slog.Logger, ntpc *IPClient, localAddr, remoteAddr *net.UDPAddr) ( ts time.Time, off time.Duration, err error)"),  -- ?
  (1, "mtrcs := ipMetrics.Load()"),  -- ?
  (1, "var nerr, n int"),  -- ?
  (1, "if ntpc.InterleavedMode"),  -- ?
  (2, "n = 3"),  -- ?
  (1, "else"),  -- ?
  (2, "n = 1"),  -- ?
  (1, "for i := range n"),  -- ?
  (2, "t, o, e := ntpc.measureClockOffsetIP(ctx, mtrcs, localAddr, remoteAddr)"),  -- ?
  (2, "if e == nil"),  -- ?
  (3, "ts, off, err = t, o, e"),  -- ?
  (3, "if ntpc.InInterleavedMode()"),  -- ?
  (4, "break"),  -- ?
  (2, "else"),  -- ?
  (3, "if nerr == i"),  -- ?
  (4, "err = e"),  -- ?
  (3, "nerr++"),  -- ?
  (1, "return")  -- ?
  ]

/-- core/client, MeasureClockOffsetSCION -/
def Client.MeasureClockOffsetSCION : List Row := [
  (0, "func MeasureClockOffsetSCION(ctx context.Context, log *slog.Logger, ntpcs []*SCIONClient, localAddr, remoteAddr udp.UDPAddr, ps []snet.Path) ( time.Time, time.Duration, error)"),  -- ?
  (1, "mtrcs := scionMetrics.Load()"),  -- ?
  (1, "sps := make([]snet.Path, len(ntpcs))"),  -- ?
  (1, "nsps := 0"),  -- ?
  (1, "for i, c := range ntpcs"),  -- ?
  (2, "if c.InInterleavedMode()"),  -- ?
  (3, "pf := c.InterleavedModePath()"),  -- ?
  (3, "for j := range len(ps)"),  -- ?
  (4, "if p := ps[j]; snet.Fingerprint(p).String() == pf"),  -- ?
  (5, "ps[j] = ps[len(ps)-1]"),  -- ?
  (5, "ps = ps[:len(ps)-1]"),  -- ?
  (5, "sps[i] = p"),  -- ?
  (5, "nsps++"),  -- ?
  (5, "break"),  -- ?
  (2, "if sps[i] == nil"),  -- ?
  (3, "c.ResetInterleavedMode()"),  -- ?
  (3, "if c.Filter != nil"),  -- ?
  (4, "c.Filter.Reset()"),  -- ?
  (1, "n, err := crypto.Sample(ctx, len(sps)-nsps, len(ps), func(dst, src int) {…})"),  -- ?
  (2, "func literal 1"),  -- ?
  (3, "ps[dst] = ps[src]"),  -- ?
  (1, "if err != nil"),  -- ?
  (2, "return time.Time{}, 0, err"),  -- ?
  (1, "if nsps+n == 0"),  -- ?
  (2, "return time.Time{}, 0, errNoPath"),  -- ?
  (1, "for i, j := 0, 0; j != n; j++"),  -- ?
  (2, "for sps[i] != nil"),  -- ?
  (3, "i++"),  -- ?
  (2, "sps[i] = ps[j]"),  -- ?
  (2, "nsps++"),  -- ?
  (1, "ms := make([]measurements.Measurement, nsps)"),  -- ?
  (1, "msc := make(chan measurements.Measurement)"),  -- ?
  (1, "for i := range len(ntpcs)"),  -- ?
  (2, "if sps[i] == nil"),  -- ?
  (3, "continue"),  -- ?
  (2, "go func(ctx context.Context, log *slog.Logger, mtrcs *scionClientMetrics, ntpc *SCIONClient, localAddr, remoteAddr udp.UDPAddr, p snet.Path) {…}(ctx, log, mtrcs, ntpcs[i], localAddr, udp.UDPAddr{IA: remoteAddr.IA, Host: snet.CopyUDPAddr(remoteAddr.Host)}, sps[i])"),  -- ?
  (3, "func literal 1"),  -- ?
  (4, "var err error"),  -- ?
  (4, "var ts time.Time"),  -- ?
  (4, "var off time.Duration"),  -- ?
  (4, "var nerr, n int"),  -- ?
  (4, "if ntpc.InterleavedMode"),  -- ?
  (5, "n = 3"),  -- ?
  (4, "else"),  -- ?
  (5, "n = 1"),  -- ?
  (4, "for j := range n"),  -- ?
  (5, "t, o, e := ntpc.measureClockOffsetSCION(ctx, mtrcs, localAddr, remoteAddr, p)"),  -- ?
  (5, "if e == nil"),  -- ?
  (6, "ts, off, err = t, o, e"),  -- ?
  (6, "if ntpc.InInterleavedMode()"),  -- ?
  (7, "break"),  -- ?
  (5, "else"),  -- ?
  (6, "if nerr == j"),  -- ?
  (7, "err = e"),  -- ?
  (6, "nerr++"),  -- ?
  (4, "msc <- measurements.Measurement{ Timestamp: ts, Offset: off, Error: err}"),  -- ?
  (1, "n = collectMeasurements(ctx, ms, msc)"),  -- ?
  (1, "if n == 0"),  -- ?
  (2, "return time.Time{}, 0, errNoMeasurement"),  -- ?
  (1, "m := measurements.FaultTolerantMidpoint(ms)"),  -- ?
  (1, "return m.Timestamp, m.Offset, m.Error")  -- ?
  ]

end ScionTime.Model.Skel
