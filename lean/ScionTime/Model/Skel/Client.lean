/-
  Control skeletons of core/client as the models were written against them
  (notes/SKEL.md).  Each row: (depth, canonical text) as rendered by harness/extract/skeleton.go,
  followed by the model definition / branch that mirrors the statement.  Regenerated rows:
  Gen/SkelC03.lean; pins: Props/SkelC03.lean.  Core Lean only.
-/
import ScionTime.Model.Skel.Basic

namespace ScionTime.Model.Skel

/-- core/client, IPClient.measureClockOffsetIP -/
def Client.IPClient_measureClockOffsetIP : List Row := [
  (0, "func (c *IPClient) measureClockOffsetIP(ctx context.Context, mtrcs *ipClientMetrics, localAddr, remoteAddr *net.UDPAddr) ( timestamp time.Time, offset time.Duration, err error)"),  -- ClientNtp.exchangeIP: one whole exchange from the request on (entry: ClientNtp.entry); harness c03 ops cli.req, cli.exch
  (1, "laddr, ok := netip.AddrFromSlice(localAddr.IP)"),  -- ClientNtp.localAddrOk: iplen == 4 || iplen == 16 (argument of ClientNtp.entry)
  (1, "if !ok"),  -- ClientNtp.entry: if localAddrOk iplen then .proceed else .errAddr (entryOld = code before F13 fix); harness c03 op cli.badlocal
  (2, "return time.Time{}, 0, errUnexpectedAddrType"),  -- ClientNtp.entry: | .errAddr (C05_entry_no_success_without_datagram; entryOld .successZeroOld was F13)
  (1, "var lc net.ListenConfig"),  -- env: variable declaration (net.ListenConfig zero value)
  (1, "pconn, err := lc.ListenPacket(ctx, \"udp\", netip.AddrPortFrom(laddr, 0).String())"),  -- env: fresh UDP socket per exchange (model header: one exchange = one fresh socket); port 0 = kernel-chosen
  (1, "if err != nil"),  -- env: socket set-up failed; result enters only as ClientNtp.ErrKind.other
  (2, "return time.Time{}, 0, err"),  -- ClientNtp.ErrKind.other: return before the receive loop (listen); no def produces it, enters wrapLoop as Attempt.err
  (1, "conn := pconn.(*net.UDPConn)"),  -- env: type assertion on the socket just created
  (1, "defer conn.Close()"),  -- env: defer conn.Close()
  (1, "deadline, deadlineIsSet := ctx.Deadline()"),  -- ClientNtp.Cfg.deadlineSet: deadlineIsSet (deadline value itself enters via Event beforeDeadline flags)
  (1, "if deadlineIsSet"),  -- ClientNtp.Cfg.deadlineSet: true branch
  (2, "err = conn.SetDeadline(deadline)"),  -- env: socket deadline; its expiry enters the model as ClientNtp.Event.readErr
  (2, "if err != nil"),  -- env: SetDeadline failed; result enters only as ClientNtp.ErrKind.other
  (3, "return time.Time{}, 0, err"),  -- ClientNtp.ErrKind.other: return before the receive loop (deadline); no def produces it
  (1, "err = udp.EnableTimestamping(conn, localAddr.Zone)"),  -- env: kernel timestamping set-up; its effect enters as inputs cTx1 / Event.dgram cRx of ClientNtp.exchangeIP
  (1, "if err != nil"),  -- env: error only logged (body dropped); exchange goes on with clock-reading fallbacks for cTx1 / cRx
  (1, "err = udp.SetDSCP(conn, c.DSCP)"),  -- env: socket option IP_TOS from c.DSCP (MainCfg.dscp validates the value; the setsockopt is outside every model)
  (1, "if err != nil"),  -- env: error only logged (body dropped)
  (1, "var ntskeData ntske.Data"),  -- env: variable declaration (ntske.Data zero value)
  (1, "if c.Auth.Enabled"),  -- ClientNtp.Cfg.nts: Auth.Enabled (IP)
  (2, "ntskeData, err = c.Auth.NTSKEFetcher.FetchData(ctx)"),  -- Ntske.fetchWith / NtsPool.fetchData: hand out a copy of the data, pop one cookie (re-key iff pool empty); NtsPool.request
  (2, "if err != nil"),  -- Ntske.fetchWith: | (c, some err) => .error err; NtsPool.request: | none => .err .noCookies
  (3, "return time.Time{}, 0, err"),  -- ClientNtp.ErrKind.other: return before the receive loop (key exchange); NtsPool.request returns .err, nothing sent
  (2, "remoteAddr.IP = net.ParseIP(ntskeData.Server)"),  -- ClientNtp.ntsDestination: parsed = net.ParseIP(ntskeData.Server) (oracle input), held overwritten; harness c03 op cli.ntsdest
  (2, "remoteAddr.Port = int(ntskeData.Port)"),  -- ClientNtp.ntsDestination: port := ntskeData.Port (C20_nts_request_destination)
  (1, "ip4 := remoteAddr.IP.To4()"),  -- ClientNtp.ntsDestination: unmapIP ip (with NTS); without NTS: server : Nat of classifyIP is the address after Unmap
  (1, "if ip4 != nil"),  -- ClientNtp.unmapIP: 4-byte form exists
  (2, "remoteAddr.IP = ip4"),  -- ClientNtp.ntsDestination: (unmapIP ip).map ... the 4-byte form is what the request goes to / what reference prints
  (1, "buf := make([]byte, ntp.PacketLen)"),  -- env: buffer allocation (length ntp.PacketLen: pin C05_pin_packetLen)
  (1, "reference := remoteAddr.String()"),  -- ClientNtp.mkRequest: argument reference (= remoteAddr.String(), after the NTS overwrite and To4)
  (1, "cTxTime0 := timebase.Now()"),  -- ClientNtp.mkRequest: argument now (cTxTime0); stored as Req.cTx0
  (1, "interleavedReq := false"),  -- ClientNtp.mkRequest: Req.interleaved := false (else branch default)
  (1, "ntpreq := ntp.Packet{}"),  -- NtpPacket.zeroPacket; ClientNtp.mkRequest: origin/rx := zero64 in the basic request
  (1, "ntpreq.SetVersion(ntp.VersionMax)"),  -- ClientNtp.requestLVM: 4 * 8 (NtpPacket.setVersion; pin C05_pin_modeClient_versionMax)
  (1, "ntpreq.SetMode(ntp.ModeClient)"),  -- ClientNtp.requestLVM: + 3 (NtpPacket.setMode; pin C05_pin_modeClient_versionMax)
  (1, "if c.InterleavedMode && reference == c.prev.reference && cTxTime0.Sub(ntp.TimeFromTime64(c.prev.cTxTime, cTxTime0)) <= 3*time.Second"),  -- ClientNtp.mkRequest: interleavedMode && reference == prev.reference && windowOk .ip (<= 3 s; pins C03_pin_window*)
  (2, "interleavedReq = true"),  -- ClientNtp.mkRequest: interleaved := true
  (2, "ntpreq.OriginTime = c.prev.sRxTime"),  -- ClientNtp.mkRequest: origin := prev.sRx
  (2, "ntpreq.ReceiveTime = c.prev.cRxTime"),  -- ClientNtp.mkRequest: rx := prev.cRx
  (2, "ntpreq.TransmitTime = c.prev.cTxTime"),  -- ClientNtp.mkRequest: tx := prev.cTx
  (1, "else"),  -- ClientNtp.mkRequest: else
  (2, "ntpreq.TransmitTime = ntp.Time64FromTime(cTxTime0)"),  -- ClientNtp.mkRequest: tx := ofTime now (Time64.ofTime)
  (1, "ntp.EncodePacket(&buf, &ntpreq)"),  -- NtpPacket.encodePacket: the 48 header bytes (ClientNtp keeps only Req origin/rx/tx + requestLVM); harness c03 op cli.req
  (1, "var requestID []byte"),  -- env: variable declaration (requestID; NtsPool.Client.reqId)
  (1, "var ntsreq nts.Packet"),  -- env: variable declaration (ntsreq)
  (1, "if c.Auth.Enabled"),  -- ClientNtp.Cfg.nts; NtsPool.request: NTS part of the request
  (2, "ntsreq, requestID = nts.NewRequestPacket(ntskeData)"),  -- Nts.newRequestPacket: Cookie[0], capped placeholders, uid := copyN 32 rnd; NtsPool.request: reqId := uid; harness c03 op cl.exch
  (2, "nts.EncodePacket(&buf, &ntsreq)"),  -- Nts.encodePacket (encodePacketG true): uid, cookie, placeholders, authenticator appended to hdr; NtsPool.request
  (1, "n, err := conn.WriteToUDPAddrPort(buf, remoteAddr.AddrPort())"),  -- env: send; the datagram is the output of NtsPool.request / Req; destination = ClientNtp.ntsDestination (cli.ntsdest)
  (1, "if err != nil"),  -- ClientNtp.ntsDestination: = none => this write fails (address without IP), no datagram leaves
  (2, "return time.Time{}, 0, err"),  -- ClientNtp.ErrKind.other: return before the receive loop (write); cookie already popped (NtsPool.request st')
  (1, "if n != len(buf)"),  -- env: kernel short write (a UDP send is all-or-error); no model has the branch, would be ErrKind.other
  (2, "return time.Time{}, 0, errWrite"),  -- ClientNtp.ErrKind.other: return before the receive loop (write, errWrite); no def produces it
  (1, "cTxTime1, id, err := udp.ReadTXTimestamp(conn)"),  -- env: kernel TX timestamp from the error queue; result enters as argument cTx1 of ClientNtp.exchangeIP / classifyIP
  (1, "if err != nil || id != 0"),  -- env: fallback decision for cTx1 (err or id != 0; fresh socket so id is 0); model takes cTx1 as given
  (2, "cTxTime1 = timebase.Now()"),  -- env: clock reading replaces the kernel stamp: still input cTx1 (monotonic-reading Sub is outside NtpMath.sub64, notes/C03)
  (1, "if interleavedReq"),  -- env: metric only (reqsSentInterleaved.Inc dropped); no behaviour
  (1, "const maxNumRetries = 1"),  -- ClientNtp.maxNumRetries / NtsPool.maxNumRetries: 1 (pins C05_pin_maxNumRetries, C11_pin_maxNumRetries; x_c03.go)
  (1, "numRetries := 0"),  -- ClientNtp.exchangeIP: runLoop ... cfg.deadlineSet 0 0 evs (numRetries = 0); NtsPool.exchange: budget maxNumRetries + 1
  (1, "oob := make([]byte, udp.TimestampLen())"),  -- env: buffer allocation (oob)
  (1, "for"),  -- ClientNtp.runLoop: the receive loop over List (Event IpDgram); NtsPool.recvLoop for the NTS stage
  (2, "buf = buf[:cap(buf)]"),  -- env: buffer reslice to capacity (48 without NTS, 1024 after nts.EncodePacket); longer datagram => MSG_TRUNC => Event.badFlags
  (2, "oob = oob[:cap(oob)]"),  -- env: buffer reslice (oob)
  (2, "n, oobn, flags, srcAddr, err := conn.ReadMsgUDPAddrPort(buf, oob)"),  -- ClientNtp.Event: what the socket delivers to one iteration (dgram / readErr / badFlags) is the model's input
  (2, "if err != nil"),  -- ClientNtp.runLoop: | .readErr b :: rest
  (3, "if numRetries != maxNumRetries && deadlineIsSet && timebase.Now().Before(deadline)"),  -- ClientNtp.mayRetry: numRetries != maxNumRetries && deadlineSet && before (before = flag b of Event.readErr)
  (4, "numRetries++"),  -- ClientNtp.runLoop: r + 1
  (4, "continue"),  -- ClientNtp.runLoop: recursive call on rest (n + 1)
  (3, "return time.Time{}, 0, err"),  -- ClientNtp.runLoop: else .error .read (n + 1)
  (2, "if flags != 0"),  -- ClientNtp.runLoop: | .badFlags b :: rest
  (3, "err = errUnexpectedPacketFlags"),  -- ClientNtp.ErrKind.flags
  (3, "if numRetries != maxNumRetries && deadlineIsSet && timebase.Now().Before(deadline)"),  -- ClientNtp.mayRetry: flag b of Event.badFlags
  (4, "numRetries++"),  -- ClientNtp.runLoop: r + 1
  (4, "continue"),  -- ClientNtp.runLoop: recursive call on rest
  (3, "return time.Time{}, 0, err"),  -- ClientNtp.runLoop: else .error .flags (n + 1)
  (2, "oob = oob[:oobn]"),  -- env: buffer reslice (oob to oobn); input of Udp.timestampFromOOBData
  (2, "cRxTime, err := udp.TimestampFromOOBData(oob)"),  -- Udp.timestampFromOOBData (walkGen true): cmsg walk; its result enters ClientNtp as Event.dgram cRx
  (2, "if err != nil"),  -- Udp.Outcome: errNotFound / errUnexpectedData; ClientNtp.Event.dgram: cRx = kernel stamp or the clock reading that replaces it
  (3, "cRxTime = timebase.Now()"),  -- ClientNtp.Event.dgram: cRx := clock reading that replaces the kernel stamp (input)
  (2, "buf = buf[:n]"),  -- ClientNtp.Payload.len: n
  (2, "if compareAddrs(srcAddr.Addr(), remoteAddr.AddrPort().Addr()) != 0"),  -- ClientNtp.classifyIP: d.src != server (both after Unmap; ports not compared)
  (3, "err = errUnexpectedPacketSource"),  -- ClientNtp.classifyIP: .skip .source
  (3, "if numRetries != maxNumRetries && deadlineIsSet && timebase.Now().Before(deadline)"),  -- ClientNtp.runLoop: | .skip e => mayRetry r deadlineSet b (b of Event.dgram)
  (4, "numRetries++"),  -- ClientNtp.runLoop: r + 1
  (4, "continue"),  -- ClientNtp.runLoop: recursive call on rest
  (3, "return time.Time{}, 0, err"),  -- ClientNtp.runLoop: else .error e (n + 1), e = .source
  (2, "var ntpresp ntp.Packet"),  -- env: variable declaration, fresh per iteration (ClientNtp.Payload.pkt : NtpPkt)
  (2, "err = ntp.DecodePacket(&ntpresp, buf)"),  -- NtpPacket.decodePacket: size error below 48, else the 48 header bytes; ClientNtp.ntpStage: p.len < 48, Payload.pkt
  (2, "if err != nil"),  -- ClientNtp.ntpStage: if p.len < 48 then .skip .size
  (3, "if numRetries != maxNumRetries && deadlineIsSet && timebase.Now().Before(deadline)"),  -- ClientNtp.runLoop: | .skip e => mayRetry
  (4, "numRetries++"),  -- ClientNtp.runLoop: r + 1
  (4, "continue"),  -- ClientNtp.runLoop: recursive call on rest
  (3, "return time.Time{}, 0, err"),  -- ClientNtp.runLoop: else .error e (n + 1), e = .size
  (2, "authenticated := false"),  -- env: variable used by the dropped log statement only
  (2, "var ntsresp nts.Packet"),  -- pin C11_pin_recvLoopPacketScope (x_c11.go: ntsRespPacketScopeIP = loop): fresh packet per datagram, as NtsPool.response
  (2, "if c.Auth.Enabled"),  -- ClientNtp.ntpStage: cfg.nts && ...; NtsPool.recvLoop: NTS stage of the iteration
  (3, "err = nts.DecodePacket(&ntsresp, buf)"),  -- Nts.decodePacket in NtsPool.response; ClientNtp.Payload.ntsDecodeOk (oracle verdict); harness c03 op cl.exch
  (3, "if err != nil"),  -- ClientNtp.ntpStage: cfg.nts && !p.ntsDecodeOk => .skip .ntsDecode; NtsPool.response: | .err e => (st, .err e)
  (4, "if numRetries != maxNumRetries && deadlineIsSet && timebase.Now().Before(deadline)"),  -- ClientNtp.runLoop: | .skip e => mayRetry; NtsPool.recvLoop: | (st', .err _) => recvLoop A n st' rest (budget)
  (5, "numRetries++"),  -- ClientNtp.runLoop: r + 1; NtsPool.recvLoop: budget n + 1 -> n
  (5, "continue"),  -- ClientNtp.runLoop: recursive call on rest; NtsPool.recvLoop: recursive call
  (4, "return time.Time{}, 0, err"),  -- ClientNtp.runLoop: else .error e (n + 1), e = .ntsDecode; NtsPool.recvLoop: | 0 => (st, .ok false)
  (3, "err = nts.ProcessResponse(buf, ntskeData.S2cKey, &c.Auth.NTSKEFetcher, &ntsresp, requestID)"),  -- Nts.processResponse + NtsPool.response: pool := cs.foldl storeCookie; ClientNtp.Payload.ntsUidEq / ntsOpenOk (verdicts)
  (3, "if err != nil"),  -- ClientNtp.ntpStage: cfg.nts && !(ntsUidEq && ntsOpenOk) => .skip .ntsProcess; NtsPool.response: | .err e => (st, .err e)
  (4, "if numRetries != maxNumRetries && deadlineIsSet && timebase.Now().Before(deadline)"),  -- ClientNtp.runLoop: | .skip e => mayRetry; NtsPool.recvLoop: | (st', .err _)
  (5, "numRetries++"),  -- ClientNtp.runLoop: r + 1; NtsPool.recvLoop: budget n + 1 -> n
  (5, "continue"),  -- ClientNtp.runLoop: recursive call on rest; NtsPool.recvLoop: recursive call
  (4, "return time.Time{}, 0, err"),  -- ClientNtp.runLoop: else .error e (n + 1), e = .ntsProcess
  (3, "authenticated = true"),  -- env: variable used by the dropped log statement only (pktsAuthenticated metric dropped); NtsPool.recvLoop: .ok true
  (2, "interleavedResp := false"),  -- ClientNtp.ntpStage: let il := ... (false unless both conjuncts)
  (2, "if interleavedReq && ntpresp.OriginTime == ntpreq.ReceiveTime"),  -- ClientNtp.ntpStage: il := req.interleaved && p.pkt.origin == req.rx
  (3, "interleavedResp = true"),  -- ClientNtp.ntpStage: il = true (Accepted.il)
  (2, "else if ntpresp.OriginTime != ntpreq.TransmitTime"),  -- ClientNtp.ntpStage: if !il && p.pkt.origin != req.tx
  (3, "err = errUnexpectedPacket"),  -- ClientNtp.ntpStage: .skip .unexpected
  (3, "if numRetries != maxNumRetries && deadlineIsSet && timebase.Now().Before(deadline)"),  -- ClientNtp.runLoop: | .skip e => mayRetry r deadlineSet b
  (4, "numRetries++"),  -- ClientNtp.runLoop: r + 1
  (4, "continue"),  -- ClientNtp.runLoop: recursion; PARTIAL: NtsPool.recvLoop ends at the 1st authenticated dgram, no 2nd StoreCookie round
  (3, "return time.Time{}, 0, err"),  -- ClientNtp.runLoop: else .error e (n + 1), e = .unexpected
  (2, "err = ntp.ValidateResponseMetadata(&ntpresp)"),  -- NtpMath.validMetadata: LI != 3, version 3|4, mode 4, stratum 1..15 (pins C05_pin_modeServer, C05_pin_leapUnknown)
  (2, "if err != nil"),  -- ClientNtp.ntpStage: else if !validMetadata p.pkt.lvm p.pkt.stratum
  (3, "return time.Time{}, 0, err"),  -- ClientNtp.ntpStage: .fatal .response; runLoop: | .fatal e => .error e (n + 1), no retry
  (2, "sRxTime := ntp.TimeFromTime64(ntpresp.ReceiveTime, cTxTime0)"),  -- ClientNtp.ntpStage: sRx := toTime p.pkt.rx req.cTx0 (Time64.toTime)
  (2, "sTxTime := ntp.TimeFromTime64(ntpresp.TransmitTime, cTxTime0)"),  -- ClientNtp.ntpStage: sTx := toTime p.pkt.tx req.cTx0
  (2, "var t0, t1, t2, t3 time.Time"),  -- env: variable declaration
  (2, "if interleavedResp"),  -- ClientNtp.ntpStage: if il (in each of t0, t1, t3)
  (3, "t0 = ntp.TimeFromTime64(c.prev.cTxTime, cTxTime0)"),  -- ClientNtp.ntpStage: t0 := toTime prev.cTx req.cTx0
  (3, "t1 = ntp.TimeFromTime64(c.prev.sRxTime, cTxTime0)"),  -- ClientNtp.ntpStage: t1 := toTime prev.sRx req.cTx0
  (3, "t2 = sTxTime"),  -- ClientNtp.ntpStage: t2 := sTx
  (3, "t3 = ntp.TimeFromTime64(c.prev.cRxTime, cTxTime0)"),  -- ClientNtp.ntpStage: t3 := toTime prev.cRx req.cTx0
  (2, "else"),  -- ClientNtp.ntpStage: else (in each of t0, t1, t3)
  (3, "t0 = cTxTime1"),  -- ClientNtp.ntpStage: t0 := cTx1
  (3, "t1 = sRxTime"),  -- ClientNtp.ntpStage: t1 := sRx
  (3, "t2 = sTxTime"),  -- ClientNtp.ntpStage: t2 := sTx
  (3, "t3 = cRxTime"),  -- ClientNtp.ntpStage: t3 := cRx
  (2, "err = ntp.ValidateResponseTimestamps(t0, t1, t2, t3)"),  -- NtpMath.validateTimestamps: sub64 t3 t0 < 0 => .panic, sub64 t2 t1 < 0 => .errResponse, else .ok
  (2, "if err != nil"),  -- ClientNtp.ntpStage: match validateTimestamps: | .errResponse (| .panic => Step.panic; runLoop .panic (n + 1))
  (3, "return time.Time{}, 0, err"),  -- ClientNtp.ntpStage: .fatal .response; runLoop: | .fatal e => .error e (n + 1)
  (2, "off := ntp.ClockOffset(t0, t1, t2, t3)"),  -- ClientNtp.Accepted.offset: clockOffset64 t0 t1 t2 t3 (NtpMath.clockOffset64)
  (2, "rtd := ntp.RoundTripDelay(t0, t1, t2, t3)"),  -- ClientNtp.Accepted.rtd: roundTripDelay64 t0 t1 t2 t3 (NtpMath.roundTripDelay64; feeds only log and histogram)
  (2, "if interleavedResp"),  -- env: metric only (respsAcceptedInterleaved.Inc dropped); no behaviour
  (2, "if c.InterleavedMode"),  -- ClientNtp.updatePrev: if cfg.interleavedMode (else prev)
  (3, "c.prev.reference = reference"),  -- ClientNtp.updatePrev: reference := reference
  (3, "c.prev.interleaved = interleavedResp"),  -- ClientNtp.updatePrev: interleaved := a.il
  (3, "c.prev.cTxTime = ntp.Time64FromTime(cTxTime1)"),  -- ClientNtp.updatePrev: cTx := ofTime cTx1
  (3, "c.prev.cRxTime = ntp.Time64FromTime(cRxTime)"),  -- ClientNtp.updatePrev: cRx := ofTime a.cRx
  (3, "c.prev.sRxTime = ntpresp.ReceiveTime"),  -- ClientNtp.updatePrev: sRx := a.sRx64 (= p.pkt.rx)
  (2, "timestamp = cRxTime"),  -- ClientNtp.Accepted.cRx: the receive time that becomes timestamp (Attempt.ok ts); harness c03 op cli.exch
  (2, "if c.Filter == nil"),  -- ClientNtp.returnedOffset: match filter | none
  (3, "offset = off"),  -- ClientNtp.returnedOffset: a.offset
  (2, "else"),  -- ClientNtp.returnedOffset: | some f
  (3, "offset = c.Filter.Do(t0, t1, t2, t3)"),  -- ClientNtp.returnedOffset: f a.t0 a.t1 a.t2 a.t3; f = Filters.luckyDo / Filters.ntimedDo (filter state advances)
  (2, "if c.Histogram != nil"),  -- UNMODELLED: c.Histogram is in no Cfg; branch after prev update and Filter.Do that can still fail an accepted response
  (3, "err := c.Histogram.RecordValue(rtd.Microseconds())"),  -- env: hdrhistogram library call (observability; only benchmark tools set it); its error is no model input, see next rows
  (3, "if err != nil"),  -- UNMODELLED: branch on the error of Histogram.RecordValue (rtd in us outside the histogram's range); no model input
  (4, "return time.Time{}, 0, err"),  -- UNMODELLED: returns an error AFTER prev was updated and Filter.Do consumed the sample; exchangeIP says error => prev unchanged
  (2, "break"),  -- ClientNtp.runLoop: | .accept a => .accepted a (n + 1) (loop ends, nothing further is read)
  (1, "return timestamp, offset, nil")  -- ClientNtp.exchangeIP: (.accepted a _, updatePrev ...); value = Attempt.ok a.cRx (returnedOffset filter a) inIL in wrapLoop
  ]

/-- core/client, SCIONClient.measureClockOffsetSCION -/
def Client.SCIONClient_measureClockOffsetSCION : List Row := [
  (0, "func (c *SCIONClient) measureClockOffsetSCION(ctx context.Context, mtrcs *scionClientMetrics, localAddr, remoteAddr udp.UDPAddr, path snet.Path) ( timestamp time.Time, offset time.Duration, err error)"),  -- ?
  (1, "if c.Auth.Enabled && c.Auth.opt == nil"),  -- ?
  (2, "c.Auth.opt = &slayers.EndToEndOption{}"),  -- ?
  (2, "c.Auth.opt.OptData = make([]byte, scion.PacketAuthOptDataLen)"),  -- ?
  (2, "c.Auth.buf = make([]byte, spao.MACBufferSize)"),  -- ?
  (2, "c.Auth.mac = make([]byte, scion.PacketAuthMACLen)"),  -- ?
  (1, "var authKey []byte"),  -- ?
  (1, "laddr, ok := netip.AddrFromSlice(localAddr.Host.IP)"),  -- ?
  (1, "if !ok"),  -- ?
  (2, "return time.Time{}, 0, errUnexpectedAddrType"),  -- ?
  (1, "var lc net.ListenConfig"),  -- ?
  (1, "pconn, err := lc.ListenPacket(ctx, \"udp\", netip.AddrPortFrom(laddr, 0).String())"),  -- ?
  (1, "if err != nil"),  -- ?
  (2, "return time.Time{}, 0, err"),  -- ?
  (1, "conn := pconn.(*net.UDPConn)"),  -- ?
  (1, "defer conn.Close()"),  -- ?
  (1, "deadline, deadlineIsSet := ctx.Deadline()"),  -- ?
  (1, "if deadlineIsSet"),  -- ?
  (2, "err = conn.SetDeadline(deadline)"),  -- ?
  (2, "if err != nil"),  -- ?
  (3, "return time.Time{}, 0, err"),  -- ?
  (1, "err = udp.EnableTimestamping(conn, localAddr.Host.Zone)"),  -- ?
  (1, "if err != nil"),  -- ?
  (1, "err = udp.SetDSCP(conn, c.DSCP)"),  -- ?
  (1, "if err != nil"),  -- ?
  (1, "localPort := conn.LocalAddr().(*net.UDPAddr).Port"),  -- ?
  (1, "var ntskeData ntske.Data"),  -- ?
  (1, "if c.Auth.NTSEnabled"),  -- ?
  (2, "ntskeData, err = c.Auth.NTSKEFetcher.FetchData(ctx)"),  -- ?
  (2, "if err != nil"),  -- ?
  (3, "return time.Time{}, 0, err"),  -- ?
  (2, "remoteAddr.Host.IP = net.ParseIP(ntskeData.Server)"),  -- ?
  (2, "if remoteAddr.Host.IP == nil"),  -- ?
  (3, "return time.Time{}, 0, errUnexpectedAddrType"),  -- ?
  (2, "remoteAddr.Host.Port = int(ntskeData.Port)"),  -- ?
  (2, "if remoteAddr.IA == localAddr.IA"),  -- ?
  (3, "path = spath.Path{ Src: localAddr.IA, Dst: remoteAddr.IA, DataplanePath: spath.Empty{}, NextHop: remoteAddr.Host}"),  -- ?
  (1, "ip4 := remoteAddr.Host.IP.To4()"),  -- ?
  (1, "if ip4 != nil"),  -- ?
  (2, "remoteAddr.Host.IP = ip4"),  -- ?
  (1, "nextHop := path.UnderlayNextHop().AddrPort()"),  -- ?
  (1, "nextHopAddr := nextHop.Addr()"),  -- ?
  (1, "if nextHopAddr.Is4In6()"),  -- ?
  (2, "nextHop = netip.AddrPortFrom( netip.AddrFrom4(nextHopAddr.As4()), nextHop.Port())"),  -- ?
  (1, "buf := make([]byte, scion.MTU)"),  -- ?
  (1, "reference := remoteAddr.IA.String() + \",\" + remoteAddr.Host.String()"),  -- ?
  (1, "cTxTime0 := timebase.Now()"),  -- ?
  (1, "interleavedReq := false"),  -- ?
  (1, "ntpreq := ntp.Packet{}"),  -- ?
  (1, "ntpreq.SetVersion(ntp.VersionMax)"),  -- ?
  (1, "ntpreq.SetMode(ntp.ModeClient)"),  -- ?
  (1, "if c.InterleavedMode && reference == c.prev.reference && cTxTime0.Sub(ntp.TimeFromTime64(c.prev.cTxTime, cTxTime0)) < 3*time.Second"),  -- ?
  (2, "interleavedReq = true"),  -- ?
  (2, "ntpreq.OriginTime = c.prev.sRxTime"),  -- ?
  (2, "ntpreq.ReceiveTime = c.prev.cRxTime"),  -- ?
  (2, "ntpreq.TransmitTime = c.prev.cTxTime"),  -- ?
  (1, "else"),  -- ?
  (2, "ntpreq.TransmitTime = ntp.Time64FromTime(cTxTime0)"),  -- ?
  (1, "ntp.EncodePacket(&buf, &ntpreq)"),  -- ?
  (1, "var requestID []byte"),  -- ?
  (1, "var ntsreq nts.Packet"),  -- ?
  (1, "if c.Auth.NTSEnabled"),  -- ?
  (2, "ntsreq, requestID = nts.NewRequestPacket(ntskeData)"),  -- ?
  (2, "nts.EncodePacket(&buf, &ntsreq)"),  -- ?
  (1, "var scionLayer slayers.SCION"),  -- ?
  (1, "scionLayer.TrafficClass = c.DSCP << 2"),  -- ?
  (1, "scionLayer.SrcIA = localAddr.IA"),  -- ?
  (1, "srcAddrIP, ok := netip.AddrFromSlice(localAddr.Host.IP)"),  -- ?
  (1, "if !ok"),  -- ?
  (2, "panic(errUnexpectedAddrType)"),  -- ?
  (1, "err = scionLayer.SetSrcAddr(addr.HostIP(srcAddrIP.Unmap()))"),  -- ?
  (1, "if err != nil"),  -- ?
  (2, "panic(err)"),  -- ?
  (1, "scionLayer.DstIA = remoteAddr.IA"),  -- ?
  (1, "dstAddrIP, ok := netip.AddrFromSlice(remoteAddr.Host.IP)"),  -- ?
  (1, "if !ok"),  -- ?
  (2, "panic(errUnexpectedAddrType)"),  -- ?
  (1, "err = scionLayer.SetDstAddr(addr.HostIP(dstAddrIP.Unmap()))"),  -- ?
  (1, "if err != nil"),  -- ?
  (2, "panic(err)"),  -- ?
  (1, "err = path.Dataplane().SetPath(&scionLayer)"),  -- ?
  (1, "if err != nil"),  -- ?
  (2, "panic(err)"),  -- ?
  (1, "scionLayer.NextHdr = slayers.L4UDP"),  -- ?
  (1, "var udpLayer slayers.UDP"),  -- ?
  (1, "udpLayer.SrcPort = uint16(localPort)"),  -- ?
  (1, "udpLayer.DstPort = uint16(remoteAddr.Host.Port)"),  -- ?
  (1, "udpLayer.SetNetworkLayerForChecksum(&scionLayer)"),  -- ?
  (1, "payload := gopacket.Payload(buf)"),  -- ?
  (1, "buffer := gopacket.NewSerializeBuffer()"),  -- ?
  (1, "options := gopacket.SerializeOptions{ ComputeChecksums: true, FixLengths: true}"),  -- ?
  (1, "err = payload.SerializeTo(buffer, options)"),  -- ?
  (1, "if err != nil"),  -- ?
  (2, "panic(err)"),  -- ?
  (1, "buffer.PushLayer(payload.LayerType())"),  -- ?
  (1, "err = udpLayer.SerializeTo(buffer, options)"),  -- ?
  (1, "if err != nil"),  -- ?
  (2, "panic(err)"),  -- ?
  (1, "buffer.PushLayer(udpLayer.LayerType())"),  -- ?
  (1, "if c.Auth.Enabled"),  -- ?
  (2, "hostHostKey, err := c.Auth.DRKeyFetcher.FetchHostHostKey(ctx, drkey.HostHostMeta{ ProtoId: scion.DRKeyProtocolTS, Validity: cTxTime0, SrcIA: remoteAddr.IA, DstIA: localAddr.IA, SrcHost: remoteAddr.Host.IP.String(), DstHost: localAddr.Host.IP.String()})"),  -- ?
  (2, "if err != nil"),  -- ?
  (2, "else"),  -- ?
  (3, "authKey = hostHostKey.Key[:]"),  -- ?
  (3, "scion.PreparePacketAuthOpt(c.Auth.opt, scion.PacketAuthSPIClient, scion.PacketAuthAlgorithm)"),  -- ?
  (3, "_, err = spao.ComputeAuthCMAC( spao.MACInput{ Key: authKey, Header: slayers.PacketAuthOption{EndToEndOption: c.Auth.opt}, ScionLayer: &scionLayer, PldType: scionLayer.NextHdr, Pld: buffer.Bytes()}, c.Auth.buf, scion.PacketAuthOptMAC(c.Auth.opt))"),  -- ?
  (3, "if err != nil"),  -- ?
  (4, "panic(err)"),  -- ?
  (3, "e2eExtn := slayers.EndToEndExtn{}"),  -- ?
  (3, "e2eExtn.NextHdr = scionLayer.NextHdr"),  -- ?
  (3, "e2eExtn.Options = []*slayers.EndToEndOption{c.Auth.opt}"),  -- ?
  (3, "err = e2eExtn.SerializeTo(buffer, options)"),  -- ?
  (3, "if err != nil"),  -- ?
  (4, "panic(err)"),  -- ?
  (3, "buffer.PushLayer(e2eExtn.LayerType())"),  -- ?
  (3, "scionLayer.NextHdr = slayers.End2EndClass"),  -- ?
  (1, "err = scionLayer.SerializeTo(buffer, options)"),  -- ?
  (1, "if err != nil"),  -- ?
  (2, "panic(err)"),  -- ?
  (1, "buffer.PushLayer(scionLayer.LayerType())"),  -- ?
  (1, "n, err := conn.WriteToUDPAddrPort(buffer.Bytes(), nextHop)"),  -- ?
  (1, "if err != nil"),  -- ?
  (2, "return time.Time{}, 0, err"),  -- ?
  (1, "if n != len(buffer.Bytes())"),  -- ?
  (2, "return time.Time{}, 0, errWrite"),  -- ?
  (1, "cTxTime1, id, err := udp.ReadTXTimestamp(conn)"),  -- ?
  (1, "if err != nil || id != 0"),  -- ?
  (2, "cTxTime1 = timebase.Now()"),  -- ?
  (1, "if interleavedReq"),  -- ?
  (1, "const maxNumRetries = 1"),  -- ?
  (1, "numRetries := 0"),  -- ?
  (1, "oob := make([]byte, udp.TimestampLen())"),  -- ?
  (1, "for"),  -- ?
  (2, "buf = buf[:cap(buf)]"),  -- ?
  (2, "oob = oob[:cap(oob)]"),  -- ?
  (2, "n, oobn, flags, lastHop, err := conn.ReadMsgUDPAddrPort(buf, oob)"),  -- ?
  (2, "if err != nil"),  -- ?
  (3, "if numRetries != maxNumRetries && deadlineIsSet && timebase.Now().Before(deadline)"),  -- ?
  (4, "numRetries++"),  -- ?
  (4, "continue"),  -- ?
  (3, "return time.Time{}, 0, err"),  -- ?
  (2, "if flags != 0"),  -- ?
  (3, "err = errUnexpectedPacketFlags"),  -- ?
  (3, "if numRetries != maxNumRetries && deadlineIsSet && timebase.Now().Before(deadline)"),  -- ?
  (4, "numRetries++"),  -- ?
  (4, "continue"),  -- ?
  (3, "return time.Time{}, 0, err"),  -- ?
  (2, "oob = oob[:oobn]"),  -- ?
  (2, "cRxTime, err := udp.TimestampFromOOBData(oob)"),  -- ?
  (2, "if err != nil"),  -- ?
  (3, "cRxTime = timebase.Now()"),  -- ?
  (2, "buf = buf[:n]"),  -- ?
  (2, "var ( hbhLayer slayers.HopByHopExtnSkipper e2eLayer slayers.EndToEndExtn scmpLayer slayers.SCMP )"),  -- ?
  (2, "parser := gopacket.NewDecodingLayerParser( slayers.LayerTypeSCION, &scionLayer, &hbhLayer, &e2eLayer, &udpLayer, &scmpLayer)"),  -- ?
  (2, "parser.IgnoreUnsupported = true"),  -- ?
  (2, "decoded := make([]gopacket.LayerType, 4)"),  -- ?
  (2, "err = parser.DecodeLayers(buf, &decoded)"),  -- ?
  (2, "if err != nil"),  -- ?
  (3, "if numRetries != maxNumRetries && deadlineIsSet && timebase.Now().Before(deadline)"),  -- ?
  (4, "numRetries++"),  -- ?
  (4, "continue"),  -- ?
  (3, "return time.Time{}, 0, err"),  -- ?
  (2, "validType := len(decoded) >= 2 && (decoded[len(decoded)-1] == slayers.LayerTypeSCIONUDP || decoded[len(decoded)-1] == slayers.LayerTypeSCMP)"),  -- ?
  (2, "if !validType"),  -- ?
  (3, "err = errUnexpectedPacket"),  -- ?
  (3, "if numRetries != maxNumRetries && deadlineIsSet && timebase.Now().Before(deadline)"),  -- ?
  (4, "numRetries++"),  -- ?
  (4, "continue"),  -- ?
  (3, "return time.Time{}, 0, err"),  -- ?
  (2, "if decoded[len(decoded)-1] == slayers.LayerTypeSCMP"),  -- ?
  (3, "err = errUnexpectedPacket"),  -- ?
  (3, "if numRetries != maxNumRetries && deadlineIsSet && timebase.Now().Before(deadline)"),  -- ?
  (4, "numRetries++"),  -- ?
  (4, "continue"),  -- ?
  (3, "return time.Time{}, 0, err"),  -- ?
  (2, "if len(buf) < int(udpLayer.Length)"),  -- ?
  (3, "err = errUnexpectedPacket"),  -- ?
  (3, "if numRetries != maxNumRetries && deadlineIsSet && timebase.Now().Before(deadline)"),  -- ?
  (4, "numRetries++"),  -- ?
  (4, "continue"),  -- ?
  (3, "return time.Time{}, 0, err"),  -- ?
  (2, "validSrc := scionLayer.SrcIA == remoteAddr.IA && equalsIP(scionLayer.SrcAddrType, scionLayer.RawSrcAddr, remoteAddr.Host.IP)"),  -- ?
  (2, "validDst := scionLayer.DstIA == localAddr.IA && equalsIP(scionLayer.DstAddrType, scionLayer.RawDstAddr, localAddr.Host.IP)"),  -- ?
  (2, "if !validSrc || !validDst"),  -- ?
  (3, "err = errUnexpectedPacket"),  -- ?
  (3, "if numRetries != maxNumRetries && deadlineIsSet && timebase.Now().Before(deadline)"),  -- ?
  (4, "if !validSrc"),  -- ?
  (4, "if !validDst"),  -- ?
  (4, "numRetries++"),  -- ?
  (4, "continue"),  -- ?
  (3, "return time.Time{}, 0, err"),  -- ?
  (2, "authenticated := false"),  -- ?
  (2, "if len(decoded) >= 3 && decoded[len(decoded)-2] == slayers.LayerTypeEndToEndExtn"),  -- ?
  (3, "tsOpt, err := e2eLayer.FindOption(scion.OptTypeTimestamp)"),  -- ?
  (3, "if err == nil"),  -- ?
  (4, "cRxTime0, err := udp.TimestampFromOOBData(tsOpt.OptData)"),  -- ?
  (4, "if err == nil && !cRxTime0.Before(cTxTime1) && !cRxTime0.After(cRxTime)"),  -- ?
  (5, "cRxTime = cRxTime0"),  -- ?
  (3, "if authKey != nil"),  -- ?
  (4, "authOpt, err := e2eLayer.FindOption(slayers.OptTypeAuthenticator)"),  -- ?
  (4, "if err == nil && len(authOpt.OptData) != scion.PacketAuthOptDataLen"),  -- ?
  (5, "err = errInvalidPacketAuthenticator"),  -- ?
  (5, "if numRetries != maxNumRetries && deadlineIsSet && timebase.Now().Before(deadline)"),  -- ?
  (6, "numRetries++"),  -- ?
  (6, "continue"),  -- ?
  (5, "return time.Time{}, 0, err"),  -- ?
  (4, "if err == nil"),  -- ?
  (5, "spi, algo := scion.PacketAuthOptMetadata(authOpt)"),  -- ?
  (5, "if spi == scion.PacketAuthSPIServer && algo == scion.PacketAuthAlgorithm"),  -- ?
  (6, "_, err = spao.ComputeAuthCMAC( spao.MACInput{ Key: authKey, Header: slayers.PacketAuthOption{EndToEndOption: authOpt}, ScionLayer: &scionLayer, PldType: slayers.L4UDP, Pld: buf[len(buf)-int(udpLayer.Length):]}, c.Auth.buf, c.Auth.mac)"),  -- ?
  (6, "if err != nil"),  -- ?
  (7, "panic(err)"),  -- ?
  (6, "authenticated = subtle.ConstantTimeCompare(scion.PacketAuthOptMAC(authOpt), c.Auth.mac) != 0"),  -- ?
  (6, "if !authenticated"),  -- ?
  (7, "err = errInvalidPacketAuthenticator"),  -- ?
  (7, "if numRetries != maxNumRetries && deadlineIsSet && timebase.Now().Before(deadline)"),  -- ?
  (8, "numRetries++"),  -- ?
  (8, "continue"),  -- ?
  (7, "return time.Time{}, 0, err"),  -- ?
  (2, "var ntpresp ntp.Packet"),  -- ?
  (2, "err = ntp.DecodePacket(&ntpresp, udpLayer.Payload)"),  -- ?
  (2, "if err != nil"),  -- ?
  (3, "if numRetries != maxNumRetries && deadlineIsSet && timebase.Now().Before(deadline)"),  -- ?
  (4, "numRetries++"),  -- ?
  (4, "continue"),  -- ?
  (3, "return time.Time{}, 0, err"),  -- ?
  (2, "ntsAuthenticated := false"),  -- ?
  (2, "var ntsresp nts.Packet"),  -- ?
  (2, "if c.Auth.NTSEnabled"),  -- ?
  (3, "err = nts.DecodePacket(&ntsresp, udpLayer.Payload)"),  -- ?
  (3, "if err != nil"),  -- ?
  (4, "if numRetries != maxNumRetries && deadlineIsSet && timebase.Now().Before(deadline)"),  -- ?
  (5, "numRetries++"),  -- ?
  (5, "continue"),  -- ?
  (4, "return time.Time{}, 0, err"),  -- ?
  (3, "err = nts.ProcessResponse(udpLayer.Payload, ntskeData.S2cKey, &c.Auth.NTSKEFetcher, &ntsresp, requestID)"),  -- ?
  (3, "if err != nil"),  -- ?
  (4, "if numRetries != maxNumRetries && deadlineIsSet && timebase.Now().Before(deadline)"),  -- ?
  (5, "numRetries++"),  -- ?
  (5, "continue"),  -- ?
  (4, "return time.Time{}, 0, err"),  -- ?
  (3, "ntsAuthenticated = true"),  -- ?
  (2, "interleavedResp := false"),  -- ?
  (2, "if interleavedReq && ntpresp.OriginTime == ntpreq.ReceiveTime"),  -- ?
  (3, "interleavedResp = true"),  -- ?
  (2, "else if ntpresp.OriginTime != ntpreq.TransmitTime"),  -- ?
  (3, "err = errUnexpectedPacket"),  -- ?
  (3, "if numRetries != maxNumRetries && deadlineIsSet && timebase.Now().Before(deadline)"),  -- ?
  (4, "numRetries++"),  -- ?
  (4, "continue"),  -- ?
  (3, "return time.Time{}, 0, err"),  -- ?
  (2, "err = ntp.ValidateResponseMetadata(&ntpresp)"),  -- ?
  (2, "if err != nil"),  -- ?
  (3, "return time.Time{}, 0, err"),  -- ?
  (2, "dscp := scionLayer.TrafficClass >> 2"),  -- ?
  (2, "sRxTime := ntp.TimeFromTime64(ntpresp.ReceiveTime, cTxTime0)"),  -- ?
  (2, "sTxTime := ntp.TimeFromTime64(ntpresp.TransmitTime, cTxTime0)"),  -- ?
  (2, "var t0, t1, t2, t3 time.Time"),  -- ?
  (2, "if interleavedResp"),  -- ?
  (3, "t0 = ntp.TimeFromTime64(c.prev.cTxTime, cTxTime0)"),  -- ?
  (3, "t1 = ntp.TimeFromTime64(c.prev.sRxTime, cTxTime0)"),  -- ?
  (3, "t2 = sTxTime"),  -- ?
  (3, "t3 = ntp.TimeFromTime64(c.prev.cRxTime, cTxTime0)"),  -- ?
  (2, "else"),  -- ?
  (3, "t0 = cTxTime1"),  -- ?
  (3, "t1 = sRxTime"),  -- ?
  (3, "t2 = sTxTime"),  -- ?
  (3, "t3 = cRxTime"),  -- ?
  (2, "err = ntp.ValidateResponseTimestamps(t0, t1, t2, t3)"),  -- ?
  (2, "if err != nil"),  -- ?
  (3, "return time.Time{}, 0, err"),  -- ?
  (2, "off := ntp.ClockOffset(t0, t1, t2, t3)"),  -- ?
  (2, "rtd := ntp.RoundTripDelay(t0, t1, t2, t3)"),  -- ?
  (2, "if interleavedResp"),  -- ?
  (2, "if c.InterleavedMode"),  -- ?
  (3, "c.prev.reference = reference"),  -- ?
  (3, "c.prev.path = snet.Fingerprint(path).String()"),  -- ?
  (3, "c.prev.interleaved = interleavedResp"),  -- ?
  (3, "c.prev.cTxTime = ntp.Time64FromTime(cTxTime1)"),  -- ?
  (3, "c.prev.cRxTime = ntp.Time64FromTime(cRxTime)"),  -- ?
  (3, "c.prev.sRxTime = ntpresp.ReceiveTime"),  -- ?
  (2, "timestamp = cRxTime"),  -- ?
  (2, "if c.Filter == nil"),  -- ?
  (3, "offset = off"),  -- ?
  (2, "else"),  -- ?
  (3, "offset = c.Filter.Do(t0, t1, t2, t3)"),  -- ?
  (2, "if c.Histogram != nil"),  -- ?
  (3, "err := c.Histogram.RecordValue(rtd.Microseconds())"),  -- ?
  (3, "if err != nil"),  -- ?
  (4, "return time.Time{}, 0, err"),  -- ?
  (2, "break"),  -- ?
  (1, "return timestamp, offset, nil")  -- ?
  ]

/-- core/client, MeasureClockOffsetIP -/
def Client.MeasureClockOffsetIP : List Row := [
  (0, "func MeasureClockOffsetIP(ctx context.Context, log *slog.Logger, ntpc *IPClient, localAddr, remoteAddr *net.UDPAddr) ( ts time.Time, off time.Duration, err error)"),  -- ClientNtp.wrapIP: the up-to-3-attempts wrapper (C05_wrapper_ip_sound); harness c03 op cli.wrap
  (1, "mtrcs := ipMetrics.Load()"),  -- env: metrics handle (counters dropped from the skeleton)
  (1, "var nerr, n int"),  -- ClientNtp.wrapIP: WrapState 0 0 none 0 (zero named results ts, off, err; nerr = 0); n = length of attempts.take ...
  (1, "if ntpc.InterleavedMode"),  -- ClientNtp.wrapIP: if interleavedMode
  (2, "n = 3"),  -- ClientNtp.wrapIP: attempts.take 3
  (1, "else"),  -- ClientNtp.wrapIP: else
  (2, "n = 1"),  -- ClientNtp.wrapIP: attempts.take 1
  (1, "for i := range n"),  -- ClientNtp.wrapLoop: recursion over the attempts actually made, i = loop index
  (2, "t, o, e := ntpc.measureClockOffsetIP(ctx, mtrcs, localAddr, remoteAddr)"),  -- ClientNtp.Attempt: result of one call (input of wrapLoop; one call = ClientNtp.entry then ClientNtp.exchangeIP)
  (2, "if e == nil"),  -- ClientNtp.wrapLoop: | .ok t o inIL :: rest
  (3, "ts, off, err = t, o, e"),  -- ClientNtp.wrapLoop: s' := { s with ts := t, off := o, err := none }
  (3, "if ntpc.InInterleavedMode()"),  -- ClientNtp.inInterleavedMode: interleavedMode && prev.reference != "" && prev.interleaved; enters wrapLoop as Attempt.ok inIL
  (4, "break"),  -- ClientNtp.wrapLoop: if inIL then s' (no further attempt)
  (2, "else"),  -- ClientNtp.wrapLoop: | .err e :: rest
  (3, "if nerr == i"),  -- ClientNtp.wrapLoop: if s.nerr = i (only while every attempt so far failed)
  (4, "err = e"),  -- ClientNtp.wrapLoop: err := some e
  (3, "nerr++"),  -- ClientNtp.wrapLoop: nerr := s.nerr + 1
  (1, "return")  -- ClientNtp.wrapLoop: | _, s, [] => s (named results returned)
  ]

/-- core/client, MeasureClockOffsetSCION -/
def Client.MeasureClockOffsetSCION : List Row := [
  (0, "func MeasureClockOffsetSCION(ctx context.Context, log *slog.Logger, ntpcs []*SCIONClient, localAddr, remoteAddr udp.UDPAddr, ps []snet.Path) ( time.Time, time.Duration, error)"),  -- ?
  (1, "mtrcs := scionMetrics.Load()"),  -- ?
  (1, "sps := make([]snet.Path, len(ntpcs))"),  -- ?
  (1, "nsps := 0"),  -- ?
  (1, "for i, c := range ntpcs"),  -- ?
  (2, "if c.InInterleavedMode()"),  -- ?
  (3, "pf := c.InterleavedModePath()"),  -- ?
  (3, "for j := range len(ps)"),  -- ?
  (4, "if p := ps[j]; snet.Fingerprint(p).String() == pf"),  -- ?
  (5, "ps[j] = ps[len(ps)-1]"),  -- ?
  (5, "ps = ps[:len(ps)-1]"),  -- ?
  (5, "sps[i] = p"),  -- ?
  (5, "nsps++"),  -- ?
  (5, "break"),  -- ?
  (2, "if sps[i] == nil"),  -- ?
  (3, "c.ResetInterleavedMode()"),  -- ?
  (3, "if c.Filter != nil"),  -- ?
  (4, "c.Filter.Reset()"),  -- ?
  (1, "n, err := crypto.Sample(ctx, len(sps)-nsps, len(ps), func(dst, src int) {…})"),  -- ?
  (2, "func literal 1"),  -- ?
  (3, "ps[dst] = ps[src]"),  -- ?
  (1, "if err != nil"),  -- ?
  (2, "return time.Time{}, 0, err"),  -- ?
  (1, "if nsps+n == 0"),  -- ?
  (2, "return time.Time{}, 0, errNoPath"),  -- ?
  (1, "for i, j := 0, 0; j != n; j++"),  -- ?
  (2, "for sps[i] != nil"),  -- ?
  (3, "i++"),  -- ?
  (2, "sps[i] = ps[j]"),  -- ?
  (2, "nsps++"),  -- ?
  (1, "ms := make([]measurements.Measurement, nsps)"),  -- ?
  (1, "msc := make(chan measurements.Measurement)"),  -- ?
  (1, "for i := range len(ntpcs)"),  -- ?
  (2, "if sps[i] == nil"),  -- ?
  (3, "continue"),  -- ?
  (2, "go func(ctx context.Context, log *slog.Logger, mtrcs *scionClientMetrics, ntpc *SCIONClient, localAddr, remoteAddr udp.UDPAddr, p snet.Path) {…}(ctx, log, mtrcs, ntpcs[i], localAddr, udp.UDPAddr{IA: remoteAddr.IA, Host: snet.CopyUDPAddr(remoteAddr.Host)}, sps[i])"),  -- ?
  (3, "func literal 1"),  -- ?
  (4, "var err error"),  -- ?
  (4, "var ts time.Time"),  -- ?
  (4, "var off time.Duration"),  -- ?
  (4, "var nerr, n int"),  -- ?
  (4, "if ntpc.InterleavedMode"),  -- ?
  (5, "n = 3"),  -- ?
  (4, "else"),  -- ?
  (5, "n = 1"),  -- ?
  (4, "for j := range n"),  -- ?
  (5, "t, o, e := ntpc.measureClockOffsetSCION(ctx, mtrcs, localAddr, remoteAddr, p)"),  -- ?
  (5, "if e == nil"),  -- ?
  (6, "ts, off, err = t, o, e"),  -- ?
  (6, "if ntpc.InInterleavedMode()"),  -- ?
  (7, "break"),  -- ?
  (5, "else"),  -- ?
  (6, "if nerr == j"),  -- ?
  (7, "err = e"),  -- ?
  (6, "nerr++"),  -- ?
  (4, "msc <- measurements.Measurement{ Timestamp: ts, Offset: off, Error: err}"),  -- ?
  (1, "n = collectMeasurements(ctx, ms, msc)"),  -- ?
  (1, "if n == 0"),  -- ?
  (2, "return time.Time{}, 0, errNoMeasurement"),  -- ?
  (1, "m := measurements.FaultTolerantMidpoint(ms)"),  -- ?
  (1, "return m.Timestamp, m.Offset, m.Error")  -- ?
  ]

end ScionTime.Model.Skel
