/-
  Control skeletons of core/server as the models were written against them
  (notes/SKEL.md).  Each row: (depth, canonical text) as rendered by harness/extract/skeleton.go,
  followed by the model definition / branch that mirrors the statement.  Regenerated rows:
  Gen/SkelC20.lean; pins: Props/SkelC20.lean.  Core Lean only.
-/
import ScionTime.Model.Skel.Basic

namespace ScionTime.Model.Skel

/-- core/server, StartNTSKEServerIP -/
def NtskeSrvStart.StartNTSKEServerIP : List Row := [
  (0, "func StartNTSKEServerIP(ctx context.Context, log *slog.Logger, localIP net.IP, localPort int, config *tls.Config, provider *ntske.Provider)"),  -- ?
  (1, "ntskeAddr := net.JoinHostPort(localIP.String(), strconv.Itoa(ntske.ServerPortIP))"),  -- ?
  (1, "listener, err := tls.Listen(\"tcp\", ntskeAddr, config)"),  -- ?
  (1, "if err != nil"),  -- ?
  (2, "os.Exit(1)"),  -- ?
  (1, "go runNTSKEServerTLS(ctx, log, listener, localPort, provider)")  -- ?
  ]

/-- core/server, StartNTSKEServerSCION -/
def NtskeSrvStart.StartNTSKEServerSCION : List Row := [
  (0, "func StartNTSKEServerSCION(ctx context.Context, log *slog.Logger, localAddr udp.UDPAddr, config *tls.Config, provider *ntske.Provider)"),  -- ?
  (1, "localPort := localAddr.Host.Port"),  -- ?
  (1, "localAddr.Host.Port = ntske.ServerPortSCION"),  -- ?
  (1, "listener, err := scion.ListenQUIC(ctx, localAddr, config, nil)"),  -- ?
  (1, "if err != nil"),  -- ?
  (2, "os.Exit(1)"),  -- ?
  (1, "go runNTSKEServerQUIC(ctx, log, listener, localPort, provider)")  -- ?
  ]

end ScionTime.Model.Skel
