/-
  Control skeletons of core/server as the models were written against them
  (notes/SKEL.md).  Each row: (depth, canonical text) as rendered by harness/extract/skeleton.go,
  followed by the model definition / branch that mirrors the statement.  Regenerated rows:
  Gen/SkelC20.lean; pins: Props/SkelC20.lean.  Core Lean only.
-/
import ScionTime.Model.Skel.Basic

namespace ScionTime.Model.Skel

/-- core/server, StartNTSKEServerIP -/
def NtskeSrvStart.StartNTSKEServerIP : List Row := [
  (0, "func StartNTSKEServerIP(ctx context.Context, log *slog.Logger, localIP net.IP, localPort int, config *tls.Config, provider *ntske.Provider)"),  -- NtskeSrv.Conn: quic := false, localPort := argument (start-up has no model); harness c08net runs it in a child (127.0.0.1:4460)
  (1, "ntskeAddr := net.JoinHostPort(localIP.String(), strconv.Itoa(ntske.ServerPortIP))"),  -- UNMODELLED: listen port is ntske.ServerPortIP (4460), not localPort; in no model, Gen.Ntske.ServerPortIP unpinned; c08net dials :4460
  (1, "listener, err := tls.Listen(\"tcp\", ntskeAddr, config)"),  -- env: TCP listen + TLS wrapper; config = MainCfg.tlsConfig result (C20Tls_server; hand-over in runServer unpinned); conns = NtskeSrv.Conn
  (1, "if err != nil"),  -- UNMODELLED: listen failure (4460 in use) ends the process, the error value is not logged; no start-up outcome in any model
  (2, "os.Exit(1)"),  -- UNMODELLED: os.Exit(1) (see row 3); a bare exit, not logbase.Fatal
  (1, "go runNTSKEServerTLS(ctx, log, listener, localPort, provider)")  -- NtskeSrv.Conn.localPort := localPort (NTP port of the Port record, Ntske.serverMsg port); pin C12_pin_providerUses (provider passed on)
  ]

/-- core/server, StartNTSKEServerSCION -/
def NtskeSrvStart.StartNTSKEServerSCION : List Row := [
  (0, "func StartNTSKEServerSCION(ctx context.Context, log *slog.Logger, localAddr udp.UDPAddr, config *tls.Config, provider *ntske.Provider)"),  -- NtskeSrv.Conn: quic := true, localPort (start-up has no model; no harness calls it, c20 uses the hook VerifC20RunNTSKEServerQUIC)
  (1, "localPort := localAddr.Host.Port"),  -- NtskeSrv.Conn.localPort: the caller's port saved BEFORE row 2 overwrites it (runServer: 10123); that order is mirrored nowhere
  (1, "localAddr.Host.Port = ntske.ServerPortSCION"),  -- UNMODELLED: listen port := ntske.ServerPortSCION (14460), written through pointer Host into the caller's UDPAddr; no model, no pin
  (1, "listener, err := scion.ListenQUIC(ctx, localAddr, config, nil)"),  -- env: SCION/UDP socket + quic.Listen (quicCfg nil = defaults); config as in C20Tls_server; connections = NtskeSrv.Conn quic := true
  (1, "if err != nil"),  -- UNMODELLED: listen failure (14460 in use) ends the process, the error value is not logged; no start-up outcome in any model
  (2, "os.Exit(1)"),  -- UNMODELLED: os.Exit(1) (see row 4); a bare exit, not logbase.Fatal
  (1, "go runNTSKEServerQUIC(ctx, log, listener, localPort, provider)")  -- NtskeSrv.Conn.localPort := localPort of row 1 (Port record, Ntske.serverMsg port % 65536); pin C12_pin_providerUses (provider passed on)
  ]

end ScionTime.Model.Skel
