/-
  Control skeletons of core/sync/adjustments as the models were written against them
  (notes/SKEL.md).  Each row: (depth, canonical text) as rendered by harness/extract/skeleton.go,
  followed by the model definition / branch that mirrors the statement.  Regenerated rows:
  Gen/SkelC19.lean; pins: Props/SkelC19.lean.  Core Lean only.
-/
import ScionTime.Model.Skel.Basic

namespace ScionTime.Model.Skel

/-- core/sync/adjustments, Pll.Do -/
def Pll.Pll_Do : List Row := [
  (0, "func (l *Pll) Do(offset time.Duration, weight float64)"),  -- ?
  (1, "offset = timemath.Inv(offset)"),  -- ?
  (1, "if l.epoch != l.clk.Epoch()"),  -- ?
  (2, "l.epoch = l.clk.Epoch()"),  -- ?
  (2, "l.mode = 0"),  -- ?
  (1, "var dt, p, d, a, b float64"),  -- ?
  (1, "now := l.clk.Now()"),  -- ?
  (1, "switch l.mode"),  -- ?
  (2, "case 0"),  -- ?
  (3, "l.t0 = now"),  -- ?
  (3, "l.mode++"),  -- ?
  (2, "case 1"),  -- ?
  (3, "mdt := now.Sub(l.t0)"),  -- ?
  (3, "if mdt < 0"),  -- ?
  (4, "panic(\"unexpected clock behavior\")"),  -- ?
  (3, "if mdt > 2*time.Second && weight > 3"),  -- ?
  (4, "if offset.Abs() > 1*time.Millisecond"),  -- ?
  (5, "l.clk.Step(timemath.Inv(offset))"),  -- ?
  (4, "l.t0 = now"),  -- ?
  (4, "l.mode++"),  -- ?
  (2, "case 2"),  -- ?
  (3, "mdt := now.Sub(l.t0)"),  -- ?
  (3, "if mdt < 0"),  -- ?
  (4, "panic(\"unexpected clock behavior\")"),  -- ?
  (3, "if mdt > 6*time.Second"),  -- ?
  (4, "const ( pInit = 0.33 iInit = 60 )"),  -- ?
  (4, "l.a = pInit"),  -- ?
  (4, "l.b = l.a / iInit"),  -- ?
  (4, "l.t0 = now"),  -- ?
  (4, "l.mode++"),  -- ?
  (2, "case 3"),  -- ?
  (3, "mdt := now.Sub(l.t0)"),  -- ?
  (3, "if mdt < 0"),  -- ?
  (4, "panic(\"unexpected clock behavior\")"),  -- ?
  (3, "dt = now.Sub(l.t).Seconds()"),  -- ?
  (3, "if dt < 0.0"),  -- ?
  (4, "panic(\"unexpected clock behavior\")"),  -- ?
  (3, "if weight < 50"),  -- ?
  (4, "a = 3e-2"),  -- ?
  (4, "b = 5e-4"),  -- ?
  (3, "else if weight < 150"),  -- ?
  (4, "a = 6e-2"),  -- ?
  (4, "b = 1e-3"),  -- ?
  (3, "else"),  -- ?
  (4, "const ( captureTime = 300 * time.Second stiffenRate = 0.999 pLimit = 0.03 )"),  -- ?
  (4, "if mdt > captureTime && l.a > pLimit"),  -- ?
  (5, "l.a *= math.Pow(stiffenRate, dt)"),  -- ?
  (5, "l.b *= math.Pow(stiffenRate, dt)"),  -- ?
  (4, "a = l.a"),  -- ?
  (4, "b = l.b"),  -- ?
  (3, "p = timemath.Inv(offset).Seconds() * a"),  -- ?
  (3, "d = math.Ceil(dt)"),  -- ?
  (3, "l.i += p * b"),  -- ?
  (3, "if p > d*500e-6"),  -- ?
  (4, "p = d * 500e-6"),  -- ?
  (3, "if p < d*-500e-6"),  -- ?
  (4, "p = d * -500e-6"),  -- ?
  (2, "default"),  -- ?
  (3, "panic(\"unexpected PLL mode\")"),  -- ?
  (1, "l.t = now"),  -- ?
  (1, "if d > 0.0"),  -- ?
  (2, "l.clk.Adjust(timemath.Duration(p), timemath.Duration(d), l.i)")  -- ?
  ]

end ScionTime.Model.Skel
