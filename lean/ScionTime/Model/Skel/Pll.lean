/-
  Control skeletons of core/sync/adjustments as the models were written against them
  (notes/SKEL.md).  Each row: (depth, canonical text) as rendered by harness/extract/skeleton.go,
  followed by the model definition / branch that mirrors the statement.  Regenerated rows:
  Gen/SkelC19.lean; pins: Props/SkelC19.lean.  Core Lean only.
-/
import ScionTime.Model.Skel.Basic

namespace ScionTime.Model.Skel

/-- core/sync/adjustments, Pll.Do -/
def Pll.Pll_Do : List Row := [
  (0, "func (l *Pll) Do(offset time.Duration, weight float64)"),  -- Pll.step: one Do call (clkEpoch, now, pow are inputs); harness c19 op pll.do; LeafTieC19.C19_leaf_Do_partial
  (1, "offset = timemath.Inv(offset)"),  -- Pll.step: let offset := inv offset (Pll.inv = timemath.Inv, MinInt64 -> MaxInt64)
  (1, "if l.epoch != l.clk.Epoch()"),  -- Pll.syncEpoch: if s.epoch != clkEpoch (clkEpoch input; PllClock.update passes SysClock.epoch s.clk)
  (2, "l.epoch = l.clk.Epoch()"),  -- Pll.syncEpoch: epoch := clkEpoch (the second Epoch() call is taken to return the same value as the first)
  (2, "l.mode = 0"),  -- Pll.syncEpoch: mode := 0
  (1, "var dt, p, d, a, b float64"),  -- Pll.step: p = d = fzero handed to finish in modes 0..2 (zero values); dt, a, b are locals of Pll.track
  (1, "now := l.clk.Now()"),  -- Pll.step: argument now (Int ns wall-clock reading, an input; harness c19 scripts the clock)
  (1, "switch l.mode"),  -- Pll.step: chain if s.mode = 0 / 1 / 2 / 3 / else; pin C19_pin_thresholds (pll_modeCount = 4)
  (2, "case 0"),  -- Pll.step: if s.mode = 0 (startup)
  (3, "l.t0 = now"),  -- Pll.step: mode 0, t0 := now
  (3, "l.mode++"),  -- Pll.step: mode 0, mode := s.mode + 1
  (2, "case 1"),  -- Pll.step: else if s.mode = 1 (awaiting step)
  (3, "mdt := now.Sub(l.t0)"),  -- Pll.step: mode 1, mdt := timeSub now s.t0 (Time.Sub saturating at the int64 range)
  (3, "if mdt < 0"),  -- Pll.step: mode 1, if mdt < 0; pin C19_pin_thresholds (pll_clockCheck1, op <)
  (4, "panic(\"unexpected clock behavior\")"),  -- Pll.step: mode 1, .panic .clock (receiver untouched: Outcome.next keeps s)
  (3, "if mdt > 2*time.Second && weight > 3"),  -- Pll.step: mode 1, mdt > stepWait and gt weight wStep; pins pll_stepWait, pll_stepWeight (ops >)
  (4, "if offset.Abs() > 1*time.Millisecond"),  -- Pll.step: mode 1, durAbs offset > stepThreshold; pin pll_stepThreshold (op >)
  (5, "l.clk.Step(timemath.Inv(offset))"),  -- Pll.step: acts := [Action.step (inv offset)]; PllClock.call runs SysClock.step; pin pll_stepCallsInCase1
  (4, "l.t0 = now"),  -- Pll.step: mode 1 transition, t0 := now
  (4, "l.mode++"),  -- Pll.step: mode 1 transition, mode := s.mode + 1
  (2, "case 2"),  -- Pll.step: else if s.mode = 2 (awaiting PLL)
  (3, "mdt := now.Sub(l.t0)"),  -- Pll.step: mode 2, mdt := timeSub now s.t0
  (3, "if mdt < 0"),  -- Pll.step: mode 2, if mdt < 0; pin C19_pin_thresholds (pll_clockCheck2, op <)
  (4, "panic(\"unexpected clock behavior\")"),  -- Pll.step: mode 2, .panic .clock
  (3, "if mdt > 6*time.Second"),  -- Pll.step: mode 2, mdt > pllWait; pin pll_pllWait (op >)
  (4, "const ( pInit = 0.33 iInit = 60 )"),  -- Pll.pInit, Pll.iInit: ofConst 33 100, ofConst 60 1; pin C19_pin_gains (pll_pInit, pll_iInit)
  (4, "l.a = pInit"),  -- Pll.step: mode 2 transition, a := pInit
  (4, "l.b = l.a / iInit"),  -- Pll.step: mode 2 transition, b := div pInit iInit
  (4, "l.t0 = now"),  -- Pll.step: mode 2 transition, t0 := now
  (4, "l.mode++"),  -- Pll.step: mode 2 transition, mode := s.mode + 1
  (2, "case 3"),  -- Pll.step: else if s.mode = 3 (tracking)
  (3, "mdt := now.Sub(l.t0)"),  -- Pll.step: mode 3, mdt := timeSub now s.t0
  (3, "if mdt < 0"),  -- Pll.step: mode 3, if mdt < 0; pin C19_pin_thresholds (pll_clockCheck3, op <)
  (4, "panic(\"unexpected clock behavior\")"),  -- Pll.step: mode 3, .panic .clock (first check)
  (3, "dt = now.Sub(l.t).Seconds()"),  -- Pll.step: mode 3, dt := durationSeconds (timeSub now s.t)
  (3, "if dt < 0.0"),  -- Pll.step: mode 3, if lt dt fzero; pin pll_clockCheck3dt (op <)
  (4, "panic(\"unexpected clock behavior\")"),  -- Pll.step: mode 3, .panic .clock (second check)
  (3, "if weight < 50"),  -- Pll.gains: if lt weight wLow; pin pll_wLow (op <)
  (4, "a = 3e-2"),  -- Pll.gains: aLow; pin C19_pin_gains (pll_aLow)
  (4, "b = 5e-4"),  -- Pll.gains: bLow; pin C19_pin_gains (pll_bLow)
  (3, "else if weight < 150"),  -- Pll.gains: else if lt weight wHigh; pin pll_wHigh (op <)
  (4, "a = 6e-2"),  -- Pll.gains: aMid; pin C19_pin_gains (pll_aMid)
  (4, "b = 1e-3"),  -- Pll.gains: bMid; pin C19_pin_gains (pll_bMid)
  (3, "else"),  -- Pll.gains: else (weight >= 150 or NaN); LeafTieC19 tie missing for weight >= 50, harness c19 op pll.do covers it
  (4, "const ( captureTime = 300 * time.Second stiffenRate = 0.999 pLimit = 0.03 )"),  -- Pll.captureTime, Pll.pLimit; pins pll_captureTime, pll_pLimit; stiffenRate only via input pow (harness c19)
  (4, "if mdt > captureTime && l.a > pLimit"),  -- Pll.gains: mdt > captureTime and gt s.a pLimit; pins pll_captureTime, pll_pLimitCmp (op >)
  (5, "l.a *= math.Pow(stiffenRate, dt)"),  -- Pll.gains: a := mul s.a pow (math.Pow not modelled: its result is the input pow, assumption Bd 1 pow)
  (5, "l.b *= math.Pow(stiffenRate, dt)"),  -- Pll.gains: b := mul s.b pow (second math.Pow call with the same arguments: the same input pow)
  (4, "a = l.a"),  -- Pll.gains: result (s, s.a, s.b): local a := s.a
  (4, "b = l.b"),  -- Pll.gains: result (s, s.a, s.b): local b := s.b
  (3, "p = timemath.Inv(offset).Seconds() * a"),  -- Pll.track: p := mul (durationSeconds (inv offset)) a
  (3, "d = math.Ceil(dt)"),  -- Pll.track: d := ceil dt (F64.ceil)
  (3, "l.i += p * b"),  -- Pll.track: i := add s.i (mul p b), p before the clamp
  (3, "if p > d*500e-6"),  -- Pll.clamp: if gt p (mul d slewPos); pin C19_pin_slew (pll_slewPos, op >)
  (4, "p = d * 500e-6"),  -- Pll.clamp: p := mul d slewPos
  (3, "if p < d*-500e-6"),  -- Pll.clamp: if lt p (mul d slewNeg); pin C19_pin_slew (pll_slewNeg, op <)
  (4, "p = d * -500e-6"),  -- Pll.clamp: p := mul d slewNeg
  (2, "default"),  -- Pll.step: final else (mode > 3)
  (3, "panic(\"unexpected PLL mode\")"),  -- Pll.step: .panic .mode (unreachable from init: C19_mode_invariant)
  (1, "l.t = now"),  -- Pll.finish: t := now (every non-panic path)
  (1, "if d > 0.0"),  -- Pll.finish: if gt d fzero; pin C19_pin_thresholds (pll_adjustGuard = 0, op >)
  (2, "l.clk.Adjust(timemath.Duration(p), timemath.Duration(d), l.i)")  -- Pll.finish: acts ++ [.adjust (toDuration p) (toDuration d) s.i]; PllClock.call runs SysClock.adjust
  ]

end ScionTime.Model.Skel
