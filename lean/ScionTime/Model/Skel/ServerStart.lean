/-
  Control skeletons of core/server as the models were written against them
  (notes/SKEL.md).  Each row: (depth, canonical text) as rendered by harness/extract/skeleton.go,
  followed by the model definition / branch that mirrors the statement.  Regenerated rows:
  Gen/SkelC06.lean; pins: Props/SkelC06.lean.  Core Lean only.
-/
import ScionTime.Model.Skel.Basic

namespace ScionTime.Model.Skel

/-- core/server, StartIPServer -/
def ServerStart.StartIPServer : List Row := [
  (0, "func StartIPServer(ctx context.Context, log *slog.Logger, localHost *net.UDPAddr, dscp uint8, provider *ntske.Provider)"),  -- ?
  (1, "mtrcs := newIPServerMetrics()"),  -- ?
  (1, "lc := net.ListenConfig{ Control: udp.SetsockoptReuseAddrPort}"),  -- ?
  (1, "address := net.JoinHostPort(localHost.IP.String(), strconv.Itoa(localHost.Port))"),  -- ?
  (1, "for range ipServerNumGoroutine"),  -- ?
  (2, "conn, err := lc.ListenPacket(ctx, \"udp\", address)"),  -- ?
  (2, "if err != nil"),  -- ?
  (3, "logbase.FatalContext(ctx, log, \"failed to listen for packets\", slog.Any(\"error\", err))"),  -- ?
  (2, "go runIPServer(ctx, log, mtrcs, conn.(*net.UDPConn), localHost.Zone, dscp, provider)")  -- ?
  ]

/-- core/server, StartSCIONServer -/
def ServerStart.StartSCIONServer : List Row := [
  (0, "func StartSCIONServer(ctx context.Context, log *slog.Logger, daemonAddr string, localHost *net.UDPAddr, dscp uint8, provider *ntske.Provider)"),  -- ?
  (1, "mtrcs := newSCIONServerMetrics()"),  -- ?
  (1, "if localHost.Port == scion.EndhostPort"),  -- ?
  (2, "logbase.FatalContext(ctx, log, \"invalid listener port\", slog.Int(\"port\", localHost.Port))"),  -- ?
  (1, "lc := net.ListenConfig{ Control: udp.SetsockoptReuseAddrPort}"),  -- ?
  (1, "for _, localHostPort := range []int{localHost.Port, scion.EndhostPort}"),  -- ?
  (2, "address := net.JoinHostPort(localHost.IP.String(), strconv.Itoa(localHostPort))"),  -- ?
  (2, "for range scionServerNumGoroutine"),  -- ?
  (3, "fetcher := scion.NewFetcher(scion.NewDaemonConnector(ctx, daemonAddr))"),  -- ?
  (3, "conn, err := lc.ListenPacket(ctx, \"udp\", address)"),  -- ?
  (3, "if err != nil"),  -- ?
  (4, "logbase.FatalContext(ctx, log, \"failed to listen for packets\", slog.Any(\"error\", err))"),  -- ?
  (3, "go runSCIONServer(ctx, log, mtrcs, conn.(*net.UDPConn), localHost.Zone, localHost.Port, dscp, fetcher, provider)")  -- ?
  ]

/-- core/server, StartSCIONDispatcher -/
def ServerStart.StartSCIONDispatcher : List Row := [
  (0, "func StartSCIONDispatcher(ctx context.Context, log *slog.Logger, localHost *net.UDPAddr)"),  -- ?
  (1, "mtrcs := newSCIONServerMetrics()"),  -- ?
  (1, "if localHost.Port == scion.EndhostPort"),  -- ?
  (2, "logbase.FatalContext(ctx, log, \"invalid listener port\", slog.Int(\"port\", localHost.Port))"),  -- ?
  (1, "localHost.Port = scion.EndhostPort"),  -- ?
  (1, "lc := net.ListenConfig{}"),  -- ?
  (1, "address := net.JoinHostPort(localHost.IP.String(), strconv.Itoa(localHost.Port))"),  -- ?
  (1, "conn, err := lc.ListenPacket(ctx, \"udp\", address)"),  -- ?
  (1, "if err != nil"),  -- ?
  (2, "logbase.FatalContext(ctx, log, \"failed to listen for packets\", slog.Any(\"error\", err))"),  -- ?
  (1, "go runSCIONServer(ctx, log, mtrcs, conn.(*net.UDPConn), localHost.Zone, localHost.Port, 0, nil, nil)")  -- ?
  ]

end ScionTime.Model.Skel
