/-
  Control skeletons of core/server as the models were written against them
  (notes/SKEL.md).  Each row: (depth, canonical text) as rendered by harness/extract/skeleton.go,
  followed by the model definition / branch that mirrors the statement.  Regenerated rows:
  Gen/SkelC06.lean; pins: Props/SkelC06.lean.  Core Lean only.
-/
import ScionTime.Model.Skel.Basic

namespace ScionTime.Model.Skel

/-- core/server, StartIPServer -/
def ServerStart.StartIPServer : List Row := [
  (0, "func StartIPServer(ctx context.Context, log *slog.Logger, localHost *net.UDPAddr, dscp uint8, provider *ntske.Provider)"),  -- ListenerTx.World.init + Mutex.start: what the 8 goroutines start from (start-up has no model); harness c09, c06tx, c12, c08net run it
  (1, "mtrcs := newIPServerMetrics()"),  -- env: metric registration (promauto, default registry: a second call in one process panics; harness c12 swaps the registry)
  (1, "lc := net.ListenConfig{ Control: udp.SetsockoptReuseAddrPort}"),  -- env: SO_REUSEADDR + SO_REUSEPORT; the kernel spreads datagrams over the 8 sockets by 4-tuple = ListenerTx.Ev sk (input)
  (1, "address := net.JoinHostPort(localHost.IP.String(), strconv.Itoa(localHost.Port))"),  -- env: bind address text (localHost.Zone is not part of it); the IP listener's models have no local address or port input
  (1, "for range ipServerNumGoroutine"),  -- ListenerTx.World.socks sk / Mutex.start progs: one per iteration, any number (8 = Gen.Server.ipServerNumGoroutine, in no NTP theorem)
  (2, "conn, err := lc.ListenPacket(ctx, \"udp\", address)"),  -- env: socket creation + bind; the socket is ListenerTx.World.socks sk = LSock.init (kernel counter sent = 0, empty error queue)
  (2, "if err != nil"),  -- UNMODELLED: bind failure (port in use, no right to bind 123) ends the whole process; World.init assumes all 8 sockets exist
  (3, "logbase.FatalContext(ctx, log, \"failed to listen for packets\", slog.Any(\"error\", err))"),  -- UNMODELLED: log + os.Exit(1) (see row 6), also when earlier iterations' goroutines already serve; no start-up outcome in any model
  (2, "go runIPServer(ctx, log, mtrcs, conn.(*net.UDPConn), localHost.Zone, dscp, provider)")  -- ListenerTx.runEvs from LSock.init / ServerReply.runLoopN; Mutex.Thread each (shared tss); pin C12_pin_providerUses (provider passed on)
  ]

/-- core/server, StartSCIONServer -/
def ServerStart.StartSCIONServer : List Row := [
  (0, "func StartSCIONServer(ctx context.Context, log *slog.Logger, daemonAddr string, localHost *net.UDPAddr, dscp uint8, provider *ntske.Provider)"),  -- ScionSrv.serverCfg: the Cfg of each goroutine; ListenerTx.World.init (start-up has no model); harness c13 mode=srv, c06tx l=scion run it
  (1, "mtrcs := newSCIONServerMetrics()"),  -- env: metric registration (promauto; same metric names as StartSCIONDispatcher: both in one process would panic)
  (1, "if localHost.Port == scion.EndhostPort"),  -- UNMODELLED: guard svc port = EndhostPort; serverCfg takes any svc, C13_honest_request_served only assumes localHostPort != EndhostPort
  (2, "logbase.FatalContext(ctx, log, \"invalid listener port\", slog.Int(\"port\", localHost.Port))"),  -- UNMODELLED: log + os.Exit(1) (see row 2); no start-up outcome in any model (MainCfg.Res.fatal covers timeservice.go only)
  (1, "lc := net.ListenConfig{ Control: udp.SetsockoptReuseAddrPort}"),  -- env: SO_REUSEADDR + SO_REUSEPORT: 8 sockets share each port, the kernel picks one by 4-tuple = ListenerTx.Ev sk (input)
  (1, "for _, localHostPort := range []int{localHost.Port, scion.EndhostPort}"),  -- ScionSrv.serverCfg: argument connPort in {svc, EndhostPort} = the two socket groups (Driver C13 sock=svc|eh); pin C13_pin_EndhostPort
  (2, "address := net.JoinHostPort(localHost.IP.String(), strconv.Itoa(localHostPort))"),  -- ScionSrv.Cfg.connPort: port part = loop variable, read back in runSCIONServer via conn.LocalAddr(); host part env
  (2, "for range scionServerNumGoroutine"),  -- ListenerTx.World.socks sk: one LSock + goroutine per iteration, any number (8 = Gen.Server.scionServerNumGoroutine, used by no theorem)
  (3, "fetcher := scion.NewFetcher(scion.NewDaemonConnector(ctx, daemonAddr))"),  -- ScionSrv.serverCfg: fetcher := true, dcNil; Drkey.Fetcher {} + Drkey.Cfg.dc: own cache per goroutine; pin C13_pin_daemon_connector
  (3, "conn, err := lc.ListenPacket(ctx, \"udp\", address)"),  -- env: socket creation + bind; socket = ListenerTx.World.socks sk = LSock.init; its bound port = ScionSrv.Cfg.connPort
  (3, "if err != nil"),  -- UNMODELLED: bind failure (e.g. 30041 held by a dispatcher without SO_REUSEPORT) ends the process while up to 15 listeners serve
  (4, "logbase.FatalContext(ctx, log, \"failed to listen for packets\", slog.Any(\"error\", err))"),  -- UNMODELLED: log + os.Exit(1) (see row 10); World.init / ScionSrv.serve assume every socket of both groups exists
  (3, "go runSCIONServer(ctx, log, mtrcs, conn.(*net.UDPConn), localHost.Zone, localHost.Port, dscp, fetcher, provider)")  -- ScionSrv.serverCfg: localHostPort := svc for BOTH groups (localHost.Port, not the loop var); c13 op srv.handle sock=eh; pin C12_pin_providerUses
  ]

/-- core/server, StartSCIONDispatcher -/
def ServerStart.StartSCIONDispatcher : List Row := [
  (0, "func StartSCIONDispatcher(ctx context.Context, log *slog.Logger, localHost *net.UDPAddr)"),  -- ScionSrv.dispatcherCfg (C13_dispatcher_never_serves); ListenerTx.World: one LSock, Ev.aux only; harness c13 op srv.handle mode=disp
  (1, "mtrcs := newSCIONServerMetrics()"),  -- env: metric registration (promauto; same metric names as StartSCIONServer: both in one process would panic)
  (1, "if localHost.Port == scion.EndhostPort"),  -- UNMODELLED: guard: caller's port = EndhostPort is fatal although row 4 sets that very port; dispatcherCfg has no precondition
  (2, "logbase.FatalContext(ctx, log, \"invalid listener port\", slog.Int(\"port\", localHost.Port))"),  -- UNMODELLED: log + os.Exit(1) (see row 2); no model has a start-up outcome
  (1, "localHost.Port = scion.EndhostPort"),  -- ScionSrv.dispatcherCfg: connPort and localHostPort := EndhostPort (one variable feeds rows 6 and 10); writes the caller's UDPAddr
  (1, "lc := net.ListenConfig{}"),  -- env: default ListenConfig, no SO_REUSEPORT: exclusive bind of host:30041, a single socket = a single ListenerTx.LSock
  (1, "address := net.JoinHostPort(localHost.IP.String(), strconv.Itoa(localHost.Port))"),  -- ScionSrv.dispatcherCfg: connPort := EndhostPort (port part of the bind address, read back via conn.LocalAddr()); host part env
  (1, "conn, err := lc.ListenPacket(ctx, \"udp\", address)"),  -- env: socket creation + bind; the socket is ListenerTx.World.socks sk = LSock.init; bound port = ScionSrv.Cfg.connPort
  (1, "if err != nil"),  -- UNMODELLED: bind failure (30041 taken by another dispatcher / SCION server) ends the whole client or tool process
  (2, "logbase.FatalContext(ctx, log, \"failed to listen for packets\", slog.Any(\"error\", err))"),  -- UNMODELLED: log + os.Exit(1) (see row 8)
  (1, "go runSCIONServer(ctx, log, mtrcs, conn.(*net.UDPConn), localHost.Zone, localHost.Port, 0, nil, nil)")  -- ScionSrv.dispatcherCfg: localHostPort := EndhostPort, dscp := 0, fetcher := false; nil provider unused (handleG: drop endhost-port)
  ]

end ScionTime.Model.Skel
