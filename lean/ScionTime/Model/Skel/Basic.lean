/-
  Control skeletons (notes/SKEL.md).  A skeleton is the list of (depth, text) rows that
  harness/extract/skeleton.go renders from the body of a Go function: the tree of control
  statements with the canonical text of every condition, call and assignment, in source order,
  log and metric statements left out.  `Gen/Skel*.lean` holds the rows regenerated from /repo on
  every run, `Model/Skel/*.lean` the transcriptions the hand-written models were written against
  (each row annotated with the model definition that mirrors it), `Props/Skel*.lean` pins one to
  the other.  This file: the row type and the diagnostic printed when a pin breaks.  Core Lean only.
-/
namespace ScionTime.Model.Skel

abbrev Row := Nat × String

/-- longest-common-subsequence table of two row arrays: `t[i][j]` = length of an LCS of
    `a[i:]` and `b[j:]` -/
def lcsTable (a b : Array Row) : Array (Array Nat) := Id.run do
  let n := a.size
  let m := b.size
  let mut t : Array (Array Nat) := Array.replicate (n + 1) (Array.replicate (m + 1) 0)
  for i' in [0:n] do
    let i := n - 1 - i'
    let mut row := Array.replicate (m + 1) 0
    let below := t[i + 1]!
    for j' in [0:m] do
      let j := m - 1 - j'
      let v := if a[i]! == b[j]! then below[j + 1]! + 1 else max below[j]! row[j + 1]!
      row := row.set! j v
    t := t.set! i row
  return t

/-- the edit script from the transcription `a` to the regenerated rows `b`:
    `-[i]` a transcription row the code no longer has, `+[j]` a row of the code the transcription lacks -/
def editScript (a b : Array Row) : List String := Id.run do
  let t := lcsTable a b
  let mut i := 0
  let mut j := 0
  let mut out : Array String := #[]
  let fmt := fun (sign : String) (k : Nat) (r : Row) => s!"{sign}[{k}] ({r.1}) {r.2.take 160}"
  for _ in [0:a.size + b.size] do
    if i < a.size && j < b.size && a[i]! == b[j]! then
      i := i + 1; j := j + 1
    else if j < b.size && (i == a.size || t[i]![j + 1]! ≥ t[i + 1]![j]!) then
      out := out.push (fmt "+" j b[j]!); j := j + 1
    else if i < a.size then
      out := out.push (fmt "-" i a[i]!); i := i + 1
  return out.toList

/-- the rows that differ between `model` (transcription) and `gen` (regenerated), as a one-line
    message; `none` when the two are equal -/
def diffMsg (name : String) (gen model : List Row) : Option String :=
  if gen == model then none else
  let es := editScript model.toArray gen.toArray
  let shown := " ;; ".intercalate (es.take 10)
  let more := if es.length > 10 then s!" ;; … {es.length - 10} more" else ""
  some s!"SKEL-DIFF {name}: {es.length} row(s) differ from the transcription Model.Skel.{name} (-[i] transcription row the code no longer has, +[j] code row the transcription lacks): {shown}{more}"

/-- `#eval check …` in a Props module: an error naming the rows that differ (the theorem next to
    it is the proof obligation; this is only the diagnostic `check` copies into the replay file) -/
def check (name : String) (gen model : List Row) : IO Unit :=
  match diffMsg name gen model with
  | none => pure ()
  | some msg => throw (IO.userError msg)

end ScionTime.Model.Skel
