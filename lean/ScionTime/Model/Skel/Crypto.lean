/-
  Control skeletons of base/crypto as the models were written against them
  (notes/SKEL.md).  Each row: (depth, canonical text) as rendered by harness/extract/skeleton.go,
  followed by the model definition / branch that mirrors the statement.  Regenerated rows:
  Gen/SkelC15.lean; pins: Props/SkelC15.lean.  Core Lean only.
-/
import ScionTime.Model.Skel.Basic

namespace ScionTime.Model.Skel

/-- base/crypto, randInt31 -/
def Crypto.randInt31 : List Row := [
  (0, "func randInt31(ctx context.Context, n int) (int, error)"),  -- ?
  (1, "if n < 2"),  -- ?
  (2, "return 0, nil"),  -- ?
  (1, "if n > math.MaxInt32"),  -- ?
  (2, "panic(\"invalid argument: n must not be greater than 2147483647\")"),  -- ?
  (1, "t := uint32(-n) % uint32(n)"),  -- ?
  (1, "b := make([]byte, 4)"),  -- ?
  (1, "var x uint32"),  -- ?
  (1, "for"),  -- ?
  (2, "n, err := rand.Read(b)"),  -- ?
  (2, "if err != nil"),  -- ?
  (3, "return 0, err"),  -- ?
  (2, "if n != len(b)"),  -- ?
  (3, "panic(\"unexpected result from random number generator\")"),  -- ?
  (2, "x = binary.LittleEndian.Uint32(b)"),  -- ?
  (2, "if x > t"),  -- ?
  (3, "break"),  -- ?
  (2, "err = ctx.Err()"),  -- ?
  (2, "if err != nil"),  -- ?
  (3, "return 0, err"),  -- ?
  (1, "return int(x % uint32(n)), nil")  -- ?
  ]

/-- base/crypto, randInt63 -/
def Crypto.randInt63 : List Row := [
  (0, "func randInt63(ctx context.Context, n int) (int, error)"),  -- ?
  (1, "if n < 2"),  -- ?
  (2, "return 0, nil"),  -- ?
  (1, "t := uint64(-n) % uint64(n)"),  -- ?
  (1, "b := make([]byte, 8)"),  -- ?
  (1, "var x uint64"),  -- ?
  (1, "for"),  -- ?
  (2, "n, err := rand.Read(b)"),  -- ?
  (2, "if err != nil"),  -- ?
  (3, "return 0, err"),  -- ?
  (2, "if n != len(b)"),  -- ?
  (3, "panic(\"unexpected result from random number generator\")"),  -- ?
  (2, "x = binary.LittleEndian.Uint64(b)"),  -- ?
  (2, "if x > t"),  -- ?
  (3, "break"),  -- ?
  (2, "err = ctx.Err()"),  -- ?
  (2, "if err != nil"),  -- ?
  (3, "return 0, err"),  -- ?
  (1, "return int(x % uint64(n)), nil")  -- ?
  ]

/-- base/crypto, RandIntn -/
def Crypto.RandIntn : List Row := [
  (0, "func RandIntn(ctx context.Context, n int) (int, error)"),  -- ?
  (1, "if n <= 0"),  -- ?
  (2, "panic(\"invalid argument: n must be greater than 0\")"),  -- ?
  (1, "if n <= math.MaxInt32"),  -- ?
  (2, "return randInt31(ctx, n)"),  -- ?
  (1, "return randInt63(ctx, n)")  -- ?
  ]

/-- base/crypto, Sample -/
def Crypto.Sample : List Row := [
  (0, "func Sample(ctx context.Context, k, n int, pick func(dst, src int)) (int, error)"),  -- ?
  (1, "if k < 0"),  -- ?
  (2, "panic(\"invalid argument: k must be non-negative\")"),  -- ?
  (1, "if n < 0"),  -- ?
  (2, "panic(\"invalid argument: n must be non-negative\")"),  -- ?
  (1, "if n < k"),  -- ?
  (2, "k = n"),  -- ?
  (1, "for i := 0; i != k; i++"),  -- ?
  (2, "pick(i, i)"),  -- ?
  (1, "for i := k; i != n; i++"),  -- ?
  (2, "j, err := RandIntn(ctx, i+1)"),  -- ?
  (2, "if err != nil"),  -- ?
  (3, "return 0, err"),  -- ?
  (2, "if j < k"),  -- ?
  (3, "pick(j, i)"),  -- ?
  (1, "return k, nil")  -- ?
  ]

end ScionTime.Model.Skel
