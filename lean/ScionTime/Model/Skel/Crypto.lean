/-
  Control skeletons of base/crypto as the models were written against them
  (notes/SKEL.md).  Each row: (depth, canonical text) as rendered by harness/extract/skeleton.go,
  followed by the model definition / branch that mirrors the statement.  Regenerated rows:
  Gen/SkelC15.lean; pins: Props/SkelC15.lean.  Core Lean only.
-/
import ScionTime.Model.Skel.Basic

namespace ScionTime.Model.Skel

/-- base/crypto, randInt31 -/
def Crypto.randInt31 : List Row := [
  (0, "func randInt31(ctx context.Context, n int) (int, error)"),  -- Sample.randInt31: (n, cancelled, stream) -> value and rest of stream; harness c15 op rand.intn
  (1, "if n < 2"),  -- Sample.randInt31: if n < 2
  (2, "return 0, nil"),  -- Sample.randInt31: .ok (0, s) (no byte consumed)
  (1, "if n > math.MaxInt32"),  -- Sample.randInt31: else if n > maxInt32
  (2, "panic(\"invalid argument: n must not be greater than 2147483647\")"),  -- Sample.randInt31: .panic (n must not be greater than 2147483647)
  (1, "t := uint32(-n) % uint32(n)"),  -- Sample.thr31: (two32 - n) % n; pin C15_pin_threshold31
  (1, "b := make([]byte, 4)"),  -- Sample.draw31: 4 bytes per draw (pattern b0 :: ... :: rest); pin C15_pin_wordBytes
  (1, "var x uint32"),  -- env: variable declaration (x is the let x := le32 ... of the draw function)
  (1, "for"),  -- Sample.draw31: rejection loop as structural recursion on the stream
  (2, "n, err := rand.Read(b)"),  -- Sample.draw31: next 4 bytes of the argument Stream (crypto/rand.Reader is a byte stream given as input)
  (2, "if err != nil"),  -- Sample.draw31: | _ => .err .exhausted (scripted stream ran out; dead branch with Go >= 1.24, Sample.lean header)
  (3, "return 0, err"),  -- Sample.draw31: .err .exhausted (the Go error value itself is not modelled)
  (2, "if n != len(b)"),  -- env: crypto/rand contract (Go >= 1.24: Read fills b or crashes): dead branch (Sample.lean header), no model branch
  (3, "panic(\"unexpected result from random number generator\")"),  -- env: dead branch by the crypto/rand contract; no Res.panic mirrors it, a short stream is .err .exhausted instead
  (2, "x = binary.LittleEndian.Uint32(b)"),  -- Sample.le32: little-endian word of the 4 bytes
  (2, "if x > t"),  -- Sample.draw31: if x > t; pin C15_pin_accept (x > t, not Lemire's x >= t)
  (3, "break"),  -- Sample.draw31: .ok (x % n, rest): loop left with the accepted word
  (2, "err = ctx.Err()"),  -- Sample.draw31: argument cancelled (one Bool for the whole call; Go re-reads ctx.Err() after every rejected draw)
  (2, "if err != nil"),  -- Sample.draw31: else if cancelled
  (3, "return 0, err"),  -- Sample.draw31: .err .cancelled
  (1, "return int(x % uint32(n)), nil")  -- Sample.draw31: .ok (x % n, rest); pin C15_pin_result
  ]

/-- base/crypto, randInt63 -/
def Crypto.randInt63 : List Row := [
  (0, "func randInt63(ctx context.Context, n int) (int, error)"),  -- Sample.randInt63: (n, cancelled, stream) -> value and rest of stream; harness c15 op rand.intn
  (1, "if n < 2"),  -- Sample.randInt63: if n < 2
  (2, "return 0, nil"),  -- Sample.randInt63: .ok (0, s) (no byte consumed)
  (1, "t := uint64(-n) % uint64(n)"),  -- Sample.thr63: (two64 - n) % n; pin C15_pin_threshold63
  (1, "b := make([]byte, 8)"),  -- Sample.draw63: 8 bytes per draw (pattern b0 :: ... :: rest); pin C15_pin_wordBytes
  (1, "var x uint64"),  -- env: variable declaration (x is the let x := le64 ... of the draw function)
  (1, "for"),  -- Sample.draw63: rejection loop as structural recursion on the stream
  (2, "n, err := rand.Read(b)"),  -- Sample.draw63: next 8 bytes of the argument Stream (crypto/rand.Reader is a byte stream given as input)
  (2, "if err != nil"),  -- Sample.draw63: | _ => .err .exhausted (scripted stream ran out; dead branch with Go >= 1.24, Sample.lean header)
  (3, "return 0, err"),  -- Sample.draw63: .err .exhausted (the Go error value itself is not modelled)
  (2, "if n != len(b)"),  -- env: crypto/rand contract (Go >= 1.24: Read fills b or crashes): dead branch (Sample.lean header), no model branch
  (3, "panic(\"unexpected result from random number generator\")"),  -- env: dead branch by the crypto/rand contract; no Res.panic mirrors it, a short stream is .err .exhausted instead
  (2, "x = binary.LittleEndian.Uint64(b)"),  -- Sample.le64: little-endian word of the 8 bytes
  (2, "if x > t"),  -- Sample.draw63: if x > t; pin C15_pin_accept (x > t, not Lemire's x >= t)
  (3, "break"),  -- Sample.draw63: .ok (x % n, rest): loop left with the accepted word
  (2, "err = ctx.Err()"),  -- Sample.draw63: argument cancelled (one Bool for the whole call; Go re-reads ctx.Err() after every rejected draw)
  (2, "if err != nil"),  -- Sample.draw63: else if cancelled
  (3, "return 0, err"),  -- Sample.draw63: .err .cancelled
  (1, "return int(x % uint64(n)), nil")  -- Sample.draw63: .ok (x % n, rest); pin C15_pin_result
  ]

/-- base/crypto, RandIntn -/
def Crypto.RandIntn : List Row := [
  (0, "func RandIntn(ctx context.Context, n int) (int, error)"),  -- Sample.randIntn: (n : Int, cancelled, stream); harness c15 op rand.intn; C15_randIntn_dispatch
  (1, "if n <= 0"),  -- Sample.randIntn: if n <= 0; pin C15_pin_dispatch
  (2, "panic(\"invalid argument: n must be greater than 0\")"),  -- Sample.randIntn: .panic (n must be greater than 0)
  (1, "if n <= math.MaxInt32"),  -- Sample.randIntn: else if n <= maxInt32; pin C15_pin_dispatch
  (2, "return randInt31(ctx, n)"),  -- Sample.randIntn: randInt31 n.toNat cancelled s
  (1, "return randInt63(ctx, n)")  -- Sample.randIntn: else randInt63 n.toNat cancelled s
  ]

/-- base/crypto, Sample -/
def Crypto.Sample : List Row := [
  (0, "func Sample(ctx context.Context, k, n int, pick func(dst, src int)) (int, error)"),  -- Sample.sample: (k, n, cancelled, stream) -> (k', pick calls in order, rest); harness c15 op rand.sample
  (1, "if k < 0"),  -- Sample.sample: if k < 0
  (2, "panic(\"invalid argument: k must be non-negative\")"),  -- Sample.sample: .panic (k must be non-negative)
  (1, "if n < 0"),  -- Sample.sample: else if n < 0
  (2, "panic(\"invalid argument: n must be non-negative\")"),  -- Sample.sample: .panic (n must be non-negative)
  (1, "if n < k"),  -- Sample.sample: k' := if n' < k.toNat then n' else k.toNat
  (2, "k = n"),  -- Sample.sample: k' := n'
  (1, "for i := 0; i != k; i++"),  -- Sample.sample: (List.range k').map (fun i => (i, i)); pin C15_pin_sample (Sample_loops)
  (2, "pick(i, i)"),  -- Sample.sample: pick (i, i) for i < k' (Sample.applyPicks: ps[dst] = ps[src], a no-op here)
  (1, "for i := k; i != n; i++"),  -- Sample.sampleLoop: n' - k' iterations from index k' (sampleLoopWith m i s); pin C15_pin_sample (Sample_loops)
  (2, "j, err := RandIntn(ctx, i+1)"),  -- Sample.sampleLoopWith: match rnd (i + 1) cancelled s (rnd = randIntn); pin C15_pin_sample (Sample_draw)
  (2, "if err != nil"),  -- Sample.sampleLoopWith: | .err e => .err e (| .panic p => .panic p for RandIntn's panic)
  (3, "return 0, err"),  -- Sample.sampleLoopWith: .err e; pick calls made before the error are not reported (nor by Multipath.arrayAfter)
  (2, "if j < k"),  -- Sample.sampleLoopWith: if j < k then [(j, i)] else []; pin C15_pin_sample (Sample_pickCond)
  (3, "pick(j, i)"),  -- Sample.sampleLoopWith: [(j, i)]; pin C15_pin_sample (Sample_pick); Sample.applyPicks; C15_sample_is_reservoir
  (1, "return k, nil")  -- Sample.sample: .ok (k', picks, s')
  ]

end ScionTime.Model.Skel
