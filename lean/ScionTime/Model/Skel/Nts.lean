/-
  Control skeletons of net/nts as the models were written against them
  (notes/SKEL.md).  Each row: (depth, canonical text) as rendered by harness/extract/skeleton.go,
  followed by the model definition / branch that mirrors the statement.  Regenerated rows:
  Gen/SkelC10.lean; pins: Props/SkelC10.lean.  Core Lean only.
-/
import ScionTime.Model.Skel.Basic

namespace ScionTime.Model.Skel

/-- net/nts, NewRequestPacket -/
def Nts.NewRequestPacket : List Row := [
  (0, "func NewRequestPacket(ntskeData ntske.Data) (pkt Packet, uniqueid []byte)"),  -- ?
  (1, "id, err := newID()"),  -- ?
  (1, "if err != nil"),  -- ?
  (2, "panic(err)"),  -- ?
  (1, "var uid UniqueIdentifier"),  -- ?
  (1, "uid.ID = id"),  -- ?
  (1, "pkt.UniqueID = uid"),  -- ?
  (1, "var cookie Cookie"),  -- ?
  (1, "cookie.Cookie = ntskeData.Cookie[0]"),  -- ?
  (1, "pkt.Cookies = append(pkt.Cookies, cookie)"),  -- ?
  (1, "maxCookies := maxNumCookies(len(id), len(cookie.Cookie))"),  -- ?
  (1, "cookiePlaceholderData := make([]byte, len(cookie.Cookie))"),  -- ?
  (1, "for i := len(ntskeData.Cookie); i < numStoredCookies && 1+len(pkt.CookiePlaceholders) < maxCookies; i++"),  -- ?
  (2, "var cookiePlacholder CookiePlaceholder"),  -- ?
  (2, "cookiePlacholder.Cookie = cookiePlaceholderData"),  -- ?
  (2, "pkt.CookiePlaceholders = append(pkt.CookiePlaceholders, cookiePlacholder)"),  -- ?
  (1, "var auth Authenticator"),  -- ?
  (1, "auth.Key = ntskeData.C2sKey"),  -- ?
  (1, "pkt.Auth = auth"),  -- ?
  (1, "return pkt, id")  -- ?
  ]

/-- net/nts, maxNumCookies -/
def Nts.maxNumCookies : List Row := [
  (0, "func maxNumCookies(uidLen, cookieLen int) int"),  -- ?
  (1, "n := MaxPacketLen - ntpPacketLen - (4 + (uidLen+3) & ^3) - (4 + 4 + 16 + 16)"),  -- ?
  (1, "if n < 0"),  -- ?
  (2, "return 0"),  -- ?
  (1, "return n / (4 + (cookieLen+3) & ^3)")  -- ?
  ]

/-- net/nts, EncodePacket -/
def Nts.EncodePacket : List Row := [
  (0, "func EncodePacket(b *[]byte, pkt *Packet)"),  -- ?
  (1, "if len(*b) != ntpPacketLen"),  -- ?
  (2, "panic(\"unexpected NTP header\")"),  -- ?
  (1, "if cap(*b) < MaxPacketLen"),  -- ?
  (2, "*b = append(make([]byte, 0, MaxPacketLen), (*b)...)"),  -- ?
  (1, "*b = (*b)[:MaxPacketLen]"),  -- ?
  (1, "pos := ntpPacketLen"),  -- ?
  (1, "pos, err := pkt.UniqueID.pack(*b, pos)"),  -- ?
  (1, "if err != nil"),  -- ?
  (2, "panic(err)"),  -- ?
  (1, "for _, c := range pkt.Cookies"),  -- ?
  (2, "pos, err = c.pack(*b, pos)"),  -- ?
  (2, "if err != nil"),  -- ?
  (3, "panic(err)"),  -- ?
  (1, "for _, c := range pkt.CookiePlaceholders"),  -- ?
  (2, "pos, err = c.pack(*b, pos)"),  -- ?
  (2, "if err != nil"),  -- ?
  (3, "panic(err)"),  -- ?
  (1, "pos, err = pkt.Auth.pack(*b, pos)"),  -- ?
  (1, "if err != nil"),  -- ?
  (2, "panic(err)"),  -- ?
  (1, "*b = (*b)[:pos]")  -- ?
  ]

/-- net/nts, DecodePacket -/
def Nts.DecodePacket : List Row := [
  (0, "func DecodePacket(pkt *Packet, b []byte) (err error)"),  -- ?
  (1, "pos := ntpPacketLen"),  -- ?
  (1, "foundUniqueID := false"),  -- ?
  (1, "foundAuthenticator := false"),  -- ?
  (1, "for len(b)-pos >= 28 && !foundAuthenticator"),  -- ?
  (2, "var eh extHdr"),  -- ?
  (2, "eh.unpack(b, pos)"),  -- ?
  (2, "if eh.Length < 4 || int(eh.Length) > len(b)-pos"),  -- ?
  (3, "return errInvalidExtLength"),  -- ?
  (2, "pos += 4"),  -- ?
  (2, "switch eh.Type"),  -- ?
  (3, "case extUniqueIdentifier"),  -- ?
  (4, "u := UniqueIdentifier{extHdr: eh}"),  -- ?
  (4, "err = u.unpack(b, pos)"),  -- ?
  (4, "if err != nil"),  -- ?
  (5, "return err"),  -- ?
  (4, "pkt.UniqueID = u"),  -- ?
  (4, "foundUniqueID = true"),  -- ?
  (3, "case extAuthenticator"),  -- ?
  (4, "a := Authenticator{extHdr: eh}"),  -- ?
  (4, "err = a.unpack(b, pos)"),  -- ?
  (4, "if err != nil"),  -- ?
  (5, "return err"),  -- ?
  (4, "a.pos = pos - 4"),  -- ?
  (4, "pkt.Auth = a"),  -- ?
  (4, "foundAuthenticator = true"),  -- ?
  (3, "case extCookie"),  -- ?
  (4, "cookie := Cookie{extHdr: eh}"),  -- ?
  (4, "err = cookie.unpack(b, pos)"),  -- ?
  (4, "if err != nil"),  -- ?
  (5, "return err"),  -- ?
  (4, "pkt.Cookies = append(pkt.Cookies, cookie)"),  -- ?
  (3, "case extCookiePlaceholder"),  -- ?
  (4, "cookie := CookiePlaceholder{extHdr: eh}"),  -- ?
  (4, "err = cookie.unpack(b, pos)"),  -- ?
  (4, "if err != nil"),  -- ?
  (5, "return err"),  -- ?
  (4, "pkt.CookiePlaceholders = append(pkt.CookiePlaceholders, cookie)"),  -- ?
  (3, "default"),  -- ?
  (2, "pos += int(eh.Length) - 4"),  -- ?
  (1, "if !foundUniqueID"),  -- ?
  (2, "return errNoUniqueID"),  -- ?
  (1, "if !foundAuthenticator"),  -- ?
  (2, "return errNoAuthenticator"),  -- ?
  (1, "return nil")  -- ?
  ]

/-- net/nts, Packet.FirstCookie -/
def Nts.Packet_FirstCookie : List Row := [
  (0, "func (pkt *Packet) FirstCookie() ([]byte, error)"),  -- ?
  (1, "var cookie []byte"),  -- ?
  (1, "if len(pkt.Cookies) == 0"),  -- ?
  (2, "return cookie, errNoCookies"),  -- ?
  (1, "cookie = pkt.Cookies[0].Cookie"),  -- ?
  (1, "return cookie, nil")  -- ?
  ]

/-- net/nts, Packet.authenticate -/
def Nts.Packet_authenticate : List Row := [
  (0, "func (pkt *Packet) authenticate(b []byte, key []byte) error"),  -- ?
  (1, "aessiv, err := miscreant.NewAEAD(\"AES-CMAC-SIV\", key, 16)"),  -- ?
  (1, "if err != nil"),  -- ?
  (2, "return err"),  -- ?
  (1, "if len(pkt.Auth.Nonce) != aessiv.NonceSize()"),  -- ?
  (2, "return errUnexpectedNonceLen"),  -- ?
  (1, "decrytedBuf, err := aessiv.Open(nil, pkt.Auth.Nonce, pkt.Auth.CipherText, b[:pkt.Auth.pos])"),  -- ?
  (1, "if err != nil"),  -- ?
  (2, "return err"),  -- ?
  (1, "pos := 0"),  -- ?
  (1, "for len(decrytedBuf)-pos >= 28"),  -- ?
  (2, "var eh extHdr"),  -- ?
  (2, "eh.unpack(decrytedBuf, pos)"),  -- ?
  (2, "if eh.Length < 4 || int(eh.Length) > len(decrytedBuf)-pos"),  -- ?
  (3, "return errInvalidExtLength"),  -- ?
  (2, "pos += 4"),  -- ?
  (2, "switch eh.Type"),  -- ?
  (3, "case extCookie"),  -- ?
  (4, "cookie := Cookie{extHdr: eh}"),  -- ?
  (4, "err = cookie.unpack(decrytedBuf, pos)"),  -- ?
  (4, "if err != nil"),  -- ?
  (5, "return err"),  -- ?
  (4, "pkt.Cookies = append(pkt.Cookies, cookie)"),  -- ?
  (2, "pos += int(eh.Length) - 4"),  -- ?
  (1, "return nil")  -- ?
  ]

/-- net/nts, ProcessResponse -/
def Nts.ProcessResponse : List Row := [
  (0, "func ProcessResponse(b []byte, key []byte, ntskeFetcher *ntske.Fetcher, pkt *Packet, reqID []byte) error"),  -- ?
  (1, "if !bytes.Equal(reqID, pkt.UniqueID.ID)"),  -- ?
  (2, "return errUnexpectedResponseID"),  -- ?
  (1, "err := pkt.authenticate(b, key)"),  -- ?
  (1, "if err != nil"),  -- ?
  (2, "return err"),  -- ?
  (1, "for _, cookie := range pkt.Cookies"),  -- ?
  (2, "ntskeFetcher.StoreCookie(cookie.Cookie)"),  -- ?
  (1, "return nil")  -- ?
  ]

/-- net/nts, NewResponsePacket -/
def Nts.NewResponsePacket : List Row := [
  (0, "func NewResponsePacket(cookies [][]byte, key []byte, uniqueid []byte) (pkt Packet)"),  -- ?
  (1, "var uid UniqueIdentifier"),  -- ?
  (1, "uid.ID = uniqueid"),  -- ?
  (1, "pkt.UniqueID = uid"),  -- ?
  (1, "maxCookies := max(1, maxNumCookies(len(uniqueid), len(cookies[0])))"),  -- ?
  (1, "if len(cookies) > maxCookies"),  -- ?
  (2, "cookies = cookies[:maxCookies]"),  -- ?
  (1, "lencookies := len(cookies) * (4 + len(cookies[0]))"),  -- ?
  (1, "buf := make([]byte, lencookies)"),  -- ?
  (1, "var err error"),  -- ?
  (1, "pos := 0"),  -- ?
  (1, "for _, c := range cookies"),  -- ?
  (2, "var cookie Cookie"),  -- ?
  (2, "cookie.Cookie = c"),  -- ?
  (2, "pos, err = cookie.pack(buf, pos)"),  -- ?
  (2, "if err != nil"),  -- ?
  (3, "panic(err)"),  -- ?
  (1, "var auth Authenticator"),  -- ?
  (1, "auth.Key = key"),  -- ?
  (1, "auth.PlainText = buf"),  -- ?
  (1, "pkt.Auth = auth"),  -- ?
  (1, "return pkt")  -- ?
  ]

/-- net/nts, ProcessRequest -/
def Nts.ProcessRequest : List Row := [
  (0, "func ProcessRequest(b []byte, key []byte, pkt *Packet) error"),  -- ?
  (1, "if len(pkt.UniqueID.ID) < 32"),  -- ?
  (2, "return errShortUniqueID"),  -- ?
  (1, "if len(pkt.Cookies) != 0 && maxNumCookies(len(pkt.UniqueID.ID), len(pkt.Cookies[0].Cookie)) < 1"),  -- ?
  (2, "return errRequestTooLarge"),  -- ?
  (1, "err := pkt.authenticate(b, key)"),  -- ?
  (1, "if err != nil"),  -- ?
  (2, "return err"),  -- ?
  (1, "return nil")  -- ?
  ]

end ScionTime.Model.Skel
