/-
  Control skeletons of net/nts as the models were written against them
  (notes/SKEL.md).  Each row: (depth, canonical text) as rendered by harness/extract/skeleton.go,
  followed by the model definition / branch that mirrors the statement.  Regenerated rows:
  Gen/SkelC10.lean; pins: Props/SkelC10.lean.  Core Lean only.
-/
import ScionTime.Model.Skel.Basic

namespace ScionTime.Model.Skel

/-- net/nts, NewRequestPacket -/
def Nts.NewRequestPacket : List Row := [
  (0, "func NewRequestPacket(ntskeData ntske.Data) (pkt Packet, uniqueid []byte)"),  -- Nts.newRequestPacketG: fixed := true (newRequestPacket); harness c10 op nts.newreq, cl.request; NtsPool.request
  (1, "id, err := newID()"),  -- env: crypto/rand (newID, 32 bytes); result is argument uid (NtsPool.request: copyN 32 rnd; harness rand=)
  (1, "if err != nil"),  -- env: crypto/rand failure outside the model (Go 1.24 rand.Read never returns an error; rand stream is total)
  (2, "panic(err)"),  -- env: crypto/rand failure outside the model (dead with Go 1.24: rand.Read crashes instead of returning err)
  (1, "var uid UniqueIdentifier"),  -- env: variable declaration, no behaviour
  (1, "uid.ID = id"),  -- Nts.newRequestPacketG: uid := uid
  (1, "pkt.UniqueID = uid"),  -- Nts.newRequestPacketG: uid := uid (Packet.uid)
  (1, "var cookie Cookie"),  -- env: variable declaration, no behaviour
  (1, "cookie.Cookie = ntskeData.Cookie[0]"),  -- Nts.newRequestPacketG: match pool | [] => .panic .index | c :: _ (pool = ntskeData.Cookie)
  (1, "pkt.Cookies = append(pkt.Cookies, cookie)"),  -- Nts.newRequestPacketG: cookies := [c]
  (1, "maxCookies := maxNumCookies(len(id), len(cookie.Cookie))"),  -- Nts.newRequestPacketG: maxNumCookies 32 c.length (constant 32 = len(newID()), not uid.length)
  (1, "cookiePlaceholderData := make([]byte, len(cookie.Cookie))"),  -- Nts.newRequestPacketG: zeros c.length
  (1, "for i := len(ntskeData.Cookie); i < numStoredCookies && 1+len(pkt.CookiePlaceholders) < maxCookies; i++"),  -- Nts.newRequestPacketG: whole loop as nph := min (numStoredCookies - pool.length) (maxNumCookies 32 c.length - 1)
  (2, "var cookiePlacholder CookiePlaceholder"),  -- env: variable declaration, no behaviour
  (2, "cookiePlacholder.Cookie = cookiePlaceholderData"),  -- Nts.newRequestPacketG: element zeros c.length of List.replicate (all placeholders share one slice in Go)
  (2, "pkt.CookiePlaceholders = append(pkt.CookiePlaceholders, cookiePlacholder)"),  -- Nts.newRequestPacketG: placeholders := List.replicate nph (zeros c.length)
  (1, "var auth Authenticator"),  -- env: variable declaration, no behaviour
  (1, "auth.Key = ntskeData.C2sKey"),  -- Nts.newRequestPacketG: key := c2s
  (1, "pkt.Auth = auth"),  -- Nts.newRequestPacketG: key := c2s, pt := [] (nonce and ciphertext are made by packAuth)
  (1, "return pkt, id")  -- Nts.newRequestPacketG: .ok {..}; id = argument uid (NtsPool.request: reqId := uid; nts.newreq: inconsistent-id)
  ]

/-- net/nts, maxNumCookies -/
def Nts.maxNumCookies : List Row := [
  (0, "func maxNumCookies(uidLen, cookieLen int) int"),  -- Nts.maxNumCookies: harness via nts.newreq, nts.newresp, nts.req, srv.reply; Props/C11 C11_budget_*
  (1, "n := MaxPacketLen - ntpPacketLen - (4 + (uidLen+3) & ^3) - (4 + 4 + 16 + 16)"),  -- Nts.maxNumCookies: numerator maxPacketLen - ntpPacketLen - (4 + pad4 uidLen) - 40 (Nat, truncated subtraction)
  (1, "if n < 0"),  -- Nts.maxNumCookies: Nat subtraction stops at 0 (C11_budget_by_uid: 0 beyond 804 bytes)
  (2, "return 0"),  -- Nts.maxNumCookies: 0 / (4 + pad4 cookieLen) = 0
  (1, "return n / (4 + (cookieLen+3) & ^3)")  -- Nts.maxNumCookies: numerator / (4 + pad4 cookieLen); pad4 n = (n + 3) / 4 * 4
  ]

/-- net/nts, EncodePacket -/
def Nts.EncodePacket : List Row := [
  (0, "func EncodePacket(b *[]byte, pkt *Packet)"),  -- Nts.encodePacketG: fixed := true (encodePacket); harness c10 ops nts.enc, cl.request, srv.reply
  (1, "if len(*b) != ntpPacketLen"),  -- Nts.encodePacketG: if hdr.length != ntpPacketLen
  (2, "panic(\"unexpected NTP header\")"),  -- Nts.encodePacketG: .panic .header
  (1, "if cap(*b) < MaxPacketLen"),  -- Nts.encodePacketG: abstracted, buffer = bytes written so far, cap := maxPacketLen (nts.enc: cap 48, srv.reply: 2048)
  (2, "*b = append(make([]byte, 0, MaxPacketLen), (*b)...)"),  -- env: buffer allocation (the model keeps only the bytes written; the first 48 are hdr)
  (1, "*b = (*b)[:MaxPacketLen]"),  -- Nts.putHdr: argument cap := maxPacketLen, also Nts.copyTrunc (writes stop at 1024)
  (1, "pos := ntpPacketLen"),  -- Nts.encodePacketG: out := hdr, pos = out.length = 48
  (1, "pos, err := pkt.UniqueID.pack(*b, pos)"),  -- Nts.packUid: maxPacketLen hdr p.uid (packValue extUniqueIdentifier)
  (1, "if err != nil"),  -- Nts.errToPanic: | .err .shortUid (id.length < 32 in packUid)
  (2, "panic(err)"),  -- Nts.errToPanic: .panic .shortUid
  (1, "for _, c := range pkt.Cookies"),  -- Nts.packList: maxPacketLen extCookie p.cookies out
  (2, "pos, err = c.pack(*b, pos)"),  -- Nts.packValue: cap extCookie out c (putHdr: .panic .index when fewer than 4 bytes left; copyTrunc)
  (2, "if err != nil"),  -- Nts.packValue: never .err (Cookie.pack always returns nil): dead branch
  (3, "panic(err)"),  -- Nts.packValue: never .err: dead branch
  (1, "for _, c := range pkt.CookiePlaceholders"),  -- Nts.packList: maxPacketLen (phType fixed) p.placeholders out
  (2, "pos, err = c.pack(*b, pos)"),  -- Nts.packValue: cap (phType true = extCookiePlaceholder) out c (F5: phType false = extCookie)
  (2, "if err != nil"),  -- Nts.packValue: never .err (CookiePlaceholder.pack always returns nil): dead branch
  (3, "panic(err)"),  -- Nts.packValue: never .err: dead branch
  (1, "pos, err = pkt.Auth.pack(*b, pos)"),  -- Nts.packAuth: A maxPacketLen out p.key p.pt nonce (nonce = 16 bytes of crypto/rand, harness rand=)
  (1, "if err != nil"),  -- Nts.errToPanic: | .err .keySize (NewAEAD in packAuth); rand.Read error of Authenticator.pack: env (dead, Go 1.24)
  (2, "panic(err)"),  -- Nts.errToPanic: .panic .keySize
  (1, "*b = (*b)[:pos]")  -- Nts.encodePacketG: result out (pos = out.length)
  ]

/-- net/nts, DecodePacket -/
def Nts.DecodePacket : List Row := [
  (0, "func DecodePacket(pkt *Packet, b []byte) (err error)"),  -- Nts.decodePacketG: chk := true (decodePacket); harness c10 ops nts.dec, nts.req, nts.resp, srv.reply
  (1, "pos := ntpPacketLen"),  -- Nts.decodePacketG: rest := b.drop ntpPacketLen (rest = b[pos:], total := b.length)
  (1, "foundUniqueID := false"),  -- Nts.decLoop: argument fu := false
  (1, "foundAuthenticator := false"),  -- Nts.decLoop: result component fa (false while the loop runs)
  (1, "for len(b)-pos >= 28 && !foundAuthenticator"),  -- Nts.decLoop: if rest.length < 28 then .ok (fu, false, d); the authenticator branch returns without recursion
  (2, "var eh extHdr"),  -- env: variable declaration, no behaviour
  (2, "eh.unpack(b, pos)"),  -- Nts.decLoop: | a :: b :: c :: e :: body => t := u16 a b, l := u16 c e
  (2, "if eh.Length < 4 || int(eh.Length) > len(b)-pos"),  -- Nts.decLoop: chk && (l < 4 || l > rest.length) (F2 repair)
  (3, "return errInvalidExtLength"),  -- Nts.decLoop: .err .extLen
  (2, "pos += 4"),  -- Nts.decLoop: body = rest behind the 4 header bytes
  (2, "switch eh.Type"),  -- Nts.decLoop: if t = .. else if chain
  (3, "case extUniqueIdentifier"),  -- Nts.decLoop: t = extUniqueIdentifier (pin C14Nts_pin_extUniqueIdentifier)
  (4, "u := UniqueIdentifier{extHdr: eh}"),  -- Nts.valueLen: l (eh.Length kept for Length - 4 in uint16)
  (4, "err = u.unpack(b, pos)"),  -- Nts.decLoop: copyN (valueLen l) body (UniqueIdentifier.unpack; copy from b[pos:], not limited to the field)
  (4, "if err != nil"),  -- Nts.decLoop: no branch, unpack's type check cannot fail behind the switch (Err.extType never produced)
  (5, "return err"),  -- Nts.decLoop: no branch (dead: errUnexpectedExtHdrType unreachable here)
  (4, "pkt.UniqueID = u"),  -- Nts.decLoop: { d with uid := .. }
  (4, "foundUniqueID = true"),  -- Nts.decLoop: recursive call with fu := true
  (3, "case extAuthenticator"),  -- Nts.decLoop: t = extAuthenticator (pin C10_pin_extAuthenticator)
  (4, "a := Authenticator{extHdr: eh}"),  -- Nts.unpackAuth: argument body (header only supplies the type)
  (4, "err = a.unpack(b, pos)"),  -- Nts.unpackAuth: nonce := copyN nl r, ct := copyN cl (r.drop (min nl r.length)); lengths not checked against the field
  (4, "if err != nil"),  -- Nts.decLoop: match unpackAuth body | .err x => .err x (never produced: type check dead)
  (5, "return err"),  -- Nts.decLoop: | .err x => .err x (dead)
  (4, "a.pos = pos - 4"),  -- Nts.decLoop: pos := total - rest.length (Props/C10 C10_authPos)
  (4, "pkt.Auth = a"),  -- Nts.decLoop: { d with nonce := nonce, ct := ct, pos := .. }
  (4, "foundAuthenticator = true"),  -- Nts.decLoop: .ok (fu, true, ..), the loop ends
  (3, "case extCookie"),  -- Nts.decLoop: t = extCookie (pin C14Nts_pin_extCookie)
  (4, "cookie := Cookie{extHdr: eh}"),  -- Nts.valueLen: l
  (4, "err = cookie.unpack(b, pos)"),  -- Nts.decLoop: copyN (valueLen l) body (Cookie.unpack)
  (4, "if err != nil"),  -- Nts.decLoop: no branch, unpack's type check cannot fail behind the switch
  (5, "return err"),  -- Nts.decLoop: no branch (dead)
  (4, "pkt.Cookies = append(pkt.Cookies, cookie)"),  -- Nts.decLoop: cookies := d.cookies ++ [..], d starts as {}; fresh pkt: pin C11_pin_recvLoopPacketScope (clients only)
  (3, "case extCookiePlaceholder"),  -- Nts.decLoop: t = extCookiePlaceholder (pin C14Nts_pin_extCookiePlaceholder)
  (4, "cookie := CookiePlaceholder{extHdr: eh}"),  -- Nts.Decoded.nph: placeholders carry no data after unpack
  (4, "err = cookie.unpack(b, pos)"),  -- Nts.decLoop: nothing read (CookiePlaceholder.unpack only checks the type)
  (4, "if err != nil"),  -- Nts.decLoop: no branch, unpack's type check cannot fail behind the switch
  (5, "return err"),  -- Nts.decLoop: no branch (dead)
  (4, "pkt.CookiePlaceholders = append(pkt.CookiePlaceholders, cookie)"),  -- Nts.decLoop: nph := d.nph + 1
  (3, "default"),  -- Nts.decLoop: else decLoop .. fu d (field skipped)
  (2, "pos += int(eh.Length) - 4"),  -- Nts.decLoop: rest.drop l (l = 0 => .hang only for chk = false)
  (1, "if !foundUniqueID"),  -- Nts.decodePacketG: if !fu
  (2, "return errNoUniqueID"),  -- Nts.decodePacketG: .err .noUid
  (1, "if !foundAuthenticator"),  -- Nts.decodePacketG: else if !fa
  (2, "return errNoAuthenticator"),  -- Nts.decodePacketG: .err .noAuth
  (1, "return nil")  -- Nts.decodePacketG: .ok d
  ]

/-- net/nts, Packet.FirstCookie -/
def Nts.Packet_FirstCookie : List Row := [
  (0, "func (pkt *Packet) FirstCookie() ([]byte, error)"),  -- Nts.firstCookie: harness c10 op srv.reply (listeners' branch, Nts.serverReplyG)
  (1, "var cookie []byte"),  -- env: variable declaration (nil slice returned next to the error)
  (1, "if len(pkt.Cookies) == 0"),  -- Nts.firstCookie: match d.cookies | []
  (2, "return cookie, errNoCookies"),  -- Nts.firstCookie: .err .noCookies
  (1, "cookie = pkt.Cookies[0].Cookie"),  -- Nts.firstCookie: | c :: _
  (1, "return cookie, nil")  -- Nts.firstCookie: .ok c
  ]

/-- net/nts, Packet.authenticate -/
def Nts.Packet_authenticate : List Row := [
  (0, "func (pkt *Packet) authenticate(b []byte, key []byte) error"),  -- Nts.authenticateG: chk := true; result = pkt.Cookies afterwards; harness c10 ops nts.req, nts.resp
  (1, "aessiv, err := miscreant.NewAEAD(\"AES-CMAC-SIV\", key, 16)"),  -- Nts.keyOk: key length 32 or 64 (miscreant.NewAEAD contract; the AEAD itself is the parameter A)
  (1, "if err != nil"),  -- Nts.authenticateG: if !keyOk key
  (2, "return err"),  -- Nts.authenticateG: .err .keySize
  (1, "if len(pkt.Auth.Nonce) != aessiv.NonceSize()"),  -- Nts.authenticateG: chk && d.nonce.length != 16 (F16 repair; NonceSize() = 16)
  (2, "return errUnexpectedNonceLen"),  -- Nts.authenticateG: .err .nonceLen
  (1, "decrytedBuf, err := aessiv.Open(nil, pkt.Auth.Nonce, pkt.Auth.CipherText, b[:pkt.Auth.pos])"),  -- Nts.openC: A key d.nonce d.ct (some (b.take d.pos)); harness open= table; d.pos <= len(b) by C10_authPos
  (1, "if err != nil"),  -- Nts.openC: | none => .err .auth
  (2, "return err"),  -- Nts.openC: .err .auth
  (1, "pos := 0"),  -- Nts.ptLoop: rest := pt (fuel pt.length + 1)
  (1, "for len(decrytedBuf)-pos >= 28"),  -- Nts.ptLoop: if rest.length < 28 then .ok cs
  (2, "var eh extHdr"),  -- env: variable declaration, no behaviour
  (2, "eh.unpack(decrytedBuf, pos)"),  -- Nts.ptLoop: | a :: b :: c :: e :: body => t := u16 a b, l := u16 c e
  (2, "if eh.Length < 4 || int(eh.Length) > len(decrytedBuf)-pos"),  -- Nts.ptLoop: chk && (l < 4 || l > rest.length)
  (3, "return errInvalidExtLength"),  -- Nts.ptLoop: .err .extLen
  (2, "pos += 4"),  -- Nts.ptLoop: body = rest behind the 4 header bytes
  (2, "switch eh.Type"),  -- Nts.ptLoop: if t = extCookie .. else
  (3, "case extCookie"),  -- Nts.ptLoop: t = extCookie
  (4, "cookie := Cookie{extHdr: eh}"),  -- Nts.valueLen: l
  (4, "err = cookie.unpack(decrytedBuf, pos)"),  -- Nts.ptLoop: copyN (valueLen l) body
  (4, "if err != nil"),  -- Nts.ptLoop: no branch, unpack's type check cannot fail behind the switch
  (5, "return err"),  -- Nts.ptLoop: no branch (dead)
  (4, "pkt.Cookies = append(pkt.Cookies, cookie)"),  -- Nts.ptLoop: cs ++ [..], cs starts as d.cookies
  (2, "pos += int(eh.Length) - 4"),  -- Nts.ptLoop: rest.drop l
  (1, "return nil")  -- Nts.ptLoop: .ok cs
  ]

/-- net/nts, ProcessResponse -/
def Nts.ProcessResponse : List Row := [
  (0, "func ProcessResponse(b []byte, key []byte, ntskeFetcher *ntske.Fetcher, pkt *Packet, reqID []byte) error"),  -- Nts.processResponseG: chk := true (processResponse); harness c10 ops nts.resp, cl.response; NtsPool.response
  (1, "if !bytes.Equal(reqID, pkt.UniqueID.ID)"),  -- Nts.processResponseG: if reqId != d.uid
  (2, "return errUnexpectedResponseID"),  -- Nts.processResponseG: .err .respId
  (1, "err := pkt.authenticate(b, key)"),  -- Nts.authenticateG: chk A b key d
  (1, "if err != nil"),  -- Nts.processResponseG: error of authenticateG propagated
  (2, "return err"),  -- Nts.processResponseG: .err e (nothing stored: C11_response_refused_no_trace)
  (1, "for _, cookie := range pkt.Cookies"),  -- Nts.processResponseG: result list = the cookies handed to StoreCookie, in order
  (2, "ntskeFetcher.StoreCookie(cookie.Cookie)"),  -- NtsPool.storeCookie: pool ++ [c] (NtsPool.response: cs.foldl storeCookie st.pool)
  (1, "return nil")  -- Nts.processResponseG: .ok cs
  ]

/-- net/nts, NewResponsePacket -/
def Nts.NewResponsePacket : List Row := [
  (0, "func NewResponsePacket(cookies [][]byte, key []byte, uniqueid []byte) (pkt Packet)"),  -- Nts.newResponsePacketG: fixed := true (newResponsePacket); harness c10 ops nts.newresp, srv.reply
  (1, "var uid UniqueIdentifier"),  -- env: variable declaration, no behaviour
  (1, "uid.ID = uniqueid"),  -- Nts.newResponsePacketG: uid := uid
  (1, "pkt.UniqueID = uid"),  -- Nts.newResponsePacketG: uid := uid (Packet.uid)
  (1, "maxCookies := max(1, maxNumCookies(len(uniqueid), len(cookies[0])))"),  -- Nts.newResponsePacketG: | [] => .panic .index | c0 :: _ ; max 1 (maxNumCookies uid.length c0.length)
  (1, "if len(cookies) > maxCookies"),  -- Nts.newResponsePacketG: cookies.take (..) (take is the identity when not longer)
  (2, "cookies = cookies[:maxCookies]"),  -- Nts.newResponsePacketG: cs := cookies.take (max 1 (maxNumCookies ..)) (F6 repair)
  (1, "lencookies := len(cookies) * (4 + len(cookies[0]))"),  -- Nts.newResponsePacketG: cap := cs.length * (4 + c0.length)
  (1, "buf := make([]byte, lencookies)"),  -- Nts.newResponsePacketG: buffer of cap bytes; pt := out ++ zeros (cap - out.length)
  (1, "var err error"),  -- env: variable declaration, no behaviour
  (1, "pos := 0"),  -- Nts.newResponsePacketG: out := [] (pos = out.length)
  (1, "for _, c := range cookies"),  -- Nts.packList: cap extCookie cs []
  (2, "var cookie Cookie"),  -- env: variable declaration, no behaviour
  (2, "cookie.Cookie = c"),  -- Nts.packValue: argument v := c
  (2, "pos, err = cookie.pack(buf, pos)"),  -- Nts.packValue: cap extCookie out c (putHdr .panic .index when the buffer is short: unequal or unaligned cookies)
  (2, "if err != nil"),  -- Nts.newResponsePacketG: | .err e => .err e (never produced: Cookie.pack always returns nil)
  (3, "panic(err)"),  -- Nts.newResponsePacketG: no branch (dead)
  (1, "var auth Authenticator"),  -- env: variable declaration, no behaviour
  (1, "auth.Key = key"),  -- Nts.newResponsePacketG: key := key
  (1, "auth.PlainText = buf"),  -- Nts.newResponsePacketG: pt := out ++ zeros (cap - out.length)
  (1, "pkt.Auth = auth"),  -- Nts.newResponsePacketG: key, pt (Packet has no nonce or ciphertext before packAuth)
  (1, "return pkt")  -- Nts.newResponsePacketG: .ok { uid, cookies := [], placeholders := [], key, pt }
  ]

/-- net/nts, ProcessRequest -/
def Nts.ProcessRequest : List Row := [
  (0, "func ProcessRequest(b []byte, key []byte, pkt *Packet) error"),  -- Nts.processRequestG: chk := true (processRequest); harness c10 ops nts.req, srv.reply, seq.run q:
  (1, "if len(pkt.UniqueID.ID) < 32"),  -- Nts.processRequestG: chk && d.uid.length < 32 (F15 repair)
  (2, "return errShortUniqueID"),  -- Nts.processRequestG: .err .shortUid
  (1, "if len(pkt.Cookies) != 0 && maxNumCookies(len(pkt.UniqueID.ID), len(pkt.Cookies[0].Cookie)) < 1"),  -- Nts.noRoomForCookie: | c :: _ => maxNumCookies d.uid.length c.length < 1 | [] => false (F15b)
  (2, "return errRequestTooLarge"),  -- Nts.processRequestG: .err .tooLarge
  (1, "err := pkt.authenticate(b, key)"),  -- Nts.authenticateG: chk A b key d
  (1, "if err != nil"),  -- Nts.processRequestG: error of authenticateG propagated
  (2, "return err"),  -- Nts.processRequestG: .err e
  (1, "return nil")  -- Nts.processRequestG: .ok cs (pkt.Cookies afterwards)
  ]

end ScionTime.Model.Skel
