/-
  Control skeletons of net/ntske as the models were written against them
  (notes/SKEL.md).  Each row: (depth, canonical text) as rendered by harness/extract/skeleton.go,
  followed by the model definition / branch that mirrors the statement.  Regenerated rows:
  Gen/SkelC12.lean; pins: Props/SkelC12.lean.  Core Lean only.
-/
import ScionTime.Model.Skel.Basic

namespace ScionTime.Model.Skel

/-- net/ntske, Key.IsValidAt -/
def Provider.Key_IsValidAt : List Row := [
  (0, "func (k *Key) IsValidAt(t time.Time) bool"),  -- ?
  (1, "if t.Before(k.Validity.NotBefore) || t.After(k.Validity.NotAfter)"),  -- ?
  (2, "return false"),  -- ?
  (1, "return true")  -- ?
  ]

/-- net/ntske, Provider.generateNext -/
def Provider.Provider_generateNext : List Row := [
  (0, "func (p *Provider) generateNext()"),  -- ?
  (1, "tNow := time.Now()"),  -- ?
  (1, "for id, key := range p.keys"),  -- ?
  (2, "if !key.IsValidAt(tNow)"),  -- ?
  (3, "delete(p.keys, id)"),  -- ?
  (1, "if p.currentID == math.MaxInt"),  -- ?
  (2, "panic(\"ID overflow\")"),  -- ?
  (1, "p.currentID = p.currentID + 1"),  -- ?
  (1, "p.generatedAt = tNow"),  -- ?
  (1, "value := make([]byte, 32)"),  -- ?
  (1, "_, err := rand.Read(value)"),  -- ?
  (1, "if err != nil"),  -- ?
  (2, "panic(\"failed to read from rand\")"),  -- ?
  (1, "key := Key{ Value: value, ID: p.currentID}"),  -- ?
  (1, "key.Validity.NotBefore = p.generatedAt"),  -- ?
  (1, "key.Validity.NotAfter = p.generatedAt.Add(keyValidity)"),  -- ?
  (1, "p.keys[p.currentID] = key")  -- ?
  ]

/-- net/ntske, NewProvider -/
def Provider.NewProvider : List Row := [
  (0, "func NewProvider() *Provider"),  -- ?
  (1, "p := &Provider{}"),  -- ?
  (1, "p.keys = make(map[int]Key)"),  -- ?
  (1, "p.generateNext()"),  -- ?
  (1, "return p")  -- ?
  ]

/-- net/ntske, Provider.Get -/
def Provider.Provider_Get : List Row := [
  (0, "func (p *Provider) Get(id int) (Key, bool)"),  -- ?
  (1, "p.mu.Lock()"),  -- ?
  (1, "defer p.mu.Unlock()"),  -- ?
  (1, "key, ok := p.keys[id]"),  -- ?
  (1, "if !ok"),  -- ?
  (2, "return Key{}, false"),  -- ?
  (1, "if !key.IsValidAt(time.Now())"),  -- ?
  (2, "return Key{}, false"),  -- ?
  (1, "return key, true")  -- ?
  ]

/-- net/ntske, Provider.Current -/
def Provider.Provider_Current : List Row := [
  (0, "func (p *Provider) Current() Key"),  -- ?
  (1, "p.mu.Lock()"),  -- ?
  (1, "defer p.mu.Unlock()"),  -- ?
  (1, "tNow := time.Now()"),  -- ?
  (1, "if key := p.keys[p.currentID]; !key.IsValidAt(tNow) || p.generatedAt.Add(keyRenewalInterval).Before(tNow)"),  -- ?
  (2, "p.generateNext()"),  -- ?
  (1, "return p.keys[p.currentID]")  -- ?
  ]

end ScionTime.Model.Skel
