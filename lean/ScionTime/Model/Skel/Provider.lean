/-
  Control skeletons of net/ntske as the models were written against them
  (notes/SKEL.md).  Each row: (depth, canonical text) as rendered by harness/extract/skeleton.go,
  followed by the model definition / branch that mirrors the statement.  Regenerated rows:
  Gen/SkelC12.lean; pins: Props/SkelC12.lean.  Core Lean only.
-/
import ScionTime.Model.Skel.Basic

namespace ScionTime.Model.Skel

/-- net/ntske, Key.IsValidAt -/
def Provider.Key_IsValidAt : List Row := [
  (0, "func (k *Key) IsValidAt(t time.Time) bool"),  -- Provider.Key.validAt: Props/LeafC12 C12_leaf_IsValidAt (Gen.Leaf.ntske_Key_IsValidAt regenerated from the Go source)
  (1, "if t.Before(k.Validity.NotBefore) || t.After(k.Validity.NotAfter)"),  -- Provider.Key.validAt: decide (t < k.nb) || decide (k.na < t)
  (2, "return false"),  -- Provider.Key.validAt: the outer ! (false)
  (1, "return true")  -- Provider.Key.validAt: the outer ! (true; inclusive at both ends)
  ]

/-- net/ntske, Provider.generateNext -/
def Provider.Provider_generateNext : List Row := [
  (0, "func (p *Provider) generateNext()"),  -- Provider.generateNext: harness c12 ops prov.new, prov.cur; fact x_c12.go: called only from Current, NewProvider
  (1, "tNow := time.Now()"),  -- Provider.generateNext: argument t (Provider.current: t2 >= t1; harness virtual clock t1 = t2)
  (1, "for id, key := range p.keys"),  -- Provider.generateNext: whole loop as kept := s.keys.filter (delete during range)
  (2, "if !key.IsValidAt(tNow)"),  -- Provider.generateNext: filter predicate k.validAt t
  (3, "delete(p.keys, id)"),  -- Provider.generateNext: the key is dropped by filter
  (1, "if p.currentID == math.MaxInt"),  -- Provider.generateNext: no branch (Int unbounded); C12_id_bound: currentId <= 1 + elapsed/renewal, never fires
  (2, "panic(\"ID overflow\")"),  -- Provider.generateNext: no branch (panic ID overflow out of reach by C12_id_bound)
  (1, "p.currentID = p.currentID + 1"),  -- Provider.generateNext: id := s.currentId + 1, currentId := id (C12_ids_consecutive)
  (1, "p.generatedAt = tNow"),  -- Provider.generateNext: generatedAt := t
  (1, "value := make([]byte, 32)"),  -- env: buffer allocation for the key bytes (Provider.Key has no Value)
  (1, "_, err := rand.Read(value)"),  -- env: crypto/rand; key bytes are inputs of Nts.serverReplyG (keys, curKey); c12 oracle: 32 bytes, constant per id
  (1, "if err != nil"),  -- env: crypto/rand failure outside the model (notes/C12: not modelled; Go 1.24 rand.Read never returns an error)
  (2, "panic(\"failed to read from rand\")"),  -- env: crypto/rand failure outside the model (dead with Go 1.24)
  (1, "key := Key{ Value: value, ID: p.currentID}"),  -- Provider.generateNext: { id := id, .. } (Value left out)
  (1, "key.Validity.NotBefore = p.generatedAt"),  -- Provider.generateNext: nb := t
  (1, "key.Validity.NotAfter = p.generatedAt.Add(keyValidity)"),  -- Provider.generateNext: na := t + P.validity (pin C12_pin_keyValidity)
  (1, "p.keys[p.currentID] = key")  -- Provider.generateNext: keys := new key :: kept (newest binding first = map assignment; Provider.find)
  ]

/-- net/ntske, NewProvider -/
def Provider.NewProvider : List Row := [
  (0, "func NewProvider() *Provider"),  -- Provider.init: harness c12 op prov.new (use.new)
  (1, "p := &Provider{}"),  -- Provider.init: { keys := [], currentId := 0, generatedAt := 0 } (zero time as 0, overwritten before it is read)
  (1, "p.keys = make(map[int]Key)"),  -- Provider.init: keys := []
  (1, "p.generateNext()"),  -- Provider.generateNext: P {..} t0 (no lock: p not yet shared; fact x_c12.go allows the call from NewProvider)
  (1, "return p")  -- Provider.init: the state
  ]

/-- net/ntske, Provider.Get -/
def Provider.Provider_Get : List Row := [
  (0, "func (p *Provider) Get(id int) (Key, bool)"),  -- Provider.get: Op.get id t, Provider.step; harness c12 ops prov.get, prov.par
  (1, "p.mu.Lock()"),  -- Mutex.step: lock acquired, holder := some i (C12 lock-discipline fact x_c12.go; C12Conc.C12_linearizable)
  (1, "defer p.mu.Unlock()"),  -- Mutex.step: | some [] => holder := none, released on every exit (C12 lock-discipline fact x_c12.go)
  (1, "key, ok := p.keys[id]"),  -- Provider.get: match find s.keys id
  (1, "if !ok"),  -- Provider.get: | none
  (2, "return Key{}, false"),  -- Provider.get: none
  (1, "if !key.IsValidAt(time.Now())"),  -- Provider.get: | some k => if k.validAt t (t = the clock reading under the lock, Op.tIn)
  (2, "return Key{}, false"),  -- Provider.get: else none
  (1, "return key, true")  -- Provider.get: some k (key bytes not in Provider.Key; C12_get_valid_only)
  ]

/-- net/ntske, Provider.Current -/
def Provider.Provider_Current : List Row := [
  (0, "func (p *Provider) Current() Key"),  -- Provider.current: Op.current t1 t2, Provider.step; harness c12 ops prov.cur, prov.par, use.ke, use.ntp
  (1, "p.mu.Lock()"),  -- Mutex.step: lock acquired, holder := some i (C12 lock-discipline fact x_c12.go; C12Conc.C12_linearizable)
  (1, "defer p.mu.Unlock()"),  -- Mutex.step: | some [] => holder := none, released on every exit (C12 lock-discipline fact x_c12.go)
  (1, "tNow := time.Now()"),  -- Provider.current: argument t1 (read under the lock: Provider.Timed)
  (1, "if key := p.keys[p.currentID]; !key.IsValidAt(tNow) || p.generatedAt.Add(keyRenewalInterval).Before(tNow)"),  -- Provider.needsRenewal: find s.keys s.currentId (none = zero Key, never valid) || s.generatedAt + P.renewal < t1
  (2, "p.generateNext()"),  -- Provider.current: generateNext P s t2
  (1, "return p.keys[p.currentID]")  -- Provider.current: (find s'.keys s'.currentId).getD zeroKey (C12_current_is_key: never the zero key)
  ]

end ScionTime.Model.Skel
