/-
  Control skeletons of net/nts as the models were written against them
  (notes/SKEL.md).  Each row: (depth, canonical text) as rendered by harness/extract/skeleton.go,
  followed by the model definition / branch that mirrors the statement.  Regenerated rows:
  Gen/SkelC10.lean; pins: Props/SkelC10.lean.  Core Lean only.
-/
import ScionTime.Model.Skel.Basic

namespace ScionTime.Model.Skel

/-- net/nts, extHdr.pack -/
def NtsExt.extHdr_pack : List Row := [
  (0, "func (h extHdr) pack(buf []byte, pos int) int"),  -- ?
  (1, "binary.BigEndian.PutUint16(buf[pos:], h.Type)"),  -- ?
  (1, "binary.BigEndian.PutUint16(buf[pos+2:], h.Length)"),  -- ?
  (1, "return pos + 4")  -- ?
  ]

/-- net/nts, extHdr.unpack -/
def NtsExt.extHdr_unpack : List Row := [
  (0, "func (h *extHdr) unpack(buf []byte, pos int)"),  -- ?
  (1, "h.Type = binary.BigEndian.Uint16(buf[pos:])"),  -- ?
  (1, "h.Length = binary.BigEndian.Uint16(buf[pos+2:])")  -- ?
  ]

/-- net/nts, UniqueIdentifier.pack -/
def NtsExt.UniqueIdentifier_pack : List Row := [
  (0, "func (u UniqueIdentifier) pack(buf []byte, pos int) (int, error)"),  -- ?
  (1, "if len(u.ID) < 32"),  -- ?
  (2, "return 0, errShortUniqueID"),  -- ?
  (1, "newlen := (len(u.ID) + 3) & ^3"),  -- ?
  (1, "padding := make([]byte, newlen-len(u.ID))"),  -- ?
  (1, "u.extHdr.Type = extUniqueIdentifier"),  -- ?
  (1, "u.extHdr.Length = 4 + uint16(newlen)"),  -- ?
  (1, "pos = u.extHdr.pack(buf, pos)"),  -- ?
  (1, "n := copy(buf[pos:], u.ID)"),  -- ?
  (1, "pos += n"),  -- ?
  (1, "n = copy(buf[pos:], padding)"),  -- ?
  (1, "pos += n"),  -- ?
  (1, "return pos, nil")  -- ?
  ]

/-- net/nts, UniqueIdentifier.unpack -/
def NtsExt.UniqueIdentifier_unpack : List Row := [
  (0, "func (u *UniqueIdentifier) unpack(buf []byte, pos int) error"),  -- ?
  (1, "if u.extHdr.Type != extUniqueIdentifier"),  -- ?
  (2, "return errUnexpectedExtHdrType"),  -- ?
  (1, "valueLen := u.extHdr.Length - 4"),  -- ?
  (1, "id := make([]byte, valueLen)"),  -- ?
  (1, "copy(id, buf[pos:])"),  -- ?
  (1, "u.ID = id"),  -- ?
  (1, "return nil")  -- ?
  ]

/-- net/nts, newID -/
def NtsExt.newID : List Row := [
  (0, "func newID() ([]byte, error)"),  -- ?
  (1, "id := make([]byte, 32)"),  -- ?
  (1, "_, err := rand.Read(id)"),  -- ?
  (1, "if err != nil"),  -- ?
  (2, "return nil, err"),  -- ?
  (1, "return id, nil")  -- ?
  ]

/-- net/nts, Cookie.pack -/
def NtsExt.Cookie_pack : List Row := [
  (0, "func (c Cookie) pack(buf []byte, pos int) (int, error)"),  -- ?
  (1, "origlen := len(c.Cookie)"),  -- ?
  (1, "newlen := (origlen + 3) & ^3"),  -- ?
  (1, "padding := make([]byte, newlen-origlen)"),  -- ?
  (1, "c.extHdr.Type = extCookie"),  -- ?
  (1, "c.extHdr.Length = 4 + uint16(newlen)"),  -- ?
  (1, "pos = c.extHdr.pack(buf, pos)"),  -- ?
  (1, "n := copy(buf[pos:], c.Cookie)"),  -- ?
  (1, "pos += n"),  -- ?
  (1, "n = copy(buf[pos:], padding)"),  -- ?
  (1, "pos += n"),  -- ?
  (1, "return pos, nil")  -- ?
  ]

/-- net/nts, Cookie.unpack -/
def NtsExt.Cookie_unpack : List Row := [
  (0, "func (c *Cookie) unpack(buf []byte, pos int) error"),  -- ?
  (1, "if c.extHdr.Type != extCookie"),  -- ?
  (2, "return errUnexpectedExtHdrType"),  -- ?
  (1, "valueLen := c.extHdr.Length - 4"),  -- ?
  (1, "cookie := make([]byte, valueLen)"),  -- ?
  (1, "copy(cookie, buf[pos:])"),  -- ?
  (1, "c.Cookie = cookie"),  -- ?
  (1, "return nil")  -- ?
  ]

/-- net/nts, CookiePlaceholder.pack -/
def NtsExt.CookiePlaceholder_pack : List Row := [
  (0, "func (c CookiePlaceholder) pack(buf []byte, pos int) (int, error)"),  -- ?
  (1, "origlen := len(c.Cookie)"),  -- ?
  (1, "newlen := (origlen + 3) & ^3"),  -- ?
  (1, "padding := make([]byte, newlen-origlen)"),  -- ?
  (1, "c.extHdr.Type = extCookiePlaceholder"),  -- ?
  (1, "c.extHdr.Length = 4 + uint16(newlen)"),  -- ?
  (1, "pos = c.extHdr.pack(buf, pos)"),  -- ?
  (1, "n := copy(buf[pos:], c.Cookie)"),  -- ?
  (1, "pos += n"),  -- ?
  (1, "n = copy(buf[pos:], padding)"),  -- ?
  (1, "pos += n"),  -- ?
  (1, "return pos, nil")  -- ?
  ]

/-- net/nts, CookiePlaceholder.unpack -/
def NtsExt.CookiePlaceholder_unpack : List Row := [
  (0, "func (c *CookiePlaceholder) unpack(buf []byte, pos int) error"),  -- ?
  (1, "if c.extHdr.Type != extCookiePlaceholder"),  -- ?
  (2, "return errUnexpectedExtHdrType"),  -- ?
  (1, "return nil")  -- ?
  ]

/-- net/nts, Authenticator.pack -/
def NtsExt.Authenticator_pack : List Row := [
  (0, "func (a Authenticator) pack(buf []byte, pos int) (int, error)"),  -- ?
  (1, "aessiv, err := miscreant.NewAEAD(\"AES-CMAC-SIV\", a.Key, 16)"),  -- ?
  (1, "if err != nil"),  -- ?
  (2, "return 0, err"),  -- ?
  (1, "bits := make([]byte, 16)"),  -- ?
  (1, "_, err = rand.Read(bits)"),  -- ?
  (1, "if err != nil"),  -- ?
  (2, "return 0, err"),  -- ?
  (1, "a.Nonce = bits"),  -- ?
  (1, "nonceLen := uint16(len(a.Nonce))"),  -- ?
  (1, "noncepadlen := (-nonceLen) % 4"),  -- ?
  (1, "a.CipherText = aessiv.Seal(nil, a.Nonce, a.PlainText, buf[:pos])"),  -- ?
  (1, "cipherTextLen := uint16(len(a.CipherText))"),  -- ?
  (1, "cipherpadlen := (-cipherTextLen) % 4"),  -- ?
  (1, "a.extHdr.Type = extAuthenticator"),  -- ?
  (1, "a.extHdr.Length = 4 + 2 + 2 + nonceLen + noncepadlen + cipherTextLen + cipherpadlen"),  -- ?
  (1, "pos = a.extHdr.pack(buf, pos)"),  -- ?
  (1, "binary.BigEndian.PutUint16(buf[pos:], nonceLen)"),  -- ?
  (1, "binary.BigEndian.PutUint16(buf[pos+2:], cipherTextLen)"),  -- ?
  (1, "pos += 4"),  -- ?
  (1, "n := copy(buf[pos:], a.Nonce)"),  -- ?
  (1, "pos += n"),  -- ?
  (1, "noncepadding := make([]byte, noncepadlen)"),  -- ?
  (1, "n = copy(buf[pos:], noncepadding)"),  -- ?
  (1, "pos += n"),  -- ?
  (1, "n = copy(buf[pos:], a.CipherText)"),  -- ?
  (1, "pos += n"),  -- ?
  (1, "cipherpadding := make([]byte, cipherpadlen)"),  -- ?
  (1, "n = copy(buf[pos:], cipherpadding)"),  -- ?
  (1, "pos += n"),  -- ?
  (1, "return pos, nil")  -- ?
  ]

/-- net/nts, Authenticator.unpack -/
def NtsExt.Authenticator_unpack : List Row := [
  (0, "func (a *Authenticator) unpack(buf []byte, pos int) error"),  -- ?
  (1, "if a.extHdr.Type != extAuthenticator"),  -- ?
  (2, "return errUnexpectedExtHdrType"),  -- ?
  (1, "nonceLen := binary.BigEndian.Uint16(buf[pos:])"),  -- ?
  (1, "cipherTextLen := binary.BigEndian.Uint16(buf[pos+2:])"),  -- ?
  (1, "pos += 4"),  -- ?
  (1, "nonce := make([]byte, nonceLen)"),  -- ?
  (1, "n := copy(nonce, buf[pos:])"),  -- ?
  (1, "a.Nonce = nonce"),  -- ?
  (1, "pos += n"),  -- ?
  (1, "ciphertext := make([]byte, cipherTextLen)"),  -- ?
  (1, "copy(ciphertext, buf[pos:])"),  -- ?
  (1, "a.CipherText = ciphertext"),  -- ?
  (1, "return nil")  -- ?
  ]

end ScionTime.Model.Skel
