/-
  Control skeletons of net/nts as the models were written against them
  (notes/SKEL.md).  Each row: (depth, canonical text) as rendered by harness/extract/skeleton.go,
  followed by the model definition / branch that mirrors the statement.  Regenerated rows:
  Gen/SkelC10.lean; pins: Props/SkelC10.lean.  Core Lean only.
-/
import ScionTime.Model.Skel.Basic

namespace ScionTime.Model.Skel

/-- net/nts, extHdr.pack -/
def NtsExt.extHdr_pack : List Row := [
  (0, "func (h extHdr) pack(buf []byte, pos int) int"),  -- Nts.putHdr: cap out t l (buf = cap bytes, pos = out.length); harness c10 / c14nts ops nts.enc, nts.newresp
  (1, "binary.BigEndian.PutUint16(buf[pos:], h.Type)"),  -- Nts.putHdr: be16 t appended; if cap - out.length < 4 then .panic .index (PutUint16 on a short slice)
  (1, "binary.BigEndian.PutUint16(buf[pos+2:], h.Length)"),  -- Nts.putHdr: be16 l appended; the one guard < 4 also covers 2..3 bytes left (first write lost with the panic)
  (1, "return pos + 4")  -- Nts.putHdr: .ok (out ++ be16 t ++ be16 l), new out.length = pos + 4
  ]

/-- net/nts, extHdr.unpack -/
def NtsExt.extHdr_unpack : List Row := [
  (0, "func (h *extHdr) unpack(buf []byte, pos int)"),  -- Nts.decLoop / Nts.ptLoop: match rest with | a :: b :: c :: e :: body (rest = buf[pos:]); harness ops nts.dec, nts.req
  (1, "h.Type = binary.BigEndian.Uint16(buf[pos:])"),  -- Nts.decLoop / Nts.ptLoop: t := u16 a b
  (1, "h.Length = binary.BigEndian.Uint16(buf[pos+2:])")  -- Nts.decLoop / Nts.ptLoop: l := u16 c e (| _ => .panic .index is unreachable: the loop guard gives rest.length >= 28)
  ]

/-- net/nts, UniqueIdentifier.pack -/
def NtsExt.UniqueIdentifier_pack : List Row := [
  (0, "func (u UniqueIdentifier) pack(buf []byte, pos int) (int, error)"),  -- Nts.packUid: cap out id (encodePacketG: packUid maxPacketLen hdr p.uid); harness c10 / c14nts op nts.enc
  (1, "if len(u.ID) < 32"),  -- Nts.packUid: if id.length < 32
  (2, "return 0, errShortUniqueID"),  -- Nts.packUid: .err .shortUid (Nts.errToPanic: .panic .shortUid in EncodePacket; C08Nts_short_uid_old, F15)
  (1, "newlen := (len(u.ID) + 3) & ^3"),  -- Nts.packValue: newlen := pad4 v.length (Nts.pad4 n = (n + 3) / 4 * 4)
  (1, "padding := make([]byte, newlen-len(u.ID))"),  -- Nts.packValue: zeros (newlen - v.length)
  (1, "u.extHdr.Type = extUniqueIdentifier"),  -- Nts.packUid: packValue cap extUniqueIdentifier out id; pin C14Nts_pin_extUniqueIdentifier
  (1, "u.extHdr.Length = 4 + uint16(newlen)"),  -- Nts.packValue: length argument (4 + newlen % 65536) % 65536 (uint16 arithmetic)
  (1, "pos = u.extHdr.pack(buf, pos)"),  -- Nts.packValue: out <- putHdr cap out t ... (.panic .index when fewer than 4 bytes are left)
  (1, "n := copy(buf[pos:], u.ID)"),  -- Nts.packValue: inner copyTrunc cap out v (silent truncation like copy)
  (1, "pos += n"),  -- Nts.copyTrunc: pos = out.length after the append
  (1, "n = copy(buf[pos:], padding)"),  -- Nts.packValue: outer copyTrunc cap (...) (zeros (newlen - v.length))
  (1, "pos += n"),  -- Nts.copyTrunc: pos = out.length after the append
  (1, "return pos, nil")  -- Nts.packValue: pure (...) = .ok out, pos = out.length
  ]

/-- net/nts, UniqueIdentifier.unpack -/
def NtsExt.UniqueIdentifier_unpack : List Row := [
  (0, "func (u *UniqueIdentifier) unpack(buf []byte, pos int) error"),  -- Nts.decLoop: branch t = extUniqueIdentifier: uid := copyN (valueLen l) body, found flag true; harness op nts.dec
  (1, "if u.extHdr.Type != extUniqueIdentifier"),  -- Nts.decLoop: else if t = extUniqueIdentifier (the dispatch on t fixed the type; the model has no second check)
  (2, "return errUnexpectedExtHdrType"),  -- UNMODELLED: error origin errUnexpectedExtHdrType: no model def yields Err.extType (dead behind the callers switch)
  (1, "valueLen := u.extHdr.Length - 4"),  -- Nts.valueLen: (l + 65536 - 4) % 65536 (uint16 wrap; l >= 4 after the F2 check, chk = true)
  (1, "id := make([]byte, valueLen)"),  -- Nts.copyN: the zeros (n - src.length) part = make([]byte, valueLen)
  (1, "copy(id, buf[pos:])"),  -- Nts.copyN: src.take n with src = body = buf[pos:] (the rest of the packet, not cut to the field; chk bounds l)
  (1, "u.ID = id"),  -- Nts.decLoop: { d with uid := copyN (valueLen l) body } (a later identifier field overwrites an earlier one)
  (1, "return nil")  -- Nts.decLoop: recursive call on rest.drop l with the found flag true (no error outcome of this branch)
  ]

/-- net/nts, newID -/
def NtsExt.newID : List Row := [
  (0, "func newID() ([]byte, error)"),  -- Nts.newRequestPacketG: argument uid; NtsPool.request: uid := copyN 32 rnd; harness c10 ops nts.newreq, cl.request (rand=)
  (1, "id := make([]byte, 32)"),  -- NtsPool.request: copyN 32 rnd (length 32; Driver NtsOps nts.newreq likewise); the literal 32 is not pinned from the AST
  (1, "_, err := rand.Read(id)"),  -- env: crypto/rand read; the 32 bytes are the model input uid (first 32 bytes of the scripted stream rnd)
  (1, "if err != nil"),  -- env: dead branch by the crypto/rand contract (Go >= 1.24: Read fills the slice or aborts the process); no model branch
  (2, "return nil, err"),  -- env: dead branch; the caller NewRequestPacket would panic(err); no Res outcome mirrors it
  (1, "return id, nil")  -- Nts.newRequestPacketG: uid (Packet.uid and the returned request id = NtsPool.Client.reqId)
  ]

/-- net/nts, Cookie.pack -/
def NtsExt.Cookie_pack : List Row := [
  (0, "func (c Cookie) pack(buf []byte, pos int) (int, error)"),  -- Nts.packValue: cap extCookie out c (Nts.packList in encodePacketG, newResponsePacketG); harness ops nts.enc, nts.newresp
  (1, "origlen := len(c.Cookie)"),  -- Nts.packValue: v.length (origlen)
  (1, "newlen := (origlen + 3) & ^3"),  -- Nts.packValue: newlen := pad4 v.length (Nts.pad4 n = (n + 3) / 4 * 4; Proofs/NtsEnc pad4_mod, pad4_ge)
  (1, "padding := make([]byte, newlen-origlen)"),  -- Nts.packValue: zeros (newlen - v.length)
  (1, "c.extHdr.Type = extCookie"),  -- Nts.packList: t = extCookie (encodePacketG, newResponsePacketG); pin C14Nts_pin_extCookie
  (1, "c.extHdr.Length = 4 + uint16(newlen)"),  -- Nts.packValue: length argument (4 + newlen % 65536) % 65536 (uint16 arithmetic; wraps for values >= 65532 bytes)
  (1, "pos = c.extHdr.pack(buf, pos)"),  -- Nts.packValue: out <- putHdr cap out t ... (.panic .index when fewer than 4 bytes are left)
  (1, "n := copy(buf[pos:], c.Cookie)"),  -- Nts.packValue: inner copyTrunc cap out v (Nts.copyTrunc: src.take (cap - out.length), silent truncation like copy)
  (1, "pos += n"),  -- Nts.copyTrunc: pos = out.length after the append (n = number of bytes taken)
  (1, "n = copy(buf[pos:], padding)"),  -- Nts.packValue: outer copyTrunc cap (...) (zeros (newlen - v.length))
  (1, "pos += n"),  -- Nts.copyTrunc: pos = out.length after the append
  (1, "return pos, nil")  -- Nts.packValue: pure (...) = .ok out, pos = out.length; never .err (Proofs/NtsEnc packValue_fits, packValue_len)
  ]

/-- net/nts, Cookie.unpack -/
def NtsExt.Cookie_unpack : List Row := [
  (0, "func (c *Cookie) unpack(buf []byte, pos int) error"),  -- Nts.decLoop / Nts.ptLoop: branch t = extCookie: cookies ++ [copyN (valueLen l) body]; harness ops nts.dec, nts.req, nts.resp
  (1, "if c.extHdr.Type != extCookie"),  -- Nts.decLoop / Nts.ptLoop: else if t = extCookie (the dispatch on t fixed the type; the model has no second check)
  (2, "return errUnexpectedExtHdrType"),  -- UNMODELLED: error origin errUnexpectedExtHdrType: no model def yields Err.extType (dead behind the callers switch)
  (1, "valueLen := c.extHdr.Length - 4"),  -- Nts.valueLen: (l + 65536 - 4) % 65536 (uint16 wrap; l >= 4 after the F2 check, chk = true)
  (1, "cookie := make([]byte, valueLen)"),  -- Nts.copyN: the zeros (n - src.length) part = make([]byte, valueLen)
  (1, "copy(cookie, buf[pos:])"),  -- Nts.copyN: src.take n with src = body = buf[pos:] (not cut to the field; unaligned values come back zero padded)
  (1, "c.Cookie = cookie"),  -- Nts.decLoop: cookies := d.cookies ++ [...]; Nts.ptLoop: cs ++ [...] (the append is in the callers)
  (1, "return nil")  -- Nts.decLoop / Nts.ptLoop: recursive call on rest.drop l (no error outcome of this branch)
  ]

/-- net/nts, CookiePlaceholder.pack -/
def NtsExt.CookiePlaceholder_pack : List Row := [
  (0, "func (c CookiePlaceholder) pack(buf []byte, pos int) (int, error)"),  -- Nts.packValue: cap (phType fixed) out c (Nts.packList over p.placeholders in encodePacketG); harness op nts.enc
  (1, "origlen := len(c.Cookie)"),  -- Nts.packValue: v.length (origlen)
  (1, "newlen := (origlen + 3) & ^3"),  -- Nts.packValue: newlen := pad4 v.length (Nts.pad4 n = (n + 3) / 4 * 4; Proofs/NtsEnc pad4_mod, pad4_ge)
  (1, "padding := make([]byte, newlen-origlen)"),  -- Nts.packValue: zeros (newlen - v.length)
  (1, "c.extHdr.Type = extCookiePlaceholder"),  -- Nts.phType: true => extCookiePlaceholder (false => extCookie, F5); pin C14Nts_pin_extCookiePlaceholder
  (1, "c.extHdr.Length = 4 + uint16(newlen)"),  -- Nts.packValue: length argument (4 + newlen % 65536) % 65536 (uint16 arithmetic; wraps for values >= 65532 bytes)
  (1, "pos = c.extHdr.pack(buf, pos)"),  -- Nts.packValue: out <- putHdr cap out t ... (.panic .index when fewer than 4 bytes are left)
  (1, "n := copy(buf[pos:], c.Cookie)"),  -- Nts.packValue: inner copyTrunc cap out v (Nts.copyTrunc: src.take (cap - out.length), silent truncation like copy)
  (1, "pos += n"),  -- Nts.copyTrunc: pos = out.length after the append (n = number of bytes taken)
  (1, "n = copy(buf[pos:], padding)"),  -- Nts.packValue: outer copyTrunc cap (...) (zeros (newlen - v.length))
  (1, "pos += n"),  -- Nts.copyTrunc: pos = out.length after the append
  (1, "return pos, nil")  -- Nts.packValue: pure (...) = .ok out, pos = out.length; never .err (Proofs/NtsEnc packValue_fits, packValue_len)
  ]

/-- net/nts, CookiePlaceholder.unpack -/
def NtsExt.CookiePlaceholder_unpack : List Row := [
  (0, "func (c *CookiePlaceholder) unpack(buf []byte, pos int) error"),  -- Nts.decLoop: branch t = extCookiePlaceholder: nph := d.nph + 1 (Nts.Decoded.nph: count only); harness op nts.dec
  (1, "if c.extHdr.Type != extCookiePlaceholder"),  -- Nts.decLoop: else if t = extCookiePlaceholder (the dispatch on t fixed the type; the model has no second check)
  (2, "return errUnexpectedExtHdrType"),  -- UNMODELLED: error origin errUnexpectedExtHdrType: no model def yields Err.extType (dead behind the callers switch)
  (1, "return nil")  -- Nts.decLoop: recursive call with { d with nph := d.nph + 1 }; nothing is read from the body (content dropped)
  ]

/-- net/nts, Authenticator.pack -/
def NtsExt.Authenticator_pack : List Row := [
  (0, "func (a Authenticator) pack(buf []byte, pos int) (int, error)"),  -- Nts.packAuth: A cap out key pt nonce (last step of encodePacketG); harness c10 / c14nts op nts.enc, cl.request, srv.reply
  (1, "aessiv, err := miscreant.NewAEAD(\"AES-CMAC-SIV\", a.Key, 16)"),  -- Nts.keyOk: key.length == 32 || == 64 (NewAEAD fails only with siv: bad key size); the AEAD itself is the parameter A
  (1, "if err != nil"),  -- Nts.packAuth: if !keyOk key
  (2, "return 0, err"),  -- Nts.packAuth: .err .keySize (Nts.errToPanic: .panic .keySize in EncodePacket)
  (1, "bits := make([]byte, 16)"),  -- env: buffer allocation for the nonce (16 bytes = Nts.draw16: copyN 16 r)
  (1, "_, err = rand.Read(bits)"),  -- env: crypto/rand read; the 16 bytes are the argument nonce (Nts.draw16 of the stream; NtsPool.request; harness rand=)
  (1, "if err != nil"),  -- env: dead branch by the crypto/rand contract (Go >= 1.24: Read fills the slice or aborts the process); no model branch
  (2, "return 0, err"),  -- env: dead branch; EncodePacket would panic(err); no Res outcome mirrors it
  (1, "a.Nonce = bits"),  -- Nts.packAuth: argument nonce (value receiver: the caller-side Packet.Auth is not changed)
  (1, "nonceLen := uint16(len(a.Nonce))"),  -- Nts.packAuth: nl := nonce.length % 65536
  (1, "noncepadlen := (-nonceLen) % 4"),  -- Nts.packAuth: npad := (65536 - nl) % 65536 % 4 (uint16 negation)
  (1, "a.CipherText = aessiv.Seal(nil, a.Nonce, a.PlainText, buf[:pos])"),  -- Nts.sealC: A key nonce pt (some out): ad = buf[:pos] = all bytes before the field; .panic .nonceLen unreachable (16 bytes)
  (1, "cipherTextLen := uint16(len(a.CipherText))"),  -- Nts.packAuth: cl := ct.length % 65536 (AEAD.Sized: ct.length = pt.length + 16, checked by the harness on every seal)
  (1, "cipherpadlen := (-cipherTextLen) % 4"),  -- Nts.packAuth: cpad := (65536 - cl) % 65536 % 4
  (1, "a.extHdr.Type = extAuthenticator"),  -- Nts.packAuth: putHdr cap out extAuthenticator ...; pins C14Nts_pin_extAuthenticator, C10_pin_extAuthenticator
  (1, "a.extHdr.Length = 4 + 2 + 2 + nonceLen + noncepadlen + cipherTextLen + cipherpadlen"),  -- Nts.packAuth: length argument (8 + nl + npad + cl + cpad) % 65536 (uint16 arithmetic)
  (1, "pos = a.extHdr.pack(buf, pos)"),  -- Nts.packAuth: first putHdr, after sealC: the ad excludes this header; .panic .index = C08Nts_long_uid_old (F15b)
  (1, "binary.BigEndian.PutUint16(buf[pos:], nonceLen)"),  -- Nts.packAuth: second putHdr cap out nl cl: be16 nl
  (1, "binary.BigEndian.PutUint16(buf[pos+2:], cipherTextLen)"),  -- Nts.packAuth: second putHdr cap out nl cl: be16 cl
  (1, "pos += 4"),  -- Nts.putHdr: 4 bytes appended (.panic .index when fewer than 4 are left)
  (1, "n := copy(buf[pos:], a.Nonce)"),  -- Nts.packAuth: copyTrunc cap out nonce (innermost)
  (1, "pos += n"),  -- Nts.copyTrunc: pos = out.length after the append
  (1, "noncepadding := make([]byte, noncepadlen)"),  -- Nts.packAuth: zeros npad
  (1, "n = copy(buf[pos:], noncepadding)"),  -- Nts.packAuth: copyTrunc cap (...) (zeros npad)
  (1, "pos += n"),  -- Nts.copyTrunc: pos = out.length after the append
  (1, "n = copy(buf[pos:], a.CipherText)"),  -- Nts.packAuth: copyTrunc cap (...) ct (cut silently when it does not fit: notes/C14.md observation; packAuth_fits)
  (1, "pos += n"),  -- Nts.copyTrunc: pos = out.length after the append
  (1, "cipherpadding := make([]byte, cipherpadlen)"),  -- Nts.packAuth: zeros cpad
  (1, "n = copy(buf[pos:], cipherpadding)"),  -- Nts.packAuth: copyTrunc cap (...) (zeros cpad) (outermost)
  (1, "pos += n"),  -- Nts.copyTrunc: pos = out.length after the append
  (1, "return pos, nil")  -- Nts.packAuth: pure (...) = .ok out, pos = out.length (Proofs/NtsEnc packAuth_len; C14Nts_encoded_length)
  ]

/-- net/nts, Authenticator.unpack -/
def NtsExt.Authenticator_unpack : List Row := [
  (0, "func (a *Authenticator) unpack(buf []byte, pos int) error"),  -- Nts.unpackAuth: body = buf[pos:] behind the 4-byte header, result (nonce, ct); harness op nts.dec; Props C10_authPos
  (1, "if a.extHdr.Type != extAuthenticator"),  -- Nts.decLoop: else if t = extAuthenticator (the dispatch on t fixed the type; the model has no second check)
  (2, "return errUnexpectedExtHdrType"),  -- UNMODELLED: error origin errUnexpectedExtHdrType: no model def yields Err.extType (dead behind the callers switch)
  (1, "nonceLen := binary.BigEndian.Uint16(buf[pos:])"),  -- Nts.unpackAuth: | n1 :: n0 :: c1 :: c0 :: r => nl := u16 n1 n0 (| _ => .panic .index; Proofs/NtsTotal unpackAuth_safe)
  (1, "cipherTextLen := binary.BigEndian.Uint16(buf[pos+2:])"),  -- Nts.unpackAuth: cl := u16 c1 c0
  (1, "pos += 4"),  -- Nts.unpackAuth: r = body without its first 4 bytes
  (1, "nonce := make([]byte, nonceLen)"),  -- Nts.copyN: the zeros part of copyN nl r = make([]byte, nonceLen)
  (1, "n := copy(nonce, buf[pos:])"),  -- Nts.unpackAuth: copyN nl r; n = min nl r.length (nothing checked against the field length, as in the Go code)
  (1, "a.Nonce = nonce"),  -- Nts.unpackAuth: first component; Nts.decLoop: { d with nonce := nonce, ... } (length checked later: authenticateG, F16)
  (1, "pos += n"),  -- Nts.unpackAuth: r.drop (min nl r.length): the nonce padding is not skipped (as in the Go code)
  (1, "ciphertext := make([]byte, cipherTextLen)"),  -- Nts.copyN: the zeros part of copyN cl (...) = make([]byte, cipherTextLen)
  (1, "copy(ciphertext, buf[pos:])"),  -- Nts.unpackAuth: copyN cl (r.drop (min nl r.length))
  (1, "a.CipherText = ciphertext"),  -- Nts.unpackAuth: second component; Nts.decLoop: { d with ct := ct, pos := total - rest.length }
  (1, "return nil")  -- Nts.unpackAuth: .ok (nonce, ct); Nts.decLoop returns (found uid, true, d): the loop ends at the authenticator
  ]

end ScionTime.Model.Skel
