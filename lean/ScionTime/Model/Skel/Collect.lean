/-
  Control skeletons of core/client as the models were written against them
  (notes/SKEL.md).  Each row: (depth, canonical text) as rendered by harness/extract/skeleton.go,
  followed by the model definition / branch that mirrors the statement.  Regenerated rows:
  Gen/SkelC16.lean; pins: Props/SkelC16.lean.  Core Lean only.
-/
import ScionTime.Model.Skel.Basic

namespace ScionTime.Model.Skel

/-- core/client, collectMeasurements -/
def Collect.collectMeasurements : List Row := [
  (0, "func collectMeasurements(ctx context.Context, ms []measurements.Measurement, msc chan measurements.Measurement) int"),  -- Collect.step / run from Collect.init: the collector = choices recv, observeCancel, retFull (harness c16 op col.run)
  (1, "i := 0"),  -- Collect.init: i := 0
  (1, "j := 0"),  -- Collect.init: j := 0
  (1, "n := len(ms)"),  -- Collect.init: n := ms0.length
  (1, "loop:"),  -- Collect.Phase.loop: the labelled loop, left by .observeCancel (break loop) or .retFull
  (1, "for i != n"),  -- Collect.step: guard s.i ≠ s.n of .recv / .observeCancel; s.i = s.n enables .retFull
  (2, "select"),  -- Collect.step: .recv id or .observeCancel as the schedule picks (select over-approximated: any ready case may be taken)
  (3, "case m := <-msc"),  -- Collect.step: | .recv id => findMsg s.sending id, sending.erase m (rendezvous with a sender blocked in msc <- m)
  (4, "if m.Error == nil"),  -- Collect.collectorRecv: if m.ok
  (5, "if j != len(ms)"),  -- Collect.collectorRecv: if s.j ≠ s.ms.length (never false: C16_guard_never_blocks)
  (6, "ms[j] = m"),  -- Collect.collectorRecv: ms := s.ms.set s.j m
  (6, "j++"),  -- Collect.collectorRecv: j := s.j + 1
  (4, "i++"),  -- Collect.collectorRecv: i := s1.i + 1 (ghost: received ++ [m])
  (3, "case <-ctx.Done()"),  -- Collect.step: | .observeCancel => s.i ≠ s.n ∧ s.ctxDone (ctxDone set by .cancel at the deadline, or by init)
  (4, "break loop"),  -- Collect.step .observeCancel: phase := .done (s.n - s.i), retAt := s.now (break, go drain, return as one step)
  (1, "go func(n int) {…}(n - i)"),  -- Collect.step .observeCancel / .retFull: phase := .done (s.n - s.i), the drain goroutine started with n - i
  (2, "func literal 1"),  -- Collect.Phase.done left: the drain goroutine, left = receives still to go
  (3, "for n != 0"),  -- Collect.step: | .drain id => if left ≠ 0 (left = 0: the goroutine has exited, C16_no_leak)
  (4, "<-msc"),  -- Collect.step .drain id: sending.erase m, drained ++ [m]
  (4, "n--"),  -- Collect.step .drain: phase := .done (left - 1)
  (1, "return j")  -- Collect.St.j once phase = .done _, retAt := s.now (C16_front_once: j = #successes); MeasureClockOffsets discards it
  ]

/-- core/client, ReferenceClockClient.MeasureClockOffsets -/
def Collect.ReferenceClockClient_MeasureClockOffsets : List Row := [
  (0, "func (c *ReferenceClockClient) MeasureClockOffsets(ctx context.Context, refclks []ReferenceClock, ms []measurements.Measurement)"),  -- Collect.entry, then Collect.init / run (harness c16 ops col.entry, col.guard, col.run); contract for C01: Sync.collect
  (1, "if len(ms) != len(refclks)"),  -- Collect.entry: if lenMs ≠ lenClks
  (2, "panic(\"number of result offsets must be equal to the number of reference clocks\")"),  -- Collect.entry: (g, .lenPanic), guard word untouched (C16_entry)
  (1, "swapped := atomic.CompareAndSwapUint32(&c.numOpsInProgress, 0, 1)"),  -- Collect.guardStep: | .enter => if g = 0 then (1, .accepted) (reached through Collect.entry)
  (1, "if !swapped"),  -- Collect.guardStep .enter: else (g, .refused)
  (2, "panic(\"too many reference clock offset measurements in progress\")"),  -- Collect.GuardRes.refused / EntryRes.refused
  (1, "defer func(addr *uint32) {…}(&c.numOpsInProgress)"),  -- Collect.GuardEv.leave: deferred event of an accepted caller (it follows every accepted enter: harness c16 op col.guard)
  (2, "func literal 1"),  -- Collect.guardStep: | .leave
  (3, "swapped := atomic.CompareAndSwapUint32(addr, 1, 0)"),  -- Collect.guardStep .leave: if g = 1 then (0, .left)
  (3, "if !swapped"),  -- Collect.guardStep .leave: else (g, .inconsistent)
  (4, "panic(\"inconsistent count of reference clock offset measurements\")"),  -- Collect.GuardRes.inconsistent
  (1, "msc := make(chan measurements.Measurement)"),  -- Collect.St.sending: the unbuffered channel = senders blocked in msc <- m until a .recv / .drain step takes one
  (1, "for _, refclk := range refclks"),  -- Collect.init: measuring := senders, one Sender per reference clock (ms0.length = senders.length)
  (2, "go func(ctx context.Context, refclk ReferenceClock) {…}(ctx, refclk)"),  -- Collect.Sender: one goroutine per clock, never joined (may still be in measuring / sending after phase .done)
  (3, "func literal 1"),  -- Collect.step: | .finish id, | .abort id: the two ways the sender goroutine gets to its send
  (4, "ts, off, err := refclk.MeasureClockOffset(ctx)"),  -- Collect.step .finish (x.due ≤ now, ok := x.ok) / .abort (aware ∧ ctxDone, ok := false); result = input Sender
  (4, "msc <- measurements.Measurement{ Timestamp: ts, Offset: off, Error: err}"),  -- Collect.step .finish / .abort: sending ++ [{id, ok}]; Msg abstracts Timestamp, Offset to id and Error to ok
  (1, "collectMeasurements(ctx, ms, msc)")  -- Collect.run (init t0 d senders ms0) sched from phase .loop; result j dropped (caller sees only ms: Sync.collect)
  ]

end ScionTime.Model.Skel
