/-
  Control skeletons of core/client as the models were written against them
  (notes/SKEL.md).  Each row: (depth, canonical text) as rendered by harness/extract/skeleton.go,
  followed by the model definition / branch that mirrors the statement.  Regenerated rows:
  Gen/SkelC16.lean; pins: Props/SkelC16.lean.  Core Lean only.
-/
import ScionTime.Model.Skel.Basic

namespace ScionTime.Model.Skel

/-- core/client, collectMeasurements -/
def Collect.collectMeasurements : List Row := [
  (0, "func collectMeasurements(ctx context.Context, ms []measurements.Measurement, msc chan measurements.Measurement) int"),  -- ?
  (1, "i := 0"),  -- ?
  (1, "j := 0"),  -- ?
  (1, "n := len(ms)"),  -- ?
  (1, "loop:"),  -- ?
  (1, "for i != n"),  -- ?
  (2, "select"),  -- ?
  (3, "case m := <-msc"),  -- ?
  (4, "if m.Error == nil"),  -- ?
  (5, "if j != len(ms)"),  -- ?
  (6, "ms[j] = m"),  -- ?
  (6, "j++"),  -- ?
  (4, "i++"),  -- ?
  (3, "case <-ctx.Done()"),  -- ?
  (4, "break loop"),  -- ?
  (1, "go func(n int) {…}(n - i)"),  -- ?
  (2, "func literal 1"),  -- ?
  (3, "for n != 0"),  -- ?
  (4, "<-msc"),  -- ?
  (4, "n--"),  -- ?
  (1, "return j")  -- ?
  ]

/-- core/client, ReferenceClockClient.MeasureClockOffsets -/
def Collect.ReferenceClockClient_MeasureClockOffsets : List Row := [
  (0, "func (c *ReferenceClockClient) MeasureClockOffsets(ctx context.Context, refclks []ReferenceClock, ms []measurements.Measurement)"),  -- ?
  (1, "if len(ms) != len(refclks)"),  -- ?
  (2, "panic(\"number of result offsets must be equal to the number of reference clocks\")"),  -- ?
  (1, "swapped := atomic.CompareAndSwapUint32(&c.numOpsInProgress, 0, 1)"),  -- ?
  (1, "if !swapped"),  -- ?
  (2, "panic(\"too many reference clock offset measurements in progress\")"),  -- ?
  (1, "defer func(addr *uint32) {…}(&c.numOpsInProgress)"),  -- ?
  (2, "func literal 1"),  -- ?
  (3, "swapped := atomic.CompareAndSwapUint32(addr, 1, 0)"),  -- ?
  (3, "if !swapped"),  -- ?
  (4, "panic(\"inconsistent count of reference clock offset measurements\")"),  -- ?
  (1, "msc := make(chan measurements.Measurement)"),  -- ?
  (1, "for _, refclk := range refclks"),  -- ?
  (2, "go func(ctx context.Context, refclk ReferenceClock) {…}(ctx, refclk)"),  -- ?
  (3, "func literal 1"),  -- ?
  (4, "ts, off, err := refclk.MeasureClockOffset(ctx)"),  -- ?
  (4, "msc <- measurements.Measurement{ Timestamp: ts, Offset: off, Error: err}"),  -- ?
  (1, "collectMeasurements(ctx, ms, msc)")  -- ?
  ]

end ScionTime.Model.Skel
