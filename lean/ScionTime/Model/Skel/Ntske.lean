/-
  Control skeletons of net/ntske as the models were written against them
  (notes/SKEL.md).  Each row: (depth, canonical text) as rendered by harness/extract/skeleton.go,
  followed by the model definition / branch that mirrors the statement.  Regenerated rows:
  Gen/SkelC20.lean; pins: Props/SkelC20.lean.  Core Lean only.
-/
import ScionTime.Model.Skel.Basic

namespace ScionTime.Model.Skel

/-- net/ntske, Fetcher.exchangeKeys -/
def Ntske.Fetcher_exchangeKeys : List Row := [
  (0, "func (f *Fetcher) exchangeKeys(ctx context.Context) error"),  -- ?
  (1, "var data Data"),  -- ?
  (1, "if f.QUIC.Enabled"),  -- ?
  (2, "var err error"),  -- ?
  (2, "var conn *scion.QUICConnection"),  -- ?
  (2, "conn, data, err = dialQUIC(f.Log, f.QUIC.LocalAddr, f.QUIC.RemoteAddr, f.QUIC.DaemonAddr, &f.TLSConfig)"),  -- ?
  (2, "if err != nil"),  -- ?
  (3, "return err"),  -- ?
  (2, "defer func() {…}()"),  -- ?
  (3, "func literal 1"),  -- ?
  (4, "err := conn.CloseWithError(quic.ApplicationErrorCode(0), \"\")"),  -- ?
  (4, "if err != nil"),  -- ?
  (2, "err = exchangeDataQUIC(ctx, f.Log, conn, &data)"),  -- ?
  (2, "if err != nil"),  -- ?
  (3, "return err"),  -- ?
  (2, "err = ExportKeys(conn.ConnectionState().TLS, &data)"),  -- ?
  (2, "if err != nil"),  -- ?
  (3, "return err"),  -- ?
  (1, "else"),  -- ?
  (2, "var err error"),  -- ?
  (2, "var conn *tls.Conn"),  -- ?
  (2, "serverAddr := net.JoinHostPort(f.TLSConfig.ServerName, f.Port)"),  -- ?
  (2, "conn, data, err = dialTLS(serverAddr, &f.TLSConfig)"),  -- ?
  (2, "if err != nil"),  -- ?
  (3, "return err"),  -- ?
  (2, "err = exchangeDataTLS(ctx, f.Log, conn, &data)"),  -- ?
  (2, "if err != nil"),  -- ?
  (3, "return err"),  -- ?
  (2, "err = ExportKeys(conn.ConnectionState(), &data)"),  -- ?
  (2, "if err != nil"),  -- ?
  (3, "return err"),  -- ?
  (1, "if len(data.Cookie) == 0"),  -- ?
  (2, "return errNoCookies"),  -- ?
  (1, "if data.Algo != AES_SIV_CMAC_256"),  -- ?
  (2, "return errUnknownAlgo"),  -- ?
  (1, "f.data = data"),  -- ?
  (1, "logData(ctx, f.Log, f.data)"),  -- ?
  (1, "return nil")  -- ?
  ]

/-- net/ntske, Fetcher.FetchData -/
def Ntske.Fetcher_FetchData : List Row := [
  (0, "func (f *Fetcher) FetchData(ctx context.Context) (Data, error)"),  -- ?
  (1, "if len(f.data.Cookie) == 0"),  -- ?
  (2, "err := f.exchangeKeys(ctx)"),  -- ?
  (2, "if err != nil"),  -- ?
  (3, "return Data{}, err"),  -- ?
  (1, "data := f.data"),  -- ?
  (1, "f.data.Cookie = f.data.Cookie[1:]"),  -- ?
  (1, "return data, nil")  -- ?
  ]

/-- net/ntske, Fetcher.StoreCookie -/
def Ntske.Fetcher_StoreCookie : List Row := [
  (0, "func (f *Fetcher) StoreCookie(cookie []byte)"),  -- ?
  (1, "f.data.Cookie = append(f.data.Cookie, cookie)")  -- ?
  ]

/-- net/ntske, ReadData -/
def Ntske.ReadData : List Row := [
  (0, "func ReadData(ctx context.Context, log *slog.Logger, reader *bufio.Reader, data *Data) error"),  -- ?
  (1, "var msg RecordHdr"),  -- ?
  (1, "var critical bool"),  -- ?
  (1, "for"),  -- ?
  (2, "err := binary.Read(reader, binary.BigEndian, &msg)"),  -- ?
  (2, "if err != nil"),  -- ?
  (3, "return err"),  -- ?
  (2, "if hasBit(msg.Type, 15)"),  -- ?
  (3, "critical = true"),  -- ?
  (2, "else"),  -- ?
  (3, "critical = false"),  -- ?
  (2, "msg.Type &^= (1 << 15)"),  -- ?
  (2, "switch msg.Type"),  -- ?
  (3, "case RecEom"),  -- ?
  (4, "return nil"),  -- ?
  (3, "case RecNextproto"),  -- ?
  (4, "var nextProto uint16"),  -- ?
  (4, "err := binary.Read(reader, binary.BigEndian, &nextProto)"),  -- ?
  (4, "if err != nil"),  -- ?
  (5, "return err"),  -- ?
  (3, "case RecAead"),  -- ?
  (4, "var aead uint16"),  -- ?
  (4, "err := binary.Read(reader, binary.BigEndian, &aead)"),  -- ?
  (4, "if err != nil"),  -- ?
  (5, "return err"),  -- ?
  (4, "data.Algo = aead"),  -- ?
  (3, "case RecCookie"),  -- ?
  (4, "cookie := make([]byte, msg.BodyLen)"),  -- ?
  (4, "_, err := io.ReadFull(reader, cookie)"),  -- ?
  (4, "if err != nil"),  -- ?
  (5, "return err"),  -- ?
  (4, "data.Cookie = append(data.Cookie, cookie)"),  -- ?
  (3, "case RecServer"),  -- ?
  (4, "address := make([]byte, msg.BodyLen)"),  -- ?
  (4, "err := binary.Read(reader, binary.BigEndian, &address)"),  -- ?
  (4, "if err != nil"),  -- ?
  (5, "return err"),  -- ?
  (4, "data.Server = string(address)"),  -- ?
  (3, "case RecPort"),  -- ?
  (4, "err := binary.Read(reader, binary.BigEndian, &data.Port)"),  -- ?
  (4, "if err != nil"),  -- ?
  (5, "return err"),  -- ?
  (3, "case RecError"),  -- ?
  (4, "var code uint16"),  -- ?
  (4, "err := binary.Read(reader, binary.BigEndian, &code)"),  -- ?
  (4, "if err != nil"),  -- ?
  (5, "return err"),  -- ?
  (4, "if code == ErrorCodeUnrecognizedCritical"),  -- ?
  (5, "return errReadUnrecognisedCritical"),  -- ?
  (4, "else if code == ErrorCodeBadRequest"),  -- ?
  (5, "return errReadBadRequest"),  -- ?
  (4, "else if code == ErrorCodeInternalServer"),  -- ?
  (5, "return errReadInternalServer"),  -- ?
  (4, "return errReadUnknown"),  -- ?
  (3, "default"),  -- ?
  (4, "if critical"),  -- ?
  (5, "return fmt.Errorf(\"unknown record type %v with critical bit set\", msg.Type)"),  -- ?
  (4, "unknownMsg := make([]byte, msg.BodyLen)"),  -- ?
  (4, "err := binary.Read(reader, binary.BigEndian, &unknownMsg)"),  -- ?
  (4, "if err != nil"),  -- ?
  (5, "return err")  -- ?
  ]

/-- net/ntske, ExportKeys -/
def Ntske.ExportKeys : List Row := [
  (0, "func ExportKeys(cs tls.ConnectionState, data *Data) error"),  -- ?
  (1, "label := \"EXPORTER-network-time-security\""),  -- ?
  (1, "s2cContext := []byte{0x00, 0x00, 0x00, 0x0f, 0x01}"),  -- ?
  (1, "c2sContext := []byte{0x00, 0x00, 0x00, 0x0f, 0x00}"),  -- ?
  (1, "len := 32"),  -- ?
  (1, "var err error"),  -- ?
  (1, "data.S2cKey, err = cs.ExportKeyingMaterial(label, s2cContext, len)"),  -- ?
  (1, "if err != nil"),  -- ?
  (2, "return err"),  -- ?
  (1, "data.C2sKey, err = cs.ExportKeyingMaterial(label, c2sContext, len)"),  -- ?
  (1, "if err != nil"),  -- ?
  (2, "return err"),  -- ?
  (1, "return nil")  -- ?
  ]

/-- net/ntske, dialTLS -/
def Ntske.dialTLS : List Row := [
  (0, "func dialTLS(hostport string, config *tls.Config) (*tls.Conn, Data, error)"),  -- ?
  (1, "config.NextProtos = []string{alpn}"),  -- ?
  (1, "_, _, err := net.SplitHostPort(hostport)"),  -- ?
  (1, "if err != nil"),  -- ?
  (2, "if !strings.Contains(err.Error(), \"missing port in address\")"),  -- ?
  (3, "return nil, Data{}, err"),  -- ?
  (2, "hostport = net.JoinHostPort(hostport, strconv.Itoa(ServerPortIP))"),  -- ?
  (1, "conn, err := tls.DialWithDialer(&net.Dialer{ Timeout: time.Second * 5}, \"tcp\", hostport, config)"),  -- ?
  (1, "if err != nil"),  -- ?
  (2, "return nil, Data{}, err"),  -- ?
  (1, "var data Data"),  -- ?
  (1, "data.Server, _, err = net.SplitHostPort(conn.RemoteAddr().String())"),  -- ?
  (1, "if err != nil"),  -- ?
  (2, "_ = conn.Close()"),  -- ?
  (2, "return nil, Data{}, err"),  -- ?
  (1, "data.Port = ntp.ServerPortIP"),  -- ?
  (1, "state := conn.ConnectionState()"),  -- ?
  (1, "if state.NegotiatedProtocol != alpn"),  -- ?
  (2, "_ = conn.Close()"),  -- ?
  (2, "return nil, Data{}, errServerNoNTSKE"),  -- ?
  (1, "return conn, data, nil")  -- ?
  ]

/-- net/ntske, exchangeDataTLS -/
def Ntske.exchangeDataTLS : List Row := [
  (0, "func exchangeDataTLS(ctx context.Context, log *slog.Logger, conn *tls.Conn, data *Data) error"),  -- ?
  (1, "var msg ExchangeMsg"),  -- ?
  (1, "var nextproto NextProto"),  -- ?
  (1, "nextproto.NextProto = NTPv4"),  -- ?
  (1, "msg.AddRecord(nextproto)"),  -- ?
  (1, "var algo Algorithm"),  -- ?
  (1, "algo.Algo = []uint16{AES_SIV_CMAC_256}"),  -- ?
  (1, "msg.AddRecord(algo)"),  -- ?
  (1, "var end End"),  -- ?
  (1, "msg.AddRecord(end)"),  -- ?
  (1, "buf, err := msg.Pack()"),  -- ?
  (1, "if err != nil"),  -- ?
  (2, "return err"),  -- ?
  (1, "_, err = conn.Write(buf.Bytes())"),  -- ?
  (1, "if err != nil"),  -- ?
  (2, "return err"),  -- ?
  (1, "reader := bufio.NewReader(conn)"),  -- ?
  (1, "err = ReadData(ctx, log, reader, data)"),  -- ?
  (1, "if err != nil"),  -- ?
  (2, "return err"),  -- ?
  (1, "return nil")  -- ?
  ]

/-- net/ntske, dialQUIC -/
def Ntske.dialQUIC : List Row := [
  (0, "func dialQUIC(log *slog.Logger, localAddr, remoteAddr udp.UDPAddr, daemonAddr string, config *tls.Config) (*scion.QUICConnection, Data, error)"),  -- ?
  (1, "config.NextProtos = []string{alpn}"),  -- ?
  (1, "var err error"),  -- ?
  (1, "ctx := context.Background()"),  -- ?
  (1, "dc := scion.NewDaemonConnector(ctx, daemonAddr)"),  -- ?
  (1, "var ps []snet.Path"),  -- ?
  (1, "if remoteAddr.IA == localAddr.IA"),  -- ?
  (2, "ps = []snet.Path{path.Path{ Src: localAddr.IA, Dst: remoteAddr.IA, DataplanePath: path.Empty{}, NextHop: remoteAddr.Host}}"),  -- ?
  (1, "else"),  -- ?
  (2, "ps, err = dc.Paths(ctx, remoteAddr.IA, localAddr.IA, daemon.PathReqFlags{Refresh: true})"),  -- ?
  (2, "if err != nil"),  -- ?
  (3, "return nil, Data{}, err"),  -- ?
  (2, "if len(ps) == 0"),  -- ?
  (3, "return nil, Data{}, errNoPath"),  -- ?
  (1, "sp := ps[0]"),  -- ?
  (1, "conn, err := scion.DialQUIC(ctx, localAddr, remoteAddr, sp, \"\", config, nil)"),  -- ?
  (1, "if err != nil"),  -- ?
  (2, "return nil, Data{}, err"),  -- ?
  (1, "var data Data"),  -- ?
  (1, "data.Server, _, err = net.SplitHostPort(remoteAddr.Host.String())"),  -- ?
  (1, "if err != nil"),  -- ?
  (2, "_ = conn.Close()"),  -- ?
  (2, "return nil, Data{}, err"),  -- ?
  (1, "data.Port = ntp.ServerPortSCION"),  -- ?
  (1, "return conn, data, nil")  -- ?
  ]

/-- net/ntske, exchangeDataQUIC -/
def Ntske.exchangeDataQUIC : List Row := [
  (0, "func exchangeDataQUIC(ctx context.Context, log *slog.Logger, conn *scion.QUICConnection, data *Data) error"),  -- ?
  (1, "stream, err := conn.OpenStream()"),  -- ?
  (1, "if err != nil"),  -- ?
  (2, "return err"),  -- ?
  (1, "defer stream.Close()"),  -- ?
  (1, "var msg ExchangeMsg"),  -- ?
  (1, "var nextproto NextProto"),  -- ?
  (1, "nextproto.NextProto = NTPv4"),  -- ?
  (1, "msg.AddRecord(nextproto)"),  -- ?
  (1, "var algo Algorithm"),  -- ?
  (1, "algo.Algo = []uint16{AES_SIV_CMAC_256}"),  -- ?
  (1, "msg.AddRecord(algo)"),  -- ?
  (1, "var end End"),  -- ?
  (1, "msg.AddRecord(end)"),  -- ?
  (1, "buf, err := msg.Pack()"),  -- ?
  (1, "if err != nil"),  -- ?
  (2, "return err"),  -- ?
  (1, "_, err = stream.Write(buf.Bytes())"),  -- ?
  (1, "if err != nil"),  -- ?
  (2, "return err"),  -- ?
  (1, "reader := bufio.NewReader(stream)"),  -- ?
  (1, "err = ReadData(ctx, log, reader, data)"),  -- ?
  (1, "if err != nil"),  -- ?
  (2, "return err"),  -- ?
  (1, "return nil")  -- ?
  ]

end ScionTime.Model.Skel
