/-
  Control skeletons of net/ntske as the models were written against them
  (notes/SKEL.md).  Each row: (depth, canonical text) as rendered by harness/extract/skeleton.go,
  followed by the model definition / branch that mirrors the statement.  Regenerated rows:
  Gen/SkelC20.lean; pins: Props/SkelC20.lean.  Core Lean only.
-/
import ScionTime.Model.Skel.Basic

namespace ScionTime.Model.Skel

/-- net/ntske, Fetcher.exchangeKeys -/
def Ntske.Fetcher_exchangeKeys : List Row := [
  (0, "func (f *Fetcher) exchangeKeys(ctx context.Context) error"),  -- Ntske.exchangeKeys: repaired (exchangeKeysOld = F8, exchangeCoreQUICOld = F18); harness c20 op f.fetch
  (1, "var data Data"),  -- Ntske.exchangeKeys: local result of exchangeCore; pin x_c20.go fact F8 (f.data never passed by address)
  (1, "if f.QUIC.Enabled"),  -- Ntske.exchangeCoreFrom: Exchange.quic (Fetcher.QUIC.Enabled)
  (2, "var err error"),  -- env: variable declaration
  (2, "var conn *scion.QUICConnection"),  -- env: variable declaration
  (2, "conn, data, err = dialQUIC(f.Log, f.QUIC.LocalAddr, f.QUIC.RemoteAddr, f.QUIC.DaemonAddr, &f.TLSConfig)"),  -- Ntske.exchangeCore: exchangeCoreFrom (dialData e) e, quic = true; Data of dialQUIC kept (F18: exchangeCoreQUICOld)
  (2, "if err != nil"),  -- Ntske.exchangeCoreFrom: if !e.dialOk
  (3, "return err"),  -- Ntske.exchangeCoreFrom: ({}, some .dial); exchangeKeys: | (_, some err) => (cached, some err)
  (2, "defer func() {…}()"),  -- env: deferred close of the QUIC connection (application error code 0) on every exit after the dial
  (3, "func literal 1"),  -- env: body of the deferred close
  (4, "err := conn.CloseWithError(quic.ApplicationErrorCode(0), \"\")"),  -- env: conn.CloseWithError(0, ""): connection teardown, result only logged
  (4, "if err != nil"),  -- env: close error only logged
  (2, "err = exchangeDataQUIC(ctx, f.Log, conn, &data)"),  -- Ntske.exchangeCoreFrom: readData e.stream d0 (exchangeDataQUIC: request written, then ReadData)
  (2, "if err != nil"),  -- Ntske.exchangeCoreFrom: | (d, some err)
  (3, "return err"),  -- Ntske.exchangeCoreFrom: (d, some (.read err)); exchangeKeys keeps cached (C20_failure_leaves_nothing)
  (2, "err = ExportKeys(conn.ConnectionState().TLS, &data)"),  -- Ntske.exchangeCoreFrom: exportOk; d with s2c := e.s2c, c2s := e.c2s (exporter outputs of the session = inputs)
  (2, "if err != nil"),  -- Ntske.exchangeCoreFrom: if !e.exportOk
  (3, "return err"),  -- Ntske.exchangeCoreFrom: (d, some .export_); exchangeKeys keeps cached
  (1, "else"),  -- Ntske.exchangeCoreFrom: e.quic = false (TLS over TCP)
  (2, "var err error"),  -- env: variable declaration
  (2, "var conn *tls.Conn"),  -- env: variable declaration
  (2, "serverAddr := net.JoinHostPort(f.TLSConfig.ServerName, f.Port)"),  -- UNMODELLED: dial target = JoinHostPort(TLSConfig.ServerName, Port); Ntske.Exchange has no target address
  (2, "conn, data, err = dialTLS(serverAddr, &f.TLSConfig)"),  -- Ntske.exchangeCore: exchangeCoreFrom (dialData e) e with quic = false (dialOk, host, alpn are inputs)
  (2, "if err != nil"),  -- Ntske.exchangeCoreFrom: if !e.dialOk / else if e.quic = false and e.alpn != alpnProto
  (3, "return err"),  -- Ntske.exchangeCoreFrom: ({}, some .dial) or ({}, some .noNtske); exchangeKeys keeps cached
  (2, "err = exchangeDataTLS(ctx, f.Log, conn, &data)"),  -- Ntske.exchangeCoreFrom: readData e.stream d0 (exchangeDataTLS: request written, then ReadData)
  (2, "if err != nil"),  -- Ntske.exchangeCoreFrom: | (d, some err)
  (3, "return err"),  -- Ntske.exchangeCoreFrom: (d, some (.read err)); exchangeKeys keeps cached (F8: exchangeKeysOld kept partial data)
  (2, "err = ExportKeys(conn.ConnectionState(), &data)"),  -- Ntske.exchangeCoreFrom: exportOk; d with s2c := e.s2c, c2s := e.c2s (exporter outputs of the session = inputs)
  (2, "if err != nil"),  -- Ntske.exchangeCoreFrom: if !e.exportOk
  (3, "return err"),  -- Ntske.exchangeCoreFrom: (d, some .export_); exchangeKeys keeps cached
  (1, "if len(data.Cookie) == 0"),  -- Ntske.exchangeCoreFrom: if d.cookies.isEmpty
  (2, "return errNoCookies"),  -- Ntske.exchangeCoreFrom: (d, some .noCookies); exchangeKeys keeps cached
  (1, "if data.Algo != AES_SIV_CMAC_256"),  -- Ntske.exchangeCoreFrom: else if d.algo != aesSivCmac256 (pin C20_pin_algorithm)
  (2, "return errUnknownAlgo"),  -- Ntske.exchangeCoreFrom: (d, some .unknownAlgo); exchangeKeys keeps cached
  (1, "f.data = data"),  -- Ntske.exchangeKeys: | (d, none) => (d, none): the only write of the cache; pin x_c20.go fact F8 (exactly one)
  (1, "logData(ctx, f.Log, f.data)"),  -- env: logging only (debug-level dump of keys, server, port, algorithm and cookies)
  (1, "return nil")  -- Ntske.exchangeKeys: (d, none)
  ]

/-- net/ntske, Fetcher.FetchData -/
def Ntske.Fetcher_FetchData : List Row := [
  (0, "func (f *Fetcher) FetchData(ctx context.Context) (Data, error)"),  -- Ntske.fetchWith: fetchData = fetchWith exchangeKeys; NtsPool.fetchData (pool only); harness c20 f.fetch, c11 cl.request
  (1, "if len(f.data.Cookie) == 0"),  -- Ntske.fetchWith: if cached.cookies.isEmpty (C20_rekey_only_when_empty); NtsPool.fetchData: | [] => none
  (2, "err := f.exchangeKeys(ctx)"),  -- Ntske.fetchWith: ex cached e (= exchangeKeys cached e), exchanged := true
  (2, "if err != nil"),  -- Ntske.fetchWith: | (c, some err)
  (3, "return Data{}, err"),  -- Ntske.fetchWith: (c, .error err, true): Data{} with err, c = cached (C20_failed_fetch_then_new_exchange)
  (1, "data := f.data"),  -- Ntske.fetchWith: out := .ok c / .ok cached (a copy with the whole pool); NtsPool.fetchData: some (pool, rest)
  (1, "f.data.Cookie = f.data.Cookie[1:]"),  -- Ntske.fetchWith: cookies := cookies.drop 1 (C20_fetch_ok_has_cookie: pool not empty here); NtsPool.fetchData: rest
  (1, "return data, nil")  -- Ntske.fetchWith: FetchOut.ok d
  ]

/-- net/ntske, Fetcher.StoreCookie -/
def Ntske.Fetcher_StoreCookie : List Row := [
  (0, "func (f *Fetcher) StoreCookie(cookie []byte)"),  -- Ntske.storeCookie: and NtsPool.storeCookie (folded over the reply cookies); harness c20 op f.store, c11 op cl.response
  (1, "f.data.Cookie = append(f.data.Cookie, cookie)")  -- Ntske.storeCookie: cookies := cached.cookies ++ [c] (no cap); NtsPool.storeCookie: pool ++ [c]
  ]

/-- net/ntske, ReadData -/
def Ntske.ReadData : List Row := [
  (0, "func ReadData(ctx context.Context, log *slog.Logger, reader *bufio.Reader, data *Data) error"),  -- Ntske.loop: readData (Rd.readFull), readDataOld (F7), readFlat (spec, C14Ntske_readData_flat); harness c20 op rd.read
  (1, "var msg RecordHdr"),  -- Ntske.step: h = the 4 header bytes (raw = type with critical bit, blen)
  (1, "var critical bool"),  -- Ntske.step: crit
  (1, "for"),  -- Ntske.loop: recursion, fuel fuelFor (never runs out: C08Ntske_readData_total; 4 bytes per pass: C08Ntske_progress)
  (2, "err := binary.Read(reader, binary.BigEndian, &msg)"),  -- Ntske.step: full r 4 (binary.Read of the header = Rd.readFull / fill)
  (2, "if err != nil"),  -- Ntske.Res.andThen: | .eof / | .ueof
  (3, "return err"),  -- Ntske.Res.andThen: .done (d, some .eof / .ueof): data as mutated so far, with the I/O error
  (2, "if hasBit(msg.Type, 15)"),  -- Ntske.step: crit := raw / 32768 % 2 == 1
  (3, "critical = true"),  -- Ntske.step: crit = true
  (2, "else"),  -- Ntske.step: crit = false
  (3, "critical = false"),  -- Ntske.step: crit = false
  (2, "msg.Type &^= (1 << 15)"),  -- Ntske.step: typ := raw % 32768
  (2, "switch msg.Type"),  -- Ntske.step: the if-chain on typ (constants: pin C20_pin_record_types)
  (3, "case RecEom"),  -- Ntske.step: if typ = recEom
  (4, "return nil"),  -- Ntske.step: .done (d, none)
  (3, "case RecNextproto"),  -- Ntske.step: else if typ = recNextproto
  (4, "var nextProto uint16"),  -- env: variable declaration (the value is read and dropped)
  (4, "err := binary.Read(reader, binary.BigEndian, &nextProto)"),  -- Ntske.step: full r 2 (two bytes whatever the length field says), then .more r d
  (4, "if err != nil"),  -- Ntske.Res.andThen: | .eof / | .ueof
  (5, "return err"),  -- Ntske.Res.andThen: .done (d, some .eof / .ueof): data as mutated so far, with the I/O error
  (3, "case RecAead"),  -- Ntske.step: else if typ = recAead
  (4, "var aead uint16"),  -- env: variable declaration
  (4, "err := binary.Read(reader, binary.BigEndian, &aead)"),  -- Ntske.step: full r 2 (two bytes whatever the length field says; C14Ntske_multi_algorithm_desync)
  (4, "if err != nil"),  -- Ntske.Res.andThen: | .eof / | .ueof
  (5, "return err"),  -- Ntske.Res.andThen: .done (d, some .eof / .ueof): data as mutated so far, with the I/O error
  (4, "data.Algo = aead"),  -- Ntske.step: .more r { d with algo := be16 b0 b1 }
  (3, "case RecCookie"),  -- Ntske.step: else if typ = recCookie
  (4, "cookie := make([]byte, msg.BodyLen)"),  -- Ntske.step: ck r blen: buffer of the 16-bit length field (C08Ntske_alloc_bounded: at most 65535)
  (4, "_, err := io.ReadFull(reader, cookie)"),  -- Ntske.step: ck = Rd.readFull (io.ReadFull); readDataOld: Rd.readOneZ (F7); pin x_c20.go fact F7 (no reader.Read)
  (4, "if err != nil"),  -- Ntske.Res.andThen: | .eof / | .ueof
  (5, "return err"),  -- Ntske.Res.andThen: .done (d, some .eof / .ueof): data as mutated so far, with the I/O error
  (4, "data.Cookie = append(data.Cookie, cookie)"),  -- Ntske.step: .more r { d with cookies := d.cookies ++ [b] } (no limit on count or length)
  (3, "case RecServer"),  -- Ntske.step: else if typ = recServer
  (4, "address := make([]byte, msg.BodyLen)"),  -- Ntske.step: full r blen: buffer of the length field
  (4, "err := binary.Read(reader, binary.BigEndian, &address)"),  -- Ntske.step: full r blen (binary.Read into a byte slice = io.ReadFull; blen = 0 returns at once)
  (4, "if err != nil"),  -- Ntske.Res.andThen: | .eof / | .ueof
  (5, "return err"),  -- Ntske.Res.andThen: .done (d, some .eof / .ueof): data as mutated so far, with the I/O error
  (4, "data.Server = string(address)"),  -- Ntske.step: .more r { d with server := b } (bytes of the Go string, not validated)
  (3, "case RecPort"),  -- Ntske.step: else if typ = recPort
  (4, "err := binary.Read(reader, binary.BigEndian, &data.Port)"),  -- Ntske.step: full r 2; .more r { d with port := be16 b0 b1 } (two bytes whatever the length field says)
  (4, "if err != nil"),  -- Ntske.Res.andThen: | .eof / | .ueof
  (5, "return err"),  -- Ntske.Res.andThen: .done (d, some .eof / .ueof): data as mutated so far, with the I/O error
  (3, "case RecError"),  -- Ntske.step: else if typ = recError
  (4, "var code uint16"),  -- env: variable declaration
  (4, "err := binary.Read(reader, binary.BigEndian, &code)"),  -- Ntske.step: full r 2
  (4, "if err != nil"),  -- Ntske.Res.andThen: | .eof / | .ueof
  (5, "return err"),  -- Ntske.Res.andThen: .done (d, some .eof / .ueof): data as mutated so far, with the I/O error
  (4, "if code == ErrorCodeUnrecognizedCritical"),  -- Ntske.errorOfCode: if code = 0 (pin C20Srv_pin_error_codes covers codes 1 and 2 only)
  (5, "return errReadUnrecognisedCritical"),  -- Ntske.errorOfCode: .unrecCritical; step: .done (d, some ...)
  (4, "else if code == ErrorCodeBadRequest"),  -- Ntske.errorOfCode: else if code = 1
  (5, "return errReadBadRequest"),  -- Ntske.errorOfCode: .badRequest
  (4, "else if code == ErrorCodeInternalServer"),  -- Ntske.errorOfCode: else if code = 2
  (5, "return errReadInternalServer"),  -- Ntske.errorOfCode: .internal
  (4, "return errReadUnknown"),  -- Ntske.errorOfCode: else .unknownCode
  (3, "default"),  -- Ntske.step: the last two branches (every other type, warning records = type 3 included)
  (4, "if critical"),  -- Ntske.step: else if crit
  (5, "return fmt.Errorf(\"unknown record type %v with critical bit set\", msg.Type)"),  -- Ntske.step: .done (d, some (.critical typ))
  (4, "unknownMsg := make([]byte, msg.BodyLen)"),  -- Ntske.step: full r blen: buffer of the length field (C08Ntske_alloc_bounded)
  (4, "err := binary.Read(reader, binary.BigEndian, &unknownMsg)"),  -- Ntske.step: else (full r blen).andThen d fun _ r => .more r d (C20_noncritical_ignored)
  (4, "if err != nil"),  -- Ntske.Res.andThen: | .eof / | .ueof
  (5, "return err")  -- Ntske.Res.andThen: .done (d, some .eof / .ueof): data as mutated so far, with the I/O error
  ]

/-- net/ntske, ExportKeys -/
def Ntske.ExportKeys : List Row := [
  (0, "func ExportKeys(cs tls.ConnectionState, data *Data) error"),  -- Ntske.exchangeCoreFrom: (client) and NtskeSrv.verdict (server): exportOk, c2s, s2c are inputs; constants pinned
  (1, "label := \"EXPORTER-network-time-security\""),  -- pin C20_pin_exporter (x_c20.go): Gen.Ntske.exportLabel = Ntske.exporterLabel; C20_exporter_rfc8915
  (1, "s2cContext := []byte{0x00, 0x00, 0x00, 0x0f, 0x01}"),  -- pin C20_pin_exporter (x_c20.go): Gen.Ntske.exportS2CContext = Ntske.s2cContext = [0,0,0,15,1]
  (1, "c2sContext := []byte{0x00, 0x00, 0x00, 0x0f, 0x00}"),  -- pin C20_pin_exporter (x_c20.go): Gen.Ntske.exportC2SContext = Ntske.c2sContext = [0,0,0,15,0]
  (1, "len := 32"),  -- pin C20_pin_exporter (x_c20.go): Gen.Ntske.exportLen = Ntske.exportLen = 32
  (1, "var err error"),  -- env: variable declaration
  (1, "data.S2cKey, err = cs.ExportKeyingMaterial(label, s2cContext, len)"),  -- Ntske.exchangeCoreFrom: s2c := e.s2c / NtskeSrv.Conn.s2c (input); x_c20.go fact: S2cKey from (label, s2cContext, len)
  (1, "if err != nil"),  -- Ntske.exchangeCoreFrom: if !e.exportOk / NtskeSrv.verdict: if !c.exportOk (one flag for both exporter calls)
  (2, "return err"),  -- Ntske.exchangeCoreFrom: (d, some .export_) / NtskeSrv.verdict: .exportFailed
  (1, "data.C2sKey, err = cs.ExportKeyingMaterial(label, c2sContext, len)"),  -- Ntske.exchangeCoreFrom: c2s := e.c2s / NtskeSrv.Conn.c2s (input); x_c20.go fact: C2sKey from (label, c2sContext, len)
  (1, "if err != nil"),  -- Ntske.exchangeCoreFrom: if !e.exportOk / NtskeSrv.verdict: if !c.exportOk (same flag as the first call)
  (2, "return err"),  -- Ntske.exchangeCoreFrom: (d, some .export_) / NtskeSrv.verdict: .exportFailed
  (1, "return nil")  -- Ntske.exchangeCoreFrom: goes on with d with s2c, c2s set / NtskeSrv.verdict: goes on to serverMsg
  ]

/-- net/ntske, dialTLS -/
def Ntske.dialTLS : List Row := [
  (0, "func dialTLS(hostport string, config *tls.Config) (*tls.Conn, Data, error)"),  -- Ntske.dialData: with Ntske.exchangeCoreFrom: dialOk, host, alpn are inputs (quic = false); harness c20 op f.fetch
  (1, "config.NextProtos = []string{alpn}"),  -- pin C20_pin_alpn (Gen.Ntske.alpn = Ntske.alpnProto): only ntske/1 offered; overwrites NextProtos of the Fetcher config
  (1, "_, _, err := net.SplitHostPort(hostport)"),  -- Ntske.exchangeCoreFrom: a hostport that does not split is part of dialOk = false (ExErr.dial: SplitHostPort failed)
  (1, "if err != nil"),  -- Ntske.exchangeCoreFrom: if !e.dialOk
  (2, "if !strings.Contains(err.Error(), \"missing port in address\")"),  -- UNMODELLED: error text "missing port in address" selects the default-port fallback; every other split error is returned
  (3, "return nil, Data{}, err"),  -- Ntske.exchangeCoreFrom: ({}, some .dial)
  (2, "hostport = net.JoinHostPort(hostport, strconv.Itoa(ServerPortIP))"),  -- UNMODELLED: default NTS-KE port ServerPortIP (4460) appended when hostport has no port; no model, constant not pinned
  (1, "conn, err := tls.DialWithDialer(&net.Dialer{ Timeout: time.Second * 5}, \"tcp\", hostport, config)"),  -- env: TCP connect and TLS handshake (5 s dial timeout); result = Exchange.dialOk, host, alpn
  (1, "if err != nil"),  -- Ntske.exchangeCoreFrom: if !e.dialOk
  (2, "return nil, Data{}, err"),  -- Ntske.exchangeCoreFrom: ({}, some .dial)
  (1, "var data Data"),  -- env: variable declaration (Ntske.dialData starts from the zero Data)
  (1, "data.Server, _, err = net.SplitHostPort(conn.RemoteAddr().String())"),  -- Ntske.dialData: server := e.host (host part of conn.RemoteAddr(): key-exchange host = default NTP server)
  (1, "if err != nil"),  -- Ntske.exchangeCoreFrom: part of dialOk = false (ExErr.dial names this SplitHostPort; cannot fail on a TCP address)
  (2, "_ = conn.Close()"),  -- env: connection closed on the error path
  (2, "return nil, Data{}, err"),  -- Ntske.exchangeCoreFrom: ({}, some .dial)
  (1, "data.Port = ntp.ServerPortIP"),  -- Ntske.dialData: port := ntpPortIP = 123 (pin C20_pin_ntp_ports)
  (1, "state := conn.ConnectionState()"),  -- env: TLS connection state; NegotiatedProtocol = Exchange.alpn
  (1, "if state.NegotiatedProtocol != alpn"),  -- Ntske.exchangeCoreFrom: else if e.quic = false and e.alpn != alpnProto
  (2, "_ = conn.Close()"),  -- env: connection closed on the error path
  (2, "return nil, Data{}, errServerNoNTSKE"),  -- Ntske.exchangeCoreFrom: ({}, some .noNtske)
  (1, "return conn, data, nil")  -- Ntske.exchangeCore: exchangeCoreFrom (dialData e) e: the defaults travel on to readData
  ]

/-- net/ntske, exchangeDataTLS -/
def Ntske.exchangeDataTLS : List Row := [
  (0, "func exchangeDataTLS(ctx context.Context, log *slog.Logger, conn *tls.Conn, data *Data) error"),  -- Ntske.exchangeCoreFrom: readData e.stream d0; request = Ntske.clientMsg; harness c20 ops f.fetch, x.fetch, e2e.fetch
  (1, "var msg ExchangeMsg"),  -- Ntske.clientMsg: the record list being built
  (1, "var nextproto NextProto"),  -- env: variable declaration
  (1, "nextproto.NextProto = NTPv4"),  -- Ntske.clientMsg: .nextProto ntpv4 (pin C20_pin_algorithm: NTPv4 = 0)
  (1, "msg.AddRecord(nextproto)"),  -- Ntske.clientMsg: first record
  (1, "var algo Algorithm"),  -- env: variable declaration
  (1, "algo.Algo = []uint16{AES_SIV_CMAC_256}"),  -- Ntske.clientMsg: .algorithm [aesSivCmac256] (pin C20_pin_algorithm): one algorithm offered
  (1, "msg.AddRecord(algo)"),  -- Ntske.clientMsg: second record
  (1, "var end End"),  -- env: variable declaration
  (1, "msg.AddRecord(end)"),  -- Ntske.clientMsg: .end_ as the last record
  (1, "buf, err := msg.Pack()"),  -- Ntske.packMsg: packMsg clientMsg (Rec.pack, packHeader; C20_client_request_accepted; harness c20 op rec.pack)
  (1, "if err != nil"),  -- Ntske.packMsg: total - no Pack-error branch in the model (binary.Write into a bytes.Buffer cannot fail here)
  (2, "return err"),  -- Ntske.packMsg: total - dead branch, nothing in the model
  (1, "_, err = conn.Write(buf.Bytes())"),  -- Ntske.packMsg: packMsg clientMsg in one Write = NtskeSrv.Conn.request (hreq of C20Srv_end_to_end); the send is env
  (1, "if err != nil"),  -- UNMODELLED: failure of the request write ends the exchange with an error; Exchange has no input for it, no ExErr
  (2, "return err"),  -- Ntske.exchangeKeys: any error return leaves cached untouched (local data; pin x_c20.go fact F8); no ExErr for this one
  (1, "reader := bufio.NewReader(conn)"),  -- Ntske.readData: initial reader state Rd [] chunks: a bufio.Reader directly on the connection
  (1, "err = ReadData(ctx, log, reader, data)"),  -- Ntske.exchangeCoreFrom: readData e.stream d0 with d0 = dialData e (the defaults of the dial)
  (1, "if err != nil"),  -- Ntske.exchangeCoreFrom: | (d, some err)
  (2, "return err"),  -- Ntske.exchangeCoreFrom: (d, some (.read err))
  (1, "return nil")  -- Ntske.exchangeCoreFrom: | (d, none): goes on to the exporter
  ]

/-- net/ntske, dialQUIC -/
def Ntske.dialQUIC : List Row := [
  (0, "func dialQUIC(log *slog.Logger, localAddr, remoteAddr udp.UDPAddr, daemonAddr string, config *tls.Config) (*scion.QUICConnection, Data, error)"),  -- Ntske.dialData: with Ntske.exchangeCoreFrom: dialOk, host are inputs (quic = true); harness c20 op f.fetch quic=1
  (1, "config.NextProtos = []string{alpn}"),  -- pin C20_pin_alpn (Gen.Ntske.alpn = Ntske.alpnProto): only ntske/1 offered; QUIC handshake fails without it
  (1, "var err error"),  -- env: variable declaration
  (1, "ctx := context.Background()"),  -- env: context plumbing (context.Background(): the dial does not see the deadline of the caller)
  (1, "dc := scion.NewDaemonConnector(ctx, daemonAddr)"),  -- env: SCION daemon connector set-up
  (1, "var ps []snet.Path"),  -- env: variable declaration
  (1, "if remoteAddr.IA == localAddr.IA"),  -- UNMODELLED: path decision for the key exchange: same AS => empty path, next hop = remote host; else daemon lookup
  (2, "ps = []snet.Path{path.Path{ Src: localAddr.IA, Dst: remoteAddr.IA, DataplanePath: path.Empty{}, NextHop: remoteAddr.Host}}"),  -- env: construction of the empty intra-AS path value (decision: row 6)
  (1, "else"),  -- env: remote in another AS (decision: row 6)
  (2, "ps, err = dc.Paths(ctx, remoteAddr.IA, localAddr.IA, daemon.PathReqFlags{Refresh: true})"),  -- env: daemon path lookup RPC (Refresh: true); its result is used by rows 10-14 only
  (2, "if err != nil"),  -- Ntske.exchangeCoreFrom: if !e.dialOk - every dialQUIC failure is the one input dialOk = false (lookup error included)
  (3, "return nil, Data{}, err"),  -- Ntske.exchangeCoreFrom: ({}, some .dial)
  (2, "if len(ps) == 0"),  -- Ntske.exchangeCoreFrom: if !e.dialOk - errNoPath not distinguished from other dial failures
  (3, "return nil, Data{}, errNoPath"),  -- Ntske.exchangeCoreFrom: ({}, some .dial)
  (1, "sp := ps[0]"),  -- UNMODELLED: always the first path of the answer (ps[0]); no selection, no fallback to another path when the dial fails
  (1, "conn, err := scion.DialQUIC(ctx, localAddr, remoteAddr, sp, \"\", config, nil)"),  -- env: QUIC dial and TLS 1.3 handshake over SCION; result = Exchange.dialOk (ALPN enforced by the stack)
  (1, "if err != nil"),  -- Ntske.exchangeCoreFrom: if !e.dialOk
  (2, "return nil, Data{}, err"),  -- Ntske.exchangeCoreFrom: ({}, some .dial)
  (1, "var data Data"),  -- env: variable declaration (Ntske.dialData starts from the zero Data)
  (1, "data.Server, _, err = net.SplitHostPort(remoteAddr.Host.String())"),  -- Ntske.dialData: server := e.host, here the host part of the configured remoteAddr.Host (not of the connection)
  (1, "if err != nil"),  -- Ntske.exchangeCoreFrom: part of dialOk = false (cannot fail on an AddrPort string)
  (2, "_ = conn.Close()"),  -- env: connection closed on the error path
  (2, "return nil, Data{}, err"),  -- Ntske.exchangeCoreFrom: ({}, some .dial)
  (1, "data.Port = ntp.ServerPortSCION"),  -- Ntske.dialData: port := ntpPortSCION = 10123 when e.quic (pin C20_pin_ntp_ports)
  (1, "return conn, data, nil")  -- Ntske.exchangeCore: exchangeCoreFrom (dialData e) e: Data kept by the caller (C20_F18_old_quic_defaults_dropped)
  ]

/-- net/ntske, exchangeDataQUIC -/
def Ntske.exchangeDataQUIC : List Row := [
  (0, "func exchangeDataQUIC(ctx context.Context, log *slog.Logger, conn *scion.QUICConnection, data *Data) error"),  -- Ntske.exchangeCoreFrom: readData e.stream d0; request = Ntske.clientMsg; harness c20 ops f.fetch quic=1, e2e.fetchq
  (1, "stream, err := conn.OpenStream()"),  -- env: QUIC stream opened on the dialled connection; the stream is the transport of Exchange.stream
  (1, "if err != nil"),  -- UNMODELLED: OpenStream failure ends the exchange before anything is sent; no Exchange input (server twin: Conn.streamOk)
  (2, "return err"),  -- Ntske.exchangeKeys: any error return leaves cached untouched (local data; pin x_c20.go fact F8); no ExErr for this one
  (1, "defer stream.Close()"),  -- env: deferred stream.Close() (closes the send side after the response has been read)
  (1, "var msg ExchangeMsg"),  -- Ntske.clientMsg: the record list being built
  (1, "var nextproto NextProto"),  -- env: variable declaration
  (1, "nextproto.NextProto = NTPv4"),  -- Ntske.clientMsg: .nextProto ntpv4 (pin C20_pin_algorithm: NTPv4 = 0)
  (1, "msg.AddRecord(nextproto)"),  -- Ntske.clientMsg: first record
  (1, "var algo Algorithm"),  -- env: variable declaration
  (1, "algo.Algo = []uint16{AES_SIV_CMAC_256}"),  -- Ntske.clientMsg: .algorithm [aesSivCmac256] (pin C20_pin_algorithm): one algorithm offered
  (1, "msg.AddRecord(algo)"),  -- Ntske.clientMsg: second record
  (1, "var end End"),  -- env: variable declaration
  (1, "msg.AddRecord(end)"),  -- Ntske.clientMsg: .end_ as the last record
  (1, "buf, err := msg.Pack()"),  -- Ntske.packMsg: packMsg clientMsg (Rec.pack, packHeader; C20_client_request_accepted; harness c20 op rec.pack)
  (1, "if err != nil"),  -- Ntske.packMsg: total - no Pack-error branch in the model (binary.Write into a bytes.Buffer cannot fail here)
  (2, "return err"),  -- Ntske.packMsg: total - dead branch, nothing in the model
  (1, "_, err = stream.Write(buf.Bytes())"),  -- Ntske.packMsg: packMsg clientMsg in one Write = NtskeSrv.Conn.request (hreq of C20Srv_end_to_end); the send is env
  (1, "if err != nil"),  -- UNMODELLED: failure of the request write ends the exchange with an error; Exchange has no input for it, no ExErr
  (2, "return err"),  -- Ntske.exchangeKeys: any error return leaves cached untouched (local data; pin x_c20.go fact F8); no ExErr for this one
  (1, "reader := bufio.NewReader(stream)"),  -- Ntske.readData: initial reader state Rd [] chunks: a bufio.Reader directly on the stream
  (1, "err = ReadData(ctx, log, reader, data)"),  -- Ntske.exchangeCoreFrom: readData e.stream d0 with d0 = dialData e (the defaults of the dial)
  (1, "if err != nil"),  -- Ntske.exchangeCoreFrom: | (d, some err)
  (2, "return err"),  -- Ntske.exchangeCoreFrom: (d, some (.read err))
  (1, "return nil")  -- Ntske.exchangeCoreFrom: | (d, none): goes on to the exporter
  ]

end ScionTime.Model.Skel
