/-
  Control skeletons of core/client as the models were written against them
  (notes/SKEL.md).  Each row: (depth, canonical text) as rendered by harness/extract/skeleton.go,
  followed by the model definition / branch that mirrors the statement.  Regenerated rows:
  Gen/SkelC17.lean; pins: Props/SkelC17.lean.  Core Lean only.
-/
import ScionTime.Model.Skel.Basic

namespace ScionTime.Model.Skel

/-- core/client, LuckyPacketFilter.Do -/
def Filters.LuckyPacketFilter_Do : List Row := [
  (0, "func (f *LuckyPacketFilter) Do(cTxTime, sRxTime, sTxTime, cRxTime time.Time) ( offset time.Duration)"),  -- ?
  (1, "if cap(f.state) == 0"),  -- ?
  (2, "return ntp.ClockOffset(cTxTime, sRxTime, sTxTime, cRxTime)"),  -- ?
  (1, "if len(f.state) == cap(f.state)"),  -- ?
  (2, "copy(f.state[0:], f.state[1:])"),  -- ?
  (2, "f.state = f.state[:len(f.state)-1]"),  -- ?
  (1, "f.state = append(f.state, measurement{ stamp: cTxTime, off: ntp.ClockOffset(cTxTime, sRxTime, sTxTime, cRxTime), rtd: ntp.RoundTripDelay(cTxTime, sRxTime, sTxTime, cRxTime)})"),  -- ?
  (1, "f.luckyPkts = f.luckyPkts[:len(f.state)]"),  -- ?
  (1, "copy(f.luckyPkts, f.state)"),  -- ?
  (1, "if f.pick < len(f.luckyPkts)"),  -- ?
  (2, "slices.SortFunc(f.luckyPkts, func(a, b measurement) int {…})"),  -- ?
  (3, "func literal 1"),  -- ?
  (4, "return cmp.Compare(a.rtd, b.rtd)"),  -- ?
  (2, "f.luckyPkts = f.luckyPkts[:f.pick]"),  -- ?
  (1, "slices.SortFunc(f.luckyPkts, func(a, b measurement) int {…})"),  -- ?
  (2, "func literal 1"),  -- ?
  (3, "return cmp.Compare(a.off, b.off)"),  -- ?
  (1, "i := len(f.luckyPkts) / 2"),  -- ?
  (1, "if len(f.luckyPkts)%2 != 0"),  -- ?
  (2, "return f.luckyPkts[i].off"),  -- ?
  (1, "return f.luckyPkts[i-1].off + (f.luckyPkts[i].off-f.luckyPkts[i-1].off)/2")  -- ?
  ]

/-- core/client, LuckyPacketFilter.Reset -/
def Filters.LuckyPacketFilter_Reset : List Row := [
  (0, "func (f *LuckyPacketFilter) Reset()"),  -- ?
  (1, "f.state = f.state[:0]")  -- ?
  ]

/-- core/client, combine -/
def Filters.combine : List Row := [
  (0, "func combine(lo, mid, hi time.Duration, trust float64) (offset time.Duration, weight float64)"),  -- ?
  (1, "offset = mid"),  -- ?
  (1, "weight = 0.001 + trust*2.0/(hi-lo).Seconds()"),  -- ?
  (1, "if weight < 1.0"),  -- ?
  (2, "weight = 1.0"),  -- ?
  (1, "return")  -- ?
  ]

/-- core/client, NtimedFilter.Do -/
def Filters.NtimedFilter_Do : List Row := [
  (0, "func (f *NtimedFilter) Do(cTxTime, sRxTime, sTxTime, cRxTime time.Time) ( offset time.Duration)"),  -- ?
  (1, "var weight float64"),  -- ?
  (1, "lo := cTxTime.Sub(sRxTime).Seconds()"),  -- ?
  (1, "hi := cRxTime.Sub(sTxTime).Seconds()"),  -- ?
  (1, "mid := (lo + hi) / 2"),  -- ?
  (1, "if f.epoch != timebase.Epoch()"),  -- ?
  (2, "f.Reset()"),  -- ?
  (1, "const ( filterAverage = 20.0 filterThreshold = 3.0 )"),  -- ?
  (1, "if f.navg < filterAverage"),  -- ?
  (2, "f.navg += 1.0"),  -- ?
  (1, "var loNoise, hiNoise float64"),  -- ?
  (1, "if f.navg > 2.0"),  -- ?
  (2, "loNoise = math.Sqrt(f.alolo - f.alo*f.alo)"),  -- ?
  (2, "hiNoise = math.Sqrt(f.ahihi - f.ahi*f.ahi)"),  -- ?
  (1, "loLim := f.alo - loNoise*filterThreshold"),  -- ?
  (1, "hiLim := f.ahi + hiNoise*filterThreshold"),  -- ?
  (1, "var branch int"),  -- ?
  (1, "failLo := lo < loLim"),  -- ?
  (1, "failHi := hi > hiLim"),  -- ?
  (1, "if failLo && failHi"),  -- ?
  (2, "branch = 1"),  -- ?
  (1, "else if f.navg > 3.0 && failLo"),  -- ?
  (2, "mid = f.amid + (hi - f.ahi)"),  -- ?
  (2, "branch = 2"),  -- ?
  (1, "else if f.navg > 3.0 && failHi"),  -- ?
  (2, "mid = f.amid + (lo - f.alo)"),  -- ?
  (2, "branch = 3"),  -- ?
  (1, "else"),  -- ?
  (2, "branch = 4"),  -- ?
  (1, "r := f.navg"),  -- ?
  (1, "if f.navg > 2.0 && branch != 4"),  -- ?
  (2, "r *= r"),  -- ?
  (1, "f.alo += (lo - f.alo) / r"),  -- ?
  (1, "f.amid += (mid - f.amid) / r"),  -- ?
  (1, "f.ahi += (hi - f.ahi) / r"),  -- ?
  (1, "f.alolo += (lo*lo - f.alolo) / r"),  -- ?
  (1, "f.ahihi += (hi*hi - f.ahihi) / r"),  -- ?
  (1, "trust := 1.0"),  -- ?
  (1, "offset, weight = combine(timemath.Duration(lo), timemath.Duration(mid), timemath.Duration(hi), trust)"),  -- ?
  (1, "if f.log != nil"),  -- ?
  (1, "return timemath.Inv(offset)")  -- ?
  ]

/-- core/client, NtimedFilter.Reset -/
def Filters.NtimedFilter_Reset : List Row := [
  (0, "func (f *NtimedFilter) Reset()"),  -- ?
  (1, "f.epoch = timebase.Epoch()"),  -- ?
  (1, "f.alo = 0.0"),  -- ?
  (1, "f.amid = 0.0"),  -- ?
  (1, "f.ahi = 0.0"),  -- ?
  (1, "f.alolo = 0.0"),  -- ?
  (1, "f.ahihi = 0.0"),  -- ?
  (1, "f.navg = 0.0")  -- ?
  ]

end ScionTime.Model.Skel
