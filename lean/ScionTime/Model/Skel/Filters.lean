/-
  Control skeletons of core/client as the models were written against them
  (notes/SKEL.md).  Each row: (depth, canonical text) as rendered by harness/extract/skeleton.go,
  followed by the model definition / branch that mirrors the statement.  Regenerated rows:
  Gen/SkelC17.lean; pins: Props/SkelC17.lean.  Core Lean only.
-/
import ScionTime.Model.Skel.Basic

namespace ScionTime.Model.Skel

/-- core/client, LuckyPacketFilter.Do -/
def Filters.LuckyPacketFilter_Do : List Row := [
  (0, "func (f *LuckyPacketFilter) Do(cTxTime, sRxTime, sTxTime, cRxTime time.Time) ( offset time.Duration)"),  -- Filters.luckyDo (harness c17 op flt.lucky.do: output and window compared; spec: C17_lucky_spec)
  (1, "if cap(f.state) == 0"),  -- Filters.luckyDo: if f.cap = 0 (zero-value filter, Lucky.zero)
  (2, "return ntp.ClockOffset(cTxTime, sRxTime, sTxTime, cRxTime)"),  -- Filters.luckyDo: (f, some (clockOffset x.cTx x.sRx x.sTx x.cRx)) (C17_lucky_zero_raw)
  (1, "if len(f.state) == cap(f.state)"),  -- Filters.luckyPush: if f.state.length = f.cap
  (2, "copy(f.state[0:], f.state[1:])"),  -- Filters.luckyPush: f.state.drop 1 (shift left by one)
  (2, "f.state = f.state[:len(f.state)-1]"),  -- Filters.luckyPush: f.state.drop 1 (length − 1)
  (1, "f.state = append(f.state, measurement{ stamp: cTxTime, off: ntp.ClockOffset(cTxTime, sRxTime, sTxTime, cRxTime), rtd: ntp.RoundTripDelay(cTxTime, sRxTime, sTxTime, cRxTime)})"),  -- Filters.luckyPush: … ++ [m], m = Sample.meas (off := clockOffset, rtd := roundTripDelay); stamp never read: dropped
  (1, "f.luckyPkts = f.luckyPkts[:len(f.state)]"),  -- Filters.luckyDo: lp is a pure value; luckyPkts is scratch space of the same capacity, not a field of Lucky
  (1, "copy(f.luckyPkts, f.state)"),  -- Filters.luckyDo: lp := luckySelect f.pick st starts from the whole window st
  (1, "if f.pick < len(f.luckyPkts)"),  -- Filters.luckySelect: if pick < w.length
  (2, "slices.SortFunc(f.luckyPkts, func(a, b measurement) int {…})"),  -- Filters.luckySelect: sortBy Meas.rtd w (stable insertion sort = Go for n ≤ 12; pdqsort differs on equal delays only)
  (3, "func literal 1"),  -- Filters.sortBy: key := Meas.rtd
  (4, "return cmp.Compare(a.rtd, b.rtd)"),  -- Filters.insertBy: key x < key y with key = Meas.rtd
  (2, "f.luckyPkts = f.luckyPkts[:f.pick]"),  -- Filters.luckySelect: .take pick
  (1, "slices.SortFunc(f.luckyPkts, func(a, b measurement) int {…})"),  -- Filters.luckyDo: lp := sortBy Meas.off lp
  (2, "func literal 1"),  -- Filters.sortBy: key := Meas.off
  (3, "return cmp.Compare(a.off, b.off)"),  -- Filters.insertBy: key x < key y with key = Meas.off
  (1, "i := len(f.luckyPkts) / 2"),  -- Filters.medianI64: i := n / 2
  (1, "if len(f.luckyPkts)%2 != 0"),  -- Filters.medianI64: if n % 2 ≠ 0
  (2, "return f.luckyPkts[i].off"),  -- Filters.medianI64: ds[i]?
  (1, "return f.luckyPkts[i-1].off + (f.luckyPkts[i].off-f.luckyPkts[i-1].off)/2")  -- Filters.medianI64: some (midpoint64 a b), wrapping Int64; none = index panic at i = 0 (excluded by pick ≥ 1)
  ]

/-- core/client, LuckyPacketFilter.Reset -/
def Filters.LuckyPacketFilter_Reset : List Row := [
  (0, "func (f *LuckyPacketFilter) Reset()"),  -- Filters.luckyReset (harness c17 op flt.lucky.reset; C17_lucky_reset_forgets)
  (1, "f.state = f.state[:0]")  -- Filters.luckyReset: { f with state := [] } (cap, pick kept)
  ]

/-- core/client, combine -/
def Filters.combine : List Row := [
  (0, "func combine(lo, mid, hi time.Duration, trust float64) (offset time.Duration, weight float64)"),  -- Filters.combine (LeafC17.C17_leaf_combine: the function regenerated from the Go source equals the model)
  (1, "offset = mid"),  -- Filters.combine: first component mid
  (1, "weight = 0.001 + trust*2.0/(hi-lo).Seconds()"),  -- Filters.combine: w := add c0001 (div (mul trust c2) (durationSeconds (hi - lo as wrapping Int64)))
  (1, "if weight < 1.0"),  -- Filters.combine: if lt w c1
  (2, "weight = 1.0"),  -- Filters.combine: then c1
  (1, "return")  -- Filters.combine: (mid, if lt w c1 then c1 else w)
  ]

/-- core/client, NtimedFilter.Do -/
def Filters.NtimedFilter_Do : List Row := [
  (0, "func (f *NtimedFilter) Do(cTxTime, sRxTime, sTxTime, cRxTime time.Time) ( offset time.Duration)"),  -- Filters.ntimedDoFull / ntimedDo (LeafC17.C17_leaf_Do: regenerated Go = model; harness c17 op flt.ntimed.do)
  (1, "var weight float64"),  -- Filters.ntimedDoFull: ow.2, combine's weight (only logged)
  (1, "lo := cTxTime.Sub(sRxTime).Seconds()"),  -- Filters.ntimedLo: durationSeconds (timeSub x.cTx x.sRx)
  (1, "hi := cRxTime.Sub(sTxTime).Seconds()"),  -- Filters.ntimedHi: durationSeconds (timeSub x.cRx x.sTx)
  (1, "mid := (lo + hi) / 2"),  -- Filters.ntimedMid: div (add (ntimedLo x) (ntimedHi x)) c2
  (1, "if f.epoch != timebase.Epoch()"),  -- Filters.ntimedEnter: if f.epoch ≠ e (e = what timebase.Epoch() returns, an input: one value per call)
  (2, "f.Reset()"),  -- Filters.ntimedEnter: ntimedReset e f, SAME e (Go reads Epoch() again in Reset; one value per call assumed, notes/C17)
  (1, "const ( filterAverage = 20.0 filterThreshold = 3.0 )"),  -- pin C17_pin_filterAverage, C17_pin_filterThreshold (x_c17.go): Filters.c20, Filters.c3
  (1, "if f.navg < filterAverage"),  -- Filters.ntimedNavg: if lt f.navg c20
  (2, "f.navg += 1.0"),  -- Filters.ntimedNavg: add f.navg c1 (becomes state.navg)
  (1, "var loNoise, hiNoise float64"),  -- Filters.ntimedNoise: else (c0, c0)
  (1, "if f.navg > 2.0"),  -- Filters.ntimedNoise: if gt navg c2
  (2, "loNoise = math.Sqrt(f.alolo - f.alo*f.alo)"),  -- Filters.ntimedNoise: sqrt (sub f.alolo (mul f.alo f.alo)) (NaN when the variance rounds below 0: reproduced)
  (2, "hiNoise = math.Sqrt(f.ahihi - f.ahi*f.ahi)"),  -- Filters.ntimedNoise: sqrt (sub f.ahihi (mul f.ahi f.ahi))
  (1, "loLim := f.alo - loNoise*filterThreshold"),  -- Filters.ntimedDoFull: loLim := sub f.alo (mul noise.1 c3)
  (1, "hiLim := f.ahi + hiNoise*filterThreshold"),  -- Filters.ntimedDoFull: hiLim := add f.ahi (mul noise.2 c3)
  (1, "var branch int"),  -- Filters.ntimedBranch: first component of the result
  (1, "failLo := lo < loLim"),  -- Filters.ntimedDoFull: failLo := lt lo loLim (C17_ntimed_limits)
  (1, "failHi := hi > hiLim"),  -- Filters.ntimedDoFull: failHi := gt hi hiLim
  (1, "if failLo && failHi"),  -- Filters.ntimedBranch: if failLo && failHi
  (2, "branch = 1"),  -- Filters.ntimedBranch: (1, mid)
  (1, "else if f.navg > 3.0 && failLo"),  -- Filters.ntimedBranch: else if gt navg c3 && failLo
  (2, "mid = f.amid + (hi - f.ahi)"),  -- Filters.ntimedBranch: (2, add f.amid (sub hi f.ahi)), second component
  (2, "branch = 2"),  -- Filters.ntimedBranch: (2, …), first component
  (1, "else if f.navg > 3.0 && failHi"),  -- Filters.ntimedBranch: else if gt navg c3 && failHi
  (2, "mid = f.amid + (lo - f.alo)"),  -- Filters.ntimedBranch: (3, add f.amid (sub lo f.alo)), second component
  (2, "branch = 3"),  -- Filters.ntimedBranch: (3, …), first component
  (1, "else"),  -- Filters.ntimedBranch: else
  (2, "branch = 4"),  -- Filters.ntimedBranch: (4, mid)
  (1, "r := f.navg"),  -- Filters.ntimedDoFull: r := … else navg
  (1, "if f.navg > 2.0 && branch != 4"),  -- Filters.ntimedDoFull: if gt navg c2 && branch ≠ 4
  (2, "r *= r"),  -- Filters.ntimedDoFull: then mul navg navg
  (1, "f.alo += (lo - f.alo) / r"),  -- Filters.ntimedDoFull: alo := add f.alo (div (sub lo f.alo) r)
  (1, "f.amid += (mid - f.amid) / r"),  -- Filters.ntimedDoFull: amid := add f.amid (div (sub mid f.amid) r)
  (1, "f.ahi += (hi - f.ahi) / r"),  -- Filters.ntimedDoFull: ahi := add f.ahi (div (sub hi f.ahi) r)
  (1, "f.alolo += (lo*lo - f.alolo) / r"),  -- Filters.ntimedDoFull: alolo := add f.alolo (div (sub (mul lo lo) f.alolo) r)
  (1, "f.ahihi += (hi*hi - f.ahihi) / r"),  -- Filters.ntimedDoFull: ahihi := add f.ahihi (div (sub (mul hi hi) f.ahihi) r)
  (1, "trust := 1.0"),  -- Filters.ntimedDoFull: argument c1 of combine
  (1, "offset, weight = combine(timemath.Duration(lo), timemath.Duration(mid), timemath.Duration(hi), trust)"),  -- Filters.ntimedDoFull: ow := combine (toDuration lo) (toDuration mid) (toDuration hi) c1 (toDuration = timemath.Duration)
  (1, "if f.log != nil"),  -- env: log-only block (skipped by the leaf translator too); branch, limits exposed in NtimedResult for the driver's tag
  (1, "return timemath.Inv(offset)")  -- Filters.ntimedDoFull: out := inv64 ow.1 (LeafC17.inv_eq: timemath.Inv = inv64; Timemath.inv is the shared model)
  ]

/-- core/client, NtimedFilter.Reset -/
def Filters.NtimedFilter_Reset : List Row := [
  (0, "func (f *NtimedFilter) Reset()"),  -- Filters.ntimedReset (LeafC17.C17_leaf_Reset; x_c17.go fact: all state fields assigned; harness c17 op flt.ntimed.reset)
  (1, "f.epoch = timebase.Epoch()"),  -- Filters.ntimedReset: { f with epoch := e } (e = what timebase.Epoch() returns, an input)
  (1, "f.alo = 0.0"),  -- Filters.ntimedReset: alo := c0
  (1, "f.amid = 0.0"),  -- Filters.ntimedReset: amid := c0
  (1, "f.ahi = 0.0"),  -- Filters.ntimedReset: ahi := c0
  (1, "f.alolo = 0.0"),  -- Filters.ntimedReset: alolo := c0
  (1, "f.ahihi = 0.0"),  -- Filters.ntimedReset: ahihi := c0
  (1, "f.navg = 0.0")  -- Filters.ntimedReset: navg := c0
  ]

end ScionTime.Model.Skel
