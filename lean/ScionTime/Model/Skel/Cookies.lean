/-
  Control skeletons of net/ntske as the models were written against them
  (notes/SKEL.md).  Each row: (depth, canonical text) as rendered by harness/extract/skeleton.go,
  followed by the model definition / branch that mirrors the statement.  Regenerated rows:
  Gen/SkelC10.lean; pins: Props/SkelC10.lean.  Core Lean only.
-/
import ScionTime.Model.Skel.Basic

namespace ScionTime.Model.Skel

/-- net/ntske, ServerCookie.Encode -/
def Cookies.ServerCookie_Encode : List Row := [
  (0, "func (c *ServerCookie) Encode() []byte"),  -- Nts.scEncode: encodeTLV on the triple (Algo, S2C, C2S); harness c10 op sc.enc (also ck.encrypt, srv.reply)
  (1, "cookieLen := 3*4 + 2 + len(c.C2S) + len(c.S2C)"),  -- Nts.encodeTLV: total length of the concatenation 3*4 + 2 + |x| + |y| (buffer sized exactly)
  (1, "b := make([]byte, cookieLen)"),  -- env: buffer allocation (the model builds the byte list by concatenation; no write is out of range)
  (1, "binary.BigEndian.PutUint16(b[0:], cookieTypeAlgorithm)"),  -- Nts.encodeTLV: be16 t0, t0 := cookieTypeAlgorithm (pin C14Nts_pin_cookieTypes)
  (1, "binary.BigEndian.PutUint16(b[2:], 0x2)"),  -- Nts.encodeTLV: be16 2
  (1, "binary.BigEndian.PutUint16(b[4:], c.Algo)"),  -- Nts.encodeTLV: be16 c.num (Algo)
  (1, "binary.BigEndian.PutUint16(b[6:], cookieTypeKeyS2C)"),  -- Nts.encodeTLV: be16 t1, t1 := cookieTypeKeyS2C (pin C14Nts_pin_cookieTypes)
  (1, "binary.BigEndian.PutUint16(b[8:], uint16(len(c.S2C)))"),  -- Nts.encodeTLV: be16 (c.x.length % 65536) (S2C; C14Nts_cookie_length_field_wraps)
  (1, "copy(b[10:], c.S2C)"),  -- Nts.encodeTLV: ++ c.x (S2C)
  (1, "pos := len(c.S2C) + 10"),  -- Nts.encodeTLV: position behind c.x in the concatenation
  (1, "binary.BigEndian.PutUint16(b[pos:], cookieTypeKeyC2S)"),  -- Nts.encodeTLV: be16 t2, t2 := cookieTypeKeyC2S (pin C14Nts_pin_cookieTypes)
  (1, "binary.BigEndian.PutUint16(b[pos+2:], uint16(len(c.C2S)))"),  -- Nts.encodeTLV: be16 (c.y.length % 65536) (C2S)
  (1, "copy(b[pos+4:], c.C2S)"),  -- Nts.encodeTLV: ++ c.y (C2S)
  (1, "return b")  -- Nts.encodeTLV: the byte list
  ]

/-- net/ntske, ServerCookie.Decode -/
def Cookies.ServerCookie_Decode : List Row := [
  (0, "func (c *ServerCookie) Decode(b []byte) error"),  -- Nts.scDecode: decodeTLV true on (Algo, S2C, C2S); harness c10 op sc.dec (also ck.decrypt, srv.reply, seq.run s:)
  (1, "pos := 0"),  -- Nts.tlvLoop: rest := b (rest = b[pos:], fuel b.length + 1)
  (1, "algo, s2c, c2s := false, false, false"),  -- Nts.TlvSt: {} (num, x, y := none)
  (1, "for pos < len(b)"),  -- Nts.tlvLoop: match rest | [] => .ok st
  (2, "if len(b)-pos < 4"),  -- Nts.tlvLoop: | _ => if chk then .err .cookieData (1 to 3 bytes left; F3 repair, Old: .panic .index)
  (3, "return errUnexpectedCookieData"),  -- Nts.tlvLoop: .err .cookieData
  (2, "t := binary.BigEndian.Uint16(b[pos:])"),  -- Nts.tlvLoop: | a :: b :: c :: d :: v => t := u16 a b
  (2, "l := binary.BigEndian.Uint16(b[pos+2:])"),  -- Nts.tlvLoop: l := u16 c d
  (2, "if int(l) > len(b)-pos-4"),  -- Nts.tlvLoop: chk && l > v.length (F3 repair, Old: .panic .slice)
  (3, "return errUnexpectedCookieData"),  -- Nts.tlvLoop: .err .cookieData
  (2, "if t == cookieTypeAlgorithm"),  -- Nts.tlvLoop: if t = t0 (cookieTypeAlgorithm)
  (3, "if l < 2"),  -- Nts.tlvLoop: chk && l < 2
  (4, "return errUnexpectedCookieData"),  -- Nts.tlvLoop: .err .cookieData
  (3, "c.Algo = binary.BigEndian.Uint16(b[pos+4:])"),  -- Nts.tlvLoop: match v | n1 :: n0 :: _ => u16 n1 n0 (Algo; written before the verdict, model yields it only on .ok)
  (3, "algo = true"),  -- Nts.tlvLoop: { st with num := some .. }
  (2, "else if t == cookieTypeKeyS2C"),  -- Nts.tlvLoop: else if t = t1 (cookieTypeKeyS2C)
  (3, "c.S2C = b[pos+4 : pos+4+int(l)]"),  -- Nts.tlvLoop: x := some (v.take l) (S2C; sub-slice of b: Nts.runCalls, seq.run)
  (3, "s2c = true"),  -- Nts.tlvLoop: { st with x := some .. }
  (2, "else if t == cookieTypeKeyC2S"),  -- Nts.tlvLoop: else if t = t2 (cookieTypeKeyC2S)
  (3, "c.C2S = b[pos+4 : pos+4+int(l)]"),  -- Nts.tlvLoop: y := some (v.take l) (C2S; sub-slice of b)
  (3, "c2s = true"),  -- Nts.tlvLoop: { st with y := some .. }
  (2, "pos += 4 + int(l)"),  -- Nts.tlvLoop: v.drop l (recursive call; other types skipped)
  (1, "if pos != len(b)"),  -- Nts.tlvLoop: with chk the loop ends only on rest = [] (pos = len(b)); the l > v.length branches are the Old overshoot
  (2, "return errUnexpectedCookieData"),  -- Nts.tlvLoop: .err .cookieData (reachable only for chk = false)
  (1, "if !(algo && s2c && c2s)"),  -- Nts.decodeTLV: match st.num, st.x, st.y | some n, some x, some y
  (2, "return errUnexpectedCookieData"),  -- Nts.decodeTLV: | _, _, _ => .err .cookieData
  (1, "return nil")  -- Nts.decodeTLV: .ok (n, x, y)
  ]

/-- net/ntske, EncryptedServerCookie.Encode -/
def Cookies.EncryptedServerCookie_Encode : List Row := [
  (0, "func (c *EncryptedServerCookie) Encode() []byte"),  -- Nts.ecEncode: encodeTLV on the triple (ID, Nonce, Ciphertext); harness c10 op ec.enc (also ck.encrypt, srv.reply)
  (1, "encryptedCookieLen := 3*4 + 2 + len(c.Nonce) + len(c.Ciphertext)"),  -- Nts.encodeTLV: total length of the concatenation 3*4 + 2 + |x| + |y| (buffer sized exactly)
  (1, "b := make([]byte, encryptedCookieLen)"),  -- env: buffer allocation (the model builds the byte list by concatenation; no write is out of range)
  (1, "binary.BigEndian.PutUint16(b[0:], cookieTypeKeyID)"),  -- Nts.encodeTLV: be16 t0, t0 := cookieTypeKeyID (pin C14Nts_pin_cookieTypes)
  (1, "binary.BigEndian.PutUint16(b[2:], 0x2)"),  -- Nts.encodeTLV: be16 2
  (1, "binary.BigEndian.PutUint16(b[4:], c.ID)"),  -- Nts.encodeTLV: be16 c.num (ID)
  (1, "binary.BigEndian.PutUint16(b[6:], cookieTypeNonce)"),  -- Nts.encodeTLV: be16 t1, t1 := cookieTypeNonce (pin C14Nts_pin_cookieTypes)
  (1, "binary.BigEndian.PutUint16(b[8:], uint16(len(c.Nonce)))"),  -- Nts.encodeTLV: be16 (c.x.length % 65536) (Nonce; C14Nts_cookie_length_field_wraps)
  (1, "copy(b[10:], c.Nonce)"),  -- Nts.encodeTLV: ++ c.x (Nonce)
  (1, "pos := len(c.Nonce) + 10"),  -- Nts.encodeTLV: position behind c.x in the concatenation
  (1, "binary.BigEndian.PutUint16(b[pos:], cookieTypeCiphertext)"),  -- Nts.encodeTLV: be16 t2, t2 := cookieTypeCiphertext (pin C14Nts_pin_cookieTypes)
  (1, "binary.BigEndian.PutUint16(b[pos+2:], uint16(len(c.Ciphertext)))"),  -- Nts.encodeTLV: be16 (c.y.length % 65536) (Ciphertext)
  (1, "copy(b[pos+4:], c.Ciphertext)"),  -- Nts.encodeTLV: ++ c.y (Ciphertext)
  (1, "return b")  -- Nts.encodeTLV: the byte list
  ]

/-- net/ntske, EncryptedServerCookie.Decode -/
def Cookies.EncryptedServerCookie_Decode : List Row := [
  (0, "func (c *EncryptedServerCookie) Decode(b []byte) error"),  -- Nts.ecDecode: decodeTLV true on (ID, Nonce, Ciphertext); harness c10 op ec.dec (also ck.decrypt, srv.reply, seq.run)
  (1, "pos := 0"),  -- Nts.tlvLoop: rest := b (rest = b[pos:], fuel b.length + 1)
  (1, "id, nonce, ciphertext := false, false, false"),  -- Nts.TlvSt: {} (num, x, y := none)
  (1, "for pos < len(b)"),  -- Nts.tlvLoop: match rest | [] => .ok st
  (2, "if len(b)-pos < 4"),  -- Nts.tlvLoop: | _ => if chk then .err .cookieData (1 to 3 bytes left; F3 repair, Old: .panic .index)
  (3, "return errUnexpectedCookieData"),  -- Nts.tlvLoop: .err .cookieData
  (2, "t := binary.BigEndian.Uint16(b[pos:])"),  -- Nts.tlvLoop: | a :: b :: c :: d :: v => t := u16 a b
  (2, "l := binary.BigEndian.Uint16(b[pos+2:])"),  -- Nts.tlvLoop: l := u16 c d
  (2, "if int(l) > len(b)-pos-4"),  -- Nts.tlvLoop: chk && l > v.length (F3 repair, Old: .panic .slice)
  (3, "return errUnexpectedCookieData"),  -- Nts.tlvLoop: .err .cookieData
  (2, "if t == cookieTypeKeyID"),  -- Nts.tlvLoop: if t = t0 (cookieTypeKeyID)
  (3, "if l < 2"),  -- Nts.tlvLoop: chk && l < 2
  (4, "return errUnexpectedCookieData"),  -- Nts.tlvLoop: .err .cookieData
  (3, "c.ID = binary.BigEndian.Uint16(b[pos+4:])"),  -- Nts.tlvLoop: match v | n1 :: n0 :: _ => u16 n1 n0 (ID; written before the verdict, model yields it only on .ok)
  (3, "id = true"),  -- Nts.tlvLoop: { st with num := some .. }
  (2, "else if t == cookieTypeNonce"),  -- Nts.tlvLoop: else if t = t1 (cookieTypeNonce)
  (3, "c.Nonce = b[pos+4 : pos+4+int(l)]"),  -- Nts.tlvLoop: x := some (v.take l) (Nonce; sub-slice of b)
  (3, "nonce = true"),  -- Nts.tlvLoop: { st with x := some .. }
  (2, "else if t == cookieTypeCiphertext"),  -- Nts.tlvLoop: else if t = t2 (cookieTypeCiphertext)
  (3, "c.Ciphertext = b[pos+4 : pos+4+int(l)]"),  -- Nts.tlvLoop: y := some (v.take l) (Ciphertext; sub-slice of b)
  (3, "ciphertext = true"),  -- Nts.tlvLoop: { st with y := some .. }
  (2, "pos += 4 + int(l)"),  -- Nts.tlvLoop: v.drop l (recursive call; other types skipped)
  (1, "if pos != len(b)"),  -- Nts.tlvLoop: with chk the loop ends only on rest = [] (pos = len(b)); the l > v.length branches are the Old overshoot
  (2, "return errUnexpectedCookieData"),  -- Nts.tlvLoop: .err .cookieData (reachable only for chk = false)
  (1, "if !(id && nonce && ciphertext)"),  -- Nts.decodeTLV: match st.num, st.x, st.y | some n, some x, some y
  (2, "return errUnexpectedCookieData"),  -- Nts.decodeTLV: | _, _, _ => .err .cookieData
  (1, "return nil")  -- Nts.decodeTLV: .ok (n, x, y)
  ]

/-- net/ntske, ServerCookie.EncryptWithNonce -/
def Cookies.ServerCookie_EncryptWithNonce : List Row := [
  (0, "func (c *ServerCookie) EncryptWithNonce(key []byte, keyid int) (EncryptedServerCookie, error)"),  -- Nts.encryptCookie: harness c10 ops ck.encrypt, srv.reply; Nts.freshCookies (listeners), Props/C10 C10_cookie_roundtrip
  (1, "bits := make([]byte, 16)"),  -- env: buffer allocation for the nonce
  (1, "_, err := rand.Read(bits)"),  -- env: crypto/rand; result is argument nonce (Nts.draw16, drawn before the key check; harness rand=)
  (1, "if err != nil"),  -- env: crypto/rand failure outside the model (Go 1.24 rand.Read never returns an error)
  (2, "return EncryptedServerCookie{}, err"),  -- env: crypto/rand failure outside the model (dead with Go 1.24)
  (1, "aessiv, err := miscreant.NewAEAD(\"AES-CMAC-SIV\", key, 16)"),  -- Nts.keyOk: key length 32 or 64 (miscreant.NewAEAD contract; AEAD is the parameter A)
  (1, "if err != nil"),  -- Nts.encryptCookie: if !keyOk key
  (2, "return EncryptedServerCookie{}, err"),  -- Nts.encryptCookie: .err .keySize (Nts.freshCookies: | _ => skipped)
  (1, "b := c.Encode()"),  -- Nts.scEncode: c
  (1, "var ecookie EncryptedServerCookie"),  -- env: variable declaration, no behaviour
  (1, "ecookie.ID = uint16(keyid)"),  -- Nts.encryptCookie: num := keyid % 65536
  (1, "ecookie.Nonce = bits"),  -- Nts.encryptCookie: x := nonce
  (1, "ecookie.Ciphertext = aessiv.Seal(nil, ecookie.Nonce, b, nil)"),  -- Nts.sealC: A key nonce (scEncode c) none (nil additional data; harness seal= table)
  (1, "return ecookie, nil")  -- Nts.encryptCookie: pure (keyid % 65536, nonce, ct)
  ]

/-- net/ntske, EncryptedServerCookie.Decrypt -/
def Cookies.EncryptedServerCookie_Decrypt : List Row := [
  (0, "func (c *EncryptedServerCookie) Decrypt(key []byte) (ServerCookie, error)"),  -- Nts.decryptCookieG: chk := true (decryptCookie); harness c10 ops ck.decrypt, srv.reply, seq.run d:
  (1, "aessiv, err := miscreant.NewAEAD(\"AES-CMAC-SIV\", key, 16)"),  -- Nts.keyOk: key length 32 or 64 (miscreant.NewAEAD contract; AEAD is the parameter A)
  (1, "if err != nil"),  -- Nts.decryptCookieG: if !keyOk key
  (2, "return ServerCookie{}, err"),  -- Nts.decryptCookieG: .err .keySize
  (1, "if len(c.Nonce) != aessiv.NonceSize()"),  -- Nts.decryptCookieG: chk && ec.x.length != 16 (F16 repair; C10_cookie_nonce_length_old)
  (2, "return ServerCookie{}, errUnexpectedNonceLen"),  -- Nts.decryptCookieG: .err .nonceLen
  (1, "b, err := aessiv.Open(nil, c.Nonce, c.Ciphertext, nil)"),  -- Nts.openC: A key ec.x ec.y none (nil additional data; harness open= table)
  (1, "if err != nil"),  -- Nts.openC: | none => .err .auth
  (2, "return ServerCookie{}, err"),  -- Nts.openC: .err .auth
  (1, "var cookie ServerCookie"),  -- env: variable declaration (fresh ServerCookie, so no field of an earlier decode survives)
  (1, "err = cookie.Decode(b)"),  -- Nts.decodeTLV: chk cookieTypeAlgorithm cookieTypeKeyS2C cookieTypeKeyC2S b (= scDecode)
  (1, "if err != nil"),  -- Nts.decryptCookieG: error of decodeTLV propagated
  (2, "return ServerCookie{}, err"),  -- Nts.decryptCookieG: .err .cookieData
  (1, "return cookie, nil")  -- Nts.decryptCookieG: .ok triple; S2C, C2S alias the opened plaintext: Nts.runCalls (C10_calls_independent)
  ]

end ScionTime.Model.Skel
