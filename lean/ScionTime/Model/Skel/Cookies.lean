/-
  Control skeletons of net/ntske as the models were written against them
  (notes/SKEL.md).  Each row: (depth, canonical text) as rendered by harness/extract/skeleton.go,
  followed by the model definition / branch that mirrors the statement.  Regenerated rows:
  Gen/SkelC10.lean; pins: Props/SkelC10.lean.  Core Lean only.
-/
import ScionTime.Model.Skel.Basic

namespace ScionTime.Model.Skel

/-- net/ntske, ServerCookie.Encode -/
def Cookies.ServerCookie_Encode : List Row := [
  (0, "func (c *ServerCookie) Encode() []byte"),  -- ?
  (1, "cookieLen := 3*4 + 2 + len(c.C2S) + len(c.S2C)"),  -- ?
  (1, "b := make([]byte, cookieLen)"),  -- ?
  (1, "binary.BigEndian.PutUint16(b[0:], cookieTypeAlgorithm)"),  -- ?
  (1, "binary.BigEndian.PutUint16(b[2:], 0x2)"),  -- ?
  (1, "binary.BigEndian.PutUint16(b[4:], c.Algo)"),  -- ?
  (1, "binary.BigEndian.PutUint16(b[6:], cookieTypeKeyS2C)"),  -- ?
  (1, "binary.BigEndian.PutUint16(b[8:], uint16(len(c.S2C)))"),  -- ?
  (1, "copy(b[10:], c.S2C)"),  -- ?
  (1, "pos := len(c.S2C) + 10"),  -- ?
  (1, "binary.BigEndian.PutUint16(b[pos:], cookieTypeKeyC2S)"),  -- ?
  (1, "binary.BigEndian.PutUint16(b[pos+2:], uint16(len(c.C2S)))"),  -- ?
  (1, "copy(b[pos+4:], c.C2S)"),  -- ?
  (1, "return b")  -- ?
  ]

/-- net/ntske, ServerCookie.Decode -/
def Cookies.ServerCookie_Decode : List Row := [
  (0, "func (c *ServerCookie) Decode(b []byte) error"),  -- ?
  (1, "pos := 0"),  -- ?
  (1, "algo, s2c, c2s := false, false, false"),  -- ?
  (1, "for pos < len(b)"),  -- ?
  (2, "if len(b)-pos < 4"),  -- ?
  (3, "return errUnexpectedCookieData"),  -- ?
  (2, "t := binary.BigEndian.Uint16(b[pos:])"),  -- ?
  (2, "l := binary.BigEndian.Uint16(b[pos+2:])"),  -- ?
  (2, "if int(l) > len(b)-pos-4"),  -- ?
  (3, "return errUnexpectedCookieData"),  -- ?
  (2, "if t == cookieTypeAlgorithm"),  -- ?
  (3, "if l < 2"),  -- ?
  (4, "return errUnexpectedCookieData"),  -- ?
  (3, "c.Algo = binary.BigEndian.Uint16(b[pos+4:])"),  -- ?
  (3, "algo = true"),  -- ?
  (2, "else if t == cookieTypeKeyS2C"),  -- ?
  (3, "c.S2C = b[pos+4 : pos+4+int(l)]"),  -- ?
  (3, "s2c = true"),  -- ?
  (2, "else if t == cookieTypeKeyC2S"),  -- ?
  (3, "c.C2S = b[pos+4 : pos+4+int(l)]"),  -- ?
  (3, "c2s = true"),  -- ?
  (2, "pos += 4 + int(l)"),  -- ?
  (1, "if pos != len(b)"),  -- ?
  (2, "return errUnexpectedCookieData"),  -- ?
  (1, "if !(algo && s2c && c2s)"),  -- ?
  (2, "return errUnexpectedCookieData"),  -- ?
  (1, "return nil")  -- ?
  ]

/-- net/ntske, EncryptedServerCookie.Encode -/
def Cookies.EncryptedServerCookie_Encode : List Row := [
  (0, "func (c *EncryptedServerCookie) Encode() []byte"),  -- ?
  (1, "encryptedCookieLen := 3*4 + 2 + len(c.Nonce) + len(c.Ciphertext)"),  -- ?
  (1, "b := make([]byte, encryptedCookieLen)"),  -- ?
  (1, "binary.BigEndian.PutUint16(b[0:], cookieTypeKeyID)"),  -- ?
  (1, "binary.BigEndian.PutUint16(b[2:], 0x2)"),  -- ?
  (1, "binary.BigEndian.PutUint16(b[4:], c.ID)"),  -- ?
  (1, "binary.BigEndian.PutUint16(b[6:], cookieTypeNonce)"),  -- ?
  (1, "binary.BigEndian.PutUint16(b[8:], uint16(len(c.Nonce)))"),  -- ?
  (1, "copy(b[10:], c.Nonce)"),  -- ?
  (1, "pos := len(c.Nonce) + 10"),  -- ?
  (1, "binary.BigEndian.PutUint16(b[pos:], cookieTypeCiphertext)"),  -- ?
  (1, "binary.BigEndian.PutUint16(b[pos+2:], uint16(len(c.Ciphertext)))"),  -- ?
  (1, "copy(b[pos+4:], c.Ciphertext)"),  -- ?
  (1, "return b")  -- ?
  ]

/-- net/ntske, EncryptedServerCookie.Decode -/
def Cookies.EncryptedServerCookie_Decode : List Row := [
  (0, "func (c *EncryptedServerCookie) Decode(b []byte) error"),  -- ?
  (1, "pos := 0"),  -- ?
  (1, "id, nonce, ciphertext := false, false, false"),  -- ?
  (1, "for pos < len(b)"),  -- ?
  (2, "if len(b)-pos < 4"),  -- ?
  (3, "return errUnexpectedCookieData"),  -- ?
  (2, "t := binary.BigEndian.Uint16(b[pos:])"),  -- ?
  (2, "l := binary.BigEndian.Uint16(b[pos+2:])"),  -- ?
  (2, "if int(l) > len(b)-pos-4"),  -- ?
  (3, "return errUnexpectedCookieData"),  -- ?
  (2, "if t == cookieTypeKeyID"),  -- ?
  (3, "if l < 2"),  -- ?
  (4, "return errUnexpectedCookieData"),  -- ?
  (3, "c.ID = binary.BigEndian.Uint16(b[pos+4:])"),  -- ?
  (3, "id = true"),  -- ?
  (2, "else if t == cookieTypeNonce"),  -- ?
  (3, "c.Nonce = b[pos+4 : pos+4+int(l)]"),  -- ?
  (3, "nonce = true"),  -- ?
  (2, "else if t == cookieTypeCiphertext"),  -- ?
  (3, "c.Ciphertext = b[pos+4 : pos+4+int(l)]"),  -- ?
  (3, "ciphertext = true"),  -- ?
  (2, "pos += 4 + int(l)"),  -- ?
  (1, "if pos != len(b)"),  -- ?
  (2, "return errUnexpectedCookieData"),  -- ?
  (1, "if !(id && nonce && ciphertext)"),  -- ?
  (2, "return errUnexpectedCookieData"),  -- ?
  (1, "return nil")  -- ?
  ]

/-- net/ntske, ServerCookie.EncryptWithNonce -/
def Cookies.ServerCookie_EncryptWithNonce : List Row := [
  (0, "func (c *ServerCookie) EncryptWithNonce(key []byte, keyid int) (EncryptedServerCookie, error)"),  -- ?
  (1, "bits := make([]byte, 16)"),  -- ?
  (1, "_, err := rand.Read(bits)"),  -- ?
  (1, "if err != nil"),  -- ?
  (2, "return EncryptedServerCookie{}, err"),  -- ?
  (1, "aessiv, err := miscreant.NewAEAD(\"AES-CMAC-SIV\", key, 16)"),  -- ?
  (1, "if err != nil"),  -- ?
  (2, "return EncryptedServerCookie{}, err"),  -- ?
  (1, "b := c.Encode()"),  -- ?
  (1, "var ecookie EncryptedServerCookie"),  -- ?
  (1, "ecookie.ID = uint16(keyid)"),  -- ?
  (1, "ecookie.Nonce = bits"),  -- ?
  (1, "ecookie.Ciphertext = aessiv.Seal(nil, ecookie.Nonce, b, nil)"),  -- ?
  (1, "return ecookie, nil")  -- ?
  ]

/-- net/ntske, EncryptedServerCookie.Decrypt -/
def Cookies.EncryptedServerCookie_Decrypt : List Row := [
  (0, "func (c *EncryptedServerCookie) Decrypt(key []byte) (ServerCookie, error)"),  -- ?
  (1, "aessiv, err := miscreant.NewAEAD(\"AES-CMAC-SIV\", key, 16)"),  -- ?
  (1, "if err != nil"),  -- ?
  (2, "return ServerCookie{}, err"),  -- ?
  (1, "if len(c.Nonce) != aessiv.NonceSize()"),  -- ?
  (2, "return ServerCookie{}, errUnexpectedNonceLen"),  -- ?
  (1, "b, err := aessiv.Open(nil, c.Nonce, c.Ciphertext, nil)"),  -- ?
  (1, "if err != nil"),  -- ?
  (2, "return ServerCookie{}, err"),  -- ?
  (1, "var cookie ServerCookie"),  -- ?
  (1, "err = cookie.Decode(b)"),  -- ?
  (1, "if err != nil"),  -- ?
  (2, "return ServerCookie{}, err"),  -- ?
  (1, "return cookie, nil")  -- ?
  ]

end ScionTime.Model.Skel
