/-
  Control skeletons of net/scion as the models were written against them
  (notes/SKEL.md).  Each row: (depth, canonical text) as rendered by harness/extract/skeleton.go,
  followed by the model definition / branch that mirrors the statement.  Regenerated rows:
  Gen/SkelC08.lean; pins: Props/SkelC08.lean.  Core Lean only.
-/
import ScionTime.Model.Skel.Basic

namespace ScionTime.Model.Skel

/-- net/scion, baseConn.readPkt -/
def Quic.baseConn_readPkt : List Row := [
  (0, "func (c *baseConn) readPkt(b []byte) (int, udp.UDPAddr, snet.DataplanePath, net.Addr, error)"),  -- ?
  (1, "c.readMu.Lock()"),  -- ?
  (1, "defer c.readMu.Unlock()"),  -- ?
  (1, "if c.readBuf == nil"),  -- ?
  (2, "c.readBuf = make([]byte, MTU)"),  -- ?
  (1, "buf := c.readBuf"),  -- ?
  (1, "var ( scionLayer slayers.SCION hbhLayer slayers.HopByHopExtnSkipper e2eLayer slayers.EndToEndExtnSkipper udpLayer slayers.UDP )"),  -- ?
  (1, "scionLayer.RecyclePaths()"),  -- ?
  (1, "udpLayer.SetNetworkLayerForChecksum(&scionLayer)"),  -- ?
  (1, "parser := gopacket.NewDecodingLayerParser( slayers.LayerTypeSCION, &scionLayer, &hbhLayer, &e2eLayer, &udpLayer)"),  -- ?
  (1, "parser.IgnoreUnsupported = true"),  -- ?
  (1, "decoded := make([]gopacket.LayerType, 4)"),  -- ?
  (1, "for"),  -- ?
  (2, "buf = buf[:cap(buf)]"),  -- ?
  (2, "n, lastHop, err := c.raw.ReadFrom(buf)"),  -- ?
  (2, "if err != nil"),  -- ?
  (3, "return 0, udp.UDPAddr{}, nil, nil, err"),  -- ?
  (2, "buf = buf[:n]"),  -- ?
  (2, "err = parser.DecodeLayers(buf, &decoded)"),  -- ?
  (2, "if err != nil"),  -- ?
  (3, "continue"),  -- ?
  (2, "validType := len(decoded) >= 2 && decoded[len(decoded)-1] == slayers.LayerTypeSCIONUDP"),  -- ?
  (2, "if !validType"),  -- ?
  (3, "continue"),  -- ?
  (2, "srcAddr, err := scionLayer.SrcAddr()"),  -- ?
  (2, "if err != nil || srcAddr.Type() != addr.HostTypeIP"),  -- ?
  (3, "continue"),  -- ?
  (2, "remoteAddr := udp.UDPAddr{ IA: scionLayer.SrcIA, Host: &net.UDPAddr{ IP: srcAddr.IP().AsSlice(), Port: int(udpLayer.SrcPort)}}"),  -- ?
  (2, "rpath := snet.RawPath{ PathType: scionLayer.Path.Type()}"),  -- ?
  (2, "if l := scionLayer.Path.Len(); l != 0"),  -- ?
  (3, "rpath.Raw = make([]byte, l)"),  -- ?
  (3, "if err := scionLayer.Path.SerializeTo(rpath.Raw); err != nil"),  -- ?
  (4, "panic(err)"),  -- ?
  (2, "n = copy(b, gopacket.Payload(udpLayer.Payload))"),  -- ?
  (2, "return n, remoteAddr, rpath, lastHop, nil")  -- ?
  ]

/-- net/scion, serverConn.ReadFrom -/
def Quic.serverConn_ReadFrom : List Row := [
  (0, "func (c *serverConn) ReadFrom(b []byte) (int, net.Addr, error)"),  -- ?
  (1, "for"),  -- ?
  (2, "n, remoteAddr, path, lastHop, err := c.readPkt(b)"),  -- ?
  (2, "if err != nil"),  -- ?
  (3, "return 0, nil, err"),  -- ?
  (2, "rpath, ok := path.(snet.RawPath)"),  -- ?
  (2, "if !ok"),  -- ?
  (3, "return 0, nil, errUnexpectedPathType"),  -- ?
  (2, "replyPather := snet.DefaultReplyPather{}"),  -- ?
  (2, "replyPath, err := replyPather.ReplyPath(rpath)"),  -- ?
  (2, "if err != nil"),  -- ?
  (3, "continue"),  -- ?
  (2, "remoteAddrPath := udpAddrPath{ addr: remoteAddr, path: replyPath, nextHop: lastHop}"),  -- ?
  (2, "return n, remoteAddrPath, nil")  -- ?
  ]

/-- net/scion, clientConn.ReadFrom -/
def Quic.clientConn_ReadFrom : List Row := [
  (0, "func (c *clientConn) ReadFrom(b []byte) (int, net.Addr, error)"),  -- ?
  (1, "for"),  -- ?
  (2, "n, remoteAddr, _, _, err := c.readPkt(b)"),  -- ?
  (2, "if err != nil"),  -- ?
  (3, "return 0, nil, err"),  -- ?
  (2, "if remoteAddr.String() != c.remoteAddr"),  -- ?
  (3, "continue"),  -- ?
  (2, "return n, remoteAddr, err")  -- ?
  ]

end ScionTime.Model.Skel
