/-
  Control skeletons of net/scion as the models were written against them
  (notes/SKEL.md).  Each row: (depth, canonical text) as rendered by harness/extract/skeleton.go,
  followed by the model definition / branch that mirrors the statement.  Regenerated rows:
  Gen/SkelC08.lean; pins: Props/SkelC08.lean.  Core Lean only.
-/
import ScionTime.Model.Skel.Basic

namespace ScionTime.Model.Skel

/-- net/scion, baseConn.readPkt -/
def Quic.baseConn_readPkt : List Row := [
  (0, "func (c *baseConn) readPkt(b []byte) (int, udp.UDPAddr, snet.DataplanePath, net.Addr, error)"),  -- ScionQuic.readPkt = readPktWith .ignore: one datagram; harness c08quic op quic.read; C08Quic_readPkt_total
  (1, "c.readMu.Lock()"),  -- UNMODELLED: readMu serialises concurrent readPkt callers on the shared readBuf; the model is one sequential reader
  (1, "defer c.readMu.Unlock()"),  -- UNMODELLED: readMu released on every exit (also on the panic of row 32); no lock-discipline fact for readMu
  (1, "if c.readBuf == nil"),  -- env: buffer allocation (lazily, once per connection)
  (2, "c.readBuf = make([]byte, MTU)"),  -- env: buffer allocation (MTU bytes, kept in c.readBuf across calls)
  (1, "buf := c.readBuf"),  -- env: buffer plumbing
  (1, "var ( scionLayer slayers.SCION hbhLayer slayers.HopByHopExtnSkipper e2eLayer slayers.EndToEndExtnSkipper udpLayer slayers.UDP )"),  -- env: declarations of the gopacket layers; what they decode enters as ScionQuic.Dgram
  (1, "scionLayer.RecyclePaths()"),  -- env: slayers set-up (RecyclePaths; notes/C08.md: unregistered path type reports type 0); shapes input Dgram.pathType
  (1, "udpLayer.SetNetworkLayerForChecksum(&scionLayer)"),  -- env: slayers set-up (checksum pseudo header; decoding does not verify it)
  (1, "parser := gopacket.NewDecodingLayerParser( slayers.LayerTypeSCION, &scionLayer, &hbhLayer, &e2eLayer, &udpLayer)"),  -- env: gopacket set-up; decoders SCION, HBH, E2E, UDP = ScionQuic.Layer; result enters as Dgram.decodeOk / decoded
  (1, "parser.IgnoreUnsupported = true"),  -- env: gopacket set-up (shapes the input Dgram.decodeOk; harness c08quic recomputes the facts with the same setting)
  (1, "decoded := make([]gopacket.LayerType, 4)"),  -- env: buffer allocation
  (1, "for"),  -- ScionQuic.readPktWith: one iteration (.ignore = continue); the loop = recursion of serverReadFrom on .ignore
  (2, "buf = buf[:cap(buf)]"),  -- env: buffer plumbing
  (2, "n, lastHop, err := c.raw.ReadFrom(buf)"),  -- env: socket read; the datagram enters as the next Dgram of serverReadFrom's list; lastHop passed through, not in Pkt
  (2, "if err != nil"),  -- UNMODELLED: socket read error (closed socket, read deadline) ends the call; the model has only none = still blocked
  (3, "return 0, udp.UDPAddr{}, nil, nil, err"),  -- UNMODELLED: returns the socket error (quic-go closes the transport unless temporary); no Step / SrvStep outcome
  (2, "buf = buf[:n]"),  -- env: buffer plumbing; Dgram = the facts of these n bytes
  (2, "err = parser.DecodeLayers(buf, &decoded)"),  -- ScionQuic.Dgram.decodeOk, decoded: oracle input (gopacket / slayers parse); harness c08quic quic.read dec= layers=
  (2, "if err != nil"),  -- ScionQuic.readPktWith: if !d.decodeOk
  (3, "continue"),  -- ScionQuic.readPktWith: .ignore (non-SCION packet)
  (2, "validType := len(decoded) >= 2 && decoded[len(decoded)-1] == slayers.LayerTypeSCIONUDP"),  -- ScionQuic.readPktWith: d.decoded.length >= 2 && lastLayer d.decoded == some .udp
  (2, "if !validType"),  -- ScionQuic.readPktWith: else if !(...)
  (3, "continue"),  -- ScionQuic.readPktWith: .ignore (non-UDP payload)
  (2, "srcAddr, err := scionLayer.SrcAddr()"),  -- ScionQuic.srcAddr d.src: ParseAddr(SrcAddrType, RawSrcAddr) = ip bytes | svc | unsupported (= err)
  (2, "if err != nil || srcAddr.Type() != addr.HostTypeIP"),  -- ScionQuic.readPktWith: match srcAddr d.src | .unsupported | .svc => svc (.ignore as repaired; readPktOld: .panic)
  (3, "continue"),  -- ScionQuic.readPktWith: .ignore (unexpected address type)
  (2, "remoteAddr := udp.UDPAddr{ IA: scionLayer.SrcIA, Host: &net.UDPAddr{ IP: srcAddr.IP().AsSlice(), Port: int(udpLayer.SrcPort)}}"),  -- ScionQuic.readPktWith: | .ip b => .deliver Pkt with ia := d.srcIA, host := b, port := d.srcPort
  (2, "rpath := snet.RawPath{ PathType: scionLayer.Path.Type()}"),  -- ScionQuic.readPktWith: Pkt.pathType := d.pathType
  (2, "if l := scionLayer.Path.Len(); l != 0"),  -- ScionQuic.Dgram.pathRaw: the Path.Len() bytes ([] when Len() = 0)
  (3, "rpath.Raw = make([]byte, l)"),  -- env: buffer allocation for Pkt.pathRaw
  (3, "if err := scionLayer.Path.SerializeTo(rpath.Raw); err != nil"),  -- ScionQuic.Dgram.pathRaw: bytes Path.SerializeTo writes (input); Pkt.pathRaw := d.pathRaw; its error is not an input
  (4, "panic(err)"),  -- UNMODELLED: panic(err) when Path.SerializeTo fails on the decoded path; readPkt (repaired) has no panic outcome
  (2, "n = copy(b, gopacket.Payload(udpLayer.Payload))"),  -- ScionQuic.readPktWith: Pkt.payload := d.payload.take bufLen
  (2, "return n, remoteAddr, rpath, lastHop, nil")  -- ScionQuic.readPktWith: .deliver p (C08Quic_readPkt_deliver_sound); lastHop not in Pkt, harness checks hop= directly
  ]

/-- net/scion, serverConn.ReadFrom -/
def Quic.serverConn_ReadFrom : List Row := [
  (0, "func (c *serverConn) ReadFrom(b []byte) (int, net.Addr, error)"),  -- ScionQuic.serverRead (one datagram) / serverReadFrom (one call, datagram list); harness c08quic quic.read side=srv
  (1, "for"),  -- ScionQuic.serverReadFrom: recursion on .ignore (C08Quic_serverReadFrom_progress, _outcomes)
  (2, "n, remoteAddr, path, lastHop, err := c.readPkt(b)"),  -- ScionQuic.serverRead: match readPkt bufLen d (readPkt's own loop folded into serverReadFrom)
  (2, "if err != nil"),  -- UNMODELLED: propagates readPkt's socket read error (the only error readPkt returns); SrvStep has no such outcome
  (3, "return 0, nil, err"),  -- UNMODELLED: returns (0, nil, err) to quic-go; see baseConn_readPkt rows 15, 16
  (2, "rpath, ok := path.(snet.RawPath)"),  -- ScionQuic.Pkt.pathType, pathRaw: readPkt always hands back an snet.RawPath (the assertion itself is not modelled)
  (2, "if !ok"),  -- UNMODELLED: branch on a path that is not snet.RawPath; dead only because readPkt builds a RawPath (no pin says so)
  (3, "return 0, nil, errUnexpectedPathType"),  -- UNMODELLED: error return errUnexpectedPathType (quic-go would close the transport); no SrvStep outcome for it
  (2, "replyPather := snet.DefaultReplyPather{}"),  -- env: third-party snet.DefaultReplyPather value; its verdict enters as ScionQuic.Dgram.rev
  (2, "replyPath, err := replyPather.ReplyPath(rpath)"),  -- ScionQuic.Dgram.rev: oracle input = ReplyPath(RawPath{pathType, pathRaw}), none = error; harness quic.read rev=
  (2, "if err != nil"),  -- ScionQuic.serverRead: match d.rev | none (serverReadOld: .errPathReversal)
  (3, "continue"),  -- ScionQuic.serverRead: .ignore (irreversible path; C08Quic_irreversible_path_old_counterexample)
  (2, "remoteAddrPath := udpAddrPath{ addr: remoteAddr, path: replyPath, nextHop: lastHop}"),  -- ScionQuic.SrvStep.deliver p t r: addr = p, path = (t, r); nextHop = lastHop not in the model (harness checks hop=)
  (2, "return n, remoteAddrPath, nil")  -- ScionQuic.serverRead: | some (t, r) => .deliver p t r (C08Quic_server_deliver_sound)
  ]

/-- net/scion, clientConn.ReadFrom -/
def Quic.clientConn_ReadFrom : List Row := [
  (0, "func (c *clientConn) ReadFrom(b []byte) (int, net.Addr, error)"),  -- ScionQuic.clientRead = clientReadWith readPkt: one datagram; harness c08quic op quic.read side=cli
  (1, "for"),  -- ScionQuic.clientReadWith: one iteration only (.ignore = continue); no loop over a datagram list on the client side
  (2, "n, remoteAddr, _, _, err := c.readPkt(b)"),  -- ScionQuic.clientReadWith: match rd bufLen d (| s => s passes .ignore / .panic on)
  (2, "if err != nil"),  -- UNMODELLED: propagates readPkt's socket read error; Step has no such outcome
  (3, "return 0, nil, err"),  -- UNMODELLED: returns (0, nil, err) to quic-go; see baseConn_readPkt rows 15, 16
  (2, "if remoteAddr.String() != c.remoteAddr"),  -- ScionQuic.sameRemote r p: IA, port and IP equal up to IPv4-mapping (text form of udp.UDPAddr.String())
  (3, "continue"),  -- ScionQuic.clientReadWith: .ignore (packet from unexpected source)
  (2, "return n, remoteAddr, err")  -- ScionQuic.clientReadWith: .deliver p (C08Quic_client_deliver_sound)
  ]

end ScionTime.Model.Skel
