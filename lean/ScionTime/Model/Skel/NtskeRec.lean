/-
  Control skeletons of net/ntske as the models were written against them
  (notes/SKEL.md).  Each row: (depth, canonical text) as rendered by harness/extract/skeleton.go,
  followed by the model definition / branch that mirrors the statement.  Regenerated rows:
  Gen/SkelC20.lean; pins: Props/SkelC20.lean.  Core Lean only.
-/
import ScionTime.Model.Skel.Basic

namespace ScionTime.Model.Skel

/-- net/ntske, RecordHdr.pack -/
def NtskeRec.RecordHdr_pack : List Row := [
  (0, "func (h RecordHdr) pack(buf *bytes.Buffer) error"),  -- Ntske.packHeader: the 4 header bytes appended to the message; harness c14ntske / c20 op rec.pack (Driver C20: packMsg)
  (1, "err := binary.Write(buf, binary.BigEndian, h)"),  -- Ntske.packHeader: u16 type ++ u16 (bodylen % 65536): binary.Write of the struct = Type then BodyLen, big-endian
  (1, "return err")  -- Ntske.packHeader: total - err is always nil (fixed-size struct into a bytes.Buffer); no error outcome in the model
  ]

/-- net/ntske, packsimple -/
def NtskeRec.packsimple : List Row := [
  (0, "func packsimple(t uint16, c bool, v interface{}, buf *bytes.Buffer) error"),  -- Ntske.Rec.pack: branches .algorithm .server .port .cookie .warning .error = packHeader t c len ++ body; harness op rec.pack
  (1, "value := new(bytes.Buffer)"),  -- env: scratch buffer for the body (the body term of Rec.pack)
  (1, "err := binary.Write(value, binary.BigEndian, v)"),  -- Ntske.Rec.pack: body = u16 v (uint16) | the bytes ([]byte) | as.flatMap u16 ([]uint16), big-endian
  (1, "if err != nil"),  -- Ntske.Rec.pack: total - no error outcome (callers pass uint16, []byte, []uint16 only - fixed size, not pinned)
  (2, "return err"),  -- Ntske.Rec.pack: total - dead branch, nothing in the model
  (1, "err = packheader(t, c, buf, value.Len())"),  -- Ntske.packHeader: t c bodylen with bodylen = length of the body (2 | a.length | c.length | 2 * as.length)
  (1, "if err != nil"),  -- Ntske.Rec.pack: total - no error outcome in the model (packheader cannot fail)
  (2, "return err"),  -- Ntske.Rec.pack: total - dead branch, nothing in the model
  (1, "_, err = buf.ReadFrom(value)"),  -- Ntske.Rec.pack: packHeader ... ++ body (the body follows the header in the message buffer)
  (1, "if err != nil"),  -- Ntske.Rec.pack: total - no error outcome in the model (ReadFrom a bytes.Buffer ends with io.EOF = nil)
  (2, "return err"),  -- Ntske.Rec.pack: total - dead branch, nothing in the model
  (1, "return nil")  -- Ntske.Rec.pack: the List Byte result (Ntske.packMsg appends it: flatMap)
  ]

/-- net/ntske, packheader -/
def NtskeRec.packheader : List Row := [
  (0, "func packheader(t uint16, c bool, buf *bytes.Buffer, bodylen int) error"),  -- Ntske.packHeader: t c bodylen; harness c14ntske / c20 op rec.pack
  (1, "var hdr RecordHdr"),  -- env: variable declaration
  (1, "hdr.Type = t"),  -- Ntske.packHeader: else t (type without the critical bit)
  (1, "if c"),  -- Ntske.packHeader: if c
  (2, "hdr.Type = setBit(hdr.Type, 15)"),  -- Ntske.packHeader: t % 32768 + 32768 (= t | 0x8000 for a uint16 t)
  (1, "hdr.BodyLen = uint16(bodylen)"),  -- Ntske.packHeader: u16 (bodylen % 65536): uint16 truncation (a 65536-byte body gets length 0; Proofs/Ntske Fits bounds it)
  (1, "err := hdr.pack(buf)"),  -- Ntske.packHeader: u16 type ++ u16 length (RecordHdr.pack)
  (1, "if err != nil"),  -- Ntske.packHeader: total - no error outcome in the model (RecordHdr.pack cannot fail)
  (2, "return err"),  -- Ntske.packHeader: total - dead branch, nothing in the model
  (1, "return nil")  -- Ntske.packHeader: the 4 bytes
  ]

/-- net/ntske, ExchangeMsg.Pack -/
def NtskeRec.ExchangeMsg_Pack : List Row := [
  (0, "func (m ExchangeMsg) Pack() (buf *bytes.Buffer, err error)"),  -- Ntske.packMsg: rs.flatMap Rec.pack; harness c14ntske / c20 ops rec.pack, srv.msg; NtskeSrv.Verdict.out, errorMsg
  (1, "buf = new(bytes.Buffer)"),  -- Ntske.packMsg: the result list (empty for no records)
  (1, "for _, r := range m.Record"),  -- Ntske.packMsg: flatMap over rs in list order (= order of the AddRecord calls)
  (2, "err = r.pack(buf)"),  -- Ntske.Rec.pack: match on the Rec constructor = dynamic dispatch on the record type; bytes appended
  (2, "if err != nil"),  -- Ntske.packMsg: total - no Pack-error branch in the model (no record pack function can fail)
  (3, "return nil, err"),  -- Ntske.packMsg: total - dead branch (would drop the partial buffer), nothing in the model
  (1, "return buf, nil")  -- Ntske.packMsg: the bytes of all records (C14Ntske_record_roundtrip, C20_client_request_accepted)
  ]

/-- net/ntske, ExchangeMsg.AddRecord -/
def NtskeRec.ExchangeMsg_AddRecord : List Row := [
  (0, "func (m *ExchangeMsg) AddRecord(rec Record)"),  -- Ntske.clientMsg / serverMsg / NtskeSrv.errorMsg: the List Rec literal; harness op rec.pack (one call per record)
  (1, "m.Record = append(m.Record, rec)")  -- Ntske.packMsg: argument rs - append at the end, so list order = call order; AddRecord itself has no definition
  ]

/-- net/ntske, NextProto.pack -/
def NtskeRec.NextProto_pack : List Row := [
  (0, "func (n NextProto) pack(buf *bytes.Buffer) error"),  -- Ntske.Rec.pack: | .nextProto v => packHeader recNextproto true 2 ++ u16 v; harness op rec.pack (np:)
  (1, "value := new(bytes.Buffer)"),  -- env: scratch buffer for the body
  (1, "err := binary.Write(value, binary.BigEndian, n.NextProto)"),  -- Ntske.Rec.pack: u16 v (the uint16 big-endian)
  (1, "if err != nil"),  -- Ntske.Rec.pack: total - no error outcome in the model (binary.Write of a uint16 into a bytes.Buffer cannot fail)
  (2, "return err"),  -- Ntske.Rec.pack: total - dead branch, nothing in the model
  (1, "n.RecordHdr.Type = RecNextproto"),  -- Ntske.Rec.pack: packHeader recNextproto ...; pin C20_pin_record_types (RecNextproto = 1)
  (1, "n.RecordHdr.Type = setBit(n.RecordHdr.Type, 15)"),  -- Ntske.packHeader: c = true: t % 32768 + 32768 (always critical)
  (1, "n.RecordHdr.BodyLen = uint16(value.Len())"),  -- Ntske.Rec.pack: bodylen 2 (value.Len() of one uint16)
  (1, "err = n.RecordHdr.pack(buf)"),  -- Ntske.packHeader: u16 type ++ u16 length (RecordHdr.pack)
  (1, "if err != nil"),  -- Ntske.Rec.pack: total - no error outcome in the model (RecordHdr.pack cannot fail)
  (2, "return err"),  -- Ntske.Rec.pack: total - dead branch, nothing in the model
  (1, "_, err = buf.ReadFrom(value)"),  -- Ntske.Rec.pack: ... ++ u16 v (the body follows the header)
  (1, "if err != nil"),  -- Ntske.Rec.pack: total - no error outcome in the model (ReadFrom a bytes.Buffer ends with io.EOF = nil)
  (2, "return err"),  -- Ntske.Rec.pack: total - dead branch, nothing in the model
  (1, "return nil")  -- Ntske.Rec.pack: the 6 bytes (Ntske.clientMsg, serverMsg: .nextProto ntpv4)
  ]

/-- net/ntske, End.pack -/
def NtskeRec.End_pack : List Row := [
  (0, "func (e End) pack(buf *bytes.Buffer) error"),  -- Ntske.Rec.pack: | .end_; harness op rec.pack (end); last record of Ntske.clientMsg / serverMsg
  (1, "return packheader(RecEom, true, buf, 0)")  -- Ntske.Rec.pack: packHeader recEom true 0 = [128, 0, 0, 0]; pin C20_pin_record_types (RecEom)
  ]

/-- net/ntske, Server.pack -/
def NtskeRec.Server_pack : List Row := [
  (0, "func (s Server) pack(buf *bytes.Buffer) error"),  -- Ntske.Rec.pack: | .server a c; harness op rec.pack (sv:); Ntske.serverMsg: .server ip false
  (1, "return packsimple(RecServer, s.Critical, s.Addr, buf)")  -- Ntske.Rec.pack: packHeader recServer c a.length ++ a; pin C20_pin_record_types (RecServer)
  ]

/-- net/ntske, Port.pack -/
def NtskeRec.Port_pack : List Row := [
  (0, "func (p Port) pack(buf *bytes.Buffer) error"),  -- Ntske.Rec.pack: | .port p c; harness op rec.pack (pt:); Ntske.serverMsg: .port (port % 65536) false
  (1, "return packsimple(RecPort, p.Critical, p.Port, buf)")  -- Ntske.Rec.pack: packHeader recPort c 2 ++ u16 p; pin C20_pin_record_types (RecPort)
  ]

/-- net/ntske, Cookie.pack -/
def NtskeRec.Cookie_pack : List Row := [
  (0, "func (c Cookie) pack(buf *bytes.Buffer) error"),  -- Ntske.Rec.pack: | .cookie c; harness op rec.pack (ck:), srv.msg; Ntske.serverMsg: cookies.map .cookie
  (1, "return packsimple(RecCookie, false, c.Cookie, buf)")  -- Ntske.Rec.pack: packHeader recCookie false c.length ++ c (never critical); pin C20_pin_record_types (RecCookie)
  ]

/-- net/ntske, Warning.pack -/
def NtskeRec.Warning_pack : List Row := [
  (0, "func (w Warning) pack(buf *bytes.Buffer) error"),  -- Ntske.Rec.pack: | .warning code; harness op rec.pack (wn:); no sender in the repository builds one
  (1, "return packsimple(RecWarning, true, w.Code, buf)")  -- Ntske.Rec.pack: packHeader recWarning true 2 ++ u16 code; pin C20_pin_record_types (RecWarning)
  ]

/-- net/ntske, Error.pack -/
def NtskeRec.Error_pack : List Row := [
  (0, "func (e Error) pack(buf *bytes.Buffer) error"),  -- Ntske.Rec.pack: | .error code; harness op rec.pack (er:); NtskeSrv.errorMsg (C20Srv_error_messages: the bytes)
  (1, "return packsimple(RecError, true, e.Code, buf)")  -- Ntske.Rec.pack: packHeader recError true 2 ++ u16 code; pin C20_pin_record_types (RecError)
  ]

/-- net/ntske, Algorithm.pack -/
def NtskeRec.Algorithm_pack : List Row := [
  (0, "func (a Algorithm) pack(buf *bytes.Buffer) error"),  -- Ntske.Rec.pack: | .algorithm as; harness op rec.pack (al:); C14Ntske_multi_algorithm_desync (reader takes one)
  (1, "return packsimple(RecAead, true, a.Algo, buf)")  -- Ntske.Rec.pack: packHeader recAead true (2 * as.length) ++ as.flatMap u16; pin C20_pin_record_types (RecAead)
  ]

/-- net/ntske, AcceptTLSConn -/
def NtskeRec.AcceptTLSConn : List Row := [
  (0, "func AcceptTLSConn(l net.Listener) (*tls.Conn, error)"),  -- NtskeSrv.handle: one NtskeSrv.Conn per connection returned here; accept itself is env; harness c20srv ops ks.req, ks.held
  (1, "conn, err := l.Accept()"),  -- env: TCP accept on the listener (kernel); no TLS handshake here - it runs at the first Read of the handler
  (1, "if err != nil"),  -- env: accept error; decision is the caller runNTSKEServerTLS (rows 4-5 there: logged, loop continues - UNMODELLED there)
  (2, "return nil, err"),  -- env: error handed to the caller unchanged; no model input for a failed accept
  (1, "tlsConn, ok := conn.(*tls.Conn)"),  -- env: type assertion; no behaviour on a tls.Listen listener (every accepted conn is a *tls.Conn)
  (1, "if !ok"),  -- pin C20_skel_NtskeSrvStart_StartNTSKEServerIP (Props/SkelC20): listener := tls.Listen(...), so ok is true; no model branch
  (2, "panic(\"invalid listener type: TLS listener expected\")"),  -- UNMODELLED: process-wide panic in the accept loop if the listener is not a TLS listener; no model outcome for it
  (1, "return tlsConn, nil")  -- NtskeSrv.Conn: the accepted connection = one value Conn (request chunks, exporter values, localIP) for NtskeSrv.handle
  ]

/-- net/ntske, setBit -/
def NtskeRec.setBit : List Row := [
  (0, "func setBit(n uint16, pos uint) uint16"),  -- Ntske.packHeader: the critical bit (call sites: packheader and NextProto.pack, both with pos = 15); harness op rec.pack
  (1, "n |= (1 << pos)"),  -- Ntske.packHeader: t % 32768 + 32768 = n | (1 << 15) for a uint16 n; only pos = 15 is modelled (the only one used)
  (1, "return n")  -- Ntske.packHeader: first u16 of the header
  ]

/-- net/ntske, hasBit -/
def NtskeRec.hasBit : List Row := [
  (0, "func hasBit(n uint16, pos uint) bool"),  -- Ntske.step: crit (only call site: hasBit(msg.Type, 15) in ReadData); harness c20 / c14ntske op rd.read
  (1, "val := n & (1 << pos)"),  -- Ntske.step: raw / 32768 % 2 (bit 15 of the 16-bit type field; only pos = 15 is modelled)
  (1, "return (val > 0)")  -- Ntske.step: crit := raw / 32768 % 2 == 1
  ]

end ScionTime.Model.Skel
