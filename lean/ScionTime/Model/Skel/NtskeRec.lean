/-
  Control skeletons of net/ntske as the models were written against them
  (notes/SKEL.md).  Each row: (depth, canonical text) as rendered by harness/extract/skeleton.go,
  followed by the model definition / branch that mirrors the statement.  Regenerated rows:
  Gen/SkelC20.lean; pins: Props/SkelC20.lean.  Core Lean only.
-/
import ScionTime.Model.Skel.Basic

namespace ScionTime.Model.Skel

/-- net/ntske, RecordHdr.pack -/
def NtskeRec.RecordHdr_pack : List Row := [
  (0, "func (h RecordHdr) pack(buf *bytes.Buffer) error"),  -- ?
  (1, "err := binary.Write(buf, binary.BigEndian, h)"),  -- ?
  (1, "return err")  -- ?
  ]

/-- net/ntske, packsimple -/
def NtskeRec.packsimple : List Row := [
  (0, "func packsimple(t uint16, c bool, v interface{}, buf *bytes.Buffer) error"),  -- ?
  (1, "value := new(bytes.Buffer)"),  -- ?
  (1, "err := binary.Write(value, binary.BigEndian, v)"),  -- ?
  (1, "if err != nil"),  -- ?
  (2, "return err"),  -- ?
  (1, "err = packheader(t, c, buf, value.Len())"),  -- ?
  (1, "if err != nil"),  -- ?
  (2, "return err"),  -- ?
  (1, "_, err = buf.ReadFrom(value)"),  -- ?
  (1, "if err != nil"),  -- ?
  (2, "return err"),  -- ?
  (1, "return nil")  -- ?
  ]

/-- net/ntske, packheader -/
def NtskeRec.packheader : List Row := [
  (0, "func packheader(t uint16, c bool, buf *bytes.Buffer, bodylen int) error"),  -- ?
  (1, "var hdr RecordHdr"),  -- ?
  (1, "hdr.Type = t"),  -- ?
  (1, "if c"),  -- ?
  (2, "hdr.Type = setBit(hdr.Type, 15)"),  -- ?
  (1, "hdr.BodyLen = uint16(bodylen)"),  -- ?
  (1, "err := hdr.pack(buf)"),  -- ?
  (1, "if err != nil"),  -- ?
  (2, "return err"),  -- ?
  (1, "return nil")  -- ?
  ]

/-- net/ntske, ExchangeMsg.Pack -/
def NtskeRec.ExchangeMsg_Pack : List Row := [
  (0, "func (m ExchangeMsg) Pack() (buf *bytes.Buffer, err error)"),  -- ?
  (1, "buf = new(bytes.Buffer)"),  -- ?
  (1, "for _, r := range m.Record"),  -- ?
  (2, "err = r.pack(buf)"),  -- ?
  (2, "if err != nil"),  -- ?
  (3, "return nil, err"),  -- ?
  (1, "return buf, nil")  -- ?
  ]

/-- net/ntske, ExchangeMsg.AddRecord -/
def NtskeRec.ExchangeMsg_AddRecord : List Row := [
  (0, "func (m *ExchangeMsg) AddRecord(rec Record)"),  -- ?
  (1, "m.Record = append(m.Record, rec)")  -- ?
  ]

/-- net/ntske, NextProto.pack -/
def NtskeRec.NextProto_pack : List Row := [
  (0, "func (n NextProto) pack(buf *bytes.Buffer) error"),  -- ?
  (1, "value := new(bytes.Buffer)"),  -- ?
  (1, "err := binary.Write(value, binary.BigEndian, n.NextProto)"),  -- ?
  (1, "if err != nil"),  -- ?
  (2, "return err"),  -- ?
  (1, "n.RecordHdr.Type = RecNextproto"),  -- ?
  (1, "n.RecordHdr.Type = setBit(n.RecordHdr.Type, 15)"),  -- ?
  (1, "n.RecordHdr.BodyLen = uint16(value.Len())"),  -- ?
  (1, "err = n.RecordHdr.pack(buf)"),  -- ?
  (1, "if err != nil"),  -- ?
  (2, "return err"),  -- ?
  (1, "_, err = buf.ReadFrom(value)"),  -- ?
  (1, "if err != nil"),  -- ?
  (2, "return err"),  -- ?
  (1, "return nil")  -- ?
  ]

/-- net/ntske, End.pack -/
def NtskeRec.End_pack : List Row := [
  (0, "func (e End) pack(buf *bytes.Buffer) error"),  -- ?
  (1, "return packheader(RecEom, true, buf, 0)")  -- ?
  ]

/-- net/ntske, Server.pack -/
def NtskeRec.Server_pack : List Row := [
  (0, "func (s Server) pack(buf *bytes.Buffer) error"),  -- ?
  (1, "return packsimple(RecServer, s.Critical, s.Addr, buf)")  -- ?
  ]

/-- net/ntske, Port.pack -/
def NtskeRec.Port_pack : List Row := [
  (0, "func (p Port) pack(buf *bytes.Buffer) error"),  -- ?
  (1, "return packsimple(RecPort, p.Critical, p.Port, buf)")  -- ?
  ]

/-- net/ntske, Cookie.pack -/
def NtskeRec.Cookie_pack : List Row := [
  (0, "func (c Cookie) pack(buf *bytes.Buffer) error"),  -- ?
  (1, "return packsimple(RecCookie, false, c.Cookie, buf)")  -- ?
  ]

/-- net/ntske, Warning.pack -/
def NtskeRec.Warning_pack : List Row := [
  (0, "func (w Warning) pack(buf *bytes.Buffer) error"),  -- ?
  (1, "return packsimple(RecWarning, true, w.Code, buf)")  -- ?
  ]

/-- net/ntske, Error.pack -/
def NtskeRec.Error_pack : List Row := [
  (0, "func (e Error) pack(buf *bytes.Buffer) error"),  -- ?
  (1, "return packsimple(RecError, true, e.Code, buf)")  -- ?
  ]

/-- net/ntske, Algorithm.pack -/
def NtskeRec.Algorithm_pack : List Row := [
  (0, "func (a Algorithm) pack(buf *bytes.Buffer) error"),  -- ?
  (1, "return packsimple(RecAead, true, a.Algo, buf)")  -- ?
  ]

/-- net/ntske, AcceptTLSConn -/
def NtskeRec.AcceptTLSConn : List Row := [
  (0, "func AcceptTLSConn(l net.Listener) (*tls.Conn, error)"),  -- ?
  (1, "conn, err := l.Accept()"),  -- ?
  (1, "if err != nil"),  -- ?
  (2, "return nil, err"),  -- ?
  (1, "tlsConn, ok := conn.(*tls.Conn)"),  -- ?
  (1, "if !ok"),  -- ?
  (2, "panic(\"invalid listener type: TLS listener expected\")"),  -- ?
  (1, "return tlsConn, nil")  -- ?
  ]

/-- net/ntske, setBit -/
def NtskeRec.setBit : List Row := [
  (0, "func setBit(n uint16, pos uint) uint16"),  -- ?
  (1, "n |= (1 << pos)"),  -- ?
  (1, "return n")  -- ?
  ]

/-- net/ntske, hasBit -/
def NtskeRec.hasBit : List Row := [
  (0, "func hasBit(n uint16, pos uint) bool"),  -- ?
  (1, "val := n & (1 << pos)"),  -- ?
  (1, "return (val > 0)")  -- ?
  ]

end ScionTime.Model.Skel
