/-
  Control skeletons of driver/clocks as the models were written against them
  (notes/SKEL.md).  Each row: (depth, canonical text) as rendered by harness/extract/skeleton.go,
  followed by the model definition / branch that mirrors the statement.  Regenerated rows:
  Gen/SkelC19.lean; pins: Props/SkelC19.lean.  Core Lean only.
-/
import ScionTime.Model.Skel.Basic

namespace ScionTime.Model.Skel

/-- driver/clocks, now -/
def SysClock.now : List Row := [
  (0, "func now(log *slog.Logger) time.Time"),  -- ?
  (1, "var ts unix.Timespec"),  -- ?
  (1, "err := unix.ClockGettime(unix.CLOCK_REALTIME, &ts)"),  -- ?
  (1, "if err != nil"),  -- ?
  (2, "logbase.Fatal(log, \"unix.ClockGettime failed\", slog.Any(\"error\", err))"),  -- ?
  (1, "return time.Unix(ts.Unix()).UTC()")  -- ?
  ]

/-- driver/clocks, sleep -/
def SysClock.sleep : List Row := [
  (0, "func sleep(log *slog.Logger, duration time.Duration)"),  -- ?
  (1, "fd, err := unix.TimerfdCreate(unix.CLOCK_REALTIME, unix.TFD_NONBLOCK)"),  -- ?
  (1, "if err != nil"),  -- ?
  (2, "logbase.Fatal(log, \"unix.TimerfdCreate failed\", slog.Any(\"error\", err))"),  -- ?
  (1, "ts, err := unix.TimeToTimespec(now(log).Add(duration))"),  -- ?
  (1, "if err != nil"),  -- ?
  (2, "logbase.Fatal(log, \"unix.TimeToTimespec failed\", slog.Any(\"error\", err))"),  -- ?
  (1, "err = unix.TimerfdSettime(fd, unix.TFD_TIMER_ABSTIME, &unix.ItimerSpec{Value: ts}, nil)"),  -- ?
  (1, "if err != nil"),  -- ?
  (2, "logbase.Fatal(log, \"unix.TimerfdSettime failed\", slog.Any(\"error\", err))"),  -- ?
  (1, "if fd < math.MinInt32 || math.MaxInt32 < fd"),  -- ?
  (2, "logbase.Fatal(log, \"unix.TimerfdCreate returned unexpected value\")"),  -- ?
  (1, "pollFds := []unix.PollFd{ {Fd: int32(fd), Events: unix.POLLIN}}"),  -- ?
  (1, "for"),  -- ?
  (2, "_, err := unix.Poll(pollFds, -1)"),  -- ?
  (2, "if err == unix.EINTR"),  -- ?
  (3, "continue"),  -- ?
  (2, "if err != nil"),  -- ?
  (3, "logbase.Fatal(log, \"unix.Poll failed\", slog.Any(\"error\", err))"),  -- ?
  (2, "break"),  -- ?
  (1, "_ = unix.Close(fd)")  -- ?
  ]

/-- driver/clocks, setOffset -/
def SysClock.setOffset : List Row := [
  (0, "func setOffset(log *slog.Logger, offset time.Duration)"),  -- ?
  (1, "tx := unix.Timex{ Modes: unix.ADJ_SETOFFSET | unix.ADJ_NANO, Time: unixutil.TimevalFromNsec(offset.Nanoseconds())}"),  -- ?
  (1, "_, err := unix.ClockAdjtime(unix.CLOCK_REALTIME, &tx)"),  -- ?
  (1, "if err != nil"),  -- ?
  (2, "logbase.Fatal(log, \"unix.ClockAdjtime failed\", slog.Any(\"error\", err))")  -- ?
  ]

/-- driver/clocks, setFrequency -/
def SysClock.setFrequency : List Row := [
  (0, "func setFrequency(log *slog.Logger, frequency float64)"),  -- ?
  (1, "tx := unix.Timex{ Modes: unix.ADJ_FREQUENCY, Freq: unixutil.ScaledPPMFromFreq(frequency)}"),  -- ?
  (1, "_, err := unix.ClockAdjtime(unix.CLOCK_REALTIME, &tx)"),  -- ?
  (1, "if err != nil"),  -- ?
  (2, "logbase.Fatal(log, \"unix.ClockAdjtime failed\", slog.Any(\"error\", err))")  -- ?
  ]

/-- driver/clocks, SystemClock.Epoch -/
def SysClock.SystemClock_Epoch : List Row := [
  (0, "func (c *SystemClock) Epoch() uint64"),  -- ?
  (1, "c.mu.Lock()"),  -- ?
  (1, "defer c.mu.Unlock()"),  -- ?
  (1, "return c.epoch")  -- ?
  ]

/-- driver/clocks, SystemClock.Now -/
def SysClock.SystemClock_Now : List Row := [
  (0, "func (c *SystemClock) Now() time.Time"),  -- ?
  (1, "return now(c.log)")  -- ?
  ]

/-- driver/clocks, SystemClock.Drift -/
def SysClock.SystemClock_Drift : List Row := [
  (0, "func (c *SystemClock) Drift(duration time.Duration) time.Duration"),  -- ?
  (1, "if c.drift == UnknownDrift"),  -- ?
  (2, "return math.MaxInt64"),  -- ?
  (1, "return timemath.Duration(duration.Seconds() * c.drift)")  -- ?
  ]

/-- driver/clocks, SystemClock.Step -/
def SysClock.SystemClock_Step : List Row := [
  (0, "func (c *SystemClock) Step(offset time.Duration)"),  -- ?
  (1, "c.mu.Lock()"),  -- ?
  (1, "defer c.mu.Unlock()"),  -- ?
  (1, "if c.adjustment != nil"),  -- ?
  (2, "setFrequency(c.log, c.adjustment.afterFreq)"),  -- ?
  (2, "c.adjustment = nil"),  -- ?
  (1, "setOffset(c.log, offset)"),  -- ?
  (1, "if c.epoch == math.MaxUint64"),  -- ?
  (2, "panic(\"epoch overflow\")"),  -- ?
  (1, "c.epoch++")  -- ?
  ]

/-- driver/clocks, SystemClock.Adjust -/
def SysClock.SystemClock_Adjust : List Row := [
  (0, "func (c *SystemClock) Adjust(offset, duration time.Duration, frequency float64)"),  -- ?
  (1, "c.mu.Lock()"),  -- ?
  (1, "defer c.mu.Unlock()"),  -- ?
  (1, "if c.adjustment != nil"),  -- ?
  (2, "c.adjustment = nil"),  -- ?
  (1, "if duration < 0"),  -- ?
  (2, "panic(\"invalid duration value\")"),  -- ?
  (1, "duration = duration / time.Second * time.Second"),  -- ?
  (1, "if duration == 0"),  -- ?
  (2, "duration = time.Second"),  -- ?
  (1, "setFrequency(c.log, frequency+offset.Seconds()/duration.Seconds())"),  -- ?
  (1, "c.adjustment = &adjustment{ clock: c, duration: duration, afterFreq: frequency}"),  -- ?
  (1, "go func(log *slog.Logger, adj *adjustment) {…}(c.log, c.adjustment)"),  -- ?
  (2, "func literal 1"),  -- ?
  (3, "sleep(log, adj.duration)"),  -- ?
  (3, "adj.clock.mu.Lock()"),  -- ?
  (3, "defer adj.clock.mu.Unlock()"),  -- ?
  (3, "if adj == adj.clock.adjustment"),  -- ?
  (4, "setFrequency(log, adj.afterFreq)")  -- ?
  ]

/-- driver/clocks, SystemClock.Sleep -/
def SysClock.SystemClock_Sleep : List Row := [
  (0, "func (c *SystemClock) Sleep(duration time.Duration)"),  -- ?
  (1, "if duration < 0"),  -- ?
  (2, "panic(\"invalid duration value\")"),  -- ?
  (1, "sleep(c.log, duration)")  -- ?
  ]

end ScionTime.Model.Skel
