/-
  Control skeletons of driver/clocks as the models were written against them
  (notes/SKEL.md).  Each row: (depth, canonical text) as rendered by harness/extract/skeleton.go,
  followed by the model definition / branch that mirrors the statement.  Regenerated rows:
  Gen/SkelC19.lean; pins: Props/SkelC19.lean.  Core Lean only.
-/
import ScionTime.Model.Skel.Basic

namespace ScionTime.Model.Skel

/-- driver/clocks, now -/
def SysClock.now : List Row := [
  (0, "func now(log *slog.Logger) time.Time"),  -- env: clock_gettime wrapper, not modelled (SysClock.lean header); result = input now of Pll.step / PllClock.update
  (1, "var ts unix.Timespec"),  -- env: variable declaration
  (1, "err := unix.ClockGettime(unix.CLOCK_REALTIME, &ts)"),  -- env: kernel call clock_gettime(CLOCK_REALTIME); the reading enters the models as the input now
  (1, "if err != nil"),  -- env: syscall failure ends the process (logbase.Fatal); models cover only executions in which the wrapper returns
  (2, "logbase.Fatal(log, \"unix.ClockGettime failed\", slog.Any(\"error\", err))"),  -- env: process exit through logbase.Fatal
  (1, "return time.Unix(ts.Unix()).UTC()")  -- env: Timespec -> time.Time (UTC, no monotonic part); models read now as Int ns since the Unix epoch (Pll.lean)
  ]

/-- driver/clocks, sleep -/
def SysClock.sleep : List Row := [
  (0, "func sleep(log *slog.Logger, duration time.Duration)"),  -- SysClock.Action.sleep / .spawn: the wrapper is a recorded action with its argument, body not modelled
  (1, "fd, err := unix.TimerfdCreate(unix.CLOCK_REALTIME, unix.TFD_NONBLOCK)"),  -- env: kernel call timerfd_create(CLOCK_REALTIME)
  (1, "if err != nil"),  -- env: syscall failure ends the process (logbase.Fatal)
  (2, "logbase.Fatal(log, \"unix.TimerfdCreate failed\", slog.Any(\"error\", err))"),  -- env: process exit through logbase.Fatal
  (1, "ts, err := unix.TimeToTimespec(now(log).Add(duration))"),  -- env: absolute CLOCK_REALTIME deadline now() + duration; model: wake-up time is the scheduler's choice (Op.expire)
  (1, "if err != nil"),  -- env: conversion failure ends the process (logbase.Fatal)
  (2, "logbase.Fatal(log, \"unix.TimeToTimespec failed\", slog.Any(\"error\", err))"),  -- env: process exit through logbase.Fatal
  (1, "err = unix.TimerfdSettime(fd, unix.TFD_TIMER_ABSTIME, &unix.ItimerSpec{Value: ts}, nil)"),  -- env: kernel timer armed at the absolute deadline (TFD_TIMER_ABSTIME, moves with clock steps); model: any time
  (1, "if err != nil"),  -- env: syscall failure ends the process (logbase.Fatal)
  (2, "logbase.Fatal(log, \"unix.TimerfdSettime failed\", slog.Any(\"error\", err))"),  -- env: process exit through logbase.Fatal
  (1, "if fd < math.MinInt32 || math.MaxInt32 < fd"),  -- env: descriptor range check before int32(fd); failure ends the process
  (2, "logbase.Fatal(log, \"unix.TimerfdCreate returned unexpected value\")"),  -- env: process exit through logbase.Fatal
  (1, "pollFds := []unix.PollFd{ {Fd: int32(fd), Events: unix.POLLIN}}"),  -- env: poll set set-up (buffer)
  (1, "for"),  -- env: kernel wait, poll(2) retry loop; the sleeper's continuation is SysClock.expire / the return of SysClock.sleep
  (2, "_, err := unix.Poll(pollFds, -1)"),  -- env: kernel call poll(2) without timeout
  (2, "if err == unix.EINTR"),  -- env: EINTR retry of the kernel wait
  (3, "continue"),  -- env: EINTR retry of the kernel wait
  (2, "if err != nil"),  -- env: syscall failure ends the process (logbase.Fatal)
  (3, "logbase.Fatal(log, \"unix.Poll failed\", slog.Any(\"error\", err))"),  -- env: process exit through logbase.Fatal
  (2, "break"),  -- env: leaves the wait loop when the timer fired
  (1, "_ = unix.Close(fd)")  -- env: descriptor release
  ]

/-- driver/clocks, setOffset -/
def SysClock.setOffset : List Row := [
  (0, "func setOffset(log *slog.Logger, offset time.Duration)"),  -- SysClock.Action.setOffset: call recorded with its argument by SysClock.step; harness c19clk debug log
  (1, "tx := unix.Timex{ Modes: unix.ADJ_SETOFFSET | unix.ADJ_NANO, Time: unixutil.TimevalFromNsec(offset.Nanoseconds())}"),  -- Unixutil.timevalFromNsec: Time field (C18_timeval_normal); Modes ADJ_SETOFFSET|ADJ_NANO, call site in no model
  (1, "_, err := unix.ClockAdjtime(unix.CLOCK_REALTIME, &tx)"),  -- env: kernel call clock_adjtime; what the kernel does with it is outside the property (SysClock.lean header)
  (1, "if err != nil"),  -- env: syscall failure ends the process (logbase.Fatal); models cover only executions in which the wrapper returns
  (2, "logbase.Fatal(log, \"unix.ClockAdjtime failed\", slog.Any(\"error\", err))")  -- env: process exit through logbase.Fatal
  ]

/-- driver/clocks, setFrequency -/
def SysClock.setFrequency : List Row := [
  (0, "func setFrequency(log *slog.Logger, frequency float64)"),  -- SysClock.Action.setFrequency: call recorded with its argument (step / adjust / expire); harness c19clk debug log
  (1, "tx := unix.Timex{ Modes: unix.ADJ_FREQUENCY, Freq: unixutil.ScaledPPMFromFreq(frequency)}"),  -- FreqDrift.scaledPPMFromFreq: Freq field (C18_leaf_ScaledPPMFromFreq); Modes ADJ_FREQUENCY, call site in no model
  (1, "_, err := unix.ClockAdjtime(unix.CLOCK_REALTIME, &tx)"),  -- env: kernel call clock_adjtime; what the kernel does with it is outside the property (SysClock.lean header)
  (1, "if err != nil"),  -- env: syscall failure ends the process (logbase.Fatal); models cover only executions in which the wrapper returns
  (2, "logbase.Fatal(log, \"unix.ClockAdjtime failed\", slog.Any(\"error\", err))")  -- env: process exit through logbase.Fatal
  ]

/-- driver/clocks, SystemClock.Epoch -/
def SysClock.SystemClock_Epoch : List Row := [
  (0, "func (c *SystemClock) Epoch() uint64"),  -- SysClock.epoch: harness c19clk op sc.epoch; pin C19_pin_sysclk_epoch_sleep (epochSource)
  (1, "c.mu.Lock()"),  -- SysClock.apply: methods hold c.mu, interleaving at method granularity; pin C19_pin_sysclk_epoch_sleep
  (1, "defer c.mu.Unlock()"),  -- SysClock.apply: lock released on return; pin C19_pin_sysclk_epoch_sleep (epochSource)
  (1, "return c.epoch")  -- SysClock.epoch: c.epoch (read by PllClock.update as clkEpoch)
  ]

/-- driver/clocks, SystemClock.Now -/
def SysClock.SystemClock_Now : List Row := [
  (0, "func (c *SystemClock) Now() time.Time"),  -- Pll.step / PllClock.update: argument now (l.clk.Now() stays an input; harness c19clk scripts Now())
  (1, "return now(c.log)")  -- PllClock.update: argument now (the value is produced by the wrapper now(), which is env)
  ]

/-- driver/clocks, SystemClock.Drift -/
def SysClock.SystemClock_Drift : List Row := [
  (0, "func (c *SystemClock) Drift(duration time.Duration) time.Duration"),  -- FreqDrift.drift (= F64P_UnixutilFloat.drift): LeafC18.C18_leaf_Drift; harness op ux.drift
  (1, "if c.drift == UnknownDrift"),  -- FreqDrift.drift: if beq cdrift unknownDrift (IEEE ==: both zeros match, NaN does not)
  (2, "return math.MaxInt64"),  -- FreqDrift.drift: 9223372036854775807 (C18_drift_unknown)
  (1, "return timemath.Duration(duration.Seconds() * c.drift)")  -- FreqDrift.drift: duration (mul (durationSeconds d) cdrift) (= F64.toDuration; C18_drift_proportional)
  ]

/-- driver/clocks, SystemClock.Step -/
def SysClock.SystemClock_Step : List Row := [
  (0, "func (c *SystemClock) Step(offset time.Duration)"),  -- SysClock.step: harness c19clk op sc.step; pin C19_pin_sysclk_step (stepSource, statement for statement)
  (1, "c.mu.Lock()"),  -- SysClock.apply: methods hold c.mu, interleaving at method granularity; pin C19_pin_sysclk_step (stepSource)
  (1, "defer c.mu.Unlock()"),  -- SysClock.step: Outcome.panic carries state and actions reached, deferred unlock runs; pin C19_pin_sysclk_step
  (1, "if c.adjustment != nil"),  -- SysClock.cancelActs: match c.adjustment with | some a
  (2, "setFrequency(c.log, c.adjustment.afterFreq)"),  -- SysClock.cancelActs: [.setFrequency a.afterFreq]
  (2, "c.adjustment = nil"),  -- SysClock.step: { c with adjustment := none } (unconditional in the model, same effect); pin C19_pin_sysclk_writers
  (1, "setOffset(c.log, offset)"),  -- SysClock.step: acts ++ [.setOffset offset]; pin C19_pin_sysclk_step (one call, before the epoch increment)
  (1, "if c.epoch == math.MaxUint64"),  -- SysClock.step: if c.epoch = maxU64
  (2, "panic(\"epoch overflow\")"),  -- SysClock.step: .panic .epochOverflow c acts (after the calls, registration cleared; C19_clock_step_overflow)
  (1, "c.epoch++")  -- SysClock.step: epoch := c.epoch + 1; pins sysclk_step_epochWrites = 1, sysclk_epochWriters = [Step]
  ]

/-- driver/clocks, SystemClock.Adjust -/
def SysClock.SystemClock_Adjust : List Row := [
  (0, "func (c *SystemClock) Adjust(offset, duration time.Duration, frequency float64)"),  -- SysClock.adjust: harness c19clk op sc.adjust; pin C19_pin_sysclk_adjust (adjustSource, statement for statement)
  (1, "c.mu.Lock()"),  -- SysClock.apply: methods hold c.mu, interleaving at method granularity; pin C19_pin_sysclk_adjust (adjustSource)
  (1, "defer c.mu.Unlock()"),  -- SysClock.adjust: Outcome.panic carries the state reached, the deferred unlock runs; pin C19_pin_sysclk_adjust
  (1, "if c.adjustment != nil"),  -- SysClock.adjust: let c := { c with adjustment := none } (unconditional in the model, same effect)
  (2, "c.adjustment = nil"),  -- SysClock.adjust: adjustment := none (before the duration check, so a panic leaves it cleared)
  (1, "if duration < 0"),  -- SysClock.adjust: if duration < 0
  (2, "panic(\"invalid duration value\")"),  -- SysClock.adjust: .panic .invalidDuration c [] (C19_clock_adjust_epoch)
  (1, "duration = duration / time.Second * time.Second"),  -- SysClock.normDuration: Int.tdiv duration second * second
  (1, "if duration == 0"),  -- SysClock.normDuration: if d = 0
  (2, "duration = time.Second"),  -- SysClock.normDuration: then second
  (1, "setFrequency(c.log, frequency+offset.Seconds()/duration.Seconds())"),  -- SysClock.slewFrequency: add frequency (div (durationSeconds offset) (durationSeconds d)); action .setFrequency
  (1, "c.adjustment = &adjustment{ clock: c, duration: duration, afterFreq: frequency}"),  -- SysClock.adjust: a := { id := c.nextId (ghost pointer identity), duration := d, afterFreq }; adjustment := some a
  (1, "go func(log *slog.Logger, adj *adjustment) {…}(c.log, c.adjustment)"),  -- SysClock.adjust: action .spawn a.id d, pending := c.pending ++ [a]; pin sysclk_adjust_goroutine (with args)
  (2, "func literal 1"),  -- SysClock.expire: the goroutine's tail after its sleep, an op of its own (Op.expire id); pin goroutineSource
  (3, "sleep(log, adj.duration)"),  -- SysClock.Action.spawn id duration: the goroutine's first statement; its end is the scheduler's Op.expire
  (3, "adj.clock.mu.Lock()"),  -- SysClock.expire: runs under c.mu, interleaves with the methods at method granularity; pin goroutineSource
  (3, "defer adj.clock.mu.Unlock()"),  -- SysClock.expire: lock released when the goroutine ends; pin goroutineSource
  (3, "if adj == adj.clock.adjustment"),  -- SysClock.expire: match c.adjustment | some cur => if cur.id = a.id (pointer comparison as ghost ids; ClockWF)
  (4, "setFrequency(log, adj.afterFreq)")  -- SysClock.expire: [.setFrequency a.afterFreq]; c.adjustment is not cleared on expiry (C19_clock_expire)
  ]

/-- driver/clocks, SystemClock.Sleep -/
def SysClock.SystemClock_Sleep : List Row := [
  (0, "func (c *SystemClock) Sleep(duration time.Duration)"),  -- SysClock.sleep: harness c19clk op sc.sleep; pin C19_pin_sysclk_epoch_sleep (sleepSource; log line = .sleepLog)
  (1, "if duration < 0"),  -- SysClock.sleep: if duration < 0
  (2, "panic(\"invalid duration value\")"),  -- SysClock.sleep: .panic .invalidDuration c [.sleepLog duration] (the log record precedes the check)
  (1, "sleep(c.log, duration)")  -- SysClock.sleep: .ok c [.sleepLog duration, .sleep duration] (C19_clock_sleep)
  ]

end ScionTime.Model.Skel
