/-
  Control skeletons of core/server as the models were written against them
  (notes/SKEL.md).  Each row: (depth, canonical text) as rendered by harness/extract/skeleton.go,
  followed by the model definition / branch that mirrors the statement.  Regenerated rows:
  Gen/SkelC20.lean; pins: Props/SkelC20.lean.  Core Lean only.
-/
import ScionTime.Model.Skel.Basic

namespace ScionTime.Model.Skel

/-- core/server, newNTSKEMsg -/
def NtskeSrv.newNTSKEMsg : List Row := [
  (0, "func newNTSKEMsg(ctx context.Context, log *slog.Logger, localIP net.IP, localPort int, data *ntske.Data, provider *ntske.Provider) ( ntske.ExchangeMsg, error)"),  -- Ntske.serverMsg: with NtskeSrv.sealCookies for the cookie loop; harness c20 op srv.msg, c20srv op ks.req
  (1, "var msg ntske.ExchangeMsg"),  -- Ntske.serverMsg: the record list being built
  (1, "msg.AddRecord(ntske.NextProto{ NextProto: ntske.NTPv4})"),  -- Ntske.serverMsg: .nextProto ntpv4 (pin C20_pin_algorithm)
  (1, "msg.AddRecord(ntske.Algorithm{ Algo: []uint16{ntske.AES_SIV_CMAC_256}})"),  -- Ntske.serverMsg: .algorithm [aesSivCmac256], whatever the request offered (C20Srv_request_content_ignored)
  (1, "msg.AddRecord(ntske.Server{ Addr: []byte(localIP.String())})"),  -- Ntske.serverMsg: .server ip false, ip = NtskeSrv.Conn.localIP = bytes of localIP.String() (not critical)
  (1, "msg.AddRecord(ntske.Port{ Port: uint16(localPort)})"),  -- Ntske.serverMsg: .port (port % 65536) false, port = NtskeSrv.Conn.localPort (uint16 truncation; not critical)
  (1, "var plaintextCookie ntske.ServerCookie"),  -- NtskeSrv.sealOne: the Triple (aesSivCmac256, s2c, c2s) passed to encryptCookie
  (1, "plaintextCookie.Algo = ntske.AES_SIV_CMAC_256"),  -- NtskeSrv.sealOne: Triple.num := aesSivCmac256
  (1, "plaintextCookie.C2S = data.C2sKey"),  -- NtskeSrv.sealOne: Triple.y := c2s (exporter value of this session; C20Srv_cookies_open_to_session_keys)
  (1, "plaintextCookie.S2C = data.S2cKey"),  -- NtskeSrv.sealOne: Triple.x := s2c (exporter value of this session)
  (1, "key := provider.Current()"),  -- Provider.useStep: | .ke t1 t2 => current P s t1 t2 (pin C12_pin_keyUse_newNTSKEMsg); NtskeSrv.sealCookies: key, keyid
  (1, "addedCookie := false"),  -- Ntske.serverMsg: cookies.isEmpty (the flag = at least one attempt succeeded)
  (1, "for range 8"),  -- NtskeSrv.sealCookies: nonces.map over numCookies = 8 draws (pin C20Srv_pin_handlers: ntskeCookieAttempts); Conn.cookies
  (2, "encryptedCookie, err := plaintextCookie.EncryptWithNonce(key.Value, key.ID)"),  -- NtskeSrv.sealOne: encryptCookie A triple key keyid n (Model/Cookies Nts.encryptCookie; nonce = none: rand.Read failed)
  (2, "if err != nil"),  -- NtskeSrv.sealOne: | none => none and | _ => none (key size error)
  (3, "continue"),  -- NtskeSrv.verdict: c.cookies.filterMap id: a failed attempt is skipped, the other attempts still run
  (2, "b := encryptedCookie.Encode()"),  -- NtskeSrv.sealOne: some (ecEncode ec) (Model/Cookies Nts.ecEncode)
  (2, "msg.AddRecord(ntske.Cookie{ Cookie: b})"),  -- Ntske.serverMsg: cookies.map .cookie, in the order of the attempts (never critical)
  (2, "addedCookie = true"),  -- Ntske.serverMsg: cookies not empty
  (1, "if !addedCookie"),  -- Ntske.serverMsg: if cookies.isEmpty
  (2, "return ntske.ExchangeMsg{}, errNoCookie"),  -- Ntske.serverMsg: none; NtskeSrv.verdict: .noCookie (errNoCookie)
  (1, "msg.AddRecord(ntske.End{})"),  -- Ntske.serverMsg: ++ [.end_]
  (1, "return msg, nil")  -- Ntske.serverMsg: some (...); NtskeSrv.verdict: .respond msg (C20Srv_response_shape)
  ]

/-- core/server, writeNTSKEErrorMsgTLS -/
def NtskeSrv.writeNTSKEErrorMsgTLS : List Row := [
  (0, "func writeNTSKEErrorMsgTLS(ctx context.Context, log *slog.Logger, conn *tls.Conn, code int)"),  -- NtskeSrv.errorMsg: packMsg [.error code] (C20Srv_error_messages: the bytes); harness c20srv op ks.req (answer ok error=)
  (1, "var msg ntske.ExchangeMsg"),  -- NtskeSrv.errorMsg: the record list being built
  (1, "msg.AddRecord(ntske.Error{ Code: uint16(code)})"),  -- NtskeSrv.errorMsg: [.error code] (Rec.pack .error: critical, u16 code = uint16 truncation)
  (1, "buf, err := msg.Pack()"),  -- NtskeSrv.errorMsg: packMsg (Ntske.Rec.pack, packHeader)
  (1, "if err != nil"),  -- Ntske.packMsg: total - no Pack-error branch in the model (binary.Write into a bytes.Buffer cannot fail here)
  (2, "return"),  -- Ntske.packMsg: total - dead branch, nothing in the model
  (1, "n, err := conn.Write(buf.Bytes())"),  -- NtskeSrv.Verdict.out: .wrote (errorMsg ...): the whole message handed to one conn.Write; the send is env
  (1, "if err != nil || n != buf.Len()"),  -- env: outcome of the write (error or short count) is only logged; nothing follows in either case
  (2, "return")  -- env: return after logging; same as falling off the end
  ]

/-- core/server, handleKeyExchangeTLS -/
def NtskeSrv.handleKeyExchangeTLS : List Row := [
  (0, "func handleKeyExchangeTLS(ctx context.Context, log *slog.Logger, conn *tls.Conn, localPort int, provider *ntske.Provider)"),  -- NtskeSrv.handle: (verdict c).out with c.quic = false; harness c20srv ops ks.req, ks.held tr=tls; c20 op e2e.fetch
  (1, "defer conn.Close()"),  -- pin C20Srv_pin_handlers (x_c14c20srv.go): ntskeTLSDefer = conn.Close(), the only defer; Out: closed in every case
  (1, "var err error"),  -- env: variable declaration
  (1, "var data ntske.Data"),  -- env: variable declaration (NtskeSrv.verdict: readData c.request {} starts from the zero Data)
  (1, "reader := bufio.NewReader(conn)"),  -- pin C20Srv_pin_handlers (x_c14c20srv.go): ntskeTLSReaderArg = bufio.NewReader(conn), ntskeTLSConnReads = 0
  (1, "err = ntske.ReadData(ctx, log, reader, &data)"),  -- NtskeSrv.verdict: readData c.request {} (C20Srv_segmentation_independent; the decoded Data is not looked at)
  (1, "if err != nil"),  -- NtskeSrv.verdict: | (_, some e) => .badRequest e
  (2, "writeNTSKEErrorMsgTLS(ctx, log, conn, ntske.ErrorCodeBadRequest)"),  -- NtskeSrv.Verdict.out: | .badRequest _ => .wrote (errorMsg errBadRequest); pin C20Srv_pin_handlers: ntskeTLSReadErrCode
  (2, "return"),  -- NtskeSrv.handle: nothing else written; deferred close follows
  (1, "err = ntske.ExportKeys(conn.ConnectionState(), &data)"),  -- NtskeSrv.verdict: c.exportOk, c.c2s, c.s2c (exporter outputs of the TLS session are inputs)
  (1, "if err != nil"),  -- NtskeSrv.verdict: if !c.exportOk
  (2, "writeNTSKEErrorMsgTLS(ctx, log, conn, ntske.ErrorCodeInternalServer)"),  -- NtskeSrv.Verdict.out: | .exportFailed => .wrote (errorMsg errInternalServer) (pin C20Srv_pin_error_codes)
  (2, "return"),  -- NtskeSrv.handle: nothing else written; deferred close follows
  (1, "localIP := conn.LocalAddr().(*net.TCPAddr).IP"),  -- env: local address of the accepted TCP connection; enters as NtskeSrv.Conn.localIP (its String() bytes)
  (1, "msg, err := newNTSKEMsg(ctx, log, localIP, localPort, &data, provider)"),  -- NtskeSrv.verdict: serverMsg c.localIP c.localPort (c.cookies.filterMap id); cookies = sealCookies under Provider.current
  (1, "if err != nil"),  -- NtskeSrv.verdict: | none => .noCookie
  (2, "writeNTSKEErrorMsgTLS(ctx, log, conn, ntske.ErrorCodeInternalServer)"),  -- NtskeSrv.Verdict.out: | .noCookie => .wrote (errorMsg errInternalServer)
  (2, "return"),  -- NtskeSrv.handle: nothing else written; deferred close follows
  (1, "buf, err := msg.Pack()"),  -- NtskeSrv.Verdict.out: | .respond msg => packMsg msg (Ntske.packMsg)
  (1, "if err != nil"),  -- Ntske.packMsg: total - no Pack-error branch, NtskeSrv.Verdict has no constructor for it (cannot fail for these records)
  (2, "writeNTSKEErrorMsgTLS(ctx, log, conn, ntske.ErrorCodeInternalServer)"),  -- Ntske.packMsg: total - dead branch (would write the internal-error record), nothing in the model
  (2, "return"),  -- Ntske.packMsg: total - dead branch, nothing in the model
  (1, "n, err := conn.Write(buf.Bytes())"),  -- NtskeSrv.Verdict.out: .wrote (packMsg msg): whole response in one conn.Write (C20Srv_response_shape); the send is env
  (1, "if err != nil || n != buf.Len()"),  -- env: outcome of the write (error or short count) is only logged; handler ends and closes either way
  (2, "return")  -- env: return after logging; same as falling off the end
  ]

/-- core/server, runNTSKEServerTLS -/
def NtskeSrv.runNTSKEServerTLS : List Row := [
  (0, "func runNTSKEServerTLS(ctx context.Context, log *slog.Logger, listener net.Listener, localPort int, provider *ntske.Provider)"),  -- NtskeSrv.handle: one Conn per accepted connection; Provider.useExec: one Use.ke per answer; the loop: Model/AcceptLoop.lean
  (1, "defer listener.Close()"),  -- env: deferred listener.Close() (never reached: the loop has no exit)
  (1, "for"),  -- AcceptLoop.loop: one AcceptLoop.body per result of Accept, no exit (C08Accept_never_exits); Provider.useExec: history of Use.ke, one per served connection
  (2, "conn, err := ntske.AcceptTLSConn(listener)"),  -- env: TCP accept = one AcceptLoop.Acc (AcceptTLSConn: no handshake here, it runs at the first Read of the handler); one NtskeSrv.Conn each
  (2, "if err != nil"),  -- AcceptLoop.body: | .tempErr | .closed => .logErr (no backoff, no exit on a closed listener, ctx unused: C08Accept_closed_spins)
  (3, "continue"),  -- AcceptLoop.body: next result (C08Accept_temp_errors_lose_nothing)
  (2, "go handleKeyExchangeTLS(ctx, log, conn, localPort, provider)")  -- AcceptLoop.body: | .conn c => .spawn c; AcceptLoop.answers NtskeSrv.handle (C08Accept_serves_exactly_the_accepted, _genuine_after_storm); one goroutine each - harness c20srv ops ks.held, ks.storm
  ]

/-- core/server, writeNTSKEErrorMsgQUIC -/
def NtskeSrv.writeNTSKEErrorMsgQUIC : List Row := [
  (0, "func writeNTSKEErrorMsgQUIC(ctx context.Context, log *slog.Logger, stream quic.Stream, code int)"),  -- NtskeSrv.errorMsg: packMsg [.error code] (C20Srv_error_messages: the bytes); harness c20srv op ks.req (answer ok error=)
  (1, "var msg ntske.ExchangeMsg"),  -- NtskeSrv.errorMsg: the record list being built
  (1, "msg.AddRecord(ntske.Error{ Code: uint16(code)})"),  -- NtskeSrv.errorMsg: [.error code] (Rec.pack .error: critical, u16 code = uint16 truncation)
  (1, "buf, err := msg.Pack()"),  -- NtskeSrv.errorMsg: packMsg (Ntske.Rec.pack, packHeader)
  (1, "if err != nil"),  -- Ntske.packMsg: total - no Pack-error branch in the model (binary.Write into a bytes.Buffer cannot fail here)
  (2, "return"),  -- Ntske.packMsg: total - dead branch, nothing in the model
  (1, "n, err := stream.Write(buf.Bytes())"),  -- NtskeSrv.Verdict.out: .wrote (errorMsg ...): the whole message handed to one stream.Write; the send is env
  (1, "if err != nil || n != buf.Len()"),  -- env: outcome of the write (error or short count) is only logged; nothing follows in either case
  (2, "return")  -- env: return after logging; same as falling off the end
  ]

/-- core/server, handleKeyExchangeQUIC -/
def NtskeSrv.handleKeyExchangeQUIC : List Row := [
  (0, "func handleKeyExchangeQUIC(ctx context.Context, log *slog.Logger, conn quic.Connection, localPort int, provider *ntske.Provider) error"),  -- NtskeSrv.handle: (verdict c).out, c.quic = true (C20Srv_quic_same_as_tls); harness c20srv op ks.req tr=quic
  (1, "stream, err := conn.AcceptStream(context.Background())"),  -- NtskeSrv.verdict: c.streamOk (AcceptStream with context.Background(): waits without deadline; result is an input)
  (1, "if err != nil"),  -- NtskeSrv.verdict: if c.quic and !c.streamOk
  (2, "return err"),  -- NtskeSrv.verdict: .noStream; Verdict.out: .silent (the error goes to the caller, which only logs it)
  (1, "defer stream.Close()"),  -- pin C20Srv_pin_handlers (x_c14c20srv.go): ntskeQUICDefer = stream.Close(), the only defer (connection not closed)
  (1, "var data ntske.Data"),  -- env: variable declaration (NtskeSrv.verdict: readData c.request {} starts from the zero Data)
  (1, "reader := bufio.NewReader(stream)"),  -- pin C20Srv_pin_handlers (x_c14c20srv.go): ntskeQUICReaderArg = bufio.NewReader(stream), ntskeQUICStreamReads = 0
  (1, "err = ntske.ReadData(ctx, log, reader, &data)"),  -- NtskeSrv.verdict: readData c.request {} (C20Srv_segmentation_independent; the decoded Data is not looked at)
  (1, "if err != nil"),  -- NtskeSrv.verdict: | (_, some e) => .badRequest e
  (2, "writeNTSKEErrorMsgQUIC(ctx, log, stream, ntske.ErrorCodeBadRequest)"),  -- NtskeSrv.Verdict.out: | .badRequest _ => .wrote (errorMsg errBadRequest); pin C20Srv_pin_handlers: ntskeQUICReadErrCode
  (2, "return err"),  -- NtskeSrv.handle: nothing else written; the returned error is only logged by runNTSKEServerQUIC
  (1, "err = ntske.ExportKeys(conn.ConnectionState().TLS, &data)"),  -- NtskeSrv.verdict: c.exportOk, c.c2s, c.s2c (exporter outputs of the QUIC TLS session are inputs)
  (1, "if err != nil"),  -- NtskeSrv.verdict: if !c.exportOk
  (2, "writeNTSKEErrorMsgQUIC(ctx, log, stream, ntske.ErrorCodeInternalServer)"),  -- NtskeSrv.Verdict.out: | .exportFailed => .wrote (errorMsg errInternalServer) (pin C20Srv_pin_error_codes)
  (2, "return err"),  -- NtskeSrv.handle: nothing else written; the returned error is only logged by the caller
  (1, "localIP := conn.LocalAddr().(udp.UDPAddr).Host.IP"),  -- env: local SCION/UDP address of the connection (type assertion on the listener address); enters as NtskeSrv.Conn.localIP
  (1, "msg, err := newNTSKEMsg(ctx, log, localIP, localPort, &data, provider)"),  -- NtskeSrv.verdict: serverMsg c.localIP c.localPort (c.cookies.filterMap id); cookies = sealCookies under Provider.current
  (1, "if err != nil"),  -- NtskeSrv.verdict: | none => .noCookie
  (2, "writeNTSKEErrorMsgQUIC(ctx, log, stream, ntske.ErrorCodeInternalServer)"),  -- NtskeSrv.Verdict.out: | .noCookie => .wrote (errorMsg errInternalServer)
  (2, "return err"),  -- NtskeSrv.handle: nothing else written; the returned error is only logged by the caller
  (1, "buf, err := msg.Pack()"),  -- NtskeSrv.Verdict.out: | .respond msg => packMsg msg (Ntske.packMsg)
  (1, "if err != nil"),  -- Ntske.packMsg: total - no Pack-error branch, NtskeSrv.Verdict has no constructor for it (cannot fail for these records)
  (2, "writeNTSKEErrorMsgQUIC(ctx, log, stream, ntske.ErrorCodeInternalServer)"),  -- Ntske.packMsg: total - dead branch (would write the internal-error record), nothing in the model
  (2, "return err"),  -- Ntske.packMsg: total - dead branch, nothing in the model
  (1, "_, err = stream.Write(buf.Bytes())"),  -- NtskeSrv.Verdict.out: .wrote (packMsg msg): whole response in one stream.Write (byte count dropped); the send is env
  (1, "if err != nil"),  -- env: write error is returned to the caller, which only logs it; the deferred stream.Close() follows either way
  (2, "return err"),  -- env: return of the write error (only logged by runNTSKEServerQUIC)
  (1, "return nil")  -- NtskeSrv.handle: .wrote (packMsg msg), then the deferred stream.Close()
  ]

/-- core/server, runNTSKEServerQUIC -/
def NtskeSrv.runNTSKEServerQUIC : List Row := [
  (0, "func runNTSKEServerQUIC(ctx context.Context, log *slog.Logger, listener *scion.QUICListener, localPort int, provider *ntske.Provider)"),  -- NtskeSrv.handle: one Conn per accepted connection; Provider.useExec: one Use.ke per answer; the loop: Model/AcceptLoop.lean
  (1, "defer listener.Close()"),  -- env: deferred listener.Close() (never reached: the loop has no exit)
  (1, "for"),  -- AcceptLoop.loop: one AcceptLoop.body per result of Accept, no exit (C08Accept_never_exits); Provider.useExec: history of Use.ke, one per served connection
  (2, "conn, err := listener.Accept(ctx)"),  -- env: QUIC accept with ctx = one AcceptLoop.Acc (handshake done by the QUIC stack: failed handshakes and garbage datagrams never get here); each connection = one NtskeSrv.Conn with quic = true
  (2, "if err != nil"),  -- AcceptLoop.body: | .tempErr | .closed => .logErr (no backoff; after ctx is cancelled Accept fails forever without blocking: C08Accept_closed_spins)
  (3, "continue"),  -- AcceptLoop.body: next result
  (2, "go func() {…}()"),  -- AcceptLoop.body: | .conn c => .spawn c; AcceptLoop.answers NtskeSrv.handle; harness c20srv ops ks.held / ks.storm tr=quic run it
  (3, "func literal 1"),  -- env: body of the goroutine
  (4, "err := handleKeyExchangeQUIC(ctx, log, conn, localPort, provider)"),  -- NtskeSrv.handle: c with quic = true; the returned error carries nothing the model needs (Out says what was written)
  (4, "var errApplication *quic.ApplicationError"),  -- env: variable declaration
  (4, "if err != nil && !(errors.As(err, &errApplication) && errApplication.ErrorCode == 0)")  -- env: decides only whether the error is logged (application error code 0 = orderly close by the client is not)
  ]

end ScionTime.Model.Skel
