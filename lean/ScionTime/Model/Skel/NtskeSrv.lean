/-
  Control skeletons of core/server as the models were written against them
  (notes/SKEL.md).  Each row: (depth, canonical text) as rendered by harness/extract/skeleton.go,
  followed by the model definition / branch that mirrors the statement.  Regenerated rows:
  Gen/SkelC20.lean; pins: Props/SkelC20.lean.  Core Lean only.
-/
import ScionTime.Model.Skel.Basic

namespace ScionTime.Model.Skel

/-- core/server, newNTSKEMsg -/
def NtskeSrv.newNTSKEMsg : List Row := [
  (0, "func newNTSKEMsg(ctx context.Context, log *slog.Logger, localIP net.IP, localPort int, data *ntske.Data, provider *ntske.Provider) ( ntske.ExchangeMsg, error)"),  -- ?
  (1, "var msg ntske.ExchangeMsg"),  -- ?
  (1, "msg.AddRecord(ntske.NextProto{ NextProto: ntske.NTPv4})"),  -- ?
  (1, "msg.AddRecord(ntske.Algorithm{ Algo: []uint16{ntske.AES_SIV_CMAC_256}})"),  -- ?
  (1, "msg.AddRecord(ntske.Server{ Addr: []byte(localIP.String())})"),  -- ?
  (1, "msg.AddRecord(ntske.Port{ Port: uint16(localPort)})"),  -- ?
  (1, "var plaintextCookie ntske.ServerCookie"),  -- ?
  (1, "plaintextCookie.Algo = ntske.AES_SIV_CMAC_256"),  -- ?
  (1, "plaintextCookie.C2S = data.C2sKey"),  -- ?
  (1, "plaintextCookie.S2C = data.S2cKey"),  -- ?
  (1, "key := provider.Current()"),  -- ?
  (1, "addedCookie := false"),  -- ?
  (1, "for range 8"),  -- ?
  (2, "encryptedCookie, err := plaintextCookie.EncryptWithNonce(key.Value, key.ID)"),  -- ?
  (2, "if err != nil"),  -- ?
  (3, "continue"),  -- ?
  (2, "b := encryptedCookie.Encode()"),  -- ?
  (2, "msg.AddRecord(ntske.Cookie{ Cookie: b})"),  -- ?
  (2, "addedCookie = true"),  -- ?
  (1, "if !addedCookie"),  -- ?
  (2, "return ntske.ExchangeMsg{}, errNoCookie"),  -- ?
  (1, "msg.AddRecord(ntske.End{})"),  -- ?
  (1, "return msg, nil")  -- ?
  ]

/-- core/server, writeNTSKEErrorMsgTLS -/
def NtskeSrv.writeNTSKEErrorMsgTLS : List Row := [
  (0, "func writeNTSKEErrorMsgTLS(ctx context.Context, log *slog.Logger, conn *tls.Conn, code int)"),  -- ?
  (1, "var msg ntske.ExchangeMsg"),  -- ?
  (1, "msg.AddRecord(ntske.Error{ Code: uint16(code)})"),  -- ?
  (1, "buf, err := msg.Pack()"),  -- ?
  (1, "if err != nil"),  -- ?
  (2, "return"),  -- ?
  (1, "n, err := conn.Write(buf.Bytes())"),  -- ?
  (1, "if err != nil || n != buf.Len()"),  -- ?
  (2, "return")  -- ?
  ]

/-- core/server, handleKeyExchangeTLS -/
def NtskeSrv.handleKeyExchangeTLS : List Row := [
  (0, "func handleKeyExchangeTLS(ctx context.Context, log *slog.Logger, conn *tls.Conn, localPort int, provider *ntske.Provider)"),  -- ?
  (1, "defer conn.Close()"),  -- ?
  (1, "var err error"),  -- ?
  (1, "var data ntske.Data"),  -- ?
  (1, "reader := bufio.NewReader(conn)"),  -- ?
  (1, "err = ntske.ReadData(ctx, log, reader, &data)"),  -- ?
  (1, "if err != nil"),  -- ?
  (2, "writeNTSKEErrorMsgTLS(ctx, log, conn, ntske.ErrorCodeBadRequest)"),  -- ?
  (2, "return"),  -- ?
  (1, "err = ntske.ExportKeys(conn.ConnectionState(), &data)"),  -- ?
  (1, "if err != nil"),  -- ?
  (2, "writeNTSKEErrorMsgTLS(ctx, log, conn, ntske.ErrorCodeInternalServer)"),  -- ?
  (2, "return"),  -- ?
  (1, "localIP := conn.LocalAddr().(*net.TCPAddr).IP"),  -- ?
  (1, "msg, err := newNTSKEMsg(ctx, log, localIP, localPort, &data, provider)"),  -- ?
  (1, "if err != nil"),  -- ?
  (2, "writeNTSKEErrorMsgTLS(ctx, log, conn, ntske.ErrorCodeInternalServer)"),  -- ?
  (2, "return"),  -- ?
  (1, "buf, err := msg.Pack()"),  -- ?
  (1, "if err != nil"),  -- ?
  (2, "writeNTSKEErrorMsgTLS(ctx, log, conn, ntske.ErrorCodeInternalServer)"),  -- ?
  (2, "return"),  -- ?
  (1, "n, err := conn.Write(buf.Bytes())"),  -- ?
  (1, "if err != nil || n != buf.Len()"),  -- ?
  (2, "return")  -- ?
  ]

/-- core/server, runNTSKEServerTLS -/
def NtskeSrv.runNTSKEServerTLS : List Row := [
  (0, "func runNTSKEServerTLS(ctx context.Context, log *slog.Logger, listener net.Listener, localPort int, provider *ntske.Provider)"),  -- ?
  (1, "defer listener.Close()"),  -- ?
  (1, "for"),  -- ?
  (2, "conn, err := ntske.AcceptTLSConn(listener)"),  -- ?
  (2, "if err != nil"),  -- ?
  (3, "continue"),  -- ?
  (2, "go handleKeyExchangeTLS(ctx, log, conn, localPort, provider)")  -- ?
  ]

/-- core/server, writeNTSKEErrorMsgQUIC -/
def NtskeSrv.writeNTSKEErrorMsgQUIC : List Row := [
  (0, "func writeNTSKEErrorMsgQUIC(ctx context.Context, log *slog.Logger, stream quic.Stream, code int)"),  -- ?
  (1, "var msg ntske.ExchangeMsg"),  -- ?
  (1, "msg.AddRecord(ntske.Error{ Code: uint16(code)})"),  -- ?
  (1, "buf, err := msg.Pack()"),  -- ?
  (1, "if err != nil"),  -- ?
  (2, "return"),  -- ?
  (1, "n, err := stream.Write(buf.Bytes())"),  -- ?
  (1, "if err != nil || n != buf.Len()"),  -- ?
  (2, "return")  -- ?
  ]

/-- core/server, handleKeyExchangeQUIC -/
def NtskeSrv.handleKeyExchangeQUIC : List Row := [
  (0, "func handleKeyExchangeQUIC(ctx context.Context, log *slog.Logger, conn quic.Connection, localPort int, provider *ntske.Provider) error"),  -- ?
  (1, "stream, err := conn.AcceptStream(context.Background())"),  -- ?
  (1, "if err != nil"),  -- ?
  (2, "return err"),  -- ?
  (1, "defer stream.Close()"),  -- ?
  (1, "var data ntske.Data"),  -- ?
  (1, "reader := bufio.NewReader(stream)"),  -- ?
  (1, "err = ntske.ReadData(ctx, log, reader, &data)"),  -- ?
  (1, "if err != nil"),  -- ?
  (2, "writeNTSKEErrorMsgQUIC(ctx, log, stream, ntske.ErrorCodeBadRequest)"),  -- ?
  (2, "return err"),  -- ?
  (1, "err = ntske.ExportKeys(conn.ConnectionState().TLS, &data)"),  -- ?
  (1, "if err != nil"),  -- ?
  (2, "writeNTSKEErrorMsgQUIC(ctx, log, stream, ntske.ErrorCodeInternalServer)"),  -- ?
  (2, "return err"),  -- ?
  (1, "localIP := conn.LocalAddr().(udp.UDPAddr).Host.IP"),  -- ?
  (1, "msg, err := newNTSKEMsg(ctx, log, localIP, localPort, &data, provider)"),  -- ?
  (1, "if err != nil"),  -- ?
  (2, "writeNTSKEErrorMsgQUIC(ctx, log, stream, ntske.ErrorCodeInternalServer)"),  -- ?
  (2, "return err"),  -- ?
  (1, "buf, err := msg.Pack()"),  -- ?
  (1, "if err != nil"),  -- ?
  (2, "writeNTSKEErrorMsgQUIC(ctx, log, stream, ntske.ErrorCodeInternalServer)"),  -- ?
  (2, "return err"),  -- ?
  (1, "_, err = stream.Write(buf.Bytes())"),  -- ?
  (1, "if err != nil"),  -- ?
  (2, "return err"),  -- ?
  (1, "return nil")  -- ?
  ]

/-- core/server, runNTSKEServerQUIC -/
def NtskeSrv.runNTSKEServerQUIC : List Row := [
  (0, "func runNTSKEServerQUIC(ctx context.Context, log *slog.Logger, listener *scion.QUICListener, localPort int, provider *ntske.Provider)"),  -- ?
  (1, "defer listener.Close()"),  -- ?
  (1, "for"),  -- ?
  (2, "conn, err := listener.Accept(ctx)"),  -- ?
  (2, "if err != nil"),  -- ?
  (3, "continue"),  -- ?
  (2, "go func() {…}()"),  -- ?
  (3, "func literal 1"),  -- ?
  (4, "err := handleKeyExchangeQUIC(ctx, log, conn, localPort, provider)"),  -- ?
  (4, "var errApplication *quic.ApplicationError"),  -- ?
  (4, "if err != nil && !(errors.As(err, &errApplication) && errApplication.ErrorCode == 0)")  -- ?
  ]

end ScionTime.Model.Skel
