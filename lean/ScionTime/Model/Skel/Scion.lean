/-
  Control skeletons of net/scion as the models were written against them
  (notes/SKEL.md).  Each row: (depth, canonical text) as rendered by harness/extract/skeleton.go,
  followed by the model definition / branch that mirrors the statement.  Regenerated rows:
  Gen/SkelC13.lean; pins: Props/SkelC13.lean.  Core Lean only.
-/
import ScionTime.Model.Skel.Basic

namespace ScionTime.Model.Skel

/-- net/scion, UseMockKeys -/
def Scion.UseMockKeys : List Row := [
  (0, "func UseMockKeys() bool"),  -- Drkey.Cfg.mock / ScionSrv.Cfg.mockKeys: process-wide flag as configuration input; harness c13fk op fk.new checks it
  (1, "return useMockKeys")  -- Drkey.Cfg.mock: value fixed at process start (init reads USE_MOCK_KEYS; the env parsing itself is not modelled)
  ]

/-- net/scion, Fetcher.FetchHostASKey -/
def Scion.Fetcher_FetchHostASKey : List Row := [
  (0, "func (f *Fetcher) FetchHostASKey(ctx context.Context, meta drkey.HostASMeta) ( drkey.HostASKey, error)"),  -- Drkey.Fetcher.fetchHostAS cfg f m now ans (FetchRes); harness c13fk op fk.hak
  (1, "var err error"),  -- env: declaration; the error result is FetchRes.out = none
  (1, "hak, ok := f.haks[meta.DstIA]"),  -- Drkey.Fetcher.fetchHostAS: hit := f.lookup m.id.dstIA; pin C13_pin_fetcher (x_c13.go): fetcherLookupKey
  (1, "expired := ok && !hak.Epoch.Contains(meta.Validity)"),  -- Drkey.stale: !k.epoch.contains m.validity (both ends inclusive); pin C13_pin_fetcher: fetcherExpiredDef
  (1, "if !ok || expired || hak.ProtoId != meta.ProtoId || hak.SrcIA != meta.SrcIA || hak.DstIA != meta.DstIA || hak.SrcHost != meta.SrcHost"),  -- Drkey.stale hit m (none, or epoch / proto / srcIA / dstIA / srcHost differ); pin C13_pin_fetcher: refetch cond
  (2, "if useMockKeys"),  -- Drkey.Fetcher.fetchHostAS: if cfg.mock
  (3, "now := time.Now()"),  -- Drkey.Fetcher.fetchHostAS: argument now (read only on the mock path)
  (3, "hak = drkey.HostASKey{ ProtoId: meta.ProtoId, SrcIA: meta.SrcIA, DstIA: meta.DstIA, Epoch: drkey.Epoch{ Validity: cppki.Validity{ NotBefore: now.Add(-6 * time.Hour), NotAfter: now.Add(6 * time.Hour)}}, SrcHost: meta.SrcHost}"),  -- Drkey.Fetcher.fetchHostAS: some (m.id, epoch now -+ mockHalfValidityNs, zero key); pin fetcherMockOffsetsNs
  (2, "else"),  -- Drkey.Fetcher.fetchHostAS: else connectorFetch cfg.dc ans
  (3, "hak, err = FetchHostASKey(ctx, f.dc, meta)"),  -- Drkey.connectorFetch cfg.dc ans: (answer, asked); the daemon's answer ans is an input
  (2, "if err == nil"),  -- Drkey.Fetcher.fetchHostAS: match got | some k (| none => (f, none, asked, {}): error returned, nothing stored)
  (3, "f.haks[hak.DstIA] = hak"),  -- Drkey.Fetcher.insert k.id.dstIA k (the returned key's DstIA, unchecked); pin C13_pin_fetcher: fetcherStoreKey
  (3, "mtrcs := fetcherMtrcs.Load()"),  -- env: metrics handle; the three increments are Drkey.Counts (harness c13fk op fk.hak cnt=)
  (3, "if !ok"),  -- Drkey.Fetcher.fetchHostAS: cnt, match hit | none => inserted := 1
  (3, "else"),  -- Drkey.Fetcher.fetchHostAS: cnt, | some h => replaced := 1
  (4, "if expired"),  -- Drkey.Fetcher.fetchHostAS: cnt, expired := if !h.epoch.contains m.validity then 1 else 0
  (1, "return hak, err")  -- Drkey.FetchRes.out: hit (not stale: (f, hit, false, {})), some k, or none
  ]

/-- net/scion, Fetcher.FetchHostHostKey -/
def Scion.Fetcher_FetchHostHostKey : List Row := [
  (0, "func (f *Fetcher) FetchHostHostKey(ctx context.Context, meta drkey.HostHostMeta) ( drkey.HostHostKey, error)"),  -- Drkey.fetchHostHost cfg id now ans; harness c13fk op fk.hh; pin C13_pin_fetcher: fetcherHostHostUsesCache = false
  (1, "if useMockKeys"),  -- Drkey.fetchHostHost: if cfg.mock
  (2, "now := time.Now()"),  -- Drkey.fetchHostHost: argument now
  (2, "return drkey.HostHostKey{ ProtoId: meta.ProtoId, SrcIA: meta.SrcIA, DstIA: meta.DstIA, Epoch: drkey.Epoch{ Validity: cppki.Validity{ NotBefore: now.Add(-6 * time.Hour), NotAfter: now.Add(6 * time.Hour)}}, SrcHost: meta.SrcHost, DstHost: meta.DstHost}, nil"),  -- Drkey.fetchHostHost: (some (id, epoch now -+ mockHalfValidityNs, zero key), false); pin fetcherMockOffsetsNs
  (1, "return FetchHostHostKey(ctx, f.dc, meta)")  -- Drkey.fetchHostHost: else match cfg.dc (scion.FetchHostHostKey inlined: | .nil | .daemon)
  ]

/-- net/scion, NewFetcher -/
def Scion.NewFetcher : List Row := [
  (0, "func NewFetcher(c daemon.Connector) *Fetcher"),  -- Drkey.Fetcher (default haks := []) and Drkey.Cfg.dc; harness c13fk op fk.new
  (1, "return &Fetcher{ dc: c, haks: make(map[addr.IA]drkey.HostASKey)}")  -- Drkey.Fetcher: {} = empty cache (start of runCalls cfg {} cs); Drkey.Cfg.dc := c (Connector nil | daemon)
  ]

/-- net/scion, FetchHostASKey -/
def Scion.FetchHostASKey : List Row := [
  (0, "func FetchHostASKey(ctx context.Context, dc daemon.Connector, meta drkey.HostASMeta) ( drkey.HostASKey, error)"),  -- Drkey.connectorFetch dc ans; pin C13_pin_daemon_connector (x_c13.go): fetchHostASKeyBody
  (1, "if dc == nil"),  -- Drkey.connectorFetch: match dc | .nil; ScionSrv.fetchKey: cfg.dcNil (fixed: .error; as found: .nilPanic, F4d)
  (2, "return drkey.HostASKey{}, errNoDaemonConnector"),  -- Drkey.connectorFetch: (none, false) = errNoDaemonConnector, daemon not asked
  (1, "return dc.DRKeyGetHostASKey(ctx, meta)")  -- Drkey.connectorFetch: | .daemon => (ans, true): daemon asked with the caller's meta, its answer is an input
  ]

/-- net/scion, DeriveHostHostKey -/
def Scion.DeriveHostHostKey : List Row := [
  (0, "func DeriveHostHostKey(hostASKey drkey.HostASKey, dstHost string) ( drkey.HostHostKey, error)"),  -- Drkey.deriveHostHost derive k dstHost; harness c13fk op fk.derive
  (1, "deriver := generic.Deriver{ Proto: hostASKey.ProtoId}"),  -- env: scionproto generic.Deriver set-up; the derivation is the oracle parameter `derive` (gets k, ProtoId included)
  (1, "hostHostKey, err := deriver.DeriveHostHost( dstHost, hostASKey.Key)"),  -- Drkey.deriveHostHost: derive k dstHost (oracle, AES-CBC-MAC of scionproto; none = the deriver's error)
  (1, "if err != nil"),  -- Drkey.deriveHostHost: Option.map, none
  (2, "return drkey.HostHostKey{}, err"),  -- Drkey.deriveHostHost: none (Drkey.listenerKey: .derivePanic at the listener's call site)
  (1, "return drkey.HostHostKey{ ProtoId: hostASKey.ProtoId, Epoch: hostASKey.Epoch, SrcIA: hostASKey.SrcIA, DstIA: hostASKey.DstIA, SrcHost: hostASKey.SrcHost, DstHost: dstHost, Key: hostHostKey}, nil")  -- Drkey.deriveHostHost: some ((k.id, dstHost), k.epoch, b): identity and epoch copied, key = derived bytes
  ]

/-- net/scion, FetchHostHostKey -/
def Scion.FetchHostHostKey : List Row := [
  (0, "func FetchHostHostKey(ctx context.Context, dc daemon.Connector, meta drkey.HostHostMeta) ( drkey.HostHostKey, error)"),  -- Drkey.fetchHostHost: non-mock branch, match cfg.dc (body not pinned; harness c13fk op fk.hh conn=nil|direct|grpc)
  (1, "if dc == nil"),  -- Drkey.fetchHostHost: | .nil
  (2, "return drkey.HostHostKey{}, errNoDaemonConnector"),  -- Drkey.fetchHostHost: (none, false) = errNoDaemonConnector
  (1, "return dc.DRKeyGetHostHostKey(ctx, meta)")  -- Drkey.fetchHostHost: | .daemon => (ans, true): the daemon's answer is an input
  ]

/-- net/scion, PacketAuthOptMetadata -/
def Scion.PacketAuthOptMetadata : List Row := [
  (0, "func PacketAuthOptMetadata(authOpt *slayers.EndToEndOption) (spi uint32, algo uint8)"),  -- ScionSrv.authMeta d; harness c13 op auth.meta
  (1, "authOptData := authOpt.OptData"),  -- ScionSrv.authMeta: argument d
  (1, "if len(authOptData) != PacketAuthOptDataLen"),  -- ScionSrv.authMeta: if d.length != optDataLen; pin C13_pin_PacketAuthOptDataLen
  (2, "panic(\"unexpected authenticator option data\")"),  -- ScionSrv.authMeta: .panic explicit:unexpected_authenticator_option_data (C13_meta_panics_iff)
  (1, "spi = uint32(authOptData[3]) | uint32(authOptData[2])<<8 | uint32(authOptData[1])<<16 | uint32(authOptData[0])<<24"),  -- ScionSrv.authMeta: d[3] + d[2] * 256 + d[1] * 65536 + d[0] * 16777216
  (1, "algo = uint8(authOptData[4])"),  -- ScionSrv.authMeta: d.getD 4 0
  (1, "return spi, algo")  -- ScionSrv.authMeta: .ok (spi, alg)
  ]

/-- net/scion, PacketAuthOptMAC -/
def Scion.PacketAuthOptMAC : List Row := [
  (0, "func PacketAuthOptMAC(authOpt *slayers.EndToEndOption) []byte"),  -- ScionSrv.authMAC d; harness c13 op auth.mac
  (1, "authOptData := authOpt.OptData"),  -- ScionSrv.authMAC: argument d
  (1, "if len(authOptData) != PacketAuthOptDataLen"),  -- ScionSrv.authMAC: if d.length != optDataLen; pin C13_pin_PacketAuthOptDataLen
  (2, "panic(\"unexpected authenticator option data\")"),  -- ScionSrv.authMAC: .panic explicit:unexpected_authenticator_option_data
  (1, "return authOptData[PacketAuthMetadataLen:]")  -- ScionSrv.authMAC: .ok (d.drop metadataLen); pin C13_pin_PacketAuthMetadataLen (a copy: aliasing not modelled)
  ]

/-- net/scion, PreparePacketAuthOpt -/
def Scion.PreparePacketAuthOpt : List Row := [
  (0, "func PreparePacketAuthOpt(authOpt *slayers.EndToEndOption, spi uint32, algo uint8)"),  -- ScionSrv.authPrepare d spi alg; harness c13 op auth.prepare
  (1, "authOptData := authOpt.OptData"),  -- ScionSrv.authPrepare: argument d
  (1, "authOptData[0] = byte(spi >> 24)"),  -- ScionSrv.authPrepare: spi / 16777216 % 256; .panic index when d.length < optDataLen (decided once, up front)
  (1, "authOptData[1] = byte(spi >> 16)"),  -- ScionSrv.authPrepare: spi / 65536 % 256
  (1, "authOptData[2] = byte(spi >> 8)"),  -- ScionSrv.authPrepare: spi / 256 % 256
  (1, "authOptData[3] = byte(spi)"),  -- ScionSrv.authPrepare: spi % 256
  (1, "authOptData[4] = byte(algo)"),  -- ScionSrv.authPrepare: alg % 256
  (1, "authOptData[5], authOptData[6], authOptData[7] = 0, 0, 0"),  -- ScionSrv.authPrepare: List.replicate 23 0, bytes 5..7 (reserved, timestamp)
  (1, "authOptData[8], authOptData[9], authOptData[10], authOptData[11] = 0, 0, 0, 0"),  -- ScionSrv.authPrepare: List.replicate 23 0, bytes 8..11 (sequence number)
  (1, "authOptData[12], authOptData[13], authOptData[14], authOptData[15] = 0, 0, 0, 0"),  -- ScionSrv.authPrepare: List.replicate 23 0, bytes 12..15 (authenticator zeroed, C13_meta_prepare)
  (1, "authOptData[16], authOptData[17], authOptData[18], authOptData[19] = 0, 0, 0, 0"),  -- ScionSrv.authPrepare: List.replicate 23 0, bytes 16..19
  (1, "authOptData[20], authOptData[21], authOptData[22], authOptData[23] = 0, 0, 0, 0"),  -- ScionSrv.authPrepare: List.replicate 23 0, bytes 20..23
  (1, "authOptData[24], authOptData[25], authOptData[26], authOptData[27] = 0, 0, 0, 0"),  -- ScionSrv.authPrepare: List.replicate 23 0, bytes 24..27 (++ d.drop optDataLen: the rest untouched)
  (1, "authOpt.OptType = slayers.OptTypeAuthenticator"),  -- harness c13 op auth.prepare: OptType compared with the driver's literal 2; no field of ScionSrv.authPrepare
  (1, "authOpt.OptData = authOptData"),  -- ScionSrv.authPrepare: .ok result is the option's data (stored in place: same backing array)
  (1, "authOpt.OptAlign[0] = 4"),  -- harness c13 op auth.prepare: OptAlign[0] compared with the driver's literal 4:2; no field of ScionSrv.authPrepare
  (1, "authOpt.OptAlign[1] = 2"),  -- harness c13 op auth.prepare: OptAlign[1] compared with the driver's literal 4:2; no field of ScionSrv.authPrepare
  (1, "authOpt.OptDataLen = 0"),  -- UNMODELLED: resets OptDataLen of the reused option to 0; not in authPrepare, not in the answer of op auth.prepare
  (1, "authOpt.ActualLength = 0")  -- UNMODELLED: resets ActualLength of the reused option to 0; not in authPrepare, not in the answer of op auth.prepare
  ]

end ScionTime.Model.Skel
