/-
  Control skeletons of net/scion as the models were written against them
  (notes/SKEL.md).  Each row: (depth, canonical text) as rendered by harness/extract/skeleton.go,
  followed by the model definition / branch that mirrors the statement.  Regenerated rows:
  Gen/SkelC13.lean; pins: Props/SkelC13.lean.  Core Lean only.
-/
import ScionTime.Model.Skel.Basic

namespace ScionTime.Model.Skel

/-- net/scion, UseMockKeys -/
def Scion.UseMockKeys : List Row := [
  (0, "func UseMockKeys() bool"),  -- ?
  (1, "return useMockKeys")  -- ?
  ]

/-- net/scion, Fetcher.FetchHostASKey -/
def Scion.Fetcher_FetchHostASKey : List Row := [
  (0, "func (f *Fetcher) FetchHostASKey(ctx context.Context, meta drkey.HostASMeta) ( drkey.HostASKey, error)"),  -- ?
  (1, "var err error"),  -- ?
  (1, "hak, ok := f.haks[meta.DstIA]"),  -- ?
  (1, "expired := ok && !hak.Epoch.Contains(meta.Validity)"),  -- ?
  (1, "if !ok || expired || hak.ProtoId != meta.ProtoId || hak.SrcIA != meta.SrcIA || hak.DstIA != meta.DstIA || hak.SrcHost != meta.SrcHost"),  -- ?
  (2, "if useMockKeys"),  -- ?
  (3, "now := time.Now()"),  -- ?
  (3, "hak = drkey.HostASKey{ ProtoId: meta.ProtoId, SrcIA: meta.SrcIA, DstIA: meta.DstIA, Epoch: drkey.Epoch{ Validity: cppki.Validity{ NotBefore: now.Add(-6 * time.Hour), NotAfter: now.Add(6 * time.Hour)}}, SrcHost: meta.SrcHost}"),  -- ?
  (2, "else"),  -- ?
  (3, "hak, err = FetchHostASKey(ctx, f.dc, meta)"),  -- ?
  (2, "if err == nil"),  -- ?
  (3, "f.haks[hak.DstIA] = hak"),  -- ?
  (3, "mtrcs := fetcherMtrcs.Load()"),  -- ?
  (3, "if !ok"),  -- ?
  (3, "else"),  -- ?
  (4, "if expired"),  -- ?
  (1, "return hak, err")  -- ?
  ]

/-- net/scion, Fetcher.FetchHostHostKey -/
def Scion.Fetcher_FetchHostHostKey : List Row := [
  (0, "func (f *Fetcher) FetchHostHostKey(ctx context.Context, meta drkey.HostHostMeta) ( drkey.HostHostKey, error)"),  -- ?
  (1, "if useMockKeys"),  -- ?
  (2, "now := time.Now()"),  -- ?
  (2, "return drkey.HostHostKey{ ProtoId: meta.ProtoId, SrcIA: meta.SrcIA, DstIA: meta.DstIA, Epoch: drkey.Epoch{ Validity: cppki.Validity{ NotBefore: now.Add(-6 * time.Hour), NotAfter: now.Add(6 * time.Hour)}}, SrcHost: meta.SrcHost, DstHost: meta.DstHost}, nil"),  -- ?
  (1, "return FetchHostHostKey(ctx, f.dc, meta)")  -- ?
  ]

/-- net/scion, NewFetcher -/
def Scion.NewFetcher : List Row := [
  (0, "func NewFetcher(c daemon.Connector) *Fetcher"),  -- ?
  (1, "return &Fetcher{ dc: c, haks: make(map[addr.IA]drkey.HostASKey)}")  -- ?
  ]

/-- net/scion, FetchHostASKey -/
def Scion.FetchHostASKey : List Row := [
  (0, "func FetchHostASKey(ctx context.Context, dc daemon.Connector, meta drkey.HostASMeta) ( drkey.HostASKey, error)"),  -- ?
  (1, "if dc == nil"),  -- ?
  (2, "return drkey.HostASKey{}, errNoDaemonConnector"),  -- ?
  (1, "return dc.DRKeyGetHostASKey(ctx, meta)")  -- ?
  ]

/-- net/scion, DeriveHostHostKey -/
def Scion.DeriveHostHostKey : List Row := [
  (0, "func DeriveHostHostKey(hostASKey drkey.HostASKey, dstHost string) ( drkey.HostHostKey, error)"),  -- ?
  (1, "deriver := generic.Deriver{ Proto: hostASKey.ProtoId}"),  -- ?
  (1, "hostHostKey, err := deriver.DeriveHostHost( dstHost, hostASKey.Key)"),  -- ?
  (1, "if err != nil"),  -- ?
  (2, "return drkey.HostHostKey{}, err"),  -- ?
  (1, "return drkey.HostHostKey{ ProtoId: hostASKey.ProtoId, Epoch: hostASKey.Epoch, SrcIA: hostASKey.SrcIA, DstIA: hostASKey.DstIA, SrcHost: hostASKey.SrcHost, DstHost: dstHost, Key: hostHostKey}, nil")  -- ?
  ]

/-- net/scion, FetchHostHostKey -/
def Scion.FetchHostHostKey : List Row := [
  (0, "func FetchHostHostKey(ctx context.Context, dc daemon.Connector, meta drkey.HostHostMeta) ( drkey.HostHostKey, error)"),  -- ?
  (1, "if dc == nil"),  -- ?
  (2, "return drkey.HostHostKey{}, errNoDaemonConnector"),  -- ?
  (1, "return dc.DRKeyGetHostHostKey(ctx, meta)")  -- ?
  ]

/-- net/scion, PacketAuthOptMetadata -/
def Scion.PacketAuthOptMetadata : List Row := [
  (0, "func PacketAuthOptMetadata(authOpt *slayers.EndToEndOption) (spi uint32, algo uint8)"),  -- ?
  (1, "authOptData := authOpt.OptData"),  -- ?
  (1, "if len(authOptData) != PacketAuthOptDataLen"),  -- ?
  (2, "panic(\"unexpected authenticator option data\")"),  -- ?
  (1, "spi = uint32(authOptData[3]) | uint32(authOptData[2])<<8 | uint32(authOptData[1])<<16 | uint32(authOptData[0])<<24"),  -- ?
  (1, "algo = uint8(authOptData[4])"),  -- ?
  (1, "return spi, algo")  -- ?
  ]

/-- net/scion, PacketAuthOptMAC -/
def Scion.PacketAuthOptMAC : List Row := [
  (0, "func PacketAuthOptMAC(authOpt *slayers.EndToEndOption) []byte"),  -- ?
  (1, "authOptData := authOpt.OptData"),  -- ?
  (1, "if len(authOptData) != PacketAuthOptDataLen"),  -- ?
  (2, "panic(\"unexpected authenticator option data\")"),  -- ?
  (1, "return authOptData[PacketAuthMetadataLen:]")  -- ?
  ]

/-- net/scion, PreparePacketAuthOpt -/
def Scion.PreparePacketAuthOpt : List Row := [
  (0, "func PreparePacketAuthOpt(authOpt *slayers.EndToEndOption, spi uint32, algo uint8)"),  -- ?
  (1, "authOptData := authOpt.OptData"),  -- ?
  (1, "authOptData[0] = byte(spi >> 24)"),  -- ?
  (1, "authOptData[1] = byte(spi >> 16)"),  -- ?
  (1, "authOptData[2] = byte(spi >> 8)"),  -- ?
  (1, "authOptData[3] = byte(spi)"),  -- ?
  (1, "authOptData[4] = byte(algo)"),  -- ?
  (1, "authOptData[5], authOptData[6], authOptData[7] = 0, 0, 0"),  -- ?
  (1, "authOptData[8], authOptData[9], authOptData[10], authOptData[11] = 0, 0, 0, 0"),  -- ?
  (1, "authOptData[12], authOptData[13], authOptData[14], authOptData[15] = 0, 0, 0, 0"),  -- ?
  (1, "authOptData[16], authOptData[17], authOptData[18], authOptData[19] = 0, 0, 0, 0"),  -- ?
  (1, "authOptData[20], authOptData[21], authOptData[22], authOptData[23] = 0, 0, 0, 0"),  -- ?
  (1, "authOptData[24], authOptData[25], authOptData[26], authOptData[27] = 0, 0, 0, 0"),  -- ?
  (1, "authOpt.OptType = slayers.OptTypeAuthenticator"),  -- ?
  (1, "authOpt.OptData = authOptData"),  -- ?
  (1, "authOpt.OptAlign[0] = 4"),  -- ?
  (1, "authOpt.OptAlign[1] = 2"),  -- ?
  (1, "authOpt.OptDataLen = 0"),  -- ?
  (1, "authOpt.ActualLength = 0")  -- ?
  ]

end ScionTime.Model.Skel
