/-
  Control skeletons of core/sync as the models were written against them
  (notes/SKEL.md).  Each row: (depth, canonical text) as rendered by harness/extract/skeleton.go,
  followed by the model definition / branch that mirrors the statement.  Regenerated rows:
  Gen/SkelC16.lean; pins: Props/SkelC16.lean.  Core Lean only.
-/
import ScionTime.Model.Skel.Basic

namespace ScionTime.Model.Skel

/-- core/sync, Run -/
def Sync.Run : List Row := [
  (0, "func Run(log *slog.Logger, cfg Config, clk timebase.SystemClock, adj adjustments.Adjustment, refClks, peerClks []client.ReferenceClock)"),  -- ?
  (1, "ctx := context.Background()"),  -- ?
  (1, "if !(cfg.ReferenceClockImpact > 1.0)"),  -- ?
  (2, "panic(\"invalid local reference clock impact factor\")"),  -- ?
  (1, "if !(cfg.PeerClockImpact > 1.0)"),  -- ?
  (2, "panic(\"invalid peer clock impact factor\")"),  -- ?
  (1, "if !(cfg.PeerClockImpact-1.0 > cfg.ReferenceClockImpact)"),  -- ?
  (2, "panic(\"invalid peer clock impact factor\")"),  -- ?
  (1, "if cfg.SyncInterval <= 0"),  -- ?
  (2, "panic(\"invalid sync interval\")"),  -- ?
  (1, "if cfg.SyncTimeout < 0 || cfg.SyncTimeout > cfg.SyncInterval/2"),  -- ?
  (2, "panic(\"invalid sync timeout\")"),  -- ?
  (1, "refClkMaxCorr := cfg.ReferenceClockImpact * float64(clk.Drift(cfg.SyncInterval))"),  -- ?
  (1, "if !(refClkMaxCorr > 0) || math.IsInf(refClkMaxCorr, 1)"),  -- ?
  (2, "panic(\"unexpected system clock behavior\")"),  -- ?
  (1, "peerClkMaxCorr := cfg.PeerClockImpact * float64(clk.Drift(cfg.SyncInterval))"),  -- ?
  (1, "if !(peerClkMaxCorr > 0) || math.IsInf(peerClkMaxCorr, 1)"),  -- ?
  (2, "panic(\"unexpected system clock behavior\")"),  -- ?
  (1, "var refClkClient client.ReferenceClockClient"),  -- ?
  (1, "refClkOffsets := make([]measurements.Measurement, len(refClks))"),  -- ?
  (1, "refClkOffCh := make(chan time.Duration)"),  -- ?
  (1, "if len(peerClks) != 0"),  -- ?
  (2, "peerClks = append(peerClks, &localReferenceClock{})"),  -- ?
  (1, "var peerClkClient client.ReferenceClockClient"),  -- ?
  (1, "peerClkOffsets := make([]measurements.Measurement, len(peerClks))"),  -- ?
  (1, "peerClkOffCh := make(chan time.Duration)"),  -- ?
  (1, "corrGauge := promauto.NewGauge(prometheus.GaugeOpts{ Name: metrics.SyncCorrN, Help: metrics.SyncCorrH})"),  -- ?
  (1, "for"),  -- ?
  (2, "go func() {…}()"),  -- ?
  (3, "func literal 1"),  -- ?
  (4, "var refClkOff time.Duration"),  -- ?
  (4, "if len(refClks) != 0"),  -- ?
  (5, "_, refClkOff = measureOffsetToRefClks( refClkClient, refClks, refClkOffsets, cfg.SyncTimeout)"),  -- ?
  (4, "refClkOffCh <- refClkOff"),  -- ?
  (2, "go func() {…}()"),  -- ?
  (3, "func literal 1"),  -- ?
  (4, "var peerClkOff time.Duration"),  -- ?
  (4, "if len(peerClks) != 0"),  -- ?
  (5, "_, peerClkOff = measureOffsetToRefClks( peerClkClient, peerClks, peerClkOffsets, cfg.SyncTimeout)"),  -- ?
  (4, "peerClkOffCh <- peerClkOff"),  -- ?
  (2, "refClkOff, peerClkOff := <-refClkOffCh, <-peerClkOffCh"),  -- ?
  (2, "refClkCorr, peerClkCorr := refClkOff, peerClkOff"),  -- ?
  (2, "var refClkOk bool"),  -- ?
  (2, "if float64(refClkCorr.Abs()) > refClkMaxCorr"),  -- ?
  (3, "refClkCorr = time.Duration( float64(timemath.Sgn(refClkCorr)) * refClkMaxCorr)"),  -- ?
  (2, "refClkOk = len(refClks) != 0"),  -- ?
  (2, "var peerClkOk bool"),  -- ?
  (2, "if peerClkCorr.Abs() > cfg.PeerClockCutoff"),  -- ?
  (3, "if float64(peerClkCorr.Abs()) > peerClkMaxCorr"),  -- ?
  (4, "peerClkCorr = time.Duration( float64(timemath.Sgn(peerClkCorr)) * peerClkMaxCorr)"),  -- ?
  (3, "peerClkOk = len(peerClks) != 0"),  -- ?
  (2, "var corr time.Duration"),  -- ?
  (2, "switch"),  -- ?
  (3, "case refClkOk && !peerClkOk"),  -- ?
  (4, "corr = refClkCorr"),  -- ?
  (3, "case !refClkOk && peerClkOk"),  -- ?
  (4, "corr = peerClkCorr"),  -- ?
  (3, "case refClkOk && peerClkOk"),  -- ?
  (4, "corr = timemath.Midpoint(refClkCorr, peerClkCorr)"),  -- ?
  (2, "adj.Do(corr)"),  -- ?
  (2, "clk.Sleep(cfg.SyncInterval)")  -- ?
  ]

/-- core/sync, measureOffsetToRefClks -/
def Sync.measureOffsetToRefClks : List Row := [
  (0, "func measureOffsetToRefClks(refClkClient client.ReferenceClockClient, refClks []client.ReferenceClock, refClkOffsets []measurements.Measurement, timeout time.Duration) (time.Time, time.Duration)"),  -- ?
  (1, "ctx, cancel := context.WithTimeout(context.Background(), timeout)"),  -- ?
  (1, "defer cancel()"),  -- ?
  (1, "refClkClient.MeasureClockOffsets(ctx, refClks, refClkOffsets)"),  -- ?
  (1, "m := measurements.FaultTolerantMidpoint(refClkOffsets)"),  -- ?
  (1, "return m.Timestamp, m.Offset")  -- ?
  ]

/-- core/sync, localReferenceClock.MeasureClockOffset -/
def Sync.localReferenceClock_MeasureClockOffset : List Row := [
  (0, "func (c *localReferenceClock) MeasureClockOffset(context.Context) ( time.Time, time.Duration, error)"),  -- ?
  (1, "return time.Time{}, 0, nil")  -- ?
  ]

end ScionTime.Model.Skel
