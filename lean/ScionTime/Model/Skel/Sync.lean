/-
  Control skeletons of core/sync as the models were written against them
  (notes/SKEL.md).  Each row: (depth, canonical text) as rendered by harness/extract/skeleton.go,
  followed by the model definition / branch that mirrors the statement.  Regenerated rows:
  Gen/SkelC16.lean; pins: Props/SkelC16.lean.  Core Lean only.
-/
import ScionTime.Model.Skel.Basic

namespace ScionTime.Model.Skel

/-- core/sync, Run -/
def Sync.Run : List Row := [
  (0, "func Run(log *slog.Logger, cfg Config, clk timebase.SystemClock, adj adjustments.Adjustment, refClks, peerClks []client.ReferenceClock)"),  -- Sync.run / runFrom over Sync.Cfg (harness c01 op sync.run: one whole Run per op); Cfg from MainCfg.toRunCfg
  (1, "ctx := context.Background()"),  -- env: context used only by the dropped log statement
  (1, "if !(cfg.ReferenceClockImpact > 1.0)"),  -- Sync.startup: !(F64.gt c.refImpact one) (as found, F14: Sync.startupOld)
  (2, "panic(\"invalid local reference clock impact factor\")"),  -- Sync.startup: some .refImpact; pin C01_pin_startupMessages (x_c01.go): message 1
  (1, "if !(cfg.PeerClockImpact > 1.0)"),  -- Sync.startup: !(F64.gt c.peerImpact one)
  (2, "panic(\"invalid peer clock impact factor\")"),  -- Sync.startup: some .peerImpact; pin C01_pin_startupMessages (x_c01.go): message 2
  (1, "if !(cfg.PeerClockImpact-1.0 > cfg.ReferenceClockImpact)"),  -- Sync.startup: !(F64.gt (F64.sub c.peerImpact one) c.refImpact)
  (2, "panic(\"invalid peer clock impact factor\")"),  -- Sync.startup: some .peerGap; pin C01_pin_startupMessages (x_c01.go): message 3
  (1, "if cfg.SyncInterval <= 0"),  -- Sync.startup: c.interval ≤ 0
  (2, "panic(\"invalid sync interval\")"),  -- Sync.startup: some .interval; pin C01_pin_startupMessages (x_c01.go): message 4
  (1, "if cfg.SyncTimeout < 0 || cfg.SyncTimeout > cfg.SyncInterval/2"),  -- Sync.startup: c.timeout < 0 ∨ c.timeout > c.interval / 2
  (2, "panic(\"invalid sync timeout\")"),  -- Sync.startup: some .timeout; pin C01_pin_startupMessages (x_c01.go): message 5
  (1, "refClkMaxCorr := cfg.ReferenceClockImpact * float64(clk.Drift(cfg.SyncInterval))"),  -- Sync.refCap: F64.mul c.refImpact (f64OfDur c.drift); clk.Drift(SyncInterval) = input Cfg.drift (oracle C01:drift-arg)
  (1, "if !(refClkMaxCorr > 0) || math.IsInf(refClkMaxCorr, 1)"),  -- Sync.startup: !(F64.gt (refCap c) fzero) || (refCap c == F64.inf false)
  (2, "panic(\"unexpected system clock behavior\")"),  -- Sync.startup: some .refCap; pin C01_pin_startupMessages (x_c01.go): message 6
  (1, "peerClkMaxCorr := cfg.PeerClockImpact * float64(clk.Drift(cfg.SyncInterval))"),  -- Sync.peerCap: F64.mul c.peerImpact (f64OfDur c.drift); same input Cfg.drift
  (1, "if !(peerClkMaxCorr > 0) || math.IsInf(peerClkMaxCorr, 1)"),  -- Sync.startup: !(F64.gt (peerCap c) fzero) || (peerCap c == F64.inf false)
  (2, "panic(\"unexpected system clock behavior\")"),  -- Sync.startup: some .peerCap; pin C01_pin_startupMessages (x_c01.go): message 7
  (1, "var refClkClient client.ReferenceClockClient"),  -- env: declaration; passed BY VALUE to measureOffsetToRefClks, so Collect.guardStep sees g = 0 every round (notes/C16)
  (1, "refClkOffsets := make([]measurements.Measurement, len(refClks))"),  -- Sync.init: ref := List.replicate c.nRef 0 (allocated once; carried as State.ref through runFrom)
  (1, "refClkOffCh := make(chan time.Duration)"),  -- env: channel allocation (hand-over of the ref goroutine's result; Sync.round passes r.2 directly)
  (1, "if len(peerClks) != 0"),  -- Sync.init: if c.nPeer = 0 then [] else …
  (2, "peerClks = append(peerClks, &localReferenceClock{})"),  -- Sync.init: replicate (c.nPeer + 1) 0, the extra slot; Sync.round: psucc := i.peer ++ [localReferenceClockOffset]
  (1, "var peerClkClient client.ReferenceClockClient"),  -- env: declaration (as refClkClient: by-value copy, guard word 0 every round)
  (1, "peerClkOffsets := make([]measurements.Measurement, len(peerClks))"),  -- Sync.init: peer := … (State.peer, length nPeer + 1 or 0)
  (1, "peerClkOffCh := make(chan time.Duration)"),  -- env: channel allocation (hand-over of the peer goroutine's result; Sync.round passes p.2 directly)
  (1, "corrGauge := promauto.NewGauge(prometheus.GaugeOpts{ Name: metrics.SyncCorrN, Help: metrics.SyncCorrH})"),  -- env: Prometheus gauge registration (metrics not modelled; harness c01 gives every Run a fresh registry)
  (1, "for"),  -- Sync.runFrom: one RoundInput per iteration, state r.1 carried on; unconditional for checked by x_c01.go
  (2, "go func() {…}()"),  -- Sync.round: r := measure st.ref i.ref (goroutine flattened: the two sides work on disjoint slices)
  (3, "func literal 1"),  -- Sync.round: r := measure st.ref i.ref
  (4, "var refClkOff time.Duration"),  -- Sync.measure: (ms, 0), offset 0 when there are no reference clocks
  (4, "if len(refClks) != 0"),  -- Sync.measure: if ms.isEmpty (len(refClkOffsets) = len(refClks) forever: C01_measure_length)
  (5, "_, refClkOff = measureOffsetToRefClks( refClkClient, refClks, refClkOffsets, cfg.SyncTimeout)"),  -- Sync.measure: else (s, ftmSorted s); arg cfg.SyncTimeout: harness c01 op sync.run only (in time iff delay < timeout)
  (4, "refClkOffCh <- refClkOff"),  -- Sync.round: r.2 handed to correction
  (2, "go func() {…}()"),  -- Sync.round: p := measure st.peer psucc (goroutine flattened)
  (3, "func literal 1"),  -- Sync.round: p := measure st.peer psucc
  (4, "var peerClkOff time.Duration"),  -- Sync.measure: (ms, 0), offset 0 when no peers are configured
  (4, "if len(peerClks) != 0"),  -- Sync.measure: if ms.isEmpty (st.peer = [] iff nPeer = 0, Sync.init)
  (5, "_, peerClkOff = measureOffsetToRefClks( peerClkClient, peerClks, peerClkOffsets, cfg.SyncTimeout)"),  -- Sync.measure: else (s, ftmSorted s); arg cfg.SyncTimeout: harness c01 op sync.run only, as on the reference side
  (4, "peerClkOffCh <- peerClkOff"),  -- Sync.round: p.2 handed to correction
  (2, "refClkOff, peerClkOff := <-refClkOffCh, <-peerClkOffCh"),  -- Sync.round: join, correction … r.2 p.2 after both measure calls (order of the two receives not modelled)
  (2, "refClkCorr, peerClkCorr := refClkOff, peerClkOff"),  -- Sync.correction: arguments refOff peerOff (refCorr, pp are computed from them)
  (2, "var refClkOk bool"),  -- Sync.correction: refOk
  (2, "if float64(refClkCorr.Abs()) > refClkMaxCorr"),  -- Sync.clamp (refCap c): if F64.gt (f64OfDur (absDur x)) M
  (3, "refClkCorr = time.Duration( float64(timemath.Sgn(refClkCorr)) * refClkMaxCorr)"),  -- Sync.clamp: durOfF64 (F64.mul (F64.ofInt (sgn x)) M) (Sync.sgn = copy of Timemath.sgn)
  (2, "refClkOk = len(refClks) != 0"),  -- Sync.correction: refOk := haveRefs (Sync.round passes !st.ref.isEmpty)
  (2, "var peerClkOk bool"),  -- Sync.peerPart: else (x, false)
  (2, "if peerClkCorr.Abs() > cfg.PeerClockCutoff"),  -- Sync.peerPart: if absDur x > cutoff
  (3, "if float64(peerClkCorr.Abs()) > peerClkMaxCorr"),  -- Sync.clamp (peerCap c): if F64.gt (f64OfDur (absDur x)) M
  (4, "peerClkCorr = time.Duration( float64(timemath.Sgn(peerClkCorr)) * peerClkMaxCorr)"),  -- Sync.clamp: durOfF64 (F64.mul (F64.ofInt (sgn x)) M)
  (3, "peerClkOk = len(peerClks) != 0"),  -- Sync.peerPart: (clamp M x, havePeers) (Sync.round passes !st.peer.isEmpty)
  (2, "var corr time.Duration"),  -- Sync.combine: | false, false => 0 (zero value kept)
  (2, "switch"),  -- Sync.combine: match refOk, peerOk
  (3, "case refClkOk && !peerClkOk"),  -- Sync.combine: | true, false
  (4, "corr = refClkCorr"),  -- Sync.combine: => r
  (3, "case !refClkOk && peerClkOk"),  -- Sync.combine: | false, true
  (4, "corr = peerClkCorr"),  -- Sync.combine: => p
  (3, "case refClkOk && peerClkOk"),  -- Sync.combine: | true, true
  (4, "corr = timemath.Midpoint(refClkCorr, peerClkCorr)"),  -- Sync.combine: => midpoint r p (Sync.midpoint = copy of Timemath.midpoint, int64 wrap-around kept)
  (2, "adj.Do(corr)"),  -- Sync.runFrom: r.2 :: … (the list of adj.Do arguments); pin C01_pin_oneDoOneSleep (x_c01.go): one unconditional call
  (2, "clk.Sleep(cfg.SyncInterval)")  -- pin C01_pin_oneDoOneSleep (x_c01.go): one unconditional clk.Sleep; no sleep in Sync.runFrom (oracle C01:sleep-arg)
  ]

/-- core/sync, measureOffsetToRefClks -/
def Sync.measureOffsetToRefClks : List Row := [
  (0, "func measureOffsetToRefClks(refClkClient client.ReferenceClockClient, refClks []client.ReferenceClock, refClkOffsets []measurements.Measurement, timeout time.Duration) (time.Time, time.Duration)"),  -- Sync.measure (non-empty branch) = collect, sort, FTM; time side: Collect.init t0 (t0 + timeout) …
  (1, "ctx, cancel := context.WithTimeout(context.Background(), timeout)"),  -- Collect.init: deadline, ctxDone := decide (deadline ≤ t0); .cancel = its timer; Sync.RoundInput = in-time successes
  (1, "defer cancel()"),  -- env: context plumbing (timer release); Collect: after .retFull nobody measures, after .observeCancel ctxDone holds
  (1, "refClkClient.MeasureClockOffsets(ctx, refClks, refClkOffsets)"),  -- Sync.collect: in-time successes overwrite the front, rest stays (C16_front_once); detail Collect.run; guard g = 0
  (1, "m := measurements.FaultTolerantMidpoint(refClkOffsets)"),  -- Sync.measure: s := sortOffsets (collect ms succ); ftmSorted s (in-place sort = next State); cf. Measurements.ftm
  (1, "return m.Timestamp, m.Offset")  -- Sync.measure: (s, ftmSorted s); m.Timestamp (Measurements.ftmSel .ts) is not in Sync, Run discards it
  ]

/-- core/sync, localReferenceClock.MeasureClockOffset -/
def Sync.localReferenceClock_MeasureClockOffset : List Row := [
  (0, "func (c *localReferenceClock) MeasureClockOffset(context.Context) ( time.Time, time.Duration, error)"),  -- Sync.localReferenceClockOffset (as a Collect.Sender: due = t0, ok = true)
  (1, "return time.Time{}, 0, nil")  -- Sync.localReferenceClockOffset := 0; Sync.round: psucc ++ [0] when i.localInTime (no error, returns at once)
  ]

end ScionTime.Model.Skel
