/-
  Control skeletons of core/server as the models were written against them
  (notes/SKEL.md).  Each row: (depth, canonical text) as rendered by harness/extract/skeleton.go,
  followed by the model definition / branch that mirrors the statement.  Regenerated rows:
  Gen/SkelC06.lean; pins: Props/SkelC06.lean.  Core Lean only.
-/
import ScionTime.Model.Skel.Basic

namespace ScionTime.Model.Skel

/-- core/server, handleRequest -/
def Server.handleRequest : List Row := [
  (0, "func handleRequest(clientID string, req *ntp.Packet, rxt, txt *time.Time, resp *ntp.Packet)"),  -- Server.handleRequestG (handleRequest := handleRequestG true; harness op srv.hr)
  (1, "resp.SetVersion(ntp.VersionMax)"),  -- ServerReply.replyLvm / replyHeader: version 4
  (1, "resp.SetMode(ntp.ModeServer)"),  -- ServerReply.replyLvm / replyHeader: mode 4
  (1, "resp.Stratum = 1"),  -- ServerReply.replyStratum
  (1, "resp.Poll = req.Poll"),  -- ServerReply.replyHeader: poll copied from the request
  (1, "resp.Precision = -32"),  -- ServerReply.replyPrecision
  (1, "resp.RootDispersion = ntp.Time32{Seconds: 0, Fraction: 10}"),  -- ServerReply.replyRootDispersion
  (1, "resp.ReferenceID = serverRefID"),  -- ServerReply.serverRefID
  (1, "*txt = timebase.Now()"),  -- Server.handleRequestG: argument `now`
  (1, "if !rxt.Before(*txt)"),  -- Server.handleRequestG: txt0, `strict` branch (the repair of F9)
  (2, "*txt = rxt.Add(1)"),  -- Server.handleRequestG: txt0 = rxt0 + 1
  (1, "rxt64 := ntp.Time64FromTime(*rxt)"),  -- Server.handleRequestG: rxt64 := ofTime …
  (1, "txt64 := ntp.Time64FromTime(*txt)"),  -- Server.handleRequestG: txt64 := ofTime …
  (1, "tssMu.Lock()"),  -- Mutex.lean / C07 lock-discipline fact (x_c07.go): the store is a sequential state machine
  (1, "defer tssMu.Unlock()"),  -- Mutex.lean / C07 lock-discipline fact: released on every exit
  (1, "var o, min, max int"),  -- Server.Scan: o, mn, mx (−1 = none)
  (1, "tssi, ok := tss[clientID]"),  -- Server.handleRequestG: match st.items.find id
  (1, "if ok"),  -- Server.handleRequestG: | some it
  (2, "for"),  -- Server.uniq: outer loop (fuel len + 1, Props/C06)
  (3, "var i int"),  -- Server.collides / scanAux: loop index
  (3, "for i, o, min, max = 0, -1, -1, -1; i != tssi.len; i++"),  -- Server.scan: init ⟨none, none, none⟩; one pass = collides + scanAux
  (4, "if tssi.buf[i].rxt == rxt64"),  -- Server.collides: e.rx == v
  (5, "break"),  -- Server.collides = true: inner loop left with i ≠ len
  (4, "if tssi.buf[i].rxt == req.OriginTime"),  -- Server.scanStep: o
  (5, "o = i"),  -- Server.scanStep: o := some i
  (4, "if min == -1 || tssi.buf[i].rxt.Before(tssi.buf[min].rxt)"),  -- Server.scanStep: mn (none, or before e.rx v)
  (5, "min = i"),  -- Server.scanStep: mn := some (i, e.rx)
  (4, "if max == -1 || !tssi.buf[i].rxt.Before(tssi.buf[max].rxt)"),  -- Server.scanStep: mx (none, or !before e.rx v)
  (5, "max = i"),  -- Server.scanStep: mx := some (i, e.rx)
  (3, "if i != tssi.len"),  -- Server.uniq: if collides buf (ofTime rxt)
  (4, "*rxt = rxt.Add(1)"),  -- Server.uniq: rxt + 1
  (4, "rxt64 = ntp.Time64FromTime(*rxt)"),  -- Server.uniq / handleRequestG: rxt64 := ofTime u.1
  (4, "if !rxt.Before(*txt)"),  -- Server.uniq: txt := if ¬ (rxt < txt) then rxt + 1
  (5, "*txt = *rxt"),  -- Server.uniq: rxt + 1, first half
  (5, "*txt = txt.Add(1)"),  -- Server.uniq: rxt + 1, second half
  (5, "txt64 = ntp.Time64FromTime(*txt)"),  -- Server.handleRequestG: txt64 := ofTime u.2
  (4, "continue"),  -- Server.uniq: recursive call
  (3, "break"),  -- Server.uniq: else (rxt, txt)
  (1, "else"),  -- Server.handleRequestG: | none
  (2, "if len(tss) == tssCap && !tssQ[0].qval.After(rxt64)"),  -- Server.evict (index tssQ[0]: hrPanics)
  (3, "x := heap.Pop(&tssQ).(*tssItem)"),  -- Server.popMin: heap.Pop
  (3, "delete(tss, x.key)"),  -- Server.popMin: erase
  (2, "if len(tss) == tssCap"),  -- Server.handleRequestG: if st1.items.length = cap
  (3, "tssi = nil"),  -- Server.handleRequestG: result without an item ⟨st1, reply, rxt0, txt0, ev.2⟩
  (2, "else"),  -- Server.handleRequestG: else
  (3, "tssi = &tssItem{key: clientID}"),  -- Server.handleRequestG: it := { buf := [], qval := rxt64, qidx := 0 }
  (3, "tss[tssi.key] = tssi"),  -- Server.handleRequestG: items := (id, it) :: st1.items
  (3, "tssi.qval = rxt64"),  -- Server.handleRequestG: it.qval := rxt64
  (3, "heap.Push(&tssQ, tssi)"),  -- Server.push
  (2, "o, min, max = -1, -1, -1"),  -- Server.handleRequestG: mkReply … none; entry appended (st3)
  (1, "resp.ReferenceTime = txt64"),  -- Server.mkReply: ref := txt64
  (1, "resp.ReceiveTime = rxt64"),  -- Server.mkReply: rx := rxt64
  (1, "if req.ReceiveTime != req.TransmitTime && o != -1"),  -- Server.mkReply: served = some e ∧ req.rx ≠ req.tx
  (2, "resp.OriginTime = req.ReceiveTime"),  -- Server.mkReply: org := req.rx (inter := true)
  (2, "resp.TransmitTime = tssi.buf[o].txt"),  -- Server.mkReply: tx := e.tx
  (1, "else"),  -- Server.mkReply: basic-mode branches
  (2, "resp.OriginTime = req.TransmitTime"),  -- Server.mkReply: org := req.tx
  (2, "resp.TransmitTime = txt64"),  -- Server.mkReply: tx := txt64
  (1, "if tssi != nil"),  -- Server.handleRequestG: the two branches that store (some it; none with room)
  (2, "if max != -1 && rxt64.After(tssi.buf[max].rxt)"),  -- Server.hrFix
  (3, "tssi.qval = rxt64"),  -- Server.fixQval: setQval
  (3, "heap.Fix(&tssQ, tssi.qidx)"),  -- Server.fixQval: fix
  (2, "if o != -1"),  -- Server.storeEntry: | some o
  (3, "tssi.buf[o].rxt = rxt64"),  -- Server.storeEntry: buf.set o e (rx)
  (3, "tssi.buf[o].txt = txt64"),  -- Server.storeEntry: buf.set o e (tx)
  (2, "else if tssi.len == cap(tssi.buf)"),  -- Server.storeEntry: buf.length = icap
  (3, "tssi.buf[min].rxt = rxt64"),  -- Server.storeEntry: buf.set m e (rx)
  (3, "tssi.buf[min].txt = txt64"),  -- Server.storeEntry: buf.set m e (tx)
  (2, "else"),  -- Server.storeEntry: else
  (3, "tssi.buf[tssi.len].rxt = rxt64"),  -- Server.storeEntry: buf ++ [e] (rx)
  (3, "tssi.buf[tssi.len].txt = txt64"),  -- Server.storeEntry: buf ++ [e] (tx)
  (3, "tssi.len++")  -- Server.storeEntry: buf ++ [e] (length)
  ]

/-- core/server, updateTXTimestamp -/
def Server.updateTXTimestamp : List Row := [
  (0, "func updateTXTimestamp(clientID string, rxt time.Time, txt *time.Time)"),  -- Server.updateTX (harness op srv.utx)
  (1, "tssMu.Lock()"),  -- Mutex.lean / C07 lock-discipline fact
  (1, "defer tssMu.Unlock()"),  -- Mutex.lean / C07 lock-discipline fact: released on every exit
  (1, "if !rxt.Before(*txt)"),  -- Server.updateTX: txt := if ¬ (rxt < txt1)
  (2, "*txt = rxt"),  -- Server.updateTX: rxt + 1, first half
  (2, "*txt = txt.Add(1)"),  -- Server.updateTX: rxt + 1, second half
  (1, "tssi, ok := tss[clientID]"),  -- Server.updateTX: match st.items.find id
  (1, "if ok"),  -- Server.updateTX: | some it (| none => (st, txt))
  (2, "rxt64 := ntp.Time64FromTime(rxt)"),  -- Server.updateTX: rxt64
  (2, "txt64 := ntp.Time64FromTime(*txt)"),  -- Server.updateTX: txt64
  (2, "var i, x, max0, max1 int"),  -- Server.Scan2: x, m0, m1
  (2, "for i, x, max0, max1 = 0, -1, -1, -1; i != tssi.len; i++"),  -- Server.scan2: init ⟨none, none, none⟩, scan2Aux
  (3, "if tssi.buf[i].rxt == rxt64"),  -- Server.scan2Step: x
  (4, "x = i"),  -- Server.scan2Step: x := some i
  (3, "if max0 == -1 || !tssi.buf[i].rxt.Before(tssi.buf[max0].rxt)"),  -- Server.scan2Step: m0 (none, or !before e.rx v)
  (4, "max0, max1 = i, max0"),  -- Server.scan2Step: m0 := some (i, e.rx), m1 := old m0
  (3, "else if max1 == -1 || !tssi.buf[i].rxt.Before(tssi.buf[max1].rxt)"),  -- Server.scan2Step: m1 (none, or !before e.rx v')
  (4, "max1 = i"),  -- Server.scan2Step: m1 := some (i, e.rx)
  (2, "if x != -1"),  -- Server.updateTX: match sc.x | some x
  (3, "if tssi.buf[x].txt != txt64"),  -- Server.updateTX: if ex.tx ≠ txt64
  (4, "tssi.buf[x].txt = txt64"),  -- Server.updateTX: b.set x { ex with tx := txt64 }
  (3, "else"),  -- Server.updateTX: else
  (4, "if tssi.len == 1"),  -- Server.updateTX: if it.buf.length = 1
  (5, "heap.Remove(&tssQ, tssi.qidx)"),  -- Server.remove: heap.Remove
  (5, "delete(tss, tssi.key)"),  -- Server.remove: erase
  (4, "else"),  -- Server.updateTX: else
  (5, "if tssi.buf[max0].rxt == rxt64"),  -- Server.utxFix: v0 = rxt64
  (6, "tssi.qval = tssi.buf[max1].rxt"),  -- Server.utxFix: fixQval … v1
  (6, "heap.Fix(&tssQ, tssi.qidx)"),  -- Server.utxFix: fix
  (5, "tssi.buf[x] = tssi.buf[tssi.len-1]"),  -- Server.updateTX: b.set x (last entry)
  (5, "tssi.len--")  -- Server.updateTX: dropLast
  ]

/-- core/server, runIPServer -/
def Server.runIPServer : List Row := [
  (0, "func runIPServer(ctx context.Context, log *slog.Logger, mtrcs *ipServerMetrics, conn *net.UDPConn, iface string, dscp uint8, provider *ntske.Provider)"),  -- ServerReply.runLoopN / ListenerTx.runEvs: goroutine = fold over datagrams (harness c09 ip.hist, c06tx tx.hist)
  (1, "defer conn.Close()"),  -- env: defer conn.Close(); the loop has no exit, so it only runs on a panic
  (1, "err := udp.EnableTimestamping(conn, iface)"),  -- env: socket option set-up; its effect enters ListenerTx as Ev.ntp krx (rx stamp) and KB (tx stamp delivery)
  (1, "if err != nil"),  -- env: error is only logged, loop runs without kernel stamps = Ev.ntp krx none / KB.never (c06tx regime none)
  (1, "err = udp.SetDSCP(conn, dscp)"),  -- env: socket option set-up (IP_TOS / IPV6_TCLASS), no model input
  (1, "if err != nil"),  -- env: error is only logged
  (1, "var txid uint32"),  -- ListenerTx.LSock.init: txid := 0 (Nat for uint32; fewer than 2^31 datagrams per socket assumed)
  (1, "buf := make([]byte, 2048)"),  -- ServerReply.ipServerBufLen: 2048; pin C09_pin_ipServerBufLen (x_c09.go)
  (1, "oob := make([]byte, udp.TimestampLen())"),  -- env: buffer allocation for the control data (CmsgSpace(48) = 64 bytes, one SO_TIMESTAMPING_NEW cmsg)
  (1, "for"),  -- ServerReply.runLoopN / ListenerTx.runEvs: recursion over the list of datagrams (endless loop, no exit)
  (2, "buf = buf[:cap(buf)]"),  -- ServerReply.loopIter: restoreAtTop = true, bl := ipServerBufLen; pin C09_pin_restoreAtLoopTop (x_c09.go)
  (2, "oob = oob[:cap(oob)]"),  -- pin C09_pin_restoreAtLoopTop (x_c09.go): second statement of the loop body; no model state for oob
  (2, "n, oobn, flags, srcAddr, err := conn.ReadMsgUDPAddrPort(buf, oob)"),  -- env: kernel read; inputs: payload (ServerReply.serveWith), oob (Ev.ntp krx), srcAddr (ClientId.clientIdIp)
  (2, "if err != nil"),  -- UNMODELLED: read error (closed socket...) is no input of any model; retried for ever, goroutine never returns
  (3, "continue"),  -- ListenerTx.stepEv: | .drop sk (world unchanged), by analogy only: the failed read is not an event (row 13)
  (2, "if flags != 0"),  -- ServerReply.serveWith: if payload.length > bufLen then .dropTruncated (MSG_TRUNC only; MSG_CTRUNC is no input)
  (3, "continue"),  -- ServerReply.loopIter: | .dropTruncated => bl (continue before buf = buf[:n]); ListenerTx.stepEv: | .drop sk
  (2, "oob = oob[:oobn]"),  -- UNMODELLED: oob cut to this datagram's control bytes; no model keeps oob contents across iterations (stale rx)
  (2, "rxt, err := udp.TimestampFromOOBData(oob)"),  -- Udp.timestampFromOOBData (walkGen true; harness c08 op udp.oob); its verdict is ListenerTx.Ev.ntp krx
  (2, "if err != nil"),  -- ListenerTx.stepEv: rxt0 := krx.getD nowRx, case krx = none
  (3, "oob = oob[:0]"),  -- env: dead store in the IP listener (oob is not read again before row 11; the SCION listener forwards oob)
  (3, "rxt = timebase.Now()"),  -- ListenerTx.stepEv: rxt0 := nowRx (timebase.Now()); Props C06Tx.C06_rx_fallback; harness c06tx regime none
  (2, "buf = buf[:n]"),  -- ServerReply.loopIter: | _ => d.1.length (length left behind); payload = buf[:n] is the argument of serveWith
  (2, "var ntpreq ntp.Packet"),  -- pin C09_pin_requestStateInLoop (x_c09.go): declared zero-valued inside the loop body before ntp.DecodePacket
  (2, "err = ntp.DecodePacket(&ntpreq, buf)"),  -- NtpPacket.decodePacket, called in ServerReply.serveWith: match decodePacket payload (harness c09 op vreqpkt)
  (2, "if err != nil"),  -- ServerReply.serveWith: | .err _ => .dropDecode (| .panic c => .crash c)
  (3, "continue"),  -- ServerReply.loopIter: dropDecode, buffer left at d.1.length; ListenerTx.stepEv: | .drop sk
  (2, "var authenticated bool"),  -- ServerReply.ntsBranch: result .1 / serve: ntsOk (false unless the branch succeeds); per-iteration reset not pinned
  (2, "var ntsreq nts.Packet"),  -- ServerReply.loopIterN: freshNts = true (carried := []); pin C09_pin_requestStateInLoop (x_c09.go)
  (2, "var serverCookie ntske.ServerCookie"),  -- pin C09_pin_requestStateInLoop (x_c09.go): zero-valued per iteration; Nts.serverReplyG: sc
  (2, "if len(buf) > ntp.PacketLen"),  -- ServerReply.serveWith: payload.length > packetLen; ServerReply.entersNts; pin C09_pin_PacketLen
  (3, "err = nts.DecodePacket(&ntsreq, buf)"),  -- Nts.serverReplyG: d <- decodePacketG fixed b; ServerReply.NtsView: decodes, cookies; pin C11_pin_ntsBranch
  (3, "if err != nil"),  -- Nts.serverReplyG: bind on .err (request dropped); ServerReply.ntsBranch: v.decodes = false
  (4, "continue"),  -- ServerReply.serveWith: .dropNts (payload.length > packetLen and ntsOk = false)
  (3, "cookie, err := ntsreq.FirstCookie()"),  -- Nts.serverReplyG: cookie <- firstCookie d; ServerReply.ntsBranch: match all with | c :: _
  (3, "if err != nil"),  -- Nts.firstCookie: | [] => .err .noCookies; ServerReply.ntsBranch: | [] => false
  (4, "continue"),  -- ServerReply.serveWith: .dropNts
  (3, "var encryptedCookie ntske.EncryptedServerCookie"),  -- env: declaration, zero value filled by Decode in the next row
  (3, "err = encryptedCookie.Decode(cookie)"),  -- Nts.serverReplyG: ec <- decodeTLV fixed cookieTypeKeyID cookieTypeNonce cookieTypeCiphertext cookie (ecDecode)
  (3, "if err != nil"),  -- Nts.serverReplyG: bind on .err; ServerReply.NtsView.okWith c = false
  (4, "continue"),  -- ServerReply.serveWith: .dropNts
  (3, "key, ok := provider.Get(int(encryptedCookie.ID))"),  -- Nts.serverReplyG: match keys ec.num; Provider.useStep: | .ntp, get s id t; pin C12_pin_keyUse_runIPServer
  (3, "if !ok"),  -- Nts.serverReplyG: | none => .err .noKey; Provider.useStep: | none => (s, nothing opened); pin C12 ok-checked
  (4, "continue"),  -- ServerReply.serveWith: .dropNts
  (3, "serverCookie, err = encryptedCookie.Decrypt(key.Value)"),  -- Nts.serverReplyG: sc <- decryptCookieG fixed A ec key; Provider.Outcome.opened; pin C12_pin_keyUse_runIPServer
  (3, "if err != nil"),  -- Nts.serverReplyG: bind on .err; ServerReply.NtsView.okWith c = false
  (4, "continue"),  -- ServerReply.serveWith: .dropNts
  (3, "err = nts.ProcessRequest(buf, serverCookie.C2S, &ntsreq)"),  -- Nts.serverReplyG: cs <- processRequestG fixed A b sc.y d (sc.y = C2S; cs = ntsreq.Cookies afterwards)
  (3, "if err != nil"),  -- Nts.serverReplyG: bind on .err; ServerReply.NtsView.okWith c = false; Provider.useStep: auth = false
  (4, "continue"),  -- ServerReply.serveWith: .dropNts
  (3, "authenticated = true"),  -- ServerReply.ntsBranch: result .1 = true (ntsOk); Provider.useStep: | .ntp, auth = true
  (2, "err = ntp.ValidateRequest(&ntpreq, srcAddr.Port())"),  -- NtpPacket.validateRequest req.lvm in ServerReply.serveWith (srcPort unused; after the NTS branch; c09 op vreq)
  (2, "if err != nil"),  -- ServerReply.serveWith: else if validateRequest req.lvm = false then .dropValidate
  (3, "continue"),  -- ServerReply.loopIter: dropValidate, buffer left at d.1.length; ListenerTx.stepEv: | .drop sk
  (2, "clientID := srcAddr.Addr().String()"),  -- ClientId.clientIdIp host; pins C06_pin_clientIdIp_operands, C06_pin_clientID_passed (x_c06.go); c09 op ip.ident
  (2, "var txt0 time.Time"),  -- env: declaration; out-parameter *txt of handleRequest (Server.HR.txt, Out.txt0)
  (2, "var ntpresp ntp.Packet"),  -- ServerReply.replyLvm: zero packet, LVM = 0 (leap indicator 0); ServerReply.replyHeader: rootDelay 0
  (2, "handleRequest(clientID, &ntpreq, &rxt, &txt0, &ntpresp)"),  -- ListenerTx.stepEv: hr := handleRequest cap icap w.store cl req rxt0 now (Server.handleRequestG true)
  (2, "ntp.EncodePacket(&buf, &ntpresp)"),  -- NtpPacket.encodePacket (48 bytes); ServerReply.loopIter: | .reply => packetLen; Nts.serverReplyG: argument hdr
  (2, "if authenticated"),  -- Nts.serverReplyG: part after processRequestG (else the 48-byte reply goes out); harness c09 op ip.hist kinds a/p
  (3, "var cookies [][]byte"),  -- Nts.freshCookies: result list, | 0, r => ([], r)
  (3, "key := provider.Current()"),  -- Nts.serverReplyG: curId curKey; Provider.useStep: current P s c1 c2; pin C12_pin_keyUse_runIPServer (x_c12.go)
  (3, "addedCookie := false"),  -- Nts.serverReplyG: fresh.isEmpty (addedCookie = not fresh.isEmpty)
  (3, "for range len(ntsreq.Cookies) + len(ntsreq.CookiePlaceholders)"),  -- Nts.freshCookies: fuel n := cs.length + d.nph (Nts.serverReplyG); pin C11_pin_ntsBranch: range(...) (x_c11.go)
  (4, "encryptedCookie, err := serverCookie.EncryptWithNonce(key.Value, key.ID)"),  -- Nts.freshCookies: encryptCookie A sc curKey curId nonce, nonce = draw16 of the crypto/rand stream
  (4, "if err != nil"),  -- Nts.freshCookies: match encryptCookie ... | _ => (cs, r'') (this field is skipped)
  (5, "continue"),  -- Nts.freshCookies: | _ => (cs, r'') (next field)
  (4, "cookie := encryptedCookie.Encode()"),  -- Nts.freshCookies: ecEncode ec
  (4, "cookies = append(cookies, cookie)"),  -- Nts.freshCookies: ecEncode ec :: cs (first encrypted cookie first)
  (4, "addedCookie = true"),  -- Nts.serverReplyG: fresh.isEmpty = false
  (3, "if !addedCookie"),  -- Nts.serverReplyG: if fresh.isEmpty then .err .noCookies; ServerReply.serve folds it into ntsOk = false
  (4, "updateTXTimestamp(clientID, rxt, &txt0)"),  -- ListenerTx.stepEv | .unsent: u := updateTX hr.st cl hr.rxt hr.txt (F21 repair; the value recorded is handed back: entry removed, C06_tx_unsent_dropped)
  (4, "continue"),  -- ListenerTx.stepEv | .unsent (no cookie could be encrypted): recorded, nothing sent, exchange removed; old code: codeUnsentOld (F21)
  (3, "ntsresp := nts.NewResponsePacket(cookies, serverCookie.S2C, ntsreq.UniqueID.ID)"),  -- Nts.serverReplyG: pkt <- newResponsePacketG fixed fresh sc.x d.uid (sc.x = S2C; .panic .index on an empty list)
  (3, "nts.EncodePacket(&buf, &ntsresp)"),  -- Nts.serverReplyG: encodePacketG fixed A hdr pkt (draw16 rnd').1 (pack errors panic: errToPanic); c10 op srv.reply
  (2, "n, err = conn.WriteToUDPAddrPort(buf, srcAddr)"),  -- ListenerTx.sendRead: s1 := s.send kb (LSock.send: kernel numbers the datagram); pin C06_pin_txPostSend: 1 site
  (2, "if err != nil || n != len(buf)"),  -- pin C06_pin_txPostSend (x_c06tx.go): send followed by its err != nil check; the failure is no model input (row 76)
  (3, "updateTXTimestamp(clientID, rxt, &txt0)"),  -- ListenerTx.stepEv | .unsent: u := updateTX hr.st cl hr.rxt hr.txt (F21 repair; the value recorded is handed back: entry removed, C06_tx_unsent_dropped)
  (3, "continue"),  -- ListenerTx.stepEv | .unsent (failed / short write): socket untouched (kernel assumed not to count it), exchange removed; old: codeUnsentOld
  (2, "txt1, id, err := udp.ReadTXTimestamp(conn)"),  -- ListenerTx.reads: first call (kernelRead; ListenerTx.readTX, harness c06tx op udp.rtx); pin C06_pin_txPostSend
  (2, "for err == nil && int32(id-txid) < 0"),  -- ListenerTx.reads: if fixed && decide (s.id < txid) (F20 repair; Nat instead of the int32 wrap-around comparison)
  (3, "txt1, id, err = udp.ReadTXTimestamp(conn)"),  -- ListenerTx.reads: recursive call, nreads + 1 (Props C06Tx.C09_reads_bounded)
  (2, "if err != nil"),  -- ListenerTx.decide3: if r.2.2 != .none
  (3, "txt1 = txt0"),  -- ListenerTx.decide3: (txt0, ...) fallback to the software reading
  (3, "txid++"),  -- ListenerTx.decide3: if fixed then txid + 1 (F20 repair); pin C06_pin_txidAssignments (x_c06tx.go)
  (2, "else if id != txid"),  -- ListenerTx.decide3: else if r.2.1 != txid
  (3, "txt1 = txt0"),  -- ListenerTx.decide3: (txt0, r.2.1 + 1) first component
  (3, "txid = id + 1"),  -- ListenerTx.decide3: (txt0, r.2.1 + 1) second component; pin C06_pin_txidAssignments
  (2, "else"),  -- ListenerTx.decide3: else (r.1, txid + 1): the kernel stamp of this very datagram
  (3, "txid++"),  -- ListenerTx.decide3: txid + 1; pin C06_pin_txidAssignments
  (2, "updateTXTimestamp(clientID, rxt, &txt1)")  -- ListenerTx.stepEv: u := updateTX hr.st cl hr.rxt p.txt1; pins C06_pin_txPostSend, C06_pin_clientID_passed
  ]

/-- core/server, runSCIONServer -/
def Server.runSCIONServer : List Row := [
  (0, "func runSCIONServer(ctx context.Context, log *slog.Logger, mtrcs *scionServerMetrics, conn *net.UDPConn, localHostIface string, localHostPort int, dscp uint8, fetcher *scion.Fetcher, provider *ntske.Provider)"),  -- ScionSrv.handleG true (decision per datagram) + ListenerTx.stepEv (send, txid, store) + ServerReply.shouldReplyPayload
  (1, "defer conn.Close()"),  -- env: defer conn.Close()
  (1, "localConnPort := conn.LocalAddr().(*net.UDPAddr).Port"),  -- ScionSrv.Cfg: connPort (port the socket is bound to)
  (1, "err := udp.EnableTimestamping(conn, localHostIface)"),  -- env: socket set-up (SO_TIMESTAMPING); what the kernel then delivers enters as ListenerTx Ev.ntp krx and KB
  (1, "if err != nil"),  -- ListenerTx.KB: | never, Ev.ntp krx = none - error only logged, listener runs on without kernel timestamps
  (1, "err = udp.SetDSCP(conn, dscp)"),  -- env: socket option set-up (IP_TOS); the reply's SCION traffic class is set separately (ScionSrv.ntpReply tc)
  (1, "if err != nil"),  -- env: error only logged, no behaviour in any model
  (1, "var txid uint32"),  -- ListenerTx.LSock.init: txid := 0 (per goroutine / socket); pin C06_pin_txidAssignments: &txid never taken
  (1, "buf := make([]byte, scion.MTU)"),  -- env: buffer allocation (scion.MTU = Gen.Scion.MTU, used by no model; see row 32)
  (1, "oob := make([]byte, udp.TimestampLen())"),  -- env: buffer allocation for ancillary data
  (1, "var ( scionLayer slayers.SCION hbhLayer slayers.HopByHopExtnSkipper e2eLayer slayers.EndToEndExtn udpLayer slayers.UDP scmpLayer slayers.SCMP )"),  -- env: layer structs refilled by the parser every iteration; ScionSrv.serve: no state carried between packets
  (1, "scionLayer.RecyclePaths()"),  -- env: slayers configuration (path objects reused)
  (1, "udpLayer.SetNetworkLayerForChecksum(&scionLayer)"),  -- env: checksum plumbing of the serialiser
  (1, "scmpLayer.SetNetworkLayerForChecksum(&scionLayer)"),  -- env: checksum plumbing of the serialiser
  (1, "parser := gopacket.NewDecodingLayerParser( slayers.LayerTypeSCION, &scionLayer, &hbhLayer, &e2eLayer, &udpLayer, &scmpLayer)"),  -- env: gopacket parser set-up; its result is the abstract ScionSrv.Pkt
  (1, "parser.IgnoreUnsupported = true"),  -- env: parser configuration; an unknown L4 then decodes without error and is ScionSrv.L4.other (row 43)
  (1, "decoded := make([]gopacket.LayerType, 4)"),  -- env: buffer allocation
  (1, "buffer := gopacket.NewSerializeBuffer()"),  -- env: serialisation buffer allocation
  (1, "options := gopacket.SerializeOptions{ ComputeChecksums: true, FixLengths: true}"),  -- env: serialiser options (checksums and lengths computed by slayers, outside the model)
  (1, "var authBuf, authMAC, authMockKey []byte"),  -- env: variable declarations
  (1, "if fetcher != nil"),  -- ScionSrv.Cfg: fetcher (true for StartSCIONServer, false for the dispatcher)
  (2, "authBuf = make([]byte, spao.MACBufferSize)"),  -- env: buffer allocation
  (2, "authMAC = make([]byte, scion.PacketAuthMACLen)"),  -- env: buffer allocation
  (2, "if scion.UseMockKeys()"),  -- ScionSrv.Cfg: mockKeys; Drkey.Cfg: mock
  (3, "authMockKey = new(drkey.Key)[:]"),  -- Drkey.listenerKey: if cfg.mock then List.replicate 16 0 (all-zero key)
  (1, "tsOpt := &slayers.EndToEndOption{}"),  -- env: allocation of the option struct reused by the forwarding branch (rows 117-128)
  (1, "for"),  -- ScionSrv.serve: history.map (handle cfg); ListenerTx.runEvs: one stepEv per datagram
  (2, "buf = buf[:cap(buf)]"),  -- ScionSrv.serve: whole loop as map handle, no buffer state (restore pinned for runIPServer only, C09_pin_restoreAtLoopTop)
  (2, "oob = oob[:cap(oob)]"),  -- UNMODELLED: oob restored after row 37 emptied it; oob is loop state in no model (krx free per event), pin is runIPServer-only
  (2, "n, oobn, flags, lastHop, err := conn.ReadMsgUDPAddrPort(buf, oob)"),  -- env: socket read; results enter as ScionSrv.Pkt (bytes n), Pkt.lastHop, oob -> ListenerTx.Ev.ntp krx
  (2, "if err != nil"),  -- UNMODELLED: read error: continue at once, no back-off or exit, ctx never consulted; no SCION model has a read-error event
  (3, "continue"),  -- ListenerTx.stepEv: | .drop sk - effect only (nothing written, txid and store unchanged); the condition is row 30
  (2, "if flags != 0"),  -- UNMODELLED: flagged read (MSG_TRUNC: datagram longer than the scion.MTU buffer) dropped; no SCION model has this condition
  (3, "continue"),  -- ListenerTx.stepEv: | .drop sk - effect only (no state change); the condition is row 32
  (2, "oob = oob[:oobn]"),  -- env: slices the ancillary data the kernel delivered (input of Udp.timestampFromOOBData)
  (2, "rxt, err := udp.TimestampFromOOBData(oob)"),  -- Udp.timestampFromOOBData (walkGen true) on kernel ancillary data; result = ListenerTx.Ev.ntp krx (some t / none)
  (2, "if err != nil"),  -- ListenerTx.stepEv: rxt0 := krx.getD nowRx - case krx = none
  (3, "oob = oob[:0]"),  -- UNMODELLED: oob emptied so the forwarding branch appends no timestamp option (row 117); the option is in no model
  (3, "rxt = timebase.Now()"),  -- ListenerTx.stepEv: rxt0 := krx.getD nowRx - nowRx (clock reading after the read); Props C06_rx_fallback
  (2, "buf = buf[:n]"),  -- ScionSrv.Pkt: the n bytes handed to the parser; len(buf) enters Pkt.udpLenOk
  (2, "err = parser.DecodeLayers(buf, &decoded)"),  -- env: gopacket/slayers parsing, outside by design; result = ScionSrv.Pkt (l4, e2e, auth, addresses, path, ports, payload)
  (2, "if err != nil"),  -- ScionSrv.handleG: defined only after a successful decode (parser verdict is an input); failure = ListenerTx | .drop sk
  (3, "continue"),  -- ListenerTx.stepEv: | .drop sk
  (2, "validType := len(decoded) >= 2 && (decoded[len(decoded)-1] == slayers.LayerTypeSCIONUDP || decoded[len(decoded)-1] == slayers.LayerTypeSCMP)"),  -- ScionSrv.Pkt.l4: L4.other = neither SCION/UDP nor SCMP last (or fewer than 2 layers)
  (2, "if !validType"),  -- ScionSrv.handleG: | .other => .drop "type"
  (3, "continue"),  -- ScionSrv.handleG: .drop "type"; ListenerTx.stepEv | .drop sk
  (2, "if decoded[len(decoded)-1] == slayers.LayerTypeSCMP"),  -- ScionSrv.handleG: | .scmp t _
  (3, "var payload gopacket.Payload"),  -- env: variable declaration
  (3, "switch scmpLayer.TypeCode.Type()"),  -- ScionSrv.handleG: if t = scmpEchoRequest or t = scmpTracerouteRequest
  (4, "case slayers.SCMPTypeEchoRequest"),  -- ScionSrv.handleG: t = scmpEchoRequest (128)
  (5, "payload = gopacket.Payload(scmpLayer.Payload)"),  -- ScionSrv.mkReply: payload := .echo p.payload
  (5, "scmpLayer.TypeCode = slayers.CreateSCMPTypeCode( slayers.SCMPTypeEchoReply, 0)"),  -- ScionSrv.scmpReply: l4 := .scmp scmpEchoReply 0
  (4, "case slayers.SCMPTypeTracerouteRequest"),  -- ScionSrv.handleG: t = scmpTracerouteRequest (130)
  (5, "payload = gopacket.Payload(scmpLayer.Payload)"),  -- ScionSrv.mkReply: payload := .echo p.payload
  (5, "scmpLayer.TypeCode = slayers.CreateSCMPTypeCode( slayers.SCMPTypeTracerouteReply, 0)"),  -- ScionSrv.scmpReply: l4 := .scmp scmpTracerouteReply 0
  (4, "default"),  -- ScionSrv.handleG: else .drop "scmp-type"
  (5, "continue"),  -- ScionSrv.handleG: .drop "scmp-type"; ListenerTx.stepEv | .drop sk
  (3, "scionLayer.DstIA, scionLayer.SrcIA = scionLayer.SrcIA, scionLayer.DstIA"),  -- ScionSrv.mkReply: srcIA := p.dstIA, dstIA := p.srcIA
  (3, "scionLayer.DstAddrType, scionLayer.SrcAddrType = scionLayer.SrcAddrType, scionLayer.DstAddrType"),  -- ScionSrv.mkReply: srcType := p.dstType, dstType := p.srcType
  (3, "scionLayer.RawDstAddr, scionLayer.RawSrcAddr = scionLayer.RawSrcAddr, scionLayer.RawDstAddr"),  -- ScionSrv.mkReply: srcAddr := p.dstAddr, dstAddr := p.srcAddr
  (3, "scionLayer.Path, err = scionLayer.Path.Reverse()"),  -- ScionSrv.Pkt.rev: oracle Path.Reverse() (harness c13 op srv.handle rev=)
  (3, "if err != nil"),  -- ScionSrv.handleG (scmp): match p.rev | none => if fixed then .drop "reverse" (old: .panic explicit:reverse, F4c)
  (4, "continue"),  -- ScionSrv.handleG: .drop "reverse"; ListenerTx.stepEv | .drop sk
  (3, "scionLayer.PathType = scionLayer.Path.Type()"),  -- ScionSrv.mkReply: pathType := if fixed then rt (type of the reversed path; old code kept p.pathType)
  (3, "scionLayer.NextHdr = slayers.L4SCMP"),  -- ScionSrv.scmpReply: l4 := .scmp .., auth := none - SCMP directly after the SCION header, no extension headers
  (3, "err = buffer.Clear()"),  -- env: serialisation buffer reset (gopacket)
  (3, "if err != nil"),  -- env: gopacket serializeBuffer.Clear always returns nil
  (4, "panic(err)"),  -- env: unreachable, Clear cannot fail
  (3, "err = payload.SerializeTo(buffer, options)"),  -- env: gopacket serialisation of the echoed payload (ScionSrv.RPayload.echo)
  (3, "if err != nil"),  -- env: Payload.SerializeTo fails only if PrependBytes fails, which always returns nil
  (4, "panic(err)"),  -- env: unreachable, see row 69
  (3, "buffer.PushLayer(payload.LayerType())"),  -- env: gopacket layer bookkeeping
  (3, "err = scmpLayer.SerializeTo(buffer, options)"),  -- env: slayers serialisation of the 4-byte SCMP header + checksum (reply compared field-wise by harness c13)
  (3, "if err != nil"),  -- env: tests the serialiser's error; consequence see row 74
  (4, "panic(err)"),  -- UNMODELLED: panic(err) when SCMP.SerializeTo fails (checksum needs raw addresses); Outcome.panic has no serialisation class
  (3, "buffer.PushLayer(scmpLayer.LayerType())"),  -- env: gopacket layer bookkeeping
  (3, "err = scionLayer.SerializeTo(buffer, options)"),  -- env: slayers serialisation of the SCION header (fields = ScionSrv.Reply, compared by harness c13 op srv.handle)
  (3, "if err != nil"),  -- env: tests the serialiser's error; consequence see row 78
  (4, "panic(err)"),  -- UNMODELLED: panic(err) when SCION.SerializeTo fails (header > 1020 bytes / not multiple of 4, address header, reversed path)
  (3, "buffer.PushLayer(scionLayer.LayerType())"),  -- env: gopacket layer bookkeeping
  (3, "m, err := conn.WriteToUDPAddrPort(buffer.Bytes(), lastHop)"),  -- ListenerTx.LSock.send (stepEv | .aux); ScionSrv.mkReply: nextHop := p.lastHop; pin C06_pin_txPostSend: send site 1 of 3
  (3, "if err != nil || m != len(buffer.Bytes())"),  -- ListenerTx: failed write taken as not counted by the kernel = | .drop sk (recorded assumption, notes/C06Tx); no Ev for it
  (4, "continue"),  -- ListenerTx.stepEv: | .drop sk (txid unchanged); see row 81
  (3, "_, id, err := udp.ReadTXTimestamp(conn)"),  -- ListenerTx.reads: first ReadTXTimestamp (readTX / kernelRead); pin C06_pin_txPostSend srcPostSendAux
  (3, "for err == nil && int32(id-txid) < 0"),  -- ListenerTx.reads: fixed && s.id < txid (skip the stamp of an earlier datagram, F20 repair)
  (4, "_, id, err = udp.ReadTXTimestamp(conn)"),  -- ListenerTx.reads: recursive call, nreads + 1
  (3, "if err != nil"),  -- ListenerTx.decide3: r.err ≠ .none
  (4, "txid++"),  -- ListenerTx.decide3: if fixed then txid + 1; pin C06_pin_txidAssignments
  (3, "else if id != txid"),  -- ListenerTx.decide3: else if r.id ≠ txid
  (4, "txid = id + 1"),  -- ListenerTx.decide3: r.id + 1
  (3, "else"),  -- ListenerTx.decide3: else (own stamp)
  (4, "txid++"),  -- ListenerTx.decide3: txid + 1
  (3, "continue"),  -- ListenerTx.stepEv: | .aux sk kb ends (sendRead cfg sock 0 kb, store untouched); ScionSrv.handleG = .reply (scmpReply ..)
  (2, "if len(buf) < int(udpLayer.Length)"),  -- ScionSrv.handleG: | .udp => if !p.udpLenOk
  (3, "continue"),  -- ScionSrv.handleG: .drop "udp-length"; ListenerTx.stepEv | .drop sk
  (2, "srcAddr, ok := netip.AddrFromSlice(scionLayer.RawSrcAddr)"),  -- ScionSrv.addrOk p.srcAddr (4 or 16 bytes); pin C06_pin_clientIdScion_srcAddr (x_c06.go)
  (2, "if !ok"),  -- ScionSrv.handleG: else if !addrOk p.srcAddr - fixed: .drop "src-addr" (old: panic, F4a)
  (3, "continue"),  -- ScionSrv.handleG: .drop "src-addr"; ListenerTx.stepEv | .drop sk
  (2, "dstAddr, ok := netip.AddrFromSlice(scionLayer.RawDstAddr)"),  -- ScionSrv.addrOk p.dstAddr
  (2, "if !ok"),  -- ScionSrv.handleG: else if !addrOk p.dstAddr - fixed: .drop "dst-addr"
  (3, "continue"),  -- ScionSrv.handleG: .drop "dst-addr"; ListenerTx.stepEv | .drop sk
  (2, "if int(udpLayer.DstPort) != localHostPort"),  -- ScionSrv.handleG: else if p.dstPort ≠ cfg.localHostPort
  (3, "if localConnPort != scion.EndhostPort || udpLayer.DstPort == scion.EndhostPort"),  -- ScionSrv.handleG: if cfg.connPort ≠ EndhostPort or p.dstPort = EndhostPort
  (4, "continue"),  -- ScionSrv.handleG: .drop "forward-port"; ListenerTx.stepEv | .drop sk
  (3, "dstAddrPort := netip.AddrPortFrom(dstAddr, udpLayer.DstPort)"),  -- ScionSrv.Fwd: toAddr := p.dstAddr, toPort := p.dstPort
  (3, "payload := gopacket.Payload(udpLayer.Payload)"),  -- ScionSrv.Fwd: pkt := p (payload as received)
  (3, "err = buffer.Clear()"),  -- env: serialisation buffer reset
  (3, "if err != nil"),  -- env: Clear always returns nil
  (4, "panic(err)"),  -- env: unreachable, Clear cannot fail
  (3, "err = payload.SerializeTo(buffer, options)"),  -- env: gopacket serialisation of the payload as received
  (3, "if err != nil"),  -- env: Payload.SerializeTo cannot fail (PrependBytes always returns nil)
  (4, "panic(err)"),  -- env: unreachable, see row 110
  (3, "buffer.PushLayer(payload.LayerType())"),  -- env: gopacket layer bookkeeping
  (3, "err = udpLayer.SerializeTo(buffer, options)"),  -- env: slayers serialisation of the UDP header as received (Fwd.pkt; ports, payload compared by harness c13), checksum redone
  (3, "if err != nil"),  -- env: tests the serialiser's error; consequence see row 115
  (4, "panic(err)"),  -- UNMODELLED: panic(err) when UDP.SerializeTo fails (checksum over the SCION pseudo header)
  (3, "buffer.PushLayer(udpLayer.LayerType())"),  -- env: gopacket layer bookkeeping
  (3, "hasHBH := scionLayer.NextHdr == slayers.HopByHopClass"),  -- ScionSrv.fwdWire: p.hbh.isSome (ScionSrv.recvNext p = .hbh): the received packet's first extension is hop-by-hop
  (3, "hasE2E := decoded[len(decoded)-2] == slayers.LayerTypeEndToEndExtn"),  -- ScionSrv.fwdWire: recvd := if p.e2e then some (recvOpts p) else none (an end-to-end extension directly precedes the UDP header)
  (3, "if len(oob) != 0"),  -- ScionSrv.fwdWire: if p.stamp (a kernel rx timestamp came with the datagram; harness c13 srv.fwd zone=sw|none)
  (4, "tsOpt.OptType = scion.OptTypeTimestamp"),  -- ScionSrv.EOpt.ownTs: option type 253 (pin C13_pin_OptTypeTimestamp; driver / harness print 253:ts)
  (4, "tsOpt.OptData = oob"),  -- ScionSrv.EOpt.ownTs: option data = raw kernel control-message bytes (oob) of this datagram (opaque in the model)
  (4, "tsOpt.OptAlign[0] = 0"),  -- env: alignment of the appended option reset (no padding in front of it)
  (4, "tsOpt.OptAlign[1] = 0"),  -- env: alignment of the appended option reset
  (4, "tsOpt.OptDataLen = 0"),  -- env: stale OptDataLen of the reused option struct reset (FixLengths recomputes it)
  (4, "tsOpt.ActualLength = 0"),  -- env: stale ActualLength of the reused option struct reset
  (4, "if !hasE2E"),  -- ScionSrv.fwdWire: recvd.getD [] (no end-to-end extension received: a new, empty one)
  (5, "e2eLayer = slayers.EndToEndExtn{}"),  -- ScionSrv.fwdWire: recvd.getD [] = [] (whatever e2eLayer held from an earlier packet is discarded)
  (5, "e2eLayer.NextHdr = slayers.L4UDP"),  -- ScionSrv.Wire.e2e: its NextHdr is always UDP
  (5, "hasE2E = true"),  -- ScionSrv.fwdWire: e2e := some (..) when p.stamp
  (4, "e2eLayer.Options = append(e2eLayer.Options, tsOpt)"),  -- ScionSrv.fwdWire: recvd.getD [] ++ [.ownTs] (C13_forward_e2e_options: received options first, in order)
  (3, "if hasE2E"),  -- ScionSrv.fwdWire: e2e.isSome
  (4, "err = e2eLayer.SerializeTo(buffer, options)"),  -- env: slayers serialisation of the E2E extension (options as decoded, padding options included; harness c13 srv.fwd re-parses it)
  (4, "if err != nil"),  -- env: tests the serialiser's error; consequence see next row
  (5, "panic(err)"),  -- UNMODELLED: panic(err) when EndToEndExtn.SerializeTo fails (NextHdr check, length not a multiple of 4)
  (4, "buffer.PushLayer(e2eLayer.LayerType())"),  -- env: gopacket layer bookkeeping
  (4, "if !hasHBH"),  -- ScionSrv.fwdWire: next := if p.hbh.isSome then .hbh else after
  (5, "scionLayer.NextHdr = slayers.End2EndClass"),  -- ScionSrv.fwdWire: next := after = .e2e
  (3, "if hasHBH"),  -- ScionSrv.fwdWire: hbh := p.hbh.map fun b => (after, b)
  (4, "b, err := buffer.PrependBytes(len(hbhLayer.Contents))"),  -- env: room for the hop-by-hop extension in front of what has been serialised
  (4, "if err != nil"),  -- env: PrependBytes of the gopacket buffer always returns nil
  (5, "panic(err)"),  -- env: unreachable, see previous row
  (4, "copy(b, hbhLayer.Contents)"),  -- ScionSrv.fwdWire: hbh bytes as received (C13_forward_hbh_preserved)
  (4, "if hasE2E"),  -- ScionSrv.fwdWire: after := if e2e.isSome then .e2e else .udp
  (5, "b[0] = uint8(slayers.End2EndClass)"),  -- ScionSrv.fwdWire: the extension's NextHdr field := after (C13_forward_parses)
  (4, "buffer.PushLayer(hbhLayer.LayerType())"),  -- env: gopacket layer bookkeeping
  (3, "err = scionLayer.SerializeTo(buffer, options)"),  -- env: slayers serialisation of the SCION header as received (Fwd.pkt; fields compared by harness c13 fmtForward)
  (3, "if err != nil"),  -- env: tests the serialiser's error; consequence see row 136
  (4, "panic(err)"),  -- UNMODELLED: panic(err) when SCION.SerializeTo fails
  (3, "buffer.PushLayer(scionLayer.LayerType())"),  -- env: gopacket layer bookkeeping
  (3, "m, err := conn.WriteToUDPAddrPort(buffer.Bytes(), dstAddrPort)"),  -- ListenerTx.LSock.send (stepEv | .aux); destination = ScionSrv.Fwd toAddr/toPort; pin C06_pin_txPostSend: send site 2 of 3
  (3, "if err != nil || m != len(buffer.Bytes())"),  -- ListenerTx: failed write = | .drop sk (assumed not counted by kernel); notes/C13: IPv6 forward from IPv4 socket fails here
  (4, "continue"),  -- ListenerTx.stepEv: | .drop sk; ScionSrv outcome stays .forward
  (3, "_, id, err := udp.ReadTXTimestamp(conn)"),  -- ListenerTx.reads: first ReadTXTimestamp; pin C06_pin_txPostSend srcPostSendAux
  (3, "for err == nil && int32(id-txid) < 0"),  -- ListenerTx.reads: fixed && s.id < txid
  (4, "_, id, err = udp.ReadTXTimestamp(conn)"),  -- ListenerTx.reads: recursive call
  (3, "if err != nil"),  -- ListenerTx.decide3: r.err ≠ .none
  (4, "txid++"),  -- ListenerTx.decide3: txid + 1 (fixed)
  (3, "else if id != txid"),  -- ListenerTx.decide3: else if r.id ≠ txid
  (4, "txid = id + 1"),  -- ListenerTx.decide3: r.id + 1
  (3, "else"),  -- ListenerTx.decide3: else
  (4, "txid++"),  -- ListenerTx.decide3: txid + 1; stepEv | .aux ends (no continue: end of loop body)
  (2, "else"),  -- ScionSrv.handleG: else (p.dstPort = cfg.localHostPort)
  (3, "if localHostPort == scion.EndhostPort"),  -- ScionSrv.handleG: else if cfg.localHostPort = EndhostPort (dispatcherCfg; Props C13_dispatcher_never_serves)
  (4, "continue"),  -- ScionSrv.handleG: .drop "endhost-port"; ListenerTx.stepEv | .drop sk
  (3, "var ( authOpt *slayers.EndToEndOption authKey []byte )"),  -- env: variable declarations (authOpt = Pkt.auth, authKey = Drkey.KeyUse.key)
  (3, "authenticated := false"),  -- ScionSrv.authCheck: default .go false
  (3, "if fetcher != nil && len(decoded) >= 3 && decoded[len(decoded)-2] == slayers.LayerTypeEndToEndExtn"),  -- ScionSrv.authCheck: if cfg.fetcher && p.e2e (Pkt.e2e = E2E extension directly before the L4 header)
  (4, "authOpt, err = e2eLayer.FindOption(slayers.OptTypeAuthenticator)"),  -- ScionSrv.Pkt.auth: OptData of the first authenticator option
  (4, "if err == nil"),  -- ScionSrv.authCheck: match p.auth | none => .go false | some d
  (5, "if len(authOpt.OptData) != scion.PacketAuthOptDataLen"),  -- ScionSrv.authCheck: if d.length ≠ optDataLen (28; pin C13_pin_PacketAuthOptDataLen)
  (6, "continue"),  -- ScionSrv.authCheck: fixed: .drop "auth-option-length" (old: panic in PacketAuthOptMetadata, F4b)
  (5, "spi, algo := scion.PacketAuthOptMetadata(authOpt)"),  -- ScionSrv.authMeta; harness c13 op auth.meta
  (5, "if spi == scion.PacketAuthSPIClient && algo == scion.PacketAuthAlgorithm"),  -- ScionSrv.authCheck: if spi = spiClient ∧ alg = algorithm, else .go false; pins C13_pin_PacketAuthSPIClient, _Algorithm
  (6, "hostASKey, err := fetcher.FetchHostASKey(ctx, drkey.HostASMeta{ ProtoId: scion.DRKeyProtocolTS, Validity: rxt, SrcIA: scionLayer.DstIA, DstIA: scionLayer.SrcIA, SrcHost: dstAddr.String()})"),  -- ScionSrv.fetchKey (oracle fetchOk) = Drkey.Fetcher.fetchHostAS on Drkey.listenerMeta; pin C13_pin_call_sites; harness c13fk
  (6, "if err != nil"),  -- ScionSrv.authCheck: | .error => .go false (C13_no_key_served_unauthenticated); Drkey.listenerKey: | none => .noKey
  (6, "else"),  -- ScionSrv.authCheck: | .ok; Drkey.listenerKey: | some k
  (7, "hostHostKey, err := scion.DeriveHostHostKey(hostASKey, srcAddr.String())"),  -- Drkey.deriveHostHost in Drkey.listenerKey; ScionSrv.keyOf; pin C13_pin_call_sites (DeriveArgs); harness c13fk fk.derive
  (7, "if err != nil"),  -- Drkey.listenerKey: match deriveHostHost .. | none (not in ScionSrv.authCheck; host strings from netip.Addr.String)
  (8, "panic(err)"),  -- Drkey.listenerKey: .derivePanic (modelled, not executed at listener level, notes/C13)
  (7, "authKey = hostHostKey.Key[:]"),  -- Drkey.listenerKey: .key hh.key
  (7, "if authMockKey != nil"),  -- Drkey.listenerKey: if cfg.mock
  (8, "authKey = authMockKey"),  -- Drkey.listenerKey: List.replicate 16 0 (row 24)
  (7, "_, err = spao.ComputeAuthCMAC( spao.MACInput{ Key: authKey, Header: slayers.PacketAuthOption{EndToEndOption: authOpt}, ScionLayer: &scionLayer, PldType: slayers.L4UDP, Pld: udpLayer.Contents[:len(udpLayer.Contents)+len(udpLayer.Payload)]}, authBuf, authMAC)"),  -- ClientFlow.srvWindows (Props/C13Win: bytes MAC'ed = UDP header ++ bytes decoded, repaired in a1d292c); ScionSrv.Pkt.mac: oracle, real spao MAC by harness c13 under the key of ScionSrv.keyOf, inconsistent udp.Length exercised by stream reframe
  (7, "if err != nil"),  -- ScionSrv.authCheck: match p.mac | none
  (8, "continue"),  -- ScionSrv.authCheck: fixed: .drop "mac-error" (old: panic explicit:mac, F4e)
  (7, "authenticated = subtle.ConstantTimeCompare(scion.PacketAuthOptMAC(authOpt), authMAC) != 0"),  -- ScionSrv.authCheck: d.drop metadataLen = m (ScionSrv.authMAC: bytes 12..28; harness c13 op auth.mac)
  (7, "if !authenticated"),  -- ScionSrv.authCheck: else .drop "bad-mac" (Props C13_bad_mac_never_served)
  (8, "continue"),  -- ScionSrv.authCheck: .drop "bad-mac"; ListenerTx.stepEv | .drop sk
  (3, "var ntpreq ntp.Packet"),  -- pin C09_pin_requestStateInLoop (x_c09.go scionServerRequestStateInLoop): declared in the loop body, zero per datagram
  (3, "err = ntp.DecodePacket(&ntpreq, udpLayer.Payload)"),  -- NtpPacket.decodePacket via ServerReply.shouldReplyPayload; verdict enters ScionSrv.Pkt.ntpOk (oracle)
  (3, "if err != nil"),  -- ServerReply.shouldReplyPayload: match decodePacket payload | _ => false; ScionSrv.handleG: if !p.ntpOk
  (4, "continue"),  -- ScionSrv.handleG: .drop "ntp"; ListenerTx.stepEv | .drop sk
  (3, "ntsAuthenticated := false"),  -- ServerReply.shouldReplyPayload: ntsOk not consulted for a 48-byte payload; Provider.Use: no use
  (3, "var ntsreq nts.Packet"),  -- ServerReply.loopIterN: freshNts = true (carried := []); pin C09_pin_requestStateInLoop
  (3, "var serverCookie ntske.ServerCookie"),  -- pin C09_pin_requestStateInLoop: server cookie declared in the loop body
  (3, "if len(udpLayer.Payload) > ntp.PacketLen"),  -- ServerReply.shouldReplyPayload: payload.length > packetLen; ServerReply.entersNts; branch = Nts.serverReplyG
  (4, "err = nts.DecodePacket(&ntsreq, udpLayer.Payload)"),  -- Nts.serverReplyG: decodePacketG fixed b (appends Cookies: ServerReply.ntsBranch carried ++ ..); pin C11_pin_ntsBranch
  (4, "if err != nil"),  -- Nts.serverReplyG: error of decodePacketG; ServerReply.NtsView.decodes = false
  (5, "continue"),  -- ServerReply.shouldReplyPayload: ntsOk = false => no reply; ScionSrv.handleG .drop "ntp"
  (4, "cookie, err := ntsreq.FirstCookie()"),  -- Nts.firstCookie (ServerReply.ntsBranch: head of carried ++ v.cookies)
  (4, "if err != nil"),  -- Nts.firstCookie: | [] => .err .noCookies
  (5, "continue"),  -- ServerReply.shouldReplyPayload: ntsOk = false; ScionSrv.handleG .drop "ntp"
  (4, "var encryptedCookie ntske.EncryptedServerCookie"),  -- env: variable declaration
  (4, "err = encryptedCookie.Decode(cookie)"),  -- Nts.serverReplyG: decodeTLV fixed cookieTypeKeyID cookieTypeNonce cookieTypeCiphertext cookie (= ecDecode)
  (4, "if err != nil"),  -- Nts.serverReplyG: error of decodeTLV
  (5, "continue"),  -- ServerReply.shouldReplyPayload: ntsOk = false; ScionSrv.handleG .drop "ntp"
  (4, "key, ok := provider.Get(int(encryptedCookie.ID))"),  -- Nts.serverReplyG: match keys ec.num; Provider.useStep | .ntp: get s id t; pin C12_pin_keyUse_runSCIONServer (open@loop)
  (4, "if !ok"),  -- Nts.serverReplyG: | none => .err .noKey; Provider.useStep: | none => no key opened, none sealed
  (5, "continue"),  -- ServerReply.shouldReplyPayload: ntsOk = false; ScionSrv.handleG .drop "ntp"
  (4, "serverCookie, err = encryptedCookie.Decrypt(key.Value)"),  -- Nts.serverReplyG: decryptCookieG fixed A ec key; Provider.Outcome.opened
  (4, "if err != nil"),  -- Nts.serverReplyG: error of decryptCookieG; Provider.useStep: auth = false
  (5, "continue"),  -- ServerReply.shouldReplyPayload: ntsOk = false; ScionSrv.handleG .drop "ntp"
  (4, "err = nts.ProcessRequest(udpLayer.Payload, serverCookie.C2S, &ntsreq)"),  -- Nts.serverReplyG: processRequestG fixed A b sc.y d (C2S key = sc.y)
  (4, "if err != nil"),  -- Nts.serverReplyG: error of processRequestG; Provider.useStep: auth = false
  (5, "continue"),  -- ServerReply.shouldReplyPayload: ntsOk = false; ScionSrv.handleG .drop "ntp"
  (4, "ntsAuthenticated = true"),  -- ServerReply.ntsBranch: true so far (ntsOk also needs one fresh cookie, row 234); Provider.useStep: auth = true
  (3, "err = ntp.ValidateRequest(&ntpreq, udpLayer.SrcPort)"),  -- NtpPacket.validateRequest req.lvm (srcPort unused) via ServerReply.shouldReplyPayload, after the NTS branch
  (3, "if err != nil"),  -- ServerReply.shouldReplyPayload: && validateRequest req.lvm; ScionSrv.Pkt.ntpOk
  (4, "continue"),  -- ScionSrv.handleG: .drop "ntp"; ListenerTx.stepEv | .drop sk
  (3, "clientID := scionLayer.SrcIA.String() + \",\" + srcAddr.String()"),  -- ClientId.clientIdScion (iaText, sep); pins C06_pin_clientIdScion_operands, _sep; harness c13 ops srv.ident, id.text
  (3, "var txt0 time.Time"),  -- env: variable declaration (txt0 = Server.HR.txt)
  (3, "var ntpresp ntp.Packet"),  -- env: variable declaration (ntpresp header = ServerReply.replyHeader)
  (3, "handleRequest(clientID, &ntpreq, &rxt, &txt0, &ntpresp)"),  -- Server.handleRequestG true via ListenerTx.stepEv | .ntp: hr := handleRequest .. rxt0 now; pin C06_pin_clientID_passed
  (3, "scionLayer.TrafficClass = dscp << 2"),  -- ScionSrv.ntpReply: tc := tcOfDscp cfg.dscp (dscp * 4 % 256)
  (3, "scionLayer.DstIA, scionLayer.SrcIA = scionLayer.SrcIA, scionLayer.DstIA"),  -- ScionSrv.mkReply: srcIA := p.dstIA, dstIA := p.srcIA
  (3, "scionLayer.DstAddrType, scionLayer.SrcAddrType = scionLayer.SrcAddrType, scionLayer.DstAddrType"),  -- ScionSrv.mkReply: srcType := p.dstType, dstType := p.srcType
  (3, "scionLayer.RawDstAddr, scionLayer.RawSrcAddr = scionLayer.RawSrcAddr, scionLayer.RawDstAddr"),  -- ScionSrv.mkReply: srcAddr := p.dstAddr, dstAddr := p.srcAddr
  (3, "scionLayer.Path, err = scionLayer.Path.Reverse()"),  -- ScionSrv.Pkt.rev: oracle Path.Reverse()
  (3, "if err != nil"),  -- ScionSrv.handleG (udp): match p.rev | none => if fixed then .drop "reverse" (old: panic, F4c)
  (4, "updateTXTimestamp(clientID, rxt, &txt0)"),  -- ListenerTx.stepEv | .unsent: u := updateTX hr.st cl hr.rxt hr.txt (F21 repair; the value recorded is handed back: entry removed, C06_tx_unsent_dropped)
  (4, "continue"),  -- ListenerTx.stepEv | .unsent (path not reversible; c06tx event r): recorded, nothing sent, exchange removed; old: codeUnsentOld, C06_old_code_unsent_exchange_served_counterexample
  (3, "scionLayer.PathType = scionLayer.Path.Type()"),  -- ScionSrv.mkReply: pathType := rt (fixed)
  (3, "scionLayer.NextHdr = slayers.L4UDP"),  -- ScionSrv.ntpReply: l4 := .udp
  (3, "udpLayer.DstPort, udpLayer.SrcPort = udpLayer.SrcPort, udpLayer.DstPort"),  -- ScionSrv.ntpReply: srcPort := p.dstPort, dstPort := p.srcPort (Props C13_reply_udp)
  (3, "ntp.EncodePacket(&udpLayer.Payload, &ntpresp)"),  -- NtpPacket.encodePacket of ServerReply.replyHeader + Server.mkReply timestamps; RPayload.ntpResponse; hdr of serverReplyG
  (3, "if ntsAuthenticated"),  -- Nts.serverReplyG: second half (after processRequestG); Provider.useStep: if auth
  (4, "var cookies [][]byte"),  -- env: variable declaration
  (4, "key := provider.Current()"),  -- Nts.serverReplyG: (curId, curKey); Provider.useStep | .ntp: current P s c1 c2; pin C12_pin_keyUse_runSCIONServer
  (4, "addedCookie := false"),  -- Nts.serverReplyG: fresh.isEmpty (negated)
  (4, "for range len(ntsreq.Cookies) + len(ntsreq.CookiePlaceholders)"),  -- Nts.freshCookies: n = cs.length + d.nph (cookies after ProcessRequest + placeholders); pin C11_pin_ntsBranch
  (5, "encryptedCookie, err := serverCookie.EncryptWithNonce(key.Value, key.ID)"),  -- Nts.freshCookies: encryptCookie A sc curKey curId nonce (nonce = draw16 of crypto/rand)
  (5, "if err != nil"),  -- Nts.freshCookies: match encryptCookie | _ =>
  (6, "continue"),  -- Nts.freshCookies: | _ => (cs, r'') - failed encryption skipped
  (5, "cookie := encryptedCookie.Encode()"),  -- Nts.freshCookies: ecEncode ec
  (5, "cookies = append(cookies, cookie)"),  -- Nts.freshCookies: ecEncode ec :: cs
  (5, "addedCookie = true"),  -- Nts.serverReplyG: fresh non-empty
  (4, "if !addedCookie"),  -- Nts.serverReplyG: if fresh.isEmpty then .err .noCookies; ServerReply ntsOk includes 'one fresh cookie'
  (5, "updateTXTimestamp(clientID, rxt, &txt0)"),  -- ListenerTx.stepEv | .unsent: u := updateTX hr.st cl hr.rxt hr.txt (F21 repair; the value recorded is handed back: entry removed, C06_tx_unsent_dropped)
  (5, "continue"),  -- ListenerTx.stepEv | .unsent (no cookie could be encrypted): exchange removed; old: codeUnsentOld
  (4, "ntsresp := nts.NewResponsePacket(cookies, serverCookie.S2C, ntsreq.UniqueID.ID)"),  -- Nts.newResponsePacketG fixed fresh sc.x d.uid (S2C key = sc.x)
  (4, "nts.EncodePacket(&udpLayer.Payload, &ntsresp)"),  -- Nts.encodePacketG fixed A hdr pkt nonce
  (3, "payload := gopacket.Payload(udpLayer.Payload)"),  -- ScionSrv.RPayload.ntpResponse (payload of the reply)
  (3, "err = buffer.Clear()"),  -- env: serialisation buffer reset
  (3, "if err != nil"),  -- env: Clear always returns nil
  (4, "panic(err)"),  -- env: unreachable, Clear cannot fail
  (3, "err = payload.SerializeTo(buffer, options)"),  -- env: gopacket serialisation of the NTP/NTS response bytes
  (3, "if err != nil"),  -- env: Payload.SerializeTo cannot fail
  (4, "panic(err)"),  -- env: unreachable, see row 243
  (3, "buffer.PushLayer(payload.LayerType())"),  -- env: gopacket layer bookkeeping
  (3, "err = udpLayer.SerializeTo(buffer, options)"),  -- env: slayers serialisation of the UDP header (ports = ScionSrv.ntpReply), length and checksum by the library
  (3, "if err != nil"),  -- env: tests the serialiser's error; consequence see row 248
  (4, "panic(err)"),  -- UNMODELLED: panic(err) when UDP.SerializeTo fails
  (3, "buffer.PushLayer(udpLayer.LayerType())"),  -- env: gopacket layer bookkeeping
  (3, "if authenticated"),  -- ScionSrv.ntpReply: auth := if authenticated then p.auth.map replyAuthMeta else none (Props C13_reply_auth_iff)
  (4, "scion.PreparePacketAuthOpt(authOpt, scion.PacketAuthSPIServer, scion.PacketAuthAlgorithm)"),  -- ScionSrv.authPrepare d spiServer algorithm (replyAuthMeta); harness c13 op auth.prepare; pin C13_pin_PacketAuthSPIServer
  (4, "_, err = spao.ComputeAuthCMAC( spao.MACInput{ Key: authKey, Header: slayers.PacketAuthOption{EndToEndOption: authOpt}, ScionLayer: &scionLayer, PldType: scionLayer.NextHdr, Pld: buffer.Bytes()}, authBuf, scion.PacketAuthOptMAC(authOpt))"),  -- ScionSrv.Reply.auth: reply MAC is an oracle (same key: keyOf); verified by harness c13 (C13:reply-auth)
  (4, "if err != nil"),  -- env: tests the MAC computation's error; consequence see row 254
  (5, "panic(err)"),  -- UNMODELLED: panic(err) when spao.ComputeAuthCMAC fails on the reply
  (4, "e2eExtn := slayers.EndToEndExtn{}"),  -- ScionSrv.ntpReply: auth = some .. - the reply gets a fresh E2E extension (received options are not echoed)
  (4, "e2eExtn.NextHdr = scionLayer.NextHdr"),  -- ScionSrv.ntpReply: l4 := .udp follows the extension
  (4, "e2eExtn.Options = []*slayers.EndToEndOption{authOpt}"),  -- ScionSrv.Reply.auth: the extension holds exactly the authenticator option
  (4, "err = e2eExtn.SerializeTo(buffer, options)"),  -- env: slayers serialisation of the extension
  (4, "if err != nil"),  -- env: tests the serialiser's error; consequence see row 260
  (5, "panic(err)"),  -- UNMODELLED: panic(err) when EndToEndExtn.SerializeTo fails
  (4, "buffer.PushLayer(e2eExtn.LayerType())"),  -- env: gopacket layer bookkeeping
  (4, "scionLayer.NextHdr = slayers.End2EndClass"),  -- ScionSrv.ntpReply: auth = some .. (E2E extension between SCION header and UDP)
  (3, "err = scionLayer.SerializeTo(buffer, options)"),  -- env: slayers serialisation of the SCION header (fields = ScionSrv.Reply via mkReply/ntpReply; compared by harness c13)
  (3, "if err != nil"),  -- env: tests the serialiser's error; consequence see row 265
  (4, "panic(err)"),  -- UNMODELLED: panic(err) when SCION.SerializeTo fails
  (3, "buffer.PushLayer(scionLayer.LayerType())"),  -- env: gopacket layer bookkeeping
  (3, "n, err = conn.WriteToUDPAddrPort(buffer.Bytes(), lastHop)"),  -- ListenerTx.LSock.send in sendRead (stepEv | .ntp); ScionSrv.mkReply: nextHop := p.lastHop; pin C06_pin_txPostSend site 3
  (3, "if err != nil || n != len(buffer.Bytes())"),  -- ListenerTx: no Ev for a failed write (stepEv | .ntp always sends); assumed not counted by the kernel (notes/C06Tx)
  (4, "updateTXTimestamp(clientID, rxt, &txt0)"),  -- ListenerTx.stepEv | .unsent: u := updateTX hr.st cl hr.rxt hr.txt (F21 repair; the value recorded is handed back: entry removed, C06_tx_unsent_dropped)
  (4, "continue"),  -- ListenerTx.stepEv | .unsent (failed / short write): txid and socket untouched, exchange removed; old: codeUnsentOld
  (3, "txt1, id, err := udp.ReadTXTimestamp(conn)"),  -- ListenerTx.reads: first ReadTXTimestamp (readTX); pin C06_pin_txPostSend srcPostSendNtp
  (3, "for err == nil && int32(id-txid) < 0"),  -- ListenerTx.reads: fixed && s.id < txid
  (4, "txt1, id, err = udp.ReadTXTimestamp(conn)"),  -- ListenerTx.reads: recursive call (txt1 of the last read is kept)
  (3, "if err != nil"),  -- ListenerTx.decide3: r.err ≠ .none
  (4, "txt1 = txt0"),  -- ListenerTx.decide3: (txt0, ..) - fallback to the pre-send reading (Props C03_tx_fallback_is_presend_reading)
  (4, "txid++"),  -- ListenerTx.decide3: txid + 1 (fixed, F20)
  (3, "else if id != txid"),  -- ListenerTx.decide3: else if r.id ≠ txid
  (4, "txt1 = txt0"),  -- ListenerTx.decide3: (txt0, r.id + 1)
  (4, "txid = id + 1"),  -- ListenerTx.decide3: r.id + 1
  (3, "else"),  -- ListenerTx.decide3: else (r.t, ..) own kernel stamp
  (4, "txid++"),  -- ListenerTx.decide3: txid + 1
  (3, "updateTXTimestamp(clientID, rxt, &txt1)")  -- Server.updateTX via ListenerTx.stepEv | .ntp: updateTX hr.st cl hr.rxt p.txt1; pins C06_pin_clientID_passed, _txPostSend
  ]

end ScionTime.Model.Skel
